//go:build verif

package status

// C11 harness for the shared-component LTS (model c11-sc): the real internal/sharedcomponent.Component under ARBITRARY call
// sequences — Start by any instance (with a host that is a componentstatus.Reporter or one that is not, the same instance twice,
// after Shutdown), Shutdown (before any Start, twice), reports by the inner component through the host it was given — against
// `SC.fire` of lean/OtelVerif/Model/C11Sys.lean.  The hosts record the raw Report calls they receive (no state machine), so the
// differential is on the REPORTS handed to every instance, call by call, plus the returned error and the number of times the
// inner component was really started / shut down (once-semantics: C11_shared_once).

import (
	"context"
	"errors"
	"fmt"
	"strings"
	"testing"

	"go.opentelemetry.io/collector/component"
	"go.opentelemetry.io/collector/component/componentstatus"
	"go.opentelemetry.io/collector/internal/sharedcomponent"
)

type c11cInner struct {
	ds, dstop           []componentstatus.Status
	failStart, failStop bool
	host                component.Host
	starts, stops       int
}

func (c *c11cInner) Start(_ context.Context, h component.Host) error {
	c.host = h
	c.starts++
	for _, st := range c.ds {
		componentstatus.ReportStatus(h, componentstatus.NewEvent(st))
	}
	if c.failStart {
		return errors.New("start failed")
	}
	return nil
}

func (c *c11cInner) Shutdown(context.Context) error {
	c.stops++
	if c.host != nil {
		for _, st := range c.dstop {
			componentstatus.ReportStatus(c.host, componentstatus.NewEvent(st))
		}
	}
	if c.failStop {
		return errors.New("shutdown failed")
	}
	return nil
}

// a host that is a componentstatus.Reporter: records what it is handed
type c11cRepHost struct {
	inst int
	log  *[]string
}

func (h *c11cRepHost) GetExtensions() map[component.ID]component.Component { return nil }
func (h *c11cRepHost) Report(ev *componentstatus.Event) {
	*h.log = append(*h.log, fmt.Sprintf("%d:%d", h.inst, int(ev.Status())))
}

// a host that is not
type c11cBareHost struct{}

func (c11cBareHost) GetExtensions() map[component.ID]component.Component { return nil }

func c11cCSV(ss []componentstatus.Status) string {
	if len(ss) == 0 {
		return "-"
	}
	var p []string
	for _, s := range ss {
		p = append(p, fmt.Sprint(int(s)))
	}
	return strings.Join(p, ",")
}

func TestVerifC11SC(t *testing.T) {
	out := vOpen(t)
	defer out.Close()
	out.Linef("model c11-sc 1")
	n := vN(2000)
	for _, c := range vCases(n) {
		rnd := vRand(c)
		out.Linef("case %d", c)
		randSt := func(k int) []componentstatus.Status {
			var o []componentstatus.Status
			for i := rnd.IntN(k + 1); i > 0; i-- {
				o = append(o, componentstatus.Status(1+rnd.IntN(7)))
			}
			return o
		}
		inner := &c11cInner{ds: randSt(3), dstop: randSt(2), failStart: rnd.IntN(6) == 0, failStop: rnd.IntN(6) == 0}
		if rnd.IntN(5) == 0 {
			inner.ds = append(inner.ds, randSt(6)...) // more than the ring holds
		}
		m := sharedcomponent.NewMap[string, *c11cInner]()
		comp, err := m.LoadOrStore("k", func() (*c11cInner, error) { return inner, nil })
		if err != nil {
			t.Fatal(err)
		}
		out.Linef("op script ds=%s fs=%d run=- dstop=%s fstop=%d", c11cCSV(inner.ds), vB(inner.failStart), c11cCSV(inner.dstop), vB(inner.failStop))
		var log []string
		flush := func(errv error) {
			l := "-"
			if len(log) > 0 {
				l = strings.Join(log, ",")
			}
			out.Linef("obs reports %s err=%d starts=%d stops=%d", l, vB(errv != nil), inner.starts, inner.stops)
			log = nil
		}
		steps := 1 + rnd.IntN(12)
		shutdowns := 0
		for s := 0; s < steps; s++ {
			switch k := rnd.IntN(10); {
			case k < 5:
				inst := rnd.IntN(5) // the same instance may start twice
				if rnd.IntN(5) == 0 {
					out.Linef("op start inst=%d rep=0", inst)
					flush(comp.Start(context.Background(), c11cBareHost{}))
				} else {
					out.Linef("op start inst=%d rep=1", inst)
					flush(comp.Start(context.Background(), &c11cRepHost{inst: inst, log: &log}))
				}
			case k < 8:
				st := componentstatus.Status(1 + rnd.IntN(7))
				out.Linef("op report st=%d", int(st))
				if inner.host != nil {
					componentstatus.ReportStatus(inner.host, componentstatus.NewEvent(st))
				}
				flush(nil)
			default:
				if shutdowns >= 2 && rnd.IntN(2) == 0 {
					continue
				}
				shutdowns++
				out.Linef("op shutdown")
				flush(comp.Shutdown(context.Background()))
			}
		}
		if inner.starts > 1 || inner.stops > 1 {
			out.Linef("viol sig=C11/sharedcomponent/inner-component-started-or-stopped-more-than-once starts=%d stops=%d", inner.starts, inner.stops)
		}
		out.Linef("nt")
		out.Linef("stat sc_steps %d", steps)
		out.Linef("end")
		out.Flush()
	}
}
