//go:build verif

package service

// C11 harness at service level: the REAL service.New / Start / Shutdown with a status-watcher EXTENSION
// (componentstatus.Watcher — the property's observation point), scripted pipeline components that report
// statuses from Start, while running (one goroutine per component) and from Shutdown and that fail
// Start/Shutdown at random, and a receiver shared across two signals through the real internal/sharedcomponent.
//   * non-shared instances: exact differential of the watcher's per-instance events against Life.events (model c11-life)
//   * every instance (shared or not): the Lean monitor docPathB on the watcher's events
//   * shared receiver: all instances it represents end in the same status (direct oracle; ring overflow classified)

import (
	"runtime"
	"context"
	"errors"
	"fmt"
	"sort"
	"strconv"
	"strings"
	"sync"
	"testing"

	"go.uber.org/zap"
	"go.uber.org/zap/zapcore"

	"go.opentelemetry.io/collector/component"
	"go.opentelemetry.io/collector/component/componentstatus"
	"go.opentelemetry.io/collector/config/configtelemetry"
	"go.opentelemetry.io/collector/confmap"
	"go.opentelemetry.io/collector/consumer"
	"go.opentelemetry.io/collector/exporter"
	"go.opentelemetry.io/collector/extension"
	"go.opentelemetry.io/collector/internal/sharedcomponent"
	"go.opentelemetry.io/collector/pdata/plog"
	"go.opentelemetry.io/collector/pdata/ptrace"
	"go.opentelemetry.io/collector/pipeline"
	"go.opentelemetry.io/collector/processor"
	"go.opentelemetry.io/collector/receiver"
	"go.opentelemetry.io/collector/service/extensions"
	"go.opentelemetry.io/collector/service/pipelines"
	"go.opentelemetry.io/collector/service/telemetry"
)

type c11sScript struct {
	duringStart, running, duringStop []componentstatus.Status
	failStart, failStop              bool
}

type c11sComp struct {
	name    string
	sc      *c11sScript
	host    component.Host
	started bool
}

func c11sReport(h component.Host, st componentstatus.Status) {
	if h != nil {
		componentstatus.ReportStatus(h, componentstatus.NewEvent(st))
	}
}

func (c *c11sComp) Start(_ context.Context, h component.Host) error {
	c.host, c.started = h, true
	for _, st := range c.sc.duringStart {
		c11sReport(h, st)
	}
	if c.sc.failStart {
		return errors.New("start failed")
	}
	return nil
}

func (c *c11sComp) Shutdown(context.Context) error {
	for _, st := range c.sc.duringStop {
		c11sReport(c.host, st)
	}
	if c.sc.failStop {
		return errors.New("shutdown failed")
	}
	return nil
}
func (c *c11sComp) Capabilities() consumer.Capabilities            { return consumer.Capabilities{} }
func (c *c11sComp) ConsumeLogs(context.Context, plog.Logs) error   { return nil }
func (c *c11sComp) ConsumeTraces(context.Context, ptrace.Traces) error { return nil }

// one per signal: records the order in which the graph calls Start/Shutdown on the instances of the shared receiver
type c11sInst struct {
	sig string
	sh  *sharedcomponent.Component[*c11sComp]
	log *[]string
}

func (i *c11sInst) Start(ctx context.Context, h component.Host) error {
	*i.log = append(*i.log, "start:"+i.sig)
	return i.sh.Start(ctx, h)
}

func (i *c11sInst) Shutdown(ctx context.Context) error {
	*i.log = append(*i.log, "stop:"+i.sig)
	return i.sh.Shutdown(ctx)
}

// the watcher extension
type c11sWatcher struct {
	mu     sync.Mutex
	events map[string][]componentstatus.Status
}

func (w *c11sWatcher) Start(context.Context, component.Host) error { return nil }
func (w *c11sWatcher) Shutdown(context.Context) error              { return nil }
func (w *c11sWatcher) ComponentStatusChanged(src *componentstatus.InstanceID, ev *componentstatus.Event) {
	var pl []string
	src.AllPipelineIDs(func(id pipeline.ID) bool { pl = append(pl, id.String()); return true })
	sort.Strings(pl)
	key := fmt.Sprintf("%s/%s/%s", strings.ToLower(src.Kind().String()), src.ComponentID().Name(), strings.Join(pl, "+"))
	w.mu.Lock()
	w.events[key] = append(w.events[key], ev.Status())
	w.mu.Unlock()
}

func c11sCSV(ss []componentstatus.Status) string {
	if len(ss) == 0 {
		return "-"
	}
	var p []string
	for _, s := range ss {
		p = append(p, strconv.Itoa(int(s)))
	}
	return strings.Join(p, ",")
}

func TestVerifC11Service(t *testing.T) {
	out := vOpen(t)
	defer out.Close()
	out.Linef("model c11-life 1")
	tR, tP, tE, tS, tW := component.MustNewType("r"), component.MustNewType("p"), component.MustNewType("e"), component.MustNewType("s"), component.MustNewType("w")
	n := vN(300)
	for _, c := range vCases(n) {
		rnd := vRand(c)
		out.Linef("case %d", c)
		comps := map[string]*c11sComp{}
		randSt := func(k int) []componentstatus.Status {
			var o []componentstatus.Status
			for i := rnd.IntN(k + 1); i > 0; i-- {
				if rnd.IntN(8) == 0 {
					o = append(o, componentstatus.Status(rnd.IntN(8)))
				} else {
					o = append(o, []componentstatus.Status{componentstatus.StatusOK, componentstatus.StatusRecoverableError,
						componentstatus.StatusPermanentError, componentstatus.StatusRecoverableError, componentstatus.StatusOK}[rnd.IntN(5)])
				}
			}
			return o
		}
		mkc := func(name string, noFail bool) *c11sComp {
			sc := &c11sScript{duringStart: randSt(2), running: randSt(4), duringStop: randSt(2),
				failStart: !noFail && rnd.IntN(14) == 0, failStop: rnd.IntN(8) == 0}
			cc := &c11sComp{name: name, sc: sc}
			comps[name] = cc
			return cc
		}
		withShared := rnd.IntN(2) == 0
		overflow := c == 0 // corpus: the known ring-overflow finding on the real service
		// logs pipeline: r0 [+ shared s0] -> p* -> e0 ; traces pipeline (only with the shared receiver): s0 -> e1
		mkc("r0", false)
		nproc := rnd.IntN(3)
		var pn []string
		for i := 0; i < nproc; i++ {
			pn = append(pn, fmt.Sprintf("p%d", i))
			mkc(pn[i], false)
		}
		mkc("e0", false)
		var shared *c11sComp
		if withShared || overflow {
			withShared = true
			mkc("e1", false)
			shared = mkc("s0", false)
			if overflow {
				shared.sc.duringStart = []componentstatus.Status{componentstatus.StatusPermanentError, componentstatus.StatusOK,
					componentstatus.StatusRecoverableError, componentstatus.StatusOK, componentstatus.StatusRecoverableError, componentstatus.StatusOK}
				shared.sc.running, shared.sc.duringStop, shared.sc.failStop, shared.sc.failStart = nil, nil, false, false
			}
		}
		sharedMap := sharedcomponent.NewMap[string, *c11sComp]()
		watcher := &c11sWatcher{events: map[string][]componentstatus.Status{}}
		dflt := func() component.Config { return &struct{}{} }
		var instLog []string
		mkShared := func(sig string) (*c11sInst, error) {
			sh, err := sharedMap.LoadOrStore("s0", func() (*c11sComp, error) { return shared, nil })
			return &c11sInst{sig: sig, sh: sh, log: &instLog}, err
		}
		set := Settings{
			BuildInfo:     component.NewDefaultBuildInfo(),
			CollectorConf: confmap.New(),
			ReceiversConfigs: map[component.ID]component.Config{component.MustNewIDWithName("r", "r0"): dflt(), component.MustNewIDWithName("s", "s0"): dflt()},
			ReceiversFactories: map[component.Type]receiver.Factory{
				tR: receiver.NewFactory(tR, dflt, receiver.WithLogs(func(_ context.Context, s receiver.Settings, _ component.Config, _ consumer.Logs) (receiver.Logs, error) {
					return comps[s.ID.Name()], nil
				}, component.StabilityLevelStable)),
				tS: receiver.NewFactory(tS, dflt,
					receiver.WithLogs(func(context.Context, receiver.Settings, component.Config, consumer.Logs) (receiver.Logs, error) { return mkShared("logs") }, component.StabilityLevelStable),
					receiver.WithTraces(func(context.Context, receiver.Settings, component.Config, consumer.Traces) (receiver.Traces, error) { return mkShared("traces") }, component.StabilityLevelStable)),
			},
			ProcessorsConfigs: map[component.ID]component.Config{},
			ProcessorsFactories: map[component.Type]processor.Factory{
				tP: processor.NewFactory(tP, dflt, processor.WithLogs(func(_ context.Context, s processor.Settings, _ component.Config, _ consumer.Logs) (processor.Logs, error) {
					return comps[s.ID.Name()], nil
				}, component.StabilityLevelStable)),
			},
			ExportersConfigs: map[component.ID]component.Config{component.MustNewIDWithName("e", "e0"): dflt(), component.MustNewIDWithName("e", "e1"): dflt()},
			ExportersFactories: map[component.Type]exporter.Factory{
				tE: exporter.NewFactory(tE, dflt,
					exporter.WithLogs(func(_ context.Context, s exporter.Settings, _ component.Config) (exporter.Logs, error) { return comps[s.ID.Name()], nil }, component.StabilityLevelStable),
					exporter.WithTraces(func(_ context.Context, s exporter.Settings, _ component.Config) (exporter.Traces, error) { return comps[s.ID.Name()], nil }, component.StabilityLevelStable)),
			},
			ExtensionsConfigs: map[component.ID]component.Config{component.MustNewIDWithName("w", "w0"): dflt()},
			ExtensionsFactories: map[component.Type]extension.Factory{
				tW: extension.NewFactory(tW, dflt, func(context.Context, extension.Settings, component.Config) (extension.Extension, error) { return watcher, nil }, component.StabilityLevelStable),
			},
			AsyncErrorChannel: make(chan error, 64),
			LoggingOptions:    []zap.Option{zap.WrapCore(func(zapcore.Core) zapcore.Core { return zapcore.NewNopCore() })},
		}
		for _, p := range pn {
			set.ProcessorsConfigs[component.MustNewIDWithName("p", p)] = dflt()
		}
		ids := func(ty string, names []string) []component.ID {
			var o []component.ID
			for _, n := range names {
				o = append(o, component.MustNewIDWithName(ty, n))
			}
			return o
		}
		logsRecv := ids("r", []string{"r0"})
		pcs := pipelines.Config{}
		if withShared {
			logsRecv = append(logsRecv, component.MustNewIDWithName("s", "s0"))
			pcs[pipeline.NewIDWithName(pipeline.SignalTraces, "t")] = &pipelines.PipelineConfig{Receivers: ids("s", []string{"s0"}), Exporters: ids("e", []string{"e1"})}
		}
		pcs[pipeline.NewIDWithName(pipeline.SignalLogs, "l")] = &pipelines.PipelineConfig{Receivers: logsRecv, Processors: ids("p", pn), Exporters: ids("e", []string{"e0"})}
		twoPipes := rnd.IntN(2) == 0
		if twoPipes {
			// r0 and e0 are single instances listed by TWO logs pipelines: their instance ids carry both pipeline ids (WithPipelines)
			pcs[pipeline.NewIDWithName(pipeline.SignalLogs, "l2")] = &pipelines.PipelineConfig{Receivers: ids("r", []string{"r0"}), Exporters: ids("e", []string{"e0"})}
		}
		// stormy: every started component keeps reporting from its own goroutine WHILE the service shuts down (its automatic
		// Stopping/Stopped reports interleave with the component's): the per-instance events are then only monitored (docPathB)
		stormy := rnd.IntN(6) == 0 && !overflow
		conf := Config{
			Extensions: extensions.Config{component.MustNewIDWithName("w", "w0")},
			Pipelines:  pcs,
			Telemetry: telemetry.Config{
				Logs: telemetry.LogsConfig{Level: zapcore.ErrorLevel, Encoding: "console", OutputPaths: []string{"stderr"}, ErrorOutputPaths: []string{"stderr"},
					DisableCaller: true, DisableStacktrace: true},
				Metrics: telemetry.MetricsConfig{Level: configtelemetry.LevelNone},
			},
		}
		srv, err := New(context.Background(), set, conf)
		if err != nil {
			out.Linef("viol sig=C11/service/new-failed %s", vHex(err.Error()))
			out.Linef("end")
			continue
		}
		startErr := srv.Start(context.Background())
		if startErr == nil {
			var wg sync.WaitGroup
			for _, cc := range comps {
				wg.Add(1)
				go func() {
					defer wg.Done()
					for _, st := range cc.sc.running {
						c11sReport(cc.host, st)
					}
				}()
			}
			wg.Wait()
		}
		stop := make(chan struct{})
		var storm sync.WaitGroup
		if stormy && startErr == nil {
			for _, cc := range comps {
				if cc.host == nil {
					continue
				}
				storm.Add(1)
				seed := rnd.Uint64()
				go func() {
					defer storm.Done()
					r := vRand(int(seed % 1000003))
					for {
						select {
						case <-stop:
							return
						default:
						}
						c11sReport(cc.host, componentstatus.Status(2+r.IntN(3)))
						runtime.Gosched()
					}
				}()
			}
		}
		_ = srv.Shutdown(context.Background())
		close(stop)
		storm.Wait()
		if stormy && startErr == nil {
			for k, evs := range watcher.events {
				out.Linef("tr events %s %s", k, c11sCSV(evs))
			}
			out.Linef("nt")
			out.Linef("stat stormy 1")
			out.Linef("end")
			out.Flush()
			continue
		}
		var keys []string
		for k := range watcher.events {
			keys = append(keys, k)
		}
		sort.Strings(keys)
		seen := map[string]bool{}
		var sharedFinal []string
		_ = sharedFinal
		for _, k := range keys {
			parts := strings.Split(k, "/")
			name := parts[1]
			evs := watcher.events[k]
			seen[name] = true
			if name == "w0" {
				// the watcher extension itself: automatic reports only
				out.Linef("op life name=%s started=1 ds=- fs=0 allok=%d run=- dstop=- fstop=0", k, vB(startErr == nil))
				out.Linef("obs events %s %s", k, c11sCSV(evs))
				continue
			}
			cc := comps[name]
			if name == "s0" {
				continue // handled below as one `shared` op
			}
			out.Linef("op life name=%s started=%d ds=%s fs=%d allok=%d run=%s dstop=%s fstop=%d", k, vB(cc.started),
				c11sCSV(cc.sc.duringStart), vB(cc.sc.failStart), vB(startErr == nil), c11sCSV(cc.sc.running), c11sCSV(cc.sc.duringStop), vB(cc.sc.failStop))
			out.Linef("obs events %s %s", k, c11sCSV(evs))
		}
		// components that produced no event at all (never started because an earlier Start failed)
		var names []string
		for name := range comps {
			names = append(names, name)
		}
		sort.Strings(names)
		for _, name := range names {
			if !seen[name] && name != "s0" {
				cc := comps[name]
				out.Linef("op life name=%s started=%d ds=%s fs=%d allok=%d run=%s dstop=%s fstop=%d", name, vB(cc.started),
					c11sCSV(cc.sc.duringStart), vB(cc.sc.failStart), vB(startErr == nil), c11sCSV(cc.sc.running), c11sCSV(cc.sc.duringStop), vB(cc.sc.failStop))
				out.Linef("obs events %s -", name)
			}
		}
		if withShared {
			// X = instance started first, P = instance shut down first (order of the graph's calls, recorded by the wrappers)
			keyOf := map[string]string{"logs": "receiver/s0/logs/l", "traces": "receiver/s0/traces/t"}
			var starts, stops []string
			for _, e := range instLog {
				if strings.HasPrefix(e, "start:") {
					starts = append(starts, e[6:])
				} else {
					stops = append(stops, e[5:])
				}
			}
			x, y := "logs", "traces"
			if len(starts) > 0 && starts[0] == "traces" {
				x, y = "traces", "logs"
			}
			pisx := len(stops) > 0 && stops[0] == x
			out.Linef("op shared x=%s y=%s sx=%d sy=%d ds=%s allok=%d run=%s pisx=%d dstop=%s fstop=%d fstart=%d", keyOf[x], keyOf[y], vB(len(starts) >= 1), vB(len(starts) >= 2),
				c11sCSV(shared.sc.duringStart), vB(startErr == nil), c11sCSV(shared.sc.running), vB(pisx), c11sCSV(shared.sc.duringStop), vB(shared.sc.failStop), vB(shared.sc.failStart))
			out.Linef("stat shared_start_fails %d", vB(shared.sc.failStart))
			out.Linef("obs events %s %s", keyOf[x], c11sCSV(watcher.events[keyOf[x]]))
			out.Linef("obs events %s %s", keyOf[y], c11sCSV(watcher.events[keyOf[y]]))
			// direct oracle for "delivers its status to every instance it represents": once both instances are attached, every
			// status the component reports reaches both, so from then on their event sequences must be identical until the graph's
			// own per-instance shutdown reports — checked on the running phase
			_ = sharedFinal
			if 1+len(shared.sc.duringStart) > 5 {
				ex, ey := watcher.events[keyOf[x]], watcher.events[keyOf[y]]
				lx, ly := componentstatus.StatusNone, componentstatus.StatusNone
				if len(ex) > 0 {
					lx = ex[len(ex)-1]
				}
				if len(ey) > 0 {
					ly = ey[len(ey)-1]
				}
				if lx != ly && !shared.sc.failStop {
					out.Linef("viol sig=C11/sharedcomponent/ring-overflow-after-sticky service-level finals=%d,%d", int(lx), int(ly))
				}
			}
		}
		out.Linef("nt")
		out.Linef("stat shared %d", vB(withShared))
		out.Linef("stat startfailed %d", vB(startErr != nil))
		out.Linef("stat two_pipelines %d", vB(twoPipes))
		out.Linef("end")
		out.Flush()
	}
}
