//go:build verif

package status

import (
	"context"
	"fmt"
	"os"
	"runtime"
	"strings"
	"sync"
	"testing"

	"go.opentelemetry.io/collector/component"
	"go.opentelemetry.io/collector/component/componentstatus"
	"go.opentelemetry.io/collector/internal/sharedcomponent"
)

type verifComp struct {
	host component.Host
}

func (c *verifComp) Start(_ context.Context, h component.Host) error { c.host = h; return nil }
func (c *verifComp) Shutdown(context.Context) error                  { return nil }

// verifHost is what the graph gives each component instance: a host whose Report goes to the
// service reporter under that instance's id.
type verifHost struct {
	rep  Reporter
	id   *componentstatus.InstanceID
	slow bool
}

func (h *verifHost) GetExtensions() map[component.ID]component.Component { return nil }
func (h *verifHost) Report(ev *componentstatus.Event) {
	if h.slow {
		// a host is user code and may be slow: widens the window between two concurrent deliveries
		for i := 0; i < 3; i++ {
			runtime.Gosched()
		}
	}
	h.rep.ReportStatus(h.id, ev)
}

// TestVerifC11Shared: a real sharedcomponent.Component started by 1..4 instance hosts at random
// points of a random report history; after every step the current status of every instance
// (= the last event its watcher saw) is compared with the model.
func TestVerifC11Shared(t *testing.T) {
	out := vOpen(t)
	defer out.Close()
	out.Linef("model c11-shared 1")
	n := vN(1000)
	// corpus first: the minimised known failure (ring overflow after a sticky status)
	corpus := [][]int{{-1, 4, 2, 3, 2, 3, 2, -1}}
	for _, c := range vCases(n) {
		rnd := vRand(c)
		var script []int // -1 attach, else status
		if c < len(corpus) {
			script = corpus[c]
		} else {
			length := 1 + rnd.IntN(14)
			script = append(script, -1)
			for k := 0; k < length; k++ {
				if rnd.IntN(5) == 0 {
					script = append(script, -1)
				} else {
					script = append(script, 1+rnd.IntN(7))
				}
			}
		}
		out.Linef("case %d", c)
		cur := map[*componentstatus.InstanceID]componentstatus.Status{}
		seen := map[*componentstatus.InstanceID][]string{}
		rep := NewReporter(func(id *componentstatus.InstanceID, ev *componentstatus.Event) {
			cur[id] = ev.Status()
			seen[id] = append(seen[id], fmt.Sprint(int(ev.Status())))
		}, func(error) {})
		m := sharedcomponent.NewMap[string, *verifComp]()
		comp, err := m.LoadOrStore("k", func() (*verifComp, error) { return &verifComp{}, nil })
		if err != nil {
			t.Fatal(err)
		}
		var ids []*componentstatus.InstanceID
		dump := func() {
			var sb strings.Builder
			for _, id := range ids {
				fmt.Fprintf(&sb, " %d", int(cur[id]))
			}
			out.Linef("obs src%s", sb.String())
		}
		attaches, reports := 0, 0
		for _, a := range script {
			if a == -1 {
				if attaches >= 4 {
					continue
				}
				id := &componentstatus.InstanceID{}
				ids = append(ids, id)
				// as graph.StartAll does: report Starting for the instance, then Start with its host
				rep.ReportStatus(id, componentstatus.NewEvent(componentstatus.StatusStarting))
				first := attaches == 0
				out.Linef("op attach")
				if err := comp.Start(context.Background(), &verifHost{rep: rep, id: id}); err != nil {
					t.Fatal(err)
				}
				attaches++
				if first {
					// Start itself reported StatusStarting through the wrapper; mirror it for the model
					dump()
					out.Linef("op report 1")
				}
				dump()
			} else {
				out.Linef("op report %d", a)
				comp.Unwrap().host.(componentstatus.Reporter).Report(componentstatus.NewEvent(componentstatus.Status(a)))
				reports++
				dump()
			}
		}
		// the whole event sequence every instance's watcher was shown (not only where it ended)
		out.Linef("op evs")
		for i, id := range ids {
			out.Linef("obs evs %d %s", i, strings.Join(seen[id], ","))
		}
		if attaches >= 2 {
			out.Linef("nt")
		}
		out.Linef("stat attaches %d", attaches)
		out.Linef("stat reports %d", reports)
		out.Linef("end")
		out.Flush()
	}
	// race mode: 2-3 instances attached, then the component reports from two goroutines at once. A report is delivered to every
	// attached instance as one atomic step (hostWrapper's lock), so all instances must see the SAME sequence of events.
	if _, replay := os.LookupEnv("VERIF_REPLAY_CASE"); !replay {
		raceN := 3000
		if vThorough() {
			raceN = 40000
		}
		out.Linef("case 3000000")
		bad := 0
		for it := 0; it < raceN; it++ {
			var mu sync.Mutex
			evs := map[*componentstatus.InstanceID][]componentstatus.Status{}
			rep := NewReporter(func(id *componentstatus.InstanceID, ev *componentstatus.Event) {
				mu.Lock()
				evs[id] = append(evs[id], ev.Status())
				mu.Unlock()
			}, func(error) {})
			m := sharedcomponent.NewMap[string, *verifComp]()
			comp, _ := m.LoadOrStore("k", func() (*verifComp, error) { return &verifComp{}, nil })
			k := 2 + it%2
			var ids []*componentstatus.InstanceID
			for i := 0; i < k; i++ {
				id := &componentstatus.InstanceID{}
				ids = append(ids, id)
				rep.ReportStatus(id, componentstatus.NewEvent(componentstatus.StatusStarting))
				_ = comp.Start(context.Background(), &verifHost{rep: rep, id: id, slow: i == 0})
			}
			wrapper := comp.Unwrap().host.(componentstatus.Reporter)
			var wg sync.WaitGroup
			start := make(chan struct{})
			for _, st := range []componentstatus.Status{componentstatus.StatusRecoverableError, componentstatus.StatusOK} {
				wg.Add(1)
				go func() {
					defer wg.Done()
					<-start
					wrapper.Report(componentstatus.NewEvent(st))
				}()
			}
			close(start)
			wg.Wait()
			same := true
			for _, id := range ids[1:] {
				if fmt.Sprint(evs[id]) != fmt.Sprint(evs[ids[0]]) {
					same = false
				}
			}
			if !same && bad < 3 {
				bad++
				var all []string
				for _, id := range ids {
					all = append(all, fmt.Sprint(evs[id]))
				}
				out.Linef("viol sig=C11/sharedcomponent/instances-see-concurrent-reports-in-different-order iteration=%d events=%s", it, vHex(strings.Join(all, " | ")))
			}
		}
		out.Linef("nt")
		out.Linef("stat shared_race_iterations %d", raceN)
		out.Linef("end")
		out.Flush()

		// attach race: one instance is attached; a further instance attaches (Start with its own, slow, host) WHILE the component
		// reports 1-3 alternating statuses from another goroutine. addSource is one atomic step (replay + registration under the
		// wrapper's lock), so the execution is some sequential interleaving "k reports, attach, the rest"; with at most ringCap
		// reported events C11_shared_delivery_partial says the late instance receives the same delivered sequence as the first one,
		// whatever k is. A report that is neither replayed nor fanned out to the attaching instance shows as a shorter sequence.
		out.Linef("case 3000001")
		bad = 0
		for it := 0; it < raceN; it++ {
			var mu sync.Mutex
			evs := map[*componentstatus.InstanceID][]componentstatus.Status{}
			rep := NewReporter(func(id *componentstatus.InstanceID, ev *componentstatus.Event) {
				mu.Lock()
				evs[id] = append(evs[id], ev.Status())
				mu.Unlock()
			}, func(error) {})
			m := sharedcomponent.NewMap[string, *verifComp]()
			comp, _ := m.LoadOrStore("k", func() (*verifComp, error) { return &verifComp{}, nil })
			id0, id1 := &componentstatus.InstanceID{}, &componentstatus.InstanceID{}
			rep.ReportStatus(id0, componentstatus.NewEvent(componentstatus.StatusStarting))
			_ = comp.Start(context.Background(), &verifHost{rep: rep, id: id0})
			wrapper := comp.Unwrap().host.(componentstatus.Reporter)
			nrep := 1 + it%3
			var wg sync.WaitGroup
			start := make(chan struct{})
			wg.Add(2)
			go func() {
				defer wg.Done()
				<-start
				rep.ReportStatus(id1, componentstatus.NewEvent(componentstatus.StatusStarting))
				_ = comp.Start(context.Background(), &verifHost{rep: rep, id: id1, slow: true})
			}()
			go func() {
				defer wg.Done()
				<-start
				if it%4 >= 2 {
					runtime.Gosched()
				}
				for j := 0; j < nrep; j++ {
					st := componentstatus.StatusRecoverableError
					if j%2 == 1 {
						st = componentstatus.StatusOK
					}
					wrapper.Report(componentstatus.NewEvent(st))
				}
			}()
			close(start)
			wg.Wait()
			if fmt.Sprint(evs[id0]) != fmt.Sprint(evs[id1]) && bad < 3 {
				bad++
				out.Linef("viol sig=C11/sharedcomponent/late-instance-missed-a-report-made-while-attaching iteration=%d reports=%d events=%s",
					it, nrep, vHex(fmt.Sprint(evs[id0])+" | "+fmt.Sprint(evs[id1])))
			}
		}
		out.Linef("nt")
		out.Linef("stat shared_attach_race_iterations %d", raceN)
		out.Linef("end")
		out.Flush()
	}
}
