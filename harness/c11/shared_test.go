//go:build verif

package status

import (
	"context"
	"fmt"
	"strings"
	"testing"

	"go.opentelemetry.io/collector/component"
	"go.opentelemetry.io/collector/component/componentstatus"
	"go.opentelemetry.io/collector/internal/sharedcomponent"
)

type verifComp struct {
	host component.Host
}

func (c *verifComp) Start(_ context.Context, h component.Host) error { c.host = h; return nil }
func (c *verifComp) Shutdown(context.Context) error                  { return nil }

// verifHost is what the graph gives each component instance: a host whose Report goes to the
// service reporter under that instance's id.
type verifHost struct {
	rep Reporter
	id  *componentstatus.InstanceID
}

func (h *verifHost) GetExtensions() map[component.ID]component.Component { return nil }
func (h *verifHost) Report(ev *componentstatus.Event)                     { h.rep.ReportStatus(h.id, ev) }

// TestVerifC11Shared: a real sharedcomponent.Component started by 1..4 instance hosts at random
// points of a random report history; after every step the current status of every instance
// (= the last event its watcher saw) is compared with the model.
func TestVerifC11Shared(t *testing.T) {
	out := vOpen(t)
	defer out.Close()
	out.Linef("model c11-shared 1")
	n := vN(1000)
	// corpus first: the minimised known failure (ring overflow after a sticky status)
	corpus := [][]int{{-1, 4, 2, 3, 2, 3, 2, -1}}
	for _, c := range vCases(n) {
		rnd := vRand(c)
		var script []int // -1 attach, else status
		if c < len(corpus) {
			script = corpus[c]
		} else {
			length := 1 + rnd.IntN(14)
			script = append(script, -1)
			for k := 0; k < length; k++ {
				if rnd.IntN(5) == 0 {
					script = append(script, -1)
				} else {
					script = append(script, 1+rnd.IntN(7))
				}
			}
		}
		out.Linef("case %d", c)
		cur := map[*componentstatus.InstanceID]componentstatus.Status{}
		rep := NewReporter(func(id *componentstatus.InstanceID, ev *componentstatus.Event) { cur[id] = ev.Status() }, func(error) {})
		m := sharedcomponent.NewMap[string, *verifComp]()
		comp, err := m.LoadOrStore("k", func() (*verifComp, error) { return &verifComp{}, nil })
		if err != nil {
			t.Fatal(err)
		}
		var ids []*componentstatus.InstanceID
		dump := func() {
			var sb strings.Builder
			for _, id := range ids {
				fmt.Fprintf(&sb, " %d", int(cur[id]))
			}
			out.Linef("obs src%s", sb.String())
		}
		attaches, reports := 0, 0
		for _, a := range script {
			if a == -1 {
				if attaches >= 4 {
					continue
				}
				id := &componentstatus.InstanceID{}
				ids = append(ids, id)
				// as graph.StartAll does: report Starting for the instance, then Start with its host
				rep.ReportStatus(id, componentstatus.NewEvent(componentstatus.StatusStarting))
				first := attaches == 0
				out.Linef("op attach")
				if err := comp.Start(context.Background(), &verifHost{rep: rep, id: id}); err != nil {
					t.Fatal(err)
				}
				attaches++
				if first {
					// Start itself reported StatusStarting through the wrapper; mirror it for the model
					dump()
					out.Linef("op report 1")
				}
				dump()
			} else {
				out.Linef("op report %d", a)
				comp.Unwrap().host.(componentstatus.Reporter).Report(componentstatus.NewEvent(componentstatus.Status(a)))
				reports++
				dump()
			}
		}
		if attaches >= 2 {
			out.Linef("nt")
		}
		out.Linef("stat attaches %d", attaches)
		out.Linef("stat reports %d", reports)
		out.Linef("end")
		out.Flush()
	}
}
