//go:build verif

package service

// C11 system harness (model c11-sys): the REAL service.New / Start / Shutdown — extensions.Start/Shutdown, graph.Build/StartAll/
// ShutdownAll, graph.HostWrapper, the real internal/sharedcomponent — observed at a status-watcher EXTENSION, against the
// code-shaped glue model `Sys` of lean/OtelVerif/Model/C11Sys.lean.
//   * 1-5 pipelines over all FOUR signals (logs, metrics, traces, profiles; optionally a second logs pipeline fed by a connector)
//   * plain receivers / processors / exporters / one connector; instances listed by several pipelines (merged instance ids)
//   * a receiver shared by 1-4 signals and an exporter shared by 1-4 signals through the real sharedcomponent.Map/Component
//   * 1-3 extensions (the watcher + scripted ones that try to report through the bare host and fail Start/Shutdown at random)
//   * every component reports from Start, while running (own goroutine) and from Shutdown, and fails Start/Shutdown at random
// Inputs given to the model: the scripts, and the ORDER in which the implementation called Start / Shutdown on the instances
// (the topological order is not C11's subject).  Everything else — who is reached by start-up, where it aborts, what each
// instance's watcher is shown — is computed by the model and compared exactly, instance by instance.

import (
	"context"
	"errors"
	"fmt"
	"sort"
	"strconv"
	"strings"
	"sync"
	"testing"

	"go.uber.org/zap"
	"go.uber.org/zap/zapcore"

	"go.opentelemetry.io/collector/component"
	"go.opentelemetry.io/collector/component/componentstatus"
	"go.opentelemetry.io/collector/config/configtelemetry"
	"go.opentelemetry.io/collector/confmap"
	"go.opentelemetry.io/collector/connector"
	"go.opentelemetry.io/collector/consumer"
	"go.opentelemetry.io/collector/consumer/xconsumer"
	"go.opentelemetry.io/collector/exporter"
	"go.opentelemetry.io/collector/exporter/xexporter"
	"go.opentelemetry.io/collector/extension"
	"go.opentelemetry.io/collector/internal/sharedcomponent"
	"go.opentelemetry.io/collector/pdata/plog"
	"go.opentelemetry.io/collector/pdata/pmetric"
	"go.opentelemetry.io/collector/pdata/pprofile"
	"go.opentelemetry.io/collector/pdata/ptrace"
	"go.opentelemetry.io/collector/pipeline"
	"go.opentelemetry.io/collector/pipeline/xpipeline"
	"go.opentelemetry.io/collector/processor"
	"go.opentelemetry.io/collector/processor/xprocessor"
	"go.opentelemetry.io/collector/receiver"
	"go.opentelemetry.io/collector/receiver/xreceiver"
	"go.opentelemetry.io/collector/service/extensions"
	"go.opentelemetry.io/collector/service/pipelines"
	"go.opentelemetry.io/collector/service/telemetry"
)

type c11yScript struct {
	ds, run, dstop      []componentstatus.Status
	failStart, failStop bool
}

func c11yCSV(ss []componentstatus.Status) string {
	if len(ss) == 0 {
		return "-"
	}
	var p []string
	for _, s := range ss {
		p = append(p, strconv.Itoa(int(s)))
	}
	return strings.Join(p, ",")
}

func (sc *c11yScript) kv() string {
	b := func(x bool) int {
		if x {
			return 1
		}
		return 0
	}
	return fmt.Sprintf("ds=%s fs=%d run=%s dstop=%s fstop=%d", c11yCSV(sc.ds), b(sc.failStart), c11yCSV(sc.run), c11yCSV(sc.dstop), b(sc.failStop))
}

// the component proper (a plain component, or the single inner component of a shared one)
type c11yInner struct {
	sc   *c11yScript
	host component.Host
}

func c11yReport(h component.Host, st componentstatus.Status) {
	if h != nil {
		componentstatus.ReportStatus(h, componentstatus.NewEvent(st))
	}
}

func (c *c11yInner) Start(_ context.Context, h component.Host) error {
	c.host = h
	for _, st := range c.sc.ds {
		c11yReport(h, st)
	}
	if c.sc.failStart {
		return errors.New("start failed")
	}
	return nil
}

func (c *c11yInner) Shutdown(context.Context) error {
	for _, st := range c.sc.dstop {
		c11yReport(c.host, st)
	}
	if c.sc.failStop {
		return errors.New("shutdown failed")
	}
	return nil
}

// one per graph node / extension: records the order of the service's Start / Shutdown calls
type c11yNode struct {
	key   string // kind/name/pipelines — the watcher's key of this instance
	inst  int
	inner *c11yInner
	sh    *sharedcomponent.Component[*c11yInner]
	k     int // index of the shared component, -1 = plain
	log   *[]string
	// number of events the watcher had been shown for this instance when its Start returned
	evCount         func(string) int
	evAtStartReturn int
	startReturned   bool
}

func (n *c11yNode) Start(ctx context.Context, h component.Host) error {
	*n.log = append(*n.log, "start:"+n.key)
	defer func() {
		if n.evCount != nil {
			n.evAtStartReturn, n.startReturned = n.evCount(n.key), true
		}
	}()
	if n.sh != nil {
		return n.sh.Start(ctx, h)
	}
	return n.inner.Start(ctx, h)
}

func (n *c11yNode) Shutdown(ctx context.Context) error {
	*n.log = append(*n.log, "stop:"+n.key)
	if n.sh != nil {
		return n.sh.Shutdown(ctx)
	}
	return n.inner.Shutdown(ctx)
}
func (n *c11yNode) Capabilities() consumer.Capabilities                        { return consumer.Capabilities{} }
func (n *c11yNode) ConsumeLogs(context.Context, plog.Logs) error               { return nil }
func (n *c11yNode) ConsumeMetrics(context.Context, pmetric.Metrics) error      { return nil }
func (n *c11yNode) ConsumeTraces(context.Context, ptrace.Traces) error         { return nil }
func (n *c11yNode) ConsumeProfiles(context.Context, pprofile.Profiles) error   { return nil }

type c11yWatcher struct {
	mu     sync.Mutex
	events map[string][]componentstatus.Status
	log    *[]string
}

func (w *c11yWatcher) Start(context.Context, component.Host) error {
	*w.log = append(*w.log, "start:extension/w0/")
	return nil
}
func (w *c11yWatcher) Shutdown(context.Context) error { return nil }
func (w *c11yWatcher) ComponentStatusChanged(src *componentstatus.InstanceID, ev *componentstatus.Event) {
	var pl []string
	src.AllPipelineIDs(func(id pipeline.ID) bool { pl = append(pl, id.String()); return true })
	sort.Strings(pl)
	key := fmt.Sprintf("%s/%s/%s", strings.ToLower(src.Kind().String()), src.ComponentID().Name(), strings.Join(pl, "+"))
	w.mu.Lock()
	w.events[key] = append(w.events[key], ev.Status())
	w.mu.Unlock()
}

func TestVerifC11SysService(t *testing.T) {
	out := vOpen(t)
	defer out.Close()
	out.Linef("model c11-sys 1")
	tR, tP, tE, tS, tX, tW, tC, tZ := component.MustNewType("r"), component.MustNewType("p"), component.MustNewType("e"), component.MustNewType("s"),
		component.MustNewType("x"), component.MustNewType("w"), component.MustNewType("c"), component.MustNewType("z")
	allSignals := []pipeline.Signal{pipeline.SignalLogs, pipeline.SignalMetrics, pipeline.SignalTraces, xpipeline.SignalProfiles}
	n := vN(400)
	for _, c := range vCases(n) {
		rnd := vRand(c)
		out.Linef("case %d", c)
		overflow := c == 0 // corpus: the known ring-overflow finding, three signals
		randSt := func(k int) []componentstatus.Status {
			var o []componentstatus.Status
			for i := rnd.IntN(k + 1); i > 0; i-- {
				if rnd.IntN(8) == 0 {
					o = append(o, componentstatus.Status(rnd.IntN(8)))
				} else {
					o = append(o, []componentstatus.Status{componentstatus.StatusOK, componentstatus.StatusRecoverableError,
						componentstatus.StatusPermanentError, componentstatus.StatusRecoverableError, componentstatus.StatusOK}[rnd.IntN(5)])
				}
			}
			return o
		}
		failEvery := 14
		if rnd.IntN(3) == 0 {
			failEvery = 1000 // a third of the cases: start-up succeeds for sure (running phase, orderly shutdown)
		}
		mkScript := func(dsMax int) *c11yScript {
			return &c11yScript{ds: randSt(dsMax), run: randSt(4), dstop: randSt(2), failStart: rnd.IntN(failEvery) == 0, failStop: rnd.IntN(8) == 0}
		}
		// ---- pipelines
		var sigs []pipeline.Signal
		for _, s := range allSignals {
			if rnd.IntN(3) != 0 {
				sigs = append(sigs, s)
			}
		}
		if len(sigs) == 0 || overflow {
			sigs = []pipeline.Signal{pipeline.SignalLogs, pipeline.SignalMetrics, pipeline.SignalTraces}
		}
		type pipe struct {
			id                   pipeline.ID
			recv, proc, exp      []component.ID
		}
		var pipes []*pipe
		for _, s := range sigs {
			pipes = append(pipes, &pipe{id: pipeline.NewIDWithName(s, "a")})
		}
		hasLogs := sigs[0] == pipeline.SignalLogs
		var pipeB *pipe
		if hasLogs && rnd.IntN(2) == 0 {
			pipeB = &pipe{id: pipeline.NewIDWithName(pipeline.SignalLogs, "b")}
			pipes = append(pipes, pipeB)
		}
		withS := overflow || rnd.IntN(3) != 0 // shared receiver s0
		withX := !overflow && rnd.IntN(3) == 0 // shared exporter x0
		withConn := pipeB != nil && rnd.IntN(2) == 0
		id := func(ty, name string) component.ID { return component.MustNewIDWithName(ty, name) }
		for _, p := range pipes {
			inS := withS && (rnd.IntN(3) != 0 || overflow)
			inX := withX && rnd.IntN(3) != 0
			if p == pipeB && withConn {
				p.recv = append(p.recv, id("c", "c0"))
				if rnd.IntN(2) == 0 {
					p.recv = append(p.recv, id("r", "r0")) // r0 listed by logs/a AND logs/b: one instance, merged pipeline ids
				}
			} else if !inS || rnd.IntN(2) == 0 {
				p.recv = append(p.recv, id("r", "r0"))
			}
			if inS {
				p.recv = append(p.recv, id("s", "s0"))
			}
			for i := rnd.IntN(3); i > 0; i-- {
				p.proc = append(p.proc, id("p", fmt.Sprintf("p%s%s%d", p.id.Signal().String()[:1], p.id.Name(), i)))
			}
			if !inX || rnd.IntN(2) == 0 {
				p.exp = append(p.exp, id("e", "e0"))
			}
			if inX {
				p.exp = append(p.exp, id("x", "x0"))
			}
			if p.id.Signal() == pipeline.SignalLogs && p.id.Name() == "a" && withConn {
				p.exp = append(p.exp, id("c", "c0"))
			}
		}
		// ---- nodes (one per instance id), derived from the configuration exactly as graph.Build keys them
		var instLog []string
		nodes := map[string]*c11yNode{}    // by node identity: receiver/<name>/<signal>, processor/<name>/<pipeline>, exporter/…, connector/<name>
		pipesOf := map[string][]string{}
		var identOrder []string
		note := func(ident string, p pipeline.ID) {
			if _, ok := pipesOf[ident]; !ok {
				identOrder = append(identOrder, ident)
			}
			pipesOf[ident] = append(pipesOf[ident], p.String())
		}
		for _, p := range pipes {
			for _, r := range p.recv {
				if r.Type() == tC {
					note("connector/"+r.Name(), p.id)
				} else {
					note("receiver/"+r.Name()+"/"+p.id.Signal().String(), p.id)
				}
			}
			for _, r := range p.proc {
				note("processor/"+r.Name()+"/"+p.id.String(), p.id)
			}
			for _, r := range p.exp {
				if r.Type() == tC {
					note("connector/"+r.Name(), p.id)
				} else {
					note("exporter/"+r.Name()+"/"+p.id.Signal().String(), p.id)
				}
			}
		}
		sharedScripts := []*c11yScript{}
		sharedInner := map[string]*c11yInner{}
		sharedIdx := map[string]int{}
		sharedMap := sharedcomponent.NewMap[string, *c11yInner]()
		for _, nm := range []string{"s0", "x0"} {
			if (nm == "s0" && withS) || (nm == "x0" && withX) {
				sc := mkScript(3)
				if rnd.IntN(6) == 0 {
					sc.ds = append(sc.ds, randSt(6)...) // start-up history that does not fit the ring
				}
				if overflow {
					sc.ds = []componentstatus.Status{componentstatus.StatusPermanentError, componentstatus.StatusOK,
						componentstatus.StatusRecoverableError, componentstatus.StatusOK, componentstatus.StatusRecoverableError, componentstatus.StatusOK}
					sc.run, sc.dstop, sc.failStart, sc.failStop = nil, nil, false, false
				}
				sharedIdx[nm] = len(sharedScripts)
				sharedScripts = append(sharedScripts, sc)
				sharedInner[nm] = &c11yInner{sc: sc}
			}
		}
		for _, ident := range identOrder {
			parts := strings.Split(ident, "/")
			pl := append([]string{}, pipesOf[ident]...)
			sort.Strings(pl)
			// slices.Compact as in addPipelines
			var cp []string
			for i, x := range pl {
				if i == 0 || x != pl[i-1] {
					cp = append(cp, x)
				}
			}
			nd := &c11yNode{key: fmt.Sprintf("%s/%s/%s", parts[0], parts[1], strings.Join(cp, "+")), k: -1, log: &instLog}
			if parts[1] == "s0" || parts[1] == "x0" {
				nd.k = sharedIdx[parts[1]]
				sh, _ := sharedMap.LoadOrStore(parts[1], func() (*c11yInner, error) { return sharedInner[parts[1]], nil })
				nd.sh = sh
			} else {
				sc := mkScript(2)
				if overflow {
					sc.failStart = false
				}
				nd.inner = &c11yInner{sc: sc}
			}
			nodes[ident] = nd
		}
		// ---- extensions: the watcher first (it is told about every instance whether or not it has been started itself)
		watcher := &c11yWatcher{events: map[string][]componentstatus.Status{}, log: &instLog}
		extNames := []string{"w0"}
		exts := map[string]*c11yNode{}
		for i := rnd.IntN(3); i > 0; i-- {
			nm := fmt.Sprintf("z%d", i)
			extNames = append(extNames, nm)
			sc := mkScript(2)
			if overflow {
				sc.failStart = false
			}
			exts[nm] = &c11yNode{key: "extension/" + nm + "/", k: -1, log: &instLog, inner: &c11yInner{sc: sc}}
		}
		// an EXTENSION backed by its own shared component: extensions are handed the bare host, which is no componentstatus.Reporter,
		// so sharedcomponent.Start takes its `isStatusReporter == false` branch: the wrapper never has a source
		if !overflow && rnd.IntN(4) == 0 {
			sc := mkScript(3)
			sharedIdx["y0"] = len(sharedScripts)
			sharedScripts = append(sharedScripts, sc)
			sharedInner["y0"] = &c11yInner{sc: sc}
			sh, _ := sharedMap.LoadOrStore("y0", func() (*c11yInner, error) { return sharedInner["y0"], nil })
			extNames = append(extNames, "y0")
			exts["y0"] = &c11yNode{key: "extension/y0/", k: sharedIdx["y0"], log: &instLog, sh: sh}
		}
		if len(extNames) > 1 && rnd.IntN(3) == 0 {
			extNames[0], extNames[len(extNames)-1] = extNames[len(extNames)-1], extNames[0] // the watcher last
		}
		// instance numbers: extensions, then nodes by key
		inst := 0
		instOf := map[string]int{}
		for _, nm := range extNames {
			instOf["extension/"+nm+"/"] = inst
			if e, ok := exts[nm]; ok {
				e.inst = inst
			}
			inst++
		}
		var keys []string
		byKey := map[string]*c11yNode{}
		for _, nd := range nodes {
			keys = append(keys, nd.key)
			byKey[nd.key] = nd
		}
		sort.Strings(keys)
		for _, k := range keys {
			byKey[k].inst = inst
			instOf[k] = inst
			inst++
		}
		dflt := func() component.Config { return &struct{}{} }
		lk := func(ident string) (*c11yNode, error) {
			if nd, ok := nodes[ident]; ok {
				return nd, nil
			}
			return nil, errors.New("harness: unknown node " + ident)
		}
		set := Settings{
			BuildInfo:     component.NewDefaultBuildInfo(),
			CollectorConf: confmap.New(),
			ReceiversConfigs: map[component.ID]component.Config{id("r", "r0"): dflt(), id("s", "s0"): dflt()},
			ReceiversFactories: map[component.Type]receiver.Factory{},
			ProcessorsConfigs:  map[component.ID]component.Config{},
			ProcessorsFactories: map[component.Type]processor.Factory{
				tP: xprocessor.NewFactory(tP, dflt,
					xprocessor.WithLogs(func(_ context.Context, s processor.Settings, _ component.Config, _ consumer.Logs) (processor.Logs, error) {
						return c11yProc(nodes, s.ID.Name())
					}, component.StabilityLevelStable),
					xprocessor.WithMetrics(func(_ context.Context, s processor.Settings, _ component.Config, _ consumer.Metrics) (processor.Metrics, error) {
						return c11yProc(nodes, s.ID.Name())
					}, component.StabilityLevelStable),
					xprocessor.WithTraces(func(_ context.Context, s processor.Settings, _ component.Config, _ consumer.Traces) (processor.Traces, error) {
						return c11yProc(nodes, s.ID.Name())
					}, component.StabilityLevelStable),
					xprocessor.WithProfiles(func(_ context.Context, s processor.Settings, _ component.Config, _ xconsumer.Profiles) (xprocessor.Profiles, error) {
						return c11yProc(nodes, s.ID.Name())
					}, component.StabilityLevelStable)),
			},
			ExportersConfigs:   map[component.ID]component.Config{id("e", "e0"): dflt(), id("x", "x0"): dflt()},
			ExportersFactories: map[component.Type]exporter.Factory{},
			ConnectorsConfigs:  map[component.ID]component.Config{id("c", "c0"): dflt()},
			ConnectorsFactories: map[component.Type]connector.Factory{
				tC: connector.NewFactory(tC, dflt, connector.WithLogsToLogs(func(_ context.Context, s connector.Settings, _ component.Config, _ consumer.Logs) (connector.Logs, error) {
					return lk("connector/" + s.ID.Name())
				}, component.StabilityLevelStable)),
			},
			ExtensionsConfigs: map[component.ID]component.Config{},
			ExtensionsFactories: map[component.Type]extension.Factory{
				tW: extension.NewFactory(tW, dflt, func(context.Context, extension.Settings, component.Config) (extension.Extension, error) { return watcher, nil }, component.StabilityLevelStable),
				tZ: extension.NewFactory(tZ, dflt, func(_ context.Context, s extension.Settings, _ component.Config) (extension.Extension, error) {
					return exts[s.ID.Name()], nil
				}, component.StabilityLevelStable),
			},
			AsyncErrorChannel: make(chan error, 64),
			LoggingOptions:    []zap.Option{zap.WrapCore(func(zapcore.Core) zapcore.Core { return zapcore.NewNopCore() })},
		}
		for _, ty := range []component.Type{tR, tS} {
			set.ReceiversFactories[ty] = xreceiver.NewFactory(ty, dflt,
				xreceiver.WithLogs(func(_ context.Context, s receiver.Settings, _ component.Config, _ consumer.Logs) (receiver.Logs, error) {
					return lk("receiver/" + s.ID.Name() + "/logs")
				}, component.StabilityLevelStable),
				xreceiver.WithMetrics(func(_ context.Context, s receiver.Settings, _ component.Config, _ consumer.Metrics) (receiver.Metrics, error) {
					return lk("receiver/" + s.ID.Name() + "/metrics")
				}, component.StabilityLevelStable),
				xreceiver.WithTraces(func(_ context.Context, s receiver.Settings, _ component.Config, _ consumer.Traces) (receiver.Traces, error) {
					return lk("receiver/" + s.ID.Name() + "/traces")
				}, component.StabilityLevelStable),
				xreceiver.WithProfiles(func(_ context.Context, s receiver.Settings, _ component.Config, _ xconsumer.Profiles) (xreceiver.Profiles, error) {
					return lk("receiver/" + s.ID.Name() + "/profiles")
				}, component.StabilityLevelStable))
		}
		for _, ty := range []component.Type{tE, tX} {
			set.ExportersFactories[ty] = xexporter.NewFactory(ty, dflt,
				xexporter.WithLogs(func(_ context.Context, s exporter.Settings, _ component.Config) (exporter.Logs, error) {
					return lk("exporter/" + s.ID.Name() + "/logs")
				}, component.StabilityLevelStable),
				xexporter.WithMetrics(func(_ context.Context, s exporter.Settings, _ component.Config) (exporter.Metrics, error) {
					return lk("exporter/" + s.ID.Name() + "/metrics")
				}, component.StabilityLevelStable),
				xexporter.WithTraces(func(_ context.Context, s exporter.Settings, _ component.Config) (exporter.Traces, error) {
					return lk("exporter/" + s.ID.Name() + "/traces")
				}, component.StabilityLevelStable),
				xexporter.WithProfiles(func(_ context.Context, s exporter.Settings, _ component.Config) (xexporter.Profiles, error) {
					return lk("exporter/" + s.ID.Name() + "/profiles")
				}, component.StabilityLevelStable))
		}
		pcs := pipelines.Config{}
		for _, p := range pipes {
			for _, pr := range p.proc {
				set.ProcessorsConfigs[pr] = dflt()
			}
			pcs[p.id] = &pipelines.PipelineConfig{Receivers: p.recv, Processors: p.proc, Exporters: p.exp}
		}
		var extCfg extensions.Config
		for _, nm := range extNames {
			ty := "z"
			if nm == "w0" {
				ty = "w"
			}
			set.ExtensionsConfigs[id(ty, nm)] = dflt()
			extCfg = append(extCfg, id(ty, nm))
		}
		conf := Config{
			Extensions: extCfg,
			Pipelines:  pcs,
			Telemetry: telemetry.Config{
				Logs: telemetry.LogsConfig{Level: zapcore.ErrorLevel, Encoding: "console", OutputPaths: []string{"stderr"}, ErrorOutputPaths: []string{"stderr"},
					DisableCaller: true, DisableStacktrace: true},
				Metrics: telemetry.MetricsConfig{Level: configtelemetry.LevelNone},
			},
		}
		for _, nd := range nodes {
			nd.evCount = func(key string) int { watcher.mu.Lock(); defer watcher.mu.Unlock(); return len(watcher.events[key]) }
		}
		srv, err := New(context.Background(), set, conf)
		if err != nil {
			out.Linef("viol sig=C11/sys/new-failed %s", vHex(err.Error()))
			out.Linef("end")
			continue
		}
		startErr := srv.Start(context.Background())
		// direct oracle (no model): between the moment an instance's Start returned and the end of start-up nobody reports for it
		// but the service itself, so every OK it is shown then is the automatic one and must directly follow Starting
		watcher.mu.Lock()
		for _, nd := range nodes {
			if !nd.startReturned {
				continue
			}
			evs := watcher.events[nd.key]
			for k := nd.evAtStartReturn; k < len(evs); k++ {
				if evs[k] == componentstatus.StatusOK && (k == 0 || evs[k-1] != componentstatus.StatusStarting) {
					out.Linef("viol sig=C11/sys/auto-ok-not-from-starting instance=%s events=%s", nd.key, c11yCSV(evs))
				}
			}
		}
		watcher.mu.Unlock()
		if startErr == nil {
			var wg sync.WaitGroup
			var inners []*c11yInner
			for _, nd := range nodes {
				if nd.inner != nil {
					inners = append(inners, nd.inner)
				}
			}
			for _, in := range sharedInner {
				inners = append(inners, in)
			}
			for _, e := range exts {
				if e.inner != nil {
					inners = append(inners, e.inner)
				}
			}
			for _, in := range inners {
				wg.Add(1)
				go func() {
					defer wg.Done()
					for _, st := range in.sc.run {
						c11yReport(in.host, st)
					}
				}()
			}
			wg.Wait()
		}
		_ = srv.Shutdown(context.Background())
		// ---- the case, as the model is told it
		for k, sc := range sharedScripts {
			out.Linef("op shared k=%d %s", k, sc.kv())
		}
		// extensions in the order in which the service started them (extensions.New orders them itself); never reached ones last
		{
			var ordered []string
			got := map[string]bool{}
			for _, e := range instLog {
				if strings.HasPrefix(e, "start:extension/") {
					nm := strings.TrimSuffix(e[len("start:extension/"):], "/")
					if !got[nm] {
						got[nm] = true
						ordered = append(ordered, nm)
					}
				}
			}
			for _, nm := range extNames {
				if !got[nm] {
					ordered = append(ordered, nm)
				}
			}
			extNames = ordered
		}
		for _, nm := range extNames {
			if e, ok := exts[nm]; ok && e.k >= 0 {
				out.Linef("op ext inst=%d name=%s kind=shared k=%d", e.inst, e.key, e.k)
			} else if ok {
				out.Linef("op ext inst=%d name=%s kind=plain %s", e.inst, e.key, e.inner.sc.kv())
			} else {
				out.Linef("op ext inst=%d name=extension/w0/ kind=plain ds=- fs=0 run=- dstop=- fstop=0", instOf["extension/w0/"])
			}
		}
		var starts, stops []string
		for _, e := range instLog {
			if strings.HasPrefix(e, "start:") {
				starts = append(starts, e[6:])
			} else {
				stops = append(stops, e[5:])
			}
		}
		seen := map[string]bool{}
		var startOrder []string
		for _, k := range starts {
			if _, isNode := byKey[k]; isNode && !seen[k] {
				seen[k] = true
				startOrder = append(startOrder, k)
			}
		}
		for _, k := range keys { // never reached by start-up: position irrelevant (StartAll returned before)
			if !seen[k] {
				startOrder = append(startOrder, k)
			}
		}
		for _, k := range startOrder {
			nd := byKey[k]
			if nd.k >= 0 {
				out.Linef("op node inst=%d name=%s kind=shared k=%d", nd.inst, nd.key, nd.k)
			} else {
				out.Linef("op node inst=%d name=%s kind=plain %s", nd.inst, nd.key, nd.inner.sc.kv())
			}
		}
		var so []string
		seenStop := map[string]bool{}
		for _, k := range stops {
			if nd, isNode := byKey[k]; isNode && !seenStop[k] {
				seenStop[k] = true
				so = append(so, strconv.Itoa(nd.inst))
			}
		}
		for _, k := range keys {
			if !seenStop[k] {
				out.Linef("viol sig=C11/sys/shutdown-never-called instance=%s", k)
				so = append(so, strconv.Itoa(byKey[k].inst))
			}
		}
		out.Linef("op stoporder %s", strings.Join(so, " "))
		out.Linef("op sysrun")
		allKeys := []string{}
		for _, nm := range extNames {
			allKeys = append(allKeys, "extension/"+nm+"/")
		}
		allKeys = append(allKeys, keys...)
		sort.Slice(allKeys, func(a, b int) bool { return instOf[allKeys[a]] < instOf[allKeys[b]] })
		known := map[string]bool{}
		for _, k := range allKeys { // ascending instance number by construction
			known[k] = true
			out.Linef("obs events %d %s %s", instOf[k], k, c11yCSV(watcher.events[k]))
		}
		for k, evs := range watcher.events {
			if !known[k] {
				out.Linef("viol sig=C11/sys/events-for-an-instance-that-is-not-configured instance=%s events=%s", k, c11yCSV(evs))
			}
		}
		nShared := 0
		for _, nd := range nodes {
			if nd.k >= 0 {
				nShared++
			}
		}
		out.Linef("nt")
		out.Linef("stat sys_nodes %d", len(nodes))
		out.Linef("stat sys_shared_instances %d", nShared)
		out.Linef("stat sys_startfailed %d", vB(startErr != nil))
		out.Linef("stat sys_pipelines %d", len(pipes))
		out.Linef("stat sys_connector %d", vB(withConn))
		out.Linef("stat sys_extensions %d", len(extNames))
		_, sharedExt := exts["y0"]
		out.Linef("stat sys_shared_extension %d", vB(sharedExt))
		out.Linef("end")
		out.Flush()
	}
}

func c11yProc(nodes map[string]*c11yNode, name string) (*c11yNode, error) {
	for ident, nd := range nodes {
		if strings.HasPrefix(ident, "processor/"+name+"/") {
			return nd, nil
		}
	}
	return nil, errors.New("harness: unknown processor " + name)
}
