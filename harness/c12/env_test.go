//go:build verif

package e2etest

import (
	"context"
	"encoding/json"
	"fmt"
	"math"
	"math/rand/v2"
	"os"
	"path/filepath"
	"sort"
	"strconv"
	"strings"
	"testing"

	"go.opentelemetry.io/collector/confmap"
	"go.opentelemetry.io/collector/confmap/provider/envprovider"
	"go.opentelemetry.io/collector/confmap/provider/fileprovider"
	"go.opentelemetry.io/collector/confmap/provider/yamlprovider"
)

// External-package harness: the REAL envprovider (name validation, ${env:NAME:-default}, unset variables, ${NAME} through
// the default scheme) behind a recording wrapper; what it returned for every URI is sent to the model as its provider table.

type vEnvRec struct {
	inner confmap.Provider
	uris  []string
	ret   map[string]*confmap.Retrieved
}

func (r *vEnvRec) Retrieve(ctx context.Context, uri string, w confmap.WatcherFunc) (*confmap.Retrieved, error) {
	ret, err := r.inner.Retrieve(ctx, uri, w)
	if _, seen := r.ret[uri]; !seen {
		r.uris = append(r.uris, uri)
		if err != nil {
			r.ret[uri] = nil
		} else {
			r.ret[uri] = ret
		}
	}
	if err != nil {
		return nil, fmt.Errorf("verif-provider-error: %w", err)
	}
	return ret, nil
}
func (r *vEnvRec) Scheme() string                     { return r.inner.Scheme() }
func (r *vEnvRec) Shutdown(ctx context.Context) error { return r.inner.Shutdown(ctx) }

// vEnvSrcRec wraps a REAL top-level provider (yamlprovider / fileprovider): the raw value it returned for each location is
// recorded, in retrieval order, and sent to the model as that source
type vEnvSrcRec struct {
	inner confmap.Provider
	got   *[]any
	uris  *[]string
}

func (r *vEnvSrcRec) Retrieve(ctx context.Context, uri string, w confmap.WatcherFunc) (*confmap.Retrieved, error) {
	ret, err := r.inner.Retrieve(ctx, uri, w)
	*r.uris = append(*r.uris, uri)
	if err != nil {
		return nil, err
	}
	raw, _ := ret.AsRaw()
	*r.got = append(*r.got, vEnvClone(raw))
	return ret, nil
}
func (r *vEnvSrcRec) Scheme() string                     { return r.inner.Scheme() }
func (r *vEnvSrcRec) Shutdown(ctx context.Context) error { return r.inner.Shutdown(ctx) }

type vEnvSrc struct{ m map[string]any }

func (p *vEnvSrc) Retrieve(context.Context, string, confmap.WatcherFunc) (*confmap.Retrieved, error) {
	return confmap.NewRetrieved(vEnvClone(p.m))
}
func (p *vEnvSrc) Scheme() string                 { return "vsrc" }
func (p *vEnvSrc) Shutdown(context.Context) error { return nil }

func vEnvClone(v any) any {
	switch x := v.(type) {
	case map[string]any:
		m := make(map[string]any, len(x))
		for k, e := range x {
			m[k] = vEnvClone(e)
		}
		return m
	case []any:
		l := make([]any, len(x))
		for i, e := range x {
			l[i] = vEnvClone(e)
		}
		return l
	}
	return v
}

func vEnvHex(s string) string {
	const hexd = "0123456789abcdef"
	var b strings.Builder
	for i := 0; i < len(s); i++ {
		b.WriteByte(hexd[s[i]>>4])
		b.WriteByte(hexd[s[i]&15])
	}
	return b.String()
}

func vEnvDump(b *strings.Builder, v any) {
	switch x := v.(type) {
	case nil:
		b.WriteString("n")
	case bool:
		if x {
			b.WriteString("t")
		} else {
			b.WriteString("f")
		}
	case int:
		b.WriteString("i" + strconv.FormatInt(int64(x), 10) + ";")
	case int64:
		b.WriteString("i" + strconv.FormatInt(x, 10) + ";")
	case float64:
		b.WriteString(fmt.Sprintf("d%016x;", math.Float64bits(x)))
	case string:
		b.WriteString("s" + vEnvHex(x) + ";")
	case []any:
		b.WriteString("l" + strconv.Itoa(len(x)) + ";")
		for _, e := range x {
			vEnvDump(b, e)
		}
	case map[string]any:
		keys := make([]string, 0, len(x))
		for k := range x {
			keys = append(keys, k)
		}
		sort.Strings(keys)
		b.WriteString("m" + strconv.Itoa(len(x)) + ";")
		for _, k := range keys {
			b.WriteString(vEnvHex(k) + ";")
			vEnvDump(b, x[k])
		}
	default:
		b.WriteString("o" + vEnvHex(fmt.Sprintf("%T:%v", v, v)) + ";")
	}
}

func vEnvEnc(v any) string {
	var b strings.Builder
	vEnvDump(&b, v)
	return b.String()
}

func vEnvErrClass(err error) string {
	s := err.Error()
	switch {
	case strings.Contains(s, "contains unsupported characters ('$')"):
		return "dollar-in-name"
	case strings.Contains(s, "verif-provider-error"):
		return "provider"
	case strings.Contains(s, "invalid uri"):
		return "invalid-uri"
	case strings.Contains(s, "is not supported for uri"):
		return "unsupported-scheme"
	case strings.Contains(s, "does not have unambiguous string representation"):
		return "no-string"
	case strings.Contains(s, "too many recursive expansions"):
		return "too-many"
	case strings.Contains(s, "cannot be used as a Conf"):
		return "not-map"
	}
	return "other:" + vEnvHex(s)
}

var vEnvNames = []string{"VC12_A", "VC12_B", "VC12_C", "VC12_D", "VC12_E"}

var vEnvValues = []string{"foo", "8080", "true", "null", "~", "", "1.5", "0x10", "a}b", "{k: v}", "[1, two]", "host:4317", "x y",
	"${env:VC12_B}", "pre-${env:VC12_C}-post", "$$", "$${env:VC12_B}", "${VC12_D}", "${env:VC12_E:-fallback}", "a$b", "\"q\"", "multi\nline"}

var vEnvPieces = []string{"a", " ", "${env:VC12_A}", "${env:VC12_B}", "${VC12_A}", "${VC12_C}", "${env:VC12_U}", "${VC12_U}", "${env:VC12_U:-dflt}",
	"${env:VC12_A:-dflt}", "${env:VC12_U:-}", "${env:VC12_U:-${env:VC12_B}}", "${env:VC12_U:-a:-b}", "${env:1BAD}", "${env:a.b}", "${env:}", "${env:VC12_A }",
	"$$", "$", "$${env:VC12_A}", ":4317", "${env:VC12_D}", "${env:VC12_E}", "${env:$VC12_A}", "${env:VC12_U:-$$x}", "}", "{", "${env:VC12_A$}", "${$VC12_A}", "${VC12_A$$}", "${$}"}

var vEnvDir string

func TestVerifC12Env(t *testing.T) {
	out := vOpen(t)
	defer out.Close()
	out.Linef("model c12-resolve 1")
	saved := map[string]*string{}
	for _, n := range append(append([]string{}, vEnvNames...), "VC12_U") {
		if v, ok := os.LookupEnv(n); ok {
			saved[n] = &v
		} else {
			saved[n] = nil
		}
	}
	defer func() {
		for n, v := range saved {
			if v == nil {
				os.Unsetenv(n)
			} else {
				os.Setenv(n, *v)
			}
		}
	}()
	os.Unsetenv("VC12_U")
	vEnvDir = t.TempDir()
	n := vN(3000)
	for _, idx := range vCases(n) {
		vEnvCase(out, idx, vRand(idx))
	}
}

func vEnvString(rnd *rand.Rand) string {
	k := 1 + rnd.IntN(4)
	if rnd.IntN(3) == 0 {
		k = 1 // a whole-value reference, often
	}
	var b strings.Builder
	for i := 0; i < k; i++ {
		p := vEnvPieces[rnd.IntN(len(vEnvPieces))]
		if (strings.Contains(p, "BAD") || strings.Contains(p, "a.b") || p == "${env:}" || strings.Contains(p, "A }") || strings.Contains(p, ":$") || strings.Contains(p, "A$") || strings.Contains(p, "{$")) && rnd.IntN(4) > 0 {
			p = "${env:VC12_A}" // invalid names / $ in the name: keep them, but rarer
		}
		b.WriteString(p)
	}
	return b.String()
}

func vEnvCase(out *vOut, idx int, rnd *rand.Rand) {
	out.Linef("case %d kind=env", idx)
	defer out.Flush()
	defer out.Linef("end")
	set := 0
	for _, n := range vEnvNames {
		if rnd.IntN(6) == 0 {
			os.Unsetenv(n)
			continue
		}
		os.Setenv(n, vEnvValues[rnd.IntN(len(vEnvValues))])
		set++
	}
	def := ""
	if rnd.IntN(2) == 0 {
		def = "env"
	}
	m := map[string]any{}
	for _, k := range []string{"k0", "k1", "k2"}[:1+rnd.IntN(3)] {
		switch rnd.IntN(4) {
		case 0:
			m[k] = []any{vEnvString(rnd), "lit", vEnvString(rnd)}
		case 1:
			m[k] = map[string]any{"v": vEnvString(rnd)}
		default:
			m[k] = vEnvString(rnd)
		}
	}
	// a second / third top-level location served by the REAL yamlprovider ("yaml:<text>") or the REAL fileprovider
	// ("file:<path>", or a bare path: NewResolver's no-scheme fall-back to "file")
	uris := []string{"vsrc:0"}
	var realGot []any
	var realURIs []string
	var wantReal []string
	for extra := 0; extra < 2 && rnd.IntN(2) == 0; extra++ {
		m2 := map[string]any{}
		for _, k := range []string{"k2", "k1", "k0"}[:1+rnd.IntN(3)] {
			switch rnd.IntN(4) {
			case 0:
				m2[k] = []any{vEnvString(rnd), 1}
			case 1:
				m2[k] = map[string]any{"v": vEnvString(rnd), "n": rnd.IntN(3)}
			default:
				m2[k] = vEnvString(rnd)
			}
		}
		txt, _ := json.Marshal(m2) // JSON is YAML
		switch rnd.IntN(3) {
		case 0:
			uris = append(uris, "yaml:"+string(txt))
			wantReal = append(wantReal, "yaml:"+string(txt))
			out.Linef("stat real_yaml_location 1")
		case 1:
			path := filepath.Join(vEnvDir, "c"+strconv.Itoa(idx)+"-"+strconv.Itoa(extra)+".yaml")
			_ = os.WriteFile(path, txt, 0o600)
			uris = append(uris, "file:"+path)
			wantReal = append(wantReal, "file:"+path)
			out.Linef("stat real_file_location 1")
		default:
			path := filepath.Join(vEnvDir, "c"+strconv.Itoa(idx)+"-"+strconv.Itoa(extra)+".yaml")
			_ = os.WriteFile(path, txt, 0o600)
			uris = append(uris, path) // no scheme
			wantReal = append(wantReal, "file:"+path)
			out.Linef("stat real_bare_path_location 1")
		}
	}
	rec := &vEnvRec{ret: map[string]*confmap.Retrieved{}}
	src := &vEnvSrc{m: m}
	var conf *confmap.Conf
	var err error
	var panicked any
	func() {
		defer func() { panicked = recover() }()
		var r *confmap.Resolver
		r, err = confmap.NewResolver(confmap.ResolverSettings{
			URIs: uris,
			ProviderFactories: []confmap.ProviderFactory{
				confmap.NewProviderFactory(func(ps confmap.ProviderSettings) confmap.Provider {
					return &vEnvSrcRec{inner: yamlprovider.NewFactory().Create(ps), got: &realGot, uris: &realURIs}
				}),
				confmap.NewProviderFactory(func(ps confmap.ProviderSettings) confmap.Provider {
					return &vEnvSrcRec{inner: fileprovider.NewFactory().Create(ps), got: &realGot, uris: &realURIs}
				}),
				confmap.NewProviderFactory(func(ps confmap.ProviderSettings) confmap.Provider {
					rec.inner = envprovider.NewFactory().Create(ps)
					return rec
				}),
				confmap.NewProviderFactory(func(confmap.ProviderSettings) confmap.Provider { return src }),
			},
			DefaultScheme: def,
		})
		if err != nil {
			return
		}
		conf, err = r.Resolve(context.Background())
	}()
	envLine := "op env schemes=" + vEnvHex("env")
	if def != "" {
		envLine += " default=" + vEnvHex(def)
	}
	out.Linef("%s", envLine)
	for _, uri := range rec.uris {
		ret := rec.ret[uri]
		if ret == nil {
			out.Linef("stat env_provider_errors 1")
			continue // the provider returned an error: absent from the model's table = provider error
		}
		raw, _ := ret.AsRaw()
		name := uri[len("env:"):]
		line := fmt.Sprintf("op prov %s %s %s", vEnvHex("env"), vHex(name), vEnvEnc(raw))
		if s, e := ret.AsString(); e == nil {
			line += " str=" + vHex(s)
		}
		out.Linef("%s", line)
		if strings.Contains(name, ":-") {
			out.Linef("stat env_default_syntax 1")
		}
	}
	out.Linef("op src %s", vEnvEnc(m))
	for _, g := range realGot {
		out.Linef("op src %s", vEnvEnc(g))
	}
	// direct oracle: the real providers were asked for exactly the locations given, in order (a bare path as "file:<path>")
	if strings.Join(realURIs, "\x00") != strings.Join(wantReal, "\x00") && (err == nil || len(realURIs) > len(wantReal)) {
		out.Linef("viol sig=C12/location/retrieved-not-the-uri-list-in-order want=%s got=%s", vEnvHex(strings.Join(wantReal, " ")), vEnvHex(strings.Join(realURIs, " ")))
	}
	hint := "-"
	if err != nil {
		hint = vEnvErrClass(err)
	}
	out.Linef("op resolvex hint=%s", hint)
	out.Linef("stat env_vars_set %d", set)
	out.Linef("stat env_provider_calls %d", len(rec.uris))
	if panicked != nil {
		out.Linef("obs res panic")
		out.Linef("viol sig=C12/resolve/panic %s", vEnvHex(fmt.Sprint(panicked)))
		return
	}
	if err != nil {
		out.Linef("obs res err %s", hint)
		out.Linef("stat err_%s 1", strings.SplitN(hint, ":", 2)[0])
		if strings.HasPrefix(err.Error(), "cannot retrieve the configuration") {
			out.Linef("viol sig=C12/source/valid-location-not-retrieved class=%s", hint)
		}
		return
	}
	out.Linef("nt")
	out.Linef("stat ok 1")
	strmap := conf.ToStringMap()
	out.Linef("obs strmap %s", vEnvEnc(strmap))
	keys := make([]string, 0, len(strmap))
	for k := range strmap {
		keys = append(keys, k)
	}
	sort.Strings(keys)
	for _, k := range keys {
		s, a := "err", "err"
		func() {
			defer func() {
				if r := recover(); r != nil {
					out.Linef("viol sig=C12/typed/panic/env-harness key=%s", vEnvHex(k))
				}
			}()
			// decode only this key into a string / an any field through the real Conf.Unmarshal
			switch k {
			case "k0":
				var x struct {
					V string `mapstructure:"k0"`
				}
				if conf.Unmarshal(&x, confmap.WithIgnoreUnused()) == nil {
					s = "s" + vEnvHex(x.V) + ";"
				}
				var y struct {
					V any `mapstructure:"k0"`
				}
				if conf.Unmarshal(&y, confmap.WithIgnoreUnused()) == nil {
					a = vEnvEnc(y.V)
				}
			case "k1":
				var x struct {
					V string `mapstructure:"k1"`
				}
				if conf.Unmarshal(&x, confmap.WithIgnoreUnused()) == nil {
					s = "s" + vEnvHex(x.V) + ";"
				}
				var y struct {
					V any `mapstructure:"k1"`
				}
				if conf.Unmarshal(&y, confmap.WithIgnoreUnused()) == nil {
					a = vEnvEnc(y.V)
				}
			case "k2":
				var x struct {
					V string `mapstructure:"k2"`
				}
				if conf.Unmarshal(&x, confmap.WithIgnoreUnused()) == nil {
					s = "s" + vEnvHex(x.V) + ";"
				}
				var y struct {
					V any `mapstructure:"k2"`
				}
				if conf.Unmarshal(&y, confmap.WithIgnoreUnused()) == nil {
					a = vEnvEnc(y.V)
				}
			}
		}()
		out.Linef("obs typedx %s s=%s a=%s", vEnvHex(k), s, a)
	}
}
