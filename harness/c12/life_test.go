//go:build verif

package confmap

// C12, second harness of package confmap (model `c12-life`): the glue around Resolve —
//   kind=ctor: NewResolver on generated URI lists / provider scheme lists / default schemes (locations, drive-letter and
//              no-scheme fall-back to "file", errors), then Resolve with recording providers (what each provider is asked
//              for, in which order);
//   kind=life: Resolve … Resolve, Shutdown programs over providers whose Retrieved values carry a Close function
//              (closers bookkeeping: every Close exactly once, a re-Resolve closes the previous watch first).

import (
	"context"
	"errors"
	"fmt"
	"math/rand/v2"
	"sort"
	"strconv"
	"strings"
	"testing"

	"go.opentelemetry.io/collector/featuregate"
)

// ---------------------------------------------------------------------------------------------
// ctor

type vlRecProv struct {
	scheme string
	log    *[]string
}

// what a top-level provider returns is a fixed function of the location text it is asked for (the model has the same rule)
func (p *vlRecProv) Retrieve(_ context.Context, uri string, _ WatcherFunc) (*Retrieved, error) {
	*p.log = append(*p.log, uri)
	h := vHex(uri)
	return NewRetrieved(map[string]any{"last": h, "u" + h[:min(2, len(h))]: h, "l": []any{h[:1]}})
}
func (p *vlRecProv) Scheme() string                 { return p.scheme }
func (p *vlRecProv) Shutdown(context.Context) error { return nil }

func vlCtorClass(err error) string {
	s := err.Error()
	switch {
	case strings.Contains(s, "no URIs"):
		return "no-uris"
	case strings.Contains(s, "no Providers"):
		return "no-providers"
	case strings.HasPrefix(s, "invalid 'confmap.Provider' scheme"):
		return "invalid-provider-scheme"
	case strings.HasPrefix(s, "duplicate 'confmap.Provider' scheme"):
		return "duplicate-scheme"
	case strings.Contains(s, "DefaultScheme not found"):
		return "default-not-found"
	case strings.HasPrefix(s, "invalid uri"):
		return "invalid-uri"
	case strings.HasPrefix(s, "unsupported scheme on URI"):
		return "unsupported-scheme"
	}
	return "other:" + vHex(s)
}

var vlGoodSchemes = []string{"env", "file", "ab", "yaml", "a+b.c-d", "z9", "HTTP"}
var vlOddSchemes = []string{"a", "1ab", "a_b", "", "é", "x y", "ab:", "-a", "a-", "9", "_x", "[]"}
var vlOpaque = []string{"", "A", "/etc/otel/config.yaml", "a:b", "::", "x\ny", "${env:A}", "$", "C:\\cfg.yaml", "k: v", " ", "file:x", "é"}

func vlGenURI(rnd *rand.Rand, provs []string) string {
	switch r := rnd.IntN(20); {
	case r < 9: // registered scheme
		if len(provs) > 0 {
			return provs[rnd.IntN(len(provs))] + ":" + vlOpaque[rnd.IntN(len(vlOpaque))]
		}
		return "env:A"
	case r < 10: // well-formed scheme, maybe not registered
		return vlGoodSchemes[rnd.IntN(len(vlGoodSchemes))] + ":" + vlOpaque[rnd.IntN(len(vlOpaque))]
	case r < 14: // no colon at all
		return []string{"config.yaml", "", "/etc/cfg", "env", "a b", "$x", "./rel/path.yml", "é"}[rnd.IntN(8)]
	case r < 18: // drive letters and the other members of [A-z]
		c := []string{"C", "c", "Z", "a", "[", "\\", "]", "^", "_", "`"}[rnd.IntN(10)]
		return c + ":" + []string{"\\cfg.yaml", "/x", "", "a:b", "env:A"}[rnd.IntN(5)]
	case r < 19: // malformed scheme
		return vlOddSchemes[rnd.IntN(len(vlOddSchemes))] + ":" + vlOpaque[rnd.IntN(len(vlOpaque))]
	default:
		return []string{":", ":x", "@:x", "{:x", "0:x", "ab", "ab:", "env:", "a:", "zz:y"}[rnd.IntN(10)]
	}
}

func vlCtorCase(out *vOut, idx int, uris, provs []string, def string) {
	gate := idx%4 == 0
	if gate {
		_ = featuregate.GlobalRegistry().Set(enableMergeAppendOption.ID(), true)
		defer func() { _ = featuregate.GlobalRegistry().Set(enableMergeAppendOption.ID(), false) }()
	}
	out.Linef("case %d kind=ctor", idx)
	defer out.Flush()
	defer out.Linef("end")
	for _, u := range uris {
		out.Linef("op uri %s", vHex(u))
	}
	for _, p := range provs {
		out.Linef("op prov %s", vHex(p))
	}
	out.Linef("op default %s", vHex(def))
	out.Linef("op new")
	var log []string
	factories := make([]ProviderFactory, len(provs))
	for i, s := range provs {
		p := &vlRecProv{scheme: s, log: &log}
		factories[i] = NewProviderFactory(func(ProviderSettings) Provider { return p })
	}
	var r *Resolver
	var err error
	var panicked any
	func() {
		defer func() { panicked = recover() }()
		r, err = NewResolver(ResolverSettings{URIs: uris, ProviderFactories: factories, DefaultScheme: def})
	}()
	if panicked != nil {
		out.Linef("obs ctor panic")
		out.Linef("viol sig=C12/location/new-resolver-panic %s", vHex(fmt.Sprint(panicked)))
		return
	}
	if err != nil {
		cls := vlCtorClass(err)
		out.Linef("obs ctor err %s", cls)
		out.Linef("stat ctor_err_%s 1", strings.SplitN(cls, ":", 2)[0])
		return
	}
	out.Linef("stat ctor_ok 1")
	if len(uris) > 1 {
		out.Linef("nt")
	}
	parts := make([]string, len(r.uris))
	for i, l := range r.uris {
		parts[i] = vHex(l.scheme) + "/" + vHex(l.opaqueValue)
	}
	out.Linef("%s", strings.TrimRight("obs ctor ok "+strings.Join(parts, " "), " "))
	registered := map[string]bool{}
	for _, p := range provs {
		registered[p] = true
	}
	out.Linef("op retrieve")
	var conf *Conf
	func() {
		defer func() { panicked = recover() }()
		conf, err = r.Resolve(context.Background())
	}()
	if panicked != nil {
		out.Linef("obs retrieved panic")
		out.Linef("viol sig=C12/resolve/panic %s", vHex(fmt.Sprint(panicked)))
		return
	}
	hs := make([]string, len(log))
	for i, u := range log {
		hs[i] = vHex(u)
	}
	st := "ok"
	if err != nil {
		st = "err"
	}
	out.Linef("%s", strings.TrimRight("obs retrieved "+st+" "+strings.Join(hs, " "), " "))
	// NewResolver + Resolve end to end (model: resolveSettings), gate on in every fourth case
	out.Linef("op resolveall gate=%d", vB(gate))
	switch {
	case err == nil:
		out.Linef("obs conf %s", vEnc(conf.ToStringMap()))
	case strings.HasPrefix(err.Error(), "cannot retrieve the configuration"):
		out.Linef("obs conf err cannot-retrieve")
	default:
		out.Linef("obs conf err other:%s", vHex(err.Error()))
	}
	// direct oracle, independent of the model: a URI "<scheme>:<rest>" whose scheme is a registered, well-formed scheme of
	// two or more characters must reach that provider verbatim; a URI without ':' reaches the "file" provider as "file:<uri>";
	// the providers are asked in the order of the URI list
	want := []string{}
	for _, u := range uris {
		i := strings.IndexByte(u, ':')
		if i >= 2 && registered[u[:i]] {
			want = append(want, u)
			continue
		}
		// no ':' at all, or a drive letter (anything else was rejected by NewResolver): the "file" provider, if there is one
		if !registered["file"] {
			break
		}
		want = append(want, "file:"+u)
	}
	if strings.Join(want, "\x00") != strings.Join(log, "\x00") {
		out.Linef("viol sig=C12/location/retrieved-not-the-uri-list-in-order want=%s got=%s", vHex(strings.Join(want, " ")), vHex(strings.Join(log, " ")))
	}
}

func vlGenCtor(out *vOut, idx int, rnd *rand.Rand) {
	var provs []string
	np := 1 + rnd.IntN(4)
	if rnd.IntN(40) == 0 {
		np = 0
	}
	for i := 0; i < np; i++ {
		switch r := rnd.IntN(30); {
		case r == 0:
			provs = append(provs, vlOddSchemes[rnd.IntN(len(vlOddSchemes))])
		case r == 1 && len(provs) > 0:
			provs = append(provs, provs[rnd.IntN(len(provs))])
		default:
			s := vlGoodSchemes[rnd.IntN(len(vlGoodSchemes))]
			dup := false
			for _, p := range provs {
				dup = dup || p == s
			}
			if dup && rnd.IntN(8) > 0 {
				s = "p" + strconv.Itoa(i) + "x"
			}
			provs = append(provs, s)
		}
	}
	if rnd.IntN(3) > 0 {
		has := false
		for _, p := range provs {
			has = has || p == "file"
		}
		if !has && len(provs) > 0 {
			provs = append(provs, "file")
		}
	}
	def := ""
	switch r := rnd.IntN(10); {
	case r < 3 && len(provs) > 0:
		def = provs[rnd.IntN(len(provs))]
	case r == 3:
		def = []string{"env", "nope", "a"}[rnd.IntN(3)]
	}
	nu := 1 + rnd.IntN(4)
	if rnd.IntN(40) == 0 {
		nu = 0
	}
	var uris []string
	for i := 0; i < nu; i++ {
		if i > 0 && rnd.IntN(6) == 0 {
			uris = append(uris, uris[rnd.IntN(len(uris))]) // the same location again
			continue
		}
		uris = append(uris, vlGenURI(rnd, provs))
	}
	vlCtorCase(out, idx, uris, provs, def)
}

// ---------------------------------------------------------------------------------------------
// life

type vlLifeEnv struct {
	tab      map[string]any // env:<name> -> value (string with references, map, list) ; missing -> provider error
	srcs     map[string]any // src:<i>   -> top-level map
	next     int
	rets     []int // ids of successful Retrieve calls of the current op
	closes   []int // ids whose Close was called during the current op
	fail     map[int]bool
	failAt   []bool // drawn when the case starts (replay-stable): the id-th retrieved value's Close fails
	shutdown int
	quiet    bool           // reference run on a fresh resolver: no ids, no Close bookkeeping
	twin     map[string]any // pristine deep copy of tab: the resolver must not write into provider-owned values
}

type vlLifeProv struct {
	scheme string
	e      *vlLifeEnv
}

func (p *vlLifeProv) Retrieve(_ context.Context, uri string, _ WatcherFunc) (*Retrieved, error) {
	name := uri[len(p.scheme)+1:]
	var v any
	var ok bool
	if p.scheme == "src" {
		v, ok = p.e.srcs[name]
	} else {
		v, ok = p.e.tab[name]
	}
	if !ok {
		return nil, errors.New("verif-provider-error: not found")
	}
	if p.scheme == "env" && p.e.quiet {
		return NewRetrieved(vlClone(v))
	}
	id := p.e.next
	p.e.next++
	if id < len(p.e.failAt) && p.e.failAt[id] {
		p.e.fail[id] = true
	}
	p.e.rets = append(p.e.rets, id)
	if p.scheme == "src" {
		v = vlClone(v)
	}
	// env values are handed out as the SAME object every time (Retrieved.AsRaw passes it on without a copy)
	return NewRetrieved(v, WithRetrievedClose(func(context.Context) error {
		p.e.closes = append(p.e.closes, id)
		if p.e.fail[id] {
			return fmt.Errorf("verif-close-error %d", id)
		}
		return nil
	}))
}
func (p *vlLifeProv) Scheme() string { return p.scheme }
func (p *vlLifeProv) Shutdown(context.Context) error {
	p.e.shutdown++
	return nil
}

func vlClone(v any) any {
	switch x := v.(type) {
	case map[string]any:
		m := make(map[string]any, len(x))
		for k, e := range x {
			m[k] = vlClone(e)
		}
		return m
	case []any:
		l := make([]any, len(x))
		for i, e := range x {
			l[i] = vlClone(e)
		}
		return l
	}
	return v
}

var vlNames = []string{"A", "B", "C", "D", "E", "F"}

func vlIds(l []int) string {
	if len(l) == 0 {
		return "-"
	}
	s := make([]string, len(l))
	for i, x := range l {
		s[i] = strconv.Itoa(x)
	}
	return strings.Join(s, ",")
}

func vlGenTab(rnd *rand.Rand) map[string]any {
	tab := map[string]any{}
	for i, n := range vlNames {
		if rnd.IntN(14) == 0 {
			continue // missing: provider error
		}
		// only later names are referenced: no cycles
		later := vlNames[i+1:]
		ref := func() string {
			if len(later) == 0 {
				return "leaf"
			}
			return "${env:" + later[rnd.IntN(len(later))] + "}"
		}
		switch rnd.IntN(6) {
		case 0, 1:
			tab[n] = "v" + n
		case 2:
			tab[n] = ref()
		case 3:
			tab[n] = "pre-" + ref() + "-" + ref()
		case 4:
			tab[n] = map[string]any{"x": ref(), "y": []any{ref(), 1}}
		default:
			tab[n] = []any{ref(), "z"}
		}
	}
	return tab
}

func vlGenSrc(rnd *rand.Rand) map[string]any {
	m := map[string]any{}
	for i, n := 0, 1+rnd.IntN(4); i < n; i++ {
		k := "k" + strconv.Itoa(rnd.IntN(5))
		name := vlNames[rnd.IntN(len(vlNames))]
		switch rnd.IntN(5) {
		case 0:
			m[k] = "plain"
		case 1:
			m[k] = "${env:" + name + "}"
		case 2:
			m[k] = "http://${env:" + name + "}:4317"
		case 3:
			m[k] = []any{"${env:" + name + "}", "${env:" + vlNames[rnd.IntN(len(vlNames))] + "}"}
		default:
			m[k] = map[string]any{"a": "${env:" + name + "}", "b": 2}
		}
	}
	return m
}

func vlLifeCase(out *vOut, idx int, rnd *rand.Rand, prog []string) {
	out.Linef("case %d kind=life", idx)
	defer out.Flush()
	defer out.Linef("end")
	e := &vlLifeEnv{tab: vlGenTab(rnd), srcs: map[string]any{}, fail: map[int]bool{}}
	if rnd.IntN(3) == 0 {
		pFail := 2 + rnd.IntN(8)
		e.failAt = make([]bool, 400)
		for i := range e.failAt {
			e.failAt[i] = rnd.IntN(pFail) == 0
		}
	}
	ns := 1 + rnd.IntN(3)
	uris := make([]string, ns)
	for i := range uris {
		e.srcs[strconv.Itoa(i)] = vlGenSrc(rnd)
		uris[i] = "src:" + strconv.Itoa(i)
	}
	if rnd.IntN(5) == 0 {
		uris = append(uris, uris[rnd.IntN(len(uris))])
	}
	if rnd.IntN(12) == 0 {
		uris = append(uris, "src:missing") // the retrieval loop itself fails half-way
	}
	if rnd.IntN(12) == 0 {
		// a location whose value is not a map: retrieved (its Close must still be registered), then AsConf fails
		e.srcs["notmap"] = "just a string"
		pos := rnd.IntN(len(uris) + 1)
		uris = append(uris[:pos], append([]string{"src:notmap"}, uris[pos:]...)...)
	}
	factories := []ProviderFactory{
		NewProviderFactory(func(ProviderSettings) Provider { return &vlLifeProv{scheme: "env", e: e} }),
		NewProviderFactory(func(ProviderSettings) Provider { return &vlLifeProv{scheme: "src", e: e} }),
	}
	r, err := NewResolver(ResolverSettings{URIs: uris, ProviderFactories: factories})
	if err != nil {
		out.Linef("viol sig=C12/location/valid-settings-rejected %s", vHex(err.Error()))
		return
	}
	closedAll := map[int]int{}
	issued := 0
	var lastConf *Conf
	e.twin = vlClone(e.tab).(map[string]any)
	for step, what := range prog {
		if step > 0 && what == "resolve" {
			// the environment changes between two Resolve calls: everything anew, or only the plain string values while the
			// maps / lists that refer to them stay the very same objects
			switch rnd.IntN(3) {
			case 0:
				e.tab = vlGenTab(rnd)
			case 1:
				for _, n := range vlNames {
					if sv, ok := e.tab[n].(string); ok && !strings.Contains(sv, "${") && rnd.IntN(2) == 0 {
						e.tab[n] = "w" + n + strconv.Itoa(step)
					}
				}
			}
			e.twin = vlClone(e.tab).(map[string]any)
		}
		e.rets, e.closes = nil, nil
		var opErr error
		var panicked any
		func() {
			defer func() { panicked = recover() }()
			if what == "resolve" {
				lastConf, opErr = r.Resolve(context.Background())
			} else {
				opErr = r.Shutdown(context.Background())
			}
		}()
		if panicked != nil {
			out.Linef("op life %s fail=- n=0", what)
			out.Linef("obs life panic")
			out.Linef("viol sig=C12/closers/panic %s", vHex(fmt.Sprint(panicked)))
			return
		}
		// the ids whose Close fails are an input; so is the number of successful Retrieve calls of this op
		fl := []int{}
		for id := range e.fail {
			fl = append(fl, id)
		}
		sort.Ints(fl)
		out.Linef("op life %s fail=%s n=%d", what, vlIds(fl), len(e.rets))
		closeErr := 0
		if opErr != nil && (strings.HasPrefix(opErr.Error(), "cannot close previous watch") || (what == "shutdown" && strings.Contains(opErr.Error(), "verif-close-error"))) {
			closeErr = 1
		}
		out.Linef("obs life closes=%s pending=%d closeerr=%d", vlIds(e.closes), len(r.closers), closeErr)
		out.Linef("stat life_%s 1", what)
		if opErr != nil {
			out.Linef("stat life_%s_err 1", what)
		}
		// direct oracle: provider-owned values are as they were (deep comparison with the pristine twin)
		if vEnc(e.tab) != vEnc(e.twin) {
			out.Linef("viol sig=C12/provider/provider-owned-value-mutated step=%d was=%s now=%s", step, vEnc(e.twin), vEnc(e.tab))
		}
		// direct oracle: what this Resolve returned is what a FRESH resolver returns for the current provider state
		if what == "resolve" {
			fe := &vlLifeEnv{tab: vlClone(e.twin).(map[string]any), srcs: e.srcs, fail: map[int]bool{}, quiet: true}
			ff := []ProviderFactory{
				NewProviderFactory(func(ProviderSettings) Provider { return &vlLifeProv{scheme: "env", e: fe} }),
				NewProviderFactory(func(ProviderSettings) Provider { return &vlLifeProv{scheme: "src", e: fe} }),
			}
			var fconf *Conf
			var ferr error
			if fr, e2 := NewResolver(ResolverSettings{URIs: uris, ProviderFactories: ff}); e2 == nil {
				func() {
					defer func() { _ = recover() }()
					fconf, ferr = fr.Resolve(context.Background())
				}()
			}
			switch {
			case opErr == nil && ferr == nil && fconf != nil && lastConf != nil:
				out.Linef("stat life_fresh_compared 1")
				if got, want := vEnc(lastConf.ToStringMap()), vEnc(fconf.ToStringMap()); got != want {
					out.Linef("viol sig=C12/provider/stale-value-after-provider-change step=%d want=%s got=%s", step, want, got)
				}
			case (opErr == nil) != (ferr == nil) && closeErr == 0:
				out.Linef("viol sig=C12/provider/stale-value-after-provider-change step=%d resolver-err=%v fresh-err=%v", step, opErr != nil, ferr != nil)
			}
		}
		// direct oracles, independent of the model
		for _, id := range e.closes {
			closedAll[id]++
			if closedAll[id] > 1 {
				out.Linef("viol sig=C12/closers/close-called-twice id=%d", id)
			}
			if id >= issued {
				out.Linef("viol sig=C12/closers/closed-before-retrieved id=%d", id)
			}
		}
		for id := 0; id < issued; id++ {
			if closedAll[id] == 0 {
				out.Linef("viol sig=C12/closers/close-never-called id=%d step=%d", id, step)
			}
		}
		issued += len(e.rets)
		if what == "shutdown" && e.shutdown != 2 {
			out.Linef("viol sig=C12/closers/provider-shutdown-not-called-once calls=%d", e.shutdown)
		}
	}
	if len(prog) > 2 {
		out.Linef("nt")
	}
}

func vlGenLife(out *vOut, idx int, rnd *rand.Rand) {
	n := 1 + rnd.IntN(4)
	prog := make([]string, 0, n+1)
	for i := 0; i < n; i++ {
		prog = append(prog, "resolve")
	}
	prog = append(prog, "shutdown")
	vlLifeCase(out, idx, rnd, prog)
}

func TestVerifC12Life(t *testing.T) {
	out := vOpen(t)
	defer out.Close()
	out.Linef("model c12-life 1")
	type cc struct {
		uris, provs []string
		def         string
	}
	corpus := []cc{
		{[]string{"C:\\otel\\config.yaml", "config.yaml", "env:A"}, []string{"env", "file"}, ""},
		{[]string{"file:/etc/a.yaml", "yaml:k: v", "env:A:b"}, []string{"env", "file", "yaml"}, "env"},
		{[]string{"_:x", "[:y"}, []string{"file"}, ""},                 // the non-letter members of [A-z]
		{[]string{"c:x"}, []string{"env"}, ""},                         // file fall-back without a file provider: Resolve fails
		{[]string{"a:x"}, []string{"env", "a"}, ""},                    // one-letter provider scheme
		{[]string{"1ab:x"}, []string{"1ab"}, ""},                       // accepted by the unanchored provider check, never parseable
		{[]string{"env:A", "zz:y"}, []string{"env"}, ""},               // unsupported scheme
		{[]string{"env:A", "é:y"}, []string{"env"}, ""},                // invalid uri
		{[]string{"env:A"}, []string{"env", "env"}, ""},                // duplicate
		{[]string{"env:A"}, []string{"env"}, "file"},                   // default scheme not registered
		{nil, []string{"env"}, ""},                                     // no URIs
		{[]string{"env:A"}, nil, ""},                                   // no providers
		{[]string{"env:A", "file:x", "env:A", "env:A"}, []string{"env", "file"}, ""}, // repeats are kept
		{[]string{"env:x\ny:z"}, []string{"env"}, ""},                  // new line in the opaque part
	}
	n := vN(3000)
	for _, idx := range vCases(n) {
		switch {
		case idx < len(corpus):
			vlCtorCase(out, idx, corpus[idx].uris, corpus[idx].provs, corpus[idx].def)
		case idx%2 == 0:
			vlGenCtor(out, idx, vRand(idx))
		default:
			vlGenLife(out, idx, vRand(idx))
		}
	}
}
