//go:build verif

package confmap

import (
	"context"
	"encoding/json"
	"errors"
	"fmt"
	"math"
	"math/rand/v2"
	"reflect"
	"sort"
	"strconv"
	"strings"
	"sync"
	"sync/atomic"
	"testing"
	"time"

	"go.opentelemetry.io/collector/featuregate"
)

// ---------------------------------------------------------------------------------------------
// in-memory providers

type vEntry struct {
	yaml  []byte // non-nil: NewRetrievedFromYAML(yaml) (what env/file/yaml providers do)
	raw   any    // otherwise NewRetrieved(raw)
	isRaw bool
	// own: the provider hands out the SAME object on every Retrieve (Retrieved.AsRaw passes it on without a copy); `raw` is the
	// pristine twin it is compared with after Resolve — the resolver must not write into provider-owned data
	own    bool
	shared any
}

func (e *vEntry) retrieve() (*Retrieved, error) {
	if e.isRaw {
		if e.own {
			if e.shared == nil {
				e.shared = vClone(e.raw)
			}
			return NewRetrieved(e.shared)
		}
		return NewRetrieved(vClone(e.raw))
	}
	return NewRetrievedFromYAML(e.yaml)
}

// vCalls: per-Resolve provider call counter. A resolver that does not terminate on a reference cycle keeps calling
// providers: after `budget` calls (far above anything 1000 rounds can need) they refuse, and they honour ctx.
type vCalls struct {
	n      atomic.Int64
	budget int64
	mu     sync.Mutex
	seen   map[string]bool
	uris   []string // distinct reference URIs retrieved, in first-call order (reference schemes only)
}

func (c *vCalls) record(uri string) {
	c.mu.Lock()
	defer c.mu.Unlock()
	if c.seen == nil {
		c.seen = map[string]bool{}
	}
	if !c.seen[uri] && len(c.uris) < 200 {
		c.seen[uri] = true
		c.uris = append(c.uris, uri)
	}
}

type vProv struct {
	scheme string
	tab    map[string]*vEntry
	calls  *vCalls
	record bool // a reference scheme: its calls are reported as `tr retrieved`
	inline bool // the location IS the YAML text (like the yaml provider: --config=yaml:… / --set)
}

func (p *vProv) Retrieve(ctx context.Context, uri string, _ WatcherFunc) (*Retrieved, error) {
	if err := ctx.Err(); err != nil {
		return nil, fmt.Errorf("verif-watchdog: %w", err)
	}
	if p.calls != nil && p.calls.n.Add(1) > p.calls.budget {
		return nil, errors.New("verif-watchdog: provider call budget exceeded")
	}
	name := uri[len(p.scheme)+1:]
	if p.calls != nil && p.record {
		p.calls.record(uri)
	}
	if p.inline {
		return NewRetrievedFromYAML([]byte(name))
	}
	e, ok := p.tab[name]
	if !ok {
		return nil, errors.New("verif-provider-error: not found")
	}
	r, err := e.retrieve()
	if err != nil {
		return nil, fmt.Errorf("verif-provider-error: %w", err)
	}
	return r, nil
}
func (p *vProv) Scheme() string                 { return p.scheme }
func (p *vProv) Shutdown(context.Context) error { return nil }

func vClone(v any) any {
	switch x := v.(type) {
	case map[string]any:
		m := make(map[string]any, len(x))
		for k, e := range x {
			m[k] = vClone(e)
		}
		return m
	case []any:
		l := make([]any, len(x))
		for i, e := range x {
			l[i] = vClone(e)
		}
		return l
	}
	return v
}

// ---------------------------------------------------------------------------------------------
// canonical value encoding (see Drivers/C12.lean)

func vHexS(s string) string {
	const hexd = "0123456789abcdef"
	var b strings.Builder
	for i := 0; i < len(s); i++ {
		b.WriteByte(hexd[s[i]>>4])
		b.WriteByte(hexd[s[i]&15])
	}
	return b.String()
}

func vDump(b *strings.Builder, v any) {
	switch x := v.(type) {
	case nil:
		b.WriteString("n")
	case bool:
		if x {
			b.WriteString("t")
		} else {
			b.WriteString("f")
		}
	case int:
		b.WriteString("i" + strconv.FormatInt(int64(x), 10) + ";")
	case int64:
		b.WriteString("i" + strconv.FormatInt(x, 10) + ";")
	case int32:
		b.WriteString("i" + strconv.FormatInt(int64(x), 10) + ";")
	case float64:
		b.WriteString(fmt.Sprintf("d%016x;", math.Float64bits(x)))
	case float32:
		b.WriteString(fmt.Sprintf("d%016x;", math.Float64bits(float64(x))))
	case string:
		b.WriteString("s" + vHexS(x) + ";")
	case expandedValue:
		b.WriteString("x" + vHexS(x.Original) + ";")
		vDump(b, x.Value)
	case []any:
		b.WriteString("l" + strconv.Itoa(len(x)) + ";")
		for _, e := range x {
			vDump(b, e)
		}
	case map[string]any:
		keys := make([]string, 0, len(x))
		for k := range x {
			keys = append(keys, k)
		}
		sort.Strings(keys)
		b.WriteString("m" + strconv.Itoa(len(x)) + ";")
		for _, k := range keys {
			b.WriteString(vHexS(k) + ";")
			vDump(b, x[k])
		}
	default:
		b.WriteString("o" + vHexS(fmt.Sprintf("%T:%v", v, v)) + ";")
	}
}

func vEnc(v any) string {
	var b strings.Builder
	vDump(&b, v)
	return b.String()
}

func vErrClass(err error) string {
	s := err.Error()
	switch {
	case strings.Contains(s, "contains unsupported characters ('$')"):
		return "dollar-in-name"
	case strings.Contains(s, "verif-provider-error"):
		return "provider"
	case strings.Contains(s, "invalid uri"):
		return "invalid-uri"
	case strings.Contains(s, "is not supported for uri"):
		return "unsupported-scheme"
	case strings.Contains(s, "does not have unambiguous string representation"):
		return "no-string"
	case strings.Contains(s, "too many recursive expansions"):
		return "too-many"
	case strings.Contains(s, "cannot be used as a Conf"):
		return "not-map"
	}
	return "other:" + vHexS(s)
}

// ---------------------------------------------------------------------------------------------
// tokens

type vTok struct {
	kind   byte // L C E D R N
	s      string
	scheme string
}

func (t vTok) render() string {
	switch t.kind {
	case 'L':
		return t.s
	case 'C':
		return "}"
	case 'E':
		return "$$"
	case 'D':
		return "$"
	case 'R':
		return "${" + t.scheme + ":" + t.s + "}"
	case 'N':
		return "${" + t.s + "}"
	}
	return ""
}

func (t vTok) enc() string {
	switch t.kind {
	case 'L':
		return "L" + vHexS(t.s)
	case 'R':
		return "R" + vHexS(t.scheme) + ":" + vHexS(t.s)
	case 'N':
		return "N" + vHexS(t.s)
	}
	return string(t.kind)
}

func vRender(ts []vTok) string {
	var b strings.Builder
	for _, t := range ts {
		b.WriteString(t.render())
	}
	return b.String()
}

func vEncToks(ts []vTok) string {
	if len(ts) == 0 {
		return "-"
	}
	parts := make([]string, len(ts))
	for i, t := range ts {
		parts[i] = t.enc()
	}
	return strings.Join(parts, ",")
}

// ---------------------------------------------------------------------------------------------
// one case

type vCase struct {
	defaultScheme string
	provs         map[string]map[string]*vEntry // registered schemes
	srcs          []any                         // each: map[string]any, nil, or a non-map (error)
	toks          map[string][]vTok             // top-level key -> token list the value was rendered from
	tokOnly       bool
	kind          string
	loc           []int // location id per entry of srcs (nil: all distinct)
	wantExact     []vWantX        // top-level keys whose value must be exactly the later source's (plain) value
	dead          map[string]bool // reference URIs that occur only in values a later source replaces
	dname         string          // the case's only reference, whose NAME has a `$` (first / last position …): must be rejected
	mustSucceed   bool            // every reference that survives the merge is resolvable
	wantc         []vWantC
	wants         []vWant        // whole-value references whose original text every string-kind target must show
	inline        map[int]string // entry index -> YAML text that IS the location ("vyaml:<text>"); srcs[i] is its parsed form
	appendGate    bool           // Resolve runs with the confmap.enableMergeAppendOption feature gate on (lists are appended, de-duplicated)
}

type vWantX struct {
	key  string
	want any
}

type vWantC struct {
	key  string
	want any // []any of strings or map[string]any of strings: what a []string / map[string]string field must receive
	kind string
}

type vWant struct {
	key    string
	nested bool // the reference sits under <key>::v and is decoded into struct{V string}
	text   string
	kind   string // YAML kind of the provider text
}

var (
	vHangs     int   // Resolve calls stopped by the watchdog so far (the run stops after 3)
	vMaxCalls  int64 // largest number of provider calls of one Resolve that returned by itself
	vMaxMillis int64
)

func vEnvMillis(name string, def int) time.Duration {
	return time.Duration(vEnvInt(name, def)) * time.Millisecond
}

// vRepeat makes some locations occur again later in the URI list (adjacent and non-adjacent), up to 5 entries;
// keepLast: never after the last entry
func vRepeat(c *vCase, rnd *rand.Rand, keepLast bool) {
	if len(c.srcs) == 0 {
		return
	}
	loc := make([]int, len(c.srcs))
	for i := range loc {
		loc[i] = i
	}
	extra := 1 + rnd.IntN(2)
	for e := 0; e < extra && len(c.srcs) < 5; e++ {
		limit := len(c.srcs)
		if keepLast {
			limit--
		}
		if limit < 1 {
			break
		}
		j := rnd.IntN(limit)
		pos := j + 1
		if rnd.IntN(3) > 0 {
			pos = j + 1 + rnd.IntN(limit-j)
		}
		srcs := append([]any{}, c.srcs[:pos]...)
		srcs = append(srcs, vClone(c.srcs[j]))
		srcs = append(srcs, c.srcs[pos:]...)
		nl := append([]int{}, loc[:pos]...)
		nl = append(nl, loc[j])
		nl = append(nl, loc[pos:]...)
		c.srcs, loc = srcs, nl
	}
	c.loc = loc
}

var vSchemes = []string{"env", "file", "ab"}

func vNewCase() *vCase {
	c := &vCase{provs: map[string]map[string]*vEntry{}, toks: map[string][]vTok{}}
	for _, s := range vSchemes {
		c.provs[s] = map[string]*vEntry{}
	}
	return c
}

func (c *vCase) setYAML(scheme, name, y string) {
	c.provs[scheme][name] = &vEntry{yaml: []byte(y)}
}
func (c *vCase) setRaw(scheme, name string, v any) {
	c.provs[scheme][name] = &vEntry{raw: v, isRaw: true}
}

// Go-side reference semantics of a token list (independent of the resolver): nil = outside the fragment.
func (c *vCase) sem(ts []vTok) *string {
	var b strings.Builder
	refs := 0
	for i, t := range ts {
		switch t.kind {
		case 'L':
			if strings.ContainsAny(t.s, "$}") {
				return nil
			}
			b.WriteString(t.s)
		case 'C':
			b.WriteString("}")
		case 'E':
			b.WriteString("$")
		case 'D':
			rest := vRender(ts[i+1:])
			if strings.HasPrefix(rest, "$") || strings.HasPrefix(rest, "{") {
				return nil
			}
			b.WriteString("$")
		case 'R', 'N':
			refs++
			scheme := t.scheme
			if t.kind == 'N' {
				if c.defaultScheme == "" || strings.Contains(t.s, ":") {
					return nil
				}
				scheme = c.defaultScheme
			}
			if strings.ContainsAny(t.s, "$}") {
				return nil
			}
			tab, ok := c.provs[scheme]
			if !ok {
				return nil
			}
			e, ok := tab[t.s]
			if !ok {
				return nil
			}
			ret, err := e.retrieve()
			if err != nil {
				return nil
			}
			str, err := ret.AsString()
			if err != nil || strings.Contains(str, "$") {
				return nil
			}
			b.WriteString(str)
		}
	}
	if refs >= 1000 {
		return nil
	}
	s := b.String()
	return &s
}

func vHasCompleteRefOrEsc(s string) bool {
	if strings.Contains(s, "$$") {
		return true
	}
	i := strings.Index(s, "${")
	return i >= 0 && strings.Contains(s[i:], "}")
}

// independent statement of the recursive right-biased merge
func vSpecMerge(dst, src map[string]any) map[string]any {
	out := make(map[string]any, len(dst))
	for k, v := range dst {
		out[k] = vClone(v)
	}
	for k, sv := range src {
		dv, ok := out[k]
		sm, sIsMap := sv.(map[string]any)
		dm, dIsMap := dv.(map[string]any)
		if ok && sIsMap && dIsMap {
			out[k] = vSpecMerge(dm, sm)
		} else {
			out[k] = vClone(sv)
		}
	}
	return out
}

// independent statement of the gate-on merge: maps merge key by key, two lists become the old list followed by the new
// elements that are not (structurally) in it yet, anything else is replaced by the later source
func vSpecMergeAppend(dst, src map[string]any) map[string]any {
	out := make(map[string]any, len(dst))
	for k, v := range dst {
		out[k] = vClone(v)
	}
	for k, sv := range src {
		dv, ok := out[k]
		sm, sIsMap := sv.(map[string]any)
		dm, dIsMap := dv.(map[string]any)
		sl, sIsList := sv.([]any)
		dl, dIsList := dv.([]any)
		switch {
		case ok && sIsMap && dIsMap:
			out[k] = vSpecMergeAppend(dm, sm)
		case ok && sIsList && dIsList:
			nl := append([]any{}, dl...)
			for _, e := range sl {
				seen := false
				for _, x := range nl {
					if vEnc(x) == vEnc(e) {
						seen = true
					}
				}
				if !seen {
					nl = append(nl, vClone(e))
				}
			}
			out[k] = nl
		default:
			out[k] = vClone(sv)
		}
	}
	return out
}

func vAllStringsPlain(v any) bool {
	switch x := v.(type) {
	case string:
		return !vHasCompleteRefOrEsc(x)
	case []any:
		for _, e := range x {
			if !vAllStringsPlain(e) {
				return false
			}
		}
	case map[string]any:
		for _, e := range x {
			if !vAllStringsPlain(e) {
				return false
			}
		}
	}
	return true
}

func vHasEscCandidate(ts []vTok) bool {
	for i := 0; i+1 < len(ts); i++ {
		if ts[i].kind == 'E' && ts[i+1].kind == 'L' && strings.HasPrefix(ts[i+1].s, "{") {
			return true
		}
	}
	return false
}

func vHasRef(ts []vTok) bool {
	for _, t := range ts {
		if t.kind == 'R' || t.kind == 'N' {
			return true
		}
	}
	return false
}

func (c *vCase) run(out *vOut, idx int) (stuck bool) {
	out.Linef("case %d kind=%s", idx, c.kind)
	defer out.Flush()
	defer out.Linef("end")
	// env
	sch := make([]string, len(vSchemes))
	for i, s := range vSchemes {
		sch[i] = vHexS(s)
	}
	envLine := "op env schemes=" + strings.Join(sch, ",")
	if c.defaultScheme != "" {
		envLine += " default=" + vHexS(c.defaultScheme)
	}
	out.Linef("%s", envLine)
	if c.appendGate {
		out.Linef("op gate 1")
		out.Linef("stat append_gate_cases 1")
	}
	nprov := 0
	for _, s := range vSchemes {
		names := make([]string, 0, len(c.provs[s]))
		for n := range c.provs[s] {
			names = append(names, n)
		}
		sort.Strings(names)
		for _, n := range names {
			ret, err := c.provs[s][n].retrieve()
			if err != nil {
				// the constructor rejected the value: the provider returns an error, same as a missing entry
				continue
			}
			line := fmt.Sprintf("op prov %s %s %s", vHexS(s), vHex(n), vEnc(ret.rawConf))
			if ret.isSetString {
				line += " str=" + vHex(ret.stringRepresentation)
			}
			out.Linef("%s", line)
			nprov++
		}
	}
	for _, s := range c.srcs {
		out.Linef("op src %s", vEnc(s))
	}
	keys := make([]string, 0, len(c.toks))
	for k := range c.toks {
		keys = append(keys, k)
	}
	sort.Strings(keys)
	for _, k := range keys {
		out.Linef("op tok %s %s", vHex(k), vEncToks(c.toks[k]))
	}
	for _, w := range c.wantc {
		out.Linef("op wantc %s %s %s", vHex(w.key), vEnc(w.want), w.kind)
	}
	for _, w := range c.wants {
		op := "want"
		if w.nested {
			op = "wantn"
		}
		out.Linef("op %s %s %s %s", op, vHex(w.key), vHex(w.text), w.kind)
		out.Linef("stat want_%s 1", w.kind)
	}

	// the real resolver
	calls := &vCalls{budget: int64(vEnvInt("VERIF_C12_CALL_BUDGET", 400000))}
	factories := []ProviderFactory{}
	for _, s := range vSchemes {
		for _, e := range c.provs[s] {
			if e.isRaw {
				e.own, e.shared = true, nil // the reference providers own their values: one object, handed out again and again
			}
		}
		p := &vProv{scheme: s, tab: c.provs[s], calls: calls, record: true}
		factories = append(factories, NewProviderFactory(func(ProviderSettings) Provider { return p }))
	}
	// c.srcs is the URI list AS GIVEN to the resolver; c.loc[i] is the location of entry i, so the same location may
	// occur several times (adjacent or not) and must be merged again each time. Entries in c.inline are top-level
	// locations that embed their content ("vyaml:<yaml text>", with $ references, $$ escapes, lone $).
	srcTab := map[string]*vEntry{}
	uris := make([]string, len(c.srcs))
	repeats, inlines := 0, 0
	for i, s := range c.srcs {
		l := i
		if c.loc != nil {
			l = c.loc[i]
		}
		if _, dup := srcTab[strconv.Itoa(l)]; dup {
			repeats++
		}
		srcTab[strconv.Itoa(l)] = &vEntry{raw: s, isRaw: true}
		uris[i] = "vsrc:" + strconv.Itoa(l)
		if txt, ok := c.inline[i]; ok {
			uris[i] = "vyaml:" + txt
			inlines++
		}
	}
	out.Linef("stat repeated_locations %d", repeats)
	out.Linef("stat inline_sources %d", inlines)
	sp := &vProv{scheme: "vsrc", tab: srcTab, calls: calls}
	factories = append(factories, NewProviderFactory(func(ProviderSettings) Provider { return sp }))
	yp := &vProv{scheme: "vyaml", inline: true, calls: calls}
	factories = append(factories, NewProviderFactory(func(ProviderSettings) Provider { return yp }))

	// every Resolve runs under a watchdog: deadline -> cancel ctx (providers honour it) -> grace period
	var conf *Conf
	var err error
	var panicked any
	ctx, cancel := context.WithCancel(context.Background())
	defer cancel()
	done := make(chan struct{})
	start := time.Now()
	if c.appendGate {
		_ = featuregate.GlobalRegistry().Set(enableMergeAppendOption.ID(), true)
		defer func() { _ = featuregate.GlobalRegistry().Set(enableMergeAppendOption.ID(), false) }()
	}
	go func() {
		defer close(done)
		defer func() { panicked = recover() }()
		var r *Resolver
		r, err = NewResolver(ResolverSettings{URIs: uris, ProviderFactories: factories, DefaultScheme: c.defaultScheme})
		if err != nil {
			return
		}
		conf, err = r.Resolve(ctx)
	}()
	timedOut := false
	select {
	case <-done:
	case <-time.After(vEnvMillis("VERIF_C12_DEADLINE_MS", 8000)):
		timedOut = true
		cancel()
		select {
		case <-done:
		case <-time.After(vEnvMillis("VERIF_C12_GRACE_MS", 5000)):
			stuck = true
		}
	}
	// direct oracle: whatever happened, the values the providers own are as they were (deep comparison with the pristine twin)
	if !timedOut {
		for _, sc := range vSchemes {
			names := make([]string, 0, len(c.provs[sc]))
			for n := range c.provs[sc] {
				names = append(names, n)
			}
			sort.Strings(names)
			for _, n := range names {
				if e := c.provs[sc][n]; e.own && e.shared != nil {
					out.Linef("stat provider_owned_checked 1")
					if vEnc(e.shared) != vEnc(e.raw) {
						out.Linef("viol sig=C12/provider/provider-owned-value-mutated ref=%s:%s was=%s now=%s", vHexS(sc), vHexS(n), vEnc(e.raw), vEnc(e.shared))
					}
				}
			}
		}
	}
	ncalls := calls.n.Load()
	if timedOut || ncalls > calls.budget {
		tokOnly := 0
		if c.tokOnly {
			tokOnly = 1
		}
		out.Linef("op resolve hint=- tokonly=%d", tokOnly)
		out.Linef("obs res hang")
		out.Linef("stat kind_%s 1", c.kind)
		out.Linef("viol sig=C12/terminate/resolve-does-not-return provider_calls=%d deadline_hit=%v returned_after_cancel=%v elapsed_ms=%d",
			ncalls, timedOut, !stuck, time.Since(start).Milliseconds())
		vHangs++
		return stuck
	}
	if ncalls > vMaxCalls {
		vMaxCalls = ncalls
	}
	if ms := time.Since(start).Milliseconds(); ms > vMaxMillis {
		vMaxMillis = ms
	}
	hint := "-"
	if err != nil {
		hint = vErrClass(err)
	}
	tokOnly := 0
	if c.tokOnly {
		tokOnly = 1
	}
	calls.mu.Lock()
	retrieved := append([]string{}, calls.uris...)
	calls.mu.Unlock()
	for _, w := range c.wantExact {
		out.Linef("op wantexact %s %s", vHex(w.key), vEnc(w.want))
	}
	leaf := 0
	if c.kind == "override" || c.appendGate {
		leaf = 1
	}
	dn := 0
	if c.dname != "" {
		dn = 1
	}
	out.Linef("op resolve hint=%s tokonly=%d leaf=%d dname=%d", hint, tokOnly, leaf, dn)
	if c.dname != "" {
		// direct oracle: a reference whose name contains `$` is an error, and the provider is never asked for such a name
		if err == nil {
			out.Linef("viol sig=C12/name/dollar-in-name-not-rejected input=%s resolved-without-error", vHexS(c.dname))
		} else if hint != "dollar-in-name" {
			out.Linef("viol sig=C12/name/dollar-in-name-not-rejected input=%s class=%s", vHexS(c.dname), hint)
		}
		if len(retrieved) > 0 {
			out.Linef("viol sig=C12/name/provider-consulted-for-rejected-name input=%s retrieved=%s", vHexS(c.dname), vHexS(strings.Join(retrieved, " ")))
		}
		out.Linef("stat dname_cases 1")
	}
	for _, u := range retrieved {
		k := strings.IndexByte(u, ':')
		out.Linef("tr retrieved %s %s", vHexS(u[:k]), vHex(u[k+1:]))
		// direct oracle: a reference that a later source replaced must not be looked up at all
		if c.dead[u] {
			out.Linef("viol sig=C12/merge/overridden-reference-still-looked-up retrieved=%s", vHexS(u))
		}
	}
	if panicked != nil {
		out.Linef("obs res panic")
		if c.appendGate && strings.Contains(fmt.Sprint(panicked), "not comparable") {
			// mergeAppend's isPresent compared list elements with reflect.Value.Equal, which panics on map / list elements
			out.Linef("viol sig=C12/mergeappend/panic-on-uncomparable-list-element %s", vHexS(fmt.Sprint(panicked)))
			return
		}
		out.Linef("viol sig=C12/resolve/panic %s", vHexS(fmt.Sprint(panicked)))
		return
	}
	nt := false
	for _, ts := range c.toks {
		if vHasRef(ts) && (vHasEscCandidate(ts) || strings.Contains(vRender(ts), "$$")) {
			nt = true
		}
	}
	if len(c.srcs) > 1 {
		nt = true
	}
	if nt {
		out.Linef("nt")
	}
	out.Linef("stat kind_%s 1", c.kind)
	out.Linef("stat provs %d", nprov)
	out.Linef("stat sources %d", len(c.srcs))
	if err != nil {
		out.Linef("obs res err %s", hint)
		if c.mustSucceed {
			out.Linef("viol sig=C12/merge/overridden-reference-still-looked-up resolve-failed class=%s", hint)
		}
		// direct oracle: every top-level location of this harness exists and its provider never fails, so Resolve must
		// retrieve it — also when the location text itself contains '$' (inline YAML with references, escapes, lone $):
		// '$' is only an error inside a REFERENCE name
		if strings.HasPrefix(err.Error(), "cannot retrieve the configuration") {
			sig := "C12/source/valid-location-not-retrieved"
			for _, u := range uris {
				if strings.Contains(u, "$") {
					sig = "C12/source/location-with-dollar-rejected"
				}
			}
			out.Linef("viol sig=%s class=%s err=%s", sig, hint, vHexS(err.Error()))
		}
		out.Linef("stat err_%s 1", strings.SplitN(hint, ":", 2)[0])
		// direct oracle: a value built only from well-formed tokens resolves without error
		if c.tokOnly && len(c.toks) > 0 {
			all := true
			for _, ts := range c.toks {
				if c.sem(ts) == nil {
					all = false
				}
			}
			if all {
				out.Linef("viol sig=C12/expand/error-on-wellformed-tokens class=%s", hint)
			}
		}
		return
	}
	raw := conf.toStringMapWithExpand()
	out.Linef("obs res ok %s", vEnc(raw))
	strmap := conf.ToStringMap()
	out.Linef("obs strmap %s", vEnc(strmap))
	for _, w := range c.wantExact {
		if vEnc(strmap[w.key]) != vEnc(w.want) {
			out.Linef("viol sig=C12/merge/overridden-reference-leaks-into-result key=%s want=%s got=%s", vHexS(w.key), vEnc(w.want), vEnc(strmap[w.key]))
		}
	}
	out.Linef("stat ok 1")
	top := make([]string, 0, len(raw))
	for k := range raw {
		top = append(top, k)
	}
	sort.Strings(top)
	for _, k := range top {
		line, fields, panics, anyLeak := vTyped(conf, k, strmap[k])
		out.Linef("obs typed %s %s", vHexS(k), line)
		// direct oracles on typed decoding
		for _, tgt := range panics {
			out.Linef("viol sig=C12/typed/panic/%s key=%s", tgt, vHexS(k))
		}
		if anyLeak {
			out.Linef("viol sig=C12/typed/expanded-value-leaked/any-field key=%s", vHexS(k))
		}
		for _, w := range c.wantc {
			if w.key != k {
				continue
			}
			fld, tname := "ss", "string-slice-element"
			if _, isMap := w.want.(map[string]any); isMap {
				fld, tname = "ms", "string-map-value"
			}
			if fields[fld] != vEnc(w.want) {
				out.Linef("viol sig=C12/typed/string-field-lost-original-text/%s/%s key=%s want=%s got=%s", w.kind, tname, vHexS(k), vEnc(w.want), fields[fld])
			}
		}
		for _, w := range c.wants {
			if w.key != k {
				continue
			}
			want := "s" + vHexS(w.text) + ";"
			targets := [][2]string{{"s", "string"}, {"ns", "named-string"}, {"ps", "ptr-string"}}
			if w.nested {
				targets = [][2]string{{"n", "nested-struct-string"}}
			}
			for _, t := range targets {
				if fields[t[0]] != want {
					out.Linef("viol sig=C12/typed/string-field-lost-original-text/%s/%s key=%s want=%s got=%s", w.kind, t[1], vHexS(k), want, fields[t[0]])
				}
			}
		}
	}
	if vHasExpanded(strmap) {
		out.Linef("viol sig=C12/typed/expanded-value-leaked/tostringmap")
	}
	if len(c.wants) > 0 {
		out.Linef("stat typed_wants %d", len(c.wants))
	}

	// ---- direct oracles on the implementation ----
	// (1) reference semantics of token-built values
	for _, k := range keys {
		ts := c.toks[k]
		want := c.sem(ts)
		if want == nil {
			continue
		}
		out.Linef("stat tok_in_fragment 1")
		got, ok := vAsStringTarget(raw[k])
		if !ok || got != *want {
			area := "escape/unescape-wrong"
			if vHasRef(ts) {
				area = "expand/reference-value-wrong"
				if vHasEscCandidate(ts) {
					area = "expand/escaped-and-real-reference"
				}
			}
			out.Linef("viol sig=C12/%s key=%s input=%s want=%s got=%s", area, vHexS(k), vHexS(vRender(ts)), vHexS(*want), vHexS(got))
		}
	}
	// (1b) when resolution succeeds, no complete reference to a known provider key is left anywhere in the result
	// (provider values are themselves expanded). Judged only when no escape can be involved: every '$' of every source
	// string and provider value is directly followed by '{'.
	if c.dollarsAllOpen() {
		out.Linef("stat leftover_checked 1")
		if sc, n, where := c.leftoverRef(raw); where != "" {
			sig := "C12/expand/known-reference-left-in-output"
			if e := c.provs[sc][n]; e != nil && !e.isRaw && strings.Contains(string(e.yaml), "${"+sc+":"+n+"}") {
				sig = "C12/cycle/returned-as-fixed-point"
			}
			out.Linef("viol sig=%s ref=%s:%s in=%s", sig, vHexS(sc), vHexS(n), vHexS(where))
		}
	}
	// (2) text with neither a complete reference nor $$ is unchanged; (3) merge is the recursive right-biased merge
	plain := true
	var spec map[string]any = map[string]any{}
	for _, s := range c.srcs {
		if !vAllStringsPlain(s) {
			plain = false
		}
		if m, ok := s.(map[string]any); ok {
			if c.appendGate {
				spec = vSpecMergeAppend(spec, m)
			} else {
				spec = vSpecMerge(spec, m)
			}
		} else if s != nil {
			plain = false
		}
	}
	if plain {
		out.Linef("stat plain_merge_checked 1")
		if vEnc(spec) != vEnc(strmap) {
			sig := "C12/merge/not-right-biased-recursive-merge"
			if c.appendGate {
				sig = "C12/mergeappend/not-append-dedup-merge"
			}
			if len(c.srcs) <= 1 {
				sig = "C12/literal/plain-text-changed"
			}
			out.Linef("viol sig=%s want=%s got=%s", sig, vEnc(spec), vEnc(strmap))
		}
	} else if len(c.srcs) == 1 {
		if m, ok := c.srcs[0].(map[string]any); ok {
			for k, v := range m {
				if s, ok := v.(string); ok && !vHasCompleteRefOrEsc(s) {
					if got, ok := strmap[k].(string); !ok || got != s {
						out.Linef("viol sig=C12/literal/plain-text-changed key=%s input=%s", vHexS(k), vHexS(s))
					}
				}
			}
		}
	}
	return false
}

func vDollarsOpen(s string) bool {
	for i := 0; i < len(s); i++ {
		if s[i] == '$' && (i+1 >= len(s) || s[i+1] != '{') {
			return false
		}
	}
	return true
}

func vWalkStrings(v any, f func(string)) {
	switch x := v.(type) {
	case string:
		f(x)
	case expandedValue:
		f(x.Original)
		vWalkStrings(x.Value, f)
	case []any:
		for _, e := range x {
			vWalkStrings(e, f)
		}
	case map[string]any:
		for _, e := range x {
			vWalkStrings(e, f)
		}
	}
}

// every '$' in every source string and every provider value is directly followed by '{': no escape can arise
func (c *vCase) dollarsAllOpen() bool {
	ok := true
	chk := func(s string) {
		if !vDollarsOpen(s) {
			ok = false
		}
	}
	for _, s := range c.srcs {
		vWalkStrings(s, chk)
	}
	for _, tab := range c.provs {
		for _, e := range tab {
			if e.isRaw {
				vWalkStrings(e.raw, chk)
			} else {
				chk(string(e.yaml))
			}
		}
	}
	return ok
}

// first complete reference `${scheme:name}` / `${name}` to a provider key that exists, in any string of the result
func (c *vCase) leftoverRef(res any) (scheme, name, where string) {
	vWalkStrings(res, func(s string) {
		if where != "" {
			return
		}
		for i := 0; i+1 < len(s); i++ {
			if s[i] != '$' || s[i+1] != '{' {
				continue
			}
			j := strings.IndexByte(s[i+2:], '}')
			if j < 0 {
				return
			}
			body := s[i+2 : i+2+j]
			if strings.Contains(body, "$") {
				continue // an inner "${" follows and is looked at on its own
			}
			sc, n := c.defaultScheme, body
			if k := strings.IndexByte(body, ':'); k >= 0 {
				sc, n = body[:k], body[k+1:]
			}
			if tab, ok := c.provs[sc]; ok && sc != "" {
				if e, ok := tab[n]; ok {
					if _, err := e.retrieve(); err == nil {
						scheme, name, where = sc, n, s
						return
					}
				}
			}
		}
	})
	return
}

// what a Go string field receives (expandedValue -> Original)
func vAsStringTarget(v any) (string, bool) {
	switch x := v.(type) {
	case expandedValue:
		return x.Original, true
	case string:
		return x, true
	}
	return "", false
}

// Unmarshal the top-level key into string / int / bool fields through the real Conf.Unmarshal
type vNamedString string

// vText: a struct type with UnmarshalText (like component.ID): NOT a string target for useExpandValue
type vText struct{ s string }

func (t *vText) UnmarshalText(b []byte) error {
	t.s = string(b)
	return nil
}

func vHasExpanded(v any) bool {
	switch x := v.(type) {
	case expandedValue:
		return true
	case []any:
		for _, e := range x {
			if vHasExpanded(e) {
				return true
			}
		}
	case map[string]any:
		for _, e := range x {
			if vHasExpanded(e) {
				return true
			}
		}
	}
	return false
}

// vTyped decodes the top-level key through the real Conf.Unmarshal into fields of type string, named string, *string,
// struct{V string `mapstructure:"v"`}, any, int, bool. Returns the obs fields and the targets that panicked / leaked.
func vTyped(conf *Conf, key string, plain any) (line string, fields map[string]string, panics []string, anyLeak bool) {
	tag := reflect.StructTag(`mapstructure:"` + key + `"`)
	dec := func(name string, t reflect.Type) (v reflect.Value, ok bool) {
		defer func() {
			if r := recover(); r != nil {
				ok = false
				panics = append(panics, name)
			}
		}()
		st := reflect.StructOf([]reflect.StructField{{Name: "V", Type: t, Tag: tag}})
		p := reflect.New(st)
		if err := conf.Unmarshal(p.Interface(), WithIgnoreUnused()); err != nil {
			return reflect.Value{}, false
		}
		return p.Elem().Field(0), true
	}
	f := map[string]string{"s": "err", "ns": "err", "ps": "err", "n": "err", "ss": "err", "ms": "err", "fl": "err", "tx": "err", "a": "err", "i": "err", "b": "err"}
	if v, ok := dec("string-slice", reflect.TypeOf([]string(nil))); ok {
		l := make([]any, v.Len())
		for i := range l {
			l[i] = v.Index(i).String()
		}
		f["ss"] = vEnc(l)
	}
	if v, ok := dec("string-map", reflect.TypeOf(map[string]string(nil))); ok {
		m := map[string]any{}
		for _, k := range v.MapKeys() {
			m[k.String()] = v.MapIndex(k).String()
		}
		f["ms"] = vEnc(m)
	}
	switch x := plain.(type) {
	case nil, bool, int, int64, int32, float64, float32, string, []any, map[string]any:
		big := false
		if i, ok := x.(int); ok && (i >= 1<<53 || i <= -(1<<53)) {
			big = true
		}
		if big {
			f["fl"] = "skip"
		} else if v, ok := dec("float64", reflect.TypeOf(float64(0))); ok {
			f["fl"] = fmt.Sprintf("B%016x", math.Float64bits(v.Float()))
		}
		if v, ok := dec("text-unmarshaler", reflect.TypeOf(vText{})); ok {
			f["tx"] = "s" + vHexS(v.Field(0).String()) + ";"
		}
	default:
		f["fl"], f["tx"], f["ss"], f["ms"] = "skip", "skip", "skip", "skip"
	}
	if v, ok := dec("string", reflect.TypeOf("")); ok {
		f["s"] = "s" + vHexS(v.String()) + ";"
	}
	if v, ok := dec("named-string", reflect.TypeOf(vNamedString(""))); ok {
		f["ns"] = "s" + vHexS(v.String()) + ";"
	}
	if v, ok := dec("ptr-string", reflect.TypeOf((*string)(nil))); ok {
		if v.IsNil() {
			f["ps"] = "nil"
		} else {
			f["ps"] = "s" + vHexS(v.Elem().String()) + ";"
		}
	}
	type inner struct {
		V string `mapstructure:"v"`
	}
	switch plain.(type) {
	case nil, bool, int, int64, int32, float64, float32, string, []any, map[string]any:
		if v, ok := dec("nested-struct-string", reflect.TypeOf(inner{})); ok {
			f["n"] = "s" + vHexS(v.Field(0).String()) + ";"
		}
	default:
		f["n"] = "skip" // a Go struct value (time.Time): mapstructure's struct-to-struct path is not modelled
	}
	np := len(panics)
	if v, ok := dec("any-field", reflect.TypeOf((*any)(nil)).Elem()); ok {
		x := v.Interface()
		f["a"] = vEnc(x)
		anyLeak = vHasExpanded(x)
	} else if len(panics) > np {
		f["a"] = "panic"
	}
	switch plain.(type) {
	case nil, bool, int, int64, int32, string, []any, map[string]any:
		if v, ok := dec("int", reflect.TypeOf(int(0))); ok {
			f["i"] = strconv.FormatInt(v.Int(), 10)
		}
	default:
		f["i"] = "skip"
	}
	if v, ok := dec("bool", reflect.TypeOf(true)); ok {
		if v.Bool() {
			f["b"] = "t"
		} else {
			f["b"] = "f"
		}
	}
	return fmt.Sprintf("s=%s ns=%s ps=%s n=%s ss=%s ms=%s fl=%s tx=%s a=%s i=%s b=%s", f["s"], f["ns"], f["ps"], f["n"], f["ss"], f["ms"], f["fl"], f["tx"], f["a"], f["i"], f["b"]), f, panics, anyLeak
}

// ---------------------------------------------------------------------------------------------
// generators

var vNames = []string{"A", "B", "C", "D", "E", "F", "N1", "x y", "a.b"}

var vPlainYAML = []string{"foo", "bar baz", "8080", "true", "1.5", "0x10", "", "a}b", "{x", "a:b", "}{", "x{y}z",
	"[1, two]", "{k: v}", `"q"`, "~", "- a\n- b", "multi\nline", "-7", "A", "env:B", "{env:B}", "1e3", "null", "0777", "{", "}"}

var vDollarYAML = []string{"${env:B}", "pre-${file:C}-post", "$$", "$${env:B}", "x$y", "$", "${env:A}", "${ab:${env:D}}",
	"$$${env:B}", "${B}", "${env:B}${env:C}", "a$$b", "${zz:A}", "[\"${env:E}\", 2]", "{k: \"${env:F}\"}", "${env:$B}", "$}", "${", "$${",
	"[a$$b, 1]", "{k: x$$y}", "[\"$${env:B}\"]", "{k: \"$$${env:F}\"}",
	"{e: \"${env:E}\", i: \"i ${env:E}\"}", "{e: \"${env:E}\"}"}

func vGenProviders(c *vCase, rnd *rand.Rand, pPlain float64) {
	defer func() {
		// env:E and env:F never refer back to another name, and structured (map/list) provider values only refer to
		// them: a structured value can then not sit on a reference cycle. Such a cycle costs O(rounds^3) (every nesting
		// level re-expands its own growing Original) and, with ReplaceAll-style code, values with two occurrences of
		// a reference double the string every round (memory blow-up).
		if e, ok := c.provs["env"]["F"]; ok && (e.isRaw || strings.Contains(string(e.yaml), "$")) {
			c.setYAML("env", "F", vPlainYAML[rnd.IntN(len(vPlainYAML))])
		}
		if e, ok := c.provs["env"]["E"]; ok && (e.isRaw || strings.Contains(string(e.yaml), "$")) {
			c.setYAML("env", "E", []string{"{f: \"${env:F}\"}", "{f: \"${env:F}\", g: 1}", "plain", "${env:F}", "e-${env:F}", "[\"${env:F}\", 0]"}[rnd.IntN(6)])
		}
	}()
	for _, s := range vSchemes {
		for _, n := range vNames {
			if rnd.Float64() < 0.2 {
				continue
			}
			r := rnd.Float64()
			switch {
			case r < pPlain:
				c.setYAML(s, n, vPlainYAML[rnd.IntN(len(vPlainYAML))])
			case r < pPlain+(1-pPlain)*0.6:
				c.setYAML(s, n, vDollarYAML[rnd.IntN(len(vDollarYAML))])
			default:
				switch rnd.IntN(8) {
				case 0:
					c.setRaw(s, n, map[string]any{"k": "${env:B}", "n": 1, "e": "$$x"})
				case 1:
					c.setRaw(s, n, []any{"a", "${file:C}", 3, nil})
				case 2:
					c.setRaw(s, n, 7)
				case 3:
					c.setRaw(s, n, true)
				case 4:
					c.setRaw(s, n, "rawstr")
				case 5:
					c.setRaw(s, n, "raw${env:B}")
				case 6:
					c.setRaw(s, n, nil)
				case 7:
					c.setRaw(s, n, map[string]any{"deep": map[string]any{"l": []any{"${ab:A}"}}, "z": 2.5})
				}
			}
		}
	}
}

var vLitAlphabet = []string{"a", "b", "x", " ", "{", ":", "-", "env", "{env:A", "{A", "0", ".", "/"}

func vGenLit(rnd *rand.Rand) string {
	n := 1 + rnd.IntN(3)
	var b strings.Builder
	for i := 0; i < n; i++ {
		b.WriteString(vLitAlphabet[rnd.IntN(len(vLitAlphabet))])
	}
	return b.String()
}

func vGenRef(rnd *rand.Rand, c *vCase) vTok {
	name := vNames[rnd.IntN(6)]
	if rnd.IntN(10) == 0 {
		name = vNames[rnd.IntN(len(vNames))]
	}
	if c.defaultScheme != "" && rnd.IntN(3) == 0 {
		return vTok{kind: 'N', s: name}
	}
	if rnd.IntN(30) == 0 {
		return vTok{kind: 'N', s: name} // without default scheme: not a reference
	}
	scheme := vSchemes[rnd.IntN(len(vSchemes))]
	if rnd.IntN(3) > 0 {
		scheme = "env"
	}
	return vTok{kind: 'R', scheme: scheme, s: name}
}

func vGenToks(rnd *rand.Rand, c *vCase) []vTok {
	n := rnd.IntN(13)
	var ts []vTok
	var lastRef *vTok
	for len(ts) < n {
		switch r := rnd.IntN(20); {
		case r < 4:
			ts = append(ts, vTok{kind: 'L', s: vGenLit(rnd)})
		case r < 5:
			ts = append(ts, vTok{kind: 'C'})
		case r < 8:
			k := 1 + rnd.IntN(3)
			for i := 0; i < k; i++ {
				ts = append(ts, vTok{kind: 'E'})
			}
		case r < 9:
			ts = append(ts, vTok{kind: 'D'})
			if rnd.IntN(10) < 7 {
				ts = append(ts, vTok{kind: 'L', s: "a" + vGenLit(rnd)})
			}
		case r < 14:
			t := vGenRef(rnd, c)
			lastRef = &t
			ts = append(ts, t)
		case r < 18:
			// an escaped occurrence of a reference, preferably of one that also occurs for real
			t := vGenRef(rnd, c)
			if lastRef != nil && rnd.IntN(3) > 0 {
				t = *lastRef
			}
			body := t.s
			if t.kind == 'R' {
				body = t.scheme + ":" + t.s
			}
			k := 1 + 2*rnd.IntN(2) // odd number of $ before {  => (k+1)/2 esc tokens … rendered as "$$"*m + "{"
			m := (k + 1) / 2
			for i := 0; i < m; i++ {
				ts = append(ts, vTok{kind: 'E'})
			}
			ts = append(ts, vTok{kind: 'L', s: "{" + body}, vTok{kind: 'C'})
			if rnd.IntN(2) == 0 {
				ts = append(ts, vTok{kind: 'L', s: " "}, t)
				lastRef = &t
			}
		default:
			// unterminated / stray pieces
			switch rnd.IntN(3) {
			case 0:
				ts = append(ts, vTok{kind: 'L', s: "{x"})
			case 1:
				ts = append(ts, vTok{kind: 'C'})
			case 2:
				ts = append(ts, vTok{kind: 'D'}, vTok{kind: 'L', s: "{env:A"}) // "${env:A" unterminated: outside the fragment
			}
		}
	}
	return ts
}

var vPieces = []string{"a", "b c", "$", "$$", "${", "}", "${env:A}", "${A}", "${zz:A}", "${a:x}", "${env:$A}", "${env:${env:D}}",
	"${env:A", ":", "{", "${file:B}", "${ab:C}", "$${env:A}", "${env:E}", "${env:F}", "${}", "${:}", "${env:}", "${9x:A}", "${env:x y}", "\xc3\xa9",
	"${env:A$}", "${A$$}", "${$A}", "${$}", "${env:$}", "${{A}", "${env:{A}", "${env:A{}", "${env:A$$}"}

func vGenString(rnd *rand.Rand) string {
	n := rnd.IntN(7)
	var b strings.Builder
	for i := 0; i < n; i++ {
		b.WriteString(vPieces[rnd.IntN(len(vPieces))])
	}
	return b.String()
}

var vKeys = []string{"k0", "k1", "k2", "a", "b", "n"}

func vGenValue(rnd *rand.Rand, depth int, pDollar float64) any {
	r := rnd.IntN(14)
	if depth <= 0 && r >= 10 {
		r = rnd.IntN(10)
	}
	switch {
	case r < 4:
		if rnd.Float64() < pDollar {
			return vGenString(rnd)
		}
		return []string{"v", "w", "text", "1", "", "a b", "x}y", "{z"}[rnd.IntN(8)]
	case r < 5:
		return rnd.IntN(100) - 50
	case r < 6:
		return rnd.IntN(2) == 0
	case r < 7:
		return float64(rnd.IntN(9)) / 4
	case r < 8:
		return nil
	case r < 10:
		n := rnd.IntN(3)
		l := make([]any, n)
		for i := range l {
			l[i] = vGenValue(rnd, depth-1, pDollar)
		}
		return l
	default:
		return vGenMap(rnd, depth-1, pDollar)
	}
}

func vGenMap(rnd *rand.Rand, depth int, pDollar float64) map[string]any {
	n := rnd.IntN(4)
	m := map[string]any{}
	for i := 0; i < n; i++ {
		m[vKeys[rnd.IntN(len(vKeys))]] = vGenValue(rnd, depth, pDollar)
	}
	return m
}

func vCorpus() []*vCase {
	var cs []*vCase
	mk := func(kind, def string, val any, setup func(c *vCase)) *vCase {
		c := vNewCase()
		c.kind = kind
		c.defaultScheme = def
		c.setYAML("env", "X", "foo")
		if setup != nil {
			setup(c)
		}
		if ts, ok := val.([]vTok); ok {
			c.toks["v"] = ts
			c.tokOnly = true
			c.srcs = []any{map[string]any{"v": vRender(ts)}}
		} else {
			c.srcs = []any{map[string]any{"v": val}}
		}
		cs = append(cs, c)
		return c
	}
	x := vTok{kind: 'R', scheme: "env", s: "X"}
	// DESIGN §C12 finding (1): "$${env:X} ${env:X}"
	mk("corpus", "", []vTok{{kind: 'E'}, {kind: 'L', s: "{env:X"}, {kind: 'C'}, {kind: 'L', s: " "}, x}, nil)
	// finding (2): "${env:X} $${env:X}"
	mk("corpus", "", []vTok{x, {kind: 'L', s: " "}, {kind: 'E'}, {kind: 'L', s: "{env:X"}, {kind: 'C'}}, nil)
	// cycle, whole value and embedded
	mk("corpus", "", "${env:A}", func(c *vCase) { c.setYAML("env", "A", "${env:A}") })
	mk("corpus", "", "x${env:A}", func(c *vCase) { c.setYAML("env", "A", "-${env:B}"); c.setYAML("env", "B", "${env:A}") })
	// $ in the name
	mk("corpus", "", "${env:a$b}", nil)
	mk("corpus", "env", "pre ${$X}", nil)
	// typed whole value / string target gets the original
	mk("corpus", "", "${env:P}", func(c *vCase) { c.setYAML("env", "P", "0x10") })
	mk("corpus", "env", "${X}", nil)
	// nested
	mk("corpus", "", "${env:${env:D}}", func(c *vCase) { c.setYAML("env", "D", "X") })
	// provider value that contains references and escapes again
	mk("corpus", "", "a ${env:V} b", func(c *vCase) { c.setYAML("env", "V", "<${env:X} $${env:X} $$>") })
	// 999 references resolve, 1000 hit the recursion bound
	many := func(n int) []vTok {
		ts := make([]vTok, 0, 2*n)
		for i := 0; i < n; i++ {
			ts = append(ts, x, vTok{kind: 'L', s: "."})
		}
		return ts
	}
	mk("corpus", "", many(999), nil)
	mk("corpus", "", many(1000), nil)
	// merge: later scalar replaces a map, later map merges, nil and empty sources change nothing
	c := vNewCase()
	c.kind = "corpus"
	c.srcs = []any{
		map[string]any{"a": map[string]any{"x": 1, "y": []any{1, 2}}, "b": "keep", "l": []any{"p"}},
		nil,
		map[string]any{},
		map[string]any{"a": map[string]any{"y": []any{3}, "z": nil}, "l": []any{"q"}, "n": map[string]any{}},
		map[string]any{"a": map[string]any{"x": map[string]any{"deep": true}}, "n": map[string]any{"m": 1}},
	}
	cs = append(cs, c)
	// a one-element cycle whose provider value is textually the reference itself, embedded in a longer string: an error
	mk("corpus", "", "http://${env:H}:4317", func(c *vCase) { c.setYAML("env", "H", "${env:H}") })
	// indirect references (provider value contains a reference) in a NON-LAST list position, in map values, nested
	ind := func(c *vCase) {
		c.setYAML("env", "L0", "a-${env:L1}")
		c.setYAML("env", "L1", "b-${env:L2}")
		c.setYAML("env", "L2", "end")
	}
	mk("corpus", "", []any{"${env:L0}", "${env:L2}", "lit"}, ind)
	mk("corpus", "", []any{[]any{"x ${env:L0} y", "lit"}, map[string]any{"m": "${env:L0}", "n": "${env:L2}"}, 1}, ind)
	mk("corpus", "", map[string]any{"a": "${env:L0}", "b": "lit", "c": []any{map[string]any{"d": []any{"${env:L1}", "z"}}}}, ind)
	// structured value with two occurrences over a 3-deep chain: the original text needs more rounds than the parsed value
	mk("corpus", "", "${env:S0}", func(c *vCase) {
		c.setYAML("env", "S0", "{env: \"${env:S1}\", inline: \"inline ${env:S1}\"}")
		c.setYAML("env", "S1", "{env2: \"${env:S2}\"}")
		c.setYAML("env", "S2", "{value: 123}")
	})
	// the same location several times in the URI list: merged again each time, never de-duplicated
	rep := func(order ...int) {
		a := map[string]any{"s": 1, "l": []any{1, 2}, "m": map[string]any{"x": 1, "y": "a"}, "only_a": true}
		b := map[string]any{"s": 2, "l": []any{3}, "m": map[string]any{"x": 9, "z": 0}, "only_b": 1}
		d := map[string]any{"s": "c", "m": 5}
		all := []any{a, b, d}
		c := vNewCase()
		c.kind = "corpus"
		for _, i := range order {
			c.srcs = append(c.srcs, vClone(all[i]))
			c.loc = append(c.loc, i)
		}
		cs = append(cs, c)
	}
	rep(0, 1, 0)
	rep(0, 0, 1)
	rep(0, 1, 1, 0, 2)
	rep(2, 0, 2, 1)
	// cycles reached through an EMBEDDED reference: always an error, never a hang, never a fixed point
	mk("corpus", "", map[string]any{"endpoint": "http://${env:A}/v1"}, func(c *vCase) {
		c.setYAML("env", "A", "${env:B}")
		c.setYAML("env", "B", "${env:A}")
	})
	mk("corpus", "", []any{"${env:HOST}", "x ${env:HOST} y", "lit"}, func(c *vCase) { c.setYAML("env", "HOST", "host-${env:HOST}") })
	mk("corpus", "", []any{[]any{"lit", "pre ${env:A}"}, "${env:X}", 1}, func(c *vCase) {
		c.setYAML("env", "A", "${env:B}")
		c.setYAML("env", "B", "b/${env:C}/b")
		c.setYAML("env", "C", "${env:A}")
	})
	mk("corpus", "", "${env:M}", func(c *vCase) {
		c.setYAML("env", "M", "{a: \"x ${env:A}\", b: [1, \"${env:A}\"]}")
		c.setYAML("env", "A", "a${env:B}")
		c.setYAML("env", "B", "${env:A}")
	})
	// top-level locations that embed their content (what --config=yaml:… / --set produce), with references, escapes, lone $
	inl := func(texts ...string) {
		c := vNewCase()
		c.kind = "corpus"
		c.setYAML("env", "X", "foo")
		for i, t := range texts {
			vInlineText(c, i, t)
		}
		cs = append(cs, c)
	}
	inl("k0: ${env:X}:4317")
	inl("k1: pa$$word\nk2: $\nk3: a$b")
	inl("{k0: \"a $${env:X} ${env:X}\", k1: [1, \"${env:X}\"]}", "k0: ${env:X}", "n: {m: \"${env:X}$$\"}")
	// a whole-value reference to a YAML null / unset variable / number / bool: string-kind targets get the original text,
	// an `any` field gets the typed value (no panic), nothing leaks out of a map-valued provider result
	for _, kt := range [][2]string{{"null", "null"}, {"null", "~"}, {"null", "NULL"}, {"empty", ""}, {"number", "0x10"}, {"bool", "true"}} {
		c := mk("corpus", "", "${env:T}", func(c *vCase) { c.setYAML("env", "T", kt[1]) })
		c.srcs = []any{map[string]any{"k0": "${env:T}", "k1": map[string]any{"v": "${env:T}"}}}
		c.wants = []vWant{{key: "k0", text: kt[1], kind: kt[0]}, {key: "k1", nested: true, text: kt[1], kind: kt[0]}}
	}
	mk("corpus", "", "${env:M}", func(c *vCase) {
		c.setYAML("env", "M", "{a: \"${env:X}\", b: [\"${env:X}\", {c: \"${env:X}\"}], n: 1}")
		c.setYAML("env", "X", "123")
	})
	// merge FIRST, then expand: (a) a provider MAP (no string representation) under a key that a later source overrides with
	// a map; (b) an unresolvable reference that a later source replaces
	ovr := func(firstVal string, override any, setup func(c *vCase)) {
		c := vNewCase()
		c.kind = "override"
		c.setYAML("env", "X", "foo")
		if setup != nil {
			setup(c)
		}
		c.srcs = []any{map[string]any{"k0": firstVal, "k2": "keep ${env:X}"}, map[string]any{"k0": override}}
		c.wantExact = []vWantX{{"k0", override}}
		c.mustSucceed = true
		c.dead = map[string]bool{}
		if i := strings.Index(firstVal, "${"); i >= 0 {
			if j := strings.IndexByte(firstVal[i:], '}'); j > 0 && !strings.ContainsAny(firstVal[i+2:i+j], "${") {
				c.dead[firstVal[i+2:i+j]] = true
			}
		}
		cs = append(cs, c)
	}
	ovr("${env:PM}", map[string]any{"o": 1}, func(c *vCase) { c.setRaw("env", "PM", map[string]any{"leak": 1, "o": 0}) })
	ovr("${zz:A}", 1, nil)
	ovr("${env:MISSING}", "v", nil)
	ovr("${env:CYC}", []any{1}, func(c *vCase) { c.setYAML("env", "CYC", "${env:CYC}") })
	ovr("${env:a$b}", map[string]any{}, nil)
	// `$` at the FIRST / LAST position of the reference name (and alone): rejected, the provider is never asked
	for _, dv := range [][2]string{{"", "${env:HOST$}"}, {"env", "${HOST$$}"}, {"env", "${$HOST}"}, {"env", "${$}"}, {"", "${env:$}"},
		{"", "http://${env:HOST$}:4317"}, {"env", "x ${$HOST} y"}} {
		c := mk("corpus", dv[0], dv[1], func(c *vCase) {
			c.setYAML("env", "HOST", "h")
			c.setYAML("env", "", "empty-name-value")
		})
		c.kind = "dname"
		c.dname = dv[1]
	}
	// 48-51: the gate-on list merge (confmap.enableMergeAppendOption): append + de-duplicate, duplicates inside the later
	// list, list over scalar / map over list (replaced), nested; 50/51 with map and list ELEMENTS when VERIF_C12_APPEND_DEEP
	deepM, deepL := any("scrape-a"), any("scrape-b")
	if vAppendDeep() {
		deepM, deepL = map[string]any{"job": "a", "targets": []any{"h:1"}}, []any{1, "x"}
	}
	for _, srcs := range [][]any{
		{map[string]any{"extensions": []any{"a", "b"}, "x": 1, "s": "old", "n": 1}, map[string]any{"extensions": []any{"a", "c", "c", "b", nil, nil}, "x": []any{1}, "s": "new", "n": nil}},
		{map[string]any{"s": map[string]any{"p": []any{"otlp", 1, true}, "q": []any{"z"}}}, map[string]any{"s": map[string]any{"p": []any{1, "1", "otlp", 1.5}, "q": "z"}},
			map[string]any{"s": map[string]any{"p": []any{true, false}, "q": []any{"y"}}}},
		{map[string]any{"scrape": []any{deepM, deepL, "x"}}, map[string]any{"scrape": []any{vClone(deepM), vClone(deepL), "y"}}},
		{map[string]any{"l": []any{deepM, "${env:X}"}}, map[string]any{"l": []any{"foo", "${env:X}", deepL, vClone(deepM)}}, map[string]any{"l": []any{}}},
	} {
		c := mk("append", "", nil, nil)
		c.appendGate = true
		c.srcs = srcs
	}
	// 52: a provider that OWNS its value (one map object, handed out on every Retrieve) referenced twice: the resolver must not
	// write expanded / un-escaped elements back into it
	c52 := mk("corpus", "", nil, func(c *vCase) {
		c.setRaw("env", "OWN", map[string]any{"k": "${env:X}", "l": []any{"${env:X}", "$$x", map[string]any{"d": "${env:X}"}}, "e": "a$$b"})
	})
	c52.srcs = []any{map[string]any{"a": "${env:OWN}", "b": "${env:OWN}", "c": []any{"${env:OWN}"}}}
	// 53: an included document whose text starts with a comment holding an unresolvable reference (expanding the ORIGINAL fails, the
	// error is swallowed) while its parsed value still needs two more rounds: the `changed` of the value must survive
	c53 := mk("corpus", "", nil, func(c *vCase) {
		c.setYAML("env", "DOC", "# see ${nosuch:thing}\na: ${env:L1}\nb: [1, '${env:L1}']\n")
		c.setYAML("env", "L1", "${env:L2}")
		c.setYAML("env", "L2", "deep")
	})
	c53.srcs = []any{map[string]any{"inc": "${env:DOC}", "z": "${env:L1}"}}
	return cs
}

// vGenChain: providers env:L0 -> L1 -> … -> Lk (k = 1..3), each link mentioning the next once or twice, as a whole
// value, embedded, or inside a structured (map/list) YAML value; the last link is plain — or, 1 in 25, leads
// into a reference cycle of length 1..3 (whole or embedded links; must be an error). The config refers to the links from list elements (the deepest chain preferably
// NOT in the last position), map values and nested combinations. No '$' other than in "${": the leftover oracle applies.
func vGenChain(c *vCase, rnd *rand.Rand) {
	depth := 1 + rnd.IntN(3)
	refTo := func(i int) string {
		if c.defaultScheme != "" && rnd.IntN(3) == 0 {
			return "${L" + strconv.Itoa(i) + "}"
		}
		return "${env:L" + strconv.Itoa(i) + "}"
	}
	for i := 0; i < depth; i++ {
		r := refTo(i + 1)
		var y string
		switch rnd.IntN(7) {
		case 0:
			y = r
		case 1:
			y = "p" + r + "s"
		case 2:
			y = r + "-" + r
		case 3:
			y = "{a: \"" + r + "\", b: \"in " + r + "\"}"
		case 4:
			y = "[\"" + r + "\", 1]"
		case 5:
			y = "{m: {n: \"" + r + "\"}}"
		case 6:
			y = "[\"x\", \"" + r + "\", \"" + refTo(depth) + "\"]"
		}
		c.setYAML("env", "L"+strconv.Itoa(i), y)
	}
	last := "L" + strconv.Itoa(depth)
	if rnd.IntN(25) == 0 {
		// a reference cycle of length 1..3 (C0 -> C1 -> C2 -> C0) of string values, reached from the last link; every link
		// is the whole value or EMBEDDED in a longer string (then the text grows every round); must be an error
		m := 1 + rnd.IntN(3)
		grow := rnd.IntN(3) == 0
		for i := 0; i < m; i++ {
			nx := "${env:C" + strconv.Itoa((i+1)%m) + "}"
			v := nx
			if grow && (i == 0 || rnd.IntN(2) == 0) {
				v = []string{"c-" + nx, nx + "/v1", "host-" + nx + ":1"}[rnd.IntN(3)]
			}
			c.setYAML("env", "C"+strconv.Itoa(i), v)
		}
		c.setYAML("env", last, []string{"${env:C0}", "http://${env:C0}/v1", "{a: \"x ${env:C0}\", b: [1, \"${env:C0}\"]}",
			"[\"${env:C0}\", 1]", "${env:C0}"}[rnd.IntN(5)])
	} else {
		c.setYAML("env", last, []string{"v", "8080", "{value: 123}", "[1, 2]", "true", "x y", "", "a}b"}[rnd.IntN(8)])
	}
	leaf := func(deep bool) any {
		i := rnd.IntN(depth + 1)
		if deep {
			i = 0
		}
		switch rnd.IntN(8) {
		case 0, 1, 2:
			return refTo(i)
		case 3:
			return "pre " + refTo(i) + " post"
		case 4:
			return "http://" + refTo(i) + ":4317"
		case 5:
			return refTo(i) + refTo(depth)
		case 6:
			return "lit"
		}
		return rnd.IntN(10)
	}
	list := func() []any {
		n := 2 + rnd.IntN(3)
		l := make([]any, n)
		deepAt := rnd.IntN(n - 1) // never the last position
		for i := range l {
			l[i] = leaf(i == deepAt)
		}
		if rnd.IntN(3) == 0 {
			l[n-1] = "lit"
		}
		return l
	}
	m := map[string]any{}
	for _, k := range vKeys[:1+rnd.IntN(3)] {
		switch rnd.IntN(6) {
		case 0:
			m[k] = list()
		case 1:
			m[k] = []any{list(), leaf(false)}
		case 2:
			m[k] = map[string]any{"a": leaf(true), "b": leaf(false), "l": list()}
		case 3:
			m[k] = []any{map[string]any{"x": leaf(true), "y": leaf(false)}, leaf(false)}
		case 4:
			m[k] = leaf(true)
		case 5:
			m[k] = []any{[]any{[]any{leaf(true), "lit"}, leaf(false)}, map[string]any{"d": list()}}
		}
	}
	c.srcs = []any{m}
}

// vInlineLoc turns every entry of location l into a top-level location that embeds its content: the source map is
// written as flow YAML (JSON) text, the URI is "vyaml:<text>", and srcs[i] becomes what the real constructor parses
func vInlineLoc(c *vCase, l int) {
	for i := range c.srcs {
		li := i
		if c.loc != nil {
			li = c.loc[i]
		}
		m, ok := c.srcs[i].(map[string]any)
		if li != l || !ok {
			continue
		}
		var b strings.Builder
		enc := json.NewEncoder(&b)
		enc.SetEscapeHTML(false)
		if enc.Encode(m) != nil {
			continue
		}
		vInlineText(c, i, strings.TrimSuffix(b.String(), "\n"))
	}
}

func vInlineText(c *vCase, i int, text string) {
	ret, err := NewRetrievedFromYAML([]byte(text))
	if err != nil {
		return
	}
	pm, ok := ret.rawConf.(map[string]any)
	if !ok {
		return
	}
	if c.inline == nil {
		c.inline = map[int]string{}
	}
	for len(c.srcs) <= i {
		c.srcs = append(c.srcs, nil)
	}
	c.srcs[i] = pm
	c.inline[i] = text
}

var vYAMLKinds = []struct {
	kind  string
	texts []string
}{
	{"null", []string{"null", "~", "Null", "NULL"}},
	{"bool", []string{"true", "false", "True"}},
	{"number", []string{"123", "0x10", "1.5", "-7", "1e3", "0777", "0"}},
	{"empty", []string{""}},
	{"string", []string{"foo", "a b", "nil", "n/a"}},
	{"map", []string{"{a: 1}", "{v: x}"}},
	{"list", []string{"[1, 2]", "[]"}},
	{"timestamp", []string{"2001-01-01"}},
}

// vGenTyped: "its original text when assigned to a string field". k0/k2 are whole-value references, k1::v is one under
// a nested key; the provider texts parse to every YAML kind, one third of them to null.
func vGenTyped(c *vCase, rnd *rand.Rand) {
	pick := func(name string) (string, string) {
		k := vYAMLKinds[rnd.IntN(len(vYAMLKinds))]
		if rnd.IntN(3) == 0 {
			k = vYAMLKinds[0]
		}
		t := k.texts[rnd.IntN(len(k.texts))]
		c.setYAML("env", name, t)
		return t, k.kind
	}
	ref := func(name string) string {
		if c.defaultScheme != "" && rnd.IntN(3) == 0 {
			return "${" + name + "}"
		}
		return "${env:" + name + "}"
	}
	m := map[string]any{}
	t0, kd0 := pick("T0")
	m["k0"] = ref("T0")
	c.wants = append(c.wants, vWant{key: "k0", text: t0, kind: kd0})
	if rnd.IntN(2) == 0 {
		t1, kd1 := pick("T1")
		m["k1"] = map[string]any{"v": ref("T1"), "w": rnd.IntN(5)}
		c.wants = append(c.wants, vWant{key: "k1", nested: true, text: t1, kind: kd1})
	}
	if rnd.IntN(2) == 0 {
		t2, kd2 := pick("T2")
		m["k2"] = ref("T2")
		c.wants = append(c.wants, vWant{key: "k2", text: t2, kind: kd2})
	}
	if rnd.IntN(2) == 0 {
		// stringy containers: a []string and a map[string]string field whose elements are whole-value references
		m["k3"] = []any{ref("T0"), "lit", ref("T0")}
		c.wantc = append(c.wantc, vWantC{key: "k3", want: []any{t0, "lit", t0}, kind: kd0})
		m["k4"] = map[string]any{"h": ref("T0"), "g": "lit"}
		c.wantc = append(c.wantc, vWantC{key: "k4", want: map[string]any{"h": t0, "g": "lit"}, kind: kd0})
	}
	if rnd.IntN(3) == 0 {
		// a map-valued provider result with references inside (nested expanded values), next to it
		c.setYAML("env", "M", "{a: \"${env:T0}\", b: [\"${env:T0}\", {c: \"${env:T0}\"}], v: \"${env:T0}\"}")
		m["a"] = "${env:M}"
	}
	c.srcs = []any{m}
}

// vGenOverride: 2-4 sources; the first holds references under k0 (to a provider that returns a MAP, with or without string
// representation), k1 (an UNRESOLVABLE reference: unknown scheme, failing provider, cycle, $ in the name, invalid uri,
// whole or embedded) and n::k (nested); a later source replaces these keys (map / scalar / list / string, or the whole
// parent) with plain values. The result must hold exactly the overrides, Resolve must succeed, and the replaced
// references must never be retrieved. k2/k3 keep references that survive.
func vGenOverride(c *vCase, rnd *rand.Rand) {
	c.dead = map[string]bool{}
	c.mustSucceed = true
	c.setYAML("env", "X", "foo")
	c.setYAML("env", "Y", "[1, \"${env:X}\"]")
	if rnd.IntN(2) == 0 {
		c.setRaw("env", "PM", map[string]any{"leak": 1, "o": 0, "deep": map[string]any{"l": []any{"a"}}, "r": "${env:X}"})
	} else {
		c.setYAML("env", "PM", "{leak: 1, o: 0, deep: {l: [a]}}")
	}
	c.setYAML("env", "CYC", "${env:CYC}")
	c.setYAML("env", "CY2", "c-${env:CY2}")
	bad := []string{"${zz:A}", "${env:MISSING}", "${env:CYC}", "${env:a$b}", "${a:x}", "x ${env:MISSING} y", "${env:CY2}",
		"pre-${file:NOPE}", "${env:MISSING}${env:X}"}
	plain := func() any {
		switch rnd.IntN(6) {
		case 0:
			return map[string]any{"o": 1, "p": "x"}
		case 1:
			return map[string]any{}
		case 2:
			return []any{"a", 2}
		case 3:
			return "plain text"
		case 4:
			return rnd.IntN(100)
		}
		return nil
	}
	markDead := func(ref string) {
		// every complete plain reference of the overridden value
		for i := 0; i+1 < len(ref); i++ {
			if ref[i] == '$' && ref[i+1] == '{' {
				if j := strings.IndexByte(ref[i:], '}'); j > 0 {
					body := ref[i+2 : i+j]
					if strings.Contains(body, ":") && !strings.ContainsAny(body, "${") {
						c.dead[body] = true
					}
				}
			}
		}
	}
	first := map[string]any{"k2": "keep ${env:X}", "k3": "${env:Y}"}
	last := map[string]any{}
	// (a) a provider MAP under a key that a later source overrides
	first["k0"] = "${env:PM}"
	markDead("${env:PM}")
	ov0 := plain()
	if rnd.IntN(2) == 0 {
		ov0 = map[string]any{"o": 1, "p": "x"}
	}
	last["k0"] = ov0
	c.wantExact = append(c.wantExact, vWantX{"k0", ov0})
	// (b) an unresolvable reference under a key that a later source overrides
	b := bad[rnd.IntN(len(bad))]
	ov1 := plain()
	if rnd.IntN(3) == 0 {
		first["k1"] = []any{"lit", b}
	} else if rnd.IntN(3) == 0 {
		first["k1"] = map[string]any{"in": b, "z": 1}
		if _, isMap := ov1.(map[string]any); isMap {
			ov1 = "scalar over map" // a map override would MERGE with the earlier map and keep the bad reference alive
		}
	} else {
		first["k1"] = b
	}
	markDead(b)
	last["k1"] = ov1
	c.wantExact = append(c.wantExact, vWantX{"k1", ov1})
	// nested: n::k is replaced, or the whole parent n
	if rnd.IntN(2) == 0 {
		b2 := bad[rnd.IntN(len(bad))]
		first["n"] = map[string]any{"k": b2, "keep": "${env:X}"}
		markDead(b2)
		if rnd.IntN(2) == 0 {
			last["n"] = map[string]any{"k": "v"}
			c.wantExact = append(c.wantExact, vWantX{"n", map[string]any{"k": "v", "keep": "foo"}})
		} else {
			last["n"] = 5
			c.wantExact = append(c.wantExact, vWantX{"n", 5})
		}
	}
	delete(c.dead, "env:X")
	delete(c.dead, "env:Y")
	c.srcs = []any{first}
	for i := rnd.IntN(3); i > 0; i-- {
		c.srcs = append(c.srcs, map[string]any{"m" + strconv.Itoa(i): rnd.IntN(9), "k2": "keep ${env:X}"})
	}
	c.srcs = append(c.srcs, last)
	if rnd.IntN(4) == 0 {
		// the overriding source once more at the end (a repeated location), or an inline one
		c.srcs = append(c.srcs, map[string]any{"k3": "${env:Y}"})
	}
	if rnd.IntN(3) == 0 {
		vInlineLoc(c, len(c.srcs)-1)
	}
}

// vGenDollarName: the config's ONLY reference has a `$` in its NAME — at the first or last position (also doubled, alone,
// next to `{`), with and without scheme, as the whole value or embedded, at a top-level or nested key or in a list. Resolve
// must fail with the `$`-in-name error and no provider may be consulted (a trimmed name such as HOST or "" exists).
func vGenDollarName(c *vCase, rnd *rand.Rand) {
	c.kind = "dname"
	c.setYAML("env", "HOST", "h")
	c.setYAML("env", "", "empty-name-value")
	c.setYAML("env", "{HOST", "brace")
	names := []string{"HOST$", "$HOST", "HOST$$", "$$HOST", "$", "$$", "$HOST$", "{HOST$", "$HOST{", "HO$ST", "HOST$ ", "$ HOST"}
	name := names[rnd.IntN(len(names))]
	ref := "${env:" + name + "}"
	if rnd.IntN(2) == 0 {
		c.defaultScheme = "env"
		if rnd.IntN(3) > 0 {
			ref = "${" + name + "}"
		}
	}
	val := ref
	switch rnd.IntN(4) {
	case 0:
		val = "http://" + ref + ":4317"
	case 1:
		val = ref + "/path"
	}
	c.dname = val
	m := map[string]any{"b": "plain", "n": map[string]any{"x": 1}}
	switch rnd.IntN(4) {
	case 0:
		m["n"] = map[string]any{"x": 1, "k": val}
	case 1:
		m["k0"] = []any{"lit", val}
	default:
		m["k0"] = val
	}
	c.srcs = []any{m}
	c.toks = map[string][]vTok{}
	c.tokOnly = false
}

// VERIF_C12_APPEND_DEEP=0 keeps map / list ELEMENTS out of the lists merged under the gate (on a tree without the
// isPresent repair every such case is a panic: sig C12/mergeappend/panic-on-uncomparable-list-element)
func vAppendDeep() bool { return vEnvInt("VERIF_C12_APPEND_DEEP", vAppendDeepDefault) != 0 }

const vAppendDeepDefault = 1

var vAppendKeys = []string{"l", "k0", "m", "x"}

func vGenAppendElem(rnd *rand.Rand, pRef float64) any {
	r := rnd.IntN(16)
	if !vAppendDeep() && r >= 12 {
		r = rnd.IntN(12)
	}
	switch {
	case r < 5:
		if rnd.Float64() < pRef {
			return []string{"${env:A}", "x-${env:B}", "$$", "a$$b", "${env:E}"}[rnd.IntN(5)]
		}
		return []string{"a", "b", "c", "otlp", "", "a b"}[rnd.IntN(6)]
	case r < 7:
		return rnd.IntN(3)
	case r < 8:
		return rnd.IntN(2) == 0
	case r < 9:
		return float64(rnd.IntN(3)) / 2
	case r < 10:
		return nil
	case r < 12:
		return []string{"a", "b"}[rnd.IntN(2)]
	case r < 14:
		m := map[string]any{}
		for i, n := 0, rnd.IntN(3); i < n; i++ {
			m[[]string{"m", "n"}[rnd.IntN(2)]] = []any{1, "a", nil, []any{"a"}, map[string]any{"z": 1}}[rnd.IntN(5)]
		}
		return m
	default:
		l := []any{}
		for i, n := 0, rnd.IntN(3); i < n; i++ {
			l = append(l, []any{1, "a", nil}[rnd.IntN(3)])
		}
		return l
	}
}

func vGenAppendValue(rnd *rand.Rand, depth int, pRef float64) any {
	r := rnd.IntN(10)
	switch {
	case r < 6:
		n := rnd.IntN(5)
		l := make([]any, n)
		for i := range l {
			l[i] = vGenAppendElem(rnd, pRef)
		}
		return l
	case r < 8 && depth > 0:
		m := map[string]any{}
		for i, n := 0, rnd.IntN(4); i < n; i++ {
			m[vAppendKeys[rnd.IntN(len(vAppendKeys))]] = vGenAppendValue(rnd, depth-1, pRef)
		}
		return m
	default:
		return []any{"s", 1, nil, true, ""}[rnd.IntN(5)]
	}
}

// vGenAppend: 2-4 sources over four colliding keys (depth <= 2) whose values are mostly LISTS drawn from a small element
// pool (so elements recur within one list, across sources, and in different order), sometimes a map or a scalar under the
// same key (different kinds: replaced); one in four cases has references / escapes in list elements; repeated locations.
func vGenAppend(c *vCase, rnd *rand.Rand) {
	c.appendGate = true
	vGenProviders(c, rnd, 0.9)
	pRef := 0.0
	if rnd.IntN(4) == 0 {
		pRef = 0.4
	}
	n := 2 + rnd.IntN(3)
	for i := 0; i < n; i++ {
		m := map[string]any{}
		for j, k := 0, 1+rnd.IntN(3); j < k; j++ {
			m[vAppendKeys[rnd.IntN(len(vAppendKeys))]] = vGenAppendValue(rnd, 2, pRef)
		}
		if rnd.IntN(15) == 0 {
			c.srcs = append(c.srcs, nil)
		}
		c.srcs = append(c.srcs, m)
	}
	if rnd.IntN(3) == 0 {
		vRepeat(c, rnd, false)
	}
}

func vGenCase(idx int, rnd *rand.Rand) *vCase {
	c := vNewCase()
	if rnd.IntN(2) == 0 {
		c.defaultScheme = "env"
	}
	if idx%7 == 2 && (idx/7)%4 == 0 {
		// every fourth merge case runs with the confmap.enableMergeAppendOption gate on
		c.kind = "append"
		vGenAppend(c, rnd)
		return c
	}
	switch idx % 7 {
	case 6: // merge FIRST, then expand: later sources override keys whose earlier value is a reference
		c.kind = "override"
		vGenOverride(c, rnd)
	case 5: // whole-value references to provider texts of every YAML kind, decoded into string-kind targets
		c.kind = "typed"
		vGenTyped(c, rnd)
	case 4: // reference chains through provider values, placed in lists (non-last positions), map values, nested
		c.kind = "chain"
		vGenChain(c, rnd)
	case 0: // token-built values only
		c.kind = "tok"
		c.tokOnly = true
		vGenProviders(c, rnd, 0.95)
		m := map[string]any{}
		n := 1 + rnd.IntN(3)
		for i := 0; i < n; i++ {
			k := vKeys[i]
			ts := vGenToks(rnd, c)
			c.toks[k] = ts
			m[k] = vRender(ts)
		}
		c.srcs = []any{m}
	case 1: // grammar-free strings in a nested config
		c.kind = "rand"
		vGenProviders(c, rnd, 0.6)
		c.srcs = []any{vGenMap(rnd, 3, 0.8)}
		if rnd.IntN(5) == 0 {
			vGenDollarName(c, rnd)
		}
	case 2: // merge of several sources, mostly plain
		c.kind = "merge"
		vGenProviders(c, rnd, 0.9)
		n := 1 + rnd.IntN(4)
		p := 0.0
		if rnd.IntN(4) == 0 {
			p = 0.3
		}
		for i := 0; i < n; i++ {
			switch r := rnd.IntN(20); {
			case r == 0:
				c.srcs = append(c.srcs, nil)
			case r == 1 && rnd.IntN(3) == 0:
				c.srcs = append(c.srcs, "not a map")
			default:
				c.srcs = append(c.srcs, vGenMap(rnd, 4, p))
			}
		}
		if rnd.IntN(5) < 2 {
			vRepeat(c, rnd, false)
		}
		for l := range c.srcs {
			if rnd.IntN(3) == 0 {
				vInlineLoc(c, l)
			}
		}
	default: // several sources with references, token values on top
		c.kind = "mixed"
		vGenProviders(c, rnd, 0.8)
		n := 1 + rnd.IntN(3)
		for i := 0; i < n; i++ {
			c.srcs = append(c.srcs, vGenMap(rnd, 3, 0.5))
		}
		last := vGenMap(rnd, 2, 0.3)
		ts := vGenToks(rnd, c)
		c.toks["k0"] = ts
		last["k0"] = vRender(ts)
		c.srcs = append(c.srcs, last)
		if rnd.IntN(4) == 0 {
			vRepeat(c, rnd, true)
		}
		for l := range c.srcs {
			if rnd.IntN(3) == 0 {
				vInlineLoc(c, l)
			}
		}
	}
	return c
}

func TestVerifC12Resolve(t *testing.T) {
	out := vOpen(t)
	defer out.Close()
	out.Linef("model c12-resolve 1")
	corpus := vCorpus()
	n := vN(2000)
	for _, idx := range vCases(n) {
		var stuck bool
		if idx < len(corpus) {
			stuck = corpus[idx].run(out, idx)
		} else {
			stuck = vGenCase(idx, vRand(idx)).run(out, idx)
		}
		if stuck || vHangs >= 3 {
			// a Resolve that does not return cannot be killed; three replays are enough, stop here
			out.Linef("# stopped after %d watchdog hits (stuck=%v)", vHangs, stuck)
			break
		}
	}
	out.Linef("# max_provider_calls=%d max_resolve_ms=%d", vMaxCalls, vMaxMillis)
}
