//go:build verif

package e2e

import (
	"encoding"
	"fmt"
	"math/rand/v2"
	"reflect"
	"sort"
	"strings"
	"testing"

	"go.opentelemetry.io/collector/component"
	"go.opentelemetry.io/collector/confmap"
	"go.opentelemetry.io/collector/exporter/otlpexporter"
	"go.opentelemetry.io/collector/exporter/otlphttpexporter"
	"go.opentelemetry.io/collector/receiver/otlpreceiver"
	"go.opentelemetry.io/collector/service"
)

// ---- generated schemas: reflect-built struct types ----

type c13S struct {
	k      byte // s scalar (int or string), p ptr, l slice, m map[string]T, t struct
	str    bool // scalar is a string
	elem   *c13S
	fields []c13F
}

type c13F struct {
	goName   string
	key      string
	squash   bool
	exported bool
	tagged   bool
	skip     bool // tag "-"
	t        *c13S
}

type c13DG struct {
	rnd     *rand.Rand
	nkey    int
	planted string // description of the planted unknown key ("" = none)
	deep    bool
	want    bool // plant an unknown key somewhere
}

func (g *c13DG) genS(depth int) *c13S {
	if depth >= 3 {
		return &c13S{k: 's', str: g.rnd.IntN(2) == 0}
	}
	switch g.rnd.IntN(9) {
	case 0, 1, 2:
		return &c13S{k: 's', str: g.rnd.IntN(2) == 0}
	case 3:
		return &c13S{k: 'p', elem: g.genStruct(depth + 1)}
	case 4:
		return &c13S{k: 'l', elem: g.genS(depth + 1)}
	case 5:
		return &c13S{k: 'm', elem: g.genS(depth + 1)}
	default:
		return g.genStruct(depth + 1)
	}
}

func (g *c13DG) genStruct(depth int) *c13S {
	t := &c13S{k: 't'}
	for i, n := 0, 1+g.rnd.IntN(4); i < n; i++ {
		g.nkey++
		f := c13F{goName: fmt.Sprintf("F%d", g.nkey), key: fmt.Sprintf("k%d", g.nkey), exported: true, tagged: true}
		switch g.rnd.IntN(10) {
		case 0:
			f.exported = false
			f.goName = fmt.Sprintf("f%d", g.nkey)
		case 1:
			f.skip = true
		case 2:
			f.tagged = false
			f.key = f.goName // mapstructure matches an untagged field by its Go name (case-sensitive in confmap)
		case 3, 4:
			if depth < 3 {
				f.squash = true
				f.t = g.genStruct(depth + 1)
			}
		}
		if f.t == nil {
			f.t = g.genS(depth)
		}
		t.fields = append(t.fields, f)
	}
	return t
}

func (s *c13S) rtype() reflect.Type {
	switch s.k {
	case 's':
		if s.str {
			return reflect.TypeOf("")
		}
		return reflect.TypeOf(0)
	case 'p':
		return reflect.PointerTo(s.elem.rtype())
	case 'l':
		return reflect.SliceOf(s.elem.rtype())
	case 'm':
		return reflect.MapOf(reflect.TypeOf(""), s.elem.rtype())
	}
	var fs []reflect.StructField
	for _, f := range s.fields {
		sf := reflect.StructField{Name: f.goName, Type: f.t.rtype()}
		if !f.exported {
			sf.PkgPath = "go.opentelemetry.io/collector/internal/e2e"
		}
		switch {
		case f.skip:
			sf.Tag = `mapstructure:"-"`
		case f.squash:
			sf.Tag = `mapstructure:",squash"`
		case f.tagged:
			sf.Tag = reflect.StructTag(`mapstructure:"` + f.key + `"`)
		}
		fs = append(fs, sf)
	}
	return reflect.StructOf(fs)
}

// tokens: only what the decoder accepts (exported, not "-")
func (s *c13S) tokens(b *strings.Builder) {
	switch s.k {
	case 's':
		b.WriteString("s ")
	case 'p', 'l', 'm':
		fmt.Fprintf(b, "%c ", s.k)
		s.elem.tokens(b)
	case 't':
		var acc []c13F
		for _, f := range s.fields {
			if f.exported {
				acc = append(acc, f) // a field tagged "-" is matched by the literal key "-" (mapstructure has no special case when decoding)
			}
		}
		fmt.Fprintf(b, "t%d ", len(acc))
		for _, f := range acc {
			q := "-"
			if f.squash {
				q = "q"
			}
			k := f.key
			if f.skip {
				k = "-"
			}
			fmt.Fprintf(b, "f:%s:%s ", vHex(k), q)
			f.t.tokens(b)
		}
	}
}

// genVal writes a random subset of keys with well-kinded values; returns the Go value and its tokens.
func (g *c13DG) genVal(s *c13S, depth int, b *strings.Builder) any {
	switch s.k {
	case 's':
		n := g.rnd.IntN(9)
		fmt.Fprintf(b, "n%d ", n)
		if s.str {
			return fmt.Sprintf("v%d", n)
		}
		return n
	case 'p':
		return g.genVal(s.elem, depth, b)
	case 'l':
		n := g.rnd.IntN(3)
		fmt.Fprintf(b, "L%d ", n)
		out := make([]any, 0, n)
		for i := 0; i < n; i++ {
			out = append(out, g.genVal(s.elem, depth+1, b))
		}
		return out
	case 'm':
		n := g.rnd.IntN(3)
		fmt.Fprintf(b, "M%d ", n)
		out := map[string]any{}
		for i := 0; i < n; i++ {
			k := fmt.Sprintf("m%d", i)
			fmt.Fprintf(b, "k:%s ", vHex(k))
			out[k] = g.genVal(s.elem, depth+1, b)
		}
		return out
	}
	// struct: entries of this level (squashed structs contribute at the same level)
	type ent struct {
		k   string
		tok string
		v   any
	}
	var ents []ent
	var level func(t *c13S)
	level = func(t *c13S) {
		for _, f := range t.fields {
			switch {
			case f.skip:
				// never written
			case !f.exported:
				// a key the struct does not accept: written only when planting
				if g.want && g.planted == "" && g.rnd.IntN(4) == 0 {
					k := f.key
					ents = append(ents, ent{k, "n1 ", 1})
					g.planted = "unaccepted-field:" + k
					g.deep = depth > 0
				}
			case f.squash:
				level(f.t)
			default:
				if g.rnd.IntN(10) < 6 {
					var vb strings.Builder
					v := g.genVal(f.t, depth+1, &vb)
					ents = append(ents, ent{f.key, vb.String(), v})
				}
			}
		}
	}
	level(s)
	if g.want && g.planted == "" && g.rnd.IntN(3) == 0 {
		k := fmt.Sprintf("zz%d", depth)
		ents = append(ents, ent{k, "n1 ", 1})
		g.planted = "unknown:" + k
		g.deep = depth > 0
	}
	fmt.Fprintf(b, "M%d ", len(ents))
	out := map[string]any{}
	for _, e := range ents {
		fmt.Fprintf(b, "k:%s %s", vHex(e.k), e.tok)
		out[e.k] = e.v
	}
	return out
}

func c13Unmarshal(m map[string]any, into any) (err error) {
	defer func() {
		if r := recover(); r != nil {
			err = fmt.Errorf("PANIC: %v", r)
		}
	}()
	return confmap.NewFromStringMap(m).Unmarshal(into)
}

// TestVerifC13Dec: strict decoding. Corpus first (built-in components), then generated schemas.
func TestVerifC13Dec(t *testing.T) {
	out := vOpen(t)
	defer out.Close()
	out.Linef("model c13-dec 1")
	builtins := c13Builtins()
	n := vN(1000)
	for _, c := range vCases(n + len(builtins)) {
		if c < len(builtins) {
			c13Builtin(out, c, builtins[c])
			continue
		}
		rnd := vRand(c)
		g := &c13DG{rnd: rnd, want: c%2 == 0}
		top := g.genStruct(0)
		var sb, vb strings.Builder
		top.tokens(&sb)
		val := g.genVal(top, 0, &vb).(map[string]any)
		out.Linef("case %d planted=%s", c, strings.ReplaceAll(g.planted, " ", "_"))
		out.Linef("op dec : %s| %s", sb.String(), strings.TrimSpace(vb.String()))
		target := reflect.New(top.rtype())
		err := c13Unmarshal(val, target.Interface())
		if err == nil {
			out.Linef("obs ok")
			if g.planted != "" {
				out.Linef("viol sig=C13/strict/unknown-key-accepted planted=%s", g.planted)
			}
		} else {
			out.Linef("obs err")
			if g.planted == "" {
				out.Linef("viol sig=C13/strict/valid-config-rejected err=%s", vHex(err.Error()))
			} else if k := g.planted[strings.Index(g.planted, ":")+1:]; !strings.Contains(err.Error(), k) {
				out.Linef("viol sig=C13/strict/error-does-not-name-key key=%s err=%s", k, vHex(err.Error()))
			}
		}
		if g.deep {
			out.Linef("nt")
		}
		out.Linef("stat planted %d", vB(g.planted != ""))
		out.Linef("end")
		out.Flush()
	}
}

// ---- built-in components ----

type c13BuiltinCfg struct {
	name string
	mk   func() any
}

func c13Builtins() []c13BuiltinCfg {
	return []c13BuiltinCfg{
		{"otlpexporter", func() any { return otlpexporter.NewFactory().CreateDefaultConfig() }},
		{"otlphttpexporter", func() any { return otlphttpexporter.NewFactory().CreateDefaultConfig() }},
		{"otlpreceiver", func() any { return otlpreceiver.NewFactory().CreateDefaultConfig() }},
		{"service", func() any { return &service.Config{} }},
	}
}

var c13TextUnmarshaler = reflect.TypeOf((*encoding.TextUnmarshaler)(nil)).Elem()

// c13StructPaths lists the key paths at which a struct sits (pointers followed, squash kept at the same level).
func c13StructPaths(t reflect.Type, path []string, depth int, acc *[][]string) {
	for t.Kind() == reflect.Pointer {
		t = t.Elem()
	}
	if t.Kind() != reflect.Struct || depth > 8 || reflect.PointerTo(t).Implements(c13TextUnmarshaler) {
		return
	}
	*acc = append(*acc, append([]string{}, path...))
	c13StructFields(t, path, depth, acc)
}

func c13StructFields(t reflect.Type, path []string, depth int, acc *[][]string) {
	for i := 0; i < t.NumField(); i++ {
		f := t.Field(i)
		if !f.IsExported() {
			continue
		}
		tag, ok := f.Tag.Lookup("mapstructure")
		if !ok {
			continue
		}
		parts := strings.Split(tag, ",")
		squash := false
		for _, p := range parts[1:] {
			if p == "squash" {
				squash = true
			}
		}
		ft := f.Type
		for ft.Kind() == reflect.Pointer {
			ft = ft.Elem()
		}
		if squash {
			if ft.Kind() == reflect.Struct {
				c13StructFields(ft, path, depth+1, acc)
			}
			continue
		}
		if parts[0] == "" || parts[0] == "-" {
			continue
		}
		c13StructPaths(ft, append(append([]string{}, path...), parts[0]), depth+1, acc)
	}
}

func c13Nest(path []string, leaf map[string]any) map[string]any {
	m := leaf
	for i := len(path) - 1; i >= 0; i-- {
		m = map[string]any{path[i]: m}
	}
	return m
}

type c13Leaf struct {
	path []string
	v    any
}

func c13Leaves(m map[string]any, path []string, acc *[]c13Leaf) {
	keys := make([]string, 0, len(m))
	for k := range m {
		keys = append(keys, k)
	}
	sort.Strings(keys)
	for _, k := range keys {
		p := append(append([]string{}, path...), k)
		if sub, ok := m[k].(map[string]any); ok {
			c13Leaves(sub, p, acc)
		} else {
			*acc = append(*acc, c13Leaf{p, m[k]})
		}
	}
}

func c13Get(m map[string]any, path []string) (any, bool) {
	var cur any = m
	for _, k := range path {
		mm, ok := cur.(map[string]any)
		if !ok {
			return nil, false
		}
		cur, ok = mm[k]
		if !ok {
			return nil, false
		}
	}
	return cur, true
}

func c13Effective(cfg any) (map[string]any, error) {
	conf := confmap.New()
	if err := conf.Marshal(cfg); err != nil {
		return nil, err
	}
	return conf.ToStringMap(), nil
}

func c13Builtin(out *vOut, c int, b c13BuiltinCfg) {
	out.Linef("case %d builtin=%s", c, b.name)
	out.Linef("op builtin name=%s", b.name)
	out.Linef("obs checked")
	rnd := vRand(c)
	// 1. strictness: an unknown key at every struct position
	var paths [][]string
	c13StructPaths(reflect.TypeOf(b.mk()), nil, 0, &paths)
	for _, p := range paths {
		err := c13Unmarshal(c13Nest(p, map[string]any{"zz_unknown_key": 1}), b.mk())
		switch {
		case err == nil:
			out.Linef("viol sig=C13/strict/unknown-key-accepted builtin=%s path=%s", b.name, strings.Join(p, "::"))
		case !strings.Contains(err.Error(), "zz_unknown_key"):
			out.Linef("viol sig=C13/strict/error-does-not-name-key builtin=%s path=%s err=%s", b.name, strings.Join(p, "::"), vHex(err.Error()))
		}
	}
	out.Linef("stat builtin_struct_positions %d", len(paths))
	if _, isComp := b.mk().(component.Config); !isComp || b.name == "service" {
		out.Linef("nt")
		out.Linef("end")
		out.Flush()
		return
	}
	// 2. written keys are reflected in the typed and in the effective configuration
	e0, err := c13Effective(b.mk())
	if err != nil {
		out.Linef("viol sig=C13/effective/marshal-error builtin=%s err=%s", b.name, vHex(err.Error()))
		out.Linef("end")
		return
	}
	var leaves []c13Leaf
	c13Leaves(e0, nil, &leaves)
	var toggles []c13Leaf
	for _, l := range leaves {
		if l.path[len(l.path)-1] == "blocking" {
			continue // deprecated alias of block_on_overflow: writing it changes its sibling by design
		}
		rv := reflect.ValueOf(l.v)
		if !rv.IsValid() {
			continue
		}
		switch rv.Kind() {
		case reflect.Bool:
			toggles = append(toggles, c13Leaf{l.path, !rv.Bool()})
		case reflect.Int, reflect.Int32, reflect.Int64:
			toggles = append(toggles, c13Leaf{l.path, reflect.ValueOf(rv.Int() + 1).Convert(rv.Type()).Interface()})
		case reflect.Uint, reflect.Uint32, reflect.Uint64:
			toggles = append(toggles, c13Leaf{l.path, reflect.ValueOf(rv.Uint() + 1).Convert(rv.Type()).Interface()})
		case reflect.Float64:
			toggles = append(toggles, c13Leaf{l.path, rv.Float() + 1})
		}
	}
	out.Linef("stat builtin_toggleable_settings %d", len(toggles))
	rounds := 40
	if vThorough() {
		rounds = 400
	}
	for r := 0; r < rounds && len(toggles) > 0; r++ {
		w := map[string]any{}
		var written []c13Leaf
		for i, k := 0, 1+rnd.IntN(4); i < k; i++ {
			t := toggles[rnd.IntN(len(toggles))]
			cur := w
			for _, seg := range t.path[:len(t.path)-1] {
				nx, ok := cur[seg].(map[string]any)
				if !ok {
					nx = map[string]any{}
					cur[seg] = nx
				}
				cur = nx
			}
			cur[t.path[len(t.path)-1]] = t.v
			written = append(written, t)
		}
		cfg := b.mk()
		if err := c13Unmarshal(w, cfg); err != nil {
			out.Linef("stat builtin_write_rejected 1")
			continue
		}
		e1, err := c13Effective(cfg)
		if err != nil {
			out.Linef("viol sig=C13/effective/marshal-error builtin=%s err=%s", b.name, vHex(err.Error()))
			continue
		}
		for _, t := range written {
			got, ok := c13Get(e1, t.path)
			if !ok || fmt.Sprint(got) != fmt.Sprint(t.v) {
				out.Linef("viol sig=C13/effective/written-key-not-reflected builtin=%s path=%s wrote=%v got=%v", b.name, strings.Join(t.path, "::"), t.v, got)
			}
		}
		cfg2 := b.mk()
		// (informative only: the property does not ask that the effective configuration can be loaded again)
		if err := c13Unmarshal(e1, cfg2); err != nil {
			out.Linef("stat builtin_effective_not_reloadable 1")
		} else if e2, _ := c13Effective(cfg2); fmt.Sprint(e1) != fmt.Sprint(e2) {
			out.Linef("stat builtin_effective_reload_differs 1")
		}
		out.Linef("stat builtin_write_rounds 1")
	}
	// 3. fixed witnesses (exporters with a sending queue)
	if _, ok := c13Get(e0, []string{"sending_queue", "sizer"}); ok {
		for _, sz := range []string{"items", "bytes", "requests"} {
			cfg := b.mk()
			if err := c13Unmarshal(map[string]any{"sending_queue": map[string]any{"sizer": sz}}, cfg); err != nil {
				out.Linef("viol sig=C13/faithful/valid-sizer-rejected sizer=%s", sz)
				continue
			}
			e1, _ := c13Effective(cfg)
			if got, _ := c13Get(e1, []string{"sending_queue", "sizer"}); fmt.Sprint(got) != sz {
				out.Linef("viol sig=C13/effective/sizer-rendered-empty builtin=%s wrote=%s got=%v", b.name, sz, got)
			}
		}
		for _, bo := range []bool{true, false} {
			cfg := b.mk()
			if err := c13Unmarshal(map[string]any{"sending_queue": map[string]any{"block_on_overflow": bo, "blocking": !bo}}, cfg); err != nil {
				out.Linef("stat builtin_write_rejected 1")
				continue
			}
			e1, _ := c13Effective(cfg)
			if got, _ := c13Get(e1, []string{"sending_queue", "block_on_overflow"}); got != bo {
				out.Linef("viol sig=C13/queuebatch/blocking-overrides-block_on_overflow builtin=%s wrote=%v got=%v", b.name, bo, got)
			}
		}
	}
	out.Linef("nt")
	out.Linef("end")
	out.Flush()
}
