//go:build verif

package main

import (
	"context"
	"encoding/json"
	"fmt"
	"math/rand/v2"
	"reflect"
	"regexp"
	"sort"
	"strings"
	"testing"
	"time"

	"go.opentelemetry.io/collector/component"
	"go.opentelemetry.io/collector/confmap"
	"go.opentelemetry.io/collector/confmap/provider/yamlprovider"
	"go.opentelemetry.io/collector/confmap/xconfmap"
	"go.opentelemetry.io/collector/otelcol"
	"go.opentelemetry.io/collector/service/telemetry"
)

// TestVerifC13Load goes through the real collector configuration loading
// (otelcol.ConfigProvider.Get → otelcol.unmarshal → configunmarshaler.Configs.Unmarshal with the
// built-in factories of otelcorecol) and through the marshalling the collector performs for
// ConfigWatcher extensions (confmap.Conf.Marshal of the whole otelcol.Config).
//
// Each case is one collector configuration with several instances per section, often of the same
// type, each writing its own random subset of settings: booleans and numbers found in the factory
// default, endpoints, and secret-bearing settings (headers / response_headers maps, tls pem fields).
// Per instance the harness compares the instance inside the whole load with the *isolated* load of
// the same written keys on a fresh factory default (typed: DeepEqual; effective: leaf by leaf), and
// checks every written key in the effective configuration (secrets: exactly the marker).

type c13Inst struct {
	section, typ, name string
	written            map[string]any
	leaves             []c13WLeaf
}

type c13WLeaf struct {
	path   string // a::b::c
	v      any
	secret bool
	enum   bool // text-marshalled enumeration: the effective configuration may change the case (Level.MarshalText)
	list   bool // slice-valued setting (an atom in the Lean decode model: compared by the direct oracles only)
	exp    any  // what the effective configuration shows for it when that is not `v` itself ("2s" -> 2000000000)
	null   bool // an explicit YAML null written at an optional: only the typed comparison and the load itself are judged
}

func (l c13WLeaf) want() any {
	if l.exp != nil {
		return l.exp
	}
	return l.v
}

func (i *c13Inst) id() string {
	if i.name == "" {
		return i.typ
	}
	return i.typ + "/" + i.name
}

func c13Flatten(m map[string]any, prefix string, out map[string]any) {
	for k, v := range m {
		p := k
		if prefix != "" {
			p = prefix + "::" + k
		}
		if sub, ok := v.(map[string]any); ok && len(sub) > 0 {
			c13Flatten(sub, p, out)
		} else {
			out[p] = v
		}
	}
}

func c13SetPath(m map[string]any, path string, v any) {
	segs := strings.Split(path, "::")
	cur := m
	for _, s := range segs[:len(segs)-1] {
		nx, ok := cur[s].(map[string]any)
		if !ok {
			nx = map[string]any{}
			cur[s] = nx
		}
		cur = nx
	}
	cur[segs[len(segs)-1]] = v
}

func c13EffectiveOf(v any) (m map[string]any, err error) {
	defer func() {
		if r := recover(); r != nil {
			err = fmt.Errorf("PANIC: %v", r)
		}
	}()
	conf := confmap.New()
	if err := conf.Marshal(v); err != nil {
		return nil, err
	}
	return conf.ToStringMap(), nil
}

func c13Factory(f otelcol.Factories, section, typ string) component.Factory {
	t := component.MustNewType(typ)
	switch section {
	case "receivers":
		return f.Receivers[t]
	case "exporters":
		return f.Exporters[t]
	case "processors":
		return f.Processors[t]
	case "extensions":
		return f.Extensions[t]
	case "connectors":
		return f.Connectors[t]
	}
	return nil
}

func c13Loaded(cfg *otelcol.Config, section string) map[component.ID]component.Config {
	switch section {
	case "receivers":
		return cfg.Receivers
	case "exporters":
		return cfg.Exporters
	case "processors":
		return cfg.Processors
	case "extensions":
		return cfg.Extensions
	case "connectors":
		return cfg.Connectors
	}
	return nil
}

type c13Special struct {
	path string
	kind string // endpoint | secretmap | secret | enum
	vals []string
}

var c13Catalog = map[string][]c13Special{
	"exporters/otlphttp": {{"endpoint", "endpoint", nil}, {"headers", "secretmap", nil}, {"tls::ca_pem", "secret", nil}},
	"exporters/otlp":     {{"endpoint", "endpoint", nil}, {"headers", "secretmap", nil}, {"tls::ca_pem", "secret", nil}},
	"receivers/otlp": {{"protocols::grpc::endpoint", "endpoint", nil}, {"protocols::http::endpoint", "endpoint", nil},
		{"protocols::http::response_headers", "secretmap", nil}, {"protocols::grpc::tls::key_pem", "secret", nil},
		{"protocols::http::cors::allowed_origins", "strlist", []string{"https://a.example", "https://b.example", "https://*.c.example", "http://d.example"}},
		{"protocols::http::cors::allowed_headers", "strlist", []string{"x-one", "x-two", "x-three"}},
		{"protocols::http::compression_algorithms", "strlist", []string{"gzip", "zstd", "snappy", "deflate"}}},
	"exporters/debug":           {{"verbosity", "enum", []string{"normal", "detailed"}}}, // "basic" is the zero value: dropped by omitempty,
	"extensions/zpages":         {{"endpoint", "endpoint", nil}},
	"processors/batch":          nil,
	"processors/memory_limiter": nil,
	"extensions/memory_limiter": nil,
	"connectors/forward":        nil,
	"receivers/nop":             nil,
	"exporters/nop":             nil,
}

// c13Norm renders a leaf independent of its named type (time.Duration(5) and int64(5) are the same setting).
func c13Norm(v any) string {
	rv := reflect.ValueOf(v)
	if !rv.IsValid() {
		return "<nil>"
	}
	switch rv.Kind() {
	case reflect.Int, reflect.Int8, reflect.Int16, reflect.Int32, reflect.Int64:
		return fmt.Sprint(rv.Int())
	case reflect.Uint, reflect.Uint8, reflect.Uint16, reflect.Uint32, reflect.Uint64:
		return fmt.Sprint(rv.Uint())
	case reflect.Float32, reflect.Float64:
		return fmt.Sprint(rv.Float())
	case reflect.Bool:
		return fmt.Sprint(rv.Bool())
	}
	return fmt.Sprint(v)
}

func c13Render(v any) string { return vHex(c13Norm(v)) }

// c13Hash: id of a rendered leaf (FNV-1a, 64 bit) — the Lean side only compares ids
func c13Hash(s string) uint64 {
	h := uint64(14695981039346656037)
	for i := 0; i < len(s); i++ {
		h ^= uint64(s[i])
		h *= 1099511628211
	}
	return h
}

func c13Pairs(m map[string]string) string {
	if len(m) == 0 {
		return "-"
	}
	keys := make([]string, 0, len(m))
	for k := range m {
		keys = append(keys, k)
	}
	sort.Strings(keys)
	var sb strings.Builder
	for i, k := range keys {
		if i > 0 {
			sb.WriteByte(',')
		}
		sb.WriteString(k + ":" + m[k])
	}
	return sb.String()
}

func TestVerifC13Load(t *testing.T) {
	out := vOpen(t)
	defer out.Close()
	out.Linef("model c13-load 1")
	factories, err := components()
	if err != nil {
		t.Fatal(err)
	}
	kinds, toggles, defFlat, leafPaths := c13Setup(t, factories)
	c13CapturePristine(factories, kinds) // before ANY collector configuration is loaded in this process
	nInvalid := c13InvalidNested(out, factories)
	nInvalid += c13ServiceHistory(out, factories, nInvalid)
	nInvalid += c13DefaultsProbe(out, factories, nInvalid)
	nInvalid += c13ServiceProbe(out, factories, nInvalid)
	nInvalid += c13StrictAll(out, factories, nInvalid)
	nInvalid += c13RuleCombos(out, factories, nInvalid)
	nInvalid += c13MistakesBothEntryPoints(out, factories, nInvalid)
	nInvalid += c13ServiceLegacy(out, factories, nInvalid)
	for _, c := range vCases(vN(300)) {
		if c < nInvalid {
			continue // case indices 0..nInvalid-1 are the corpus of invalid nested values
		}
		insts, nsec, sameType := c13GenInsts(vRand(c), c, kinds, toggles)
		// the collector configuration
		root := map[string]any{}
		var firstRecv, firstExp string
		for _, in := range insts {
			sec, _ := root[in.section].(map[string]any)
			if sec == nil {
				sec = map[string]any{}
				root[in.section] = sec
			}
			sec[in.id()] = in.written
			if in.section == "receivers" && firstRecv == "" {
				firstRecv = in.id()
			}
			if in.section == "exporters" && firstExp == "" {
				firstExp = in.id()
			}
		}
		root["service"] = map[string]any{"pipelines": map[string]any{"traces": map[string]any{"receivers": []any{firstRecv}, "exporters": []any{firstExp}}}}
		js, _ := json.Marshal(root)
		out.Linef("case %d instances=%d", c, len(insts))
		var cfg *otelcol.Config
		var eff map[string]any
		func() {
			defer func() {
				if r := recover(); r != nil {
					err = fmt.Errorf("PANIC: %v", r)
				}
			}()
			var cp *otelcol.ConfigProvider
			cp, err = otelcol.NewConfigProvider(otelcol.ConfigProviderSettings{ResolverSettings: confmap.ResolverSettings{
				URIs: []string{"yaml:" + string(js)}, ProviderFactories: []confmap.ProviderFactory{yamlprovider.NewFactory()}}})
			if err != nil {
				return
			}
			cfg, err = cp.Get(context.Background(), factories)
		}()
		if err == nil {
			eff, err = c13EffectiveOf(cfg) // collector.go: conf.Marshal(cfg) → NotifyConfig
		}
		if err != nil {
			out.Linef("viol sig=C13/load/valid-config-rejected err=%s cfg=%s", vHex(err.Error()), vHex(string(js)))
			out.Linef("end")
			out.Flush()
			continue
		}
		effJSON, _ := json.Marshal(eff)
		effText := fmt.Sprintf("%v", eff) + string(effJSON)
		// the same document through the `validate` sub-command's entry point (every 4th case; every case in the thorough tier)
		if vThorough() || c%4 == 0 {
			var verr error
			func() {
				defer func() {
					if r := recover(); r != nil {
						verr = fmt.Errorf("PANIC: %v", r)
					}
				}()
				verr = xconfmap.Validate(cfg)
			}()
			c13EntryPoints(out, js, verr, "generated")
		}
		// the same document, parsed once more, for the isolated per-instance loads
		var parsed *confmap.Conf
		if ret, rerr := confmap.NewRetrievedFromYAML(js); rerr == nil {
			parsed, _ = ret.AsConf()
		}
		typedefSent := map[string]bool{}
		for _, in := range insts {
			id := component.MustNewIDWithName(in.typ, in.name)
			if in.name == "" {
				id = component.MustNewID(in.typ)
			}
			// isolated load: fresh factory default + this instance's keys only
			iso := c13Factory(factories, in.section, in.typ).CreateDefaultConfig()
			var isoErr error
			if parsed != nil {
				var sec, sub *confmap.Conf
				if sec, isoErr = parsed.Sub(in.section); isoErr == nil {
					if sub, isoErr = sec.Sub(in.id()); isoErr == nil {
						isoErr = sub.Unmarshal(&iso)
					}
				}
			}
			_, e2 := c13EffectiveOf(iso)
			if isoErr != nil || e2 != nil {
				out.Linef("viol sig=C13/load/isolated-load-failed id=%s", in.id())
				continue
			}
			// the flat overlay model (Lean `loadAll`): the PRISTINE default of the instance's type overlaid by its own keys,
			// judged at the written leaves and at every default leaf under an untouched top-level key
			kindKey := in.section + "/" + in.typ
			low := func(v any) string { return vHex(strings.ToLower(c13Norm(v))) }
			wS := map[string]string{}
			touched := map[string]bool{}
			queried := map[string]bool{}
			for _, l := range in.leaves {
				touched[strings.SplitN(l.path, "::", 2)[0]] = true
				if l.null {
					continue
				}
				queried[l.path] = true
				if l.secret {
					wS[vHex(l.path)] = "!" + vHex(l.v.(string))
				} else {
					wS[vHex(l.path)] = low(l.want())
				}
			}
			for p := range defFlat[kindKey] {
				if kindKey == "receivers/otlp" && strings.HasPrefix(p, "protocols") {
					continue // otlpreceiver.Config.Unmarshal removes unwritten protocols (modelled in decodeC, not in the flat overlay)
				}
				if !touched[strings.SplitN(p, "::", 2)[0]] {
					queried[p] = true
				}
			}
			var instEff map[string]any
			if sec, ok := eff[in.section].(map[string]any); ok {
				instEff, _ = sec[in.id()].(map[string]any)
			}
			got := map[string]any{}
			if instEff != nil {
				c13Flatten(instEff, "", got)
			}
			qs := make([]string, 0, len(queried))
			gotS := map[string]string{}
			for p := range queried {
				qs = append(qs, vHex(p))
				if v, ok := got[p]; ok {
					if s, isStr := v.(string); isStr && s == "[REDACTED]" {
						gotS[vHex(p)] = vHex(s)
					} else {
						gotS[vHex(p)] = low(v)
					}
				} else {
					gotS[vHex(p)] = "absent"
				}
			}
			sort.Strings(qs)
			q := "-"
			if len(qs) > 0 {
				q = strings.Join(qs, ",")
			}
			if !typedefSent[kindKey] {
				typedefSent[kindKey] = true
				defS := map[string]string{}
				for p, v := range defFlat[kindKey] {
					defS[vHex(p)] = low(v)
				}
				out.Linef("op typedef type=%s def=%s", vHex(kindKey), c13Pairs(defS))
				out.Linef("obs typedef")
			}
			// `omitempty` positions that hold the zero value of their Go type in the loaded instance (reflect.Value.IsZero, the
			// encoder's own test): an implementation-observed input of the model
			var zs []string
			loadedV := reflect.ValueOf(c13Loaded(cfg, in.section)[id])
			for p := range queried {
				if c13Omit[kindKey][p] {
					if fv := c13FieldAt(loadedV, strings.Split(p, "::")); fv.IsValid() && fv.IsZero() {
						zs = append(zs, vHex(p))
					}
				}
			}
			sort.Strings(zs)
			z := "-"
			if len(zs) > 0 {
				z = strings.Join(zs, ",")
			}
			out.Linef("op inst id=%s type=%s w=%s q=%s z=%s", vHex(in.id()), vHex(kindKey), c13Pairs(wS), q, z)
			out.Linef("obs eff %s", c13Pairs(gotS))
			// the same instance against the Lean decode/encode model on the regenerated schema and default
			c13Faith(out, in, got, defFlat[in.section+"/"+in.typ], leafPaths[in.section+"/"+in.typ])
			// isolation: nothing below a map- or slice-valued setting that this instance did not write itself
			c13Foreign(out, "C13/load/foreign-key-in-instance", in, in.leaves, got, defFlat[in.section+"/"+in.typ], leafPaths[in.section+"/"+in.typ])
			// direct oracles
			loaded := c13Loaded(cfg, in.section)[id]
			if loaded == nil {
				out.Linef("viol sig=C13/load/instance-missing id=%s", in.id())
				continue
			}
			if !reflect.DeepEqual(loaded, iso) {
				out.Linef("viol sig=C13/load/instance-differs-from-its-own-keys-over-defaults id=%s/%s loaded=%s isolated=%s", in.section, in.id(),
					vHex(fmt.Sprintf("%+v", loaded)), vHex(fmt.Sprintf("%+v", iso)))
			}
			for _, l := range in.leaves {
				if l.null && kindKey == "receivers/otlp" && (l.path == "protocols::grpc" || l.path == "protocols::http") {
					// `protocols: {grpc: }` enables the protocol with its defaults
					if v, present := got[l.path]; present && v == nil {
						out.Linef("viol sig=C13/load/null-optional-not-enabled/%s/%s id=%s", kindKey, l.path, in.id())
					}
				}
				g, ok := got[l.path]
				switch {
				case l.null:
				case !ok && c13Omit[kindKey][l.path] && c13ZeroAt(loadedV, l.path):
					// `omitempty`: a written zero value is left out of the effective configuration. Harmless when the factory
					// default does not show the setting either; misleading when the default is a non-zero value
					if dv, inDef := defFlat[kindKey][l.path]; inDef && !c13IsZeroText(strings.ToLower(c13Norm(dv))) {
						out.Linef("viol sig=C13/effective/written-zero-hidden-by-omitempty-over-nonzero-default/%s/%s id=%s default=%v", kindKey, l.path, in.id(), dv)
					}
					out.Linef("stat written_zero_omitted_by_omitempty 1")
				case !ok:
					out.Linef("viol sig=C13/effective/written-key-not-reflected id=%s/%s path=%s", in.section, in.id(), l.path)
				case l.secret:
					if s, isStr := g.(string); !isStr || s != "[REDACTED]" {
						out.Linef("viol sig=C13/effective/secret-in-effective-config id=%s/%s path=%s got=%s type=%T", in.section, in.id(), l.path, vHex(fmt.Sprint(g)), g)
					}
				case l.enum && strings.EqualFold(c13Norm(g), c13Norm(l.want())):
				case c13Norm(g) != c13Norm(l.want()):
					out.Linef("viol sig=C13/effective/written-key-not-reflected id=%s/%s path=%s wrote=%v got=%v", in.section, in.id(), l.path, l.v, g)
				}
				if l.secret && strings.Contains(effText, l.v.(string)) {
					out.Linef("viol sig=C13/effective/secret-in-effective-config id=%s/%s path=%s (secret text found in the marshalled effective configuration)", in.section, in.id(), l.path)
				}
			}
		}
		// successive loads in one process: the same document with every map- and slice-valued setting removed
		// must load as if nothing had been loaded before (what a reload after an edit does)
		rootB := map[string]any{"service": root["service"]}
		leavesB := map[*c13Inst][]c13WLeaf{}
		removed := 0
		for _, in := range insts {
			wB := map[string]any{}
			lp := leafPaths[in.section+"/"+in.typ]
			for _, l := range in.leaves {
				under := false
				for q := l.path; ; {
					i := strings.LastIndex(q, "::")
					if i < 0 {
						break
					}
					q = q[:i]
					if lp[q] {
						under = true
					}
				}
				if l.list || under {
					removed++
					continue
				}
				c13SetPath(wB, l.path, l.v)
				leavesB[in] = append(leavesB[in], l)
			}
			sec, _ := rootB[in.section].(map[string]any)
			if sec == nil {
				sec = map[string]any{}
				rootB[in.section] = sec
			}
			sec[in.id()] = wB
		}
		if removed > 0 {
			cfgB, errB := c13LoadJSON(factories, rootB)
			var effB map[string]any
			if errB == nil {
				effB, errB = c13EffectiveOf(cfgB)
			}
			if errB != nil {
				out.Linef("viol sig=C13/reload/valid-config-rejected err=%s", vHex(errB.Error()))
			} else {
				for _, in := range insts {
					gotB := map[string]any{}
					if sec, ok := effB[in.section].(map[string]any); ok {
						if ie, ok := sec[in.id()].(map[string]any); ok {
							c13Flatten(ie, "", gotB)
						}
					}
					c13Foreign(out, "C13/reload/removed-key-persists", in, leavesB[in], gotB, defFlat[in.section+"/"+in.typ], leafPaths[in.section+"/"+in.typ])
				}
			}
			out.Linef("stat reload_rounds 1")
			out.Linef("stat reload_removed_settings %d", removed)
		}
		// … and the same instances with NO keys at all: every instance (and the service section) must look exactly as when it
		// was loaded in the fresh process (pointer-typed defaults decoded into in place would keep what was written above)
		rootE := map[string]any{"service": root["service"]}
		for _, in := range insts {
			sec, _ := rootE[in.section].(map[string]any)
			if sec == nil {
				sec = map[string]any{}
				rootE[in.section] = sec
			}
			sec[in.id()] = map[string]any{}
		}
		if cfgE, errE := c13LoadJSON(factories, rootE); errE != nil {
			out.Linef("viol sig=C13/reload/valid-config-rejected where=empty-instances err=%s", vHex(errE.Error()))
		} else if effE, errE2 := c13EffectiveOf(cfgE); errE2 == nil {
			for _, in := range insts {
				gotE := map[string]any{}
				if sec, ok := effE[in.section].(map[string]any); ok {
					if ie, ok := sec[in.id()].(map[string]any); ok {
						c13Flatten(ie, "", gotE)
					}
				}
				kindKey := in.section + "/" + in.typ
				if p, diff := c13FirstDiff(c13PristineEmpty[kindKey], gotE); diff {
					out.Linef("viol sig=C13/reload/removed-key-persists/%s/%s/%s id=%s fresh=%s now=%s", in.section, in.typ, p, in.id(),
						vHex(c13Norm(c13PristineEmpty[kindKey][p])), vHex(c13Norm(gotE[p])))
				}
			}
			c13CheckService(out, "C13/reload/removed-key-persists/service", effE, cfgE)
			out.Linef("stat reload_empty_rounds 1")
		}
		if sameType {
			out.Linef("nt")
		}
		out.Linef("stat instances %d", len(insts))
		out.Linef("stat secrets_written %d", nsec)
		out.Linef("end")
		out.Flush()
	}
}

// ---- invalid values in nested settings of the built-in components --------------------------------
// "Every validation rule of every nested configuration value is evaluated": a valid collector
// configuration gets exactly one invalid nested setting (below embedded structs, pointers used as
// optionals, squashed structs); loading succeeds, xconfmap.Validate must fail with an error that names
// the instance and the setting.

type c13Invalid struct {
	section, id, path string
	v                 any
	names             []string // every one of these must occur in the error
}

func c13LoadJSON(factories otelcol.Factories, root map[string]any) (cfg *otelcol.Config, err error) {
	defer func() {
		if r := recover(); r != nil {
			err = fmt.Errorf("PANIC: %v", r)
		}
	}()
	js, _ := json.Marshal(root)
	cp, err := otelcol.NewConfigProvider(otelcol.ConfigProviderSettings{ResolverSettings: confmap.ResolverSettings{
		URIs: []string{"yaml:" + string(js)}, ProviderFactories: []confmap.ProviderFactory{yamlprovider.NewFactory()}}})
	if err != nil {
		return nil, err
	}
	return cp.Get(context.Background(), factories)
}

// ---- the `validate` sub-command's entry point ---------------------------------------------------------------
// otelcol.Collector.DryRun loads the same document through the same provider and must judge it like the start-up path
// (ConfigProvider.Get + xconfmap.Validate, collector.go setupConfigurationComponents): whatever that path rejects, DryRun
// rejects, with the same error lines. DryRun additionally builds the pipeline graph, so it may reject MORE (counted).

var c13RootChoice = regexp.MustCompile(`which is not configured|ambiguous ID`)

// the list of known component types in an "unknown type" error is printed in Go map order
var c13ValidValues = regexp.MustCompile(`\(valid values: \[[^\]]*\]\)`)

func c13DryRun(js []byte) (err error) {
	defer func() {
		if r := recover(); r != nil {
			err = fmt.Errorf("PANIC: %v", r)
		}
	}()
	col, err := otelcol.NewCollector(otelcol.CollectorSettings{
		BuildInfo: component.BuildInfo{Command: "otelcorecol", Version: "verif"}, Factories: components,
		ConfigProviderSettings: otelcol.ConfigProviderSettings{ResolverSettings: confmap.ResolverSettings{
			URIs: []string{"yaml:" + string(js)}, ProviderFactories: []confmap.ProviderFactory{yamlprovider.NewFactory()}}},
		DisableGracefulShutdown: true, SkipSettingGRPCLogger: true,
	})
	if err != nil {
		return fmt.Errorf("NEWCOLLECTOR: %w", err)
	}
	return col.DryRun(context.Background())
}

// c13EntryPoints: `runErr` is what load + xconfmap.Validate said about the document (nil = accepted)
func c13EntryPoints(out *vOut, js []byte, runErr error, where string) {
	dry := c13DryRun(js)
	out.Linef("stat dryrun_checked 1")
	switch {
	case runErr != nil && dry == nil:
		out.Linef("viol sig=C13/strict/dryrun-accepts-what-run-rejects at=%s run_err=%s", where, vHex(strings.SplitN(runErr.Error(), "\n", 2)[0]))
	case runErr != nil && dry != nil:
		if strings.HasPrefix(dry.Error(), "PANIC") {
			out.Linef("viol sig=C13/strict/dryrun-panics-where-run-rejects at=%s err=%s", where, vHex(dry.Error()))
			return
		}
		// same named entries: every line of the start-up path's error is a line of DryRun's (Go map iteration may pick another
		// reference error of the same phase: those documents are only counted)
		have := map[string]bool{}
		for _, l := range strings.Split(c13ValidValues.ReplaceAllString(strings.TrimPrefix(dry.Error(), "failed to get config: "), ""), "\n") {
			have[l] = true
		}
		for _, l := range strings.Split(c13ValidValues.ReplaceAllString(runErr.Error(), ""), "\n") {
			if !have[l] {
				if c13RootChoice.MatchString(l) || c13RootChoice.MatchString(dry.Error()) {
					out.Linef("stat dryrun_other_admissible_reference_error 1")
				} else {
					out.Linef("viol sig=C13/strict/dryrun-error-differs at=%s missing=%s dry=%s", where, vHex(l), vHex(dry.Error()))
				}
				break
			}
		}
		out.Linef("stat dryrun_rejects_too 1")
	case runErr == nil && dry != nil:
		out.Linef("stat dryrun_rejects_more 1") // graph-level rules (outside the property)
	default:
		out.Linef("stat dryrun_accepts_too 1")
	}
}

// the reference / shape / telemetry mistakes of the property through BOTH entry points
func c13MistakesBothEntryPoints(out *vOut, factories otelcol.Factories, first int) int {
	pipe := func(root map[string]any) map[string]any {
		return root["service"].(map[string]any)["pipelines"].(map[string]any)["traces"].(map[string]any)
	}
	type mistake struct {
		name   string
		mutate func(root map[string]any)
	}
	ms := []mistake{
		{"pipeline-without-receivers", func(r map[string]any) { pipe(r)["receivers"] = []any{} }},
		{"pipeline-without-exporters", func(r map[string]any) { pipe(r)["exporters"] = []any{} }},
		{"processor-twice", func(r map[string]any) { pipe(r)["processors"] = []any{"batch", "memory_limiter", "batch"} }},
		{"dangling-receiver", func(r map[string]any) { pipe(r)["receivers"] = []any{"otlp", "otlp/missing"} }},
		{"dangling-processor", func(r map[string]any) { pipe(r)["processors"] = []any{"batch/missing"} }},
		{"dangling-exporter", func(r map[string]any) { pipe(r)["exporters"] = []any{"debug", "otlp/missing"} }},
		{"dangling-extension", func(r map[string]any) {
			r["service"].(map[string]any)["extensions"] = []any{"zpages", "zpages/missing"}
		}},
		{"no-pipelines", func(r map[string]any) { r["service"].(map[string]any)["pipelines"] = map[string]any{} }},
		{"telemetry-metrics-without-readers", func(r map[string]any) {
			r["service"].(map[string]any)["telemetry"] = map[string]any{"metrics": map[string]any{"level": "detailed", "readers": []any{}}}
		}},
		{"unknown-key-in-pipeline", func(r map[string]any) { pipe(r)["recievers"] = []any{"otlp"} }},
		{"unknown-key-in-component", func(r map[string]any) { r["exporters"].(map[string]any)["debug"] = map[string]any{"verbosty": "basic"} }},
		{"invalid-nested-tls", func(r map[string]any) {
			r["exporters"].(map[string]any)["otlp"].(map[string]any)["tls"] = map[string]any{"min_version": "1.3", "max_version": "1.2"}
		}},
	}
	for i, m := range ms {
		out.Linef("case %d both-entry-points=%s", first+i, m.name)
		out.Linef("op inst id=%s def=- w=-", vHex("mistake-"+m.name))
		out.Linef("obs eff -")
		root := c13ValidBase()
		m.mutate(root)
		js, _ := json.Marshal(root)
		cfg, err := c13LoadJSON(factories, root)
		if err == nil {
			func() {
				defer func() {
					if r := recover(); r != nil {
						err = fmt.Errorf("PANIC: %v", r)
					}
				}()
				err = xconfmap.Validate(cfg)
			}()
		}
		if err == nil {
			out.Linef("viol sig=C13/strict/mistake-accepted/%s", m.name)
		}
		c13EntryPoints(out, js, err, "mistake/"+m.name)
		out.Linef("nt")
		out.Linef("end")
	}
	return len(ms)
}

func c13ValidBase() map[string]any {
	return map[string]any{
		"receivers": map[string]any{"otlp": map[string]any{"protocols": map[string]any{
			"grpc": map[string]any{"endpoint": "localhost:4317"}, "http": map[string]any{"endpoint": "localhost:4318"}}},
			"otlp/2": map[string]any{"protocols": map[string]any{"grpc": map[string]any{"endpoint": "localhost:5317"}}}},
		"processors": map[string]any{"batch": map[string]any{}, "memory_limiter": map[string]any{"check_interval": "1s", "limit_mib": 100}},
		"exporters": map[string]any{"otlphttp": map[string]any{"endpoint": "http://localhost:4318"},
			"otlp": map[string]any{"endpoint": "localhost:4317"}, "debug": map[string]any{}},
		"extensions": map[string]any{"zpages": map[string]any{"endpoint": "localhost:55679"}},
		"service": map[string]any{"extensions": []any{"zpages"}, "pipelines": map[string]any{"traces": map[string]any{
			"receivers": []any{"otlp", "otlp/2"}, "processors": []any{"memory_limiter", "batch"}, "exporters": []any{"otlphttp", "otlp", "debug"}}}},
	}
}

func c13InvalidNested(out *vOut, factories otelcol.Factories) int {
	tlsVer := map[string]any{"min_version": "1.3", "max_version": "1.2"}
	tlsCA := map[string]any{"ca_file": "/nonexistent/ca.pem", "ca_pem": "x"}
	tlsBad := map[string]any{"min_version": "9.9"}
	cat := []c13Invalid{
		{"receivers", "otlp", "protocols::grpc::tls", tlsVer, []string{"receivers::otlp", "grpc", "tls", "min_version"}},
		{"receivers", "otlp", "protocols::grpc::tls", tlsCA, []string{"receivers::otlp", "grpc", "tls"}},
		{"receivers", "otlp", "protocols::http::tls", tlsVer, []string{"receivers::otlp", "http", "tls", "min_version"}},
		{"receivers", "otlp", "protocols::http::tls", tlsBad, []string{"receivers::otlp", "http", "tls"}},
		{"receivers", "otlp/2", "protocols::grpc::tls", tlsCA, []string{"receivers::otlp/2", "grpc", "tls"}},
		{"receivers", "otlp", "protocols::grpc::read_buffer_size", -1, []string{"receivers::otlp", "grpc", "read_buffer_size"}},
		{"receivers", "otlp/2", "protocols::grpc::write_buffer_size", -1, []string{"receivers::otlp/2", "grpc", "write_buffer_size"}},
		{"receivers", "otlp", "protocols::grpc::max_recv_msg_size_mib", -1, []string{"receivers::otlp", "grpc", "max_recv_msg_size_mib"}},
		{"extensions", "zpages", "tls", tlsVer, []string{"extensions::zpages", "tls", "min_version"}},
		{"extensions", "zpages", "tls", tlsCA, []string{"extensions::zpages", "tls"}},
		{"exporters", "otlphttp", "tls", tlsCA, []string{"exporters::otlphttp", "tls"}},
		{"exporters", "otlphttp", "tls", tlsVer, []string{"exporters::otlphttp", "tls", "min_version"}},
		{"exporters", "otlp", "tls", tlsVer, []string{"exporters::otlp", "tls", "min_version"}},
		{"exporters", "otlp", "balancer_name", "no_such_balancer", []string{"exporters::otlp", "balancer_name"}},
		{"exporters", "otlphttp", "sending_queue::queue_size", -1, []string{"exporters::otlphttp", "sending_queue", "queue_size"}},
		{"exporters", "otlp", "sending_queue::num_consumers", 0, []string{"exporters::otlp", "sending_queue", "num_consumers"}},
		{"exporters", "otlp", "retry_on_failure::multiplier", -1.0, []string{"exporters::otlp", "retry_on_failure", "multiplier"}},
		{"exporters", "otlphttp", "retry_on_failure::randomization_factor", 2.0, []string{"exporters::otlphttp", "retry_on_failure", "randomization_factor"}},
		{"exporters", "otlp", "timeout", "-1s", []string{"exporters::otlp", "timeout"}},
		{"processors", "batch", "send_batch_max_size", 1, []string{"processors::batch", "send_batch_max_size"}},
		{"processors", "memory_limiter", "check_interval", "0s", []string{"processors::memory_limiter", "check_interval"}},
		{"exporters", "debug", "verbosity", "none", []string{"exporters::debug", "verbosity"}},
	}
	// case 0: the base itself is valid
	out.Linef("case 0 invalid-nested=base")
	out.Linef("op inst id=%s def=- w=-", vHex("base"))
	out.Linef("obs eff -")
	cfg, err := c13LoadJSON(factories, c13ValidBase())
	if err == nil {
		err = xconfmap.Validate(cfg)
	}
	if err != nil {
		out.Linef("viol sig=C13/load/valid-config-rejected err=%s", vHex(err.Error()))
	}
	baseJS, _ := json.Marshal(c13ValidBase())
	c13EntryPoints(out, baseJS, err, "invalid-nested/base")
	if derr := c13DryRun(baseJS); derr != nil {
		out.Linef("viol sig=C13/strict/dryrun-rejects-valid-base err=%s", vHex(derr.Error()))
	}
	out.Linef("end")
	for i, iv := range cat {
		out.Linef("case %d invalid-nested=%s/%s/%s", i+1, iv.section, iv.id, iv.path)
		out.Linef("op inst id=%s def=- w=-", vHex(fmt.Sprintf("invalid-%d", i)))
		out.Linef("obs eff -")
		root := c13ValidBase()
		c13SetPath(root[iv.section].(map[string]any)[iv.id].(map[string]any), iv.path, iv.v)
		cfg, err := c13LoadJSON(factories, root)
		{
			rootJS, _ := json.Marshal(root)
			runErr := err
			if runErr == nil {
				runErr = xconfmap.Validate(cfg)
			}
			c13EntryPoints(out, rootJS, runErr, fmt.Sprintf("invalid-nested/%s/%s::%s", iv.section, iv.id, iv.path))
		}
		switch {
		case err != nil:
			// rejected already while loading (decode-time validation): also fine, must name the entry
			if !strings.Contains(err.Error(), iv.id) {
				out.Linef("viol sig=C13/validate/error-does-not-name-entry at=%s/%s::%s err=%s", iv.section, iv.id, iv.path, vHex(err.Error()))
			}
			out.Linef("stat invalid_nested_rejected_at_load 1")
		default:
			verr := xconfmap.Validate(cfg)
			if verr == nil {
				out.Linef("viol sig=C13/validate/invalid-nested-value-accepted at=%s::%s::%s value=%v", iv.section, iv.id, iv.path, iv.v)
			} else {
				for _, n := range iv.names {
					if !strings.Contains(verr.Error(), n) {
						out.Linef("viol sig=C13/validate/error-does-not-name-path at=%s::%s::%s missing=%s err=%s", iv.section, iv.id, iv.path, n, vHex(verr.Error()))
						break
					}
				}
			}
			out.Linef("stat invalid_nested_rejected_by_validate 1")
		}
		out.Linef("nt")
		out.Linef("end")
		out.Flush()
	}
	return len(cat) + 1
}

// c13Faith emits `op faith` / `obs shown`: the written leaves (ids), the queried schema leaves, and what
// the instance's effective configuration shows for them.
func c13Faith(out *vOut, in *c13Inst, got map[string]any, def map[string]any, leaves map[string]bool) {
	id := func(v any) string { return fmt.Sprint(c13Hash(strings.ToLower(c13Norm(v)))) }
	w := map[string]string{}
	writtenTop := map[string]bool{}
	show := map[string]string{}
	render := func(p string, written bool) string {
		v, ok := got[p]
		if !ok {
			// a map-valued setting: the entries below it. A map of opaque strings is rendered element-wise (written keys,
			// every value must be the marker): {hexkey=R;…}
			var items []string
			allRedacted, any := true, false
			for k, cv := range got {
				if strings.HasPrefix(k, p+"::") {
					any = true
					rest := strings.TrimPrefix(k, p+"::")
					if s, isStr := cv.(string); isStr && s == "[REDACTED]" && !strings.Contains(rest, "::") {
						items = append(items, vHex(rest)+"=R")
					} else {
						allRedacted = false
					}
				}
			}
			if any && allRedacted {
				sort.Strings(items)
				return "{" + strings.Join(items, ";") + "}"
			}
			if any {
				return "M"
			}
			return fmt.Sprint(c13AbsentIDLoad)
		}
		rv := reflect.ValueOf(v)
		switch {
		case !rv.IsValid() || ((rv.Kind() == reflect.Pointer || rv.Kind() == reflect.Map || rv.Kind() == reflect.Slice) && rv.IsNil() && !written):
			if !rv.IsValid() {
				return "nil"
			}
		}
		if s, isStr := v.(string); isStr && s == "[REDACTED]" {
			return "R"
		}
		if written && rv.IsValid() && (rv.Kind() == reflect.Map || rv.Kind() == reflect.Slice) {
			return "M"
		}
		return id(v)
	}
	for _, l := range in.leaves {
		writtenTop[strings.SplitN(l.path, "::", 2)[0]] = true
		if l.list || l.null {
			continue
		}
		if _, shown := got[l.path]; !shown && c13Omit[in.section+"/"+in.typ][l.path] {
			continue // dropped by `omitempty` (modelled in the flat overlay, `op inst … z=`; the key-space model has no omitempty)
		}
		w[vHex(l.path)] = id(l.want())
		// the queried position: the leaf itself, or the map-kind leaf above it (headers::authorization → headers)
		q := l.path
		for q != "" && !leaves[q] {
			if i := strings.LastIndex(q, "::"); i >= 0 {
				q = q[:i]
			} else {
				q = ""
			}
		}
		if q != "" {
			show[vHex(q)] = render(q, true)
		}
	}
	for p := range def {
		// otlpreceiver.Config.Unmarshal (custom, listed in Gen.customPositions) removes the protocols that are
		// not written: unwritten defaults below `protocols` are by design not those of the factory default
		if in.section+"/"+in.typ == "receivers/otlp" && strings.HasPrefix(p, "protocols") {
			continue
		}
		if leaves[p] && !writtenTop[strings.SplitN(p, "::", 2)[0]] {
			show[vHex(p)] = render(p, false)
		}
	}
	// positions rewritten by the components' own Unmarshal fix-ups (modelled: Hook.aliasIfUnset / dropUnset)
	written := map[string]bool{}
	for _, l := range in.leaves {
		written[l.path] = true
	}
	for _, l := range in.leaves {
		if strings.HasSuffix(l.path, "::blocking") {
			dst := strings.TrimSuffix(l.path, "blocking") + "block_on_overflow"
			if !written[dst] && leaves[dst] {
				show[vHex(dst)] = render(dst, false)
			}
		}
	}
	if in.section+"/"+in.typ == "receivers/otlp" {
		for _, proto := range []string{"grpc", "http"} {
			set := false
			for _, l := range in.leaves {
				if strings.HasPrefix(l.path, "protocols::"+proto+"::") || l.path == "protocols::"+proto || l.path == "protocols" {
					set = true // written below it, or as an explicit null (IsSet is true for a null)
				}
			}
			if q := "protocols::" + proto + "::endpoint"; !set && leaves[q] {
				r := render(q, false)
				if v, ok := got["protocols::"+proto]; ok && v == nil {
					r = "none" // the whole protocol is nil
				}
				show[vHex(q)] = r
			}
		}
	}
	var qs []string
	for k := range show {
		qs = append(qs, k)
	}
	sort.Strings(qs)
	q := "-"
	if len(qs) > 0 {
		q = strings.Join(qs, ",")
	}
	out.Linef("op faith comp=%s w=%s q=%s", vHex(in.section+"/"+in.typ), c13Pairs(w), q)
	out.Linef("obs shown %s", c13Pairs(show))
}

var c13AbsentIDLoad = c13Hash("<absent>")

type c13Toggle struct {
	path string
	v    any
}

// c13Setup: per component type the toggleable settings (booleans and numbers of the factory default's
// effective configuration), the flattened effective default and the schema leaf positions.
func c13Setup(t *testing.T, factories otelcol.Factories) (kinds []string, toggles map[string][]c13Toggle, defFlat map[string]map[string]any, leafPaths map[string]map[string]bool) {
	// toggleable settings of every type: booleans and numbers of the factory default's effective configuration
	toggles = map[string][]c13Toggle{}
	defFlat = map[string]map[string]any{}    // effective factory default, flattened
	leafPaths = map[string]map[string]bool{} // schema leaf positions
	kinds = make([]string, 0, len(c13Catalog))
	for k := range c13Catalog {
		kinds = append(kinds, k)
	}
	sort.Strings(kinds)
	for _, k := range kinds {
		st := strings.SplitN(k, "/", 2)
		f := c13Factory(factories, st[0], st[1])
		if f == nil {
			t.Fatalf("no factory for %s", k)
		}
		eff, err := c13EffectiveOf(f.CreateDefaultConfig())
		if err != nil {
			continue
		}
		flat := map[string]any{}
		c13Flatten(eff, "", flat)
		defFlat[k] = flat
		leafPaths[k] = map[string]bool{}
		c13LeafPaths(reflect.TypeOf(f.CreateDefaultConfig()), nil, 0, leafPaths[k])
		paths := make([]string, 0, len(flat))
		for p := range flat {
			paths = append(paths, p)
		}
		sort.Strings(paths)
		for _, p := range paths {
			rv := reflect.ValueOf(flat[p])
			if !rv.IsValid() {
				continue
			}
			switch rv.Kind() {
			case reflect.Bool:
				toggles[k] = append(toggles[k], c13Toggle{p, !rv.Bool()})
			case reflect.Int, reflect.Int32, reflect.Int64:
				toggles[k] = append(toggles[k], c13Toggle{p, rv.Int() + 1})
			case reflect.Uint, reflect.Uint32, reflect.Uint64:
				toggles[k] = append(toggles[k], c13Toggle{p, rv.Uint() + 1})
			case reflect.Float64, reflect.Float32:
				toggles[k] = append(toggles[k], c13Toggle{p, rv.Float() + 1})
			}
		}
	}
	c13Omit = map[string]map[string]bool{}
	for _, k := range kinds {
		st := strings.SplitN(k, "/", 2)
		c13Omit[k] = map[string]bool{}
		c13OmitPaths(reflect.TypeOf(c13Factory(factories, st[0], st[1]).CreateDefaultConfig()), nil, 0, false, c13Omit[k])
	}
	c13Cands = map[string][]c13Cand{}
	for _, k := range kinds {
		st := strings.SplitN(k, "/", 2)
		f := c13Factory(factories, st[0], st[1])
		var cs []c13Cand
		c13Candidates(reflect.TypeOf(f.CreateDefaultConfig()), nil, 0, &cs)
		// generator hygiene: a setting whose sample value is rejected when written alone is not used
		for _, cd := range cs {
			rnd := rand.New(rand.NewPCG(7, 7))
			n := 0
			w := map[string]any{}
			for _, l := range cd.gen(rnd, func() string { n++; return fmt.Sprintf("probe-secret-%d", n) }, 0) {
				c13SetPath(w, l.path, l.v)
			}
			fresh := f.CreateDefaultConfig()
			if err := confmap.NewFromStringMap(w).Unmarshal(&fresh); err != nil {
				c13CandRejected = append(c13CandRejected, k+"::"+cd.path)
				continue
			}
			c13Cands[k] = append(c13Cands[k], cd)
		}
	}
	return kinds, toggles, defFlat, leafPaths
}

// c13GenInsts: 0-3 instances per component type, each writing its own random subset of settings.
func c13GenInsts(rnd *rand.Rand, c int, kinds []string, toggles map[string][]c13Toggle) (insts []*c13Inst, nsec int, sameType bool) {
	names := []string{"", "a", "b", "2"}
	secret := func() string {
		nsec++
		return fmt.Sprintf("Zs3cr3t-%d-%d-Qx", c, nsec)
	}
	for _, k := range kinds {
		st := strings.SplitN(k, "/", 2)
		max := 3
		if c13Catalog[k] == nil && len(toggles[k]) == 0 {
			max = 1
		}
		n := rnd.IntN(max + 1)
		if (k == "receivers/otlp" || k == "exporters/otlphttp") && n == 0 {
			n = 1 + rnd.IntN(2)
		}
		perm := rnd.Perm(len(names))
		if n > 1 {
			sameType = true
		}
		for i := 0; i < n; i++ {
			in := &c13Inst{section: st[0], typ: st[1], name: names[perm[i]], written: map[string]any{}}
			seen := map[string]bool{}
			if ts := toggles[k]; len(ts) > 0 {
				for j, m := 0, rnd.IntN(5); j < m; j++ {
					tg := ts[rnd.IntN(len(ts))]
					if seen[tg.path] {
						continue
					}
					seen[tg.path] = true
					c13SetPath(in.written, tg.path, tg.v)
					in.leaves = append(in.leaves, c13WLeaf{path: tg.path, v: tg.v})
				}
			}
			for _, sp := range c13Catalog[k] {
				if rnd.IntN(2) == 0 {
					continue
				}
				switch sp.kind {
				case "endpoint":
					v := fmt.Sprintf("host-%d-%d:%d", c, len(insts), 1000+rnd.IntN(9000))
					c13SetPath(in.written, sp.path, v)
					in.leaves = append(in.leaves, c13WLeaf{path: sp.path, v: v})
				case "enum":
					v := sp.vals[rnd.IntN(len(sp.vals))]
					c13SetPath(in.written, sp.path, v)
					in.leaves = append(in.leaves, c13WLeaf{path: sp.path, v: v, enum: true})
				case "secret":
					v := secret()
					c13SetPath(in.written, sp.path, v)
					in.leaves = append(in.leaves, c13WLeaf{path: sp.path, v: v, secret: true})
				case "strlist":
					var v []any
					for _, x := range sp.vals {
						if rnd.IntN(2) == 0 {
							v = append(v, x)
						}
					}
					if len(v) == 0 {
						v = []any{sp.vals[len(insts)%len(sp.vals)]}
					}
					c13SetPath(in.written, sp.path, v)
					in.leaves = append(in.leaves, c13WLeaf{path: sp.path, v: v, list: true})
				case "secretmap":
					// header names differ between instances, so that cross-talk between instances of one type shows
					for _, hk := range []string{"authorization", fmt.Sprintf("x-key-%d", len(insts))}[rnd.IntN(2):] {
						v := secret()
						c13SetPath(in.written, sp.path+"::"+hk, v)
						in.leaves = append(in.leaves, c13WLeaf{path: sp.path + "::" + hk, v: v, secret: true})
					}
				}
			}
			// settings chosen from the TYPE of the configuration (every leaf position incl. below nil optionals; value by
			// hook kind: text kinds from a value table, durations as strings, slices, string maps, plain strings, numbers)
			if cs := c13Cands[k]; len(cs) > 0 {
				for j, m := 0, rnd.IntN(7); j < m; j++ {
					cd := cs[rnd.IntN(len(cs))]
					conflict := false
					for _, l := range in.leaves {
						if l.path == cd.path || strings.HasPrefix(l.path, cd.path+"::") || strings.HasPrefix(cd.path, l.path+"::") {
							conflict = true
						}
					}
					if conflict {
						continue
					}
					for _, l := range cd.gen(rnd, secret, len(insts)) {
						c13SetPath(in.written, l.path, l.v)
						in.leaves = append(in.leaves, l)
					}
				}
			}
			insts = append(insts, in)
		}
	}
	return insts, nsec, sameType
}

// c13Foreign: below a map-valued setting, and in a slice-valued setting, an instance may only show what
// it wrote itself or what the pristine factory default (taken before anything was loaded) shows.
func c13Foreign(out *vOut, sig string, in *c13Inst, wrote []c13WLeaf, got map[string]any, def map[string]any, leaves map[string]bool) {
	written := map[string]bool{}
	for _, l := range wrote {
		written[l.path] = true
	}
	reported := map[string]bool{}
	paths := make([]string, 0, len(got))
	for p := range got {
		paths = append(paths, p)
	}
	sort.Strings(paths)
	for _, p := range paths {
		q := p
		for q != "" && !leaves[q] {
			if i := strings.LastIndex(q, "::"); i >= 0 {
				q = q[:i]
			} else {
				q = ""
			}
		}
		if q == "" || reported[q] {
			continue
		}
		foreign := false
		if q != p {
			// p lies below the map-valued setting q
			_, inDef := def[p]
			foreign = !written[p] && !inDef
		} else if rv := reflect.ValueOf(got[p]); rv.IsValid() && rv.Kind() == reflect.Slice && rv.Len() > 0 {
			foreign = !written[p] && c13Norm(got[p]) != c13Norm(def[p])
		}
		if foreign {
			reported[q] = true
			out.Linef("viol sig=%s/%s/%s/%s id=%s leaf=%s value=%s", sig, in.section, in.typ, q, in.id(), p, vHex(c13Norm(got[p])))
		}
	}
}

// c13DefaultsProbe: every factory's CreateDefaultConfig must hand out a value that shares no mutable
// state with any other one it hands out: no map, slice or pointer reachable from one default is
// reachable from the next, and mutating every map and slice of one leaves the others unchanged.
func c13DefaultsProbe(out *vOut, factories otelcol.Factories, first int) int {
	kinds := make([]string, 0, len(c13Catalog))
	for k := range c13Catalog {
		kinds = append(kinds, k)
	}
	sort.Strings(kinds)
	for i, k := range kinds {
		st := strings.SplitN(k, "/", 2)
		f := c13Factory(factories, st[0], st[1])
		out.Linef("case %d defaults-probe=%s", first+i, k)
		out.Linef("op inst id=%s def=- w=-", vHex("defaults-probe/"+k))
		out.Linef("obs eff -")
		if i == 0 {
			// generator bookkeeping: every text kind of the built-in configurations needs a table of valid texts (so that the
			// MarshalText/UnmarshalText round trip of EVERY text kind is exercised); settings rejected when written alone
			var miss []string
			for ty := range c13TextMissing {
				miss = append(miss, ty)
			}
			sort.Strings(miss)
			for _, ty := range miss {
				out.Linef("viol sig=C13/gen/text-kind-without-value-table/%s", ty)
			}
			sort.Strings(c13CandRejected)
			for _, r := range c13CandRejected {
				out.Linef("tr candidate-rejected-alone %s", strings.ReplaceAll(r, " ", "_"))
			}
			out.Linef("stat generator_settings_rejected_when_written_alone %d", len(c13CandRejected))
			total := 0
			for _, cs := range c13Cands {
				total += len(cs)
			}
			out.Linef("stat generator_type_driven_settings %d", total)
		}
		a, b := f.CreateDefaultConfig(), f.CreateDefaultConfig()
		pristine := c13DeepRender(reflect.ValueOf(b), 0)
		shared := map[string]bool{}
		c13SharedWalk(reflect.ValueOf(a), reflect.ValueOf(b), "", 0, func(path, what string) {
			if !shared[path] {
				shared[path] = true
				out.Linef("viol sig=C13/defaults/shared-mutable-default/%s/%s kind=%s", k, path, what)
			}
		})
		n := c13MutateAll(reflect.ValueOf(a), 0)
		out.Linef("stat defaults_probe_mutations %d", n)
		if after := c13DeepRender(reflect.ValueOf(b), 0); after != pristine {
			out.Linef("viol sig=C13/defaults/shared-mutable-default/%s/mutation-visible-in-earlier-default before=%s after=%s", k, vHex(pristine), vHex(after))
		}
		if third := c13DeepRender(reflect.ValueOf(f.CreateDefaultConfig()), 0); third != pristine {
			out.Linef("viol sig=C13/defaults/shared-mutable-default/%s/mutation-visible-in-later-default before=%s after=%s", k, vHex(pristine), vHex(third))
		}
		out.Linef("nt")
		out.Linef("end")
		out.Flush()
	}
	return len(kinds)
}

func c13FieldKey(f reflect.StructField) string {
	if tag, ok := f.Tag.Lookup("mapstructure"); ok {
		if k := strings.Split(tag, ",")[0]; k != "" {
			return k
		}
	}
	return f.Name
}

// c13SharedWalk walks two values of one type in parallel and reports every position at which both hold
// the same map, the same (non-empty) slice memory or the same pointer.
func c13SharedWalk(a, b reflect.Value, path string, depth int, report func(path, what string)) {
	if depth > 12 || !a.IsValid() || !b.IsValid() || a.Type() != b.Type() {
		return
	}
	join := func(k string) string {
		if path == "" {
			return k
		}
		return path + "::" + k
	}
	switch a.Kind() {
	case reflect.Pointer:
		if a.IsNil() || b.IsNil() {
			return
		}
		if a.Pointer() == b.Pointer() && a.Type().Elem().Size() > 0 {
			report(path, "pointer")
			return
		}
		c13SharedWalk(a.Elem(), b.Elem(), path, depth+1, report)
	case reflect.Interface:
		if !a.IsNil() && !b.IsNil() {
			c13SharedWalk(a.Elem(), b.Elem(), path, depth+1, report)
		}
	case reflect.Map:
		if !a.IsNil() && !b.IsNil() && a.Pointer() == b.Pointer() {
			report(path, "map")
		}
	case reflect.Slice:
		if a.Len() > 0 && b.Len() > 0 && a.Pointer() == b.Pointer() {
			report(path, "slice")
			return
		}
		for i := 0; i < a.Len() && i < b.Len(); i++ {
			c13SharedWalk(a.Index(i), b.Index(i), join("[]"), depth+1, report)
		}
	case reflect.Struct:
		for i := 0; i < a.NumField(); i++ {
			f := a.Type().Field(i)
			if strings.Contains(f.Tag.Get("mapstructure"), ",squash") {
				c13SharedWalk(a.Field(i), b.Field(i), path, depth+1, report) // squashed: its keys live at this level
				continue
			}
			c13SharedWalk(a.Field(i), b.Field(i), join(c13FieldKey(f)), depth+1, report)
		}
	}
}

// c13MutateAll puts a new entry into every reachable settable map and changes the first element of every
// reachable non-empty settable slice (string / integer / bool elements). Returns the number of mutations.
func c13MutateAll(v reflect.Value, depth int) int {
	if depth > 12 || !v.IsValid() {
		return 0
	}
	n := 0
	switch v.Kind() {
	case reflect.Pointer, reflect.Interface:
		if !v.IsNil() {
			n += c13MutateAll(v.Elem(), depth+1)
		}
	case reflect.Struct:
		for i := 0; i < v.NumField(); i++ {
			if v.Type().Field(i).IsExported() {
				n += c13MutateAll(v.Field(i), depth+1)
			}
		}
	case reflect.Map:
		if v.IsNil() || v.Type().Key().Kind() != reflect.String {
			return 0
		}
		func() {
			defer func() { _ = recover() }()
			k := reflect.ValueOf("zz-verif-mutation").Convert(v.Type().Key())
			v.SetMapIndex(k, reflect.Zero(v.Type().Elem()))
			n++
		}()
	case reflect.Slice:
		if v.Len() == 0 {
			return 0
		}
		e := v.Index(0)
		if !e.CanSet() {
			return 0
		}
		switch e.Kind() {
		case reflect.String:
			e.SetString(e.String() + "-zz-verif-mutation")
			n++
		case reflect.Int, reflect.Int8, reflect.Int16, reflect.Int32, reflect.Int64:
			e.SetInt(e.Int() + 1)
			n++
		case reflect.Uint, reflect.Uint8, reflect.Uint16, reflect.Uint32, reflect.Uint64:
			e.SetUint(e.Uint() + 1)
			n++
		case reflect.Bool:
			e.SetBool(!e.Bool())
			n++
		default:
			n += c13MutateAll(e, depth+1)
		}
	}
	return n
}

// c13DeepRender prints a value following pointers (no addresses), maps in key order.
func c13DeepRender(v reflect.Value, depth int) string {
	if !v.IsValid() {
		return "<invalid>"
	}
	if depth > 12 {
		return "<deep>"
	}
	switch v.Kind() {
	case reflect.Pointer, reflect.Interface:
		if v.IsNil() {
			return "nil"
		}
		return "&" + c13DeepRender(v.Elem(), depth+1)
	case reflect.Struct:
		var sb strings.Builder
		sb.WriteString("{")
		for i := 0; i < v.NumField(); i++ {
			sb.WriteString(v.Type().Field(i).Name + ":" + c13DeepRender(v.Field(i), depth+1) + " ")
		}
		return sb.String() + "}"
	case reflect.Map:
		if v.IsNil() {
			return "nilmap"
		}
		var items []string
		for _, k := range v.MapKeys() {
			items = append(items, c13DeepRender(k, depth+1)+"="+c13DeepRender(v.MapIndex(k), depth+1))
		}
		sort.Strings(items)
		return "map[" + strings.Join(items, " ") + "]"
	case reflect.Slice, reflect.Array:
		var sb strings.Builder
		sb.WriteString("[")
		for i := 0; i < v.Len(); i++ {
			sb.WriteString(c13DeepRender(v.Index(i), depth+1) + " ")
		}
		return sb.String() + "]"
	case reflect.Func, reflect.Chan, reflect.UnsafePointer:
		if v.IsNil() {
			return "nilfunc"
		}
		return "func"
	case reflect.String:
		return fmt.Sprintf("%q", v.String())
	case reflect.Bool:
		return fmt.Sprint(v.Bool())
	case reflect.Int, reflect.Int8, reflect.Int16, reflect.Int32, reflect.Int64:
		return fmt.Sprint(v.Int())
	case reflect.Uint, reflect.Uint8, reflect.Uint16, reflect.Uint32, reflect.Uint64, reflect.Uintptr:
		return fmt.Sprint(v.Uint())
	case reflect.Float32, reflect.Float64:
		return fmt.Sprint(v.Float())
	}
	return "<" + v.Kind().String() + ">"
}

// ---- the service section and the collector's top level ---------------------------------------------
// service::telemetry is decoded by four custom Unmarshal methods (telemetry.Config and the v0.3.0 migration
// types: decode, on error retry with the v0.2.0 struct, then normalise). Unknown keys at every struct
// position — including list elements (readers[i], processors[i]) and map values (pipelines::<id>) — and at
// the collector's top level must be rejected with an error naming the key; written keys must be reflected.

func c13ServiceBase() map[string]any {
	root := c13ValidBase()
	root["service"].(map[string]any)["telemetry"] = map[string]any{
		"logs": map[string]any{"level": "info", "processors": []any{map[string]any{"batch": map[string]any{"exporter": map[string]any{"otlp": map[string]any{
			"protocol": "http/protobuf", "endpoint": "localhost:4318"}}}}}},
		"metrics": map[string]any{"level": "normal", "readers": []any{map[string]any{"pull": map[string]any{"exporter": map[string]any{"prometheus": map[string]any{
			"host": "localhost", "port": 8888}}}}}},
		"traces": map[string]any{"level": "basic", "processors": []any{map[string]any{"batch": map[string]any{"exporter": map[string]any{"otlp": map[string]any{
			"protocol": "http/protobuf", "endpoint": "localhost:4318"}}}}}},
	}
	return root
}

// c13At navigates key path segments; a segment "[i]" indexes a list.
func c13At(v any, path []string) any {
	for _, seg := range path {
		if strings.HasPrefix(seg, "[") {
			var i int
			fmt.Sscanf(seg, "[%d]", &i)
			l, _ := v.([]any)
			if i >= len(l) {
				return nil
			}
			v = l[i]
		} else {
			m, _ := v.(map[string]any)
			v = m[seg]
		}
	}
	return v
}

func c13ServiceProbe(out *vOut, factories otelcol.Factories, first int) int {
	n := 0
	open := func(what string) {
		out.Linef("case %d service-probe=%s", first+n, what)
		out.Linef("op inst id=%s def=- w=-", vHex("service-probe/"+what))
		out.Linef("obs eff -")
		n++
	}
	closeCase := func() {
		out.Linef("nt")
		out.Linef("end")
		out.Flush()
	}
	open("base")
	if cfg, err := c13LoadJSON(factories, c13ServiceBase()); err != nil {
		out.Linef("viol sig=C13/load/valid-config-rejected where=service-base err=%s", vHex(err.Error()))
	} else if verr := xconfmap.Validate(cfg); verr != nil {
		out.Linef("viol sig=C13/load/valid-config-rejected where=service-base-validate err=%s", vHex(verr.Error()))
	}
	closeCase()
	tel := []string{"service", "telemetry"}
	positions := [][]string{
		{}, // the collector's top level
		{"service"}, tel, append(append([]string{}, tel...), "logs"), append(append([]string{}, tel...), "metrics"), append(append([]string{}, tel...), "traces"),
		{"service", "telemetry", "metrics", "readers", "[0]"}, {"service", "telemetry", "metrics", "readers", "[0]", "pull"},
		{"service", "telemetry", "metrics", "readers", "[0]", "pull", "exporter"}, {"service", "telemetry", "metrics", "readers", "[0]", "pull", "exporter", "prometheus"},
		{"service", "telemetry", "traces", "processors", "[0]"}, {"service", "telemetry", "traces", "processors", "[0]", "batch"},
		{"service", "telemetry", "traces", "processors", "[0]", "batch", "exporter"}, {"service", "telemetry", "traces", "processors", "[0]", "batch", "exporter", "otlp"},
		{"service", "telemetry", "logs", "processors", "[0]"}, {"service", "telemetry", "logs", "processors", "[0]", "batch"},
		{"service", "telemetry", "logs", "processors", "[0]", "batch", "exporter", "otlp"},
		{"service", "pipelines", "traces"}, // a map value: one pipeline
		{"receivers", "otlp"}, {"receivers", "otlp", "protocols"}, {"exporters", "debug"}, {"processors", "batch"}, {"processors", "memory_limiter"}, {"extensions", "zpages"},
	}
	for _, pos := range positions {
		what := strings.Join(pos, "::")
		if what == "" {
			what = "<top>"
		}
		open("unknown-key-at/" + what)
		root := c13ServiceBase()
		m, ok := c13At(root, pos).(map[string]any)
		if !ok {
			out.Linef("viol sig=C13/gen/service-probe-position-missing at=%s", what)
			closeCase()
			continue
		}
		m["zz_unknown_key"] = 1
		_, err := c13LoadJSON(factories, root)
		switch {
		case err == nil:
			out.Linef("viol sig=C13/strict/unknown-key-accepted/%s", strings.ReplaceAll(what, "[0]", "[]"))
		case strings.HasPrefix(err.Error(), "PANIC") && !(strings.Contains(err.Error(), "Key of non-map type interface") && c13OtelconfPosition(pos)):
			// any other panic — another message, or a position whose struct is owned by this repository — is a different failure
			out.Linef("viol sig=C13/strict/unknown-key-panics/%s err=%s", strings.ReplaceAll(what, "[0]", "[]"), vHex(err.Error()))
		case strings.HasPrefix(err.Error(), "PANIC"):
			// the struct at this position (go.opentelemetry.io/contrib/config) has a field `interface{}` tagged `,remain`:
			// mapstructure panics when it tries to store the unknown key there — the collector crashes instead of reporting
			out.Linef("viol sig=C13/strict/unknown-key-panics-remain-interface-field at=%s err=%s", strings.ReplaceAll(what, "[0]", "[]"), vHex(err.Error()))
		case !strings.Contains(err.Error(), "zz_unknown_key"):
			out.Linef("viol sig=C13/strict/error-does-not-name-key/%s err=%s", strings.ReplaceAll(what, "[0]", "[]"), vHex(err.Error()))
		}
		closeCase()
	}
	// misspelt top-level sections
	for _, k := range []string{"exporter", "receiver", "processor", "extension", "services", "pipelines"} {
		open("misspelt-section/" + k)
		root := c13ServiceBase()
		root[k] = map[string]any{"debug": map[string]any{}}
		if _, err := c13LoadJSON(factories, root); err == nil {
			out.Linef("viol sig=C13/strict/unknown-key-accepted/<top>/%s", k)
		} else if !strings.Contains(err.Error(), k) {
			out.Linef("viol sig=C13/strict/error-does-not-name-key/<top> key=%s err=%s", k, vHex(err.Error()))
		}
		closeCase()
	}
	// written keys of the service section are reflected in the effective configuration
	type w struct {
		path []string
		v    any
	}
	writes := []w{
		{[]string{"telemetry", "logs", "level"}, "debug"}, {[]string{"telemetry", "logs", "encoding"}, "json"},
		{[]string{"telemetry", "logs", "disable_caller"}, true}, {[]string{"telemetry", "logs", "disable_stacktrace"}, true},
		{[]string{"telemetry", "logs", "development"}, true}, {[]string{"telemetry", "logs", "output_paths"}, []any{"stdout"}},
		{[]string{"telemetry", "logs", "sampling", "initial"}, 7}, {[]string{"telemetry", "logs", "sampling", "enabled"}, false},
		{[]string{"telemetry", "metrics", "level"}, "detailed"}, {[]string{"telemetry", "traces", "level"}, "none"},
		{[]string{"telemetry", "traces", "propagators"}, []any{"tracecontext", "b3"}},
		{[]string{"telemetry", "resource"}, map[string]any{"service.name": "verif"}},
	}
	for _, x := range writes {
		what := strings.Join(x.path, "::")
		open("written/" + what)
		root := c13ServiceBase()
		c13SetPath(root["service"].(map[string]any), strings.Join(x.path, "::"), x.v)
		cfg, err := c13LoadJSON(factories, root)
		if err != nil {
			out.Linef("viol sig=C13/load/valid-config-rejected where=service::%s err=%s", what, vHex(err.Error()))
			closeCase()
			continue
		}
		eff, err := c13EffectiveOf(cfg)
		if err != nil {
			out.Linef("viol sig=C13/effective/marshal-error where=service::%s", what)
			closeCase()
			continue
		}
		got := c13At(eff["service"], x.path)
		if !strings.EqualFold(c13Norm(got), c13Norm(x.v)) {
			out.Linef("viol sig=C13/effective/written-key-not-reflected/service::%s wrote=%v got=%v", what, x.v, got)
		}
		closeCase()
	}
	return n
}

// ---- service::telemetry written in the v0.2.0 spelling -------------------------------------------------------
// A logs / metrics / traces section whose strict v0.3.0 decode fails (an OTLP exporter's `headers` written as a MAPPING
// instead of a list of name/value pairs) is decoded with the v0.2.0 structs and converted field by field
// (service/telemetry/internal/migration/v0.2.0.go). Every sibling setting of the section is written at once, each with its
// own value: on that path too each written key must show its own value in the effective configuration (which is the
// marshalled typed configuration). The same documents with the v0.3.0 spelling are the control.
func c13ServiceLegacy(out *vOut, factories otelcol.Factories, first int) int {
	otlp := func(legacy bool) map[string]any {
		m := map[string]any{"protocol": "http/protobuf", "endpoint": "http://localhost:4318"}
		if legacy {
			m["headers"] = map[string]any{"x-verif": "v"}
		} else {
			m["headers"] = []any{map[string]any{"name": "x-verif", "value": "v"}}
		}
		return m
	}
	type sec struct {
		name   string
		build  func(legacy bool) map[string]any
		checks [][]string // key paths below the section whose written value must show
	}
	secs := []sec{
		{"logs", func(l bool) map[string]any {
			return map[string]any{"level": "debug", "development": true, "encoding": "json", "disable_caller": true, "disable_stacktrace": true,
				"sampling":     map[string]any{"enabled": false, "initial": 3, "thereafter": 9},
				"output_paths": []any{"stdout", "/tmp/verif-out.log"}, "error_output_paths": []any{"stderr", "/tmp/verif-err.log", "/tmp/verif-err2.log"},
				"initial_fields": map[string]any{"field_a": "value_a"},
				"processors":     []any{map[string]any{"batch": map[string]any{"exporter": map[string]any{"otlp": otlp(l)}}}}}
		}, [][]string{{"level"}, {"development"}, {"encoding"}, {"disable_caller"}, {"disable_stacktrace"}, {"sampling", "enabled"}, {"sampling", "initial"},
			{"sampling", "thereafter"}, {"output_paths"}, {"error_output_paths"}, {"initial_fields", "field_a"}}},
		{"traces", func(l bool) map[string]any {
			return map[string]any{"level": "detailed", "propagators": []any{"b3", "tracecontext"},
				"processors": []any{map[string]any{"batch": map[string]any{"exporter": map[string]any{"otlp": otlp(l)}}}}}
		}, [][]string{{"level"}, {"propagators"}}},
		{"metrics", func(l bool) map[string]any {
			return map[string]any{"level": "detailed",
				"readers": []any{map[string]any{"periodic": map[string]any{"exporter": map[string]any{"otlp": otlp(l)}}}}}
		}, [][]string{{"level"}}},
	}
	n := 0
	for _, sc := range secs {
		for _, legacy := range []bool{false, true} {
			spelling := "v0.3.0"
			if legacy {
				spelling = "v0.2.0"
			}
			out.Linef("case %d service-telemetry-%s=%s", first+n, spelling, sc.name)
			out.Linef("op inst id=%s def=- w=-", vHex("service-telemetry-"+spelling+"-"+sc.name))
			out.Linef("obs eff -")
			n++
			root := c13ServiceBase()
			written := sc.build(legacy)
			c13SetPath(root["service"].(map[string]any), "telemetry::"+sc.name, written)
			cfg, err := c13LoadJSON(factories, root)
			if err != nil {
				out.Linef("viol sig=C13/load/valid-config-rejected where=service::telemetry::%s/%s err=%s", sc.name, spelling, vHex(err.Error()))
				out.Linef("end")
				continue
			}
			eff, err := c13EffectiveOf(cfg)
			if err != nil {
				out.Linef("viol sig=C13/effective/marshal-error where=service::telemetry::%s/%s", sc.name, spelling)
				out.Linef("end")
				continue
			}
			for _, p := range sc.checks {
				want := c13At(written, p)
				got := c13At(eff["service"], append([]string{"telemetry", sc.name}, p...))
				if !strings.EqualFold(c13Norm(got), c13Norm(want)) {
					out.Linef("viol sig=C13/effective/written-key-not-reflected/service-telemetry-%s::%s::%s wrote=%v got=%v", spelling, sc.name, strings.Join(p, "::"), want, got)
				}
				out.Linef("stat service_telemetry_written_keys_checked 1")
			}
			// the exporter's header must survive the conversion too (name and value)
			if !strings.Contains(fmt.Sprintf("%v", c13At(eff["service"], []string{"telemetry", sc.name})), "x-verif") {
				out.Linef("viol sig=C13/effective/written-key-not-reflected/service-telemetry-%s::%s::otlp-headers", spelling, sc.name)
			}
			out.Linef("nt")
			out.Linef("end")
		}
	}
	return n
}

// ---- settings derived from the configuration TYPE ----------------------------------------------------

type c13Cand struct {
	path string
	gen  func(rnd *rand.Rand, secret func() string, inst int) []c13WLeaf
}

func c13ZeroAt(cfg reflect.Value, path string) bool {
	fv := c13FieldAt(cfg, strings.Split(path, "::"))
	return fv.IsValid() && fv.IsZero()
}

// c13IsZeroText: the lower-cased rendering of a Go zero value (what `omitempty` drops)
func c13IsZeroText(s string) bool {
	switch s {
	case "false", "0", "", "[]", "map[]", "<nil>":
		return true
	}
	return false
}

var (
	c13Omit         map[string]map[string]bool // per component type: leaf paths tagged omitempty
	c13Cands        map[string][]c13Cand
	c13CandRejected []string
	c13TextMissing  = map[string]bool{}
)

// valid texts per text kind (types decoded by their own UnmarshalText); enum: the effective form may change the case
var c13TextValues = map[string]struct {
	vals []string
	enum bool
}{
	"configtelemetry.Level":         {[]string{"none", "basic", "normal", "detailed"}, true},
	"configcompression.Type":        {[]string{"gzip", "zstd", "snappy", "zlib", "deflate", "none"}, false},
	"component.ID":                  {[]string{"nop", "nop/x1", "file_storage/q"}, false},
	"request.SizerType":             {[]string{"items", "bytes", "requests"}, false},
	"confignet.TransportType":       {[]string{"tcp", "udp", "unix"}, false},
	"component.Type":                {[]string{"nop", "otlp"}, false},
	"pipeline.ID":                   {[]string{"traces", "metrics/x"}, false},
	"configtls.TLSVersion":          {[]string{"1.2", "1.3"}, false},
	"exporterhelper.SizerType":      {[]string{"items", "bytes", "requests"}, false},
	"configcompression.Level":       {[]string{"1", "5"}, false},
	"otlphttpexporter.EncodingType": {[]string{"proto", "json"}, false},
	"configmiddleware.Config":       {nil, false},
	"configoptional.Optional[T]":    {nil, false},
}

var c13DurationT = reflect.TypeOf(time.Duration(0))

func c13Candidates(t reflect.Type, path []string, depth int, out *[]c13Cand) {
	if t.Kind() == reflect.Pointer && t.Elem().Kind() == reflect.Struct && len(path) > 0 && !reflect.PointerTo(t.Elem()).Implements(c13TextUnm) {
		// an optional section written as an explicit YAML null (`grpc:` with nothing after it — the canonical OTLP receiver form)
		np := strings.Join(path, "::")
		*out = append(*out, c13Cand{np, func(*rand.Rand, func() string, int) []c13WLeaf { return []c13WLeaf{{path: np, v: nil, null: true}} }})
	}
	for t.Kind() == reflect.Pointer && t != c13OpaqueT {
		t = t.Elem()
	}
	p := strings.Join(path, "::")
	one := func(f func(rnd *rand.Rand, secret func() string, inst int) c13WLeaf) {
		if p == "" {
			return
		}
		*out = append(*out, c13Cand{p, func(rnd *rand.Rand, secret func() string, inst int) []c13WLeaf {
			return []c13WLeaf{f(rnd, secret, inst)}
		}})
	}
	if depth > 12 {
		return
	}
	switch {
	case t == c13OpaqueT:
		one(func(_ *rand.Rand, secret func() string, _ int) c13WLeaf {
			return c13WLeaf{path: p, v: secret(), secret: true}
		})
		return
	case t == c13DurationT:
		one(func(rnd *rand.Rand, _ func() string, _ int) c13WLeaf {
			s := []string{"150ms", "2s", "1m30s", "7s", "250ms"}[rnd.IntN(5)]
			d, _ := time.ParseDuration(s)
			return c13WLeaf{path: p, v: s, exp: int64(d)} // written as text, shown as nanoseconds
		})
		return
	case reflect.PointerTo(t).Implements(c13TextUnm):
		tv, ok := c13TextValues[t.String()]
		if !ok {
			c13TextMissing[t.String()] = true
			return
		}
		if len(tv.vals) == 0 {
			return
		}
		one(func(rnd *rand.Rand, _ func() string, _ int) c13WLeaf {
			return c13WLeaf{path: p, v: tv.vals[rnd.IntN(len(tv.vals))], enum: tv.enum}
		})
		return
	}
	switch t.Kind() {
	case reflect.Struct:
		w := &c13SchemaW{}
		for _, f := range w.fields(t, reflect.Value{}, path) {
			c13Candidates(f.t, append(append([]string{}, path...), f.key), depth+1, out)
		}
	case reflect.Bool:
		one(func(rnd *rand.Rand, _ func() string, _ int) c13WLeaf { return c13WLeaf{path: p, v: rnd.IntN(2) == 0} })
	case reflect.Int, reflect.Int8, reflect.Int16, reflect.Int32, reflect.Int64:
		one(func(rnd *rand.Rand, _ func() string, _ int) c13WLeaf { return c13WLeaf{path: p, v: 1 + rnd.IntN(9)} })
	case reflect.Uint, reflect.Uint8, reflect.Uint16, reflect.Uint32, reflect.Uint64:
		one(func(rnd *rand.Rand, _ func() string, _ int) c13WLeaf { return c13WLeaf{path: p, v: 1 + rnd.IntN(9)} })
	case reflect.Float32, reflect.Float64:
		one(func(rnd *rand.Rand, _ func() string, _ int) c13WLeaf {
			return c13WLeaf{path: p, v: float64(1+rnd.IntN(9)) / 4}
		})
	case reflect.String:
		one(func(rnd *rand.Rand, _ func() string, inst int) c13WLeaf {
			v := fmt.Sprintf("v%d-%d", inst, rnd.IntN(100))
			if strings.HasSuffix(p, "_url_path") {
				v = "/" + v // otlpreceiver sanitizeURLPath adds the leading slash (named exception): written already normalised
			}
			return c13WLeaf{path: p, v: v}
		})
	case reflect.Slice:
		if t.Elem().Kind() == reflect.String && !reflect.PointerTo(t.Elem()).Implements(c13TextUnm) {
			one(func(rnd *rand.Rand, _ func() string, inst int) c13WLeaf {
				v := []any{fmt.Sprintf("e%d-%d", inst, rnd.IntN(50))}
				if rnd.IntN(2) == 0 {
					v = append(v, fmt.Sprintf("f%d-%d", inst, rnd.IntN(50)))
				}
				return c13WLeaf{path: p, v: v, list: true}
			})
		}
	case reflect.Map:
		if t.Key().Kind() != reflect.String {
			return
		}
		switch {
		case t.Elem() == c13OpaqueT:
			*out = append(*out, c13Cand{p, func(rnd *rand.Rand, secret func() string, inst int) []c13WLeaf {
				var ls []c13WLeaf
				for _, hk := range []string{"authorization", fmt.Sprintf("x-key-%d", inst)}[rnd.IntN(2):] {
					ls = append(ls, c13WLeaf{path: p + "::" + hk, v: secret(), secret: true})
				}
				return ls
			}})
		case t.Elem().Kind() == reflect.String:
			*out = append(*out, c13Cand{p, func(rnd *rand.Rand, _ func() string, inst int) []c13WLeaf {
				return []c13WLeaf{{path: p + "::" + fmt.Sprintf("mk-%d", inst), v: fmt.Sprintf("mv-%d", rnd.IntN(50))}}
			}})
		}
	}
}

// c13OtelconfPosition: the struct at this position is one of the go.opentelemetry.io/contrib/otelconf v0.3.0 schema types
// (elements of service::telemetry::{traces,logs}::processors and ::metrics::readers and what is below them).
func c13OtelconfPosition(pos []string) bool {
	p := strings.Join(pos, "::")
	for _, pre := range []string{"service::telemetry::traces::processors::[", "service::telemetry::logs::processors::[", "service::telemetry::metrics::readers::["} {
		if strings.HasPrefix(p, pre) {
			return true
		}
	}
	return false
}

// ---- an unknown key at EVERY struct position of EVERY otelcorecol factory's configuration type ----------------
// positions through struct fields, optionals, squashed structs, slice elements ("[]") and map values ("*"), loaded
// through the real collector configuration loading.

func c13Positions(t reflect.Type, path []string, depth int, out *[][]string) {
	for t.Kind() == reflect.Pointer && t != c13OpaqueT {
		t = t.Elem()
	}
	if depth > 10 || reflect.PointerTo(t).Implements(c13TextUnm) {
		return
	}
	switch t.Kind() {
	case reflect.Struct:
		*out = append(*out, append([]string{}, path...))
		w := &c13SchemaW{}
		for _, f := range w.fields(t, reflect.Value{}, path) {
			c13Positions(f.t, append(append([]string{}, path...), f.key), depth+1, out)
		}
	case reflect.Slice, reflect.Array:
		c13Positions(t.Elem(), append(append([]string{}, path...), "[]"), depth+1, out)
	case reflect.Map:
		if t.Key().Kind() == reflect.String {
			c13Positions(t.Elem(), append(append([]string{}, path...), "*"), depth+1, out)
		}
	}
}

// c13DocAt builds the written configuration that has `leaf` at the position.
func c13DocAt(pos []string, leaf map[string]any) any {
	if len(pos) == 0 {
		return leaf
	}
	rest := c13DocAt(pos[1:], leaf)
	switch pos[0] {
	case "[]":
		return []any{rest}
	case "*":
		return map[string]any{"mk": rest}
	}
	return map[string]any{pos[0]: rest}
}

func c13StrictAll(out *vOut, factories otelcol.Factories, first int) int {
	kinds := make([]string, 0, len(c13Catalog))
	for k := range c13Catalog {
		kinds = append(kinds, k)
	}
	sort.Strings(kinds)
	for i, k := range kinds {
		st := strings.SplitN(k, "/", 2)
		out.Linef("case %d strict-all=%s", first+i, k)
		out.Linef("op inst id=%s def=- w=-", vHex("strict-all/"+k))
		out.Linef("obs eff -")
		var positions [][]string
		c13Positions(reflect.TypeOf(c13Factory(factories, st[0], st[1]).CreateDefaultConfig()), nil, 0, &positions)
		for _, pos := range positions {
			doc, _ := c13DocAt(pos, map[string]any{"zz_unknown_key": 1}).(map[string]any)
			root := map[string]any{
				"receivers": map[string]any{"nop": map[string]any{}}, "exporters": map[string]any{"nop": map[string]any{}},
				"service": map[string]any{"pipelines": map[string]any{"traces": map[string]any{"receivers": []any{"nop"}, "exporters": []any{"nop"}}}},
			}
			sec, _ := root[st[0]].(map[string]any)
			if sec == nil {
				sec = map[string]any{}
				root[st[0]] = sec
			}
			sec[st[1]+"/probe"] = doc
			what := k + "/" + strings.Join(pos, "::")
			_, err := c13LoadJSON(factories, root)
			switch {
			case err == nil:
				out.Linef("viol sig=C13/strict/unknown-key-accepted/%s", what)
			case strings.HasPrefix(err.Error(), "PANIC"):
				out.Linef("viol sig=C13/strict/unknown-key-panics/%s err=%s", what, vHex(err.Error()))
			case !strings.Contains(err.Error(), "zz_unknown_key"):
				out.Linef("viol sig=C13/strict/error-does-not-name-key/%s err=%s", what, vHex(err.Error()))
			}
		}
		out.Linef("stat strict_all_positions %d", len(positions))
		out.Linef("nt")
		out.Linef("end")
		out.Flush()
	}
	return len(kinds)
}

// ---- history independence: what was loaded before must not show in a later load ---------------------------------

var (
	c13PristineEmpty   map[string]map[string]any // per component type: the effective form of an instance without keys, first load of the process
	c13PristineService map[string]any            // flattened effective service section of that first load
	c13PristineTyped   string                    // deep rendering of the typed service configuration of that first load
	c13PristineErr     error
)

func c13MinimalService() map[string]any {
	return map[string]any{"pipelines": map[string]any{"traces": map[string]any{"receivers": []any{"nop"}, "exporters": []any{"nop"}}}}
}

// c13CapturePristine loads, as the very first load of the process, a document with one key-less instance of every
// component type and a service section that writes nothing below service::telemetry.
func c13CapturePristine(factories otelcol.Factories, kinds []string) {
	root := map[string]any{"service": c13MinimalService()}
	for _, k := range kinds {
		st := strings.SplitN(k, "/", 2)
		sec, _ := root[st[0]].(map[string]any)
		if sec == nil {
			sec = map[string]any{}
			root[st[0]] = sec
		}
		sec[st[1]+"/pristine"] = map[string]any{}
	}
	root["receivers"].(map[string]any)["nop"] = map[string]any{}
	root["exporters"].(map[string]any)["nop"] = map[string]any{}
	cfg, err := c13LoadJSON(factories, root)
	if err != nil {
		c13PristineErr = err
		return
	}
	eff, err := c13EffectiveOf(cfg)
	if err != nil {
		c13PristineErr = err
		return
	}
	c13PristineEmpty = map[string]map[string]any{}
	for _, k := range kinds {
		st := strings.SplitN(k, "/", 2)
		flat := map[string]any{}
		if sec, ok := eff[st[0]].(map[string]any); ok {
			if ie, ok := sec[st[1]+"/pristine"].(map[string]any); ok {
				c13Flatten(ie, "", flat)
			}
		}
		c13PristineEmpty[k] = flat
	}
	c13PristineService = map[string]any{}
	if svc, ok := eff["service"].(map[string]any); ok {
		if tel, ok := svc["telemetry"].(map[string]any); ok {
			c13Flatten(tel, "", c13PristineService)
		}
	}
	c13PristineTyped = c13DeepRender(reflect.ValueOf(cfg.Service.Telemetry), 0)
}

// c13FirstDiff: the first (sorted) leaf path at which two flattened configurations differ.
func c13FirstDiff(a, b map[string]any) (string, bool) {
	keys := map[string]bool{}
	for k := range a {
		keys[k] = true
	}
	for k := range b {
		keys[k] = true
	}
	ks := make([]string, 0, len(keys))
	for k := range keys {
		ks = append(ks, k)
	}
	sort.Strings(ks)
	for _, k := range ks {
		av, aok := a[k]
		bv, bok := b[k]
		if aok != bok || c13Norm(av) != c13Norm(bv) {
			return k, true
		}
	}
	return "", false
}

// c13CheckService: a load that writes nothing below service::telemetry must show the telemetry section of the first load
// of the process, in the effective AND in the typed configuration.
func c13CheckService(out *vOut, sig string, eff map[string]any, cfg *otelcol.Config) {
	flat := map[string]any{}
	if svc, ok := eff["service"].(map[string]any); ok {
		if tel, ok := svc["telemetry"].(map[string]any); ok {
			c13Flatten(tel, "", flat)
		}
	}
	if p, diff := c13FirstDiff(c13PristineService, flat); diff {
		out.Linef("viol sig=%s/telemetry::%s fresh=%s now=%s", sig, p, vHex(c13Norm(c13PristineService[p])), vHex(c13Norm(flat[p])))
		return
	}
	if typed := c13DeepRender(reflect.ValueOf(cfg.Service.Telemetry), 0); typed != c13PristineTyped {
		out.Linef("viol sig=%s/telemetry::<typed-only> fresh=%s now=%s", sig, vHex(c13PristineTyped), vHex(typed))
	}
}

// c13ServiceHistory: load A writes settings below service::telemetry (scalars behind pointers, maps, lists); load B is the
// same document without them; B must equal the first load of the process. Also: the service sections of two successive
// loads, and two telemetry factory defaults, must not share any pointer, map or slice.
func c13ServiceHistory(out *vOut, factories otelcol.Factories, first int) int {
	n := 0
	open := func(what string) {
		out.Linef("case %d service-history=%s", first+n, what)
		out.Linef("op inst id=%s def=- w=-", vHex("service-history/"+what))
		out.Linef("obs eff -")
		n++
	}
	closeCase := func() {
		out.Linef("nt")
		out.Linef("end")
		out.Flush()
	}
	minimal := func(tel map[string]any) map[string]any {
		svc := c13MinimalService()
		if tel != nil {
			svc["telemetry"] = tel
		}
		return map[string]any{"receivers": map[string]any{"nop": map[string]any{}}, "exporters": map[string]any{"nop": map[string]any{}}, "service": svc}
	}
	open("pristine")
	if c13PristineErr != nil {
		out.Linef("viol sig=C13/load/valid-config-rejected where=pristine err=%s", vHex(c13PristineErr.Error()))
	}
	// collector-level defaults: the telemetry factory's default configuration
	ta, tb := telemetry.NewFactory().CreateDefaultConfig(), telemetry.NewFactory().CreateDefaultConfig()
	before := c13DeepRender(reflect.ValueOf(tb), 0)
	c13SharedWalk(reflect.ValueOf(ta), reflect.ValueOf(tb), "", 0, func(path, what string) {
		out.Linef("viol sig=C13/defaults/shared-mutable-default/service-telemetry-factory/%s kind=%s", path, what)
	})
	c13MutateAll(reflect.ValueOf(ta), 0)
	if after := c13DeepRender(reflect.ValueOf(tb), 0); after != before {
		out.Linef("viol sig=C13/defaults/shared-mutable-default/service-telemetry-factory/mutation-visible-in-earlier-default")
	}
	if third := c13DeepRender(reflect.ValueOf(telemetry.NewFactory().CreateDefaultConfig()), 0); third != before {
		out.Linef("viol sig=C13/defaults/shared-mutable-default/service-telemetry-factory/mutation-visible-in-later-default")
	}
	// two successive loads of the same key-less document: no shared pointer / map / slice anywhere in the configuration
	c1, e1 := c13LoadJSON(factories, minimal(nil))
	c2, e2 := c13LoadJSON(factories, minimal(nil))
	if e1 != nil || e2 != nil {
		out.Linef("viol sig=C13/load/valid-config-rejected where=service-history-minimal")
	} else {
		shared := map[string]bool{}
		c13SharedWalk(reflect.ValueOf(c1), reflect.ValueOf(c2), "", 0, func(path, what string) {
			if !shared[path] {
				shared[path] = true
				out.Linef("viol sig=C13/defaults/shared-mutable-default/collector-config/%s kind=%s", path, what)
			}
		})
	}
	closeCase()
	writes := []struct {
		name string
		tel  map[string]any
	}{
		{"logs::sampling", map[string]any{"logs": map[string]any{"sampling": map[string]any{"enabled": false, "tick": "7s", "initial": 3, "thereafter": 77}}}},
		{"logs::sampling::initial", map[string]any{"logs": map[string]any{"sampling": map[string]any{"initial": 5}}}},
		{"logs::scalars", map[string]any{"logs": map[string]any{"level": "debug", "encoding": "json", "development": true, "disable_caller": true, "disable_stacktrace": true}}},
		{"logs::lists", map[string]any{"logs": map[string]any{"output_paths": []any{"stdout"}, "error_output_paths": []any{"stdout"}, "initial_fields": map[string]any{"k": "v"}}}},
		{"logs::processors", map[string]any{"logs": map[string]any{"processors": []any{map[string]any{"batch": map[string]any{"exporter": map[string]any{"otlp": map[string]any{"protocol": "http/protobuf", "endpoint": "localhost:4318"}}}}}}}},
		{"metrics::level+readers", map[string]any{"metrics": map[string]any{"level": "detailed", "readers": []any{map[string]any{"pull": map[string]any{"exporter": map[string]any{"prometheus": map[string]any{"host": "localhost", "port": 9999}}}}}}}},
		{"traces", map[string]any{"traces": map[string]any{"level": "none", "propagators": []any{"b3"}, "processors": []any{map[string]any{"batch": map[string]any{"exporter": map[string]any{"otlp": map[string]any{"protocol": "http/protobuf", "endpoint": "localhost:4318"}}}}}}}},
		{"resource", map[string]any{"resource": map[string]any{"service.name": "verif", "extra": "x"}}},
	}
	for _, w := range writes {
		open("write-then-remove/" + w.name)
		cfgA, err := c13LoadJSON(factories, minimal(w.tel))
		if err != nil {
			out.Linef("viol sig=C13/load/valid-config-rejected where=service-history/%s err=%s", w.name, vHex(err.Error()))
			closeCase()
			continue
		}
		_ = cfgA
		cfgB, err := c13LoadJSON(factories, minimal(nil))
		if err != nil {
			out.Linef("viol sig=C13/reload/valid-config-rejected where=service-history/%s err=%s", w.name, vHex(err.Error()))
			closeCase()
			continue
		}
		if effB, err := c13EffectiveOf(cfgB); err == nil {
			c13CheckService(out, "C13/reload/removed-key-persists/service", effB, cfgB)
		}
		// the two loads must not share mutable state either
		c13SharedWalk(reflect.ValueOf(cfgA), reflect.ValueOf(cfgB), "", 0, func(path, what string) {
			out.Linef("viol sig=C13/defaults/shared-mutable-default/collector-config/%s kind=%s", path, what)
		})
		closeCase()
	}
	return n
}

// ---- rule-level coverage of the built-in Validate() methods -----------------------------------------------------
// The walk theorem is about the walker. Each built-in Validate() is a conjunction of rules; that a rule is still evaluated
// when OTHER settings of the same struct are written (valid ones or other violations) is tied by this combination
// differential, not by a theorem: every violating setting alone, every pair of violating settings, and every violating
// setting together with every valid co-setting of the same component. Rules of one Validate() (same `group`) may mask each
// other (it returns on the first failure): at least one violated rule of every group must be reported; rules of different
// groups (different nested values) must ALL be reported (the walker collects them).

type c13Rule struct {
	comp   string         // section/id in c13ValidBase
	name   string         // rule name (signature)
	group  string         // the Validate() the rule belongs to
	keys   map[string]any // key path (below the component) -> value
	expect string         // substring of the error
	reads  []string       // settings the rule depends on besides the ones it writes
}

type c13Co struct {
	comp string
	name string
	keys map[string]any
}

func c13Rules() ([]c13Rule, []c13Co) {
	var rules []c13Rule
	var cos []c13Co
	batchOK := map[string]any{"flush_timeout": "1s", "min_size": 10, "max_size": 0}
	for _, exp := range []string{"exporters/otlp", "exporters/otlphttp"} {
		q := "queuebatch.Config@" + exp
		b := "queuebatch.BatchConfig@" + exp
		r := "configretry.BackOffConfig@" + exp
		rules = append(rules,
			c13Rule{exp, "queue-num_consumers-not-positive", q, map[string]any{"sending_queue::num_consumers": 0}, "num_consumers", []string{"sending_queue::enabled"}},
			c13Rule{exp, "queue-queue_size-not-positive", q, map[string]any{"sending_queue::queue_size": -1}, "queue_size", []string{"sending_queue::enabled"}},
			c13Rule{exp, "queue-storage-with-wait_for_result", q, map[string]any{"sending_queue::storage": "file_storage", "sending_queue::wait_for_result": true}, "wait_for_result", []string{"sending_queue::enabled"}},
			c13Rule{exp, "queue-storage-with-non-requests-sizer", q, map[string]any{"sending_queue::storage": "file_storage", "sending_queue::sizer": "items"}, "sizer", []string{"sending_queue::enabled", "sending_queue::wait_for_result"}}, // storage + wait_for_result is the rule above (same Validate)
			c13Rule{exp, "queue-batch-with-requests-sizer", q, map[string]any{"sending_queue::batch": batchOK}, "`batch` supports only", []string{"sending_queue::enabled", "sending_queue::sizer"}},
			c13Rule{exp, "batch-flush_timeout-not-positive", b, map[string]any{"sending_queue::sizer": "items", "sending_queue::batch": map[string]any{"flush_timeout": "0s"}}, "flush_timeout", []string{"sending_queue::enabled", "sending_queue::storage"}},
			c13Rule{exp, "batch-min_size-negative", b, map[string]any{"sending_queue::sizer": "items", "sending_queue::batch": map[string]any{"flush_timeout": "1s", "min_size": -1}}, "min_size", []string{"sending_queue::enabled", "sending_queue::storage"}},
			c13Rule{exp, "batch-max_size-below-min_size", b, map[string]any{"sending_queue::sizer": "items", "sending_queue::batch": map[string]any{"flush_timeout": "1s", "min_size": 10, "max_size": 5}}, "max_size", []string{"sending_queue::enabled", "sending_queue::storage"}},
			c13Rule{exp, "retry-multiplier-negative", r, map[string]any{"retry_on_failure::multiplier": -1.0}, "multiplier", []string{"retry_on_failure::enabled"}},
			c13Rule{exp, "retry-randomization_factor-out-of-range", r, map[string]any{"retry_on_failure::randomization_factor": 2.0}, "randomization_factor", []string{"retry_on_failure::enabled"}},
			c13Rule{exp, "retry-initial_interval-negative", r, map[string]any{"retry_on_failure::initial_interval": "-1s"}, "initial_interval", []string{"retry_on_failure::enabled", "retry_on_failure::max_elapsed_time"}},
			c13Rule{exp, "retry-max_interval-negative", r, map[string]any{"retry_on_failure::max_interval": "-1s"}, "max_interval", []string{"retry_on_failure::enabled", "retry_on_failure::max_elapsed_time"}},
			c13Rule{exp, "retry-max_elapsed_time-negative", r, map[string]any{"retry_on_failure::max_elapsed_time": "-1s"}, "max_elapsed_time", []string{"retry_on_failure::enabled"}},
			c13Rule{exp, "tls-ca_file-and-ca_pem", "configtls.Config@" + exp, map[string]any{"tls::ca_file": "/nonexistent/ca.pem", "tls::ca_pem": "x"}, "tls", nil},
			c13Rule{exp, "tls-min-above-max", "configtls.Config@" + exp, map[string]any{"tls::min_version": "1.3", "tls::max_version": "1.2"}, "min_version", nil},
		)
		cos = append(cos,
			c13Co{exp, "storage-set", map[string]any{"sending_queue::storage": "file_storage"}},
			c13Co{exp, "wait_for_result", map[string]any{"sending_queue::wait_for_result": true}},
			c13Co{exp, "block_on_overflow", map[string]any{"sending_queue::block_on_overflow": true}},
			c13Co{exp, "sizer-items", map[string]any{"sending_queue::sizer": "items"}},
			c13Co{exp, "sizer-bytes", map[string]any{"sending_queue::sizer": "bytes"}},
			c13Co{exp, "batch-set", map[string]any{"sending_queue::sizer": "items", "sending_queue::batch": batchOK}},
			c13Co{exp, "queue_size", map[string]any{"sending_queue::queue_size": 5}},
			c13Co{exp, "num_consumers", map[string]any{"sending_queue::num_consumers": 3}},
			c13Co{exp, "retry-intervals", map[string]any{"retry_on_failure::initial_interval": "1s", "retry_on_failure::max_interval": "2s", "retry_on_failure::max_elapsed_time": "10s"}},
			c13Co{exp, "retry-max_elapsed_time-zero", map[string]any{"retry_on_failure::max_elapsed_time": "0s"}},
			c13Co{exp, "timeout", map[string]any{"timeout": "3s"}},
			c13Co{exp, "compression", map[string]any{"compression": "zstd"}},
			c13Co{exp, "headers", map[string]any{"headers": map[string]any{"authorization": "x"}}},
			c13Co{exp, "tls-insecure", map[string]any{"tls::insecure": true}},
			c13Co{exp, "tls-versions", map[string]any{"tls::min_version": "1.2", "tls::max_version": "1.3"}},
		)
	}
	rules = append(rules,
		c13Rule{"exporters/otlp", "timeout-negative", "exporterhelper.TimeoutConfig@exporters/otlp", map[string]any{"timeout": "-1s"}, "timeout", nil},
		c13Rule{"exporters/otlp", "balancer_name-unknown", "configgrpc.ClientConfig@exporters/otlp", map[string]any{"balancer_name": "no_such_balancer"}, "balancer_name", nil},
		c13Rule{"exporters/otlp", "endpoint-empty", "otlpexporter.Config", map[string]any{"endpoint": ""}, "endpoint", nil},
		c13Rule{"exporters/otlphttp", "endpoint-missing", "otlphttpexporter.Config", map[string]any{"endpoint": ""}, "endpoint", []string{"traces_endpoint", "metrics_endpoint", "logs_endpoint"}},
		c13Rule{"receivers/otlp", "grpc-read_buffer_size-negative", "configgrpc.ServerConfig", map[string]any{"protocols::grpc::read_buffer_size": -1}, "read_buffer_size", nil},
		c13Rule{"receivers/otlp", "grpc-write_buffer_size-negative", "configgrpc.ServerConfig", map[string]any{"protocols::grpc::write_buffer_size": -1}, "write_buffer_size", nil},
		c13Rule{"receivers/otlp", "grpc-max_recv_msg_size_mib-negative", "configgrpc.ServerConfig", map[string]any{"protocols::grpc::max_recv_msg_size_mib": -1}, "max_recv_msg_size_mib", nil},
		c13Rule{"receivers/otlp", "grpc-tls-min-above-max", "configtls.Config@grpc", map[string]any{"protocols::grpc::tls": map[string]any{"min_version": "1.3", "max_version": "1.2"}}, "min_version", nil},
		c13Rule{"receivers/otlp", "grpc-tls-ca_file-and-ca_pem", "configtls.Config@grpc", map[string]any{"protocols::grpc::tls": map[string]any{"ca_file": "/nonexistent/ca.pem", "ca_pem": "x"}}, "grpc::tls", nil},
		c13Rule{"receivers/otlp", "http-tls-min-above-max", "configtls.Config@http", map[string]any{"protocols::http::tls": map[string]any{"min_version": "1.3", "max_version": "1.2"}}, "min_version", nil},
		c13Rule{"processors/batch", "send_batch_max_size-below-send_batch_size", "batchprocessor.Config", map[string]any{"send_batch_max_size": 1}, "send_batch_max_size", []string{"send_batch_size"}},
		c13Rule{"processors/batch", "metadata_keys-duplicate", "batchprocessor.Config", map[string]any{"metadata_keys": []any{"tenant", "Tenant"}}, "metadata_keys", nil},
		c13Rule{"processors/batch", "timeout-negative", "batchprocessor.Config", map[string]any{"timeout": "-1s"}, "timeout", nil},
		c13Rule{"processors/memory_limiter", "check_interval-not-positive", "memorylimiter.Config", map[string]any{"check_interval": "0s"}, "check_interval", nil},
		c13Rule{"processors/memory_limiter", "no-limit", "memorylimiter.Config", map[string]any{"limit_mib": 0}, "limit", []string{"limit_percentage"}},
		c13Rule{"processors/memory_limiter", "spike-above-limit", "memorylimiter.Config", map[string]any{"limit_mib": 100, "spike_limit_mib": 200}, "spike_limit_mib", nil},
		c13Rule{"processors/memory_limiter", "percentage-above-100", "memorylimiter.Config", map[string]any{"limit_percentage": 150}, "percentage", nil},
		c13Rule{"exporters/debug", "verbosity-none", "debugexporter.Config", map[string]any{"verbosity": "none"}, "verbosity", nil},
		c13Rule{"extensions/zpages", "tls-min-above-max", "configtls.Config@zpages", map[string]any{"tls": map[string]any{"min_version": "1.3", "max_version": "1.2"}}, "min_version", nil},
	)
	cos = append(cos,
		c13Co{"receivers/otlp", "grpc-keepalive", map[string]any{"protocols::grpc::keepalive": map[string]any{"server_parameters": map[string]any{"time": "10s"}}}},
		c13Co{"receivers/otlp", "grpc-include_metadata", map[string]any{"protocols::grpc::include_metadata": true}},
		c13Co{"receivers/otlp", "grpc-max_concurrent_streams", map[string]any{"protocols::grpc::max_concurrent_streams": 7}},
		c13Co{"receivers/otlp", "http-cors", map[string]any{"protocols::http::cors": map[string]any{"allowed_origins": []any{"https://a.example"}}}},
		c13Co{"receivers/otlp", "http-response_headers", map[string]any{"protocols::http::response_headers": map[string]any{"x": "y"}}},
		c13Co{"processors/batch", "send_batch_size", map[string]any{"send_batch_size": 100}},
		c13Co{"processors/batch", "metadata_cardinality_limit", map[string]any{"metadata_cardinality_limit": 5}},
		c13Co{"processors/memory_limiter", "min_gc_intervals", map[string]any{"min_gc_interval_when_soft_limited": "20s", "min_gc_interval_when_hard_limited": "1s"}},
		c13Co{"exporters/debug", "sampling", map[string]any{"sampling_initial": 3, "sampling_thereafter": 9}},
		c13Co{"extensions/zpages", "expvar", map[string]any{"expvar": map[string]any{"enabled": true}}},
	)
	return rules, cos
}

// c13KeysConflict: the two key sets write (or one reads what the other writes) the same setting with different values.
func c13KeysConflict(a, b map[string]any, aReads, bReads []string) bool {
	over := func(p, q string) bool { return p == q || strings.HasPrefix(p, q+"::") || strings.HasPrefix(q, p+"::") }
	for p, pv := range a {
		for q, qv := range b {
			if over(p, q) && !(p == q && reflect.DeepEqual(pv, qv)) {
				return true
			}
		}
		for _, r := range bReads {
			if over(p, r) {
				return true
			}
		}
	}
	for q := range b {
		for _, r := range aReads {
			if over(q, r) {
				return true
			}
		}
	}
	return false
}

func c13RuleCombos(out *vOut, factories otelcol.Factories, first int) int {
	rules, cos := c13Rules()
	apply := func(root map[string]any, comp string, keys map[string]any) {
		st := strings.SplitN(comp, "/", 2)
		m := root[st[0]].(map[string]any)[st[1]].(map[string]any)
		for p, v := range keys {
			c13SetPath(m, p, v)
		}
	}
	nval := 0
	validate := func(root map[string]any) (string, bool) {
		cfg, err := c13LoadJSON(factories, root)
		if err == nil {
			err = xconfmap.Validate(cfg)
		}
		// every 7th combination (all of them in the thorough tier) also through the `validate` sub-command's entry point
		if nval++; vThorough() || nval%7 == 0 {
			js, _ := json.Marshal(root)
			c13EntryPoints(out, js, err, "rule-combination")
		}
		if err != nil {
			return err.Error(), true
		}
		return "", false
	}
	out.Linef("case %d rule-combinations", first)
	out.Linef("op inst id=%s def=- w=-", vHex("rule-combinations"))
	out.Linef("obs eff -")
	checks := 0
	report := func(r c13Rule, co string, msg string) {
		st := strings.SplitN(r.group, "@", 2)
		out.Linef("viol sig=C13/validate/violated-rule-not-reported/%s/%s/%s at=%s errors=%s", st[0], r.name, co, r.comp, vHex(msg))
	}
	// the valid co-settings are valid
	for _, c := range cos {
		root := c13ValidBase()
		apply(root, c.comp, c.keys)
		if msg, rejected := validate(root); rejected {
			out.Linef("viol sig=C13/gen/co-setting-not-valid/%s/%s err=%s", c.comp, c.name, vHex(msg))
		}
	}
	for i, r := range rules {
		// alone
		root := c13ValidBase()
		apply(root, r.comp, r.keys)
		msg, rejected := validate(root)
		checks++
		if !rejected || !strings.Contains(msg, r.expect) {
			report(r, "alone", msg)
			continue
		}
		// with every valid co-setting of the same component
		for _, c := range cos {
			if c.comp != r.comp || c13KeysConflict(r.keys, c.keys, r.reads, nil) {
				continue
			}
			root := c13ValidBase()
			apply(root, c.comp, c.keys)
			apply(root, r.comp, r.keys)
			msg, rejected := validate(root)
			checks++
			if !rejected || !strings.Contains(msg, r.expect) {
				report(r, c.name, msg)
			}
		}
		// with every other violating setting (any component)
		for j, r2 := range rules {
			if j <= i || (r.comp == r2.comp && c13KeysConflict(r.keys, r2.keys, r.reads, r2.reads)) {
				continue
			}
			root := c13ValidBase()
			apply(root, r.comp, r.keys)
			apply(root, r2.comp, r2.keys)
			msg, rejected := validate(root)
			checks++
			has1, has2 := strings.Contains(msg, r.expect), strings.Contains(msg, r2.expect)
			sameGroup := r.group == r2.group
			switch {
			case !rejected:
				report(r, "with-"+r2.name, msg)
			case sameGroup && !has1 && !has2:
				report(r, "with-"+r2.name, msg)
			case !sameGroup && !has1:
				report(r, "with-"+r2.name, msg)
			case !sameGroup && !has2:
				report(r2, "with-"+r.name, msg)
			}
		}
	}
	out.Linef("stat rule_combination_checks %d", checks)
	out.Linef("stat rule_table_rules %d", len(rules))
	out.Linef("nt")
	out.Linef("end")
	out.Flush()
	return 1
}
