//go:build verif

package otelcol

import (
	"fmt"
	"regexp"
	"sort"
	"strconv"
	"strings"
	"testing"

	"go.opentelemetry.io/collector/component"
	"go.opentelemetry.io/collector/confmap/xconfmap"
	"go.opentelemetry.io/collector/pipeline"
	"go.opentelemetry.io/collector/service/pipelines"
)

type c13Cfg struct{}

func c13ID(i int) component.ID { return component.MustNewIDWithName("t", strconv.Itoa(i)) }

func c13IDNum(s string) string {
	// "t/3" -> 3
	if i := strings.LastIndex(s, "/"); i >= 0 {
		return s[i+1:]
	}
	return "?"
}

func c13Join(xs []int) string {
	if len(xs) == 0 {
		return "-"
	}
	ss := make([]string, len(xs))
	for i, x := range xs {
		ss[i] = strconv.Itoa(x)
	}
	return strings.Join(ss, ",")
}

var (
	c13ReAmb   = regexp.MustCompile(`^connectors::t/(\d+): ambiguous ID: Found both "t/\d+" (exporter|receiver)`)
	c13ReExt   = regexp.MustCompile(`^service::extensions: references extension "t/(\d+)" which is not configured`)
	c13ReRef   = regexp.MustCompile(`^service::pipelines::traces/p(\d+): references (receiver|processor|exporter) "t/(\d+)" which is not configured`)
	c13ReShape = regexp.MustCompile(`^service::pipelines::traces/p(\d+): (must have at least one receiver|must have at least one exporter|references processor "t/(\d+)" multiple times)`)
)

// TestVerifC13Refs: generated otelcol.Config values (sets of component ids, service extensions,
// pipelines) through xconfmap.Validate — i.e. Config.Validate, pipelines.Config.Validate and every
// PipelineConfig.Validate reached by the walk.
func TestVerifC13Refs(t *testing.T) {
	out := vOpen(t)
	defer out.Close()
	out.Linef("model c13-refs 1")
	base := generateConfig()
	for _, c := range vCases(vN(3000)) {
		rnd := vRand(c)
		pick := func(p int) []int { // random subset of ids 0..5
			var xs []int
			for i := 0; i < 6; i++ {
				if rnd.IntN(100) < p {
					xs = append(xs, i)
				}
			}
			return xs
		}
		valid := c%3 != 0 // two thirds of the cases start from a valid shape and get one defect or none
		var recv, exp, conn, proc, ext []int
		if valid {
			recv, exp, conn, proc, ext = []int{0, 1}, []int{2, 3}, []int{4}, []int{0, 1, 5}, []int{0, 1}
		} else {
			recv, exp, conn, proc, ext = pick(40), pick(40), pick(25), pick(40), pick(30)
		}
		procNil, extNil := map[int]bool{}, map[int]bool{}
		if !valid || rnd.IntN(8) == 0 {
			for _, p := range proc {
				procNil[p] = rnd.IntN(6) == 0
			}
			for _, e := range ext {
				extNil[e] = rnd.IntN(6) == 0
			}
		}
		mk := func(ids []int, nils map[int]bool) map[component.ID]component.Config {
			m := map[component.ID]component.Config{}
			for _, i := range ids {
				if nils[i] {
					m[c13ID(i)] = nil
				} else {
					m[c13ID(i)] = &c13Cfg{}
				}
			}
			return m
		}
		cfg := &Config{Receivers: mk(recv, nil), Exporters: mk(exp, nil), Connectors: mk(conn, nil), Processors: mk(proc, procNil), Extensions: mk(ext, extNil)}
		cfg.Service = base.Service
		var svcext []int
		if valid {
			svcext = []int{0}
		} else {
			svcext = pick(25)
		}
		type pipe struct{ r, p, e []int }
		var pipes []pipe
		if valid {
			pipes = []pipe{{[]int{0}, []int{0, 1}, []int{2, 4}}, {[]int{4, 1}, nil, []int{3}}}
			// plant at most one defect
			switch rnd.IntN(12) {
			case 0:
				pipes[0].r = append(pipes[0].r, 5) // dangling receiver
			case 1:
				pipes[1].e = append(pipes[1].e, 0) // dangling exporter
			case 2:
				pipes[0].p = append(pipes[0].p, 3) // dangling processor
			case 3:
				pipes[0].p = append(pipes[0].p, 0) // duplicate processor
			case 4:
				pipes[1].r = nil
			case 5:
				pipes[0].e = nil
			case 6:
				svcext = append(svcext, 4) // dangling extension
			case 7:
				cfg.Connectors[c13ID(2)] = &c13Cfg{} // connector id = exporter id
				conn = append(conn, 2)
			case 8:
				cfg.Connectors[c13ID(1)] = &c13Cfg{} // connector id = receiver id
				conn = append(conn, 1)
			case 9:
				pipes = nil
			}
		} else {
			seq := func() []int {
				var xs []int
				for i, n := 0, rnd.IntN(4); i < n; i++ {
					xs = append(xs, rnd.IntN(6))
				}
				return xs
			}
			for i, n := 0, rnd.IntN(4); i < n; i++ {
				pipes = append(pipes, pipe{seq(), seq(), seq()})
			}
		}
		ids := func(xs []int) []component.ID {
			var out []component.ID
			for _, x := range xs {
				out = append(out, c13ID(x))
			}
			return out
		}
		cfg.Service.Extensions = ids(svcext)
		cfg.Service.Pipelines = pipelines.Config{}
		var ptoks []string
		for i, p := range pipes {
			cfg.Service.Pipelines[pipeline.NewIDWithName(pipeline.SignalTraces, "p"+strconv.Itoa(i))] = &pipelines.PipelineConfig{Receivers: ids(p.r), Processors: ids(p.p), Exporters: ids(p.e)}
			ptoks = append(ptoks, fmt.Sprintf("p=%d;%s;%s;%s", i, c13Join(p.r), c13Join(p.p), c13Join(p.e)))
		}
		flag := func(xs []int, nils map[int]bool) string {
			if len(xs) == 0 {
				return "-"
			}
			var ss []string
			for _, x := range xs {
				ss = append(ss, fmt.Sprintf("%d:%d", x, vB(!nils[x])))
			}
			return strings.Join(ss, ",")
		}
		out.Linef("case %d", c)
		out.Linef("op refs recv=%s exp=%s conn=%s proc=%s ext=%s svcext=%s | %s", c13Join(recv), c13Join(exp), c13Join(conn),
			flag(proc, procNil), flag(ext, extNil), c13Join(svcext), strings.Join(ptoks, " "))
		err := xconfmap.Validate(cfg)
		if err == nil {
			out.Linef("obs ok")
		} else {
			var roots, shapes, other []string
			for _, line := range strings.Split(err.Error(), "\n") {
				switch {
				case line == "empty configuration file":
					roots = append(roots, "emptyConfig")
				case line == "no receiver configuration specified in config":
					roots = append(roots, "noReceivers")
				case line == "no exporter configuration specified in config":
					roots = append(roots, "noExporters")
				case c13ReAmb.MatchString(line):
					m := c13ReAmb.FindStringSubmatch(line)
					k := "ambE"
					if m[2] == "receiver" {
						k = "ambR"
					}
					roots = append(roots, k+" "+m[1])
				case c13ReExt.MatchString(line):
					roots = append(roots, "dext "+c13ReExt.FindStringSubmatch(line)[1])
				case c13ReRef.MatchString(line):
					m := c13ReRef.FindStringSubmatch(line)
					roots = append(roots, map[string]string{"receiver": "drecv", "processor": "dproc", "exporter": "dexp"}[m[2]]+" "+m[1]+" "+m[3])
				case c13ReShape.MatchString(line):
					m := c13ReShape.FindStringSubmatch(line)
					switch {
					case strings.Contains(m[2], "receiver"):
						shapes = append(shapes, "pnr"+m[1])
					case strings.Contains(m[2], "exporter"):
						shapes = append(shapes, "pne"+m[1])
					default:
						shapes = append(shapes, "dup"+m[1]+":"+m[3])
					}
				case line == "service::pipelines: service must have at least one pipeline":
					shapes = append(shapes, "noPipelines")
				default:
					other = append(other, line)
				}
			}
			sort.Strings(shapes)
			sh := "-"
			if len(shapes) > 0 {
				sh = strings.Join(shapes, ",")
			}
			out.Linef("obs err root=%d shape=%s", len(roots), sh)
			for _, r := range roots {
				out.Linef("tr root %s", r)
			}
			for _, o := range other {
				out.Linef("viol sig=C13/refs/unclassified-error line=%s", vHex(o))
			}
			out.Linef("nt")
		}
		out.Linef("stat pipelines %d", len(pipes))
		out.Linef("end")
		out.Flush()
	}
}
