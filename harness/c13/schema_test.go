//go:build verif

package main

import (
	"encoding"
	"fmt"
	"os"
	"reflect"
	"sort"
	"strings"
	"testing"

	"go.opentelemetry.io/collector/config/configopaque"
	"go.opentelemetry.io/collector/confmap"
)

// TestVerifC13Schema is the reflection translator for lean/OtelVerif/Gen/ConfigSchemas.lean: for every
// built-in factory of otelcorecol it prints the key-space schema (`KS`) of the default configuration's
// type — keys as mapstructure sees them, squashed structs inlined, and the kind of hook that decodes
// each leaf (scalar | opaque | text <type> | custom <type> | any | ptr | slice | map) — together with the
// factory default seen through the same keys (`TV`, leaves as ids of their effective rendering), and the
// list of positions whose type has its own `Unmarshal` (outside the generic faithfulness theorem).
// Only data is emitted. It runs inside cmd/otelcorecol (overlay) because reflection needs the real types.

var (
	c13TextUnm  = reflect.TypeOf((*encoding.TextUnmarshaler)(nil)).Elem()
	c13ConfUnm  = reflect.TypeOf((*confmap.Unmarshaler)(nil)).Elem()
	c13OpaqueT  = reflect.TypeOf(configopaque.String(""))
	c13AbsentID = c13Hash("<absent>")
)

type c13SchemaW struct {
	comp   string
	eff    map[string]any // flattened effective default
	custom [][3]string
}

func c13LeanStr(s string) string { return fmt.Sprintf("%q", s) }

type c13FieldW struct {
	key  string
	t    reflect.Type
	v    reflect.Value // may be invalid (below a nil pointer)
	omit bool          // tagged `omitempty`
}

// fields lists the accepted keys of a struct level, squashed structs inlined.
func (w *c13SchemaW) fields(t reflect.Type, v reflect.Value, path []string) []c13FieldW {
	var out []c13FieldW
	for i := 0; i < t.NumField(); i++ {
		f := t.Field(i)
		if !f.IsExported() {
			continue
		}
		tag, ok := f.Tag.Lookup("mapstructure")
		parts := strings.Split(tag, ",")
		squash := false
		for _, p := range parts[1:] {
			if p == "squash" {
				squash = true
			}
		}
		var fv reflect.Value
		if v.IsValid() {
			fv = v.Field(i)
		}
		if squash && f.Type.Kind() == reflect.Struct {
			if reflect.PointerTo(f.Type).Implements(c13ConfUnm) {
				w.custom = append(w.custom, [3]string{w.comp, strings.Join(path, "::") + "(squash " + f.Name + ")", f.Type.String()})
			}
			out = append(out, w.fields(f.Type, fv, path)...)
			continue
		}
		key := parts[0]
		if !ok || key == "" {
			key = f.Name // mapstructure matches an untagged field by its Go name
		}
		if key == "-" {
			continue
		}
		if f.Type.Kind() == reflect.Func || f.Type.Kind() == reflect.Chan {
			continue
		}
		omit := false
		for _, p := range parts[1:] {
			if p == "omitempty" {
				omit = true
			}
		}
		out = append(out, c13FieldW{key, f.Type, fv, omit})
	}
	return out
}

// walk returns (KS term, TV term).
func (w *c13SchemaW) walk(t reflect.Type, v reflect.Value, path []string, depth int) (string, string) {
	leaf := func() string {
		p := strings.Join(path, "::")
		if x, ok := w.eff[p]; ok {
			return fmt.Sprintf("(.atom (.scalar %d))", c13Hash(strings.ToLower(c13Norm(x))))
		}
		return fmt.Sprintf("(.atom (.scalar %d))", c13AbsentID)
	}
	if depth > 12 {
		return ".iface", leaf()
	}
	if t == c13OpaqueT {
		return ".opaque", leaf()
	}
	if t.Kind() == reflect.Pointer {
		var ev reflect.Value
		if v.IsValid() && !v.IsNil() {
			ev = v.Elem()
		}
		ks, tv := w.walk(t.Elem(), ev, path, depth+1)
		if !ev.IsValid() {
			tv = ".nilp"
		}
		return "(.ptr " + ks + ")", tv
	}
	if reflect.PointerTo(t).Implements(c13TextUnm) {
		return "(.text " + c13LeanStr(t.String()) + ")", leaf()
	}
	switch t.Kind() {
	case reflect.Struct:
		if reflect.PointerTo(t).Implements(c13ConfUnm) {
			w.custom = append(w.custom, [3]string{w.comp, strings.Join(path, "::"), t.String()})
		}
		fs := w.fields(t, v, path)
		var ks, tv []string
		for _, f := range fs {
			k, d := w.walk(f.t, f.v, append(append([]string{}, path...), f.key), depth+1)
			ks = append(ks, fmt.Sprintf("(%s, %s)", c13LeanStr(f.key), k))
			tv = append(tv, fmt.Sprintf("(%s, %s)", c13LeanStr(f.key), d))
		}
		return "(.struct [" + strings.Join(ks, ", ") + "])", "(.struct [" + strings.Join(tv, ", ") + "])"
	case reflect.Slice, reflect.Array:
		ks, _ := w.walk(t.Elem(), reflect.Value{}, append(append([]string{}, path...), "[]"), depth+1)
		return "(.slice " + ks + ")", leaf()
	case reflect.Map:
		ks, _ := w.walk(t.Elem(), reflect.Value{}, append(append([]string{}, path...), "*"), depth+1)
		ko := "false"
		if t.Key() == c13OpaqueT {
			ko = "true"
		}
		return "(.map " + ko + " " + ks + ")", leaf()
	case reflect.Interface:
		return ".iface", leaf()
	case reflect.Bool, reflect.String, reflect.Int, reflect.Int8, reflect.Int16, reflect.Int32, reflect.Int64,
		reflect.Uint, reflect.Uint8, reflect.Uint16, reflect.Uint32, reflect.Uint64, reflect.Float32, reflect.Float64:
		return ".scalar", leaf()
	}
	return "(.custom " + c13LeanStr(t.String()) + ")", leaf()
}

// c13LeafPaths: key paths of the schema's leaf positions (everything that is not a struct after
// stripping pointers), squashed structs inlined — the same walk as the translator.
func c13LeafPaths(t reflect.Type, path []string, depth int, out map[string]bool) {
	for t.Kind() == reflect.Pointer && t != c13OpaqueT {
		t = t.Elem()
	}
	if t.Kind() != reflect.Struct || reflect.PointerTo(t).Implements(c13TextUnm) || depth > 12 {
		out[strings.Join(path, "::")] = true
		return
	}
	w := &c13SchemaW{}
	for _, f := range w.fields(t, reflect.Value{}, path) {
		c13LeafPaths(f.t, append(append([]string{}, path...), f.key), depth+1, out)
	}
}

// c13OmitPaths: leaf positions whose field is tagged `omitempty` (the encoder leaves them out when they hold the zero value)
func c13OmitPaths(t reflect.Type, path []string, depth int, omit bool, out map[string]bool) {
	for t.Kind() == reflect.Pointer && t != c13OpaqueT {
		t = t.Elem()
	}
	if t.Kind() != reflect.Struct || reflect.PointerTo(t).Implements(c13TextUnm) || depth > 12 {
		if omit {
			out[strings.Join(path, "::")] = true
		}
		return
	}
	w := &c13SchemaW{}
	for _, f := range w.fields(t, reflect.Value{}, path) {
		c13OmitPaths(f.t, append(append([]string{}, path...), f.key), depth+1, f.omit, out)
	}
}

// c13FieldAt navigates a typed configuration by key path (mapstructure keys, squash inlined, pointers followed).
// Returns the zero Value when the path leaves the value (nil optional on the way, unknown key).
func c13FieldAt(v reflect.Value, path []string) reflect.Value {
	for v.IsValid() && (v.Kind() == reflect.Pointer || v.Kind() == reflect.Interface) && v.Type() != c13OpaqueT {
		if v.IsNil() {
			return reflect.Value{}
		}
		v = v.Elem()
	}
	if len(path) == 0 || !v.IsValid() {
		return v
	}
	if v.Kind() != reflect.Struct {
		return reflect.Value{}
	}
	w := &c13SchemaW{}
	for _, f := range w.fields(v.Type(), v, nil) {
		if f.key == path[0] {
			if len(path) == 1 {
				return f.v
			}
			return c13FieldAt(f.v, path[1:])
		}
	}
	return reflect.Value{}
}

func TestVerifC13Schema(t *testing.T) {
	p := os.Getenv("VERIF_OUT")
	if p == "" {
		t.Skip("VERIF_OUT not set")
	}
	factories, err := components()
	if err != nil {
		t.Fatal(err)
	}
	kinds := make([]string, 0, len(c13Catalog))
	for k := range c13Catalog {
		kinds = append(kinds, k)
	}
	sort.Strings(kinds)
	var b strings.Builder
	b.WriteString("/- GENERATED by /verif/harness/c13/schema_test.go (reflection over the built-in factories of cmd/otelcorecol) — do not edit. -/\n")
	b.WriteString("import OtelVerif.Model.C13Faithful\nnamespace OtelVerif.Gen.ConfigSchemas\nopen OtelVerif.C13\n\n")
	fmt.Fprintf(&b, "/-- id of a leaf that the effective default configuration does not show (omitempty, nil) -/\ndef absentId : Nat := %d\n\n", c13AbsentID)
	var custom [][3]string
	var names []string
	for _, k := range kinds {
		st := strings.SplitN(k, "/", 2)
		f := c13Factory(factories, st[0], st[1])
		if f == nil {
			t.Fatalf("no factory for %s", k)
		}
		cfg := f.CreateDefaultConfig()
		eff, err := c13EffectiveOf(cfg)
		if err != nil {
			t.Fatalf("%s: %v", k, err)
		}
		flat := map[string]any{}
		c13Flatten(eff, "", flat)
		w := &c13SchemaW{comp: k, eff: flat}
		rv := reflect.ValueOf(cfg)
		ks, tv := w.walk(rv.Type(), rv, nil, 0)
		name := strings.NewReplacer("/", "_", "-", "_").Replace(k)
		names = append(names, name)
		fmt.Fprintf(&b, "/-- %s: `%s` -/\ndef %s_schema : KS := %s\n\ndef %s_default : TV := %s\n\n", k, rv.Type().String(), name, ks, name, tv)
		custom = append(custom, w.custom...)
	}
	b.WriteString("/-- (section/type, schema, factory default) of every built-in component -/\ndef components : List (String × KS × TV) := [\n")
	for i, k := range kinds {
		sep := ","
		if i == len(kinds)-1 {
			sep = ""
		}
		fmt.Fprintf(&b, "  (%s, %s_schema, %s_default)%s\n", c13LeanStr(k), names[i], names[i], sep)
	}
	b.WriteString("]\n\n/-- positions whose type has its own `Unmarshal(*confmap.Conf)`: (component, key path, Go type) -/\ndef customPositions : List (String × List String × String) := [\n")
	for i, c := range custom {
		sep := ","
		if i == len(custom)-1 {
			sep = ""
		}
		var segs []string
		if c[1] != "" {
			for _, seg := range strings.Split(c[1], "::") {
				segs = append(segs, c13LeanStr(seg))
			}
		}
		fmt.Fprintf(&b, "  (%s, [%s], %s)%s\n", c13LeanStr(c[0]), strings.Join(segs, ", "), c13LeanStr(c[2]), sep)
	}
	b.WriteString("]\n\nend OtelVerif.Gen.ConfigSchemas\n")
	if err := os.WriteFile(p, []byte(b.String()), 0o644); err != nil {
		t.Fatal(err)
	}
}
