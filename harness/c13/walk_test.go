//go:build verif

package xconfmap

import (
	"fmt"
	"math/rand/v2"
	"regexp"
	"sort"
	"strings"
	"testing"
)

// A fixed family of node types: structs / slices / arrays / maps / leaves, with a value-receiver
// Validate, a pointer-receiver Validate, or none; children are held in `any` (interface), typed
// pointer, exported, unexported and squash-tagged fields. Err != 0 makes Validate fail with "E<Err>".

func c13E(n int) error {
	if n == 0 {
		return nil
	}
	return fmt.Errorf("E%d", n)
}

type c13LeafV int

func (l c13LeafV) Validate() error { return c13E(int(l)) }

type c13LeafP int

func (l *c13LeafP) Validate() error { return c13E(int(*l)) }

type c13LeafN int // no Validate

type c13StructV struct {
	Err    int         `mapstructure:"-"`
	A      any         `mapstructure:"a"`
	B      any         `mapstructure:"b_key"`
	C      *c13StructP `mapstructure:"c"`
	Sq     any         `mapstructure:",squash"`
	NoTag  any
	hidden any
}

func (s c13StructV) Validate() error { return c13E(s.Err) }

type c13StructP struct {
	Err    int      `mapstructure:"-"`
	A      any      `mapstructure:"a"`
	L      c13LeafP `mapstructure:"l"`
	hidden any
}

func (s *c13StructP) Validate() error { return c13E(s.Err) }

type c13StructN struct {
	A any      `mapstructure:"a"`
	V c13LeafV `mapstructure:"v"`
}

type c13SliceV []any

func (s c13SliceV) Validate() error {
	if len(s) > 0 {
		if n, ok := s[0].(c13LeafN); ok && n < 0 {
			return c13E(int(-n))
		}
	}
	return nil
}

type c13MapV map[string]any

func (m c13MapV) Validate() error {
	if n, ok := m["zerr"].(c13LeafN); ok && n < 0 {
		return c13E(int(-n))
	}
	return nil
}

type c13KeyMap map[c13LeafV]any

// ---- anonymous (embedded) fields -------------------------------------------------------------
// The walk visits embedded fields like any other exported field. When the enclosing struct has no
// Validate of its own, Go promotes the embedded type's Validate: the walk then reports the same
// failure twice, once at the parent's path and once at the field's path (modelled as it is).

type C13EmbV struct {
	Err int `mapstructure:"-"`
	A   any `mapstructure:"a"`
}

func (e C13EmbV) Validate() error { return c13E(e.Err) }

type C13EmbP struct {
	Err int `mapstructure:"-"`
	A   any `mapstructure:"a"`
}

func (e *C13EmbP) Validate() error { return c13E(e.Err) }

type c13hiddenEmb struct { // unexported embedded type: the field is not exported, the walk skips it
	Err int `mapstructure:"-"`
}

func (e c13hiddenEmb) Validate() error { return c13E(e.Err) }

// enclosing structs WITH their own Validate (the embedded one is not the promoted one)
type c13OwnV_EV struct {
	C13EmbV `mapstructure:"emb"`
	PErr    int `mapstructure:"-"`
	B       any `mapstructure:"b"`
}

func (p c13OwnV_EV) Validate() error { return c13E(p.PErr) }

type c13OwnP_EP struct {
	C13EmbP `mapstructure:",squash"`
	PErr    int `mapstructure:"-"`
	B       any `mapstructure:"b"`
}

func (p *c13OwnP_EP) Validate() error { return c13E(p.PErr) }

type c13OwnV_PtrEV struct {
	*C13EmbV
	PErr int `mapstructure:"-"`
}

func (p c13OwnV_PtrEV) Validate() error { return c13E(p.PErr) }

type c13OwnP_PtrEP struct {
	*C13EmbP `mapstructure:"embp"`
	PErr     int `mapstructure:"-"`
	c13hiddenEmb
}

func (p *c13OwnP_PtrEP) Validate() error { return c13E(p.PErr) }

// enclosing structs WITHOUT their own Validate: promotion
type c13PromEV struct {
	C13EmbV `mapstructure:"emb"`
	B       any `mapstructure:"b"`
}

type c13PromEP struct {
	C13EmbP `mapstructure:",squash"`
}

type c13PromPtrEV struct {
	*C13EmbV `mapstructure:"emb"`
}

// several levels
type C13Mid struct {
	C13EmbV `mapstructure:",squash"`
	PErr    int `mapstructure:"-"`
}

func (m *C13Mid) Validate() error { return c13E(m.PErr) }

type c13TopOwn struct {
	C13Mid `mapstructure:"mid"`
	TErr   int `mapstructure:"-"`
}

func (t c13TopOwn) Validate() error { return c13E(t.TErr) }

type c13TopProm struct { // promotes (*C13Mid).Validate, which shadows C13EmbV's
	C13Mid `mapstructure:"mid"`
}

type c13Gen struct {
	rnd  *rand.Rand
	next int
	b    strings.Builder
	nerr int
}

func (g *c13Gen) err() int {
	if g.rnd.IntN(3) == 0 {
		g.next++
		g.nerr++
		return g.next
	}
	return 0
}

func c13ErrTok(e int) string {
	if e == 0 {
		return "-"
	}
	return fmt.Sprint(e)
}

// anyOf generates a value to be stored in an interface position and writes its token (`P …` or `P Z`).
func (g *c13Gen) anyOf(depth int) any {
	g.b.WriteString("P ")
	if depth > 4 || g.rnd.IntN(7) == 0 {
		g.b.WriteString("Z ")
		return nil
	}
	return g.node(depth)
}

func (g *c13Gen) node(depth int) any {
	k := g.rnd.IntN(17)
	if depth > 3 {
		k = g.rnd.IntN(3)
	}
	if k >= 12 {
		return g.embedded(depth)
	}
	switch k {
	case 0:
		e := g.err()
		fmt.Fprintf(&g.b, "F%s ", c13ErrTok(e))
		return c13LeafV(e)
	case 1:
		e := g.err()
		fmt.Fprintf(&g.b, "F%s ", c13ErrTok(e))
		return c13LeafP(e) // not addressable inside an interface: callValidateIfPossible must copy it
	case 2:
		g.b.WriteString("F- ")
		return c13LeafN(g.rnd.IntN(5))
	case 3, 4:
		e := g.err()
		// fields in declaration order: Err(-) A B C Sq NoTag hidden
		fmt.Fprintf(&g.b, "T%s:7 ", c13ErrTok(e))
		s := c13StructV{Err: e}
		fmt.Fprintf(&g.b, "f:%s:e F- ", vHex("-"))
		fmt.Fprintf(&g.b, "f:%s:e ", vHex("a"))
		s.A = g.anyOf(depth + 1)
		fmt.Fprintf(&g.b, "f:%s:e ", vHex("b_key"))
		s.B = g.anyOf(depth + 1)
		fmt.Fprintf(&g.b, "f:%s:e ", vHex("c"))
		if g.rnd.IntN(3) == 0 {
			g.b.WriteString("Z ")
		} else {
			g.b.WriteString("P ")
			s.C = g.structP(depth + 1)
		}
		fmt.Fprintf(&g.b, "f:%s:e ", vHex("sq"))
		s.Sq = g.anyOf(depth + 1)
		fmt.Fprintf(&g.b, "f:%s:e ", vHex("notag"))
		s.NoTag = g.anyOf(depth + 1)
		fmt.Fprintf(&g.b, "f:%s:u ", vHex("hidden"))
		s.hidden = g.anyOf(depth + 1)
		return s
	case 5:
		g.b.WriteString("P ")
		return g.structP(depth)
	case 6:
		fmt.Fprintf(&g.b, "T-:2 f:%s:e ", vHex("a"))
		s := c13StructN{}
		s.A = g.anyOf(depth + 1)
		e := g.err()
		fmt.Fprintf(&g.b, "f:%s:e F%s ", vHex("v"), c13ErrTok(e))
		s.V = c13LeafV(e)
		return s
	case 7, 8:
		n := g.rnd.IntN(4)
		e := 0
		var sl c13SliceV
		if n > 0 && g.rnd.IntN(3) == 0 {
			g.next++
			g.nerr++
			e = g.next
		}
		fmt.Fprintf(&g.b, "Q%s:%d ", c13ErrTok(e), n)
		for i := 0; i < n; i++ {
			if i == 0 && e != 0 {
				g.b.WriteString("P F- ")
				sl = append(sl, c13LeafN(-e))
				continue
			}
			sl = append(sl, g.anyOf(depth+1))
		}
		if g.rnd.IntN(3) == 0 && e == 0 {
			return []any(sl) // plain slice, no Validate
		}
		if sl == nil {
			sl = c13SliceV{}
		}
		return sl
	case 9:
		fmt.Fprintf(&g.b, "Q-:2 ")
		var a [2]any
		a[0] = g.anyOf(depth + 1)
		a[1] = g.anyOf(depth + 1)
		return a
	case 10:
		n := g.rnd.IntN(3)
		e := 0
		if g.rnd.IntN(3) == 0 {
			g.next++
			g.nerr++
			e = g.next
		}
		m := c13MapV{}
		cnt := n
		if e != 0 {
			cnt++
		}
		fmt.Fprintf(&g.b, "M%s:%d ", c13ErrTok(e), cnt)
		for i := 0; i < n; i++ {
			k := fmt.Sprintf("k%d", i)
			fmt.Fprintf(&g.b, "k:%s F- ", vHex(k))
			m[k] = g.anyOf(depth + 1)
		}
		if e != 0 {
			fmt.Fprintf(&g.b, "k:%s F- P F- ", vHex("zerr"))
			m["zerr"] = c13LeafN(-e)
		}
		return m
	default:
		n := g.rnd.IntN(3)
		fmt.Fprintf(&g.b, "M-:%d ", n)
		m := c13KeyMap{}
		used := map[int]bool{}
		for i := 0; i < n; i++ {
			// the key itself has a Validate: key errors are reported under the stringified key
			ke := 0
			if g.rnd.IntN(2) == 0 {
				g.next++
				g.nerr++
				ke = g.next
			}
			if used[ke] {
				// same key twice is one map entry; emit a harmless distinct one instead
				g.next++
				g.nerr++
				ke = g.next
			}
			used[ke] = true
			fmt.Fprintf(&g.b, "k:%s F%s ", vHex(fmt.Sprint(ke)), c13ErrTok(ke))
			m[c13LeafV(ke)] = g.anyOf(depth + 1)
		}
		return m
	}
}

func (g *c13Gen) embV(depth int, e int) C13EmbV {
	fmt.Fprintf(&g.b, "T%s:2 f:%s:e F- f:%s:e ", c13ErrTok(e), vHex("-"), vHex("a"))
	return C13EmbV{Err: e, A: g.anyOf(depth + 1)}
}

func (g *c13Gen) embP(depth int, e int) C13EmbP {
	fmt.Fprintf(&g.b, "T%s:2 f:%s:e F- f:%s:e ", c13ErrTok(e), vHex("-"), vHex("a"))
	return C13EmbP{Err: e, A: g.anyOf(depth + 1)}
}

// embedded generates one of the enclosing-struct shapes; the value is returned by value or behind a pointer.
func (g *c13Gen) embedded(depth int) any {
	ptr := g.rnd.IntN(2) == 0
	if ptr {
		g.b.WriteString("P ")
	}
	switch g.rnd.IntN(9) {
	case 0:
		pe, e := g.err(), g.err()
		fmt.Fprintf(&g.b, "T%s:3 f:%s:e ", c13ErrTok(pe), vHex("emb"))
		v := c13OwnV_EV{PErr: pe}
		v.C13EmbV = g.embV(depth, e)
		fmt.Fprintf(&g.b, "f:%s:e F- f:%s:e ", vHex("-"), vHex("b"))
		v.B = g.anyOf(depth + 1)
		if ptr {
			return &v
		}
		return v
	case 1:
		pe, e := g.err(), g.err()
		fmt.Fprintf(&g.b, "T%s:3 f:%s:e ", c13ErrTok(pe), vHex("c13embp"))
		v := c13OwnP_EP{PErr: pe}
		v.C13EmbP = g.embP(depth, e)
		fmt.Fprintf(&g.b, "f:%s:e F- f:%s:e ", vHex("-"), vHex("b"))
		v.B = g.anyOf(depth + 1)
		if ptr {
			return &v
		}
		return v
	case 2:
		pe := g.err()
		fmt.Fprintf(&g.b, "T%s:2 f:%s:e ", c13ErrTok(pe), vHex("c13embv"))
		v := c13OwnV_PtrEV{PErr: pe}
		if g.rnd.IntN(4) == 0 {
			g.b.WriteString("Z ")
		} else {
			g.b.WriteString("P ")
			ev := g.embV(depth, g.err())
			v.C13EmbV = &ev
		}
		fmt.Fprintf(&g.b, "f:%s:e F- ", vHex("-"))
		if ptr {
			return &v
		}
		return v
	case 3:
		pe := g.err()
		fmt.Fprintf(&g.b, "T%s:3 f:%s:e ", c13ErrTok(pe), vHex("embp"))
		v := c13OwnP_PtrEP{PErr: pe}
		if g.rnd.IntN(4) == 0 {
			g.b.WriteString("Z ")
		} else {
			g.b.WriteString("P ")
			ev := g.embP(depth, g.err())
			v.C13EmbP = &ev
		}
		he := g.err()
		v.c13hiddenEmb = c13hiddenEmb{Err: he}
		fmt.Fprintf(&g.b, "f:%s:e F- f:%s:u T%s:1 f:%s:e F- ", vHex("-"), vHex("c13hiddenemb"), c13ErrTok(he), vHex("-"))
		if ptr {
			return &v
		}
		return v
	case 4: // promoted value-receiver Validate: reported at the parent and at the field
		e := g.err()
		fmt.Fprintf(&g.b, "T%s:2 f:%s:e ", c13ErrTok(e), vHex("emb"))
		v := c13PromEV{}
		v.C13EmbV = g.embV(depth, e)
		fmt.Fprintf(&g.b, "f:%s:e ", vHex("b"))
		v.B = g.anyOf(depth + 1)
		if ptr {
			return &v
		}
		return v
	case 5: // promoted pointer-receiver Validate (only *c13PromEP has it; the walk takes the address or copies)
		e := g.err()
		fmt.Fprintf(&g.b, "T%s:1 f:%s:e ", c13ErrTok(e), vHex("c13embp"))
		v := c13PromEP{}
		v.C13EmbP = g.embP(depth, e)
		if ptr {
			return &v
		}
		return v
	case 6: // promoted through an embedded pointer (never nil here: the promoted call would dereference it)
		e := g.err()
		fmt.Fprintf(&g.b, "T%s:1 f:%s:e P ", c13ErrTok(e), vHex("emb"))
		ev := g.embV(depth, e)
		v := c13PromPtrEV{&ev}
		if ptr {
			return &v
		}
		return v
	case 7: // three levels, every level with its own Validate
		te, me, e := g.err(), g.err(), g.err()
		fmt.Fprintf(&g.b, "T%s:2 f:%s:e T%s:2 f:%s:e ", c13ErrTok(te), vHex("mid"), c13ErrTok(me), vHex("c13embv"))
		v := c13TopOwn{TErr: te}
		v.C13Mid.PErr = me
		v.C13Mid.C13EmbV = g.embV(depth, e)
		fmt.Fprintf(&g.b, "f:%s:e F- f:%s:e F- ", vHex("-"), vHex("-"))
		if ptr {
			return &v
		}
		return v
	default: // the top promotes Mid's Validate (which shadows the innermost one)
		me, e := g.err(), g.err()
		fmt.Fprintf(&g.b, "T%s:1 f:%s:e T%s:2 f:%s:e ", c13ErrTok(me), vHex("mid"), c13ErrTok(me), vHex("c13embv"))
		v := c13TopProm{}
		v.C13Mid.PErr = me
		v.C13Mid.C13EmbV = g.embV(depth, e)
		fmt.Fprintf(&g.b, "f:%s:e F- ", vHex("-"))
		if ptr {
			return &v
		}
		return v
	}
}

func (g *c13Gen) structP(depth int) *c13StructP {
	e := g.err()
	fmt.Fprintf(&g.b, "T%s:4 ", c13ErrTok(e))
	s := &c13StructP{Err: e}
	fmt.Fprintf(&g.b, "f:%s:e F- ", vHex("-"))
	fmt.Fprintf(&g.b, "f:%s:e ", vHex("a"))
	s.A = g.anyOf(depth + 1)
	le := g.err()
	fmt.Fprintf(&g.b, "f:%s:e F%s ", vHex("l"), c13ErrTok(le))
	s.L = c13LeafP(le)
	fmt.Fprintf(&g.b, "f:%s:u ", vHex("hidden"))
	s.hidden = g.anyOf(depth + 1)
	return s
}

// TestVerifC13Walk: xconfmap.Validate on generated trees; the reported (path, error) set is compared
// with the Lean `validate`, and a direct oracle checks that every failing node that the generator
// planted below exported positions is reported (completeness) and nothing else (soundness).
var c13MultiMap = regexp.MustCompile(`M[^ :]*:([2-9]|[1-9][0-9]+) `)

func TestVerifC13Walk(t *testing.T) {
	out := vOpen(t)
	defer out.Close()
	out.Linef("model c13-walk 1")
	for _, c := range vCases(vN(2000)) {
		g := &c13Gen{rnd: vRand(c)}
		var root any
		if c%2 == 0 {
			g.b.WriteString("P ")
			root = g.structP(0)
		} else {
			root = g.node(0)
		}
		out.Linef("case %d", c)
		out.Linef("op walk : %s", strings.TrimSpace(g.b.String()))
		var err error
		func() {
			defer func() {
				if r := recover(); r != nil {
					err = fmt.Errorf("PANIC: %v", r)
				}
			}()
			err = Validate(root)
		}()
		var items []string
		if err != nil {
			for _, line := range strings.Split(err.Error(), "\n") {
				i := strings.LastIndex(line, "E")
				path := strings.TrimSuffix(line[:i], ": ")
				items = append(items, path+":"+line[i:])
			}
		}
		ordered := "-"
		if len(items) > 0 {
			ordered = strings.Join(items, ",")
		}
		sort.Strings(items)
		s := "-"
		if len(items) > 0 {
			s = strings.Join(items, ",")
		}
		out.Linef("obs errs %s", s)
		// the ORDER of the reported errors (own error first, then fields / elements in order) is compared too whenever the
		// tree has no map with two or more entries (Go map iteration order is the only source of nondeterminism in the walk)
		if !c13MultiMap.MatchString(g.b.String()) {
			out.Linef("obs order %s", ordered)
			out.Linef("stat order_compared 1")
		}
		if g.nerr > 0 && strings.Contains(g.b.String(), "Q") || strings.Contains(g.b.String(), "M") {
			out.Linef("nt")
		}
		out.Linef("stat planted_errors %d", g.nerr)
		out.Linef("stat reported_errors %d", len(items))
		out.Linef("end")
		out.Flush()
	}
}
