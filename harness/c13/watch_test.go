//go:build verif

package main

import (
	"context"
	"encoding/json"
	"fmt"
	"strings"
	"sync"
	"testing"
	"time"

	"go.opentelemetry.io/collector/component"
	"go.opentelemetry.io/collector/confmap"
	"go.opentelemetry.io/collector/confmap/provider/yamlprovider"
	"go.opentelemetry.io/collector/confmap/xconfmap"
	"go.opentelemetry.io/collector/extension"
	"go.opentelemetry.io/collector/otelcol"
)

// TestVerifC13Watch runs a REAL otelcol.Collector (otelcorecol's factories plus a ConfigWatcher test
// extension) on generated configurations and checks the hand-off of the effective configuration:
// what the extension receives in NotifyConfig equals confmap.Marshal of what ConfigProvider.Get loads
// from the same document, every written key is in it, and no written secret is.
// Only nop receivers/exporters are wired into pipelines (nothing binds a port); all other instances are
// configured but unused — they are still part of the effective configuration.

type c13WatchCfg struct{}

type c13WatchExt struct {
	mu    sync.Mutex
	name  string
	got   []map[string]any
	entry []string // canonical form of what was received, taken ON ENTRY (before this watcher edits its copy)
	done  chan struct{}
}

func (e *c13WatchExt) Start(context.Context, component.Host) error { return nil }
func (e *c13WatchExt) Shutdown(context.Context) error              { return nil }
func (e *c13WatchExt) NotifyConfig(_ context.Context, conf *confmap.Conf) error {
	e.mu.Lock()
	defer e.mu.Unlock()
	e.got = append(e.got, conf.ToStringMap())
	e.entry = append(e.entry, c13Canon(conf.ToStringMap()))
	// a watcher owns the configuration it is handed: this one annotates and overwrites its copy (what a redacting / labelling
	// extension does); no other watcher may see that
	_ = conf.Merge(confmap.NewFromStringMap(map[string]any{
		"verif_edited_by": e.name,
		"receivers":       map[string]any{"nop": map[string]any{"verif_edited_by": e.name}},
		"service":         map[string]any{"extensions": []any{"edited-by-" + e.name}},
	}))
	select {
	case <-e.done:
	default:
		close(e.done)
	}
	return nil
}

func c13Canon(v any) string {
	b, _ := json.Marshal(c13CanonV(v))
	return string(b)
}

// c13CanonV: named numeric / string types rendered like their kinds, so that a typed value and its
// reloaded twin compare equal
func c13CanonV(v any) any {
	switch x := v.(type) {
	case map[string]any:
		m := map[string]any{}
		for k, e := range x {
			m[k] = c13CanonV(e)
		}
		return m
	case []any:
		l := make([]any, len(x))
		for i, e := range x {
			l[i] = c13CanonV(e)
		}
		return l
	}
	return c13Norm(v)
}

func TestVerifC13Watch(t *testing.T) {
	out := vOpen(t)
	defer out.Close()
	out.Linef("model c13-watch 1")
	base, err := components()
	if err != nil {
		t.Fatal(err)
	}
	kinds, toggles, _, _ := c13Setup(t, base)
	for _, c := range vCases(vN(12)) {
		rnd := vRand(c)
		insts, nsec, _ := c13GenInsts(rnd, c, kinds, toggles)
		ext := &c13WatchExt{name: "verifwatcher", done: make(chan struct{})}
		// two more ConfigWatcher extensions of the same type: every one of them must be handed the configuration as written,
		// whatever the ones notified before it did to their copies; the listing order alternates with the case index
		extB := &c13WatchExt{name: "verifwatcher/b", done: make(chan struct{})}
		extC := &c13WatchExt{name: "verifwatcher/c", done: make(chan struct{})}
		watchers := map[string]*c13WatchExt{"verifwatcher": ext, "verifwatcher/b": extB, "verifwatcher/c": extC}
		watchType := component.MustNewType("verifwatcher")
		factories := func() (otelcol.Factories, error) {
			f, err := components()
			if err != nil {
				return f, err
			}
			f.Extensions[watchType] = extension.NewFactory(watchType, func() component.Config { return &c13WatchCfg{} },
				func(_ context.Context, set extension.Settings, _ component.Config) (extension.Extension, error) {
					if w := watchers[set.ID.String()]; w != nil {
						return w, nil
					}
					return ext, nil
				},
				component.StabilityLevelDevelopment)
			return f, nil
		}
		root := map[string]any{}
		for _, in := range insts {
			if in.section == "extensions" || (in.typ == "nop" && (in.section == "receivers" || in.section == "exporters")) {
				continue
			}
			// a running collector validates every configured instance: give each one what it requires, and
			// leave out the ones whose random numeric settings are invalid for their component
			has := func(prefix string) bool {
				for _, l := range in.leaves {
					if strings.HasPrefix(l.path, prefix) {
						return true
					}
				}
				return false
			}
			switch in.section + "/" + in.typ {
			case "exporters/otlphttp", "exporters/otlp":
				if !has("endpoint") {
					c13SetPath(in.written, "endpoint", "localhost:4317")
				}
			case "receivers/otlp":
				if !has("protocols") {
					c13SetPath(in.written, "protocols::grpc::endpoint", "localhost:4317")
				}
			case "processors/memory_limiter":
				if !has("check_interval") {
					c13SetPath(in.written, "check_interval", "1s")
				}
				if !has("limit_mib") && !has("limit_percentage") {
					c13SetPath(in.written, "limit_mib", 100)
				}
			}
			iso := c13Factory(base, in.section, in.typ).CreateDefaultConfig()
			if err := confmap.NewFromStringMap(in.written).Unmarshal(&iso); err != nil || xconfmap.Validate(iso) != nil {
				out.Linef("stat watcher_instances_left_out_invalid 1")
				continue
			}
			sec, _ := root[in.section].(map[string]any)
			if sec == nil {
				sec = map[string]any{}
				root[in.section] = sec
			}
			sec[in.id()] = in.written
		}
		put := func(section, id string, v any) {
			sec, _ := root[section].(map[string]any)
			if sec == nil {
				sec = map[string]any{}
				root[section] = sec
			}
			sec[id] = v
		}
		put("receivers", "nop", map[string]any{})
		put("exporters", "nop", map[string]any{})
		put("extensions", "verifwatcher", map[string]any{})
		put("extensions", "verifwatcher/b", map[string]any{})
		put("extensions", "verifwatcher/c", map[string]any{})
		order := []any{"verifwatcher", "verifwatcher/b", "verifwatcher/c"}
		if c%2 == 1 {
			order = []any{"verifwatcher/c", "verifwatcher/b", "verifwatcher"}
		}
		root["service"] = map[string]any{
			"extensions": order,
			"telemetry":  map[string]any{"metrics": map[string]any{"level": "none"}, "logs": map[string]any{"level": "error"}},
			"pipelines":  map[string]any{"traces": map[string]any{"receivers": []any{"nop"}, "exporters": []any{"nop"}}},
		}
		js, _ := json.Marshal(root)
		out.Linef("case %d instances=%d secrets=%d", c, len(insts), nsec)
		cps := otelcol.ConfigProviderSettings{ResolverSettings: confmap.ResolverSettings{
			URIs: []string{"yaml:" + string(js)}, ProviderFactories: []confmap.ProviderFactory{yamlprovider.NewFactory()}}}
		col, err := otelcol.NewCollector(otelcol.CollectorSettings{
			BuildInfo: component.BuildInfo{Command: "otelcorecol", Version: "verif"}, Factories: factories,
			ConfigProviderSettings: cps, DisableGracefulShutdown: true, SkipSettingGRPCLogger: true,
		})
		if err != nil {
			out.Linef("viol sig=C13/watch/collector-not-created err=%s", vHex(err.Error()))
			out.Linef("end")
			continue
		}
		runErr := make(chan error, 1)
		ctx, cancel := context.WithCancel(context.Background())
		go func() {
			defer func() {
				if r := recover(); r != nil {
					runErr <- fmt.Errorf("PANIC: %v", r)
				}
			}()
			runErr <- col.Run(ctx)
		}()
		var early error
		for _, w := range []*c13WatchExt{ext, extB, extC} {
			if early != nil {
				break
			}
			select {
			case <-w.done:
			case early = <-runErr:
			case <-time.After(20 * time.Second):
				early = fmt.Errorf("timeout waiting for NotifyConfig of %s", w.name)
			}
		}
		cancel()
		col.Shutdown()
		if early == nil {
			select {
			case <-runErr:
			case <-time.After(20 * time.Second):
				out.Linef("viol sig=C13/watch/collector-did-not-stop")
			}
		}
		if early != nil {
			out.Linef("viol sig=C13/watch/collector-did-not-deliver-config err=%s cfg=%s", vHex(early.Error()), vHex(string(js)))
			out.Linef("end")
			out.Flush()
			continue
		}
		ext.mu.Lock()
		got := ext.got[0]
		ext.mu.Unlock()
		// the same document through ConfigProvider.Get + confmap.Marshal
		fs, _ := factories()
		cp, err := otelcol.NewConfigProvider(cps)
		var want map[string]any
		if err == nil {
			var cfg *otelcol.Config
			if cfg, err = cp.Get(context.Background(), fs); err == nil {
				want, err = c13EffectiveOf(cfg)
			}
		}
		if err != nil {
			out.Linef("viol sig=C13/watch/reference-load-failed err=%s", vHex(err.Error()))
		} else if c13Canon(got) != c13Canon(want) {
			out.Linef("viol sig=C13/watch/handed-off-config-differs-from-marshal-of-loaded got=%s want=%s", vHex(c13Canon(got)), vHex(c13Canon(want)))
		}
		if err == nil {
			for _, w := range []*c13WatchExt{ext, extB, extC} {
				w.mu.Lock()
				entry := append([]string{}, w.entry...)
				w.mu.Unlock()
				if len(entry) == 0 {
					out.Linef("viol sig=C13/watch/watcher-not-notified watcher=%s", w.name)
					continue
				}
				if entry[0] != c13Canon(want) {
					who := "-"
					for _, o := range []string{"verifwatcher", "verifwatcher/b", "verifwatcher/c"} {
						if o != w.name && strings.Contains(entry[0], `"verif_edited_by":"`+o+`"`) {
							who = o
						}
					}
					out.Linef("viol sig=C13/effective/watcher-sees-anothers-edit watcher=%s edited_by=%s order=%v", w.name, who, order)
				}
				out.Linef("stat watchers_checked 1")
			}
		}
		gotFlat := map[string]any{}
		text := c13Canon(got) + fmt.Sprintf("%v", got)
		for _, in := range insts {
			sec, _ := got[in.section].(map[string]any)
			inst, _ := sec[in.id()].(map[string]any)
			rootSec, _ := root[in.section].(map[string]any)
			if _, configured := rootSec[in.id()]; !configured {
				continue
			}
			flat := map[string]any{}
			if inst != nil {
				c13Flatten(inst, "", flat)
			}
			for _, l := range in.leaves {
				g, ok := flat[l.path]
				switch {
				case l.null:
				case !ok && c13Omit[in.section+"/"+in.typ][l.path]:
					// dropped by `omitempty` (the exact zero test is made by the load harness on the typed configuration)
				case !ok:
					out.Linef("viol sig=C13/effective/written-key-not-reflected where=watcher id=%s/%s path=%s", in.section, in.id(), l.path)
				case l.secret:
					if s, isStr := g.(string); !isStr || s != "[REDACTED]" {
						out.Linef("viol sig=C13/effective/secret-in-effective-config where=watcher id=%s/%s path=%s", in.section, in.id(), l.path)
					}
				case l.enum && strings.EqualFold(c13Norm(g), c13Norm(l.want())):
				case c13Norm(g) != c13Norm(l.want()):
					out.Linef("viol sig=C13/effective/written-key-not-reflected where=watcher id=%s/%s path=%s wrote=%v got=%v", in.section, in.id(), l.path, l.v, g)
				}
				if l.secret && strings.Contains(text, l.v.(string)) {
					out.Linef("viol sig=C13/effective/secret-in-effective-config where=watcher id=%s/%s path=%s (secret text in the handed-off configuration)", in.section, in.id(), l.path)
				}
			}
			_ = gotFlat
		}
		out.Linef("obs delivered")
		out.Linef("nt")
		out.Linef("stat watcher_runs 1")
		out.Linef("stat watcher_secrets %d", nsec)
		out.Linef("end")
		out.Flush()
	}
}
