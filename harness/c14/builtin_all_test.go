//go:build verif

package main

import (
	"bytes"
	"context"
	"encoding/hex"
	"encoding/json"
	"fmt"
	"log/slog"
	"reflect"
	"sort"
	"strings"
	"testing"

	"go.uber.org/zap"
	"go.uber.org/zap/zapcore"
	yaml "sigs.k8s.io/yaml/goyaml.v3"

	"go.opentelemetry.io/collector/component"
	"go.opentelemetry.io/collector/component/componenttest"
	"go.opentelemetry.io/collector/config/configauth"
	"go.opentelemetry.io/collector/config/configgrpc"
	"go.opentelemetry.io/collector/config/confighttp"
	"go.opentelemetry.io/collector/config/configopaque"
	"go.opentelemetry.io/collector/config/configtls"
	"go.opentelemetry.io/collector/confmap"
)

// TestVerifC14BuiltinAll: the configuration type of EVERY factory of otelcorecol (receivers, exporters,
// processors, connectors, extensions), with a secret injected into every reachable opaque field and
// opaque-valued map (nil pointers to structs allocated), through every zap field encoder (JSON and
// console encoders), log/slog handlers, fmt's struct verbs, encoding/json, yaml and confmap.Marshal.
// Monitor only: `viol` on any occurrence of the secret.

// c14Inject sets every opaque string / opaque-valued map reachable through exported fields to a
// secret, allocating nil pointers to structs on the way. Returns how many were set.
func c14Inject(v reflect.Value, secret string, depth int, viaPtrField *bool) int {
	opq := reflect.TypeOf(configopaque.String(""))
	if depth > 8 {
		return 0
	}
	switch v.Kind() {
	case reflect.String:
		if v.Type() == opq && v.CanSet() {
			v.SetString(secret)
			return 1
		}
	case reflect.Map:
		if v.Type().Elem() == opq && v.Type().Key().Kind() == reflect.String && v.CanSet() {
			m := reflect.MakeMap(v.Type())
			m.SetMapIndex(reflect.ValueOf("x-token").Convert(v.Type().Key()), reflect.ValueOf(secret).Convert(opq))
			v.Set(m)
			return 1
		}
	case reflect.Pointer:
		if v.Type().Elem().Kind() == reflect.Struct && v.CanSet() {
			if v.IsNil() {
				v.Set(reflect.New(v.Type().Elem()))
			}
			n := c14Inject(v.Elem(), secret, depth+1, viaPtrField)
			if n > 0 && depth > 0 {
				*viaPtrField = true
			}
			return n
		}
		if !v.IsNil() {
			return c14Inject(v.Elem(), secret, depth+1, viaPtrField)
		}
	case reflect.Struct:
		n := 0
		for i := 0; i < v.NumField(); i++ {
			if v.Type().Field(i).IsExported() {
				n += c14Inject(v.Field(i), secret, depth+1, viaPtrField)
			}
		}
		return n
	}
	return 0
}

func TestVerifC14BuiltinAll(t *testing.T) {
	out := vOpen(t)
	defer out.Close()
	out.Linef("model c14-builtin-all 1")
	f, err := components()
	if err != nil {
		t.Fatal(err)
	}
	type ent struct {
		name string
		cfg  component.Config
	}
	var all []ent
	for ty, x := range f.Receivers {
		all = append(all, ent{"receivers/" + ty.String(), x.CreateDefaultConfig()})
	}
	for ty, x := range f.Exporters {
		all = append(all, ent{"exporters/" + ty.String(), x.CreateDefaultConfig()})
	}
	for ty, x := range f.Processors {
		all = append(all, ent{"processors/" + ty.String(), x.CreateDefaultConfig()})
	}
	for ty, x := range f.Connectors {
		all = append(all, ent{"connectors/" + ty.String(), x.CreateDefaultConfig()})
	}
	for ty, x := range f.Extensions {
		all = append(all, ent{"extensions/" + ty.String(), x.CreateDefaultConfig()})
	}
	sort.Slice(all, func(i, j int) bool { return all[i].name < all[j].name })
	const secret = "Qs3cr3t-builtin-all-Zx"
	has := func(s string) bool { return strings.Contains(s, "s3cr3t-builtin-all") }
	for c, e := range all {
		out.Linef("case %d builtin=%s type=%T", c, e.name, e.cfg)
		viaPtr := false
		n := c14Inject(reflect.ValueOf(e.cfg), secret, 0, &viaPtr)
		out.Linef("stat opaque_fields_set %d", n)
		report := func(path string) {
			out.Linef("viol sig=C14/builtin/%s-raw builtin=%s", path, e.name)
		}
		safe := func(path string, f func() string) {
			defer func() {
				if r := recover(); r != nil {
					out.Linef("stat renderer_panicked 1")
				}
			}()
			if has(f()) {
				report(path)
			}
		}
		fields := map[string]func() zap.Field{
			"zap.Any":      func() zap.Field { return zap.Any("cfg", e.cfg) },
			"zap.Reflect":  func() zap.Field { return zap.Reflect("cfg", e.cfg) },
			"zap.Stringer": func() zap.Field { return zap.Stringer("cfg", c14AllStringer{e.cfg}) },
			"zap.Inline":   func() zap.Field { return zap.Any("cfg", []any{e.cfg, map[string]any{"c": e.cfg}}) },
		}
		for name, mk := range fields {
			for encName, enc := range map[string]zapcore.Encoder{
				"json":    zapcore.NewJSONEncoder(zapcore.EncoderConfig{MessageKey: "m"}),
				"console": zapcore.NewConsoleEncoder(zapcore.EncoderConfig{MessageKey: "m"}),
			} {
				safe(name+"/"+encName, func() string {
					buf, err := enc.EncodeEntry(zapcore.Entry{Message: "x"}, []zap.Field{mk()})
					if err != nil {
						return ""
					}
					return buf.String()
				})
			}
		}
		for _, js := range []bool{false, true} {
			safe(fmt.Sprintf("slog/json=%v", js), func() string {
				var bb bytes.Buffer
				var h slog.Handler = slog.NewTextHandler(&bb, nil)
				if js {
					h = slog.NewJSONHandler(&bb, nil)
				}
				slog.New(h).Info("x", "cfg", e.cfg, slog.Any("c2", e.cfg))
				return bb.String()
			})
		}
		for _, verb := range []string{"%v", "%+v", "%#v"} {
			safe("fmt/"+verb, func() string { return fmt.Sprintf(verb, e.cfg) })
		}
		safe("json", func() string { b, _ := json.Marshal(e.cfg); return string(b) })
		safe("yaml", func() string { b, _ := yaml.Marshal(e.cfg); return string(b) })
		safe("confmap.Marshal", func() string {
			conf := confmap.New()
			if err := conf.Marshal(e.cfg); err != nil {
				return ""
			}
			m := conf.ToStringMap()
			y, _ := yaml.Marshal(m)
			return string(y) + fmt.Sprintf("%v", m)
		})
		if n > 0 {
			out.Linef("nt")
		}
		out.Linef("end")
		out.Flush()
	}
	// type-level probe and use-then-render monitor
	out.Linef("case %d type-probe", len(all))
	roots := []reflect.Type{}
	for _, e := range all {
		roots = append(roots, reflect.TypeOf(e.cfg))
	}
	roots = append(roots, reflect.TypeOf(configgrpc.ClientConfig{}), reflect.TypeOf(configgrpc.ServerConfig{}), reflect.TypeOf(configgrpc.KeepaliveClientConfig{}),
		reflect.TypeOf(confighttp.ClientConfig{}), reflect.TypeOf(confighttp.ServerConfig{}), reflect.TypeOf(confighttp.CORSConfig{}),
		reflect.TypeOf(configtls.Config{}), reflect.TypeOf(configtls.ClientConfig{}), reflect.TypeOf(configtls.ServerConfig{}), reflect.TypeOf(configauth.Authentication{}))
	c14TypeProbe(out, roots)
	out.Linef("nt")
	out.Linef("end")
	out.Linef("case %d use-then-render", len(all)+1)
	c14UseThenRender(out, len(all)+1)
	out.Linef("nt")
	out.Linef("end")
	out.Flush()
}

// ---- (1) TYPE level: an opaque type behind an unexported field ------------------------------------------------
// fmt does not consult Format/String/GoString on values it reaches through an unexported struct field (they cannot be
// interfaced): whatever such a field holds is printed from its kind. A configuration type that keeps an opaque string
// (directly or inside a slice/map/struct/pointer) behind an unexported field therefore prints it raw under every verb.

var c14OpaqueType = reflect.TypeOf(configopaque.String(""))

func c14TypeProbe(out *vOut, roots []reflect.Type) {
	type key struct {
		t     reflect.Type
		under bool
	}
	reported := map[string]bool{}
	for _, root := range roots {
		seen := map[key]bool{}
		var walk func(t reflect.Type, path string, unexp string, depth int)
		walk = func(t reflect.Type, path string, unexp string, depth int) {
			if depth > 14 || seen[key{t, unexp != ""}] {
				return
			}
			seen[key{t, unexp != ""}] = true
			if t == c14OpaqueType {
				if unexp != "" {
					sig := fmt.Sprintf("%s.%s", root.String(), unexp)
					if !reported[sig] {
						reported[sig] = true
						out.Linef("viol sig=C14/builtin/opaque-type-behind-unexported-field/%s reached=%s", sig, path)
					}
				}
				return
			}
			switch t.Kind() {
			case reflect.Pointer, reflect.Slice, reflect.Array:
				walk(t.Elem(), path+"[]", unexp, depth+1)
			case reflect.Map:
				walk(t.Key(), path+"{key}", unexp, depth+1)
				walk(t.Elem(), path+"{}", unexp, depth+1)
			case reflect.Struct:
				for i := 0; i < t.NumField(); i++ {
					f := t.Field(i)
					u := unexp
					if u == "" && !f.IsExported() {
						u = strings.TrimPrefix(path+"."+f.Name, ".")
					}
					walk(f.Type, path+"."+f.Name, u, depth+1)
				}
			}
		}
		rt := root
		for rt.Kind() == reflect.Pointer {
			rt = rt.Elem()
		}
		walk(rt, "", "", 0)
	}
	out.Linef("stat type_probe_roots %d", len(roots))
}

// ---- (2) USE then render -----------------------------------------------------------------------------------
// the client / server configuration structs after their "use" methods have run (dial options, servers, TLS configs):
// whatever those methods cached inside the struct must not show under fmt or the marshalling paths.

func c14InjectMaps(v reflect.Value, secret string, depth int) int {
	if depth > 8 || !v.IsValid() {
		return 0
	}
	switch v.Kind() {
	case reflect.Pointer:
		if !v.IsNil() {
			return c14InjectMaps(v.Elem(), secret, depth+1)
		}
	case reflect.Struct:
		n := 0
		for i := 0; i < v.NumField(); i++ {
			if v.Type().Field(i).IsExported() {
				n += c14InjectMaps(v.Field(i), secret, depth+1)
			}
		}
		return n
	case reflect.Map:
		if v.Type().Elem() == c14OpaqueType && v.Type().Key().Kind() == reflect.String && v.CanSet() {
			m := reflect.MakeMap(v.Type())
			m.SetMapIndex(reflect.ValueOf("Authorization").Convert(v.Type().Key()), reflect.ValueOf("Bearer "+secret).Convert(c14OpaqueType))
			v.Set(m)
			return 1
		}
	}
	return 0
}

// c14FindRaw: where (incl. unexported fields) a string containing the secret sits inside the value.
func c14FindRaw(v reflect.Value, secret, path string, depth int, found *[]string) {
	if depth > 10 || !v.IsValid() {
		return
	}
	switch v.Kind() {
	case reflect.String:
		if strings.Contains(v.String(), secret) {
			*found = append(*found, path)
		}
	case reflect.Pointer, reflect.Interface:
		if !v.IsNil() {
			c14FindRaw(v.Elem(), secret, path, depth+1, found)
		}
	case reflect.Struct:
		for i := 0; i < v.NumField(); i++ {
			c14FindRaw(v.Field(i), secret, path+"."+v.Type().Field(i).Name, depth+1, found)
		}
	case reflect.Slice, reflect.Array:
		for i := 0; i < v.Len() && i < 8; i++ {
			c14FindRaw(v.Index(i), secret, path+"[]", depth+1, found)
		}
	case reflect.Map:
		for _, k := range v.MapKeys() {
			c14FindRaw(v.MapIndex(k), secret, path+"{}", depth+1, found)
		}
	}
}

func c14UseThenRender(out *vOut, seedCase int) {
	rnd := vRand(seedCase)
	secret := fmt.Sprintf("Us3dS3cr3t%dZq", rnd.IntN(1000000))
	host := componenttest.NewNopHost()
	tel := componenttest.NewNopTelemetrySettings()
	ctx := context.Background()
	quiet := func(f func()) {
		defer func() { _ = recover() }()
		f()
	}
	type subject struct {
		name string
		cfg  any // pointer to the struct
		use  func()
	}
	gc := configgrpc.NewDefaultClientConfig()
	gc.Endpoint = "localhost:1"
	gc.TLSSetting = configtls.ClientConfig{Insecure: true}
	gs := configgrpc.NewDefaultServerConfig()
	gs.NetAddr.Endpoint = "localhost:0"
	hc := confighttp.NewDefaultClientConfig()
	hc.Endpoint = "http://localhost:1"
	hs := confighttp.NewDefaultServerConfig()
	hs.Endpoint = "localhost:0"
	tc := configtls.NewDefaultClientConfig()
	ts := configtls.NewDefaultServerConfig()
	au := &configauth.Authentication{}
	subjects := []subject{
		{"configgrpc.ClientConfig", gc, func() {
			if conn, err := gc.ToClientConn(ctx, host, tel); err == nil {
				_ = conn.Close()
			}
		}},
		{"configgrpc.ServerConfig", gs, func() {
			if srv, err := gs.ToServer(ctx, host, tel); err == nil {
				srv.Stop()
			}
		}},
		{"confighttp.ClientConfig", &hc, func() { _, _ = hc.ToClient(ctx, host, tel) }},
		{"confighttp.ServerConfig", &hs, func() {
			_, _ = hs.ToServer(ctx, host, tel, nil)
			if l, err := hs.ToListener(ctx); err == nil {
				_ = l.Close()
			}
		}},
		{"configtls.ClientConfig", &tc, func() { _, _ = tc.LoadTLSConfig(ctx) }},
		{"configtls.ServerConfig", &ts, func() { _, _ = ts.LoadTLSConfig(ctx) }},
		{"configauth.Authentication", au, func() {}},
	}
	verbs := []string{"%v", "%+v", "%#v", "%s", "%q", "%x", "%X", "%d"}
	for _, sj := range subjects {
		n := c14InjectMaps(reflect.ValueOf(sj.cfg), secret, 0)
		quiet(sj.use)
		quiet(sj.use) // twice: caches are filled on first use and read on the next
		leaks := map[string]bool{}
		visible := func(r string) bool {
			return strings.Contains(r, secret) || strings.Contains(r, hex.EncodeToString([]byte(secret))) || strings.Contains(r, strings.ToUpper(hex.EncodeToString([]byte(secret))))
		}
		deref := reflect.ValueOf(sj.cfg).Elem().Interface()
		for _, operand := range []any{sj.cfg, deref} {
			for _, verb := range verbs {
				quiet(func() {
					if visible(fmt.Sprintf(verb, operand)) {
						leaks["fmt"+verb] = true
					}
				})
			}
			quiet(func() {
				if visible(fmt.Sprint(operand)) || visible(fmt.Errorf("config: %v", operand).Error()) {
					leaks["fmt.Sprint"] = true
				}
			})
			quiet(func() {
				if b, err := json.Marshal(operand); err == nil && visible(string(b)) {
					leaks["json"] = true
				}
			})
			quiet(func() {
				if b, err := yaml.Marshal(operand); err == nil && visible(string(b)) {
					leaks["yaml"] = true
				}
			})
			quiet(func() {
				conf := confmap.New()
				if conf.Marshal(operand) == nil {
					m := conf.ToStringMap()
					y, _ := yaml.Marshal(m)
					if visible(string(y)) || visible(fmt.Sprintf("%v", m)) {
						leaks["confmap.Marshal"] = true
					}
				}
			})
		}
		if len(leaks) > 0 {
			var where []string
			c14FindRaw(reflect.ValueOf(sj.cfg), secret, "", 0, &where)
			// exported opaque positions hold the secret by design: keep the positions that are NOT of the opaque type's own field
			var hidden []string
			for _, w := range where {
				segs := strings.Split(strings.TrimPrefix(w, "."), ".")
				for _, sg := range segs {
					name := strings.TrimRight(sg, "[]{}")
					if name != "" && name[0] >= 'a' && name[0] <= 'z' {
						hidden = append(hidden, strings.TrimPrefix(w, "."))
						break
					}
				}
			}
			path := "unknown-position"
			if len(hidden) > 0 {
				sort.Strings(hidden)
				path = hidden[0]
			}
			var via []string
			for k := range leaks {
				via = append(via, k)
			}
			sort.Strings(via)
			out.Linef("viol sig=C14/builtin/secret-visible-after-use/%s/%s via=%s", sj.name, path, strings.Join(via, ","))
		}
		out.Linef("stat use_then_render_subjects 1")
		out.Linef("stat use_then_render_opaque_maps_set %d", n)
	}
}

type c14AllStringer struct{ v any }

func (s c14AllStringer) String() string { return fmt.Sprintf("%+v", s.v) }

var _ = configopaque.String("")
