//go:build verif

package main

import (
	"bytes"
	"context"
	"encoding/hex"
	"encoding/json"
	"fmt"
	"io"
	"log/slog"
	"net"
	"net/http"
	"os"
	"reflect"
	"sort"
	"strings"
	"testing"
	"time"

	"go.uber.org/zap"
	"go.uber.org/zap/zapcore"
	"go.uber.org/zap/zaptest/observer"
	"google.golang.org/grpc"
	"google.golang.org/grpc/codes"
	"google.golang.org/grpc/metadata"
	"google.golang.org/grpc/status"
	"google.golang.org/protobuf/types/known/emptypb"
	yaml "sigs.k8s.io/yaml/goyaml.v3"

	"go.opentelemetry.io/collector/component"
	"go.opentelemetry.io/collector/component/componenttest"
	"go.opentelemetry.io/collector/config/configauth"
	"go.opentelemetry.io/collector/config/configgrpc"
	"go.opentelemetry.io/collector/config/confighttp"
	"go.opentelemetry.io/collector/config/configopaque"
	"go.opentelemetry.io/collector/config/configtls"
	"go.opentelemetry.io/collector/confmap"
	"go.opentelemetry.io/collector/extension/extensiontest"
	"go.opentelemetry.io/collector/service/telemetry"
)

// TestVerifC14BuiltinAll: the configuration type of EVERY factory of otelcorecol (receivers, exporters,
// processors, connectors, extensions), with a secret injected into every reachable opaque field and
// opaque-valued map (nil pointers to structs allocated), through every zap field encoder (JSON and
// console encoders), log/slog handlers, fmt's struct verbs, encoding/json, yaml and confmap.Marshal.
// Monitor only: `viol` on any occurrence of the secret.

// c14Inject sets every opaque string / opaque-valued map reachable through exported fields to a
// secret, allocating nil pointers to structs on the way. Returns how many were set.
func c14Inject(v reflect.Value, secret string, depth int, viaPtrField *bool) int {
	opq := reflect.TypeOf(configopaque.String(""))
	if depth > 8 {
		return 0
	}
	switch v.Kind() {
	case reflect.String:
		if v.Type() == opq && v.CanSet() {
			v.SetString(secret)
			return 1
		}
	case reflect.Map:
		if v.Type().Elem() == opq && v.Type().Key().Kind() == reflect.String && v.CanSet() {
			m := reflect.MakeMap(v.Type())
			m.SetMapIndex(reflect.ValueOf("x-token").Convert(v.Type().Key()), reflect.ValueOf(secret).Convert(opq))
			v.Set(m)
			return 1
		}
	case reflect.Pointer:
		if v.Type().Elem().Kind() == reflect.Struct && v.CanSet() {
			if v.IsNil() {
				v.Set(reflect.New(v.Type().Elem()))
			}
			n := c14Inject(v.Elem(), secret, depth+1, viaPtrField)
			if n > 0 && depth > 0 {
				*viaPtrField = true
			}
			return n
		}
		if !v.IsNil() {
			return c14Inject(v.Elem(), secret, depth+1, viaPtrField)
		}
	case reflect.Struct:
		n := 0
		for i := 0; i < v.NumField(); i++ {
			if v.Type().Field(i).IsExported() {
				n += c14Inject(v.Field(i), secret, depth+1, viaPtrField)
			}
		}
		return n
	}
	return 0
}

func TestVerifC14BuiltinAll(t *testing.T) {
	out := vOpen(t)
	defer out.Close()
	out.Linef("model c14-builtin-all 1")
	f, err := components()
	if err != nil {
		t.Fatal(err)
	}
	type ent struct {
		name string
		cfg  component.Config
	}
	var all []ent
	for ty, x := range f.Receivers {
		all = append(all, ent{"receivers/" + ty.String(), x.CreateDefaultConfig()})
	}
	for ty, x := range f.Exporters {
		all = append(all, ent{"exporters/" + ty.String(), x.CreateDefaultConfig()})
	}
	for ty, x := range f.Processors {
		all = append(all, ent{"processors/" + ty.String(), x.CreateDefaultConfig()})
	}
	for ty, x := range f.Connectors {
		all = append(all, ent{"connectors/" + ty.String(), x.CreateDefaultConfig()})
	}
	for ty, x := range f.Extensions {
		all = append(all, ent{"extensions/" + ty.String(), x.CreateDefaultConfig()})
	}
	sort.Slice(all, func(i, j int) bool { return all[i].name < all[j].name })
	const secret = "Qs3cr3t-builtin-all-Zx"
	has := func(s string) bool { return strings.Contains(s, "s3cr3t-builtin-all") }
	for c, e := range all {
		out.Linef("case %d builtin=%s type=%T", c, e.name, e.cfg)
		viaPtr := false
		n := c14Inject(reflect.ValueOf(e.cfg), secret, 0, &viaPtr)
		out.Linef("stat opaque_fields_set %d", n)
		report := func(path string) {
			out.Linef("viol sig=C14/builtin/%s-raw builtin=%s", path, e.name)
		}
		safe := func(path string, f func() string) {
			defer func() {
				if r := recover(); r != nil {
					out.Linef("stat renderer_panicked 1")
				}
			}()
			if has(f()) {
				report(path)
			}
		}
		fields := map[string]func() zap.Field{
			"zap.Any":      func() zap.Field { return zap.Any("cfg", e.cfg) },
			"zap.Reflect":  func() zap.Field { return zap.Reflect("cfg", e.cfg) },
			"zap.Stringer": func() zap.Field { return zap.Stringer("cfg", c14AllStringer{e.cfg}) },
			"zap.Inline":   func() zap.Field { return zap.Any("cfg", []any{e.cfg, map[string]any{"c": e.cfg}}) },
		}
		for name, mk := range fields {
			for encName, enc := range map[string]zapcore.Encoder{
				"json":    zapcore.NewJSONEncoder(zapcore.EncoderConfig{MessageKey: "m"}),
				"console": zapcore.NewConsoleEncoder(zapcore.EncoderConfig{MessageKey: "m"}),
			} {
				safe(name+"/"+encName, func() string {
					buf, err := enc.EncodeEntry(zapcore.Entry{Message: "x"}, []zap.Field{mk()})
					if err != nil {
						return ""
					}
					return buf.String()
				})
			}
		}
		for _, js := range []bool{false, true} {
			safe(fmt.Sprintf("slog/json=%v", js), func() string {
				var bb bytes.Buffer
				var h slog.Handler = slog.NewTextHandler(&bb, nil)
				if js {
					h = slog.NewJSONHandler(&bb, nil)
				}
				slog.New(h).Info("x", "cfg", e.cfg, slog.Any("c2", e.cfg))
				return bb.String()
			})
		}
		for _, verb := range []string{"%v", "%+v", "%#v"} {
			safe("fmt/"+verb, func() string { return fmt.Sprintf(verb, e.cfg) })
		}
		safe("json", func() string { b, _ := json.Marshal(e.cfg); return string(b) })
		safe("yaml", func() string { b, _ := yaml.Marshal(e.cfg); return string(b) })
		safe("confmap.Marshal", func() string {
			conf := confmap.New()
			if err := conf.Marshal(e.cfg); err != nil {
				return ""
			}
			m := conf.ToStringMap()
			y, _ := yaml.Marshal(m)
			return string(y) + fmt.Sprintf("%v", m)
		})
		c14FmtOnModel(out, e.cfg)
		if n > 0 {
			out.Linef("nt")
		}
		out.Linef("end")
		out.Flush()
	}
	// type-level probe and use-then-render monitor
	out.Linef("case %d type-probe", len(all))
	roots := []reflect.Type{}
	for _, e := range all {
		roots = append(roots, reflect.TypeOf(e.cfg))
	}
	roots = append(roots, reflect.TypeOf(configgrpc.ClientConfig{}), reflect.TypeOf(configgrpc.ServerConfig{}), reflect.TypeOf(configgrpc.KeepaliveClientConfig{}),
		reflect.TypeOf(confighttp.ClientConfig{}), reflect.TypeOf(confighttp.ServerConfig{}), reflect.TypeOf(confighttp.CORSConfig{}),
		reflect.TypeOf(configtls.Config{}), reflect.TypeOf(configtls.ClientConfig{}), reflect.TypeOf(configtls.ServerConfig{}), reflect.TypeOf(configauth.Authentication{}))
	c14TypeProbe(out, roots)
	out.Linef("nt")
	out.Linef("end")
	out.Linef("case %d use-then-render", len(all)+1)
	c14UseThenRender(out, len(all)+1)
	out.Linef("nt")
	out.Linef("end")
	out.Linef("case %d census", len(all)+2)
	c14Census(out, roots)
	out.Linef("nt")
	out.Linef("end")
	out.Linef("case %d use-live", len(all)+3)
	c14UseLive(out, len(all)+3)
	out.Linef("nt")
	out.Linef("end")
	out.Flush()
}

// ---- (0) the REAL configuration value against the fmt model ------------------------------------------------------
// The configuration (secrets injected, nil pointers allocated by c14Inject) is reflected into the operand-tree notation of
// the fmt driver; every opaque leaf is refilled IN PLACE for two secret environments (same objects: printed addresses stay
// equal) and rendered with verbs valid and invalid for pointers, as pointer and as value. `obs dep` = did the text change;
// the driver answers with the model `pa` on the same tree (exact diff) and files a dependence by the class of the tree.

var c14FmtIfaces = []reflect.Type{
	reflect.TypeOf((*fmt.Formatter)(nil)).Elem(), reflect.TypeOf((*fmt.Stringer)(nil)).Elem(),
	reflect.TypeOf((*error)(nil)).Elem(), reflect.TypeOf((*fmt.GoStringer)(nil)).Elem(),
}

func c14TypeHasOpaque(t reflect.Type, seen map[reflect.Type]bool) bool {
	if t == c14OpaqueType {
		return true
	}
	if seen[t] {
		return false
	}
	seen[t] = true
	switch t.Kind() {
	case reflect.Pointer, reflect.Slice, reflect.Array:
		return c14TypeHasOpaque(t.Elem(), seen)
	case reflect.Map:
		return c14TypeHasOpaque(t.Key(), seen) || c14TypeHasOpaque(t.Elem(), seen)
	case reflect.Struct:
		for i := 0; i < t.NumField(); i++ {
			if c14TypeHasOpaque(t.Field(i).Type, seen) {
				return true
			}
		}
	}
	return false
}

type c14TreeSt struct {
	toks    []string
	setters []func(string)
	odd     map[string]int
}

func (st *c14TreeSt) walk(v reflect.Value, depth int) {
	emit := func(f string, a ...any) { st.toks = append(st.toks, fmt.Sprintf(f, a...)) }
	if !v.IsValid() || depth > 40 {
		emit("Z")
		return
	}
	t := v.Type()
	if t == c14OpaqueType {
		if !v.CanSet() {
			st.odd["opaque_leaf_not_settable"]++
			emit("N0")
			return
		}
		i := len(st.setters)
		st.setters = append(st.setters, func(s string) { v.SetString(s) })
		emit("O%d", i)
		return
	}
	// a type with its own fmt methods is printed by them: no descent (it must not hold an opaque value)
	for _, it := range c14FmtIfaces {
		if t.Implements(it) || (t.Kind() != reflect.Pointer && reflect.PointerTo(t).Implements(it)) {
			if c14TypeHasOpaque(t, map[reflect.Type]bool{}) {
				st.odd["fmt_method_type_holding_opaque"]++
			}
			emit("N0")
			return
		}
	}
	switch t.Kind() {
	case reflect.Pointer:
		if v.IsNil() {
			emit("Z")
			return
		}
		emit("P")
		st.walk(v.Elem(), depth+1)
	case reflect.Interface:
		if v.IsNil() {
			emit("Z")
			return
		}
		emit("I")
		st.walk(v.Elem(), depth+1)
	case reflect.Slice:
		if v.IsNil() {
			emit("l")
			return
		}
		emit("L%d", v.Len())
		for i := 0; i < v.Len(); i++ {
			st.walk(v.Index(i), depth+1)
		}
	case reflect.Array:
		emit("A%d", v.Len())
		for i := 0; i < v.Len(); i++ {
			st.walk(v.Index(i), depth+1)
		}
	case reflect.Map:
		if v.IsNil() {
			emit("m")
			return
		}
		keys := v.MapKeys()
		sort.Slice(keys, func(i, j int) bool { return fmt.Sprint(keys[i]) < fmt.Sprint(keys[j]) })
		emit("M%d", len(keys))
		for _, k := range keys {
			if k.Type() == c14OpaqueType {
				st.odd["opaque_map_key"]++
			}
			st.walk(k, depth+1)
			if t.Elem() == c14OpaqueType {
				i := len(st.setters)
				m, kk := v, k
				st.setters = append(st.setters, func(s string) { m.SetMapIndex(kk, reflect.ValueOf(configopaque.String(s))) })
				emit("O%d", i)
			} else {
				if c14TypeHasOpaque(t.Elem(), map[reflect.Type]bool{}) {
					st.odd["opaque_below_map_value_not_refillable"]++
				}
				st.walk(v.MapIndex(k), depth+1)
			}
		}
	case reflect.Struct:
		emit("T%d", t.NumField())
		for i := 0; i < t.NumField(); i++ {
			f := t.Field(i)
			parts := strings.Split(f.Tag.Get("mapstructure"), ",")
			name := parts[0]
			if name == "" {
				name = strings.ToLower(f.Name)
			}
			ex, om, sq := "u", "-", "-"
			if f.IsExported() {
				ex = "e"
			}
			for _, o := range parts[1:] {
				if o == "omitempty" {
					om = "o"
				}
				if o == "squash" || o == "remain" {
					sq = "q"
				}
			}
			emit("f:%s:%s:%s:%s", vHex(name), ex, om, sq)
			st.walk(v.Field(i), depth+1)
		}
	default:
		emit("N0")
	}
}

func c14FmtOnModel(out *vOut, cfg any) {
	st := &c14TreeSt{odd: map[string]int{}}
	root := reflect.ValueOf(cfg)
	st.walk(root, 0)
	for k, n := range st.odd {
		out.Linef("stat tree_%s %d", k, n)
	}
	out.Linef("stat tree_opaque_leaves %d", len(st.setters))
	if root.Kind() != reflect.Pointer || len(st.toks) == 0 || st.toks[0] != "P" {
		out.Linef("stat tree_root_not_pointer 1")
		return
	}
	fill := func(env string) {
		for i, set := range st.setters {
			set(fmt.Sprintf("%s%d-s3cr3t-builtin-all", env, i))
		}
	}
	type vb struct {
		format string
		verb   rune
		sharp  int
	}
	verbs := []vb{{"%v", 'v', 0}, {"%+v", 'v', 0}, {"%#v", 'v', 1}, {"%d", 'd', 0}, {"%x", 'x', 0}, {"%s", 's', 0}, {"%q", 'q', 0}, {"%t", 't', 0}}
	for _, asValue := range []bool{false, true} {
		toks := st.toks
		if asValue {
			toks = toks[1:]
		}
		for _, v := range verbs {
			render := func(env string) (s string) {
				defer func() {
					if r := recover(); r != nil {
						s = "panic"
					}
				}()
				fill(env)
				var operand any = cfg
				if asValue {
					operand = root.Elem().Interface()
				}
				return fmt.Sprintf(v.format, operand)
			}
			a, b := render("Qa"), render("Wb")
			out.Linef("op fmt td=real verb=%d sharp=%d prec0=0 werr=0 : %s", v.verb, v.sharp, strings.Join(toks, " "))
			out.Linef("obs calls=? dep=%d", vB(a != b))
			out.Linef("stat builtin_fmt_on_model 1")
		}
	}
	fill("Q")
}

// ---- (3) CENSUS: the opaque-typed fields reflection finds in the built-in configuration types against the regenerated
// go/ast census (Gen/OpaqueCensus.lean). `op cfield` names a field; the driver answers shape / key / exported / omitempty
// from the census (exact diff), flags a field the census does not have or whose shape is not safe (`prop census`), and at
// `census-done` lists the exported census fields this walk never reached.

func c14Shape(t reflect.Type) string {
	if t == c14OpaqueType {
		return "O"
	}
	switch t.Kind() {
	case reflect.Pointer:
		return "P" + c14Shape(t.Elem())
	case reflect.Slice:
		return "L" + c14Shape(t.Elem())
	case reflect.Array:
		return "A" + c14Shape(t.Elem())
	case reflect.Map:
		return "M" + c14Shape(t.Key()) + c14Shape(t.Elem())
	}
	return "x"
}

func c14Census(out *vOut, roots []reflect.Type) {
	const mod = "go.opentelemetry.io/collector/"
	seen := map[reflect.Type]bool{}
	type ent struct{ op, obs string }
	found := map[string]ent{}
	var walk func(t reflect.Type, depth int)
	walk = func(t reflect.Type, depth int) {
		if depth > 16 || seen[t] {
			return
		}
		seen[t] = true
		switch t.Kind() {
		case reflect.Pointer, reflect.Slice, reflect.Array:
			walk(t.Elem(), depth+1)
		case reflect.Map:
			walk(t.Key(), depth+1)
			walk(t.Elem(), depth+1)
		case reflect.Struct:
			for i := 0; i < t.NumField(); i++ {
				f := t.Field(i)
				if sh := c14Shape(f.Type); strings.Contains(sh, "O") {
					if t.Name() == "" || !strings.HasPrefix(t.PkgPath(), mod) {
						out.Linef("stat census_anonymous_or_foreign_owner 1")
					} else {
						parts := strings.Split(f.Tag.Get("mapstructure"), ",")
						key, omit := parts[0], 0
						if key == "" {
							key = "-"
						}
						for _, o := range parts[1:] {
							if o == "omitempty" {
								omit = 1
							}
						}
						name := fmt.Sprintf("pkg=%s owner=%s field=%s", strings.TrimPrefix(t.PkgPath(), mod), t.Name(), f.Name)
						found[name] = ent{"op cfield " + name, fmt.Sprintf("obs cfield shape=%s key=%s exp=%d omit=%d", sh, key, vB(f.IsExported()), omit)}
					}
				}
				walk(f.Type, depth+1)
			}
		}
	}
	for _, r := range roots {
		walk(r, 0)
	}
	var names []string
	for n := range found {
		names = append(names, n)
	}
	sort.Strings(names)
	for _, n := range names {
		out.Linef("%s", found[n].op)
		out.Linef("%s", found[n].obs)
	}
	out.Linef("op census-done")
	out.Linef("obs unvisited -")
	out.Linef("stat census_fields_reflected %d", len(names))
}

// ---- (4) USE, live: the places where the repository converts an opaque value to its text (Gen/OpaqueCensus.lean
// `conversions`: request headers, response headers, PEM loaders) exercised with real traffic and a recording logger.
// The text must arrive where it is meant to go (clause "explicit conversion returns the secret") and nowhere else:
// no log entry of the client / server telemetry loggers (debug level) and no returned error may contain it.

func c14UseLive(out *vOut, seedCase int) {
	rnd := vRand(seedCase)
	reqSecret := fmt.Sprintf("L1veReqS3cr3t%dZq", rnd.IntN(1000000))
	respSecret := fmt.Sprintf("L1veRespS3cr3t%dZq", rnd.IntN(1000000))
	hostSecret := fmt.Sprintf("l1vehosts3cr3t%d.example", rnd.IntN(1000000))
	pemSecret := fmt.Sprintf("L1vePemS3cr3t%dZq", rnd.IntN(1000000))
	secrets := []string{reqSecret, respSecret, hostSecret, pemSecret}
	core, logs := observer.New(zapcore.DebugLevel)
	tel := componenttest.NewNopTelemetrySettings()
	tel.Logger = zap.New(core)
	host := componenttest.NewNopHost()
	ctx := context.Background()
	leakIn := func(text string) string {
		for _, s := range secrets {
			if strings.Contains(text, s) {
				return s[:8]
			}
		}
		return ""
	}
	checkErr := func(subject string, err error) {
		if err != nil {
			if w := leakIn(err.Error()); w != "" {
				out.Linef("viol sig=C14/use/secret-in-error/%s which=%s", subject, w)
			}
		}
	}
	func() {
		defer func() {
			if r := recover(); r != nil {
				out.Linef("stat use_live_panicked 1")
			}
		}()
		hs := confighttp.NewDefaultServerConfig()
		hs.Endpoint = "localhost:0"
		hs.TLSSetting = nil // plain HTTP
		hs.ResponseHeaders = map[string]configopaque.String{"X-Verif-Resp": configopaque.String(respSecret)}
		var gotReq, gotHost string
		srv, err := hs.ToServer(ctx, host, tel, http.HandlerFunc(func(w http.ResponseWriter, r *http.Request) {
			gotReq, gotHost = r.Header.Get("X-Verif-Req"), r.Host
			_, _ = w.Write([]byte("ok"))
		}))
		checkErr("confighttp.ServerConfig.ToServer", err)
		if err != nil {
			out.Linef("stat use_live_server_failed 1")
			return
		}
		ln, err := hs.ToListener(ctx)
		checkErr("confighttp.ServerConfig.ToListener", err)
		if err != nil {
			out.Linef("stat use_live_server_failed 1")
			return
		}
		go func() { _ = srv.Serve(ln) }()
		defer srv.Close()
		hc := confighttp.NewDefaultClientConfig()
		hc.Endpoint = "http://" + ln.Addr().String()
		hc.Headers = map[string]configopaque.String{"X-Verif-Req": configopaque.String(reqSecret), "Host": configopaque.String(hostSecret)}
		cl, err := hc.ToClient(ctx, host, tel)
		checkErr("confighttp.ClientConfig.ToClient", err)
		if err != nil {
			out.Linef("stat use_live_client_failed 1")
			return
		}
		for i := 0; i < 2; i++ {
			resp, err := cl.Get(hc.Endpoint + "/x")
			checkErr("confighttp.client.Get", err)
			if err != nil {
				out.Linef("stat use_live_request_failed 1")
				continue
			}
			bodyB, _ := io.ReadAll(resp.Body)
			_ = resp.Body.Close()
			if resp.StatusCode != 200 {
				out.Linef("stat use_live_non200_%s 1", vHex(string(bodyB)))
			}
			out.Linef("stat use_live_status_%d 1", resp.StatusCode)
			// the text goes where it is meant to go, unchanged
			if gotReq != reqSecret {
				out.Linef("viol sig=C14/use/header-not-delivered/confighttp.ClientConfig.Headers got_len=%d", len(gotReq))
			}
			if gotHost != hostSecret {
				out.Linef("viol sig=C14/use/header-not-delivered/confighttp.ClientConfig.Headers.Host got_len=%d", len(gotHost))
			}
			if resp.Header.Get("X-Verif-Resp") != respSecret {
				out.Linef("viol sig=C14/use/header-not-delivered/confighttp.ServerConfig.ResponseHeaders got_len=%d", len(resp.Header.Get("X-Verif-Resp")))
			}
			out.Linef("stat use_live_roundtrips 1")
		}
		// a failing request (nothing listens): the error text of the client must not carry the header values
		hc2 := confighttp.NewDefaultClientConfig()
		hc2.Headers = hc.Headers
		if cl2, err := hc2.ToClient(ctx, host, tel); err == nil {
			_, err := cl2.Get("http://127.0.0.1:1/x")
			checkErr("confighttp.client.Get-refused", err)
		}
	}()
	// gRPC: ClientConfig.Headers -> outgoing metadata of a real call (addHeadersIfAbsent), read by the server from the stream
	func() {
		defer func() {
			if r := recover(); r != nil {
				out.Linef("stat use_live_panicked 1")
			}
		}()
		gs := configgrpc.NewDefaultServerConfig()
		gs.NetAddr.Endpoint = "localhost:0"
		var gotMD []string
		srv, err := gs.ToServer(ctx, host, tel, configgrpc.WithGrpcServerOption(grpc.UnknownServiceHandler(func(_ any, stream grpc.ServerStream) error {
			md, _ := metadata.FromIncomingContext(stream.Context())
			gotMD = md.Get("x-verif-req")
			return status.Error(codes.Unimplemented, "verif: no such method")
		})))
		checkErr("configgrpc.ServerConfig.ToServer", err)
		if err != nil {
			out.Linef("stat use_live_server_failed 1")
			return
		}
		ln, err := net.Listen("tcp", "localhost:0")
		if err != nil {
			out.Linef("stat use_live_server_failed 1")
			return
		}
		go func() { _ = srv.Serve(ln) }()
		defer srv.Stop()
		gc := configgrpc.NewDefaultClientConfig()
		gc.Endpoint = ln.Addr().String()
		gc.TLSSetting = configtls.ClientConfig{Insecure: true}
		gc.Headers = map[string]configopaque.String{"x-verif-req": configopaque.String(reqSecret)}
		conn, err := gc.ToClientConn(ctx, host, tel)
		checkErr("configgrpc.ClientConfig.ToClientConn", err)
		if err != nil {
			out.Linef("stat use_live_client_failed 1")
			return
		}
		defer conn.Close()
		for i := 0; i < 2; i++ {
			gotMD = nil
			cctx, cancel := context.WithTimeout(ctx, 5*time.Second)
			err = conn.Invoke(cctx, "/verif.Service/Method", &emptypb.Empty{}, &emptypb.Empty{})
			cancel()
			checkErr("configgrpc.client.Invoke", err)
			if status.Code(err) != codes.Unimplemented {
				out.Linef("stat use_live_grpc_call_failed 1")
				continue
			}
			if len(gotMD) != 1 || gotMD[0] != reqSecret {
				out.Linef("viol sig=C14/use/header-not-delivered/configgrpc.ClientConfig.Headers got=%d", len(gotMD))
			}
			out.Linef("stat use_live_grpc_calls 1")
		}
		// the same header on a STREAMING call (the stream interceptor attaches the metadata on its own path)
		for i := 0; i < 2; i++ {
			gotMD = nil
			cctx, cancel := context.WithTimeout(ctx, 5*time.Second)
			stream, err := conn.NewStream(cctx, &grpc.StreamDesc{StreamName: "Stream", ServerStreams: true, ClientStreams: true}, "/verif.Service/Stream")
			checkErr("configgrpc.client.NewStream", err)
			if err == nil {
				_ = stream.SendMsg(&emptypb.Empty{})
				_ = stream.CloseSend()
				err = stream.RecvMsg(&emptypb.Empty{})
				checkErr("configgrpc.client.stream.RecvMsg", err)
			}
			cancel()
			if status.Code(err) != codes.Unimplemented {
				out.Linef("stat use_live_grpc_stream_failed 1")
				continue
			}
			if len(gotMD) != 1 || gotMD[0] != reqSecret {
				got := "-"
				if len(gotMD) > 0 && gotMD[0] != reqSecret {
					got = vHex(gotMD[0]) // not the secret: safe to print
				}
				out.Linef("viol sig=C14/use/header-not-delivered/configgrpc.ClientConfig.Headers/stream n=%d got=%s", len(gotMD), got)
			}
			out.Linef("stat use_live_grpc_streams 1")
		}
	}()
	// the zPages extension logs its whole configuration (`zap.Any("config", …)`, Gen/OpaqueCensus.lean `renders`): start it
	// with secret response headers under the recording logger
	func() {
		defer func() {
			if r := recover(); r != nil {
				out.Linef("stat use_live_panicked 1")
			}
		}()
		f, err := components()
		if err != nil {
			return
		}
		zt := component.MustNewType("zpages")
		zf := f.Extensions[zt]
		if zf == nil {
			out.Linef("stat use_live_no_zpages 1")
			return
		}
		zc := zf.CreateDefaultConfig()
		c14InjectMaps(reflect.ValueOf(zc), respSecret, 0)
		if n := c14Inject(reflect.ValueOf(zc), respSecret, 0, new(bool)); n == 0 {
			out.Linef("stat use_live_zpages_no_opaque 1")
		}
		// make it startable: plain HTTP on an ephemeral port
		if ep := reflect.ValueOf(zc).Elem().FieldByName("ServerConfig"); ep.IsValid() {
			sc := ep.Addr().Interface().(*confighttp.ServerConfig)
			sc.Endpoint = "localhost:0"
			sc.TLSSetting = nil
			if a := reflect.ValueOf(sc).Elem().FieldByName("Auth"); a.IsValid() && a.CanSet() {
				a.Set(reflect.Zero(a.Type())) // c14Inject allocated it: no authenticator extension here
			}
		}
		set := extensiontest.NewNopSettings(zt)
		set.TelemetrySettings = tel
		ext, err := zf.Create(ctx, set, zc)
		checkErr("zpagesextension.Create", err)
		if err != nil {
			return
		}
		err = ext.Start(ctx, host)
		checkErr("zpagesextension.Start", err)
		if err == nil {
			out.Linef("stat use_live_zpages_started 1")
		} else {
			out.Linef("stat use_live_zpages_start_failed_%s 1", vHex(err.Error()))
		}
		_ = ext.Shutdown(ctx)
	}()
	// the collector's REAL logger (service/telemetry factory, console and json encodings, file sink): every built-in
	// configuration with injected secrets through the field constructors and the sugared printf forms
	func() {
		defer func() {
			if r := recover(); r != nil {
				out.Linef("stat use_live_panicked 1")
			}
		}()
		f, err := components()
		if err != nil {
			return
		}
		var cfgs []any
		for _, x := range f.Receivers {
			cfgs = append(cfgs, x.CreateDefaultConfig())
		}
		for _, x := range f.Exporters {
			cfgs = append(cfgs, x.CreateDefaultConfig())
		}
		for _, x := range f.Extensions {
			cfgs = append(cfgs, x.CreateDefaultConfig())
		}
		for _, c := range cfgs {
			c14Inject(reflect.ValueOf(c), pemSecret, 0, new(bool))
		}
		for _, encoding := range []string{"console", "json"} {
			dir, err := os.MkdirTemp("", "verif-c14-log")
			if err != nil {
				return
			}
			defer os.RemoveAll(dir)
			path := dir + "/collector.log"
			tf := telemetry.NewFactory()
			tc := tf.CreateDefaultConfig().(*telemetry.Config)
			tc.Logs.Encoding = encoding
			tc.Logs.Level = zapcore.DebugLevel
			tc.Logs.Sampling = nil
			tc.Logs.OutputPaths = []string{path}
			tc.Logs.ErrorOutputPaths = []string{path}
			tc.Logs.InitialFields = map[string]any{"initial": cfgs[0]}
			lg, _, err := tf.CreateLogger(ctx, telemetry.Settings{}, tc)
			checkErr("telemetry.CreateLogger", err)
			if err != nil {
				out.Linef("stat use_live_logger_failed 1")
				continue
			}
			for _, c := range cfgs {
				lg.Info("config", zap.Any("config", c), zap.Reflect("reflect", c), zap.Stringer("stringer", c14AllStringer{c}),
					zap.Error(fmt.Errorf("invalid configuration %v: %w", c, io.ErrUnexpectedEOF)), zap.Any("list", []any{c}))
				lg.Sugar().Infof("config %v %+v %#v", c, c, c)
				lg.Sugar().Infow("config", "config", c)
				lg.Sugar().With("with", c).Debug("config ", c)
			}
			_ = lg.Sync()
			b, _ := os.ReadFile(path)
			if w := leakIn(string(b)); w != "" {
				out.Linef("viol sig=C14/use/secret-in-service-log/%s which=%s", encoding, w)
			}
			out.Linef("stat use_live_service_log_bytes_%s %d", encoding, len(b))
		}
	}()
	// PEM loaders with undecodable material that contains the secret: the error must not quote it
	pem := configopaque.String("-----BEGIN CERTIFICATE-----\n" + pemSecret + "\n-----END CERTIFICATE-----\n")
	for _, tc := range []struct {
		name string
		cfg  configtls.Config
	}{
		{"ca_pem", configtls.Config{CAPem: pem}},
		{"cert_pem", configtls.Config{CertPem: pem, KeyPem: pem}},
		{"cert_pem+key_file", configtls.Config{CertPem: pem, KeyFile: "/nonexistent/" + "k"}},
		{"raw", configtls.Config{CAPem: configopaque.String(pemSecret)}},
	} {
		func() {
			defer func() { _ = recover() }()
			_, err := (&configtls.ClientConfig{Config: tc.cfg}).LoadTLSConfig(ctx)
			checkErr("configtls.ClientConfig.LoadTLSConfig/"+tc.name, err)
			_, err = (&configtls.ServerConfig{Config: tc.cfg}).LoadTLSConfig(ctx)
			checkErr("configtls.ServerConfig.LoadTLSConfig/"+tc.name, err)
			checkErr("configtls.Config.Validate/"+tc.name, tc.cfg.Validate())
			out.Linef("stat use_live_pem_loads 1")
		}()
	}
	n := 0
	jsonEnc := zapcore.NewJSONEncoder(zap.NewProductionEncoderConfig())
	consEnc := zapcore.NewConsoleEncoder(zap.NewDevelopmentEncoderConfig())
	for _, e := range logs.All() {
		n++
		text := e.Message
		for _, enc := range []zapcore.Encoder{jsonEnc, consEnc} {
			if buf, err := enc.EncodeEntry(e.Entry, e.Context); err == nil {
				text += " " + buf.String()
			}
		}
		if w := leakIn(text); w != "" {
			out.Linef("viol sig=C14/use/secret-in-log which=%s logger=%s msg=%s", w, e.LoggerName, vHex(e.Message))
		}
	}
	out.Linef("stat use_live_log_entries %d", n)
}

// ---- (1) TYPE level: an opaque type behind an unexported field ------------------------------------------------
// fmt does not consult Format/String/GoString on values it reaches through an unexported struct field (they cannot be
// interfaced): whatever such a field holds is printed from its kind. A configuration type that keeps an opaque string
// (directly or inside a slice/map/struct/pointer) behind an unexported field therefore prints it raw under every verb.

var c14OpaqueType = reflect.TypeOf(configopaque.String(""))

func c14TypeProbe(out *vOut, roots []reflect.Type) {
	type key struct {
		t     reflect.Type
		under bool
	}
	reported := map[string]bool{}
	for _, root := range roots {
		seen := map[key]bool{}
		var walk func(t reflect.Type, path string, unexp string, depth int)
		walk = func(t reflect.Type, path string, unexp string, depth int) {
			if depth > 14 || seen[key{t, unexp != ""}] {
				return
			}
			seen[key{t, unexp != ""}] = true
			if t == c14OpaqueType {
				if unexp != "" {
					sig := fmt.Sprintf("%s.%s", root.String(), unexp)
					if !reported[sig] {
						reported[sig] = true
						out.Linef("viol sig=C14/builtin/opaque-type-behind-unexported-field/%s reached=%s", sig, path)
					}
				}
				return
			}
			switch t.Kind() {
			case reflect.Pointer, reflect.Slice, reflect.Array:
				walk(t.Elem(), path+"[]", unexp, depth+1)
			case reflect.Map:
				walk(t.Key(), path+"{key}", unexp, depth+1)
				walk(t.Elem(), path+"{}", unexp, depth+1)
			case reflect.Struct:
				for i := 0; i < t.NumField(); i++ {
					f := t.Field(i)
					u := unexp
					if u == "" && !f.IsExported() {
						u = strings.TrimPrefix(path+"."+f.Name, ".")
					}
					walk(f.Type, path+"."+f.Name, u, depth+1)
				}
			}
		}
		rt := root
		for rt.Kind() == reflect.Pointer {
			rt = rt.Elem()
		}
		walk(rt, "", "", 0)
	}
	out.Linef("stat type_probe_roots %d", len(roots))
}

// ---- (2) USE then render -----------------------------------------------------------------------------------
// the client / server configuration structs after their "use" methods have run (dial options, servers, TLS configs):
// whatever those methods cached inside the struct must not show under fmt or the marshalling paths.

func c14InjectMaps(v reflect.Value, secret string, depth int) int {
	if depth > 8 || !v.IsValid() {
		return 0
	}
	switch v.Kind() {
	case reflect.Pointer:
		if !v.IsNil() {
			return c14InjectMaps(v.Elem(), secret, depth+1)
		}
	case reflect.Struct:
		n := 0
		for i := 0; i < v.NumField(); i++ {
			if v.Type().Field(i).IsExported() {
				n += c14InjectMaps(v.Field(i), secret, depth+1)
			}
		}
		return n
	case reflect.Map:
		if v.Type().Elem() == c14OpaqueType && v.Type().Key().Kind() == reflect.String && v.CanSet() {
			m := reflect.MakeMap(v.Type())
			m.SetMapIndex(reflect.ValueOf("Authorization").Convert(v.Type().Key()), reflect.ValueOf("Bearer "+secret).Convert(c14OpaqueType))
			v.Set(m)
			return 1
		}
	}
	return 0
}

// c14FindRaw: where (incl. unexported fields) a string containing the secret sits inside the value.
func c14FindRaw(v reflect.Value, secret, path string, depth int, found *[]string) {
	if depth > 10 || !v.IsValid() {
		return
	}
	switch v.Kind() {
	case reflect.String:
		if strings.Contains(v.String(), secret) {
			*found = append(*found, path)
		}
	case reflect.Pointer, reflect.Interface:
		if !v.IsNil() {
			c14FindRaw(v.Elem(), secret, path, depth+1, found)
		}
	case reflect.Struct:
		for i := 0; i < v.NumField(); i++ {
			c14FindRaw(v.Field(i), secret, path+"."+v.Type().Field(i).Name, depth+1, found)
		}
	case reflect.Slice, reflect.Array:
		for i := 0; i < v.Len() && i < 8; i++ {
			c14FindRaw(v.Index(i), secret, path+"[]", depth+1, found)
		}
	case reflect.Map:
		for _, k := range v.MapKeys() {
			c14FindRaw(v.MapIndex(k), secret, path+"{}", depth+1, found)
		}
	}
}

func c14UseThenRender(out *vOut, seedCase int) {
	rnd := vRand(seedCase)
	secret := fmt.Sprintf("Us3dS3cr3t%dZq", rnd.IntN(1000000))
	host := componenttest.NewNopHost()
	tel := componenttest.NewNopTelemetrySettings()
	ctx := context.Background()
	quiet := func(f func()) {
		defer func() { _ = recover() }()
		f()
	}
	type subject struct {
		name string
		cfg  any // pointer to the struct
		use  func()
	}
	gc := configgrpc.NewDefaultClientConfig()
	gc.Endpoint = "localhost:1"
	gc.TLSSetting = configtls.ClientConfig{Insecure: true}
	gs := configgrpc.NewDefaultServerConfig()
	gs.NetAddr.Endpoint = "localhost:0"
	hc := confighttp.NewDefaultClientConfig()
	hc.Endpoint = "http://localhost:1"
	hs := confighttp.NewDefaultServerConfig()
	hs.Endpoint = "localhost:0"
	tc := configtls.NewDefaultClientConfig()
	ts := configtls.NewDefaultServerConfig()
	au := &configauth.Authentication{}
	subjects := []subject{
		{"configgrpc.ClientConfig", gc, func() {
			if conn, err := gc.ToClientConn(ctx, host, tel); err == nil {
				_ = conn.Close()
			}
		}},
		{"configgrpc.ServerConfig", gs, func() {
			if srv, err := gs.ToServer(ctx, host, tel); err == nil {
				srv.Stop()
			}
		}},
		{"confighttp.ClientConfig", &hc, func() { _, _ = hc.ToClient(ctx, host, tel) }},
		{"confighttp.ServerConfig", &hs, func() {
			_, _ = hs.ToServer(ctx, host, tel, nil)
			if l, err := hs.ToListener(ctx); err == nil {
				_ = l.Close()
			}
		}},
		{"configtls.ClientConfig", &tc, func() { _, _ = tc.LoadTLSConfig(ctx) }},
		{"configtls.ServerConfig", &ts, func() { _, _ = ts.LoadTLSConfig(ctx) }},
		{"configauth.Authentication", au, func() {}},
	}
	verbs := []string{"%v", "%+v", "%#v", "%s", "%q", "%x", "%X", "%d"}
	for _, sj := range subjects {
		n := c14InjectMaps(reflect.ValueOf(sj.cfg), secret, 0)
		quiet(sj.use)
		quiet(sj.use) // twice: caches are filled on first use and read on the next
		leaks := map[string]bool{}
		visible := func(r string) bool {
			return strings.Contains(r, secret) || strings.Contains(r, hex.EncodeToString([]byte(secret))) || strings.Contains(r, strings.ToUpper(hex.EncodeToString([]byte(secret))))
		}
		deref := reflect.ValueOf(sj.cfg).Elem().Interface()
		for _, operand := range []any{sj.cfg, deref} {
			for _, verb := range verbs {
				quiet(func() {
					if visible(fmt.Sprintf(verb, operand)) {
						leaks["fmt"+verb] = true
					}
				})
			}
			quiet(func() {
				if visible(fmt.Sprint(operand)) || visible(fmt.Errorf("config: %v", operand).Error()) {
					leaks["fmt.Sprint"] = true
				}
			})
			quiet(func() {
				if b, err := json.Marshal(operand); err == nil && visible(string(b)) {
					leaks["json"] = true
				}
			})
			quiet(func() {
				if b, err := yaml.Marshal(operand); err == nil && visible(string(b)) {
					leaks["yaml"] = true
				}
			})
			quiet(func() {
				conf := confmap.New()
				if conf.Marshal(operand) == nil {
					m := conf.ToStringMap()
					y, _ := yaml.Marshal(m)
					if visible(string(y)) || visible(fmt.Sprintf("%v", m)) {
						leaks["confmap.Marshal"] = true
					}
				}
			})
		}
		if len(leaks) > 0 {
			var where []string
			c14FindRaw(reflect.ValueOf(sj.cfg), secret, "", 0, &where)
			// exported opaque positions hold the secret by design: keep the positions that are NOT of the opaque type's own field
			var hidden []string
			for _, w := range where {
				segs := strings.Split(strings.TrimPrefix(w, "."), ".")
				for _, sg := range segs {
					name := strings.TrimRight(sg, "[]{}")
					if name != "" && name[0] >= 'a' && name[0] <= 'z' {
						hidden = append(hidden, strings.TrimPrefix(w, "."))
						break
					}
				}
			}
			path := "unknown-position"
			if len(hidden) > 0 {
				sort.Strings(hidden)
				path = hidden[0]
			}
			var via []string
			for k := range leaks {
				via = append(via, k)
			}
			sort.Strings(via)
			out.Linef("viol sig=C14/builtin/secret-visible-after-use/%s/%s via=%s", sj.name, path, strings.Join(via, ","))
		}
		out.Linef("stat use_then_render_subjects 1")
		out.Linef("stat use_then_render_opaque_maps_set %d", n)
	}
}

type c14AllStringer struct{ v any }

func (s c14AllStringer) String() string { return fmt.Sprintf("%+v", s.v) }

var _ = configopaque.String("")
