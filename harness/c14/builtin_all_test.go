//go:build verif

package main

import (
	"bytes"
	"encoding/json"
	"fmt"
	"log/slog"
	"reflect"
	"sort"
	"strings"
	"testing"

	"go.uber.org/zap"
	"go.uber.org/zap/zapcore"
	yaml "sigs.k8s.io/yaml/goyaml.v3"

	"go.opentelemetry.io/collector/component"
	"go.opentelemetry.io/collector/config/configopaque"
	"go.opentelemetry.io/collector/confmap"
)

// TestVerifC14BuiltinAll: the configuration type of EVERY factory of otelcorecol (receivers, exporters,
// processors, connectors, extensions), with a secret injected into every reachable opaque field and
// opaque-valued map (nil pointers to structs allocated), through every zap field encoder (JSON and
// console encoders), log/slog handlers, fmt's struct verbs, encoding/json, yaml and confmap.Marshal.
// Monitor only: `viol` on any occurrence of the secret.

// c14Inject sets every opaque string / opaque-valued map reachable through exported fields to a
// secret, allocating nil pointers to structs on the way. Returns how many were set.
func c14Inject(v reflect.Value, secret string, depth int, viaPtrField *bool) int {
	opq := reflect.TypeOf(configopaque.String(""))
	if depth > 8 {
		return 0
	}
	switch v.Kind() {
	case reflect.String:
		if v.Type() == opq && v.CanSet() {
			v.SetString(secret)
			return 1
		}
	case reflect.Map:
		if v.Type().Elem() == opq && v.Type().Key().Kind() == reflect.String && v.CanSet() {
			m := reflect.MakeMap(v.Type())
			m.SetMapIndex(reflect.ValueOf("x-token").Convert(v.Type().Key()), reflect.ValueOf(secret).Convert(opq))
			v.Set(m)
			return 1
		}
	case reflect.Pointer:
		if v.Type().Elem().Kind() == reflect.Struct && v.CanSet() {
			if v.IsNil() {
				v.Set(reflect.New(v.Type().Elem()))
			}
			n := c14Inject(v.Elem(), secret, depth+1, viaPtrField)
			if n > 0 && depth > 0 {
				*viaPtrField = true
			}
			return n
		}
		if !v.IsNil() {
			return c14Inject(v.Elem(), secret, depth+1, viaPtrField)
		}
	case reflect.Struct:
		n := 0
		for i := 0; i < v.NumField(); i++ {
			if v.Type().Field(i).IsExported() {
				n += c14Inject(v.Field(i), secret, depth+1, viaPtrField)
			}
		}
		return n
	}
	return 0
}

func TestVerifC14BuiltinAll(t *testing.T) {
	out := vOpen(t)
	defer out.Close()
	out.Linef("model c14-builtin-all 1")
	f, err := components()
	if err != nil {
		t.Fatal(err)
	}
	type ent struct {
		name string
		cfg  component.Config
	}
	var all []ent
	for ty, x := range f.Receivers {
		all = append(all, ent{"receivers/" + ty.String(), x.CreateDefaultConfig()})
	}
	for ty, x := range f.Exporters {
		all = append(all, ent{"exporters/" + ty.String(), x.CreateDefaultConfig()})
	}
	for ty, x := range f.Processors {
		all = append(all, ent{"processors/" + ty.String(), x.CreateDefaultConfig()})
	}
	for ty, x := range f.Connectors {
		all = append(all, ent{"connectors/" + ty.String(), x.CreateDefaultConfig()})
	}
	for ty, x := range f.Extensions {
		all = append(all, ent{"extensions/" + ty.String(), x.CreateDefaultConfig()})
	}
	sort.Slice(all, func(i, j int) bool { return all[i].name < all[j].name })
	const secret = "Qs3cr3t-builtin-all-Zx"
	has := func(s string) bool { return strings.Contains(s, "s3cr3t-builtin-all") }
	for c, e := range all {
		out.Linef("case %d builtin=%s type=%T", c, e.name, e.cfg)
		viaPtr := false
		n := c14Inject(reflect.ValueOf(e.cfg), secret, 0, &viaPtr)
		out.Linef("stat opaque_fields_set %d", n)
		report := func(path string) {
			out.Linef("viol sig=C14/builtin/%s-raw builtin=%s", path, e.name)
		}
		safe := func(path string, f func() string) {
			defer func() {
				if r := recover(); r != nil {
					out.Linef("stat renderer_panicked 1")
				}
			}()
			if has(f()) {
				report(path)
			}
		}
		fields := map[string]func() zap.Field{
			"zap.Any":      func() zap.Field { return zap.Any("cfg", e.cfg) },
			"zap.Reflect":  func() zap.Field { return zap.Reflect("cfg", e.cfg) },
			"zap.Stringer": func() zap.Field { return zap.Stringer("cfg", c14AllStringer{e.cfg}) },
			"zap.Inline":   func() zap.Field { return zap.Any("cfg", []any{e.cfg, map[string]any{"c": e.cfg}}) },
		}
		for name, mk := range fields {
			for encName, enc := range map[string]zapcore.Encoder{
				"json":    zapcore.NewJSONEncoder(zapcore.EncoderConfig{MessageKey: "m"}),
				"console": zapcore.NewConsoleEncoder(zapcore.EncoderConfig{MessageKey: "m"}),
			} {
				safe(name+"/"+encName, func() string {
					buf, err := enc.EncodeEntry(zapcore.Entry{Message: "x"}, []zap.Field{mk()})
					if err != nil {
						return ""
					}
					return buf.String()
				})
			}
		}
		for _, js := range []bool{false, true} {
			safe(fmt.Sprintf("slog/json=%v", js), func() string {
				var bb bytes.Buffer
				var h slog.Handler = slog.NewTextHandler(&bb, nil)
				if js {
					h = slog.NewJSONHandler(&bb, nil)
				}
				slog.New(h).Info("x", "cfg", e.cfg, slog.Any("c2", e.cfg))
				return bb.String()
			})
		}
		for _, verb := range []string{"%v", "%+v", "%#v"} {
			safe("fmt/"+verb, func() string { return fmt.Sprintf(verb, e.cfg) })
		}
		safe("json", func() string { b, _ := json.Marshal(e.cfg); return string(b) })
		safe("yaml", func() string { b, _ := yaml.Marshal(e.cfg); return string(b) })
		safe("confmap.Marshal", func() string {
			conf := confmap.New()
			if err := conf.Marshal(e.cfg); err != nil {
				return ""
			}
			m := conf.ToStringMap()
			y, _ := yaml.Marshal(m)
			return string(y) + fmt.Sprintf("%v", m)
		})
		if n > 0 {
			out.Linef("nt")
		}
		out.Linef("end")
		out.Flush()
	}
}

type c14AllStringer struct{ v any }

func (s c14AllStringer) String() string { return fmt.Sprintf("%+v", s.v) }

var _ = configopaque.String("")
