//go:build verif

// Shared helper injected (by overlay) next to every harness file. DESIGN §2.2, §2.9.
package e2e

import (
	"bufio"
	"encoding/hex"
	"fmt"
	"math/rand/v2"
	"os"
	"strconv"
	"testing"
)

type vOut struct {
	f *os.File
	w *bufio.Writer
}

func vOpen(tb testing.TB) *vOut {
	p := os.Getenv("VERIF_OUT")
	if p == "" {
		tb.Skip("VERIF_OUT not set")
	}
	f, err := os.Create(p)
	if err != nil {
		tb.Fatal(err)
	}
	return &vOut{f: f, w: bufio.NewWriterSize(f, 1<<20)}
}

func (o *vOut) Linef(format string, args ...any) {
	fmt.Fprintf(o.w, format, args...)
	o.w.WriteByte('\n')
}

// Flush after every case so a crash keeps what was seen.
func (o *vOut) Flush() { o.w.Flush() }

func (o *vOut) Close() {
	o.w.Flush()
	o.f.Close()
}

func vEnvInt(name string, def int) int {
	if s := os.Getenv(name); s != "" {
		if n, err := strconv.Atoi(s); err == nil {
			return n
		}
	}
	return def
}

func vSeed() uint64  { return uint64(vEnvInt("VERIF_SEED", 1)) }
func vN(def int) int { return vEnvInt("VERIF_N", def) }
func vTier() string {
	t := os.Getenv("VERIF_TIER")
	if t == "" {
		return "quick"
	}
	return t
}
func vThorough() bool { return vTier() == "thorough" }

// vCases returns the case indices to run: all of 0..n-1, or only the replayed one.
func vCases(n int) []int {
	if s := os.Getenv("VERIF_REPLAY_CASE"); s != "" {
		if c, err := strconv.Atoi(s); err == nil {
			return []int{c}
		}
	}
	out := make([]int, n)
	for i := range out {
		out[i] = i
	}
	return out
}

// vRand: every random choice of case c derives from (VERIF_SEED, c), so one case replays alone.
func vRand(c int) *rand.Rand {
	return rand.New(rand.NewPCG(vSeed(), uint64(c)*0x9e3779b97f4a7c15+1))
}

func vHex(s string) string {
	if s == "" {
		return "-"
	}
	return hex.EncodeToString([]byte(s))
}

func vHexB(b []byte) string {
	if len(b) == 0 {
		return "-"
	}
	return hex.EncodeToString(b)
}

func vB(b bool) int {
	if b {
		return 1
	}
	return 0
}
