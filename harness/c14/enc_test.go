//go:build verif

package e2e

import (
	"context"
	"encoding/json"
	"fmt"
	"reflect"
	"sort"
	"strings"
	"testing"

	"go.uber.org/zap"
	"go.uber.org/zap/zapcore"
	yaml "sigs.k8s.io/yaml/goyaml.v3"

	"go.opentelemetry.io/collector/component"
	"go.opentelemetry.io/collector/config/confighttp"
	"go.opentelemetry.io/collector/config/configopaque"
	"go.opentelemetry.io/collector/confmap"
	"go.opentelemetry.io/collector/exporter/otlpexporter"
	"go.opentelemetry.io/collector/exporter/otlphttpexporter"
	"go.opentelemetry.io/collector/receiver/otlpreceiver"
)

// canonical print of Conf.ToStringMap(): the Lean `Any.show`
func c14Show(b *strings.Builder, strs *[]string, v any) {
	switch x := v.(type) {
	case nil:
		b.WriteString("nil")
	case string:
		*strs = append(*strs, x)
		b.WriteString("s" + vHex(x))
	case int:
		fmt.Fprintf(b, "n%d", x)
	case []any:
		b.WriteByte('[')
		for i, e := range x {
			if i > 0 {
				b.WriteByte(',')
			}
			c14Show(b, strs, e)
		}
		b.WriteByte(']')
	case map[string]any:
		keys := make([]string, 0, len(x))
		for k := range x {
			keys = append(keys, k)
		}
		sort.Strings(keys)
		b.WriteByte('{')
		for i, k := range keys {
			if i > 0 {
				b.WriteByte(',')
			}
			*strs = append(*strs, k)
			b.WriteString(vHex(k) + ":")
			c14Show(b, strs, x[k])
		}
		b.WriteByte('}')
	default:
		b.WriteString("T" + reflect.ValueOf(v).Kind().String())
	}
}

func c14Marshal(v any) (m map[string]any, err error) {
	defer func() {
		if r := recover(); r != nil {
			err = fmt.Errorf("PANIC: %v", r)
		}
	}()
	conf := confmap.New()
	if err := conf.Marshal(v); err != nil {
		return nil, err
	}
	return conf.ToStringMap(), nil
}

var (
	c14EncSecA = []string{"Qs3cr3t-%d-ключ-0", "Qpw-1", "Qtok-2", "Qx-3"}
	c14EncSecB = []string{"W0ther-%d-鍵-0", "Wzz-1", "Wabc-2", "Wy-3"}
)

func c14ContainsAny(s string, secrets []string) bool {
	for _, x := range secrets {
		if x != "" && strings.Contains(s, x) {
			return true
		}
	}
	return false
}

// TestVerifC14Enc: confmap.Conf.Marshal on generated value trees (exact differential against the
// Lean `enc`) and on the built-in configurations that hold opaque fields (direct oracles).
func TestVerifC14Enc(t *testing.T) {
	out := vOpen(t)
	defer out.Close()
	out.Linef("model c14-enc 1")
	leaf := reflect.TypeOf(configopaque.String(""))
	builtins := c14Builtins()
	n := vN(1000)
	for _, c := range vCases(n + len(builtins)) {
		if c == 0 {
			c14UnmarshalKeeps(out, n+len(builtins))
			c14UnmarshalExpanded(out, n+len(builtins)+1)
			c14ErrorTexts(out, n+len(builtins)+2)
			c14WhitespaceSecrets(out, n+len(builtins)+3)
			c14MergingMarshalers(out, n+len(builtins)+4)
		}
		if c < len(builtins) {
			c14Builtin(out, c, builtins[c])
			continue
		}
		rnd := vRand(c)
		g := &c14Gen{rnd: rnd, nsec: 4, forFmt: false, maxDepth: 2 + rnd.IntN(3)}
		top := g.genStruct(0)
		v := g.genVal(top, 0)
		secA := append([]string{}, c14EncSecA...)
		secB := append([]string{}, c14EncSecB...)
		empt := make([]string, len(secA))
		for i := range secA {
			empt[i] = "0"
		}
		// at most one empty secret: two empty opaque map keys would be one Go map entry
		if e := rnd.IntN(len(secA) + 2); e < len(secA) {
			secA[e], secB[e], empt[e] = "", "", "1"
		}
		out.Linef("case %d", c)
		hexes := make([]string, len(secA))
		for i := range secA {
			hexes[i] = vHex(secA[i])
		}
		out.Linef("op enc empt=%s sec=%s : %s", strings.Join(empt, ","), strings.Join(hexes, ","), v.String())
		rt := top.rtype(leaf)
		rootA := reflect.New(rt)
		v.fill(rootA.Elem(), leaf, secA, false)
		rootB := reflect.New(rt)
		v.fill(rootB.Elem(), leaf, secB, false)
		mA, errA := c14Marshal(rootA.Interface())
		mB, errB := c14Marshal(rootB.Interface())
		// rendering must not touch its INPUT: the marshalled object is used afterwards (the collector marshals the configuration for
		// the ConfigWatcher extensions and then builds the service from the same structs), so every opaque leaf must still BE an
		// opaque value holding the planted secret ("the explicit conversion still returns the secret for the code that needs it")
		c14InputIntact := func(renderer string) {
			fresh := reflect.New(rt)
			v.fill(fresh.Elem(), leaf, secA, false)
			if where, what := c14FirstDiff(rootA.Elem(), fresh.Elem(), "", 0); where != "" {
				out.Linef("viol sig=C14/marshal/input-mutated/%s at=%s what=%s input=%s", renderer, where, what, strings.ReplaceAll(v.String(), " ", "_"))
				v.fill(rootA.Elem(), leaf, secA, false) // repair for the next renderer
			}
		}
		c14InputIntact("confmap.Marshal")
		func() {
			defer func() { _ = recover() }()
			_ = fmt.Sprintf("%v %+v %#v %s %d", rootA.Interface(), rootA.Interface(), rootA.Interface(), rootA.Interface(), rootA.Interface())
		}()
		c14InputIntact("fmt")
		func() {
			defer func() { _ = recover() }()
			_, _ = json.Marshal(rootA.Interface())
		}()
		c14InputIntact("json")
		func() {
			defer func() { _ = recover() }()
			_, _ = yaml.Marshal(rootA.Interface())
		}()
		c14InputIntact("yaml")
		var sa, sb strings.Builder
		var strsA, strsB []string
		if errA != nil {
			sa.WriteString("err")
			cls := "other"
			switch {
			case strings.Contains(errA.Error(), "duplicate key"):
				cls = "dup"
			case strings.Contains(errA.Error(), "non string-encoded key"):
				cls = "nonstr"
			case strings.Contains(errA.Error(), "PANIC"):
				cls = "panic"
			}
			out.Linef("obs err")
			out.Linef("stat err_%s 1", cls)
			if c14ContainsAny(errA.Error(), secA) {
				out.Linef("viol sig=C14/confmap/raw-secret-in-error msg=%s", vHex(errA.Error()))
			}
		} else {
			sa.WriteString("ok ")
			c14Show(&sa, &strsA, mA)
			out.Linef("obs %s", sa.String())
			for _, s := range strsA {
				out.Linef("tr s %s", vHex(s))
			}
			// every leaf of the marshalled map, at every depth, must be a plain value: no value whose dynamic type is
			// still the opaque type (a LIVE secret: decoding it into a plain string field, or reading it by kind, gives
			// the secret) and no string that is or contains a secret
			c14LiveLeaves(mA, "", func(shape, what string) {
				out.Linef("viol sig=C14/encode/live-opaque-value-in-marshalled-map/%s what=%s input=%s", shape, what, strings.ReplaceAll(v.String(), " ", "_"))
			}, secA)
			// … also after the map went through yaml and back into plain `any` values
			if yb, yerr := yaml.Marshal(mA); yerr == nil {
				var back map[string]any
				if yaml.Unmarshal(yb, &back) == nil {
					c14LiveLeaves(back, "", func(shape, what string) {
						out.Linef("viol sig=C14/encode/secret-after-yaml-round-trip/%s what=%s", shape, what)
					}, secA)
				}
			}
			// direct oracles on the effective configuration as an extension would see / print it
			y, _ := yaml.Marshal(mA)
			if c14ContainsAny(string(y), secA) {
				out.Linef("viol sig=C14/confmap/raw-secret-in-effective-config yaml=%s", vHex(string(y)))
			}
			if c14ContainsAny(fmt.Sprintf("%v", mA), secA) || c14ContainsAny(fmt.Sprintf("%#v", mA), secA) {
				out.Linef("viol sig=C14/confmap/raw-secret-in-printed-config")
			}
		}
		if errB != nil {
			sb.WriteString("err")
		} else {
			sb.WriteString("ok ")
			c14Show(&sb, &strsB, mB)
		}
		if sa.String() != sb.String() {
			out.Linef("viol sig=C14/confmap/output-depends-on-secret a=%s b=%s", vHex(sa.String()), vHex(sb.String()))
		}
		if c14OpaqueBelow(v, 0) {
			out.Linef("nt")
		}
		out.Linef("stat leaves_opaque %d", c14Count(v, 'O'))
		out.Linef("stat arrays %d", c14Count(v, 'A'))
		out.Linef("stat maps %d", c14Count(v, 'M'))
		out.Linef("end")
		out.Flush()
	}
}

// c14FirstDiff: first position where two values of one type differ — path and what (dynamic type / text / length / nil-ness)
func c14FirstDiff(a, b reflect.Value, path string, depth int) (string, string) {
	if depth > 40 {
		return "", ""
	}
	if a.IsValid() != b.IsValid() {
		return path + "?", "validity"
	}
	if !a.IsValid() {
		return "", ""
	}
	if a.Type() != b.Type() {
		return path, fmt.Sprintf("dynamic-type:%s->%s", b.Type(), a.Type())
	}
	switch a.Kind() {
	case reflect.String:
		if a.String() != b.String() {
			if a.Type() == reflect.TypeOf(configopaque.String("")) {
				return path, "opaque-text:" + vHex(a.String())
			}
			return path, "text"
		}
	case reflect.Pointer, reflect.Interface:
		if a.IsNil() != b.IsNil() {
			return path, "nil-ness"
		}
		if !a.IsNil() {
			return c14FirstDiff(a.Elem(), b.Elem(), path+"*", depth+1)
		}
	case reflect.Slice, reflect.Array:
		if a.Kind() == reflect.Slice && a.IsNil() != b.IsNil() {
			return path, "nil-ness"
		}
		if a.Len() != b.Len() {
			return path, "length"
		}
		for i := 0; i < a.Len(); i++ {
			if w, x := c14FirstDiff(a.Index(i), b.Index(i), fmt.Sprintf("%s[%d]", path, i), depth+1); w != "" {
				return w, x
			}
		}
	case reflect.Map:
		if a.IsNil() != b.IsNil() {
			return path, "nil-ness"
		}
		if a.Len() != b.Len() {
			return path, "length"
		}
		for _, k := range a.MapKeys() {
			bv := b.MapIndex(k)
			if !bv.IsValid() {
				return path + "{}", "key-set"
			}
			if w, x := c14FirstDiff(a.MapIndex(k), bv, path+"{}", depth+1); w != "" {
				return w, x
			}
		}
	case reflect.Struct:
		for i := 0; i < a.NumField(); i++ {
			if w, x := c14FirstDiff(a.Field(i), b.Field(i), path+"."+a.Type().Field(i).Name, depth+1); w != "" {
				return w, x
			}
		}
	default:
		if a.CanInterface() && b.CanInterface() && !reflect.DeepEqual(a.Interface(), b.Interface()) {
			return path, "value"
		}
	}
	return "", ""
}

func c14Count(v *c14Val, k byte) int {
	n := 0
	if v.k == k {
		n = 1
	}
	for _, x := range v.kids {
		n += c14Count(x, k)
	}
	return n
}

// an opaque leaf below a map, slice, pointer, interface or a nested struct
func c14OpaqueBelow(v *c14Val, depth int) bool {
	if v.k == 'O' {
		return depth >= 2
	}
	for _, k := range v.kids {
		if c14OpaqueBelow(k, depth+1) {
			return true
		}
	}
	return false
}

type c14BuiltinCfg struct {
	name string
	cfg  component.Config
}

func c14Builtins() []c14BuiltinCfg {
	return []c14BuiltinCfg{
		{"otlpexporter", otlpexporter.NewFactory().CreateDefaultConfig()},
		{"otlphttpexporter", otlphttpexporter.NewFactory().CreateDefaultConfig()},
		{"otlpreceiver", otlpreceiver.NewFactory().CreateDefaultConfig()},
	}
}

// c14Inject sets every opaque string / opaque-valued map reachable through exported fields to a
// secret, allocating nil pointers to structs on the way. Returns how many were set.
func c14Inject(v reflect.Value, secret string, depth int, viaPtrField *bool) int {
	opq := reflect.TypeOf(configopaque.String(""))
	if depth > 8 {
		return 0
	}
	switch v.Kind() {
	case reflect.String:
		if v.Type() == opq && v.CanSet() {
			v.SetString(secret)
			return 1
		}
	case reflect.Map:
		if v.Type().Elem() == opq && v.Type().Key().Kind() == reflect.String && v.CanSet() {
			m := reflect.MakeMap(v.Type())
			m.SetMapIndex(reflect.ValueOf("x-token").Convert(v.Type().Key()), reflect.ValueOf(secret).Convert(opq))
			v.Set(m)
			return 1
		}
	case reflect.Pointer:
		if v.Type().Elem().Kind() == reflect.Struct && v.CanSet() {
			if v.IsNil() {
				v.Set(reflect.New(v.Type().Elem()))
			}
			n := c14Inject(v.Elem(), secret, depth+1, viaPtrField)
			if n > 0 && depth > 0 {
				*viaPtrField = true
			}
			return n
		}
		if !v.IsNil() {
			return c14Inject(v.Elem(), secret, depth+1, viaPtrField)
		}
	case reflect.Struct:
		n := 0
		for i := 0; i < v.NumField(); i++ {
			if v.Type().Field(i).IsExported() {
				n += c14Inject(v.Field(i), secret, depth+1, viaPtrField)
			}
		}
		return n
	}
	return 0
}

func c14Builtin(out *vOut, c int, b c14BuiltinCfg) {
	out.Linef("case %d builtin=%s", c, b.name)
	out.Linef("op builtin name=%s", b.name)
	out.Linef("obs checked")
	const secret = "Qs3cr3t-builtin-%d-Zx"
	viaPtr := false
	n := c14Inject(reflect.ValueOf(b.cfg), secret, 0, &viaPtr)
	out.Linef("stat builtin_opaque_fields_set %d", n)
	if n == 0 {
		out.Linef("viol sig=C14/builtin/no-opaque-field-found name=%s", b.name)
	}
	has := func(s string) bool { return strings.Contains(s, "s3cr3t-builtin") }
	m, err := c14Marshal(b.cfg)
	if err != nil {
		out.Linef("viol sig=C14/builtin/marshal-error name=%s err=%s", b.name, vHex(err.Error()))
	} else {
		y, _ := yaml.Marshal(m)
		if has(string(y)) || has(fmt.Sprintf("%v", m)) {
			out.Linef("viol sig=C14/confmap/raw-secret-in-effective-config name=%s", b.name)
		}
		if !strings.Contains(string(y), "[REDACTED]") {
			out.Linef("viol sig=C14/builtin/marker-missing-from-effective-config name=%s", b.name)
		}
	}
	for _, f := range []string{"%v", "%+v", "%#v", "%x", "%q", "%d", "%t", "%s"} {
		if r := c14Sprintf(f, b.cfg); has(r) {
			// %s/%q/%d/%t on a struct with pointer-to-struct fields: fmtPointer → badVerb → raw (known limitation of fmt)
			sig := "C14/fmt/invalid-verb-raw"
			if strings.ContainsAny(f, "vxq s") {
				sig = "C14/fmt/valid-verb-raw"
			}
			if viaPtr && !strings.ContainsAny(f, "vxXdpbo") {
				sig = "C14/fmt/nested-pointer-badverb-raw"
			}
			out.Linef("viol sig=%s builtin=%s format=%s", sig, b.name, vHex(f))
		}
	}
	if j, err := json.Marshal(b.cfg); err == nil && has(string(j)) {
		out.Linef("viol sig=C14/json/value-raw builtin=%s", b.name)
	}
	enc := zapcore.NewJSONEncoder(zapcore.EncoderConfig{MessageKey: "m"})
	for _, fld := range []zap.Field{zap.Any("cfg", b.cfg), zap.Reflect("cfg", b.cfg), zap.Stringer("cfg", c14Stringer{b.cfg})} {
		if buf, err := enc.EncodeEntry(zapcore.Entry{Message: "x"}, []zap.Field{fld}); err == nil && has(buf.String()) {
			out.Linef("viol sig=C14/zap/field-raw builtin=%s", b.name)
		}
	}
	out.Linef("nt")
	out.Linef("end")
	out.Flush()
}

type c14Stringer struct{ v any }

func (s c14Stringer) String() string { return fmt.Sprintf("%+v", s.v) }

// ---- "unmarshalling stores the secret unchanged" ----

type c14PlainInner struct {
	Secret configopaque.String `mapstructure:"secret"`
	X      int                 `mapstructure:"x"`
}

type c14UnmInner struct {
	Secret configopaque.String `mapstructure:"secret"`
	X      int                 `mapstructure:"x"`
}

func (c *c14UnmInner) Unmarshal(conf *confmap.Conf) error {
	return conf.Unmarshal(c, confmap.WithIgnoreUnused())
}

type c14UnmTarget struct {
	Direct  configopaque.String            `mapstructure:"direct"`
	Ptr     *configopaque.String           `mapstructure:"ptr"`
	Headers map[string]configopaque.String `mapstructure:"headers"`
	List    []configopaque.String          `mapstructure:"list"`
	Nested  c14PlainInner                  `mapstructure:"nested"`
	NestedU c14UnmInner                    `mapstructure:"nested_u"` // own Unmarshal, not squashed
	Plain   c14PlainInner                  `mapstructure:",squash"`
}

type c14UnmSquashNamed struct {
	Inner c14UnmInner `mapstructure:",squash"` // named field, squashed, own Unmarshal
	Y     int         `mapstructure:"y"`
}

func c14UnmarshalKeeps(out *vOut, c int) {
	out.Linef("case %d unmarshal", c)
	// secrets are ASCII here (the driver's hex codec is byte-per-char); the encoder harness covers non-ASCII
	for _, sec := range []string{"s3cr3t-%d-key", "[REDACTED]", "", "a b\n\"c\""} {
		var t c14UnmTarget
		err := confmap.NewFromStringMap(map[string]any{"direct": sec, "ptr": sec, "headers": map[string]any{"h": sec}, "list": []any{sec},
			"nested": map[string]any{"secret": sec}, "nested_u": map[string]any{"secret": sec}, "secret": sec}).Unmarshal(&t)
		if err != nil {
			out.Linef("viol sig=C14/unmarshal/error err=%s", vHex(err.Error()))
			continue
		}
		got := [][2]string{{"direct", string(t.Direct)}, {"headers", string(t.Headers["h"])}, {"nested", string(t.Nested.Secret)},
			{"nested_unmarshaler", string(t.NestedU.Secret)}, {"squash_plain", string(t.Plain.Secret)}}
		if t.Ptr != nil {
			got = append(got, [2]string{"ptr", string(*t.Ptr)})
		}
		if len(t.List) == 1 {
			got = append(got, [2]string{"list", string(t.List[0])})
		}
		for _, kv := range got {
			out.Linef("op unm pos=%s hook=0 sec=%s", kv[0], vHex(sec))
			out.Linef("obs stored %s", vHex(kv[1]))
			if kv[1] != sec {
				out.Linef("viol sig=C14/unmarshal/secret-changed position=%s wrote=%s got=%s", kv[0], vHex(sec), vHex(kv[1]))
			}
		}
		var n c14UnmSquashNamed
		err = confmap.NewFromStringMap(map[string]any{"secret": sec, "y": 1}).Unmarshal(&n)
		out.Linef("op unm pos=squash_named_unmarshaler hook=1 sec=%s", vHex(sec))
		if err != nil {
			out.Linef("obs error")
		} else {
			out.Linef("obs stored %s", vHex(string(n.Inner.Secret)))
			if string(n.Inner.Secret) != sec {
				out.Linef("viol sig=C14/unmarshal/squashed-unmarshaler-stores-marker wrote=%s got=%s", vHex(sec), vHex(string(n.Inner.Secret)))
			}
		}
	}
	out.Linef("nt")
	out.Linef("end")
	out.Flush()
}

// ---- secrets that arrive through a provider expansion (${scheme:…}) ----------------------------------
// The resolver parses the provider's bytes as YAML; a secret that reads as a non-string YAML scalar
// (digits, hex, exponent, bool, null, date, a flow sequence like "[REDACTED]") is carried as an
// expandedValue with its original text, and the decode hook must hand the ORIGINAL text to every target
// of string kind — configopaque.String included.

type c14MemProvider struct {
	main map[string]any
	vals map[string]string
}

func (p *c14MemProvider) Retrieve(_ context.Context, uri string, _ confmap.WatcherFunc) (*confmap.Retrieved, error) {
	key := strings.TrimPrefix(uri, "mem:")
	if key == "main" {
		return confmap.NewRetrieved(p.main)
	}
	return confmap.NewRetrievedFromYAML([]byte(p.vals[key])) // what envprovider / fileprovider do
}
func (*c14MemProvider) Scheme() string                 { return "mem" }
func (*c14MemProvider) Shutdown(context.Context) error { return nil }

type c14ExpTarget struct {
	Direct  configopaque.String            `mapstructure:"direct"`
	Ptr     *configopaque.String           `mapstructure:"ptr"`
	Headers map[string]configopaque.String `mapstructure:"headers"`
	List    []configopaque.String          `mapstructure:"list"`
	Nested  c14PlainInner                  `mapstructure:"nested"`
	Inline  configopaque.String            `mapstructure:"inline"`
}

func c14Resolve(main map[string]any, vals map[string]string, into any) (err error) {
	defer func() {
		if r := recover(); r != nil {
			err = fmt.Errorf("PANIC: %v", r)
		}
	}()
	p := &c14MemProvider{main: main, vals: vals}
	r, err := confmap.NewResolver(confmap.ResolverSettings{URIs: []string{"mem:main"},
		ProviderFactories: []confmap.ProviderFactory{confmap.NewProviderFactory(func(confmap.ProviderSettings) confmap.Provider { return p })}})
	if err != nil {
		return err
	}
	conf, err := r.Resolve(context.Background())
	if err != nil {
		return err
	}
	return conf.Unmarshal(into)
}

func c14UnmarshalExpanded(out *vOut, c int) {
	out.Linef("case %d unmarshal-expanded", c)
	secrets := []string{"s3cr3t-plain-Qx", "8675309421", "0042915", "0x1F4A77", "1e6", "-17", "3.14159", "true", "false", "null", "~",
		"2024-01-02", "2001-12-14T21:59:43.10-05:00", "[REDACTED]", "0o777", ".inf", "yes", "12:30:45", "0b1011", "+12e03", "1_000_000"}
	type pos struct {
		name string
		main map[string]any
		get  func(t *c14ExpTarget) string
		want func(sec string) string
	}
	same := func(s string) string { return s }
	positions := []pos{
		{"direct", map[string]any{"direct": "${mem:s}"}, func(t *c14ExpTarget) string { return string(t.Direct) }, same},
		{"ptr", map[string]any{"ptr": "${mem:s}"}, func(t *c14ExpTarget) string {
			if t.Ptr == nil {
				return "<nil pointer>"
			}
			return string(*t.Ptr)
		}, same},
		{"headers", map[string]any{"headers": map[string]any{"h": "${mem:s}"}}, func(t *c14ExpTarget) string { return string(t.Headers["h"]) }, same},
		{"list", map[string]any{"list": []any{"${mem:s}"}}, func(t *c14ExpTarget) string {
			if len(t.List) != 1 {
				return fmt.Sprintf("<%d elements>", len(t.List))
			}
			return string(t.List[0])
		}, same},
		{"nested", map[string]any{"nested": map[string]any{"secret": "${mem:s}"}}, func(t *c14ExpTarget) string { return string(t.Nested.Secret) }, same},
		{"inline", map[string]any{"inline": "Bearer ${mem:s}"}, func(t *c14ExpTarget) string { return string(t.Inline) }, func(s string) string { return "Bearer " + s }},
	}
	for _, sec := range secrets {
		for _, p := range positions {
			var t c14ExpTarget
			err := c14Resolve(p.main, map[string]string{"s": sec}, &t)
			want := p.want(sec)
			out.Linef("op unm pos=expanded_%s hook=0 sec=%s", p.name, vHex(want))
			if err != nil {
				out.Linef("obs error")
				out.Linef("viol sig=C14/unmarshal/expanded-secret-rejected/%s wrote=%s err_has_secret=%d", p.name, vHex(sec), vB(strings.Contains(err.Error(), sec)))
				if strings.Contains(err.Error(), sec) {
					out.Linef("viol sig=C14/error-text/secret-in-unmarshal-error/expanded-%s wrote=%s err=%s", p.name, vHex(sec), vHex(err.Error()))
				}
				continue
			}
			got := p.get(&t)
			out.Linef("obs stored %s", vHex(got))
			if got != want {
				out.Linef("viol sig=C14/unmarshal/expanded-secret-changed/%s wrote=%s got=%s", p.name, vHex(sec), vHex(got))
			}
		}
	}
	out.Linef("nt")
	out.Linef("end")
	out.Flush()
}

// ---- the error-text channel: errors of Unmarshal / Validate of configurations holding secrets -----------

type c14ErrTarget struct {
	Token   configopaque.String            `mapstructure:"token"`
	Headers map[string]configopaque.String `mapstructure:"headers"`
	Port    int                            `mapstructure:"port"`
	Inner   c14PlainInner                  `mapstructure:"inner"`
}

func c14ErrorTexts(out *vOut, c int) {
	out.Linef("case %d error-texts", c)
	out.Linef("op builtin name=error-texts")
	out.Linef("obs checked")
	const sec = "Zs3cr3t-err-channel-Qx"
	check := func(what string, err error) {
		out.Linef("stat error_texts_checked 1")
		if err == nil {
			out.Linef("viol sig=C14/error-text/expected-an-error what=%s", what)
			return
		}
		if strings.Contains(err.Error(), sec) || strings.Contains(fmt.Sprintf("%v %+v %q", err, err, err), sec) {
			out.Linef("viol sig=C14/error-text/secret-in-unmarshal-error what=%s err=%s", what, vHex(err.Error()))
		}
	}
	var t c14ErrTarget
	// a sibling setting is wrong: the error must not quote the whole map / the secret
	check("sibling-type-error", confmap.NewFromStringMap(map[string]any{"token": sec, "port": "not-a-number"}).Unmarshal(&t))
	check("unknown-sibling-key", confmap.NewFromStringMap(map[string]any{"token": sec, "bogus": 1}).Unmarshal(&t))
	check("unknown-key-next-to-header", confmap.NewFromStringMap(map[string]any{"headers": map[string]any{"authorization": sec}, "inner": map[string]any{"secret": sec, "zz": 1}}).Unmarshal(&t))
	check("secret-of-wrong-kind-next-to-it", confmap.NewFromStringMap(map[string]any{"token": sec, "headers": map[string]any{"a": []any{1}}}).Unmarshal(&t))
	// built-in components: invalid sibling settings next to secrets, through Unmarshal and Validate
	for _, b := range c14Builtins() {
		viaPtr := false
		cfg := b.cfg
		c14Inject(reflect.ValueOf(cfg), sec, 0, &viaPtr)
		m, err := c14Marshal(cfg) // redacted map: only used to find the keys
		if err != nil {
			continue
		}
		_ = m
		fresh := c14FreshBuiltin(b.name)
		// headers carry the secret, a sibling key is unknown
		w := map[string]any{"zz_unknown": 1}
		switch b.name {
		case "otlpreceiver":
			w = map[string]any{"protocols": map[string]any{"http": map[string]any{"response_headers": map[string]any{"x": sec}, "zz_unknown": 1}}}
		default:
			w["headers"] = map[string]any{"authorization": sec}
		}
		check("builtin-unknown-key/"+b.name, confmap.NewFromStringMap(w).Unmarshal(fresh))
		if v, ok := cfg.(interface{ Validate() error }); ok {
			if err := v.Validate(); err != nil && strings.Contains(err.Error(), sec) {
				out.Linef("viol sig=C14/error-text/secret-in-validate-error builtin=%s err=%s", b.name, vHex(err.Error()))
			}
		}
	}
	out.Linef("nt")
	out.Linef("end")
	out.Flush()
}

func c14FreshBuiltin(name string) any {
	for _, b := range c14Builtins() {
		if b.name == name {
			return b.cfg
		}
	}
	return nil
}

// c14LiveLeaves walks a marshalled configuration map. shape: the container path (m = map value, l = list
// element) followed by the dynamic type of the leaf.
func c14LiveLeaves(v any, shape string, report func(shape, what string), secrets []string) {
	switch x := v.(type) {
	case nil:
		return
	case map[string]any:
		keys := make([]string, 0, len(x))
		for k := range x {
			keys = append(keys, k)
		}
		sort.Strings(keys)
		for _, k := range keys {
			if c14ContainsAny(k, secrets) {
				report(shape+"m/key", "secret-in-key")
			}
			c14LiveLeaves(x[k], shape+"m", report, secrets)
		}
		return
	case []any:
		for _, e := range x {
			c14LiveLeaves(e, shape+"l", report, secrets)
		}
		return
	case string:
		if c14ContainsAny(x, secrets) {
			report(shape+"/string", "secret-text")
		}
		return
	case bool, int, int8, int16, int32, int64, uint, uint8, uint16, uint32, uint64, float32, float64:
		return
	}
	rv := reflect.ValueOf(v)
	switch rv.Kind() {
	case reflect.String:
		// a named string type survived the encoder: what a plain string target would receive is rv.String()
		what := "typed-string-kind-value"
		if c14ContainsAny(rv.String(), secrets) {
			what = "live-secret"
		}
		if _, isOpaque := v.(configopaque.String); isOpaque || what == "live-secret" {
			report(shape+"/"+rv.Type().String(), what)
		}
	case reflect.Array, reflect.Slice:
		// typed arrays are handed on by the encoder (modelled: Any.typed); their elements keep the opaque type,
		// renderers go through its methods — reported only as a statistic by the caller
	}
}

// ---- secrets with leading / trailing white space ---------------------------------------------------------------
// "unmarshalling stores the secret unchanged": byte for byte, also when the secret begins or ends with blanks, tabs, a
// newline (PEM blocks, YAML block scalars), NBSP, U+3000 or consists of white space only. Decoded through confmap.Unmarshal
// (scalar, pointer, slice element, map value, the real confighttp.ClientConfig.Headers), the real Resolver with a provider
// expansion, encoding/json and yaml.

type c14WSTarget struct {
	Direct  configopaque.String            `mapstructure:"direct" json:"direct" yaml:"direct"`
	Ptr     *configopaque.String           `mapstructure:"ptr" json:"ptr" yaml:"ptr"`
	List    []configopaque.String          `mapstructure:"list" json:"list" yaml:"list"`
	Headers map[string]configopaque.String `mapstructure:"headers" json:"headers" yaml:"headers"`
	Nested  struct {
		Secret configopaque.String `mapstructure:"secret" json:"secret" yaml:"secret"`
	} `mapstructure:"nested" json:"nested" yaml:"nested"`
}

func (t *c14WSTarget) stored() [][2]string {
	out := [][2]string{{"scalar", string(t.Direct)}, {"map-value", string(t.Headers["h"])}, {"nested", string(t.Nested.Secret)}}
	if t.Ptr != nil {
		out = append(out, [2]string{"pointer", string(*t.Ptr)})
	} else {
		out = append(out, [2]string{"pointer", "<nil pointer>"})
	}
	if len(t.List) == 1 {
		out = append(out, [2]string{"slice-element", string(t.List[0])})
	} else {
		out = append(out, [2]string{"slice-element", fmt.Sprintf("<%d elements>", len(t.List))})
	}
	return out
}

func c14WhitespaceSecrets(out *vOut, c int) {
	out.Linef("case %d unmarshal-white-space", c)
	out.Linef("op builtin name=unmarshal-white-space")
	out.Linef("obs checked")
	core := "s3cr3t-ws-Qx"
	kinds := [][2]string{
		{"leading-blank", " " + core}, {"trailing-blank", core + " "}, {"both-blanks", "  " + core + "  "},
		{"leading-tab", "\t" + core}, {"trailing-tab", core + "\t"},
		{"trailing-newline", core + "\n"}, {"pem-block", "-----BEGIN KEY-----\nAAAA\n-----END KEY-----\n"}, {"leading-newline", "\n" + core},
		{"trailing-crlf", core + "\r\n"}, {"nbsp", "\u00a0" + core + "\u00a0"}, {"ideographic-space", "\u3000" + core + "\u3000"},
		{"only-blanks", "   "}, {"only-newline", "\n"}, {"only-nbsp", "\u00a0"}, {"inner-only", "a  b"},
	}
	alter := func(via, pos, kind, want, got string) {
		if got != want {
			out.Linef("viol sig=C14/unmarshal/secret-altered/%s/%s/%s wrote=%s got=%s", via, pos, kind, vHex(want), vHex(got))
		}
	}
	for _, k := range kinds {
		kind, sec := k[0], k[1]
		doc := map[string]any{"direct": sec, "ptr": sec, "list": []any{sec}, "headers": map[string]any{"h": sec}, "nested": map[string]any{"secret": sec}}
		// confmap.Unmarshal of a plain map
		var t1 c14WSTarget
		if err := confmap.NewFromStringMap(doc).Unmarshal(&t1); err != nil {
			out.Linef("viol sig=C14/unmarshal/secret-rejected/confmap/%s err=%s", kind, vHex(err.Error()))
		} else {
			for _, st := range t1.stored() {
				alter("confmap", st[0], kind, sec, st[1])
			}
		}
		// the real client configuration's headers map
		hc := confighttp.NewDefaultClientConfig()
		if err := confmap.NewFromStringMap(map[string]any{"headers": map[string]any{"authorization": sec}}).Unmarshal(&hc); err != nil {
			out.Linef("viol sig=C14/unmarshal/secret-rejected/confighttp-headers/%s err=%s", kind, vHex(err.Error()))
		} else {
			alter("confmap", "confighttp.ClientConfig.Headers", kind, sec, string(hc.Headers["authorization"]))
		}
		// through the real Resolver, the secret arriving by a provider expansion (file / env style: the provider's bytes)
		var t2 c14ExpTarget
		if err := c14Resolve(map[string]any{"direct": "${mem:s}", "headers": map[string]any{"h": "${mem:s}"}, "list": []any{"${mem:s}"}, "nested": map[string]any{"secret": "${mem:s}"}},
			map[string]string{"s": sec}, &t2); err != nil { // the provider's raw bytes, as env / file providers hand them over
			out.Linef("viol sig=C14/unmarshal/secret-rejected/resolver/%s err=%s", kind, vHex(err.Error()))
		} else {
			alter("resolver", "scalar", kind, sec, string(t2.Direct))
			alter("resolver", "map-value", kind, sec, string(t2.Headers["h"]))
			alter("resolver", "nested", kind, sec, string(t2.Nested.Secret))
			if len(t2.List) == 1 {
				alter("resolver", "slice-element", kind, sec, string(t2.List[0]))
			}
		}
		// encoding/json
		if jb, err := json.Marshal(doc); err == nil {
			var t3 c14WSTarget
			if err := json.Unmarshal(jb, &t3); err != nil {
				out.Linef("viol sig=C14/unmarshal/secret-rejected/json/%s err=%s", kind, vHex(err.Error()))
			} else {
				for _, st := range t3.stored() {
					alter("json", st[0], kind, sec, st[1])
				}
			}
		}
		// yaml
		if yb, err := json.Marshal(doc); err == nil { // flow style (JSON is YAML): yaml.Marshal itself emits an unparsable block list for "\n…"
			var t4 c14WSTarget
			if err := yaml.Unmarshal(yb, &t4); err != nil {
				out.Linef("viol sig=C14/unmarshal/secret-rejected/yaml/%s err=%s", kind, vHex(err.Error()))
			} else {
				for _, st := range t4.stored() {
					alter("yaml", st[0], kind, sec, st[1])
				}
			}
		}
		out.Linef("stat white_space_secret_kinds 1")
	}
	out.Linef("nt")
	out.Linef("end")
	out.Flush()
}

// ---- Marshalers that merge raw values -------------------------------------------------------------------------
// a type's Marshal(*confmap.Conf) may hand its fields to the Conf with conf.Merge(NewFromStringMap(...)) instead of
// conf.Marshal: the values then reach the TextMarshaler hook only because encodeStruct walks the hook's result again.
// Root (pointer operand), nested field, slice element, map value, pointer field, with a map[string]opaque inside.

type c14MergeHdrs struct {
	Token configopaque.String
	Hdrs  map[string]configopaque.String
	Raw   map[string]any
}

func (c c14MergeHdrs) Marshal(conf *confmap.Conf) error {
	return conf.Merge(confmap.NewFromStringMap(map[string]any{"token": c.Token, "hdrs": c.Hdrs, "raw": c.Raw}))
}

func c14MergingMarshalers(out *vOut, c int) {
	out.Linef("case %d merging-marshalers", c)
	out.Linef("op builtin name=merging-marshalers")
	out.Linef("obs checked")
	const sec = "Qm3rg3-s3cr3t-Zx"
	mk := func() c14MergeHdrs {
		return c14MergeHdrs{Token: sec, Hdrs: map[string]configopaque.String{"authorization": sec},
			Raw: map[string]any{"k": configopaque.String(sec), "l": []any{configopaque.String(sec)}, "m": map[string]any{"n": configopaque.String(sec)}}}
	}
	inner := mk()
	shapes := []struct {
		name string
		v    any
	}{
		{"root-pointer", &inner},
		{"field", struct {
			X c14MergeHdrs `mapstructure:"x"`
		}{mk()}},
		{"pointer-field", struct {
			X *c14MergeHdrs `mapstructure:"x"`
		}{&inner}},
		{"slice-element", struct {
			L []c14MergeHdrs `mapstructure:"l"`
		}{[]c14MergeHdrs{mk(), mk()}}},
		{"map-value", struct {
			M map[string]c14MergeHdrs `mapstructure:"m"`
		}{map[string]c14MergeHdrs{"a": mk()}}},
		{"any-field", struct {
			A any `mapstructure:"a"`
		}{mk()}},
		{"nested-twice", struct {
			O struct {
				X c14MergeHdrs `mapstructure:"x"`
			} `mapstructure:"o"`
		}{struct {
			X c14MergeHdrs `mapstructure:"x"`
		}{mk()}}},
		{"squashed", struct {
			X c14MergeHdrs `mapstructure:",squash"`
		}{mk()}},
	}
	for _, sh := range shapes {
		m, err := c14Marshal(sh.v)
		if err != nil {
			out.Linef("stat merging_marshaler_rejected 1")
			continue
		}
		c14LiveLeaves(m, "", func(shape, what string) {
			out.Linef("viol sig=C14/encode/live-opaque-value-in-marshalled-map/%s what=%s input=merging-marshaler/%s", shape, what, sh.name)
		}, []string{sec})
		// what an extension does with the effective configuration: Get, Unmarshal into plain fields, print
		conf := confmap.NewFromStringMap(m)
		var plain map[string]any
		_ = conf.Unmarshal(&plain)
		if c14ContainsAny(fmt.Sprintf("%v %#v", m, plain), []string{sec}) {
			out.Linef("viol sig=C14/encode/live-opaque-value-in-marshalled-map/printed what=secret-text input=merging-marshaler/%s", sh.name)
		}
		out.Linef("stat merging_marshaler_shapes 1")
	}
	out.Linef("nt")
	out.Linef("end")
	out.Flush()
}
