//go:build verif

package e2e

import (
	"bytes"
	"encoding/gob"
	"encoding/json"
	"errors"
	"fmt"
	"log/slog"
	"os"
	"reflect"
	"strings"
	"testing"
	"time"

	"go.uber.org/zap"
	"go.uber.org/zap/zapcore"
	yaml "sigs.k8s.io/yaml/goyaml.v3"

	"go.opentelemetry.io/collector/config/configopaque"
)

// ---- twin types of string kind with chosen method sets; every method records its letter ----

var c14Calls []byte

type (
	c14tNone  string
	c14tS     string
	c14tSG    string
	c14tSGTB  string // the pinned type
	c14tFSGTB string // the repaired type
	c14tE     string
	c14tG     string
	c14tF     string
	c14tSE    string
	c14tPS    string // Stringer with a pointer receiver
)

func (s c14tS) String() string                     { c14Calls = append(c14Calls, 'S'); return "M" }
func (s c14tSG) String() string                    { c14Calls = append(c14Calls, 'S'); return "M" }
func (s c14tSG) GoString() string                  { c14Calls = append(c14Calls, 'G'); return "M" }
func (s c14tSGTB) String() string                  { c14Calls = append(c14Calls, 'S'); return "M" }
func (s c14tSGTB) GoString() string                { c14Calls = append(c14Calls, 'G'); return "M" }
func (s c14tSGTB) MarshalText() ([]byte, error)    { return []byte("M"), nil }
func (s c14tSGTB) MarshalBinary() ([]byte, error)  { return []byte("M"), nil }
func (s c14tFSGTB) String() string                 { c14Calls = append(c14Calls, 'S'); return "M" }
func (s c14tFSGTB) GoString() string               { c14Calls = append(c14Calls, 'G'); return "M" }
func (s c14tFSGTB) MarshalText() ([]byte, error)   { return []byte("M"), nil }
func (s c14tFSGTB) MarshalBinary() ([]byte, error) { return []byte("M"), nil }
func (s c14tFSGTB) Format(f fmt.State, verb rune) {
	c14Calls = append(c14Calls, 'F')
	fmt.Fprintf(f, fmt.FormatString(f, verb), "M")
}
func (s c14tE) Error() string    { c14Calls = append(c14Calls, 'E'); return "M" }
func (s c14tG) GoString() string { c14Calls = append(c14Calls, 'G'); return "M" }
func (s c14tF) Format(f fmt.State, verb rune) {
	c14Calls = append(c14Calls, 'F')
	fmt.Fprintf(f, fmt.FormatString(f, verb), "M")
}
func (s c14tSE) String() string { c14Calls = append(c14Calls, 'S'); return "M" }
func (s c14tSE) Error() string  { c14Calls = append(c14Calls, 'E'); return "M" }

// fmt calls a pointer-receiver String() also on a typed NIL *T (a nil element of map[K]*T, a nil *T field): there is no value
// and no secret behind it, and the operand-tree notation renders it as `Z` like every other nil — such calls are not leaves
// of the model and are not recorded (seeds 15839 / 23758 of the thorough tier drew such shapes).
func (s *c14tPS) String() string {
	if s != nil {
		c14Calls = append(c14Calls, 'S')
	}
	return "M"
}

type c14TD struct {
	spec string
	t    reflect.Type
}

func c14TDs() []c14TD {
	return []c14TD{
		{"real", reflect.TypeOf(configopaque.String(""))},
		{"-", reflect.TypeOf(c14tNone(""))},
		{"S", reflect.TypeOf(c14tS(""))},
		{"SG", reflect.TypeOf(c14tSG(""))},
		{"SGTB", reflect.TypeOf(c14tSGTB(""))},
		{"FSGTB", reflect.TypeOf(c14tFSGTB(""))},
		{"E", reflect.TypeOf(c14tE(""))},
		{"G", reflect.TypeOf(c14tG(""))},
		{"F", reflect.TypeOf(c14tF(""))},
		{"SE", reflect.TypeOf(c14tSE(""))},
		{"s", reflect.TypeOf(c14tPS(""))},
	}
}

// the two secret environments: differ in the first byte (so any precision ≥ 1 shows a difference),
// contain format directives, the marker and non-ASCII text
var (
	c14SecA = []string{"Qs3cr3t-%d-%s-[REDACTED]-ключ-0", "Qpw%v\"'\\-1", ""} // the third secret is empty in environment A
	c14SecB = []string{"W0ther-%d-%s-[REDACTED]-鍵-0-longer", "Wzz%v\"'\\-1", "W2"}
)

func c14IsFlagRune(r rune) bool {
	return r == '#' || r == '+' || r == '-' || r == ' ' || r == '0' || (r >= '1' && r <= '9') || r == '.' || r == '*' || r == '[' || r == '%'
}

func c14Verbs() []rune {
	var vs []rune
	for r := rune(33); r < 127; r++ {
		if !c14IsFlagRune(r) {
			vs = append(vs, r)
		}
	}
	return append(vs, 'é', '世', 0x1F600, 0x7f, 1)
}

type c14Flags struct {
	flags string
	width string
	prec  string
}

func (f c14Flags) String() string { return f.flags + f.width + f.prec }

func c14FlagSets(all bool) []c14Flags {
	var out []c14Flags
	fl := []string{"", "#", "+", "#+", "-", " ", "0", "#0", "+- #0"}
	if all {
		fl = nil
		for m := 0; m < 32; m++ {
			s := ""
			for i, c := range "#+- 0" {
				if m&(1<<i) != 0 {
					s += string(c)
				}
			}
			fl = append(fl, s)
		}
	}
	for _, f := range fl {
		for _, w := range []string{"", "30"} {
			for _, p := range []string{"", ".0", ".3"} {
				out = append(out, c14Flags{f, w, p})
			}
		}
	}
	return out
}

// render builds the operand with secrets A, renders, refills in place with secrets B, renders again.
type c14Operand struct {
	root reflect.Value
	v    *c14Val
	leaf reflect.Type
}

func c14NewOperand(v *c14Val, leaf reflect.Type) *c14Operand {
	rt := v.t.rtype(leaf)
	root := reflect.New(rt).Elem()
	v.fill(root, leaf, c14SecA, false)
	return &c14Operand{root: root, v: v, leaf: leaf}
}

func (o *c14Operand) set(sec []string) { o.v.fill(o.root, o.leaf, sec, true) }
func (o *c14Operand) arg() any {
	if o.root.Kind() == reflect.Interface && o.root.IsNil() {
		return nil
	}
	return o.root.Interface()
}

func c14Classify(verb rune, v *c14Val) string {
	switch {
	case verb == 'w':
		return "C14/fmt/verb-w-badverb-raw"
	case verb == 'p':
		return "C14/fmt/verb-p-badverb-raw"
	case c14NestedPtr(v, true):
		return "C14/fmt/nested-pointer-badverb-raw"
	case strings.ContainsRune("vsxXq", verb):
		return "C14/fmt/valid-verb-raw"
	}
	return "C14/fmt/invalid-verb-raw"
}

// c14NestedPtr mirrors the Lean `!plainTop`: a pointer below the top (or a top-level pointer to a
// non-container) whose pointee is not directly the opaque string.
func c14NestedPtr(v *c14Val, top bool) bool {
	for v.k == 'I' && top {
		v = v.kids[0]
	}
	if v.k == 'P' {
		w := v.kids[0]
		if w.k == 'O' {
			return false
		}
		if top && strings.IndexByte("LlAMmT", w.k) >= 0 {
			return c14NestedPtrIn(w)
		}
		return true
	}
	return c14NestedPtrIn(v)
}

func c14NestedPtrIn(v *c14Val) bool {
	if v.k == 'P' {
		return v.kids[0].k != 'O'
	}
	for _, k := range v.kids {
		if c14NestedPtrIn(k) {
			return true
		}
	}
	return false
}

func c14HasUnexported(v *c14Val) bool {
	if v.k == 'T' {
		for _, f := range v.t.fields {
			if !f.exported {
				return true
			}
		}
	}
	for _, k := range v.kids {
		if c14HasUnexported(k) {
			return true
		}
	}
	return false
}

// TestVerifC14Fmt: every verb × flag set × width/precision on the real fmt library, for the real
// type and for twin types with other method sets, over fixed and generated container shapes;
// then the Print/Errorf wrappers and the marshalling libraries.
func TestVerifC14Fmt(t *testing.T) {
	out := vOpen(t)
	defer out.Close()
	out.Linef("model c14-fmt 1")
	if os.Getenv("VERIF_C14_THOROUGH_ONLY") != "" && !vThorough() {
		return // the second-toolchain run is part of the thorough tier only
	}
	verbs := c14Verbs()
	tds := c14TDs()
	fixed := c14FixedShapes()
	n := vN(60)
	type job struct {
		td    c14TD
		v     *c14Val
		flags []c14Flags
	}
	quickFlags := c14FlagSets(false)
	allFlags := c14FlagSets(vThorough())
	twinFlags := []c14Flags{{"", "", ""}, {"#", "", ""}, {"+", "", ".0"}, {"#", "12", ".2"}}
	var jobs []job
	for _, td := range tds {
		for _, sh := range fixed {
			fl := twinFlags
			if td.spec == "real" {
				fl = allFlags
			} else if vThorough() {
				fl = quickFlags
			}
			jobs = append(jobs, job{td, sh, fl})
		}
	}
	nFixed := len(jobs)
	for i := 0; i < n; i++ {
		jobs = append(jobs, job{}) // generated below, from the case's own rand
	}
	for _, c := range vCases(len(jobs)) {
		if c >= len(jobs) {
			continue
		}
		j := jobs[c]
		if c >= nFixed {
			rnd := vRand(c)
			g := &c14Gen{rnd: rnd, nsec: 3, forFmt: true, maxDepth: 3}
			var v *c14Val
			for k := 0; k < 50; k++ {
				v = g.genVal(g.genType(0, false), 0)
				if v.hasOpaque() {
					break
				}
			}
			td := tds[0]
			if rnd.IntN(3) == 0 {
				td = tds[rnd.IntN(len(tds))]
			}
			j = job{td, v, twinFlags}
			if td.spec == "real" {
				j.flags = quickFlags
			}
		}
		out.Linef("case %d td=%s", c, j.td.spec)
		op := c14NewOperand(j.v, j.td.t)
		shape := j.v.String()
		unexp := c14HasUnexported(j.v)
		leaks := 0
		seenSig := map[string]bool{}
		for _, verb := range verbs {
			for _, fl := range j.flags {
				format := "%" + fl.String() + string(verb)
				sharpV := strings.Contains(fl.flags, "#") && (verb == 'v' || verb == 'w')
				op.set(c14SecA)
				c14Calls = c14Calls[:0]
				r1 := c14Sprintf(format, op.arg())
				calls := string(c14Calls)
				op.set(c14SecB)
				r2 := c14Sprintf(format, op.arg())
				if calls == "" {
					calls = "-"
				}
				if j.td.spec == "real" {
					calls = "?"
				}
				dep := vB(r1 != r2)
				out.Linef("op fmt td=%s verb=%d sharp=%d prec0=%d werr=0 : %s", j.td.spec, verb, vB(sharpV), vB(fl.prec == ".0"), shape)
				out.Linef("obs calls=%s dep=%d", calls, dep)
				if dep == 1 {
					leaks++
					if sig := c14Classify(verb, j.v); j.td.spec == "real" && !unexp && !seenSig[sig] {
						seenSig[sig] = true // one concrete witness per signature and case
						out.Linef("viol sig=%s format=%s shape=%s out=%s", sig, vHex(format), strings.ReplaceAll(shape, " ", "_"), vHex(r1))
					}
				}
			}
		}
		if j.td.spec == "real" && !unexp {
			// reference oracle for the value alone: every rendering equals the rendering of the plain marker
			if j.v.k == 'O' {
				for _, verb := range verbs {
					if verb == 'T' || verb == 'p' || verb == 'w' {
						continue
					}
					for _, fl := range j.flags {
						format := "%" + fl.String() + string(verb)
						op.set(c14SecA)
						if got, want := c14Sprintf(format, op.arg()), c14Sprintf(format, "[REDACTED]"); got != want {
							out.Linef("viol sig=C14/fmt/not-the-marker-rendering format=%s got=%s want=%s", vHex(format), vHex(got), vHex(want))
						}
					}
				}
			}
		}
		out.Linef("stat renderings %d", 2*len(verbs)*len(j.flags))
		out.Linef("stat dependent_renderings %d", leaks)
		if unexp {
			out.Linef("stat shapes_with_unexported_field 1")
		}
		if j.v.hasKind("PLAMT") {
			out.Linef("nt")
		}
		out.Linef("end")
		out.Flush()
	}
	if vEnvInt("VERIF_REPLAY_CASE", -1) >= 0 {
		return
	}
	c14Wrappers(out, 1000000)
	c14Paths(out, 1000001)
}

func c14Wrappers(out *vOut, c int) {
	out.Linef("case %d wrappers", c)
	a, b := configopaque.String(c14SecA[0]), configopaque.String(c14SecB[0])
	type w struct {
		name string
		f    func(s configopaque.String) string
	}
	ws := []w{
		{"sprint", func(s configopaque.String) string { return fmt.Sprint(s) }},
		{"sprintln", func(s configopaque.String) string { return fmt.Sprintln(s, s) }},
		{"sprint_slice", func(s configopaque.String) string { return fmt.Sprint([]configopaque.String{s}) }},
		{"errorf_v", func(s configopaque.String) string { return fmt.Errorf("bad header %v: %w", s, errors.New("x")).Error() }},
		{"extra", func(s configopaque.String) string { return fmt.Sprintf("%d", 1, s) }},
		{"extra_noverb", func(s configopaque.String) string { return fmt.Sprintf("no verbs", s) }},
		{"badindex", func(s configopaque.String) string { return fmt.Sprintf("%[3]d", s) }},
		{"badwidth", func(s configopaque.String) string { return fmt.Sprintf("%*d", s, 1) }},
		{"badprec", func(s configopaque.String) string { return fmt.Sprintf("%.*d", s, 1) }},
		{"noverb", func(s configopaque.String) string { return fmt.Sprintf("%", s) }},
		{"percent", func(s configopaque.String) string { return fmt.Sprintf("%%", s) }},
		{"fprint", func(s configopaque.String) string { var bb bytes.Buffer; fmt.Fprint(&bb, s); return bb.String() }},
		{"string_method", func(s configopaque.String) string { return s.String() }},
		{"gostring_method", func(s configopaque.String) string { return s.GoString() }},
		{"errors_new", func(s configopaque.String) string { return errors.New(s.String()).Error() }},
		{"time_unrelated", func(s configopaque.String) string { return fmt.Sprint(time.Duration(0), s) }},
	}
	for _, pr := range c14SecretPairs(c) {
		a, b = configopaque.String(pr[0]), configopaque.String(pr[1])
		for _, x := range ws {
			r1, r2 := x.f(a), x.f(b)
			out.Linef("op misc kind=%s", x.name)
			out.Linef("obs dep=%d", vB(r1 != r2))
			if r1 != r2 || (len(pr[0]) >= 8 && pr[0] != "[REDACTED]" && strings.Contains(r1, pr[0])) {
				out.Linef("viol sig=C14/fmt/wrapper-raw kind=%s out=%s", x.name, vHex(r1))
			}
		}
	}
	out.Linef("nt")
	out.Linef("end")
	out.Flush()
}

type c14JSONStruct struct {
	A configopaque.String            `json:"a" yaml:"a"`
	B []configopaque.String          `json:"b" yaml:"b"`
	C map[string]configopaque.String `json:"c" yaml:"c"`
	D *configopaque.String           `json:"d" yaml:"d"`
	E any                            `json:"e" yaml:"e"`
}

func c14Paths(out *vOut, c int) {
	out.Linef("case %d paths", c)
	type p struct {
		name, pos string
		f         func(s configopaque.String) (string, error)
		ref       func() (string, error) // the same path applied to the plain marker
	}
	js := func(v any) (string, error) { b, err := json.Marshal(v); return string(b), err }
	ym := func(v any) (string, error) { b, err := yaml.Marshal(v); return string(b), err }
	gb := func(v any) (string, error) {
		var bb bytes.Buffer
		err := gob.NewEncoder(&bb).Encode(v)
		return bb.String(), err
	}
	zp := func(f func(s configopaque.String) zap.Field) func(s configopaque.String) (string, error) {
		return func(s configopaque.String) (string, error) {
			enc := zapcore.NewJSONEncoder(zapcore.EncoderConfig{MessageKey: "m"})
			buf, err := enc.EncodeEntry(zapcore.Entry{Message: "x"}, []zap.Field{f(s)})
			if err != nil {
				return "", err
			}
			return buf.String(), nil
		}
	}
	zc := func(f func(s configopaque.String) zap.Field) func(s configopaque.String) (string, error) {
		return func(s configopaque.String) (string, error) {
			enc := zapcore.NewConsoleEncoder(zapcore.EncoderConfig{MessageKey: "m"})
			buf, err := enc.EncodeEntry(zapcore.Entry{Message: "x"}, []zap.Field{f(s)})
			if err != nil {
				return "", err
			}
			return buf.String(), nil
		}
	}
	sl := func(json bool, args func(s configopaque.String) []any) func(s configopaque.String) (string, error) {
		return func(s configopaque.String) (string, error) {
			var bb bytes.Buffer
			opts := &slog.HandlerOptions{ReplaceAttr: func(_ []string, a slog.Attr) slog.Attr {
				if a.Key == slog.TimeKey {
					return slog.Attr{}
				}
				return a
			}}
			var h slog.Handler = slog.NewTextHandler(&bb, opts)
			if json {
				h = slog.NewJSONHandler(&bb, opts)
			}
			slog.New(h).Info("x", args(s)...)
			return bb.String(), nil
		}
	}
	mk := func(s configopaque.String) c14JSONStruct {
		return c14JSONStruct{A: s, B: []configopaque.String{s}, C: map[string]configopaque.String{"k": s}, D: &s, E: s}
	}
	const m = "[REDACTED]"
	ps := []p{
		{"json", "value", func(s configopaque.String) (string, error) { return js(mk(s)) }, func() (string, error) {
			ms := m
			return js(struct {
				A string            `json:"a"`
				B []string          `json:"b"`
				C map[string]string `json:"c"`
				D *string           `json:"d"`
				E any               `json:"e"`
			}{m, []string{m}, map[string]string{"k": m}, &ms, m})
		}},
		{"json", "value", func(s configopaque.String) (string, error) { return js(c14MkShape2(s)) }, nil},
		{"json", "value", func(s configopaque.String) (string, error) {
			return js([]any{s, &s, map[string]any{"k": s, "l": []any{s}}})
		}, nil},
		{"yaml", "value", func(s configopaque.String) (string, error) { return ym(c14MkShape2(s)) }, nil},
		{"yaml", "value", func(s configopaque.String) (string, error) {
			return ym([]any{s, &s, map[string]any{"k": s, "l": []any{s}}})
		}, nil},
		{"json", "mapKey", func(s configopaque.String) (string, error) { return js(map[configopaque.String]int{s: 1}) }, func() (string, error) { return js(map[string]int{m: 1}) }},
		{"yaml", "value", func(s configopaque.String) (string, error) { return ym(mk(s)) }, func() (string, error) {
			ms := m
			return ym(struct {
				A string            `yaml:"a"`
				B []string          `yaml:"b"`
				C map[string]string `yaml:"c"`
				D *string           `yaml:"d"`
				E any               `yaml:"e"`
			}{m, []string{m}, map[string]string{"k": m}, &ms, m})
		}},
		{"yaml", "mapKey", func(s configopaque.String) (string, error) { return ym(map[configopaque.String]int{s: 1}) }, func() (string, error) { return ym(map[string]int{m: 1}) }},
		{"gob", "value", func(s configopaque.String) (string, error) {
			return gb(struct {
				A configopaque.String
				B []configopaque.String
			}{s, []configopaque.String{s}})
		}, nil},
		{"gob", "value", func(s configopaque.String) (string, error) { return gb([]configopaque.String{s, s}) }, nil},
		{"gob", "mapKey", func(s configopaque.String) (string, error) { return gb(map[configopaque.String]int{s: 1}) }, nil},
		{"text", "value", func(s configopaque.String) (string, error) { b, err := s.MarshalText(); return string(b), err }, func() (string, error) { return m, nil }},
		{"binary", "value", func(s configopaque.String) (string, error) { b, err := s.MarshalBinary(); return string(b), err }, func() (string, error) { return m, nil }},
		{"zap.Stringer", "value", zp(func(s configopaque.String) zap.Field { return zap.Stringer("k", s) }), func() (string, error) {
			return zp(func(configopaque.String) zap.Field { return zap.String("k", m) })("")
		}},
		{"zap.Any", "value", zp(func(s configopaque.String) zap.Field { return zap.Any("k", s) }), func() (string, error) {
			return zp(func(configopaque.String) zap.Field { return zap.String("k", m) })("")
		}},
		{"zap.Reflect", "value", zp(func(s configopaque.String) zap.Field { return zap.Reflect("k", mk(s)) }), nil},
		{"zapconsole.Stringer", "value", zc(func(s configopaque.String) zap.Field { return zap.Stringer("k", s) }), func() (string, error) {
			return zc(func(configopaque.String) zap.Field { return zap.String("k", m) })("")
		}},
		{"zapconsole.Any", "value", zc(func(s configopaque.String) zap.Field { return zap.Any("k", s) }), func() (string, error) {
			return zc(func(configopaque.String) zap.Field { return zap.String("k", m) })("")
		}},
		{"zapconsole.Reflect", "value", zc(func(s configopaque.String) zap.Field { return zap.Reflect("k", mk(s)) }), nil},
		{"slog.text", "value", sl(false, func(s configopaque.String) []any {
			return []any{"k", s, slog.Any("a", s), slog.Group("g", slog.Any("h", map[string]configopaque.String{"x": s})), "l", []configopaque.String{s}}
		}), nil},
		{"slog.json", "value", sl(true, func(s configopaque.String) []any {
			return []any{"k", s, slog.Any("a", s), slog.Group("g", slog.Any("h", map[string]configopaque.String{"x": s})), "l", []configopaque.String{s}, "st", mk(s)}
		}), nil},
		{"conv", "value", func(s configopaque.String) (string, error) { return string(s), nil }, nil},
	}
	gobStructIdx := -1
	for i, x := range ps {
		if x.name == "gob" && x.pos == "value" && gobStructIdx < 0 {
			gobStructIdx = i
		}
	}
	for _, pr := range c14SecretPairs(c) {
		a, b := configopaque.String(pr[0]), configopaque.String(pr[1])
		for xi, x := range ps {
			r1, e1 := x.f(a)
			r2, e2 := x.f(b)
			dep := r1 != r2
			if pr[0] == "" && xi == gobStructIdx {
				// gob omits a struct field holding the zero value before it looks at the type's marshalers: an EMPTY opaque
				// field is left out (reveals emptiness only, like `omitempty`); the empty pair uses the slice shape below
				out.Linef("stat gob_struct_field_skipped_for_empty_secret 1")
				continue
			}
			marker := !dep && strings.Contains(r1, m) && (len(pr[0]) < 8 || pr[0] == m || !strings.Contains(r1, pr[0]))
			if x.ref != nil {
				ref, _ := x.ref()
				marker = r1 == ref && r2 == ref // both environments (one of the secrets may BE the marker)
			}
			out.Linef("op path name=%s pos=%s", x.name, x.pos)
			if e1 != nil || e2 != nil {
				out.Linef("obs error")
				continue
			}
			out.Linef("obs dep=%d marker=%d", vB(dep), vB(marker))
			if x.name == "conv" {
				if r1 != pr[0] {
					out.Linef("viol sig=C14/conv/explicit-conversion-lost-the-secret")
				}
				continue
			}
			if dep {
				out.Linef("viol sig=C14/%s/%s-raw out=%s", x.name, x.pos, vHex(r1))
			}
		}
	}
	out.Linef("nt")
	out.Linef("end")
	out.Flush()
}

// c14SecretPairs: the secret environments of the wrapper / path cases — fixed classes (format directives and
// non-ASCII, the EMPTY secret, the marker itself, a very long one, single characters) plus pairs drawn per run.
func c14SecretPairs(c int) [][2]string {
	long := strings.Repeat("Zl0ng-", 200)
	ps := [][2]string{{c14SecA[0], c14SecB[0]}, {"", "Wb-nonempty"}, {"[REDACTED]", long}, {"a", "b"}, {"Q \n\t\"q\"", "{json:[1]}"}}
	rnd := vRand(c)
	alphabet := []rune("abcXYZ019 -_%:{}[]\"'\\éß世🔑")
	for i := 0; i < 3; i++ {
		mk := func() string {
			n := 1 + rnd.IntN(24)
			r := make([]rune, n)
			for j := range r {
				r[j] = alphabet[rnd.IntN(len(alphabet))]
			}
			return string(r)
		}
		x, y := mk(), mk()
		if x == y {
			y += "~"
		}
		ps = append(ps, [2]string{x, y})
	}
	return ps
}

type C14Emb struct {
	In configopaque.String `json:"in" yaml:"in"`
}

type c14Shape2 struct {
	C14Emb `yaml:",inline"`
	E      any                     `json:"e" yaml:"e"`
	M      map[string]any          `json:"m" yaml:"m"`
	P      **configopaque.String   `json:"p" yaml:"p"`
	L      [][]configopaque.String `json:"l" yaml:"l"`
	S      struct {
		X configopaque.String `json:"x" yaml:"x"`
	} `json:"s" yaml:"s"`
}

func c14MkShape2(s configopaque.String) c14Shape2 {
	ps := &s
	v := c14Shape2{C14Emb: C14Emb{In: s}, E: []any{s}, M: map[string]any{"a": s, "b": map[string]configopaque.String{"c": s}}, P: &ps, L: [][]configopaque.String{{s}}}
	v.S.X = s
	return v
}
