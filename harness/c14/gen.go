//go:build verif

package e2e

// Value trees for C14: a random *type* tree is generated first, then a value of it; the value is
// built with reflect (StructOf/SliceOf/MapOf/ArrayOf/PointerTo) from a leaf type of string kind
// (the real configopaque.String or a twin with a chosen method set), printed in the prefix notation
// the Lean driver parses, and can be re-filled in place with a second set of secrets (pointer
// identities are kept, so renderings that print addresses stay comparable).

import (
	"fmt"
	"math/rand/v2"
	"reflect"
	"sort"
	"strings"

	"go.opentelemetry.io/collector/config/configopaque"
	"go.opentelemetry.io/collector/confmap"
)

// a struct taken by marshalerHookFunc: its own Marshal marshals a free-form map[string]any holding an opaque
// string, a number and a nested free-form section
type C14Marsh struct {
	S configopaque.String
	N int
	M map[string]any
}

func (c C14Marsh) Marshal(conf *confmap.Conf) error {
	return conf.Marshal(map[string]any{"s": c.S, "n": c.N, "m": c.M})
}

// the same, but its Marshal MERGES the raw values into the Conf without re-entering conf.Marshal: the opaque string and
// the free-form section reach the encoder only when encodeStruct walks the map returned by the hook again
type C14MarshMerge struct {
	S configopaque.String
	N int
	M map[string]any
}

func (c C14MarshMerge) Marshal(conf *confmap.Conf) error {
	return conf.Merge(confmap.NewFromStringMap(map[string]any{"s": c.S, "n": c.N, "m": c.M}))
}

// a struct taken by YamlMarshalerHookFunc: yaml tags, no mapstructure tags
type C14Yaml struct {
	S configopaque.String `yaml:"s"`
	N int                 `yaml:"n"`
	P string              `yaml:"p"`
}

// structs whose type has MarshalText: on values (the encoder's TextMarshaler hook fires: one string) or
// only on pointers (the hook does not see it on the struct value: encoded field by field)
type C14TMV struct {
	S configopaque.String `mapstructure:"s"`
	N int                 `mapstructure:"n"`
}

func (C14TMV) MarshalText() ([]byte, error) { return []byte("tmv"), nil }

type C14TMP struct {
	S configopaque.String `mapstructure:"s"`
	N int                 `mapstructure:"n"`
}

func (*C14TMP) MarshalText() ([]byte, error) { return []byte("tmp"), nil }

type c14Type struct {
	k      byte // O opaque leaf, S string, N int, P ptr, I any, L slice, A array, M map, T struct
	elem   *c14Type
	key    *c14Type
	n      int // array length
	fields []c14Field
}

type c14Field struct {
	goName   string
	key      string // mapstructure key ("" with squash)
	exported bool
	omit     bool
	squash   bool
	remain   bool // `,remain` on a map[string]any (the encoder treats it like squash)
	tagged   bool // has a mapstructure tag at all
	t        *c14Type
}

// c14Val mirrors the Lean `GV`.
type c14Val struct {
	k    byte // O S N Z P I L l A M m T
	idx  int  // O: secret index
	s    string
	n    int
	kids []*c14Val // P/I: 1; L/A: elements; M: k0 v0 k1 v1 …; T: one per field
	t    *c14Type
}

type c14Gen struct {
	rnd      *rand.Rand
	nsec     int
	forFmt   bool // fmt shapes: allow unexported fields, opaque map keys; enc shapes: tags, omitempty, squash
	maxDepth int
}

func (g *c14Gen) genType(depth int, keyPos bool) *c14Type {
	if keyPos {
		switch g.rnd.IntN(4) {
		case 0:
			return &c14Type{k: 'O'}
		case 1:
			if !g.forFmt {
				return &c14Type{k: 'N'}
			}
			return &c14Type{k: 'S'}
		default:
			return &c14Type{k: 'S'}
		}
	}
	if depth >= g.maxDepth {
		switch g.rnd.IntN(5) {
		case 0:
			return &c14Type{k: 'S'}
		case 1:
			return &c14Type{k: 'N'}
		default:
			return &c14Type{k: 'O'}
		}
	}
	if !g.forFmt && g.rnd.IntN(10) == 0 {
		return &c14Type{k: "VW"[g.rnd.IntN(2)]}
	}
	if !g.forFmt && g.rnd.IntN(9) == 0 {
		if g.rnd.IntN(2) == 0 {
			return &c14Type{k: 'Y'}
		}
		return &c14Type{k: "HG"[g.rnd.IntN(2)], elem: &c14Type{k: 'M', key: &c14Type{k: 'S'}, elem: &c14Type{k: 'I'}}}
	}
	if !g.forFmt && g.rnd.IntN(7) == 0 {
		// free-form containers: map[string]any / []any (raw configuration sections)
		if g.rnd.IntN(2) == 0 {
			return &c14Type{k: 'M', key: &c14Type{k: 'S'}, elem: &c14Type{k: 'I'}}
		}
		return &c14Type{k: 'L', elem: &c14Type{k: 'I'}}
	}
	switch g.rnd.IntN(12) {
	case 0, 1:
		return &c14Type{k: 'O'}
	case 2:
		return &c14Type{k: 'S'}
	case 3:
		return &c14Type{k: 'P', elem: g.genType(depth+1, false)}
	case 4:
		return &c14Type{k: 'I', elem: nil}
	case 5, 6:
		return &c14Type{k: 'L', elem: g.genType(depth+1, false)}
	case 7:
		// arrays are handed on by the encoder as typed Go values; element types are kept to leaves
		// (an array holding a nil pointer makes confmap.Marshal panic in reflect — outside this property)
		return &c14Type{k: 'A', elem: g.genType(g.maxDepth, false), n: 1 + g.rnd.IntN(2)}
	case 8, 9:
		return &c14Type{k: 'M', key: g.genType(depth+1, true), elem: g.genType(depth+1, false)}
	default:
		return g.genStruct(depth)
	}
}

func (g *c14Gen) genStruct(depth int) *c14Type {
	nf := 1 + g.rnd.IntN(3)
	t := &c14Type{k: 'T'}
	for i := 0; i < nf; i++ {
		f := c14Field{exported: true, tagged: true, t: g.genType(depth+1, false)}
		f.goName = fmt.Sprintf("F%d", i)
		f.key = fmt.Sprintf("k%d", g.rnd.IntN(4)) // collisions on purpose: later field overwrites
		if g.forFmt {
			if g.rnd.IntN(6) == 0 {
				f.exported = false
				f.goName = fmt.Sprintf("f%d", i)
			}
		} else {
			switch g.rnd.IntN(10) {
			case 0:
				f.exported = false
				f.goName = fmt.Sprintf("f%d", i)
			case 1:
				f.key = "-"
			case 2:
				f.tagged = false
				f.key = strings.ToLower(f.goName)
			case 3, 4:
				f.squash = true
				f.key = ""
				if g.rnd.IntN(2) == 0 {
					// a `,remain` section: free-form map[string]any
					f.remain = true
					f.t = &c14Type{k: 'M', key: &c14Type{k: 'S'}, elem: &c14Type{k: 'I'}}
				}
			}
			f.omit = f.tagged && g.rnd.IntN(3) == 0
		}
		t.fields = append(t.fields, f)
	}
	return t
}

func (g *c14Gen) genVal(t *c14Type, depth int) *c14Val {
	v := &c14Val{k: t.k, t: t}
	switch t.k {
	case 'O':
		v.idx = g.rnd.IntN(g.nsec)
	case 'V', 'W':
		v.idx = g.rnd.IntN(g.nsec)
		v.n = g.rnd.IntN(2)
	case 'Y':
		v.idx = g.rnd.IntN(g.nsec)
		v.n = g.rnd.IntN(3)
		v.s = []string{"", "a", "plain text", "[REDACTED]"}[g.rnd.IntN(4)]
	case 'H', 'G':
		v.idx = g.rnd.IntN(g.nsec)
		v.n = g.rnd.IntN(3)
		v.kids = []*c14Val{g.genVal(t.elem, depth+1)}
	case 'S':
		v.s = []string{"", "a", "b", "plain text", "[REDACTED]"}[g.rnd.IntN(5)]
	case 'N':
		v.n = g.rnd.IntN(3)
	case 'P':
		if g.rnd.IntN(6) == 0 {
			v.k = 'Z'
		} else {
			v.kids = []*c14Val{g.genVal(t.elem, depth+1)}
		}
	case 'I':
		if g.rnd.IntN(6) == 0 {
			v.k = 'Z'
		} else {
			dyn := g.genType(depth+1, false)
			for dyn.k == 'I' {
				dyn = g.genType(depth+1, false)
			}
			if !g.forFmt && g.rnd.IntN(5) < 2 {
				dyn = &c14Type{k: 'O'} // an opaque string held in an `any`
			}
			v.kids = []*c14Val{g.genVal(dyn, depth+1)}
		}
	case 'L':
		if g.rnd.IntN(6) == 0 {
			v.k = 'l'
		} else {
			for i, n := 0, g.rnd.IntN(3); i < n; i++ {
				v.kids = append(v.kids, g.genVal(t.elem, depth+1))
			}
		}
	case 'A':
		for i := 0; i < t.n; i++ {
			v.kids = append(v.kids, g.genVal(t.elem, depth+1))
		}
	case 'M':
		if g.rnd.IntN(6) == 0 {
			v.k = 'm'
		} else {
			n := g.rnd.IntN(3)
			if g.forFmt && t.key.k == 'S' {
				n = g.rnd.IntN(4) // plain keys: several entries (the headers case); printed in fmtsort order below
			} else if g.forFmt && n > 1 {
				n = 1 // fmt sorts OPAQUE map keys by their raw value: the entry order would depend on the secrets
			}
			seen := map[string]bool{}
			for i := 0; i < n; i++ {
				k := g.genVal(t.key, depth+1)
				id := fmt.Sprintf("%c/%d/%s/%d", k.k, k.idx, k.s, k.n)
				if seen[id] {
					continue // a Go map cannot hold the same key twice
				}
				seen[id] = true
				if g.forFmt && t.key.k == 'S' {
					k.s = fmt.Sprintf("%s%d", k.s, i) // distinct plain keys
				}
				v.kids = append(v.kids, k, g.genVal(t.elem, depth+1))
			}
			if g.forFmt && t.key.k == 'S' {
				// fmt prints string keys in sorted order (internal/fmtsort): the model walks entries in the given order
				type ent struct{ k, v *c14Val }
				var es []ent
				for i := 0; i+1 < len(v.kids); i += 2 {
					es = append(es, ent{v.kids[i], v.kids[i+1]})
				}
				sort.Slice(es, func(i, j int) bool { return es[i].k.s < es[j].k.s })
				v.kids = v.kids[:0]
				for _, e := range es {
					v.kids = append(v.kids, e.k, e.v)
				}
			}
		}
	case 'T':
		for _, f := range t.fields {
			v.kids = append(v.kids, g.genVal(f.t, depth+1))
		}
	}
	return v
}

func c14Hex(s string) string { return vHex(s) }

// tokens prints the value in the driver's prefix notation.
func (v *c14Val) tokens(b *strings.Builder) {
	switch v.k {
	case 'O':
		fmt.Fprintf(b, "O%d ", v.idx)
	case 'S':
		fmt.Fprintf(b, "S%s ", c14Hex(v.s))
	case 'N':
		fmt.Fprintf(b, "N%d ", v.n)
	case 'Z', 'l', 'm':
		fmt.Fprintf(b, "%c ", v.k)
	case 'V', 'W':
		fmt.Fprintf(b, "%c2 f:%s:e:-:- O%d f:%s:e:-:- N%d ", v.k, c14Hex("s"), v.idx, c14Hex("n"), v.n)
	case 'Y':
		fmt.Fprintf(b, "Y3 f:%s:e:-:- O%d f:%s:e:-:- N%d f:%s:e:-:- S%s ", c14Hex("s"), v.idx, c14Hex("n"), v.n, c14Hex("p"), c14Hex(v.s))
	case 'H', 'G': // both are the Lean node `sh marshaler` (G: the Marshal that merges raw values)
		fmt.Fprintf(b, "H3 f:%s:e:-:- O%d f:%s:e:-:- N%d f:%s:e:-:- ", c14Hex("s"), v.idx, c14Hex("n"), v.n, c14Hex("m"))
		v.kids[0].tokens(b)
	case 'P', 'I':
		fmt.Fprintf(b, "%c ", v.k)
		v.kids[0].tokens(b)
	case 'L', 'A':
		fmt.Fprintf(b, "%c%d ", v.k, len(v.kids))
		for _, k := range v.kids {
			k.tokens(b)
		}
	case 'M':
		fmt.Fprintf(b, "M%d ", len(v.kids)/2)
		for _, k := range v.kids {
			k.tokens(b)
		}
	case 'T':
		fmt.Fprintf(b, "T%d ", len(v.kids))
		for i, k := range v.kids {
			f := v.t.fields[i]
			e, o, q := "u", "-", "-"
			if f.exported {
				e = "e"
			}
			if f.omit {
				o = "o"
			}
			if f.squash {
				q = "q"
			}
			fmt.Fprintf(b, "f:%s:%s:%s:%s ", c14Hex(f.key), e, o, q)
			k.tokens(b)
		}
	}
}

func (v *c14Val) String() string {
	var b strings.Builder
	v.tokens(&b)
	return strings.TrimSpace(b.String())
}

var c14AnyType = reflect.TypeOf((*any)(nil)).Elem()

func (t *c14Type) rtype(leaf reflect.Type) reflect.Type {
	switch t.k {
	case 'O':
		return leaf
	case 'S':
		return reflect.TypeOf("")
	case 'N':
		return reflect.TypeOf(0)
	case 'Y':
		return reflect.TypeOf(C14Yaml{})
	case 'H':
		return reflect.TypeOf(C14Marsh{})
	case 'G':
		return reflect.TypeOf(C14MarshMerge{})
	case 'V':
		return reflect.TypeOf(C14TMV{})
	case 'W':
		return reflect.TypeOf(C14TMP{})
	case 'P':
		return reflect.PointerTo(t.elem.rtype(leaf))
	case 'I':
		return c14AnyType
	case 'L':
		return reflect.SliceOf(t.elem.rtype(leaf))
	case 'A':
		return reflect.ArrayOf(t.n, t.elem.rtype(leaf))
	case 'M':
		return reflect.MapOf(t.key.rtype(leaf), t.elem.rtype(leaf))
	case 'T':
		var fs []reflect.StructField
		for _, f := range t.fields {
			sf := reflect.StructField{Name: f.goName, Type: f.t.rtype(leaf)}
			if !f.exported {
				sf.PkgPath = "go.opentelemetry.io/collector/internal/e2e"
			}
			if f.tagged {
				tag := f.key
				if f.omit {
					tag += ",omitempty"
				}
				if f.remain {
					tag += ",remain"
				} else if f.squash {
					tag += ",squash"
				}
				sf.Tag = reflect.StructTag(`mapstructure:"` + tag + `"`)
			}
			fs = append(fs, sf)
		}
		return reflect.StructOf(fs)
	}
	panic("c14: bad type kind")
}

// dynType: the reflect type of a value (interfaces hold values whose type was generated with the value).
func (v *c14Val) dynType(leaf reflect.Type) reflect.Type { return v.t.rtype(leaf) }

// fill writes the value into the settable dst. When `reuse` is true, existing pointers, maps and
// slices are kept (same identity) and only their contents are rewritten.
func (v *c14Val) fill(dst reflect.Value, leaf reflect.Type, secrets []string, reuse bool) {
	switch v.k {
	case 'O':
		dst.Set(reflect.ValueOf(secrets[v.idx]).Convert(leaf))
	case 'V', 'W':
		dst.Field(0).SetString(secrets[v.idx])
		dst.Field(1).SetInt(int64(v.n))
	case 'Y':
		dst.Field(0).SetString(secrets[v.idx])
		dst.Field(1).SetInt(int64(v.n))
		dst.Field(2).SetString(v.s)
	case 'H', 'G':
		dst.Field(0).SetString(secrets[v.idx])
		dst.Field(1).SetInt(int64(v.n))
		v.kids[0].fill(dst.Field(2), leaf, secrets, reuse)
	case 'S':
		dst.SetString(v.s)
	case 'N':
		dst.SetInt(int64(v.n))
	case 'Z', 'l', 'm':
		dst.Set(reflect.Zero(dst.Type()))
	case 'P':
		if !reuse || dst.IsNil() {
			dst.Set(reflect.New(dst.Type().Elem()))
		}
		v.kids[0].fill(dst.Elem(), leaf, secrets, reuse)
	case 'I':
		// the dynamic value is rebuilt in an addressable temporary that starts as a copy of the old
		// one, so that pointers below it keep their identity
		kid := v.kids[0]
		tmp := reflect.New(kid.dynType(leaf)).Elem()
		if reuse && !dst.IsNil() {
			tmp.Set(dst.Elem())
		}
		kid.fill(tmp, leaf, secrets, reuse)
		dst.Set(tmp)
	case 'L':
		if !reuse || dst.IsNil() || dst.Len() != len(v.kids) {
			dst.Set(reflect.MakeSlice(dst.Type(), len(v.kids), len(v.kids)+1))
		}
		for i, k := range v.kids {
			k.fill(dst.Index(i), leaf, secrets, reuse)
		}
	case 'A':
		for i, k := range v.kids {
			k.fill(dst.Index(i), leaf, secrets, reuse)
		}
	case 'M':
		var old reflect.Value
		if reuse && !dst.IsNil() {
			old = dst
		} else {
			dst.Set(reflect.MakeMap(dst.Type()))
		}
		type kvp struct{ k, v reflect.Value }
		var entries []kvp
		var oldKeys []reflect.Value
		if old.IsValid() {
			oldKeys = old.MapKeys()
		}
		for i := 0; i+1 < len(v.kids); i += 2 {
			kk := reflect.New(dst.Type().Key()).Elem()
			v.kids[i].fill(kk, leaf, secrets, false)
			vv := reflect.New(dst.Type().Elem()).Elem()
			if old.IsValid() && len(oldKeys) == 1 && len(v.kids) == 2 {
				vv.Set(old.MapIndex(oldKeys[0])) // single entry: keep pointers below the value
			} else if old.IsValid() && v.kids[i].k == 'S' {
				if ov := old.MapIndex(kk); ov.IsValid() {
					vv.Set(ov) // plain key: the same entry as before
				}
			}
			v.kids[i+1].fill(vv, leaf, secrets, reuse)
			entries = append(entries, kvp{kk, vv})
		}
		for _, k := range oldKeys {
			dst.SetMapIndex(k, reflect.Value{})
		}
		for _, e := range entries {
			dst.SetMapIndex(e.k, e.v)
		}
	case 'T':
		for i, k := range v.kids {
			f := dst.Field(i)
			if !f.CanSet() {
				// unexported field of a StructOf type: write through unsafe access
				f = reflect.NewAt(f.Type(), f.Addr().UnsafePointer()).Elem()
			}
			k.fill(f, leaf, secrets, reuse)
		}
	}
}

// hasOpaque reports whether an opaque leaf occurs in the value.
func (v *c14Val) hasOpaque() bool {
	if v.k == 'O' || v.k == 'V' || v.k == 'W' || v.k == 'Y' || v.k == 'H' || v.k == 'G' {
		return true
	}
	for _, k := range v.kids {
		if k.hasOpaque() {
			return true
		}
	}
	return false
}

func (v *c14Val) hasKind(ks string) bool {
	if strings.IndexByte(ks, v.k) >= 0 {
		return true
	}
	for _, k := range v.kids {
		if k.hasKind(ks) {
			return true
		}
	}
	return false
}

// hand-written shapes (the DESIGN's container list); `leafIdx` distinct per leaf
func c14FixedShapes() []*c14Val {
	o := func(i int) *c14Val { return &c14Val{k: 'O', idx: i, t: &c14Type{k: 'O'}} }
	ptr := func(v *c14Val) *c14Val {
		return &c14Val{k: 'P', kids: []*c14Val{v}, t: &c14Type{k: 'P', elem: v.t}}
	}
	slice := func(vs ...*c14Val) *c14Val {
		return &c14Val{k: 'L', kids: vs, t: &c14Type{k: 'L', elem: vs[0].t}}
	}
	array := func(vs ...*c14Val) *c14Val {
		return &c14Val{k: 'A', kids: vs, t: &c14Type{k: 'A', elem: vs[0].t, n: len(vs)}}
	}
	nilp := func() *c14Val { return &c14Val{k: 'Z', t: &c14Type{k: 'P', elem: &c14Type{k: 'O'}}} }
	str := func(s string) *c14Val { return &c14Val{k: 'S', s: s, t: &c14Type{k: 'S'}} }
	num := func(n int) *c14Val { return &c14Val{k: 'N', n: n, t: &c14Type{k: 'N'}} }
	mp := func(k, v *c14Val) *c14Val {
		return &c14Val{k: 'M', kids: []*c14Val{k, v}, t: &c14Type{k: 'M', key: k.t, elem: v.t}}
	}
	mp3 := func(kvs ...*c14Val) *c14Val {
		return &c14Val{k: 'M', kids: kvs, t: &c14Type{k: 'M', key: kvs[0].t, elem: kvs[1].t}}
	}
	st := func(exported bool, vs ...*c14Val) *c14Val {
		t := &c14Type{k: 'T'}
		for i, v := range vs {
			name := fmt.Sprintf("F%d", i)
			if !exported {
				name = fmt.Sprintf("f%d", i)
			}
			t.fields = append(t.fields, c14Field{goName: name, key: fmt.Sprintf("k%d", i), exported: exported, tagged: true, t: v.t})
		}
		return &c14Val{k: 'T', kids: vs, t: t}
	}
	iface := func(v *c14Val) *c14Val { return &c14Val{k: 'I', kids: []*c14Val{v}, t: &c14Type{k: 'I'}} }
	return []*c14Val{
		o(0),                                      // value
		ptr(o(0)),                                 // *String
		slice(o(0), o(1)),                         // []String
		array(o(0)),                               // [1]String
		mp(str("k"), o(0)),                        // headers map
		mp(o(0), num(1)),                          // opaque key
		st(true, o(0), str("x")),                  // exported field
		st(true, st(true, o(0))),                  // nested struct
		st(true, iface(o(0))),                     // any field
		slice(iface(o(0))),                        // []any
		st(false, o(0)),                           // unexported field
		ptr(st(true, o(0))),                       // *struct
		slice(ptr(st(true, o(0)))),                // []*struct
		st(true, ptr(st(true, o(0)))),             // struct{P *struct}
		ptr(slice(o(0))),                          // *[]String
		slice(ptr(o(0))),                          // []*String
		mp(str("k"), ptr(st(true, o(0)))),         // map[string]*struct
		ptr(ptr(st(true, o(0)))),                  // **struct
		st(true, mp(str("h"), o(0)), slice(o(1))), // config-like
		ptr(mp(str("k"), o(0))),                   // *map
		mp3(str("a"), o(0), str("b"), o(1), str("c"), o(2)), // several headers: map[string]opaque with three entries
		ptr(array(o(0))), // *[1]String
		// typed nil pointers beside live ones (thorough seeds 15839 / 23758): fmt calls a pointer-receiver String() on a nil *T too
		mp3(str("1"), nilp(), str("a2"), nilp(), str("plain text0"), ptr(o(0))), // map[string]*String with nil values
		ptr(st(true, array(o(2)), nilp())),                                      // *struct{[1]String; *String(nil)}
		slice(nilp(), ptr(o(0)), nilp()),                                        // []*String with nil elements
	}
}

func c14Sprintf(format string, a ...any) (out string) {
	defer func() {
		if r := recover(); r != nil {
			out = fmt.Sprintf("PANIC:%v", r)
		}
	}()
	return fmt.Sprintf(format, a...)
}
