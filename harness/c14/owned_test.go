//go:build verif

package e2e

import (
	"bytes"
	"encoding/json"
	"fmt"
	"strings"
	"testing"

	"gopkg.in/yaml.v3"

	"go.opentelemetry.io/collector/config/configopaque"
	"go.opentelemetry.io/collector/confmap"
)

// TestVerifC14Owned: "render the FIXED redaction marker" also after a caller has modified the bytes an earlier
// MarshalText / MarshalBinary call handed out (callers own returned slices): the marker must not be shared mutable
// state. Monitor only (direct oracle, no model).
func TestVerifC14Owned(t *testing.T) {
	out := vOpen(t)
	defer out.Close()
	out.Linef("model c14-owned 1")
	const marker = "[REDACTED]"
	type cfg struct {
		Password configopaque.String            `mapstructure:"password" json:"password" yaml:"password"`
		Headers  map[string]configopaque.String `mapstructure:"headers" json:"headers" yaml:"headers"`
	}
	n := vN(50)
	for _, c := range vCases(n) {
		rnd := vRand(c)
		out.Linef("case %d", c)
		secretA := fmt.Sprintf("k3y-%d", rnd.IntN(1000000))
		secretB := fmt.Sprintf("p4ss-%d", rnd.IntN(1000000))
		a := configopaque.String(secretA)
		how := rnd.IntN(4)
		method := rnd.IntN(2)
		out.Linef("op owned method=%d how=%d", method, how)
		var buf []byte
		if method == 0 {
			buf, _ = a.MarshalText()
		} else {
			buf, _ = a.MarshalBinary()
		}
		switch how {
		case 0:
			buf = append(buf[:0], secretA...) // reuse the buffer for the caller's own data
		case 1:
			clear(buf)
		case 2:
			copy(buf, strings.ToUpper(secretA))
		case 3:
			if len(buf) > 0 {
				buf[0] = 'X'
			}
		}
		_ = buf
		other := cfg{Password: configopaque.String(secretB), Headers: map[string]configopaque.String{"authorization": configopaque.String(secretB)}}
		var renderings []string
		if b, err := other.Password.MarshalText(); err == nil {
			renderings = append(renderings, string(b))
			if string(b) != marker {
				out.Linef("viol sig=C14/marker/not-fixed-after-caller-modified-returned-bytes path=MarshalText got=%s", vHex(string(b)))
			}
		}
		if b, err := other.Password.MarshalBinary(); err == nil {
			renderings = append(renderings, string(b))
			if string(b) != marker {
				out.Linef("viol sig=C14/marker/not-fixed-after-caller-modified-returned-bytes path=MarshalBinary got=%s", vHex(string(b)))
			}
		}
		if b, err := json.Marshal(other); err == nil {
			renderings = append(renderings, string(b))
			if !bytes.Contains(b, []byte(`"password":"[REDACTED]"`)) || !bytes.Contains(b, []byte(`"authorization":"[REDACTED]"`)) {
				out.Linef("viol sig=C14/marker/not-fixed-after-caller-modified-returned-bytes path=json got=%s", vHex(string(b)))
			}
		}
		if b, err := yaml.Marshal(other); err == nil {
			renderings = append(renderings, string(b))
			if strings.Count(string(b), marker) != 2 {
				out.Linef("viol sig=C14/marker/not-fixed-after-caller-modified-returned-bytes path=yaml got=%s", vHex(string(b)))
			}
		}
		conf := confmap.New()
		if err := conf.Marshal(other); err == nil {
			s := fmt.Sprint(conf.ToStringMap())
			renderings = append(renderings, s)
			if strings.Count(s, marker) != 2 {
				out.Linef("viol sig=C14/marker/not-fixed-after-caller-modified-returned-bytes path=confmap got=%s", vHex(s))
			}
		}
		renderings = append(renderings, fmt.Sprintf("%v %s %+v", other.Password, other.Password, other))
		for _, r := range renderings {
			if strings.Contains(r, secretA) || strings.Contains(r, secretB) {
				out.Linef("viol sig=C14/marker/secret-revealed-after-caller-modified-returned-bytes rendering=%s", vHex(r))
			}
		}
		out.Linef("nt")
		out.Linef("end")
		out.Flush()
	}
}
