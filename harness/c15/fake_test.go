//go:build verif

package e2e

// C15, sender side against scripted FAKE servers: the real otlphttp / otlp(gRPC) exporters must classify every
// (status, Retry-After, body) resp. (code, RetryInfo, partial success) as the specification's tables say, and never panic.

import (
	"bytes"
	"compress/gzip"
	"compress/zlib"
	"context"
	"fmt"
	"io"
	"net"
	"net/http"
	"net/http/httptest"
	"strconv"
	"strings"
	"sync"
	"testing"
	"time"

	"github.com/golang/snappy"
	"github.com/klauspost/compress/zstd"
	"github.com/pierrec/lz4/v4"
	"google.golang.org/genproto/googleapis/rpc/errdetails"
	"google.golang.org/grpc"
	"google.golang.org/grpc/codes"
	"google.golang.org/grpc/status"
	"google.golang.org/protobuf/proto"
	"google.golang.org/protobuf/types/known/durationpb"

	"go.opentelemetry.io/collector/pdata/plog/plogotlp"
	"go.opentelemetry.io/collector/pdata/pmetric/pmetricotlp"
	"go.opentelemetry.io/collector/pdata/pprofile/pprofileotlp"
	"go.opentelemetry.io/collector/pdata/ptrace/ptraceotlp"
)

// c15Compress: library-direct compression for raw requests (the names confighttp's server accepts)
func c15Compress(name string, b []byte) []byte {
	var buf bytes.Buffer
	var w io.WriteCloser
	switch name {
	case "gzip":
		w = gzip.NewWriter(&buf)
	case "zlib", "deflate":
		w = zlib.NewWriter(&buf)
	case "zstd":
		w, _ = zstd.NewWriter(&buf)
	case "snappy":
		w = snappy.NewBufferedWriter(&buf)
	case "lz4":
		w = lz4.NewWriter(&buf)
	default:
		panic("c15Compress: " + name)
	}
	_, _ = w.Write(b)
	_ = w.Close()
	return buf.Bytes()
}

type c15Fake struct {
	tr string // http grpc
	// http
	enc    string   // pb json (exporter encoding)
	status int      //
	raKind string   // absent s d bad
	raVals []string // header values as sent (first one counts)
	raSec  int64    // s: the integer; d: delta in seconds
	body   string   // empty response partial other undecodable (2xx) | status garbage huge empty (others: irrelevant)
	// grpc
	code    uint32
	hasRI   bool
	riUnset bool // RetryInfo{} : present, retry_delay unset
	ri      time.Duration
	partial bool
}

type c15FakeServers struct {
	mu      sync.Mutex
	script  c15Fake
	http    *httptest.Server
	grpcLis net.Listener
	grpcSrv *grpc.Server
	exps    map[string]*c15Exp
}

func (f *c15FakeServers) get() c15Fake {
	f.mu.Lock()
	defer f.mu.Unlock()
	return f.script
}

func (f *c15FakeServers) set(s c15Fake) {
	f.mu.Lock()
	f.script = s
	f.mu.Unlock()
}

type c15FakeLogs struct {
	plogotlp.UnimplementedGRPCServer
	f *c15FakeServers
}
type c15FakeTraces struct {
	ptraceotlp.UnimplementedGRPCServer
	f *c15FakeServers
}
type c15FakeMetrics struct {
	pmetricotlp.UnimplementedGRPCServer
	f *c15FakeServers
}

type c15FakeProfiles struct {
	pprofileotlp.UnimplementedGRPCServer
	f *c15FakeServers
}

func (s *c15FakeProfiles) Export(context.Context, pprofileotlp.ExportRequest) (pprofileotlp.ExportResponse, error) {
	r := pprofileotlp.NewExportResponse()
	if s.f.get().partial {
		r.PartialSuccess().SetRejectedProfiles(7)
		r.PartialSuccess().SetErrorMessage("c15 partial")
	}
	return r, s.f.grpcErr()
}

func (f *c15FakeServers) grpcErr() error {
	s := f.get()
	if s.code == 0 {
		return nil
	}
	st := status.New(codes.Code(s.code), "c15 fake")
	if s.hasRI {
		info := &errdetails.RetryInfo{RetryDelay: durationpb.New(s.ri)}
		if s.riUnset {
			info = &errdetails.RetryInfo{}
		}
		st, _ = st.WithDetails(info)
	}
	return st.Err()
}

func (s *c15FakeLogs) Export(context.Context, plogotlp.ExportRequest) (plogotlp.ExportResponse, error) {
	r := plogotlp.NewExportResponse()
	if s.f.get().partial {
		r.PartialSuccess().SetRejectedLogRecords(7)
		r.PartialSuccess().SetErrorMessage("c15 partial")
	}
	return r, s.f.grpcErr()
}

func (s *c15FakeTraces) Export(context.Context, ptraceotlp.ExportRequest) (ptraceotlp.ExportResponse, error) {
	r := ptraceotlp.NewExportResponse()
	if s.f.get().partial {
		r.PartialSuccess().SetRejectedSpans(7)
		r.PartialSuccess().SetErrorMessage("c15 partial")
	}
	return r, s.f.grpcErr()
}

func (s *c15FakeMetrics) Export(context.Context, pmetricotlp.ExportRequest) (pmetricotlp.ExportResponse, error) {
	r := pmetricotlp.NewExportResponse()
	if s.f.get().partial {
		r.PartialSuccess().SetRejectedDataPoints(7)
		r.PartialSuccess().SetErrorMessage("c15 partial")
	}
	return r, s.f.grpcErr()
}

// response body of the fake HTTP server
func c15FakeBody(s c15Fake, path string) (ctype string, body []byte) {
	pbCT, jsCT := "application/x-protobuf", "application/json"
	ct := pbCT
	if s.enc == "json" {
		ct = jsCT
	}
	resp := func(partial bool) []byte {
		var pb, js []byte
		switch {
		case strings.Contains(path, "logs"):
			r := plogotlp.NewExportResponse()
			if partial {
				r.PartialSuccess().SetRejectedLogRecords(3)
				r.PartialSuccess().SetErrorMessage("c15 partial")
			}
			pb, _ = r.MarshalProto()
			js, _ = r.MarshalJSON()
		case strings.Contains(path, "profiles"):
			r := pprofileotlp.NewExportResponse()
			if partial {
				r.PartialSuccess().SetRejectedProfiles(3)
				r.PartialSuccess().SetErrorMessage("c15 partial")
			}
			pb, _ = r.MarshalProto()
			js, _ = r.MarshalJSON()
		case strings.Contains(path, "traces"):
			r := ptraceotlp.NewExportResponse()
			if partial {
				r.PartialSuccess().SetRejectedSpans(3)
				r.PartialSuccess().SetErrorMessage("c15 partial")
			}
			pb, _ = r.MarshalProto()
			js, _ = r.MarshalJSON()
		default:
			r := pmetricotlp.NewExportResponse()
			if partial {
				r.PartialSuccess().SetRejectedDataPoints(3)
				r.PartialSuccess().SetErrorMessage("c15 partial")
			}
			pb, _ = r.MarshalProto()
			js, _ = r.MarshalJSON()
		}
		if s.enc == "json" {
			return js
		}
		return pb
	}
	garbage := []byte{0x0a, 0xff, 0xff, 0xff, 0x7f, '{', '[', 0x00}
	switch s.body {
	case "empty":
		return ct, nil
	case "response":
		return ct, resp(false)
	case "partial":
		return ct, resp(true)
	case "other":
		// not exactly one of the two content types: ignored on 2xx
		return []string{"text/plain", "application/x-protobuf; charset=utf-8", "application/json;charset=utf-8", "application/xml"}[len(s.raVals)%4], garbage
	case "undecodable":
		return ct, garbage
	case "huge":
		// longer than the 64 KiB the exporter reads
		return ct, append(garbage, make([]byte, 100_000)...)
	case "status":
		st := status.New(codes.Code(s.status%17), "c15 fake status").Proto()
		b, _ := proto.Marshal(st)
		return pbCT, b
	default:
		return ct, garbage
	}
}

func c15StartFakes(t *testing.T) *c15FakeServers {
	f := &c15FakeServers{exps: map[string]*c15Exp{}}
	f.http = httptest.NewServer(http.HandlerFunc(func(w http.ResponseWriter, r *http.Request) {
		s := f.get()
		for _, v := range s.raVals {
			w.Header().Add("Retry-After", v)
		}
		ct, body := c15FakeBody(s, r.URL.Path)
		w.Header().Set("Content-Type", ct)
		if s.body == "huge" && len(s.raVals)%2 == 0 {
			// chunked: no Content-Length
			w.WriteHeader(s.status)
			if fl, ok := w.(http.Flusher); ok {
				fl.Flush()
			}
			_, _ = w.Write(body)
			return
		}
		w.Header().Set("Content-Length", strconv.Itoa(len(body)))
		w.WriteHeader(s.status)
		_, _ = w.Write(body)
	}))
	t.Cleanup(f.http.Close)
	lis, err := net.Listen("tcp", "127.0.0.1:0")
	if err != nil {
		t.Fatal(err)
	}
	f.grpcLis = lis
	f.grpcSrv = grpc.NewServer()
	plogotlp.RegisterGRPCServer(f.grpcSrv, &c15FakeLogs{f: f})
	ptraceotlp.RegisterGRPCServer(f.grpcSrv, &c15FakeTraces{f: f})
	pmetricotlp.RegisterGRPCServer(f.grpcSrv, &c15FakeMetrics{f: f})
	pprofileotlp.RegisterGRPCServer(f.grpcSrv, &c15FakeProfiles{f: f})
	go func() { _ = f.grpcSrv.Serve(lis) }()
	t.Cleanup(f.grpcSrv.Stop)
	return f
}

func (f *c15FakeServers) exporter(t *testing.T, s c15Fake) *c15Exp {
	key := s.tr + "/" + s.enc
	if e, ok := f.exps[key]; ok {
		return e
	}
	r := &c15Recv{grpcAddr: f.grpcLis.Addr().String(), httpAddr: strings.TrimPrefix(f.http.URL, "http://")}
	e := c15MakeExporter(t, r, c15ExpKey{tr: s.tr, enc: s.enc, comp: "none"})
	f.exps[key] = e
	return e
}

func c15RAToken(s c15Fake) string {
	switch s.raKind {
	case "s":
		return fmt.Sprintf("s:%d", s.raSec)
	case "d":
		return fmt.Sprintf("d:%d", s.raSec)
	case "bad":
		return "bad"
	}
	return "absent"
}

func c15GenFake(rnd interface{ IntN(int) int }) c15Fake {
	var s c15Fake
	if rnd.IntN(3) == 0 {
		s.tr, s.enc = "grpc", "-"
		s.code = uint32(rnd.IntN(17))
		if rnd.IntN(10) == 0 {
			s.code = uint32([]int{17, 20, 99, 1000}[rnd.IntN(4)])
		}
		s.partial = rnd.IntN(2) == 0
		if rnd.IntN(3) > 0 {
			s.hasRI = true
			s.ri = []time.Duration{0, 1, -1, 500 * time.Millisecond, -500 * time.Millisecond, time.Second, 90 * time.Second, -90 * time.Second, 24 * 365 * time.Hour,
				time.Duration(rnd.IntN(10_000_000)) * time.Microsecond}[rnd.IntN(10)]
			if rnd.IntN(4) == 0 {
				s.riUnset, s.ri = true, 0
			}
		}
		return s
	}
	s.tr = "http"
	s.enc = []string{"pb", "json"}[rnd.IntN(2)]
	statuses := []int{200, 200, 201, 202, 204, 299, 300, 304, 399, 400, 401, 403, 404, 405, 408, 413, 415, 418, 429, 429, 429, 499, 500, 501, 502, 503, 503, 503, 504, 505, 599, 600, 999}
	s.status = statuses[rnd.IntN(len(statuses))]
	if rnd.IntN(8) == 0 {
		s.status = 200 + rnd.IntN(800)
	}
	if s.status >= 200 && s.status <= 299 {
		s.body = []string{"empty", "response", "partial", "partial", "other", "undecodable", "huge"}[rnd.IntN(7)]
	} else {
		s.body = []string{"empty", "status", "garbage", "huge", "partial"}[rnd.IntN(5)]
	}
	if s.status == 204 {
		s.body = "empty" // a 204 cannot carry a body
	}
	switch k := rnd.IntN(10); {
	case k < 2:
		s.raKind = "absent"
	case k < 6:
		s.raKind = "s"
		s.raSec = []int64{0, 1, 2, 30, 3600, -1, -30, 9223372036, 9223372037, -9223372036, 4000000000, int64(rnd.IntN(100000))}[rnd.IntN(12)]
		v := strconv.FormatInt(s.raSec, 10)
		if s.raSec > 0 && rnd.IntN(4) == 0 {
			v = []string{"+" + v, "00" + v}[rnd.IntN(2)] // strconv.Atoi accepts a sign and leading zeros
		}
		s.raVals = []string{v}
	case k < 8:
		s.raKind = "d"
		s.raSec = []int64{120, 3600, 86400, 10, -3600, -86400 * 400, 86400 * 365 * 50}[rnd.IntN(7)]
		s.raVals = []string{time.Now().Add(time.Duration(s.raSec) * time.Second).UTC().Format(time.RFC1123)}
	default:
		s.raKind = "bad"
		s.raVals = []string{[]string{"", "soon", "1.5", "1e3", "0x10", "Mon, 02 Jan 2006", "99999999999999999999", "12 seconds", "5s", "5;q=1",
			time.Now().Add(time.Hour).UTC().Format(time.RFC850)}[rnd.IntN(11)]}
	}
	if len(s.raVals) > 0 && rnd.IntN(4) == 0 {
		s.raVals = append(s.raVals, "77") // only the first value counts
	}
	return s
}

func c15RunFake(t *testing.T, out *vOut, f *c15FakeServers, s c15Fake, ci int, rnd interface{ IntN(int) int }) {
	if s.raKind == "d" {
		// the HTTP-date is relative to the moment the request is made
		v := time.Now().Add(time.Duration(s.raSec) * time.Second).UTC().Format(time.RFC1123)
		if len(s.raVals)%2 == 0 {
			v = time.Now().Add(time.Duration(s.raSec) * time.Second).UTC().Format(http.TimeFormat) // "… GMT", the HTTP-date form
		}
		s.raVals = append([]string{v}, s.raVals[min(1, len(s.raVals)):]...)
	}
	f.set(s)
	e := f.exporter(t, s)
	sig := c15AllSigs[rnd.IntN(4)]
	p := c15MakePayload(sig, 1+rnd.IntN(3), false, fmt.Sprintf("fake-%d", ci))
	out.Linef("stat fake_sig_%s 1", sig)
	if s.tr == "grpc" {
		ri := "-"
		if s.hasRI {
			ri = strconv.FormatInt(int64(s.ri), 10)
		}
		out.Linef("op xgrpc code=%d ri=%s partial=%d rs=%d", s.code, ri, vB(s.partial), vB(s.hasRI && !s.riUnset))
		if s.hasRI && s.riUnset {
			out.Linef("stat fake_retryinfo_delay_unset 1")
		}
	} else {
		out.Linef("op xhttp status=%d ra=%s body=%s enc=%s", s.status, c15RAToken(s), s.body, s.enc)
	}
	verdict := "panic"
	func() {
		defer func() {
			if p := recover(); p != nil {
				out.Linef("viol sig=C15/%s-exporter/panic %v", s.tr, p)
			}
		}()
		ctx, cancel := context.WithTimeout(context.Background(), c15Patience)
		defer cancel()
		var err error
		switch sig {
		case "logs":
			err = e.logs.ConsumeLogs(ctx, p.logs)
		case "traces":
			err = e.traces.ConsumeTraces(ctx, p.tr)
		case "profiles":
			err = e.prof.ConsumeProfiles(ctx, p.pr)
		default:
			err = e.metrics.ConsumeMetrics(ctx, p.m)
		}
		verdict = c15Verdict(err)
	}()
	if s.tr == "http" && s.raKind == "d" && strings.HasPrefix(verdict, "throttle:") {
		// time.Until(date): compare with the requested delta up to clock granularity (RFC1123 has whole seconds)
		ns, _ := strconv.ParseInt(strings.TrimPrefix(verdict, "throttle:"), 10, 64)
		diff := time.Duration(ns) - time.Duration(s.raSec)*time.Second
		if diff < 0 {
			diff = -diff
		}
		if diff <= 30*time.Second { // generous: the date is formatted before the request and read after the answer (loaded machine)
			verdict = "throttle-date"
		}
	}
	out.Linef("obs xverdict %s", verdict)
	out.Linef("stat fake_%s 1", s.tr)
	if s.tr == "http" {
		out.Linef("stat fake_ra_%s 1", s.raKind)
		out.Linef("stat fake_body_%s 1", s.body)
	}
}
