//go:build verif

package e2e

// Type-directed payload generator over the PUBLIC pdata API (reflection): every setter, every nested message, every repeated
// field, every one-of alternative, every attribute value kind of all four signals can be populated — not only the fields that
// internal/testdata happens to set (event_name, flags, exemplars, exponential-histogram zero_threshold, profile tables, …).
// The pdata-internal generator of the C08 harness cannot be imported from this package (Go `internal` rule), hence this one.

import (
	"fmt"
	"math"
	"reflect"
	"strings"

	"go.opentelemetry.io/collector/pdata/pcommon"
	"go.opentelemetry.io/collector/pdata/plog"
	"go.opentelemetry.io/collector/pdata/plog/plogotlp"
	"go.opentelemetry.io/collector/pdata/pmetric"
	"go.opentelemetry.io/collector/pdata/pmetric/pmetricotlp"
	"go.opentelemetry.io/collector/pdata/pprofile"
	"go.opentelemetry.io/collector/pdata/pprofile/pprofileotlp"
	"go.opentelemetry.io/collector/pdata/ptrace"
	"go.opentelemetry.io/collector/pdata/ptrace/ptraceotlp"
)

type c15Rnd interface {
	IntN(int) int
	Uint64() uint64
}

type c15Filler struct {
	rnd    c15Rnd
	budget int            // remaining number of repeated elements to append
	stats  map[string]int // setter / getter names touched (distribution for the evidence)
}

var c15Strings = []string{"", "a", "svc", "x-y_z.1", "héllo", "日本語", "line\nbreak", "quote\"s", "  spaced  ", strings.Repeat("long", 40)}

func (f *c15Filler) str() string { return c15Strings[f.rnd.IntN(len(c15Strings))] }

func (f *c15Filler) float() float64 {
	switch f.rnd.IntN(6) {
	case 0:
		return 0
	case 1:
		return -1.5
	case 2:
		return math.MaxFloat64
	case 3:
		return math.SmallestNonzeroFloat64
	case 4:
		return float64(f.rnd.IntN(1000)) / 7
	}
	return -float64(f.rnd.Uint64()%1000000) * 1e10
}

func (f *c15Filler) u64() uint64 {
	switch f.rnd.IntN(5) {
	case 0:
		return 0
	case 1:
		return math.MaxUint64
	case 2:
		return 1 << 63
	}
	return f.rnd.Uint64() >> uint(f.rnd.IntN(64))
}

func c15IsPdata(t reflect.Type) bool {
	return t.Kind() == reflect.Struct && strings.Contains(t.PkgPath(), "go.opentelemetry.io/collector/pdata") && t.NumMethod() > 0
}

// scalar: a random argument for a one-parameter setter, or false if the parameter type is not a scalar we know
func (f *c15Filler) scalar(t reflect.Type) (reflect.Value, bool) {
	v := reflect.New(t).Elem()
	switch t.Kind() {
	case reflect.String:
		v.SetString(f.str())
	case reflect.Bool:
		v.SetBool(f.rnd.IntN(2) == 0)
	case reflect.Int64, reflect.Int:
		v.SetInt(int64(f.u64()))
	case reflect.Int32:
		if t.PkgPath() != "" { // a named enum type: stay near the defined values
			v.SetInt(int64(f.rnd.IntN(5)))
		} else {
			v.SetInt(int64(int32(f.u64())))
		}
	case reflect.Uint64:
		v.SetUint(f.u64())
	case reflect.Uint32:
		v.SetUint(uint64(uint32(f.u64())))
	case reflect.Float64:
		v.SetFloat(f.float())
	case reflect.Array:
		if t.Elem().Kind() != reflect.Uint8 {
			return v, false
		}
		for i := 0; i < t.Len(); i++ { // ids: non-zero (an all-zero id is "empty")
			v.Index(i).SetUint(uint64(1 + f.rnd.IntN(255)))
		}
	default:
		return v, false
	}
	return v, true
}

func (f *c15Filler) value(v pcommon.Value, depth int) {
	switch k := f.rnd.IntN(9); {
	case k == 0:
		// leave empty
	case k == 1:
		v.SetStr(f.str())
	case k == 2:
		v.SetInt(int64(f.u64()))
	case k == 3:
		v.SetDouble(f.float())
	case k == 4:
		v.SetBool(f.rnd.IntN(2) == 0)
	case k == 5:
		// at least one byte: an AnyValue holding ZERO bytes is C08's recorded corner (nil vs empty one-of bytes: protobuf delivers
		// it as an empty value, JSON as empty bytes) and would only re-report that here
		b := make([]byte, 1+f.rnd.IntN(5))
		for i := range b {
			b[i] = byte(f.rnd.IntN(256))
		}
		v.SetEmptyBytes().FromRaw(b)
	case k == 6 && depth < 4:
		f.fillMap(v.SetEmptyMap(), depth+1)
	case k == 7 && depth < 4:
		s := v.SetEmptySlice()
		for i := f.rnd.IntN(3); i > 0 && f.budget > 0; i-- {
			f.budget--
			f.value(s.AppendEmpty(), depth+1)
		}
	default:
		v.SetStr(f.str())
	}
}

func (f *c15Filler) fillMap(m pcommon.Map, depth int) {
	for i := f.rnd.IntN(4); i > 0 && f.budget > 0; i-- {
		f.budget--
		f.value(m.PutEmpty(fmt.Sprintf("k%d%s", i, f.str())), depth)
	}
}

var c15SkipGetters = map[string]bool{"AsRaw": true, "At": true, "Len": true, "Capacity": true, "Type": true, "ValueType": true}

// fill populates a pdata value through its public API
func (f *c15Filler) fill(v reflect.Value, depth int) {
	defer func() { _ = recover() }() // an accessor that does not apply to the chosen alternative must not stop the generator
	if depth > 9 {
		return
	}
	switch x := v.Interface().(type) {
	case pcommon.Value:
		f.value(x, 0)
		return
	case pcommon.Map:
		f.fillMap(x, 0)
		return
	case pcommon.Slice:
		for i := f.rnd.IntN(3); i > 0 && f.budget > 0; i-- {
			f.budget--
			f.value(x.AppendEmpty(), 1)
		}
		return
	case pcommon.ByteSlice:
		b := make([]byte, f.rnd.IntN(6))
		for i := range b {
			b[i] = byte(f.rnd.IntN(256))
		}
		x.FromRaw(b)
		return
	case pcommon.Int64Slice:
		for i := f.rnd.IntN(4); i > 0; i-- {
			x.Append(int64(f.u64()))
		}
		return
	case pcommon.Int32Slice:
		for i := f.rnd.IntN(4); i > 0; i-- {
			x.Append(int32(f.u64()))
		}
		return
	case pcommon.UInt64Slice:
		for i := f.rnd.IntN(4); i > 0; i-- {
			x.Append(f.u64())
		}
		return
	case pcommon.Float64Slice:
		for i := f.rnd.IntN(4); i > 0; i-- {
			x.Append(f.float())
		}
		return
	case pcommon.StringSlice:
		for i := f.rnd.IntN(4); i > 0; i-- {
			x.Append(f.str())
		}
		return
	case pcommon.TraceState:
		x.FromRaw([]string{"", "k=v", "a=1,b=2"}[f.rnd.IntN(3)])
		return
	}
	t := v.Type()
	// repeated message field
	if m, ok := t.MethodByName("AppendEmpty"); ok && m.Type.NumIn() == 1 {
		n := f.rnd.IntN(3)
		if depth <= 3 {
			n = 1 + f.rnd.IntN(2) // keep the path down to the items populated
		}
		for i := 0; i < n && f.budget > 0; i++ {
			f.budget--
			f.fill(v.Method(m.Index).Call(nil)[0], depth+1)
		}
		return
	}
	// one-of alternatives: SetEmptyX() X
	var alts []reflect.Method
	altNames := map[string]bool{}
	for i := 0; i < t.NumMethod(); i++ {
		m := t.Method(i)
		if strings.HasPrefix(m.Name, "SetEmpty") && m.Type.NumIn() == 1 && m.Type.NumOut() == 1 {
			alts = append(alts, m)
			altNames[strings.TrimPrefix(m.Name, "SetEmpty")] = true
		}
	}
	if len(alts) > 0 {
		m := alts[f.rnd.IntN(len(alts))]
		f.stats[t.Name()+"."+m.Name]++
		f.fill(v.Method(m.Index).Call(nil)[0], depth+1)
	}
	for i := 0; i < t.NumMethod(); i++ {
		m := t.Method(i)
		mt := m.Type
		switch {
		case strings.HasPrefix(m.Name, "SetEmpty"):
		case strings.HasPrefix(m.Name, "Set") && mt.NumIn() == 2 && mt.NumOut() == 0:
			if f.rnd.IntN(5) == 0 {
				continue // leave some fields at their default
			}
			if arg, ok := f.scalar(mt.In(1)); ok {
				f.stats[t.Name()+"."+m.Name]++
				v.Method(i).Call([]reflect.Value{arg})
			}
		case mt.NumIn() == 1 && mt.NumOut() == 1 && c15IsPdata(mt.Out(0)) && !altNames[m.Name] && !c15SkipGetters[m.Name]:
			f.fill(v.Method(i).Call(nil)[0], depth+1)
		}
	}
}

// c15MakeRich: a type-directed payload of the given signal
func c15MakeRich(sig string, rnd c15Rnd, tag string, stats map[string]int) c15Payload {
	f := &c15Filler{rnd: rnd, budget: 40 + rnd.IntN(80), stats: stats}
	p := c15Payload{sig: sig}
	switch sig {
	case "logs":
		p.logs = plog.NewLogs()
		f.fill(reflect.ValueOf(p.logs), 0)
		if p.logs.ResourceLogs().Len() == 0 {
			p.logs.ResourceLogs().AppendEmpty()
		}
		p.logs.ResourceLogs().At(0).Resource().Attributes().PutStr("c15.tag", tag)
		p.items = p.logs.LogRecordCount()
		p.want, _ = (&plog.ProtoMarshaler{}).MarshalLogs(p.logs)
		rq := plogotlp.NewExportRequestFromLogs(p.logs)
		p.pb, _ = rq.MarshalProto()
		p.js, _ = rq.MarshalJSON()
	case "traces":
		p.tr = ptrace.NewTraces()
		f.fill(reflect.ValueOf(p.tr), 0)
		if p.tr.ResourceSpans().Len() == 0 {
			p.tr.ResourceSpans().AppendEmpty()
		}
		p.tr.ResourceSpans().At(0).Resource().Attributes().PutStr("c15.tag", tag)
		p.items = p.tr.SpanCount()
		p.want, _ = (&ptrace.ProtoMarshaler{}).MarshalTraces(p.tr)
		rq := ptraceotlp.NewExportRequestFromTraces(p.tr)
		p.pb, _ = rq.MarshalProto()
		p.js, _ = rq.MarshalJSON()
	case "profiles":
		p.pr = pprofile.NewProfiles()
		f.fill(reflect.ValueOf(p.pr), 0)
		if p.pr.ResourceProfiles().Len() == 0 {
			p.pr.ResourceProfiles().AppendEmpty()
		}
		p.pr.ResourceProfiles().At(0).Resource().Attributes().PutStr("c15.tag", tag)
		p.items = p.pr.SampleCount()
		p.want, _ = (&pprofile.ProtoMarshaler{}).MarshalProfiles(p.pr)
		rq := pprofileotlp.NewExportRequestFromProfiles(p.pr)
		p.pb, _ = rq.MarshalProto()
		p.js, _ = rq.MarshalJSON()
	default:
		p.m = pmetric.NewMetrics()
		f.fill(reflect.ValueOf(p.m), 0)
		if p.m.ResourceMetrics().Len() == 0 {
			p.m.ResourceMetrics().AppendEmpty()
		}
		p.m.ResourceMetrics().At(0).Resource().Attributes().PutStr("c15.tag", tag)
		p.items = p.m.DataPointCount()
		p.want, _ = (&pmetric.ProtoMarshaler{}).MarshalMetrics(p.m)
		rq := pmetricotlp.NewExportRequestFromMetrics(p.m)
		p.pb, _ = rq.MarshalProto()
		p.js, _ = rq.MarshalJSON()
	}
	return p
}
