//go:build verif

package e2e

// C15 harness: REAL otlpreceiver (gRPC + HTTP, with and without a server-side authenticator) ← loopback ←
// REAL otlpexporter / otlphttpexporter (every compression, proto/json), a scripted consumer behind the
// receiver. Observed per hop: what is on the wire (direct probe with a plain client), how the exporter
// classifies the error it returns, how often the consumer was invoked and whether it saw what was sent.

import (
	"bytes"
	"context"
	"encoding/json"
	"errors"
	"fmt"
	"io"
	"net"
	"net/http"
	"reflect"
	"runtime"
	"strconv"
	"strings"
	"sync"
	"testing"
	"time"

	"google.golang.org/genproto/googleapis/rpc/errdetails"
	spb "google.golang.org/genproto/googleapis/rpc/status"
	"google.golang.org/grpc"
	"google.golang.org/grpc/codes"
	"google.golang.org/grpc/credentials/insecure"
	"google.golang.org/grpc/encoding"
	"google.golang.org/grpc/metadata"
	"google.golang.org/grpc/status"
	"google.golang.org/protobuf/proto"
	"google.golang.org/protobuf/types/known/durationpb"

	"go.opentelemetry.io/collector/component"
	"go.opentelemetry.io/collector/config/configauth"
	"go.opentelemetry.io/collector/config/configcompression"
	"go.opentelemetry.io/collector/config/confighttp"
	"go.opentelemetry.io/collector/config/configopaque"
	"go.opentelemetry.io/collector/config/configtls"
	"go.opentelemetry.io/collector/consumer"
	"go.opentelemetry.io/collector/consumer/consumererror"
	"go.opentelemetry.io/collector/exporter/exportertest"
	"go.opentelemetry.io/collector/exporter/otlpexporter"
	"go.opentelemetry.io/collector/exporter/otlphttpexporter"
	"go.opentelemetry.io/collector/exporter/xexporter"
	"go.opentelemetry.io/collector/pdata/plog"
	"go.opentelemetry.io/collector/pdata/plog/plogotlp"
	"go.opentelemetry.io/collector/pdata/pmetric"
	"go.opentelemetry.io/collector/pdata/pmetric/pmetricotlp"
	"go.opentelemetry.io/collector/pdata/pprofile"
	"go.opentelemetry.io/collector/pdata/pprofile/pprofileotlp"
	"go.opentelemetry.io/collector/pdata/ptrace"
	"go.opentelemetry.io/collector/pdata/ptrace/ptraceotlp"
	"go.opentelemetry.io/collector/pdata/testdata"
	"go.opentelemetry.io/collector/receiver/otlpreceiver"
	"go.opentelemetry.io/collector/receiver/receivertest"
	"go.opentelemetry.io/collector/receiver/xreceiver"
)

// ---- scripted consumer ----

type c15Sink struct {
	mu    sync.Mutex
	next  error
	calls int
	last  []byte
	keep  bool // concurrency cases: remember every payload, not just the last
	all   [][]byte
	sig   string // which Consume method received the last payload
}

func (s *c15Sink) lastSignal() string {
	s.mu.Lock()
	defer s.mu.Unlock()
	return s.sig
}

func (s *c15Sink) Capabilities() consumer.Capabilities { return consumer.Capabilities{} }

func (s *c15Sink) got(b []byte, sig string) error {
	s.mu.Lock()
	defer s.mu.Unlock()
	s.sig = sig
	s.calls++
	s.last = b
	if s.keep {
		s.all = append(s.all, b)
	}
	return s.next
}

func (s *c15Sink) ConsumeLogs(_ context.Context, ld plog.Logs) error {
	b, _ := (&plog.ProtoMarshaler{}).MarshalLogs(ld)
	return s.got(b, "logs")
}

func (s *c15Sink) ConsumeTraces(_ context.Context, td ptrace.Traces) error {
	b, _ := (&ptrace.ProtoMarshaler{}).MarshalTraces(td)
	return s.got(b, "traces")
}

func (s *c15Sink) ConsumeMetrics(_ context.Context, md pmetric.Metrics) error {
	b, _ := (&pmetric.ProtoMarshaler{}).MarshalMetrics(md)
	return s.got(b, "metrics")
}

func (s *c15Sink) ConsumeProfiles(_ context.Context, pd pprofile.Profiles) error {
	b, _ := (&pprofile.ProtoMarshaler{}).MarshalProfiles(pd)
	return s.got(b, "profiles")
}

func (s *c15Sink) set(err error) {
	s.mu.Lock()
	s.next, s.last = err, nil
	s.mu.Unlock()
}

func (s *c15Sink) snapshot() (int, []byte) {
	s.mu.Lock()
	defer s.mu.Unlock()
	return s.calls, s.last
}

// ---- server-side authenticator ----

type c15Auth struct{}

func (c15Auth) Start(context.Context, component.Host) error { return nil }
func (c15Auth) Shutdown(context.Context) error              { return nil }
func (c15Auth) Authenticate(ctx context.Context, sources map[string][]string) (context.Context, error) {
	for k, v := range sources {
		if strings.EqualFold(k, "authorization") && len(v) > 0 && v[0] == "c15-secret" {
			return ctx, nil
		}
	}
	return ctx, c15AuthError()
}

// ---- the SHAPE of the authenticator's rejection (a generator dimension of the auth cases) ----
// Whatever error the authenticator returns — a plain error, a gRPC status error of any code (a remote token service being
// Unavailable / DeadlineExceeded, a PermissionDenied, …), a wrapped status, an error type with a GRPCStatus() method (even one
// reporting OK) — an unauthenticated request must get the protocol's client-error status, must not reach the consumer and must
// not look retryable (let alone successful) to the sender.

var (
	c15AuthMu    sync.Mutex
	c15AuthShape = "plain"
)

func c15SetAuthShape(sh string) {
	c15AuthMu.Lock()
	c15AuthShape = sh
	c15AuthMu.Unlock()
}

// c15GS: an error that carries its gRPC status through the GRPCStatus() method only
type c15GS struct{ code codes.Code }

func (e c15GS) Error() string              { return fmt.Sprintf("c15: token service said %s", e.code) }
func (e c15GS) GRPCStatus() *status.Status { return status.New(e.code, "c15 authenticator status") }

func c15AuthError() error {
	c15AuthMu.Lock()
	sh := c15AuthShape
	c15AuthMu.Unlock()
	parts := strings.Split(sh, ":")
	code := codes.Unauthenticated
	if len(parts) > 1 {
		n, _ := strconv.Atoi(parts[1])
		code = codes.Code(n)
	}
	switch parts[0] {
	case "st": // a status error of that code
		return status.Error(code, "c15: rejected by the token service")
	case "stri": // … carrying RetryInfo
		st, _ := status.New(code, "c15: rejected, retry later").WithDetails(&errdetails.RetryInfo{RetryDelay: durationpb.New(2 * time.Second)})
		return st.Err()
	case "wrap": // a status error wrapped with %w
		return fmt.Errorf("c15 auth: %w", status.Error(code, "c15: inner"))
	case "perm": // … wrapped into a consumererror.Permanent
		return consumererror.NewPermanent(status.Error(code, "c15: inner"))
	case "gs": // GRPCStatus() method only (code 0 = OK: status.Err() of it is nil)
		return c15GS{code}
	}
	return errors.New("c15: not authenticated")
}

var c15AuthShapes = []string{"plain", "plain", "st:16", "st:7", "st:14", "st:4", "st:1", "st:8", "st:13", "st:2", "st:10", "st:15", "st:11", "st:99",
	"stri:14", "stri:8", "wrap:14", "wrap:4", "wrap:7", "perm:14", "gs:0", "gs:14", "gs:4", "gs:16", "gs:7"}

type c15Host struct {
	ext map[component.ID]component.Component
}

func (h c15Host) GetExtensions() map[component.ID]component.Component { return h.ext }

var c15AuthID = component.MustNewID("c15auth")

func c15FreeAddr(t *testing.T) string {
	l, err := net.Listen("tcp", "127.0.0.1:0")
	if err != nil {
		t.Fatal(err)
	}
	defer l.Close()
	return l.Addr().String()
}

type c15Recv struct {
	grpcAddr, httpAddr string
	sink               *c15Sink
	conn               *grpc.ClientConn
}

func c15StartReceiver(t *testing.T, auth bool, maxBody ...int64) *c15Recv {
	r := &c15Recv{grpcAddr: c15FreeAddr(t), httpAddr: c15FreeAddr(t), sink: &c15Sink{}}
	f := otlpreceiver.NewFactory()
	cfg := f.CreateDefaultConfig().(*otlpreceiver.Config)
	if len(maxBody) > 0 && maxBody[0] < 0 {
		// the receiver with custom URL paths (addressing cases)
		cfg.HTTP.TracesURLPath, cfg.HTTP.MetricsURLPath, cfg.HTTP.LogsURLPath = c15CustomPaths["traces"], c15CustomPaths["metrics"], c15CustomPaths["logs"]
		maxBody = nil
	}
	if len(maxBody) > 0 {
		cfg.HTTP.ServerConfig.MaxRequestBodySize = maxBody[0]
		cfg.GRPC.MaxRecvMsgSizeMiB = 1
	}
	cfg.GRPC.NetAddr.Endpoint = r.grpcAddr
	cfg.HTTP.ServerConfig.Endpoint = r.httpAddr
	if auth {
		cfg.GRPC.Auth = &configauth.Authentication{AuthenticatorID: c15AuthID}
		cfg.HTTP.ServerConfig.Auth = &confighttp.AuthConfig{Authentication: configauth.Authentication{AuthenticatorID: c15AuthID}}
	}
	set := receivertest.NewNopSettings(f.Type())
	host := c15Host{ext: map[component.ID]component.Component{c15AuthID: c15Auth{}}}
	lr, err := f.CreateLogs(context.Background(), set, cfg, r.sink)
	if err != nil {
		t.Fatal(err)
	}
	tr, err := f.CreateTraces(context.Background(), set, cfg, r.sink)
	if err != nil {
		t.Fatal(err)
	}
	mr, err := f.CreateMetrics(context.Background(), set, cfg, r.sink)
	if err != nil {
		t.Fatal(err)
	}
	pr, err := f.(xreceiver.Factory).CreateProfiles(context.Background(), set, cfg, r.sink)
	if err != nil {
		t.Fatal(err)
	}
	for _, c := range []component.Component{lr, tr, mr, pr} {
		if err := c.Start(context.Background(), host); err != nil {
			t.Fatal(err)
		}
	}
	t.Cleanup(func() {
		for _, c := range []component.Component{lr, tr, mr, pr} {
			_ = c.Shutdown(context.Background())
		}
	})
	conn, err := grpc.NewClient(r.grpcAddr, grpc.WithTransportCredentials(insecure.NewCredentials()))
	if err != nil {
		t.Fatal(err)
	}
	t.Cleanup(func() { _ = conn.Close() })
	r.conn = conn
	return r
}

// ---- exporters (cached per configuration) ----

type c15Exp struct {
	logs    consumer.Logs
	traces  consumer.Traces
	metrics consumer.Metrics
	prof    xexporter.Profiles
}

type c15ExpKey struct {
	tr, enc, comp string
	auth, good    bool
	lvl           int // compression_params.level (http only); 0 = unset
}

func c15MakeExporter(t *testing.T, r *c15Recv, k c15ExpKey) *c15Exp {
	ctx := context.Background()
	host := c15Host{}
	headers := map[string]configopaque.String{}
	if k.good {
		headers["Authorization"] = "c15-secret"
	}
	var comps []component.Component
	out := &c15Exp{}
	if k.tr == "grpc" {
		f := otlpexporter.NewFactory()
		cfg := f.CreateDefaultConfig().(*otlpexporter.Config)
		cfg.QueueConfig.Enabled = false
		cfg.RetryConfig.Enabled = false
		cfg.ClientConfig.Endpoint = r.grpcAddr
		cfg.TimeoutConfig.Timeout = c15Patience // default 5 s: a wall-clock effect on a loaded machine, not a property of the hop
		cfg.ClientConfig.TLSSetting = configtls.ClientConfig{Insecure: true}
		cfg.ClientConfig.Compression = configcompression.Type(k.comp)
		cfg.ClientConfig.Headers = headers
		set := exportertest.NewNopSettings(f.Type())
		l, err := f.CreateLogs(ctx, set, cfg)
		if err != nil {
			t.Fatal(err)
		}
		tr, err := f.CreateTraces(ctx, set, cfg)
		if err != nil {
			t.Fatal(err)
		}
		m, err := f.CreateMetrics(ctx, set, cfg)
		if err != nil {
			t.Fatal(err)
		}
		pe, err := f.(xexporter.Factory).CreateProfiles(ctx, set, cfg)
		if err != nil {
			t.Fatal(err)
		}
		out.logs, out.traces, out.metrics, out.prof = l, tr, m, pe
		comps = []component.Component{l, tr, m, pe}
	} else {
		f := otlphttpexporter.NewFactory()
		cfg := f.CreateDefaultConfig().(*otlphttpexporter.Config)
		cfg.QueueConfig.Enabled = false
		cfg.RetryConfig.Enabled = false
		cfg.ClientConfig.Endpoint = "http://" + r.httpAddr
		cfg.ClientConfig.Timeout = c15Patience // default 30 s
		cfg.ClientConfig.Compression = configcompression.Type(k.comp)
		if k.lvl != 0 {
			cfg.ClientConfig.CompressionParams = configcompression.CompressionParams{Level: configcompression.Level(k.lvl)}
		}
		cfg.ClientConfig.Headers = headers
		if k.enc == "json" {
			cfg.Encoding = otlphttpexporter.EncodingJSON
		} else {
			cfg.Encoding = otlphttpexporter.EncodingProto
		}
		set := exportertest.NewNopSettings(f.Type())
		l, err := f.CreateLogs(ctx, set, cfg)
		if err != nil {
			t.Fatal(err)
		}
		tr, err := f.CreateTraces(ctx, set, cfg)
		if err != nil {
			t.Fatal(err)
		}
		m, err := f.CreateMetrics(ctx, set, cfg)
		if err != nil {
			t.Fatal(err)
		}
		pe, err := f.(xexporter.Factory).CreateProfiles(ctx, set, cfg)
		if err != nil {
			t.Fatal(err)
		}
		out.logs, out.traces, out.metrics, out.prof = l, tr, m, pe
		comps = []component.Component{l, tr, m, pe}
	}
	for _, c := range comps {
		if err := c.Start(ctx, host); err != nil {
			t.Fatal(err)
		}
	}
	t.Cleanup(func() {
		for _, c := range comps {
			_ = c.Shutdown(ctx)
		}
	})
	return out
}

// ---- outcomes ----

type c15Outcome struct {
	kind    string // ok plain perm st
	code    uint32
	hasRI   bool
	riUnset bool // hasRI: the RetryInfo detail is present but its optional retry_delay field is NOT set (RetryInfo{}); reads as delay 0
	ri      time.Duration
	wrapped bool // status error wrapped into consumererror.NewPermanent / fmt.Errorf("%w")
}

func (o c15Outcome) token() string {
	switch o.kind {
	case "st":
		ri := "-"
		if o.hasRI {
			ri = strconv.FormatInt(int64(o.ri), 10)
		}
		return fmt.Sprintf("st:%d:%s", o.code, ri)
	default:
		return o.kind
	}
}

func (o c15Outcome) err() error {
	switch o.kind {
	case "ok":
		return nil
	case "plain":
		return errors.New("c15 transient failure")
	case "perm":
		return consumererror.NewPermanent(errors.New("c15 permanent failure"))
	}
	st := status.New(codes.Code(o.code), "c15 explicit status")
	if o.hasRI {
		var err error
		info := &errdetails.RetryInfo{RetryDelay: durationpb.New(o.ri)}
		if o.riUnset {
			info = &errdetails.RetryInfo{} // present, retry_delay unset
		}
		st, err = st.WithDetails(info)
		if err != nil {
			panic(err)
		}
	}
	e := st.Err()
	if o.wrapped {
		return consumererror.NewPermanent(fmt.Errorf("wrapped: %w", e))
	}
	return e
}

// c15Patience: every wall-clock limit of the harness (client timeouts, context deadlines). Generous on purpose: on a loaded machine a
// slow loopback exchange is not a violation; a hang still ends the test.
const c15Patience = 120 * time.Second

// c15TransportFailure: did the export fail in the CLIENT's transport (no answer of the server was classified)? OTLP/HTTP: the error
// carries no gRPC status (every answered request yields one via statusutil); OTLP/gRPC: deadline / Unavailable / Canceled, which the
// client transport produces itself - the caller additionally checks that the server side has no record of the request.
func c15TransportFailure(tr string, err error) bool {
	if err == nil {
		return false
	}
	if errors.Is(err, context.DeadlineExceeded) || errors.Is(err, context.Canceled) {
		return true
	}
	st, ok := status.FromError(err)
	if tr == "http" {
		return !ok
	}
	return ok && (st.Code() == codes.Unavailable || st.Code() == codes.DeadlineExceeded || st.Code() == codes.Canceled)
}

func (s *c15Sink) has(b []byte) bool {
	s.mu.Lock()
	defer s.mu.Unlock()
	for _, x := range s.all {
		if bytes.Equal(x, b) {
			return true
		}
	}
	return false
}

var c15Delays = []time.Duration{0, 1, 500 * time.Millisecond, 999999999, time.Second, 1500 * time.Millisecond, 2 * time.Second, 90 * time.Second}

// ---- classification of the exporter's error ----

func c15Verdict(err error) string {
	if err == nil {
		return "success"
	}
	for e := err; e != nil; e = errors.Unwrap(e) {
		v := reflect.ValueOf(e)
		if v.Kind() == reflect.Struct && v.Type().Name() == "throttleRetry" {
			return fmt.Sprintf("throttle:%d", v.FieldByName("delay").Int())
		}
	}
	if consumererror.IsPermanent(err) {
		return "permanent"
	}
	return "retryable"
}

// ---- payloads ----

type c15Payload struct {
	sig   string
	items int
	logs  plog.Logs
	tr    ptrace.Traces
	m     pmetric.Metrics
	pr    pprofile.Profiles
	want  []byte
	pb    []byte // export request, protobuf
	js    []byte // export request, JSON
}

func c15MakePayload(sig string, items int, shell bool, tag string) c15Payload {
	p := c15Payload{sig: sig, items: items}
	switch sig {
	case "logs":
		if items > 0 {
			p.logs = testdata.GenerateLogs(items)
			p.logs.ResourceLogs().At(0).Resource().Attributes().PutStr("c15.tag", tag)
		} else {
			p.logs = plog.NewLogs()
			if shell {
				p.logs.ResourceLogs().AppendEmpty().ScopeLogs().AppendEmpty().Scope().SetName(tag)
			}
		}
		p.want, _ = (&plog.ProtoMarshaler{}).MarshalLogs(p.logs)
		rq := plogotlp.NewExportRequestFromLogs(p.logs)
		p.pb, _ = rq.MarshalProto()
		p.js, _ = rq.MarshalJSON()
	case "traces":
		if items > 0 {
			p.tr = testdata.GenerateTraces(items)
			p.tr.ResourceSpans().At(0).Resource().Attributes().PutStr("c15.tag", tag)
		} else {
			p.tr = ptrace.NewTraces()
			if shell {
				p.tr.ResourceSpans().AppendEmpty().ScopeSpans().AppendEmpty().Scope().SetName(tag)
			}
		}
		p.want, _ = (&ptrace.ProtoMarshaler{}).MarshalTraces(p.tr)
		rq := ptraceotlp.NewExportRequestFromTraces(p.tr)
		p.pb, _ = rq.MarshalProto()
		p.js, _ = rq.MarshalJSON()
	case "profiles":
		if items > 0 {
			p.pr = testdata.GenerateProfiles(items) // one sample per profile
			p.pr.ResourceProfiles().At(0).Resource().Attributes().PutStr("c15.tag", tag)
		} else {
			p.pr = pprofile.NewProfiles()
			if shell {
				p.pr.ResourceProfiles().AppendEmpty().ScopeProfiles().AppendEmpty().Scope().SetName(tag)
			}
		}
		p.want, _ = (&pprofile.ProtoMarshaler{}).MarshalProfiles(p.pr)
		rq := pprofileotlp.NewExportRequestFromProfiles(p.pr)
		p.pb, _ = rq.MarshalProto()
		p.js, _ = rq.MarshalJSON()
	default:
		if items > 0 {
			p.m = testdata.GenerateMetrics(items)
			p.m.ResourceMetrics().At(0).Resource().Attributes().PutStr("c15.tag", tag)
		} else {
			p.m = pmetric.NewMetrics()
			if shell {
				p.m.ResourceMetrics().AppendEmpty().ScopeMetrics().AppendEmpty().Metrics().AppendEmpty().SetName(tag)
			}
		}
		p.want, _ = (&pmetric.ProtoMarshaler{}).MarshalMetrics(p.m)
		rq := pmetricotlp.NewExportRequestFromMetrics(p.m)
		p.pb, _ = rq.MarshalProto()
		p.js, _ = rq.MarshalJSON()
	}
	return p
}

var c15Paths = map[string]string{"logs": "/v1/logs", "traces": "/v1/traces", "metrics": "/v1/metrics", "profiles": "/v1development/profiles"}
var c15Methods = map[string]string{
	"logs":     "/opentelemetry.proto.collector.logs.v1.LogsService/Export",
	"traces":   "/opentelemetry.proto.collector.trace.v1.TraceService/Export",
	"metrics":  "/opentelemetry.proto.collector.metrics.v1.MetricsService/Export",
	"profiles": "/opentelemetry.proto.collector.profiles.v1development.ProfilesService/Export",
}

// raw gRPC codec: the request is already-encoded bytes, the response is discarded
type c15RawCodec struct{}

func (c15RawCodec) Marshal(v any) ([]byte, error) { return v.([]byte), nil }
func (c15RawCodec) Unmarshal([]byte, any) error   { return nil }
func (c15RawCodec) Name() string                  { return "proto" }

var _ encoding.Codec = c15RawCodec{}

func c15ProbeGrpc(r *c15Recv, sig string, body []byte, good bool) (code uint32, ri string) {
	ctx, cancel := context.WithTimeout(context.Background(), c15Patience)
	defer cancel()
	if good {
		ctx = metadata.AppendToOutgoingContext(ctx, "authorization", "c15-secret")
	}
	return c15ProbeGrpcAt(ctx, r, c15Methods[sig], body)
}

// c15ProbeGrpcAt: a raw unary call to any method path, with extra call options (e.g. a compressor the server does not know)
func c15ProbeGrpcAt(ctx context.Context, r *c15Recv, method string, body []byte, opts ...grpc.CallOption) (code uint32, ri string) {
	var resp []byte
	err := r.conn.Invoke(ctx, method, body, &resp, append([]grpc.CallOption{grpc.ForceCodec(c15RawCodec{})}, opts...)...)
	st := status.Convert(err)
	ri = "-"
	for _, d := range st.Details() {
		if x, ok := d.(*errdetails.RetryInfo); ok {
			ri = strconv.FormatInt(int64(x.GetRetryDelay().AsDuration()), 10)
		}
	}
	return uint32(st.Code()), ri
}

// c15XCompressor: a gRPC compressor only the CLIENT knows ("c15x"). It is given to a dedicated ClientConn through the legacy
// dial option, NOT registered in grpc's process-wide encoding registry (which the receiver in this process would see too).
type c15XCompressor struct{}

func (c15XCompressor) Do(w io.Writer, p []byte) error { _, err := w.Write(p); return err }
func (c15XCompressor) Type() string                   { return "c15x" }

var c15XConns = map[string]*grpc.ClientConn{}

func c15XConn(r *c15Recv) *grpc.ClientConn {
	if c, ok := c15XConns[r.grpcAddr]; ok {
		return c
	}
	c, err := grpc.NewClient(r.grpcAddr, grpc.WithTransportCredentials(insecure.NewCredentials()), grpc.WithCompressor(c15XCompressor{})) //nolint:staticcheck
	if err != nil {
		panic(err)
	}
	c15XConns[r.grpcAddr] = c
	return c
}

var c15HTTPClient = &http.Client{Timeout: c15Patience}

func c15ProbeHTTP(r *c15Recv, method, path, ctype, cenc string, body []byte, good bool) (st int, ra string, bodyCode int) {
	req, err := http.NewRequest(method, "http://"+r.httpAddr+path, bytes.NewReader(body))
	if err != nil {
		return -1, "-", -1
	}
	if ctype != "" {
		req.Header.Set("Content-Type", ctype)
	}
	if cenc != "" {
		req.Header.Set("Content-Encoding", cenc)
	}
	if good {
		req.Header.Set("Authorization", "c15-secret")
	}
	resp, err := c15HTTPClient.Do(req)
	if err != nil {
		return -1, "-", -1
	}
	defer resp.Body.Close()
	b, _ := io.ReadAll(resp.Body)
	ra = "-"
	if v := resp.Header.Values("Retry-After"); len(v) > 0 {
		ra = v[0]
	}
	bodyCode = 0
	if resp.StatusCode >= 400 {
		bodyCode = -1
		switch {
		case strings.HasPrefix(resp.Header.Get("Content-Type"), "application/x-protobuf"):
			var s spb.Status
			if proto.Unmarshal(b, &s) == nil {
				bodyCode = int(s.Code)
			}
		case strings.HasPrefix(resp.Header.Get("Content-Type"), "application/json"):
			var s struct {
				Code int `json:"code"`
			}
			if json.Unmarshal(b, &s) == nil {
				bodyCode = s.Code
			}
		}
	}
	return resp.StatusCode, ra, bodyCode
}

type c15Case struct {
	raw   bool
	tr    string // grpc http
	enc   string // pb json (http only)
	comp  string
	sig   string
	items int
	lvl   int // compression level of the HTTP client (0 = default); not an input of the model: the payload must arrive whatever it is
	shell bool
	out   c15Outcome
	auth  string   // off good bad
	recv  string   // raw only: "small" = the receiver with max_request_body_size 4096
	fk    *c15Fake // a sender-side case against the scripted fake servers
	ae    string   // auth=bad: the shape of the authenticator's error ("" = random), see c15AuthError
	ovl   string   // != "": an overlap case (compression of the senders, or "mixed"); conc = number of overlapping exports
	conc  int      // > 0: a concurrency case with that many overlapping senders (monitor)
	kind  string   // raw only
	extra string   // raw only: method / content type / …
}

var c15GrpcComps = []string{"none", "gzip", "snappy", "zstd"}
var c15HTTPComps = []string{"none", "gzip", "zlib", "deflate", "snappy", "zstd", "lz4"}
var c15Sigs = []string{"logs", "traces", "metrics"}

// every signal, incl. the development profiles signal (kept out of c15Sigs so that the corpus indices do not move)
var c15AllSigs = []string{"logs", "traces", "metrics", "profiles"}

func c15Corpus() []c15Case {
	var cs []c15Case
	st := func(code uint32, hasRI bool, ri time.Duration) c15Outcome {
		return c15Outcome{kind: "st", code: code, hasRI: hasRI, ri: ri}
	}
	// DESIGN finding: Retry-After truncation (500ms → 0, 1.5s → 1)
	cs = append(cs, c15Case{tr: "http", enc: "pb", comp: "none", sig: "logs", items: 2, out: st(14, true, 500*time.Millisecond), auth: "off"})
	cs = append(cs, c15Case{tr: "http", enc: "json", comp: "gzip", sig: "traces", items: 1, out: st(8, true, 1500*time.Millisecond), auth: "off"})
	cs = append(cs, c15Case{tr: "grpc", enc: "-", comp: "none", sig: "logs", items: 2, out: st(14, true, 500*time.Millisecond), auth: "off"})
	// found while building: auth / decompressor rejection of a request without a usable Content-Type was answered 500
	cs = append(cs, c15Case{raw: true, tr: "http", kind: "ctype", sig: "logs", out: c15Outcome{kind: "ok"}, auth: "bad"})
	cs = append(cs, c15Case{raw: true, tr: "http", kind: "badenc+ctype", sig: "traces", out: c15Outcome{kind: "ok"}, auth: "off"})
	// every code, both transports, with and without retry info
	for code := uint32(1); code <= 17; code++ {
		for _, tr := range []string{"grpc", "http"} {
			for _, withRI := range []bool{false, true} {
				enc := "pb"
				if tr == "grpc" {
					enc = "-"
				}
				cs = append(cs, c15Case{tr: tr, enc: enc, comp: "none", sig: c15Sigs[int(code)%3], items: 1, out: st(code, withRI, 2*time.Second), auth: "off"})
			}
		}
	}
	for _, tr := range []string{"grpc", "http"} {
		enc := "pb"
		if tr == "grpc" {
			enc = "-"
		}
		for _, k := range []string{"ok", "plain", "perm"} {
			cs = append(cs, c15Case{tr: tr, enc: enc, comp: "none", sig: "metrics", items: 3, out: c15Outcome{kind: k}, auth: "off"})
		}
		cs = append(cs, c15Case{tr: tr, enc: enc, comp: "none", sig: "logs", items: 0, out: c15Outcome{kind: "perm"}, auth: "off"})
		cs = append(cs, c15Case{tr: tr, enc: enc, comp: "none", sig: "logs", items: 1, out: c15Outcome{kind: "ok"}, auth: "bad"})
		cs = append(cs, c15Case{tr: tr, enc: enc, comp: "none", sig: "logs", items: 1, out: c15Outcome{kind: "plain"}, auth: "good"})
	}
	return cs
}

// large (multi-block) payloads over every HTTP compression at non-default levels: level-dependent frame parameters
// only matter once the body is streamed in more than one block
func c15BigCorpus() []c15Case {
	var cs []c15Case
	for _, cl := range []struct {
		comp string
		lvl  int
	}{{"zstd", 0}, {"zstd", 3}, {"zstd", 6}, {"zstd", 11}, {"gzip", 9}, {"gzip", 1}, {"zlib", 9}, {"deflate", 1}, {"snappy", 0}, {"lz4", 0}} {
		for i, enc := range []string{"pb", "json"} {
			cs = append(cs, c15Case{tr: "http", enc: enc, comp: cl.comp, lvl: cl.lvl, sig: c15Sigs[(i+cl.lvl)%3], items: 3000, out: c15Outcome{kind: "ok"}, auth: "off"})
		}
	}
	for _, comp := range c15GrpcComps {
		cs = append(cs, c15Case{tr: "grpc", enc: "-", comp: comp, sig: "traces", items: 3000, out: c15Outcome{kind: "ok"}, auth: "off"})
	}
	return cs
}

func c15Gen(rnd interface{ IntN(int) int }) c15Case {
	var c c15Case
	c.sig = c15AllSigs[rnd.IntN(4)]
	c.auth = []string{"off", "off", "good", "bad"}[rnd.IntN(4)]
	switch k := rnd.IntN(10); {
	case k < 2:
		c.out = c15Outcome{kind: "ok"}
	case k < 3:
		c.out = c15Outcome{kind: "plain"}
	case k < 4:
		c.out = c15Outcome{kind: "perm"}
	default:
		code := uint32(1 + rnd.IntN(16))
		if rnd.IntN(12) == 0 {
			code = uint32([]int{17, 20, 99, 1000}[rnd.IntN(4)])
		}
		c.out = c15Outcome{kind: "st", code: code, wrapped: rnd.IntN(4) == 0}
		if rnd.IntN(3) > 0 {
			c.out.hasRI = true
			if rnd.IntN(3) == 0 {
				c.out.ri = time.Duration(rnd.IntN(5_000_000)) * time.Microsecond
			} else {
				c.out.ri = c15Delays[rnd.IntN(len(c15Delays))]
			}
			// three shapes of RetryInfo: absent / present with a delay (incl. 0) / present with the delay field unset
			if rnd.IntN(4) == 0 {
				c.out.riUnset, c.out.ri = true, 0
			}
		}
	}
	if rnd.IntN(5) == 0 {
		c.raw = true
		if rnd.IntN(4) == 0 {
			c.tr = "grpc"
			c.kind = []string{"badbody", "fine", "badmethod", "badgrpcenc", "oversize", "badmethod+badbody", "badgrpcenc+badbody", "oversize+badbody"}[rnd.IntN(8)]
			if strings.Contains(c.kind, "oversize") {
				c.recv, c.auth = "small", "off"
			}
			return c
		}
		c.tr = "http"
		kinds := []string{"method", "ctype", "badbody", "badbodyjson", "badpath", "badenc", "fine", "method+ctype", "ctype+badbody", "badenc+method", "badpath+method", "badenc+badpath"}
		c.kind = kinds[rnd.IntN(len(kinds))]
		if rnd.IntN(2) == 0 {
			// every malformed class × both content types × every compression
			comp := c15HTTPComps[1+rnd.IntN(len(c15HTTPComps)-1)]
			c.kind = []string{
				"comp:" + comp, "json+comp:" + comp, "json", "comp:" + comp + "+truncated", "json+comp:" + comp + "+truncated",
				"json+method", "json+badpath", "comp:" + comp + "+method", "comp:" + comp + "+ctype", "comp:" + comp + "+badbody", "json+comp:" + comp + "+badbodyjson",
				"oversize", "json+oversize", "comp:" + comp + "+bomb", "json+comp:" + comp + "+bomb", "comp:" + comp + "+oversize",
			}[rnd.IntN(16)]
			if strings.Contains(c.kind, "oversize") || strings.Contains(c.kind, "bomb") {
				c.recv, c.auth = "small", "off"
			}
		}
		return c
	}
	if rnd.IntN(2) == 0 {
		c.tr, c.enc = "grpc", "-"
		c.comp = c15GrpcComps[rnd.IntN(len(c15GrpcComps))]
	} else {
		c.tr = "http"
		c.enc = []string{"pb", "json"}[rnd.IntN(2)]
		c.comp = c15HTTPComps[rnd.IntN(len(c15HTTPComps))]
	}
	c.items = []int{0, 1, 1, 2, 5, 17}[rnd.IntN(6)]
	c.shell = rnd.IntN(2) == 0
	return c
}

// c15Conc: `k` real exporters (OTLP/HTTP proto+JSON with every compression, and gRPC) each send a series of distinct,
// self-describing payloads of many items, all at the same time, to ONE receiver whose consumer accepts everything —
// a sustained burst, so that requests overlap inside the receiver in every phase (read, decode, consume).
// Monitor: every request is acknowledged (verdict success) and the multiset of payloads at the consumer is exactly the
// multiset that was sent (no cross-talk between requests that overlap inside the receiver).
func c15Conc(t *testing.T, out *vOut, r *c15Recv, exps map[c15ExpKey]*c15Exp, ci, k int, rnd interface{ IntN(int) int }) {
	type job struct {
		key    c15ExpKey
		p      c15Payload
		e      *c15Exp
		want   [][]byte
		errs   []error
		tries  []int // attempts per request (> 1: earlier attempts failed in the client transport with no server-side record)
		series int
	}
	// schedule exploration: with few Ps the receiver's handler goroutines are time-sliced on the same P (a handler that is
	// preempted while decoding shares its P — and every per-P cache such as sync.Pool — with handlers that are just starting)
	procs := []int{1, 1, 1, 2, 2, 4, 0}[rnd.IntN(7)]
	if procs > 0 {
		defer runtime.GOMAXPROCS(runtime.GOMAXPROCS(procs))
	}
	jobs := make([]*job, k)
	for i := range jobs {
		var key c15ExpKey
		items, series := 0, 0
		switch {
		case i < 2:
			// slow to decode: a big JSON body (the handler is preempted several times in the middle of decoding it)
			key = c15ExpKey{tr: "http", enc: "json", comp: c15HTTPComps[rnd.IntN(len(c15HTTPComps))]}
			items, series = 12000+rnd.IntN(8000), 1+rnd.IntN(2)
		case i%3 == 2:
			key = c15ExpKey{tr: "grpc", enc: "-", comp: c15GrpcComps[rnd.IntN(len(c15GrpcComps))]}
			items, series = 200+rnd.IntN(1500), 3
		default:
			key = c15ExpKey{tr: "http", enc: []string{"pb", "json"}[rnd.IntN(2)], comp: c15HTTPComps[rnd.IntN(len(c15HTTPComps))]}
			items, series = 200+rnd.IntN(1500), 3
		}
		e, ok := exps[key]
		if !ok {
			e = c15MakeExporter(t, r, key)
			exps[key] = e
		}
		jobs[i] = &job{key: key, e: e, series: series, p: c15MakePayload(c15AllSigs[rnd.IntN(4)], items, false, fmt.Sprintf("conc-%d-%d", ci, i))}
	}
	r.sink.set(nil)
	r.sink.mu.Lock()
	r.sink.keep, r.sink.all = true, nil
	r.sink.mu.Unlock()
	start := make(chan struct{})
	var wg sync.WaitGroup
	for i, j := range jobs {
		wg.Add(1)
		go func(i int, j *job) {
			defer wg.Done()
			<-start
			for n := 0; n < j.series; n++ {
				// make this request's payload unique and self-describing, then remember exactly what is sent
				tag := fmt.Sprintf("conc-%d-%d-%d", ci, i, n)
				var err error
				var want []byte
				switch j.p.sig {
				case "logs":
					j.p.logs.ResourceLogs().At(0).Resource().Attributes().PutStr("c15.tag", tag)
					want, _ = (&plog.ProtoMarshaler{}).MarshalLogs(j.p.logs)
				case "traces":
					j.p.tr.ResourceSpans().At(0).Resource().Attributes().PutStr("c15.tag", tag)
					want, _ = (&ptrace.ProtoMarshaler{}).MarshalTraces(j.p.tr)
				case "profiles":
					j.p.pr.ResourceProfiles().At(0).Resource().Attributes().PutStr("c15.tag", tag)
					want, _ = (&pprofile.ProtoMarshaler{}).MarshalProfiles(j.p.pr)
				default:
					j.p.m.ResourceMetrics().At(0).Resource().Attributes().PutStr("c15.tag", tag)
					want, _ = (&pmetric.ProtoMarshaler{}).MarshalMetrics(j.p.m)
				}
				tries := 0
				for {
					tries++
					ctx, cancel := context.WithTimeout(context.Background(), c15Patience)
					switch j.p.sig {
					case "logs":
						err = j.e.logs.ConsumeLogs(ctx, j.p.logs)
					case "traces":
						err = j.e.traces.ConsumeTraces(ctx, j.p.tr)
					case "profiles":
						err = j.e.prof.ConsumeProfiles(ctx, j.p.pr)
					default:
						err = j.e.metrics.ConsumeMetrics(ctx, j.p.m)
					}
					cancel()
					// a failure of the client's transport (deadline, reset, EOF, …) of a request the server side has NO record of is a
					// wall-clock / loopback effect of a loaded machine: sent again, up to 3 times. Anything the server saw and did not
					// acknowledge, any answer of the server, and anything still failing afterwards stays a violation.
					if err == nil || tries > 3 || !c15TransportFailure(j.key.tr, err) || r.sink.has(want) {
						break
					}
				}
				j.want = append(j.want, want)
				j.errs = append(j.errs, err)
				j.tries = append(j.tries, tries)
			}
		}(i, j)
	}
	// the swarm: plain HTTP clients that post one prebuilt, big, uncompressed protobuf request over and over for as long as
	// the exporters are busy — cheap to send, so at every moment some request is just entering the receiver while the slow
	// JSON bodies are being decoded
	swarmP := c15MakePayload("logs", 4000+rnd.IntN(3000), false, fmt.Sprintf("conc-%d-swarm", ci))
	stop := make(chan struct{})
	var swg sync.WaitGroup
	var smu sync.Mutex
	swarmSent, swarmAcked := 0, 0
	junkSent, junkRejected := 0, 0
	// … and two more that post a big body that is NOT a protobuf message (cheap for the receiver: it must answer 400 without
	// touching the consumer), so they come around even faster
	junk := bytes.Repeat([]byte{0xff}, 8<<20+rnd.IntN(4<<20))
	swarmClient := &http.Client{Timeout: c15Patience, Transport: &http.Transport{MaxIdleConnsPerHost: 16}}
	swarmRetries := 0
	for w := 0; w < 6; w++ {
		swg.Add(1)
		go func(isJunk bool) {
			defer swg.Done()
			<-start
			for n := 0; ; n++ {
				select {
				case <-stop:
					if n > 0 {
						return
					}
				default:
				}
				body, wantStatus := swarmP.pb, http.StatusOK
				if isJunk {
					body, wantStatus = junk, http.StatusBadRequest
				}
				var resp *http.Response
				var err error
				for try := 1; ; try++ {
					req, _ := http.NewRequest(http.MethodPost, "http://"+r.httpAddr+"/v1/logs", bytes.NewReader(body))
					req.Header.Set("Content-Type", "application/x-protobuf")
					resp, err = swarmClient.Do(req)
					if err == nil || try > 3 {
						break
					}
					// no HTTP answer at all: a transport-level failure of the plain client; sent again
					smu.Lock()
					swarmRetries++
					smu.Unlock()
				}
				ok := false
				if err == nil {
					_, _ = io.Copy(io.Discard, resp.Body)
					resp.Body.Close()
					ok = resp.StatusCode == wantStatus
				}
				smu.Lock()
				switch {
				case isJunk:
					junkSent++
					if ok {
						junkRejected++
					}
				default:
					swarmSent++
					if ok {
						swarmAcked++
					}
				}
				smu.Unlock()
			}
		}(w%3 != 0)
	}
	close(start)
	wg.Wait()
	close(stop)
	swg.Wait()
	swarmClient.CloseIdleConnections()
	r.sink.mu.Lock()
	got := r.sink.all
	r.sink.keep, r.sink.all = false, nil
	r.sink.mu.Unlock()
	total := swarmSent
	for _, j := range jobs {
		total += j.series
	}
	out.Linef("op conc k=%d", total)
	acked := swarmAcked
	// a request that was sent again may have reached the consumer more than once (an attempt whose answer got lost): allowed, and
	// not counted twice below
	want := map[string]int{string(swarmP.want): swarmSent + swarmRetries}
	logical := map[string]int{string(swarmP.want): swarmSent}
	transportRetries := swarmRetries
	if junkRejected != junkSent {
		out.Linef("viol sig=C15/concurrency/malformed-request-not-rejected-with-400 sent=%d rejected=%d", junkSent, junkRejected)
	}
	out.Linef("stat conc_junk_requests %d", junkSent)
	if swarmAcked != swarmSent {
		out.Linef("viol sig=C15/concurrency/well-formed-request-not-acknowledged sender=swarm sent=%d acked=%d", swarmSent, swarmAcked)
	}
	for i, j := range jobs {
		for n, err := range j.errs {
			if err == nil {
				acked++
			} else {
				out.Linef("viol sig=C15/concurrency/well-formed-request-not-acknowledged sender=%d request=%d tr=%s enc=%s comp=%s verdict=%s", i, n, j.key.tr, j.key.enc, j.key.comp, c15Verdict(err))
			}
		}
		for n, w := range j.want {
			want[string(w)] += j.tries[n]
			logical[string(w)]++
			transportRetries += j.tries[n] - 1
		}
	}
	matched, seenCnt := 0, map[string]int{}
	for _, g := range got {
		if want[string(g)] > 0 {
			want[string(g)]--
			matched++
			seenCnt[string(g)]++
		} else {
			out.Linef("viol sig=C15/concurrency/payload-at-consumer-is-not-one-that-was-sent got=%d bytes", len(g))
		}
	}
	dup := 0 // deliveries of re-sent requests beyond the one the model counts
	for k, c := range seenCnt {
		if c > logical[k] {
			dup += c - logical[k]
		}
	}
	out.Linef("stat conc_transport_retry %d", transportRetries)
	out.Linef("obs conc sent=%d acked=%d delivered=%d matched=%d", total, acked, len(got)-dup, matched-dup)
	out.Linef("stat conc_cases 1")
	out.Linef("stat conc_requests %d", total)
	out.Linef("stat conc_gomaxprocs_%d 1", procs)
}

// TestVerifC15Conc: concurrency cases only (run under -race in the thorough tier: the race detector also reports a
// buffer that is handed to a second request while the first may still read it, whether or not the bytes got mixed)
func TestVerifC15Conc(t *testing.T) {
	out := vOpen(t)
	defer out.Close()
	out.Linef("model c15 1")
	open := c15StartReceiver(t, false)
	exps := map[c15ExpKey]*c15Exp{}
	for _, ci := range vCases(vN(10)) {
		rnd := vRand(ci)
		out.Linef("case %d", ci)
		c15Conc(t, out, open, exps, ci, 4+rnd.IntN(4), rnd)
		out.Linef("nt")
		out.Linef("end")
		out.Flush()
	}
}

func TestVerifC15(t *testing.T) {
	out := vOpen(t)
	defer out.Close()
	out.Linef("model c15 1")
	open := c15StartReceiver(t, false)
	authd := c15StartReceiver(t, true)
	fakes := c15StartFakes(t)
	small := c15StartReceiver(t, false, 4096)
	px := c15StartProxy(t, open.httpAddr)
	custom := c15StartReceiver(t, false, -1)
	routeCorpus := c15RouteCorpus()
	t.Cleanup(func() {
		for k, c := range c15XConns {
			_ = c.Close()
			delete(c15XConns, k)
		}
	})
	exps := map[c15ExpKey]*c15Exp{}
	corpus := append(c15Corpus(), c15BigCorpus()...)
	// undecodable bodies per signal and encoding (the random choice inside covers garbage / tail-truncated / tail-junk)
	for _, sg := range c15AllSigs {
		for _, k := range []string{"badbody", "badbodyjson", "comp:gzip+badbody", "json+comp:zstd+badbodyjson"} {
			for rep := 0; rep < 3; rep++ {
				corpus = append(corpus, c15Case{raw: true, tr: "http", kind: k, sig: sg, out: c15Outcome{kind: "ok"}, auth: "off"})
			}
		}
		for rep := 0; rep < 3; rep++ {
			corpus = append(corpus, c15Case{raw: true, tr: "grpc", kind: "badbody", sig: sg, out: c15Outcome{kind: "ok"}, auth: "off"})
		}
	}
	// gRPC requests grpc-go answers itself: unknown method / service, unknown grpc-encoding, oversized message
	for _, k := range []string{"badmethod", "badgrpcenc", "oversize", "badmethod+badbody", "badgrpcenc+badbody", "oversize+badbody"} {
		cc := c15Case{raw: true, tr: "grpc", kind: k, sig: "logs", out: c15Outcome{kind: "ok"}, auth: "off"}
		if strings.Contains(k, "oversize") {
			cc.recv = "small"
		}
		corpus = append(corpus, cc)
	}
	corpus = append(corpus, c15Case{raw: true, tr: "grpc", kind: "badmethod", sig: "traces", out: c15Outcome{kind: "ok"}, auth: "bad"},
		c15Case{raw: true, tr: "grpc", kind: "badgrpcenc", sig: "metrics", out: c15Outcome{kind: "ok"}, auth: "bad"})
	// the profiles signal on every transport/encoding, with an error outcome and with zero samples
	for _, te := range [][2]string{{"grpc", "-"}, {"http", "pb"}, {"http", "json"}} {
		corpus = append(corpus,
			c15Case{tr: te[0], enc: te[1], comp: "gzip", sig: "profiles", items: 3, out: c15Outcome{kind: "ok"}, auth: "off"},
			c15Case{tr: te[0], enc: te[1], comp: "none", sig: "profiles", items: 2, out: c15Outcome{kind: "st", code: 14, hasRI: true, ri: 1500 * time.Millisecond}, auth: "off"},
			c15Case{tr: te[0], enc: te[1], comp: "zstd", sig: "profiles", items: 0, shell: true, out: c15Outcome{kind: "perm"}, auth: "off"})
	}
	// RetryInfo present with its retry_delay field UNSET (RetryInfo{}) and with an explicit 0, on every retryable code and two others, both transports
	for _, code := range []uint32{8, 14, 1, 4, 10, 11, 15, 3, 13} {
		for _, te := range [][2]string{{"grpc", "-"}, {"http", "pb"}} {
			corpus = append(corpus,
				c15Case{tr: te[0], enc: te[1], comp: "none", sig: c15Sigs[int(code)%3], items: 2, out: c15Outcome{kind: "st", code: code, hasRI: true, riUnset: true}, auth: "off"},
				c15Case{tr: te[0], enc: te[1], comp: "none", sig: c15Sigs[int(code)%3], items: 2, out: c15Outcome{kind: "st", code: code, hasRI: true, ri: 0, wrapped: code%2 == 0}, auth: "off"})
		}
	}
	// sender side against the fake servers: the Retry-After forms, signed/huge delays, partial success, odd bodies
	now := time.Now()
	for _, fk := range []c15Fake{
		{tr: "http", enc: "pb", status: 503, raKind: "d", raSec: 120, raVals: []string{now.Add(120 * time.Second).UTC().Format(time.RFC1123)}, body: "status"},
		{tr: "http", enc: "json", status: 429, raKind: "d", raSec: -3600, raVals: []string{now.Add(-3600 * time.Second).UTC().Format(time.RFC1123)}, body: "garbage"},
		{tr: "http", enc: "pb", status: 503, raKind: "s", raSec: -30, raVals: []string{"-30"}, body: "empty"},
		{tr: "http", enc: "pb", status: 429, raKind: "s", raSec: 0, raVals: []string{"0"}, body: "status"},
		{tr: "http", enc: "pb", status: 503, raKind: "s", raSec: 9223372036, raVals: []string{"9223372036"}, body: "status"},
		{tr: "http", enc: "pb", status: 503, raKind: "s", raSec: 9223372037, raVals: []string{"9223372037"}, body: "status"},
		{tr: "http", enc: "pb", status: 503, raKind: "bad", raVals: []string{""}, body: "status"},
		{tr: "http", enc: "pb", status: 502, raKind: "s", raSec: 5, raVals: []string{"5"}, body: "huge"},
		{tr: "http", enc: "pb", status: 400, raKind: "s", raSec: 5, raVals: []string{"5"}, body: "garbage"},
		{tr: "http", enc: "pb", status: 200, raKind: "absent", body: "partial"},
		{tr: "http", enc: "json", status: 200, raKind: "absent", body: "partial"},
		{tr: "http", enc: "pb", status: 200, raKind: "absent", body: "undecodable"},
		{tr: "http", enc: "json", status: 202, raKind: "absent", body: "huge"},
		{tr: "http", enc: "pb", status: 200, raKind: "absent", body: "other"},
		{tr: "http", enc: "pb", status: 304, raKind: "absent", body: "empty"},
		{tr: "http", enc: "pb", status: 999, raKind: "s", raSec: 1, raVals: []string{"1"}, body: "status"},
		{tr: "grpc", enc: "-", code: 0, partial: true},
		{tr: "grpc", enc: "-", code: 14, hasRI: true, ri: -500 * time.Millisecond, partial: true},
		{tr: "grpc", enc: "-", code: 8, hasRI: true, ri: 0},
		{tr: "grpc", enc: "-", code: 8, hasRI: true, riUnset: true},
		{tr: "grpc", enc: "-", code: 14, hasRI: true, riUnset: true},
		{tr: "grpc", enc: "-", code: 3, hasRI: true, riUnset: true},
		{tr: "grpc", enc: "-", code: 8},
		{tr: "grpc", enc: "-", code: 99, hasRI: true, ri: time.Second},
	} {
		fk := fk
		corpus = append(corpus, c15Case{fk: &fk, auth: "off"})
	}
	// unauthenticated requests with every shape of authenticator error, both transports (send through the real exporter + raw)
	for i, sh := range []string{"plain", "st:16", "st:7", "st:14", "st:4", "st:8", "st:13", "st:99", "stri:14", "stri:8", "wrap:14", "wrap:4", "perm:14", "gs:0", "gs:14", "gs:4", "gs:7"} {
		for _, tr := range []string{"grpc", "http"} {
			enc := "pb"
			if tr == "grpc" {
				enc = "-"
			}
			corpus = append(corpus, c15Case{tr: tr, enc: enc, comp: "none", sig: c15Sigs[i%3], items: 2, out: c15Outcome{kind: "ok"}, auth: "bad", ae: sh})
		}
		corpus = append(corpus, c15Case{raw: true, tr: "grpc", kind: "fine", sig: c15Sigs[i%3], out: c15Outcome{kind: "ok"}, auth: "bad", ae: sh})
	}
	// overlap corpus: after a warm-up export, 2-4 real exporters whose body reads overlap for certain (proxy barrier), every compression
	for i, comp := range append(append([]string{}, c15HTTPComps...), "mixed", "gzip") {
		corpus = append(corpus, c15Case{ovl: comp, conc: 2 + i%3, auth: "off"})
	}
	// concurrency corpus: overlapping senders inside one receiver
	for _, k := range []int{4, 6, 5} {
		corpus = append(corpus, c15Case{conc: k, auth: "off"})
	}
	n := vN(600)
	for _, ci := range vCases(n) {
		rnd := vRand(ci)
		var c c15Case
		// addressing cases: their corpus sits right after the main corpus; 1 random case in 25
		if ci >= len(corpus) && (ci < len(corpus)+len(routeCorpus) || rnd.IntN(25) == 0) {
			var rc c15RouteCase
			if ci < len(corpus)+len(routeCorpus) {
				rc = routeCorpus[ci-len(corpus)]
			} else {
				rc = c15GenRoute(rnd)
			}
			out.Linef("case %d", ci)
			c15RunRoute(t, out, open, custom, rc, ci)
			out.Linef("nt")
			out.Linef("end")
			out.Flush()
			continue
		}
		if ci < len(corpus) {
			c = corpus[ci]
		} else if rnd.IntN(5) == 0 {
			fk := c15GenFake(rnd)
			c = c15Case{fk: &fk, auth: "off"}
		} else if rnd.IntN(120) == 0 {
			c = c15Case{ovl: append([]string{"mixed", "gzip", "gzip"}, c15HTTPComps...)[rnd.IntN(3+len(c15HTTPComps))], conc: 2 + rnd.IntN(3), auth: "off"}
		} else if rnd.IntN(500) == 0 {
			c = c15Case{conc: 4 + rnd.IntN(4), auth: "off"}
		} else {
			c = c15Gen(rnd)
		}
		out.Linef("case %d", ci)
		r := open
		if c.auth != "off" {
			r = authd
		}
		if c.recv == "small" {
			r = small
		}
		good := c.auth == "good"
		ae := "-"
		if c.auth == "bad" {
			ae = c.ae
			if ae == "" {
				ae = c15AuthShapes[rnd.IntN(len(c15AuthShapes))]
			}
			c15SetAuthShape(ae)
			out.Linef("stat auth_error_shape_%s 1", strings.ReplaceAll(strings.SplitN(ae, ":", 2)[0], "-", "_"))
		}
		c.ae = ae
		if c.fk != nil {
			c15RunFake(t, out, fakes, *c.fk, ci, rnd)
			out.Linef("nt")
			out.Linef("end")
			out.Flush()
			continue
		}
		if c.ovl != "" {
			c15Overlap(t, out, open, px, ci, c.conc, c.ovl, rnd)
			out.Linef("nt")
			out.Linef("end")
			out.Flush()
			continue
		}
		if c.conc > 0 {
			c15Conc(t, out, open, exps, ci, c.conc, rnd)
			out.Linef("nt")
			out.Linef("end")
			out.Flush()
			continue
		}
		r.sink.set(c.out.err())
		if c.raw {
			c15Raw(out, r, c, good, rnd)
			out.Linef("nt")
			out.Linef("end")
			out.Flush()
			continue
		}
		p := c15MakePayload(c.sig, c.items, c.shell, fmt.Sprintf("case-%d", ci))
		if ci >= len(corpus) && c.items > 0 && rnd.IntN(2) == 0 {
			// type-directed payload over the whole public pdata API instead of the fixed internal/testdata shape
			richStats := map[string]int{}
			p = c15MakeRich(c.sig, rnd, fmt.Sprintf("case-%d", ci), richStats)
			c.items = p.items
			out.Linef("stat rich_payload_%s 1", c.sig)
			out.Linef("stat rich_accessors_called %d", len(richStats))
			out.Linef("stat rich_payload_bytes %d", len(p.want))
		}
		rs := "-"
		if c.out.kind == "st" && c.out.hasRI {
			rs = "set"
			if c.out.riUnset {
				rs = "unset"
			}
		}
		out.Linef("op send tr=%s enc=%s comp=%s sig=%s items=%d out=%s auth=%s ae=%s rs=%s", c.tr, c.enc, c.comp, c.sig, c.items, c.out.token(), c.auth, c.ae, rs)
		out.Linef("stat retryinfo_shape_%s 1", strings.ReplaceAll(rs, "-", "absent"))
		// 1. what is on the wire (plain client, no compression)
		before, _ := r.sink.snapshot()
		if c.tr == "grpc" {
			code, ri := c15ProbeGrpc(r, c.sig, p.pb, good)
			after, _ := r.sink.snapshot()
			out.Linef("obs wire code=%d http=0 retry=%s calls=%d", code, ri, after-before)
		} else {
			body, ctype := p.pb, "application/x-protobuf"
			if c.enc == "json" {
				body, ctype = p.js, "application/json"
			}
			st, ra, bc := c15ProbeHTTP(r, http.MethodPost, c15Paths[c.sig], ctype, "", body, good)
			after, _ := r.sink.snapshot()
			out.Linef("obs wire code=%d http=%d retry=%s calls=%d", bc, st, ra, after-before)
		}
		// 2. the real exporter
		k := c15ExpKey{tr: c.tr, enc: c.enc, comp: c.comp, auth: c.auth != "off", good: good, lvl: c.lvl}
		e, ok := exps[k]
		if !ok {
			e = c15MakeExporter(t, r, k)
			exps[k] = e
		}
		r.sink.set(c.out.err())
		before, _ = r.sink.snapshot()
		var err error
		ctx, cancel := context.WithTimeout(context.Background(), c15Patience)
		switch c.sig {
		case "logs":
			err = e.logs.ConsumeLogs(ctx, p.logs)
		case "traces":
			err = e.traces.ConsumeTraces(ctx, p.tr)
		case "profiles":
			err = e.prof.ConsumeProfiles(ctx, p.pr)
		default:
			err = e.metrics.ConsumeMetrics(ctx, p.m)
		}
		cancel()
		after, last := r.sink.snapshot()
		verdict := c15Verdict(err)
		// ecode: the gRPC code carried by the error the exporter RETURNS (what an upstream receiver would relay)
		ecode := uint32(0)
		if err != nil {
			ecode = uint32(status.Convert(err).Code())
		}
		out.Linef("obs verdict %s calls=%d ecode=%d", verdict, after-before, ecode)
		eq := 1
		if after-before > 0 && !bytes.Equal(last, p.want) {
			eq = 0
			out.Linef("viol sig=C15/%s/payload-differs sig=%s comp=%s enc=%s sent=%d got=%d", c.tr, c.sig, c.comp, c.enc, len(p.want), len(last))
		}
		out.Linef("obs sink eq=%d", eq)
		if c.out.kind != "ok" || (c.comp != "none" && c.items > 0) {
			out.Linef("nt")
		}
		out.Linef("stat tr_%s 1", c.tr)
		out.Linef("stat comp_%s 1", c.comp)
		out.Linef("stat out_%s 1", c.out.kind)
		out.Linef("stat verdict_%s 1", strings.SplitN(verdict, ":", 2)[0])
		if c.items == 0 {
			out.Linef("stat zero_items 1")
		}
		if c.out.kind == "st" {
			out.Linef("stat code_%d 1", c.out.code)
		}
		out.Linef("end")
		out.Flush()
	}
}

// c15MultiResource: a valid export request of the signal with THREE resource entries, each carrying records
func c15MultiResource(sig string) (pb, js []byte) {
	p := c15MakePayload(sig, 3, false, "raw-multi")
	switch sig {
	case "logs":
		p.logs.ResourceLogs().At(0).CopyTo(p.logs.ResourceLogs().AppendEmpty())
		p.logs.ResourceLogs().At(0).CopyTo(p.logs.ResourceLogs().AppendEmpty())
		rq := plogotlp.NewExportRequestFromLogs(p.logs)
		pb, _ = rq.MarshalProto()
		js, _ = rq.MarshalJSON()
	case "traces":
		p.tr.ResourceSpans().At(0).CopyTo(p.tr.ResourceSpans().AppendEmpty())
		p.tr.ResourceSpans().At(0).CopyTo(p.tr.ResourceSpans().AppendEmpty())
		rq := ptraceotlp.NewExportRequestFromTraces(p.tr)
		pb, _ = rq.MarshalProto()
		js, _ = rq.MarshalJSON()
	case "profiles":
		p.pr.ResourceProfiles().At(0).CopyTo(p.pr.ResourceProfiles().AppendEmpty())
		p.pr.ResourceProfiles().At(0).CopyTo(p.pr.ResourceProfiles().AppendEmpty())
		rq := pprofileotlp.NewExportRequestFromProfiles(p.pr)
		pb, _ = rq.MarshalProto()
		js, _ = rq.MarshalJSON()
	default:
		p.m.ResourceMetrics().At(0).CopyTo(p.m.ResourceMetrics().AppendEmpty())
		p.m.ResourceMetrics().At(0).CopyTo(p.m.ResourceMetrics().AppendEmpty())
		rq := pmetricotlp.NewExportRequestFromMetrics(p.m)
		pb, _ = rq.MarshalProto()
		js, _ = rq.MarshalJSON()
	}
	return pb, js
}

// c15BadBody: an undecodable body — garbage from the first byte, or a VALID multi-resource request damaged only at its tail
// (truncated / trailing junk): the decoder has then already decoded complete resources when it fails, and none of them may
// reach the consumer
func c15BadBody(sig string, json bool, rnd interface{ IntN(int) int }) ([]byte, string) {
	pb, js := c15MultiResource(sig)
	if json {
		switch rnd.IntN(5) {
		case 0:
			return []byte(`{"resourceLogs": 5`), "garbage"
		case 1:
			return []byte(`not json`), "garbage"
		case 2:
			return []byte(`{"resourceLogs":"x","resourceSpans":"x","resourceMetrics":"x","resourceProfiles":"x"}`), "garbage"
		case 3:
			return js[:len(js)-2-rnd.IntN(4)], "tail-truncated"
		}
		return append(append([]byte{}, js[:len(js)-1]...), []byte(`,"x":`)...), "tail-junk"
	}
	switch rnd.IntN(5) {
	case 0:
		return []byte{0x0a, 0xff}, "garbage"
	case 1:
		return []byte{0xff, 0xff, 0xff, 0xff}, "garbage"
	case 2:
		return []byte{0x0a, 0x05, 0x01}, "garbage"
	case 3:
		return pb[:len(pb)-1-rnd.IntN(3)], "tail-truncated"
	}
	return append(append([]byte{}, pb...), 0x0a, 0xff), "tail-junk"
}

// c15ModelKind: the stage vocabulary of the model (`Drivers/C15.lean`) for a harness kind
func c15ModelKind(kind string) (string, bool) {
	var ks []string
	bad := false
	for _, k := range strings.Split(kind, "+") {
		switch {
		case strings.HasPrefix(k, "comp:"), k == "fine":
			// a valid Content-Encoding is not a fault
		case k == "json":
			ks = append(ks, "json")
		case k == "truncated", k == "oversize", k == "bomb":
			ks = append(ks, "unreadable")
			bad = true
		default:
			ks = append(ks, k)
			bad = true
		}
	}
	if len(ks) == 0 {
		return "fine", false
	}
	return strings.Join(ks, "+"), bad
}

func c15Raw(out *vOut, r *c15Recv, c c15Case, good bool, rnd interface{ IntN(int) int }) {
	p := c15MakePayload(c.sig, 1, false, "raw")
	mk, isBad := c15ModelKind(c.kind)
	if c.tr == "grpc" {
		mk = c.kind // the gRPC stages have their own vocabulary in the model
	}
	out.Linef("op raw tr=%s kind=%s auth=%s out=%s how=%s ae=%s", c.tr, mk, c.auth, c.out.token(), c.kind, c.ae)
	before, _ := r.sink.snapshot()
	if c.tr == "grpc" {
		body := p.pb
		method := c15Methods[c.sig]
		var opts []grpc.CallOption
		useX := false
		for _, k := range strings.Split(c.kind, "+") {
			switch k {
			case "badbody":
				var how string
				body, how = c15BadBody(c.sig, false, rnd)
				out.Linef("stat raw_badbody_%s 1", strings.ReplaceAll(how, "-", "_"))
			case "badmethod":
				method = []string{strings.TrimSuffix(method, "Export") + "Nope", "/c15.unknown.Service/Export", "/opentelemetry.proto.collector.logs.v2.LogsService/Export"}[rnd.IntN(3)]
			case "badgrpcenc":
				useX = true
			}
		}
		if strings.Contains(c.kind, "oversize") {
			// larger than max_recv_msg_size_mib (1 MiB on this receiver)
			if strings.Contains(c.kind, "badbody") {
				body = bytes.Repeat([]byte{0xff}, 1<<20+4096)
			} else {
				big := plog.NewLogs()
				big.ResourceLogs().AppendEmpty().ScopeLogs().AppendEmpty().LogRecords().AppendEmpty().Body().SetStr(strings.Repeat("x", 1<<20+4096))
				body, _ = plogotlp.NewExportRequestFromLogs(big).MarshalProto()
				method = c15Methods["logs"]
			}
		}
		ctx, cancel := context.WithTimeout(context.Background(), c15Patience)
		if good {
			ctx = metadata.AppendToOutgoingContext(ctx, "authorization", "c15-secret")
		}
		rr := r
		if useX {
			rr = &c15Recv{grpcAddr: r.grpcAddr, conn: c15XConn(r)}
		}
		code, _ := c15ProbeGrpcAt(ctx, rr, method, body, opts...)
		cancel()
		after, _ := r.sink.snapshot()
		out.Linef("obs raw code=%d calls=%d", code, after-before)
		if after-before > 0 && c.kind != "fine" {
			out.Linef("viol sig=C15/grpc/malformed-request-reached-consumer kind=%s", c.kind)
		}
		out.Linef("stat raw_grpc_%s 1", c.kind)
		return
	}
	method, path, ctype, cenc, body := http.MethodPost, c15Paths[c.sig], "application/x-protobuf", "", p.pb
	isJSON := strings.Contains(c.kind, "json")
	if strings.Contains(c.kind, "oversize") {
		p = c15MakePayload(c.sig, 60, false, "raw-oversize") // > 4096 bytes in either encoding
		body = p.pb
	}
	if strings.Contains(c.kind, "bomb") {
		p = c15MakePayload(c.sig, 600, false, "raw-bomb") // compresses below 4096, expands far beyond
		body = p.pb
	}
	if isJSON {
		ctype, body = "application/json", p.js
	}
	comp := ""
	for _, k := range strings.Split(c.kind, "+") {
		switch {
		case strings.HasPrefix(k, "comp:"):
			comp = strings.TrimPrefix(k, "comp:")
		}
		switch k {
		case "method":
			method = []string{http.MethodGet, http.MethodPut, http.MethodPatch, http.MethodDelete, http.MethodHead}[rnd.IntN(4)]
		case "ctype":
			ctype = []string{"text/plain", "", "application/xml", "application/protobuf", ";;garbage", "application/json+x"}[rnd.IntN(6)]
		case "badbody":
			var how string
			body, how = c15BadBody(c.sig, false, rnd)
			out.Linef("stat raw_badbody_%s 1", strings.ReplaceAll(how, "-", "_"))
		case "badbodyjson":
			ctype = "application/json"
			var how string
			body, how = c15BadBody(c.sig, true, rnd)
			out.Linef("stat raw_badbody_%s 1", strings.ReplaceAll(how, "-", "_"))
		case "badpath":
			path = []string{"/v1/unknown", "/", "/v1/logs/extra", "/v2/traces"}[rnd.IntN(4)]
		case "badenc":
			if rnd.IntN(2) == 0 {
				cenc = "br"
			} else {
				cenc, body = "gzip", []byte("this is not gzip")
			}
		}
	}
	if comp != "" && cenc == "" {
		body = c15Compress(comp, body)
		cenc = comp
		if strings.Contains(c.kind, "truncated") {
			body = body[:len(body)/2]
		}
		if strings.Contains(c.kind, "bomb") && len(body) >= 4096 {
			out.Linef("stat raw_bomb_not_small_enough 1")
		}
	}
	// media-type PARAMETERS and case are irrelevant (RFC 9110; the receiver uses mime.ParseMediaType): a valid type is sent decorated in 1 of 3 requests
	if (ctype == "application/x-protobuf" || ctype == "application/json") && rnd.IntN(3) == 0 {
		v := rnd.IntN(5)
		ctype = []string{ctype + "; charset=utf-8", strings.ToUpper(ctype), ctype + " ; q=1", ctype + ";boundary=\"x;y\"", strings.Replace(ctype, "application", "Application", 1) + "; a=b; c=d"}[v]
		out.Linef("stat raw_ctype_variant_%d 1", v)
		if !isBad && c.auth != "bad" && c.out.kind == "ok" {
			defer func(before int) {
				if after, _ := r.sink.snapshot(); after-before != 1 {
					out.Linef("viol sig=C15/http/well-formed-request-with-media-type-parameters-not-delivered ctype=%s", vHex(ctype))
				}
			}(before)
		}
	}
	st, _, _ := c15ProbeHTTP(r, method, path, ctype, cenc, body, good)
	after, _ := r.sink.snapshot()
	out.Linef("obs raw status=%d calls=%d", st, after-before)
	// direct oracle: a rejected request is a 4xx and never reaches the consumer
	if isBad || c.auth == "bad" {
		if after-before > 0 {
			out.Linef("viol sig=C15/http/malformed-request-reached-consumer kind=%s auth=%s", c.kind, c.auth)
		}
		if st < 400 || st > 499 {
			stage := c.kind
			if c.auth == "bad" {
				stage = "noauth+" + stage
			}
			out.Linef("viol sig=C15/http/reject-not-4xx/%s status=%d", stage, st)
		}
	}
	out.Linef("stat raw_http_%s 1", strings.ReplaceAll(c.kind, "+", "_"))
}
