//go:build verif

package e2e

// C15, overlapping exports through the REAL exporter→receiver hop: after a warm-up export, 2–4 real otlphttp exporters (fresh
// connections) send at the same time to ONE receiver through a byte-preserving TCP proxy that lets the head of every request
// through (so the receiver's handler has started and built its body reader), holds the rest until all of them have arrived, and
// then releases the bodies in small interleaved chunks — the body reads overlap for certain. Each export is judged on its own:
// its verdict must be the meaning of ITS consumer outcome (the consumer accepts everything: success) and the sink must hold
// ITS payload exactly once.

import (
	"context"
	"fmt"
	"io"
	"net"
	"sync"
	"testing"
	"time"

	"go.opentelemetry.io/collector/pdata/plog"
	"go.opentelemetry.io/collector/pdata/pmetric"
	"go.opentelemetry.io/collector/pdata/pprofile"
	"go.opentelemetry.io/collector/pdata/ptrace"
)

type c15Proxy struct {
	ln     net.Listener
	target string

	mu      sync.Mutex
	hold    bool // connections accepted now take part in the barrier
	need    int
	arrived int
	gate    chan struct{}
}

func c15StartProxy(t *testing.T, target string) *c15Proxy {
	ln, err := net.Listen("tcp", "127.0.0.1:0")
	if err != nil {
		t.Fatal(err)
	}
	p := &c15Proxy{ln: ln, target: target}
	go func() {
		for {
			c, err := ln.Accept()
			if err != nil {
				return
			}
			go p.handle(c)
		}
	}()
	t.Cleanup(func() { _ = ln.Close() })
	return p
}

func (p *c15Proxy) arm(k int) {
	p.mu.Lock()
	p.hold, p.need, p.arrived, p.gate = true, k, 0, make(chan struct{})
	p.mu.Unlock()
}

func (p *c15Proxy) disarm() {
	p.mu.Lock()
	p.hold = false
	p.mu.Unlock()
}

func (p *c15Proxy) handle(c net.Conn) {
	defer c.Close()
	s, err := net.Dial("tcp", p.target)
	if err != nil {
		return
	}
	defer s.Close()
	p.mu.Lock()
	hold := p.hold
	p.mu.Unlock()
	go func() { // server → client, untouched
		_, _ = io.Copy(c, s)
		_ = c.Close()
	}()
	buf := make([]byte, 4096)
	if hold {
		// the head of the request: request line, headers and the first bytes of the body
		n, err := c.Read(buf[:1200])
		if n > 0 {
			if _, werr := s.Write(buf[:n]); werr != nil {
				return
			}
		}
		if err != nil {
			return
		}
		p.mu.Lock()
		p.arrived++
		if p.arrived == p.need {
			close(p.gate)
		}
		g := p.gate
		p.mu.Unlock()
		select {
		case <-g:
		case <-time.After(3 * time.Second):
		}
		// the rest in small chunks, so that the bodies of the held requests reach the receiver interleaved
		for {
			n, err := c.Read(buf[:2048])
			if n > 0 {
				if _, werr := s.Write(buf[:n]); werr != nil {
					return
				}
				time.Sleep(50 * time.Microsecond)
			}
			if err != nil {
				return
			}
		}
	}
	_, _ = io.Copy(s, c)
}

// c15Pad makes the payload poorly compressible, so that its body is much longer than the head the proxy lets through
func c15Pad(rnd c15Rnd, n int) string {
	const hexd = "0123456789abcdef"
	b := make([]byte, n)
	for i := range b {
		b[i] = hexd[rnd.IntN(16)]
	}
	return string(b)
}

func c15OverlapPayload(sig string, rnd c15Rnd, tag string) c15Payload {
	p := c15MakePayload(sig, 20+rnd.IntN(200), false, tag)
	pad := c15Pad(rnd, 20000+rnd.IntN(40000))
	switch sig {
	case "logs":
		p.logs.ResourceLogs().At(0).Resource().Attributes().PutStr("c15.pad", pad)
		p.want, _ = (&plog.ProtoMarshaler{}).MarshalLogs(p.logs)
	case "traces":
		p.tr.ResourceSpans().At(0).Resource().Attributes().PutStr("c15.pad", pad)
		p.want, _ = (&ptrace.ProtoMarshaler{}).MarshalTraces(p.tr)
	case "profiles":
		p.pr.ResourceProfiles().At(0).Resource().Attributes().PutStr("c15.pad", pad)
		p.want, _ = (&pprofile.ProtoMarshaler{}).MarshalProfiles(p.pr)
	default:
		p.m.ResourceMetrics().At(0).Resource().Attributes().PutStr("c15.pad", pad)
		p.want, _ = (&pmetric.ProtoMarshaler{}).MarshalMetrics(p.m)
	}
	return p
}

func c15Send(e *c15Exp, p c15Payload) error {
	ctx, cancel := context.WithTimeout(context.Background(), c15Patience)
	defer cancel()
	switch p.sig {
	case "logs":
		return e.logs.ConsumeLogs(ctx, p.logs)
	case "traces":
		return e.traces.ConsumeTraces(ctx, p.tr)
	case "profiles":
		return e.prof.ConsumeProfiles(ctx, p.pr)
	}
	return e.metrics.ConsumeMetrics(ctx, p.m)
}

// c15SendPatient: c15Send; a failure of the client's transport of a request the server side has no record of (loaded machine) is
// sent again, up to 3 times. Returns the last error and the number of attempts.
func c15SendPatient(r *c15Recv, e *c15Exp, p c15Payload) (error, int) {
	for tries := 1; ; tries++ {
		err := c15Send(e, p)
		if err == nil || tries > 3 || !c15TransportFailure("http", err) || r.sink.has(p.want) {
			return err, tries
		}
	}
}

// c15Overlap runs one overlap case: comp = the compression of every sender ("mixed" = each its own)
func c15Overlap(t *testing.T, out *vOut, r *c15Recv, px *c15Proxy, ci, k int, comp string, rnd c15Rnd) {
	via := &c15Recv{grpcAddr: r.grpcAddr, httpAddr: px.ln.Addr().String()}
	type job struct {
		e     *c15Exp
		p     c15Payload
		comp  string
		enc   string
		err   error
		tries int
	}
	pick := func() (string, string) {
		c := comp
		if c == "mixed" {
			c = c15HTTPComps[rnd.IntN(len(c15HTTPComps))]
		}
		return c, []string{"pb", "json"}[rnd.IntN(2)]
	}
	// every sender is a fresh exporter: a fresh connection, so that the proxy sees the head of exactly one request per connection
	mk := func(i int) *job {
		c, enc := pick()
		e := c15MakeExporter(t, via, c15ExpKey{tr: "http", enc: enc, comp: c})
		return &job{e: e, comp: c, enc: enc, p: c15OverlapPayload(c15AllSigs[rnd.IntN(4)], rnd, fmt.Sprintf("overlap-%d-%d", ci, i))}
	}
	r.sink.set(nil)
	r.sink.mu.Lock()
	r.sink.keep, r.sink.all = true, nil
	r.sink.mu.Unlock()
	// warm-up: one or two complete exports with the same compression(s) before anything overlaps
	px.disarm()
	var jobs []*job
	for i := 0; i < 1+rnd.IntN(2); i++ {
		j := mk(100 + i)
		j.err, j.tries = c15SendPatient(r, j.e, j.p)
		jobs = append(jobs, j)
	}
	// the overlapping exports
	px.arm(k)
	var wg sync.WaitGroup
	start := make(chan struct{})
	for i := 0; i < k; i++ {
		j := mk(i)
		jobs = append(jobs, j)
		wg.Add(1)
		go func() {
			defer wg.Done()
			<-start
			j.err, j.tries = c15SendPatient(r, j.e, j.p)
		}()
	}
	close(start)
	wg.Wait()
	px.disarm()
	r.sink.mu.Lock()
	got := r.sink.all
	r.sink.keep, r.sink.all = false, nil
	r.sink.mu.Unlock()

	total := len(jobs)
	out.Linef("op conc k=%d", total)
	acked, retries := 0, 0
	want, logical := map[string]int{}, map[string]int{}
	for i, j := range jobs {
		if j.err == nil {
			acked++
		} else {
			out.Linef("viol sig=C15/overlap/well-formed-export-not-acknowledged/%s export=%d of=%d enc=%s signal=%s verdict=%s err=%q", j.comp, i, total, j.enc, j.p.sig, c15Verdict(j.err), fmt.Sprint(j.err))
		}
		want[string(j.p.want)] += j.tries
		logical[string(j.p.want)]++
		retries += j.tries - 1
	}
	matched, seenCnt := 0, map[string]int{}
	for _, g := range got {
		if want[string(g)] > 0 {
			want[string(g)]--
			matched++
			seenCnt[string(g)]++
		} else {
			out.Linef("viol sig=C15/overlap/payload-at-consumer-is-not-one-that-was-sent/%s got=%d bytes", comp, len(g))
		}
	}
	dup := 0 // deliveries of re-sent exports beyond the one the model counts
	for k, c := range seenCnt {
		if c > logical[k] {
			dup += c - logical[k]
		}
	}
	out.Linef("stat conc_transport_retry %d", retries)
	out.Linef("obs conc sent=%d acked=%d delivered=%d matched=%d", total, acked, len(got)-dup, matched-dup)
	out.Linef("stat overlap_cases 1")
	out.Linef("stat overlap_exports %d", total)
	out.Linef("stat overlap_comp_%s 1", comp)
}
