//go:build verif

package e2e

// ADDRESSING cases (`op route`): the URL glue of the OTLP/HTTP exporter (composeSignalURL: endpoint with / without a trailing
// slash, endpoint with a path prefix, per-signal override, no endpoint at all) against the receiver's path → handler → consumer
// registration (default paths; a receiver with custom traces/metrics/logs paths, one of them sitting on ANOTHER signal's default
// path). Observed: was the exporter created, did the export reach a consumer, WHICH Consume method got it, byte equality.
// The model (Model/C15Route.lean, regenerated tables) must predict the same; the driver's oracle compares with the hand spec.

import (
	"bytes"
	"context"
	"fmt"
	"strings"
	"testing"

	"go.opentelemetry.io/collector/component"
	"go.opentelemetry.io/collector/config/configcompression"
	"go.opentelemetry.io/collector/config/configtls"
	"go.opentelemetry.io/collector/confmap"
	"go.opentelemetry.io/collector/exporter/exportertest"
	"go.opentelemetry.io/collector/exporter/otlpexporter"
	"go.opentelemetry.io/collector/exporter/otlphttpexporter"
	"go.opentelemetry.io/collector/exporter/xexporter"
	"go.opentelemetry.io/collector/receiver/otlpreceiver"
)

type c15RouteCase struct {
	sig   string
	style string // base slash prefix override noendpoint noendpoint-other
	recv  string // default custom
	comp  string
	enc   string
}

var c15CustomPaths = map[string]string{"traces": "/c15x/v1/traces", "metrics": "/in/m", "logs": "/v1/traces"}

func c15RouteCorpus() []c15RouteCase {
	var cs []c15RouteCase
	for _, sg := range c15AllSigs {
		cs = append(cs, c15RouteCase{sig: sg, style: "slash", recv: "default", comp: "gzip", enc: "pb"})
	}
	for _, sg := range c15AllSigs {
		cs = append(cs, c15RouteCase{sig: sg, style: "prefix", recv: "custom", comp: "none", enc: "pb"})
	}
	cs = append(cs,
		c15RouteCase{sig: "metrics", style: "override", recv: "custom", comp: "zstd", enc: "json"},
		c15RouteCase{sig: "logs", style: "override", recv: "custom", comp: "none", enc: "pb"},
		c15RouteCase{sig: "profiles", style: "override", recv: "custom", comp: "gzip", enc: "pb"},
		c15RouteCase{sig: "logs", style: "noendpoint", recv: "custom", comp: "none", enc: "pb"},
		c15RouteCase{sig: "traces", style: "noendpoint-other", recv: "default", comp: "none", enc: "pb"},
		c15RouteCase{sig: "profiles", style: "noendpoint-other", recv: "default", comp: "none", enc: "pb"},
		c15RouteCase{sig: "metrics", style: "base", recv: "custom", comp: "none", enc: "pb"},
	)
	for i, sg := range c15AllSigs {
		cs = append(cs, c15RouteCase{sig: sg, style: "grpc-http", recv: "default", comp: c15GrpcComps[i%len(c15GrpcComps)]},
			c15RouteCase{sig: sg, style: "grpc-bare", recv: "default", comp: "none"})
	}
	return cs
}

func c15GenRoute(rnd interface{ IntN(int) int }) c15RouteCase {
	c := c15RouteCase{sig: c15AllSigs[rnd.IntN(4)], comp: c15HTTPComps[rnd.IntN(len(c15HTTPComps))], enc: []string{"pb", "json"}[rnd.IntN(2)]}
	c.style = []string{"base", "slash", "prefix", "override", "noendpoint", "noendpoint-other", "grpc-http", "grpc-bare"}[rnd.IntN(8)]
	c.recv = []string{"default", "custom"}[rnd.IntN(2)]
	if strings.HasPrefix(c.style, "grpc") {
		c.comp = c15GrpcComps[rnd.IntN(len(c15GrpcComps))]
	}
	return c
}

// c15StartCustomReceiver: a receiver whose three configurable URL paths are c15CustomPaths (logs sits on the traces default path)
func c15RecvPaths(recv string) (tp, mp, lp string) {
	if recv == "custom" {
		return c15CustomPaths["traces"], c15CustomPaths["metrics"], c15CustomPaths["logs"]
	}
	return "/v1/traces", "/v1/metrics", "/v1/logs"
}

var c15SanitizePaths = []string{"v1/traces", "/v1/traces", "", "/", "x", "a/b/", "/a//b", "in/t", "/c15x/v1/logs", "v1development/profiles", "_", "a.b/c-d"}

// c15RunSanitize: receiver Config.Unmarshal (confmap) -> sanitizeURLPath on plain paths (no query, fragment, escapes, scheme or "//" prefix)
func c15RunSanitize(out *vOut, p string, which int) {
	key := []string{"traces_url_path", "metrics_url_path", "logs_url_path"}[which%3]
	out.Linef("op sanitize p=%s", vHex(p))
	out.Linef("stat route_sanitize 1")
	cfg := otlpreceiver.NewFactory().CreateDefaultConfig().(*otlpreceiver.Config)
	conf := confmap.NewFromStringMap(map[string]any{"protocols": map[string]any{"http": map[string]any{key: p}}})
	if err := cfg.Unmarshal(conf); err != nil || cfg.HTTP == nil {
		out.Linef("obs sanitize error")
		return
	}
	got := []string{cfg.HTTP.TracesURLPath, cfg.HTTP.MetricsURLPath, cfg.HTTP.LogsURLPath}[which%3]
	out.Linef("obs sanitize %s", vHex(got))
}

// c15RunRouteGrpc: the OTLP/gRPC exporter with the receiver's address written bare or with an http:// scheme (configgrpc sanitizedEndpoint)
func c15RunRouteGrpc(t *testing.T, out *vOut, r *c15Recv, c c15RouteCase, ci int) {
	ep := r.grpcAddr
	if c.style == "grpc-http" {
		ep = "http://" + r.grpcAddr
	}
	out.Linef("op groute sig=%s ep=%s addr=%s comp=%s", c.sig, vHex(ep), vHex(r.grpcAddr), c.comp)
	out.Linef("stat route_style_%s 1", strings.ReplaceAll(c.style, "-", "_"))
	ctx := context.Background()
	f := otlpexporter.NewFactory()
	cfg := f.CreateDefaultConfig().(*otlpexporter.Config)
	cfg.QueueConfig.Enabled = false
	cfg.RetryConfig.Enabled = false
	cfg.ClientConfig.Endpoint = ep
	cfg.TimeoutConfig.Timeout = c15Patience
	cfg.ClientConfig.TLSSetting = configtls.ClientConfig{Insecure: true}
	cfg.ClientConfig.Compression = configcompression.Type(c.comp)
	set := exportertest.NewNopSettings(f.Type())
	p := c15MakePayload(c.sig, 2, false, fmt.Sprintf("groute-%d", ci))
	var comp component.Component
	var send func(context.Context) error
	var cerr error
	switch c.sig {
	case "logs":
		e, err := f.CreateLogs(ctx, set, cfg)
		cerr = err
		if err == nil {
			comp, send = e, func(ctx context.Context) error { return e.ConsumeLogs(ctx, p.logs) }
		}
	case "traces":
		e, err := f.CreateTraces(ctx, set, cfg)
		cerr = err
		if err == nil {
			comp, send = e, func(ctx context.Context) error { return e.ConsumeTraces(ctx, p.tr) }
		}
	case "metrics":
		e, err := f.CreateMetrics(ctx, set, cfg)
		cerr = err
		if err == nil {
			comp, send = e, func(ctx context.Context) error { return e.ConsumeMetrics(ctx, p.m) }
		}
	default:
		e, err := f.(xexporter.Factory).CreateProfiles(ctx, set, cfg)
		cerr = err
		if err == nil {
			comp, send = e, func(ctx context.Context) error { return e.ConsumeProfiles(ctx, p.pr) }
		}
	}
	if cerr != nil {
		out.Linef("obs groute refused")
		return
	}
	if err := comp.Start(ctx, c15Host{}); err != nil {
		out.Linef("obs groute start-error")
		return
	}
	defer func() { _ = comp.Shutdown(ctx) }()
	r.sink.set(nil)
	before, _ := r.sink.snapshot()
	sctx, cancel := context.WithTimeout(ctx, c15Patience)
	err := send(sctx)
	cancel()
	for try := 1; try <= 3 && c15TransportFailure("grpc", err) && func() bool { n, _ := r.sink.snapshot(); return n == before }(); try++ {
		// client transport failure with no server-side record (loaded machine): sent again
		out.Linef("stat conc_transport_retry 1")
		sctx, cancel = context.WithTimeout(ctx, c15Patience)
		err = send(sctx)
		cancel()
	}
	after, lastB := r.sink.snapshot()
	got := r.sink.lastSignal()
	verdict := c15Verdict(err)
	if after-before == 1 && verdict == "success" {
		out.Linef("obs groute delivered:%s:%s", got, got)
		if got == c.sig && !bytes.Equal(lastB, p.want) {
			out.Linef("viol sig=C15/route/payload-differs sig=%s sent=%d got=%d", c.sig, len(p.want), len(lastB))
		}
	} else {
		out.Linef("obs groute odd:calls=%d:%s", after-before, verdict)
	}
}

func c15RunRoute(t *testing.T, out *vOut, dflt, custom *c15Recv, c c15RouteCase, ci int) {
	// every addressing case also runs one sanitizeURLPath probe (cheap, no server)
	c15RunSanitize(out, c15SanitizePaths[ci%len(c15SanitizePaths)], ci/len(c15SanitizePaths))
	if strings.HasPrefix(c.style, "grpc") {
		c15RunRouteGrpc(t, out, dflt, c, ci)
		return
	}
	if c.recv == "custom" && c.sig == "traces" && (c.style == "base" || c.style == "slash") {
		// would put a traces request on the path this receiver serves LOGS on: a misconfiguration, not generated
		c.style = "override"
	}
	r := dflt
	if c.recv == "custom" {
		r = custom
	}
	base := "http://" + r.httpAddr
	tp, mp, lp := c15RecvPaths(c.recv)
	served := map[string]string{"traces": tp, "metrics": mp, "logs": lp, "profiles": "/v1development/profiles"}
	f := otlphttpexporter.NewFactory()
	cfg := f.CreateDefaultConfig().(*otlphttpexporter.Config)
	cfg.QueueConfig.Enabled = false
	cfg.RetryConfig.Enabled = false
	cfg.ClientConfig.Compression = configcompression.Type(c.comp)
	cfg.ClientConfig.Timeout = c15Patience
	if c.enc == "json" {
		cfg.Encoding = otlphttpexporter.EncodingJSON
	}
	ovT, ovM, ovL := "", "", ""
	switch c.style {
	case "base":
		cfg.ClientConfig.Endpoint = base
	case "slash":
		cfg.ClientConfig.Endpoint = base + "/"
	case "prefix":
		cfg.ClientConfig.Endpoint = base + "/c15x"
	case "override":
		// the endpoint alone would lead every signal to the DEFAULT path; the overrides name the paths this receiver serves
		cfg.ClientConfig.Endpoint = base
		ovT, ovM, ovL = base+served["traces"], base+served["metrics"], base+served["logs"]
	case "noendpoint":
		// only the signal under test has an address
		switch c.sig {
		case "traces":
			ovT = base + served["traces"]
		case "metrics":
			ovM = base + served["metrics"]
		case "logs":
			ovL = base + served["logs"]
		}
	case "noendpoint-other":
		// some OTHER signal has an address, the one under test has none
		if c.sig == "logs" {
			ovT = base + served["traces"]
		} else {
			ovL = base + served["logs"]
		}
	}
	cfg.TracesEndpoint, cfg.MetricsEndpoint, cfg.LogsEndpoint = ovT, ovM, ovL
	out.Linef("op route sig=%s ep=%s base=%s ovt=%s ovm=%s ovl=%s tp=%s mp=%s lp=%s comp=%s enc=%s", c.sig, vHex(cfg.ClientConfig.Endpoint), vHex(base),
		vHex(ovT), vHex(ovM), vHex(ovL), vHex(tp), vHex(mp), vHex(lp), c.comp, c.enc)
	out.Linef("stat route_style_%s 1", c.style)
	out.Linef("stat route_recv_%s 1", c.recv)
	ctx := context.Background()
	set := exportertest.NewNopSettings(f.Type())
	p := c15MakePayload(c.sig, 2, false, fmt.Sprintf("route-%d", ci))
	var comp component.Component
	var send func(context.Context) error
	var cerr error
	switch c.sig {
	case "logs":
		e, err := f.CreateLogs(ctx, set, cfg)
		cerr = err
		if err == nil {
			comp, send = e, func(ctx context.Context) error { return e.ConsumeLogs(ctx, p.logs) }
		}
	case "traces":
		e, err := f.CreateTraces(ctx, set, cfg)
		cerr = err
		if err == nil {
			comp, send = e, func(ctx context.Context) error { return e.ConsumeTraces(ctx, p.tr) }
		}
	case "metrics":
		e, err := f.CreateMetrics(ctx, set, cfg)
		cerr = err
		if err == nil {
			comp, send = e, func(ctx context.Context) error { return e.ConsumeMetrics(ctx, p.m) }
		}
	default:
		e, err := f.(xexporter.Factory).CreateProfiles(ctx, set, cfg)
		cerr = err
		if err == nil {
			comp, send = e, func(ctx context.Context) error { return e.ConsumeProfiles(ctx, p.pr) }
		}
	}
	if cerr != nil {
		out.Linef("obs route refused")
		return
	}
	if err := comp.Start(ctx, c15Host{}); err != nil {
		out.Linef("obs route start-error")
		return
	}
	defer func() { _ = comp.Shutdown(ctx) }()
	r.sink.set(nil)
	before, _ := r.sink.snapshot()
	sctx, cancel := context.WithTimeout(ctx, c15Patience)
	err := send(sctx)
	cancel()
	for try := 1; try <= 3 && c15TransportFailure("http", err) && func() bool { n, _ := r.sink.snapshot(); return n == before }(); try++ {
		// client transport failure with no server-side record (loaded machine): sent again
		out.Linef("stat conc_transport_retry 1")
		sctx, cancel = context.WithTimeout(ctx, c15Patience)
		err = send(sctx)
		cancel()
	}
	after, lastB := r.sink.snapshot()
	got := r.sink.lastSignal()
	verdict := c15Verdict(err)
	switch {
	case after-before == 1 && verdict == "success":
		out.Linef("obs route delivered:%s:%s", got, got)
		if got == c.sig && !bytes.Equal(lastB, p.want) {
			out.Linef("viol sig=C15/route/payload-differs sig=%s sent=%d got=%d", c.sig, len(p.want), len(lastB))
		}
	case after-before == 0 && verdict == "permanent":
		out.Linef("obs route notfound")
	default:
		out.Linef("obs route odd:calls=%d:%s", after-before, verdict)
	}
}
