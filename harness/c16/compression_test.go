//go:build verif

package confighttp

// C16 harness: the REAL client (ClientConfig.ToClient → compressRoundTripper → http.Transport) talks over
// loopback to the REAL server handler chain (ServerConfig.ToServer → maxRequestBodySizeInterceptor →
// decompressor → base handler). The base handler records everything it can read. Line protocol: DESIGN §2.9.

import (
	"bytes"
	"compress/gzip"
	"compress/zlib"
	"context"
	"fmt"
	"io"
	"net/http"
	"net/http/httptest"
	"net/http/httptrace"
	"sort"
	"strconv"
	"strings"
	"sync"
	"testing"
	"time"

	"github.com/golang/snappy"
	"github.com/klauspost/compress/zstd"
	"github.com/pierrec/lz4/v4"

	"go.opentelemetry.io/collector/component/componenttest"
	"go.opentelemetry.io/collector/config/configcompression"
)

// ---- deterministic bodies shared with the Lean driver (Drivers/C16.lean `mkBody`) ----

type c16Body struct {
	kind byte // z zeros, t text pattern, r pseudo-random (incompressible), x explicit
	n    int
	seed uint64
	raw  []byte
}

func (b c16Body) bytes() []byte {
	switch b.kind {
	case 'z':
		return make([]byte, b.n)
	case 't':
		out := make([]byte, b.n)
		for i := range out {
			out[i] = byte('a' + (i*7+i/13)%23)
		}
		return out
	case 'r':
		out := make([]byte, b.n)
		x := b.seed
		for i := range out {
			x = x*6364136223846793005 + 1442695040888963407
			out[i] = byte(x >> 56)
		}
		return out
	default:
		return b.raw
	}
}

func (b c16Body) String() string {
	switch b.kind {
	case 'z', 't':
		return fmt.Sprintf("%c:%d", b.kind, b.n)
	case 'r':
		return fmt.Sprintf("r:%d:%d", b.n, b.seed)
	default:
		return "x:" + vHexB(b.raw)
	}
}

func c16Hash(b []byte) uint64 { // FNV-1a 64
	h := uint64(14695981039346656037)
	for _, c := range b {
		h ^= uint64(c)
		h *= 1099511628211
	}
	return h
}

// ---- the case description ----

type c16Req struct {
	mode string  // client: body given to the configured client; pre: harness-compressed with lib/level, header preset; garbage: arbitrary bytes, header preset
	hdr  string  // preset Content-Encoding ("" = none)
	body c16Body // client: the plaintext; pre: the plaintext; garbage: the wire bytes
	lib  string  // pre: library used
	lvl  int     // pre: level / variant
	rd   string  // how the handler reads: "" / "all" = io.ReadAll; "chunk:<n>" = n bytes at a time to the end; "partial:<k>" = at most k bytes; "none"
	cl   int     // how often the handler calls r.Body.Close() afterwards
	rpl  string  // "" | "idem" | "xidem" | "get": a REPLAY history — the request is replayable for net/http's Transport (Idempotency-Key /
	//              X-Idempotency-Key header, or GET with a body; the body has GetBody), the server kills the first attempt on the reused
	//              keep-alive connection without answering, the Transport rewinds with GetBody and retries on a new connection
	chk bool // the request body has no known length (streaming source): sent with Transfer-Encoding: chunked, ContentLength -1,
	//              unless the configured client compresses it first (the compressed buffer has a known length)
}

// c16Unsized hides the length of a body from net/http (no Len method): the request goes out chunked
type c16Unsized struct{ r io.Reader }

func (u c16Unsized) Read(p []byte) (int, error) { return u.r.Read(p) }

type c16Case struct {
	algosNil bool
	algos    []string
	max      int64
	ct       string
	lvl      int
	reqs     []c16Req
	limitRel string    // how the limit was chosen (stat only)
	custom   []string  // header names registered with WithDecoder (the harness's xor decoder)
	passNil  []string  // header names registered with WithDecoder(name, fn) where fn returns (nil, nil): "nothing to decode"
	conc     *c16Conc  // a concurrency case instead of a request script
	eh       int       // > 0: WithErrorHandler(fn) where fn answers (status it is handed) + eh and nothing else
	then     []c16Case // further servers built AFTER this one in the same process (same case), each with its own requests
}

var c16Types = []string{"gzip", "zlib", "deflate", "snappy", "zstd", "lz4", "none", ""}
var c16Names = []string{"", "gzip", "zstd", "zlib", "snappy", "deflate", "lz4"}

func c16LibOf(name string) string {
	if name == "deflate" {
		return "zlib"
	}
	return name
}

// library-direct compression (independent of confighttp's compressor): the "other client" of mode pre
func c16Compress(lib string, lvl int, b []byte) []byte {
	var buf bytes.Buffer
	var w io.WriteCloser
	switch lib {
	case "gzip":
		w, _ = gzip.NewWriterLevel(&buf, lvl)
	case "zlib":
		w, _ = zlib.NewWriterLevel(&buf, lvl)
	case "zstd":
		w, _ = zstd.NewWriter(&buf, zstd.WithEncoderLevel(zstd.EncoderLevelFromZstd(lvl)))
	case "snappy":
		if lvl == 0 {
			w = snappy.NewBufferedWriter(&buf)
		} else {
			w = snappy.NewWriter(&buf) //nolint:staticcheck // unbuffered framing variant
		}
	case "lz4":
		lw := lz4.NewWriter(&buf)
		if lvl != 0 {
			_ = lw.Apply(lz4.BlockSizeOption(lz4.Block64Kb), lz4.ChecksumOption(lvl%2 == 0))
		}
		w = lw
	case "xor":
		// the harness's own "compression", decoded by the WithDecoder decoder c16XorDecoder
		out := make([]byte, len(b))
		for i, c := range b {
			out[i] = c ^ 0x5a
		}
		return out
	default:
		panic("c16Compress: " + lib)
	}
	_, _ = w.Write(b)
	_ = w.Close()
	return buf.Bytes()
}

type c16XorReader struct{ r io.ReadCloser }

func (x c16XorReader) Read(p []byte) (int, error) {
	n, err := x.r.Read(p)
	for i := 0; i < n; i++ {
		p[i] ^= 0x5a
	}
	return n, err
}
func (x c16XorReader) Close() error { return x.r.Close() }

// c16XorDecoder is what the harness registers with WithDecoder
func c16XorDecoder(body io.ReadCloser) (io.ReadCloser, error) { return c16XorReader{body}, nil }

func c16PreLevel(rnd interface{ IntN(int) int }, lib string) int {
	switch lib {
	case "gzip", "zlib":
		return []int{-2, -1, 0, 1, 5, 9}[rnd.IntN(6)]
	case "zstd":
		return []int{1, 3, 7, 11, 19}[rnd.IntN(5)]
	default:
		return rnd.IntN(3)
	}
}

func c16ClientLevel(rnd interface{ IntN(int) int }, ct string) int {
	// 1 case in 6 probes the boundary of what ClientConfig.Validate accepts (both sides of it); whether a level is accepted is
	// predicted by the model from the regenerated rules of ValidateParams, and every ACCEPTED level must then round-trip
	edge := rnd.IntN(6) == 0
	switch ct {
	case "gzip", "zlib", "deflate":
		if edge {
			return []int{-100, -3, -2, 9, 10, 11, 100}[rnd.IntN(7)]
		}
		// 0 means "unset" to ToClient (replaced by the default level)
		return []int{-2, -1, 0, 1, 2, 3, 4, 5, 6, 7, 8, 9}[rnd.IntN(12)]
	case "zstd":
		if edge {
			return []int{-1000, -7, 23, 100, 1 << 20}[rnd.IntN(5)]
		}
		return []int{0, 1, 3, 6, 11, 22, -5}[rnd.IntN(7)]
	case "snappy", "lz4":
		if edge {
			return []int{-2, -1, 1, 9}[rnd.IntN(4)]
		}
	}
	return 0
}

// c16LevelValid: ClientConfig.Validate on (type, level) — the real code
func c16LevelValid(ct string, lvl int) bool {
	hcs := &ClientConfig{Compression: configcompression.Type(ct), CompressionParams: newCompressionParams(configcompression.Level(lvl))}
	return hcs.Validate() == nil
}

// wire length the real compressor produces for (ct, lvl, body) — used to place limits at wire±1
func c16WireLen(ct string, lvl int, b []byte) int {
	w, _ := c16WireBytes(ct, lvl, b)
	return len(w)
}

// c16WireBytes: what the real compressor of (ct, lvl) produces for b (deterministic); ok=false if the level is not valid
// or the compressor fails/panics
func c16WireBytes(ct string, lvl int, b []byte) (w []byte, ok bool) {
	t := configcompression.Type(ct)
	if !t.IsCompressed() {
		return b, true
	}
	if !c16LevelValid(ct, lvl) {
		return b, false
	}
	defer func() {
		if p := recover(); p != nil {
			w, ok = b, false
		}
	}()
	if lvl == 0 {
		lvl = int(configcompression.DefaultCompressionLevel)
	}
	c, err := newCompressor(t, newCompressionParams(configcompression.Level(lvl)))
	if err != nil {
		return b, false
	}
	var buf bytes.Buffer
	if err := c.compress(&buf, io.NopCloser(bytes.NewReader(b))); err != nil {
		return b, false
	}
	return buf.Bytes(), true
}

// c16IndependentDecode: what the compression LIBRARY (called directly, not through confighttp) yields from the wire bytes as the
// decompressor sees them — cut by the wire-side limit if they are longer. This is the model's input `dec=` for cut and hostile
// streams, computed without looking at what the handler read.
func c16IndependentDecode(lib string, wire []byte, limit int64) string {
	var src io.Reader = bytes.NewReader(wire)
	if int64(len(wire)) > limit {
		src = io.MultiReader(bytes.NewReader(wire[:limit]), c16ErrReader{})
	}
	var rd io.Reader
	var err error
	switch lib {
	case "gzip":
		rd, err = gzip.NewReader(src)
	case "zlib":
		rd, err = zlib.NewReader(src)
	case "zstd":
		var zr *zstd.Decoder
		zr, err = zstd.NewReader(src, zstd.WithDecoderConcurrency(1))
		if err == nil {
			defer zr.Close()
			rd = zr
		}
	case "snappy":
		rd = snappy.NewReader(src)
	case "lz4":
		rd = lz4.NewReader(src)
	case "xor":
		rd = c16XorReader{io.NopCloser(src)}
	default:
		return "fail"
	}
	if err != nil {
		return "fail"
	}
	data, rerr := io.ReadAll(rd)
	return fmt.Sprintf("%d:%d", len(data), vB(rerr == nil))
}

type c16ErrReader struct{}

func (c16ErrReader) Read([]byte) (int, error) { return 0, fmt.Errorf("http: request body too large") }

func c16Corpus() []c16Case {
	x := func(s string) c16Body { return c16Body{kind: 'x', raw: []byte(s)} }
	var cs []c16Case
	// 0: DESIGN finding — a list without "" rejects an unencoded request
	cs = append(cs, c16Case{algos: []string{"gzip"}, max: 1000, ct: "none", reqs: []c16Req{{mode: "client", body: x("hello")}}})
	// 1: body within the limit, compressed form beyond it (incompressible): the wire-side limit cuts the stream
	cs = append(cs, c16Case{algos: []string{"gzip"}, max: 1000, ct: "gzip", reqs: []c16Req{{mode: "client", body: c16Body{kind: 'r', n: 1000, seed: 7}}}})
	// 2: unknown name in the list + a request naming it (nil decoder func on the pinned tree)
	cs = append(cs, c16Case{algos: []string{"", "br"}, max: 1000, ct: "none", reqs: []c16Req{{mode: "garbage", hdr: "br", body: x("abc")}, {mode: "client", body: x("after")}}})
	// unknown names in every position of the list, with and without "": an unencoded request, a gzip request, a request naming the
	// unknown algorithm and a zstd request against each (the server under test is the second built from that configuration)
	for _, l := range [][]string{{"br", "gzip", "zstd"}, {"gzip", "br", "zstd"}, {"gzip", "zstd", "br"}, {"br"}, {"br", "x-foo", "gzip"}, {"br", "br", "gzip", "zstd", "snappy"},
		{"", "br", "gzip"}, {"br", "", "gzip"}, {"br", "gzip", ""}} {
		cs = append(cs, c16Case{algos: l, max: 1000, ct: "none", reqs: []c16Req{
			{mode: "client", body: x("plain request")},
			{mode: "pre", hdr: "gzip", lib: "gzip", lvl: 6, body: c16Body{kind: 't', n: 300}},
			{mode: "garbage", hdr: "br", body: x("abc")},
			{mode: "pre", hdr: "zstd", lib: "zstd", lvl: 3, body: c16Body{kind: 't', n: 300}},
			{mode: "client", body: x("plain again")}}})
	}
	// 3..8: zip-bomb shape, every algorithm: 1 MiB of zeros against a limit just above the compressed size
	for _, ct := range []string{"gzip", "zlib", "deflate", "snappy", "zstd", "lz4"} {
		b := c16Body{kind: 'z', n: 1 << 20}
		w := c16WireLen(ct, 0, b.bytes())
		cs = append(cs, c16Case{algosNil: true, max: int64(w + 100), ct: ct, reqs: []c16Req{{mode: "client", body: b}}})
	}
	// 9..: block boundaries with the default configuration, every algorithm
	for _, ct := range []string{"gzip", "zlib", "deflate", "snappy", "zstd", "lz4", "none"} {
		var reqs []c16Req
		for _, n := range []int{65535, 65536, 65537} {
			reqs = append(reqs, c16Req{mode: "client", body: c16Body{kind: 'r', n: n, seed: uint64(n)}})
			reqs = append(reqs, c16Req{mode: "client", body: c16Body{kind: 't', n: n}})
		}
		cs = append(cs, c16Case{algosNil: true, max: 0, ct: ct, reqs: reqs})
	}
	// preset header is passed through untouched by a compressing client (skip branch), server decodes it
	cs = append(cs, c16Case{algosNil: true, max: 5000, ct: "gzip", reqs: []c16Req{
		{mode: "pre", hdr: "zstd", lib: "zstd", lvl: 3, body: c16Body{kind: 't', n: 3000}},
		{mode: "garbage", hdr: "gzip", body: x("this is not gzip")},
		{mode: "garbage", hdr: "GZIP", body: x("case matters")},
		{mode: "client", body: c16Body{kind: 't', n: 5001}},
	}})
	// empty (non-nil) list: nothing is enabled
	cs = append(cs, c16Case{algos: []string{}, max: 100, ct: "zlib", reqs: []c16Req{{mode: "client", body: x("a")}}})
	// streamed (multi-block) bodies at EVERY level the client configuration offers: frame headers / window sizes /
	// dictionaries depend on the level, not on the content, and only show once the body exceeds one block (~128 KiB)
	for _, tl := range []struct {
		ct   string
		lvls []int
	}{
		{"zstd", []int{0, 1, 3, 6, 11, 22}},
		{"gzip", []int{-2, -1, 1, 6, 9}},
		{"zlib", []int{-1, 1, 9}},
		{"deflate", []int{-1, 9}},
		{"snappy", []int{0}},
		{"lz4", []int{0}},
	} {
		for _, lvl := range tl.lvls {
			cs = append(cs, c16Case{algosNil: true, max: 0, ct: tl.ct, lvl: lvl, reqs: []c16Req{
				{mode: "client", body: c16Body{kind: 'r', n: 200_000, seed: uint64(31 + lvl)}},
				{mode: "client", body: c16Body{kind: 't', n: 300_000}},
			}})
		}
	}
	// WithDecoder: server A overrides a built-in and restricts its list; server B (default) is built afterwards in the
	// same process. A must still reject what it did not list; B must be unaffected by A's registration.
	for _, over := range []string{"snappy", "gzip", "zstd"} {
		lib := c16LibOf(over)
		other := map[string]string{"snappy": "zstd", "gzip": "lz4", "zstd": "zlib"}[over]
		cs = append(cs, c16Case{algos: []string{"", "gzip"}, max: 100000, ct: "none", custom: []string{over, "x-xor"}, reqs: []c16Req{
			{mode: "pre", hdr: over, lib: "xor", body: c16Body{kind: 't', n: 700}},
			{mode: "pre", hdr: "x-xor", lib: "xor", body: c16Body{kind: 'r', n: 300, seed: 5}},
			{mode: "pre", hdr: other, lib: c16LibOf(other), lvl: 1, body: c16Body{kind: 't', n: 500}},
			{mode: "pre", hdr: "deflate", lib: "zlib", lvl: -1, body: c16Body{kind: 't', n: 500}},
			{mode: "client", body: x("plain")},
		}, then: []c16Case{
			{algosNil: true, max: 100000, ct: over, reqs: []c16Req{
				{mode: "client", body: c16Body{kind: 't', n: 900}},
				{mode: "pre", hdr: over, lib: lib, lvl: 1, body: c16Body{kind: 'r', n: 400, seed: 9}},
				{mode: "pre", hdr: other, lib: c16LibOf(other), lvl: 1, body: c16Body{kind: 't', n: 500}},
				{mode: "pre", hdr: "x-xor", lib: "xor", body: x("not registered here")},
			}},
			{algos: []string{"", "gzip"}, max: 100000, ct: "gzip", reqs: []c16Req{
				{mode: "client", body: c16Body{kind: 't', n: 900}},
				{mode: "pre", hdr: other, lib: c16LibOf(other), lvl: 1, body: c16Body{kind: 't', n: 500}},
			}},
		}})
	}
	// WithDecoder(name, nil-returning fn): the body is NOT re-wrapped by the decompressor, so only the wire-side
	// interceptor limits it — for a request that does carry a (non-empty) Content-Encoding
	for _, ct := range []string{"none", "gzip"} {
		cs = append(cs, c16Case{algosNil: true, max: 1000, ct: ct, passNil: []string{"x-raw"}, reqs: []c16Req{
			{mode: "client", hdr: "x-raw", body: c16Body{kind: 't', n: 999}},
			{mode: "client", hdr: "x-raw", body: c16Body{kind: 'r', n: 1000, seed: 3}},
			{mode: "client", hdr: "x-raw", body: c16Body{kind: 'r', n: 1001, seed: 4}},
			{mode: "client", hdr: "x-raw", body: c16Body{kind: 'z', n: 50000}},
			{mode: "client", body: c16Body{kind: 't', n: 1001}},
		}})
	}
	cs = append(cs, c16Case{algos: []string{"gzip"}, max: 64, ct: "none", passNil: []string{"zstd", "identity"}, custom: []string{"x-xor"}, reqs: []c16Req{
		{mode: "client", hdr: "zstd", body: c16Body{kind: 't', n: 65}},
		{mode: "client", hdr: "identity", body: c16Body{kind: 't', n: 64}},
		{mode: "pre", hdr: "x-xor", lib: "xor", body: c16Body{kind: 't', n: 200}},
	}})
	// streaming: chunked / partial / no read + Close by the handler, each followed by a full request on the same connection
	for _, ct := range []string{"gzip", "zstd", "snappy", "lz4", "deflate", "none"} {
		big := c16Body{kind: 'r', n: 300_000, seed: 11}
		cs = append(cs, c16Case{algosNil: true, max: 400_000, ct: ct, reqs: []c16Req{
			{mode: "client", body: big, rd: "chunk:7", cl: 1},
			{mode: "client", body: c16Body{kind: 't', n: 1000}},
			{mode: "client", body: big, rd: "partial:100", cl: 2},
			{mode: "client", body: c16Body{kind: 't', n: 1001}},
			{mode: "client", body: big, rd: "none", cl: 1},
			{mode: "client", body: c16Body{kind: 't', n: 1002}},
			{mode: "client", body: c16Body{kind: 'z', n: 900_000}, rd: "partial:400001"},
			{mode: "client", body: c16Body{kind: 't', n: 1003}},
			{mode: "client", body: c16Body{kind: 'z', n: 900_000}, rd: "chunk:4096", cl: 1},
			{mode: "client", body: c16Body{kind: 't', n: 1004}, rd: "partial:2000"},
		}})
	}
	// WithErrorHandler: rejections are answered by the caller's handler (handed 400), nothing else changes
	cs = append(cs, c16Case{algos: []string{"", "gzip"}, max: 1000, ct: "zstd", eh: 22, custom: []string{"x-xor"}, reqs: []c16Req{
		{mode: "client", body: c16Body{kind: 't', n: 300}},
		{mode: "garbage", hdr: "gzip", body: x("this is not gzip")},
		{mode: "pre", hdr: "gzip", lib: "gzip", lvl: 6, body: c16Body{kind: 't', n: 900}},
		{mode: "pre", hdr: "x-xor", lib: "xor", body: c16Body{kind: 't', n: 1001}},
		{mode: "client", hdr: "", body: c16Body{kind: 't', n: 10}},
	}})
	// concurrency: handlers that close the body themselves, then overlapping requests (every algorithm)
	for i, ct := range []string{"gzip", "zstd", "zlib", "snappy", "lz4", "deflate", "none"} {
		cs = append(cs, c16Case{conc: &c16Conc{k: 4 + 2*i, closes: 1 + i%2, rounds: 2, ct: ct}})
	}
	// the same with the overlap forced inside the CLIENT's compress step (pooled writers), after a request whose body fails
	for i, ct := range []string{"gzip", "zstd", "zlib", "snappy", "lz4", "deflate"} {
		cs = append(cs, c16Case{conc: &c16Conc{k: 4 + i, closes: 0, rounds: 2, ct: ct, clientBarrier: true}})
	}
	// requests of UNKNOWN length (Transfer-Encoding: chunked, ContentLength -1) through the full ToServer chain: identity and
	// every algorithm (pre-compressed, so the stream stays chunked) × body below / at / above the limit / far above
	for _, name := range []string{"", "gzip", "zlib", "deflate", "zstd", "snappy", "lz4"} {
		var reqs []c16Req
		for _, n := range []int{999, 1000, 1001, 50_000} {
			b := c16Body{kind: 't', n: n}
			if name == "" {
				reqs = append(reqs, c16Req{mode: "client", body: b, chk: true})
			} else {
				reqs = append(reqs, c16Req{mode: "pre", hdr: name, lib: c16LibOf(name), lvl: c16PreLevel(vRand(n), c16LibOf(name)), body: b, chk: true})
			}
		}
		reqs = append(reqs, c16Req{mode: "client", body: c16Body{kind: 't', n: 10}}) // and a sized one afterwards
		cs = append(cs, c16Case{algosNil: true, max: 1000, ct: "none", reqs: reqs})
	}
	// incompressible chunked identity bodies against a compressing client too (the client buffers and sizes them)
	cs = append(cs, c16Case{algosNil: true, max: 2000, ct: "gzip", reqs: []c16Req{
		{mode: "client", body: c16Body{kind: 'r', n: 1900, seed: 1}, chk: true},
		{mode: "client", body: c16Body{kind: 'z', n: 100_000}, chk: true},
	}})
	// replay histories, every algorithm: request 1 leaves an idle keep-alive connection, request 2 (replayable) dies on it unanswered and
	// is resent by net/http with GetBody on a fresh connection — the handler must still read exactly the client's bytes
	for _, ct := range []string{"gzip", "zlib", "deflate", "zstd", "snappy", "lz4", "none"} {
		cs = append(cs, c16Case{algosNil: true, max: 100000, ct: ct, reqs: []c16Req{
			{mode: "client", body: c16Body{kind: 't', n: 500}},
			{mode: "client", body: c16Body{kind: 't', n: 4000}, rpl: "idem"},
			{mode: "client", body: c16Body{kind: 'r', n: 3000, seed: 17}, rpl: "xidem"},
			{mode: "client", body: c16Body{kind: 't', n: 2500}, rpl: "get"},
			{mode: "client", body: c16Body{kind: 't', n: 700}},
		}})
	}
	// names: the Content-Encoding a client writes is the configured algorithm's own name, so a server listing exactly that
	// name accepts it and a server listing everything BUT that name (incl. the other name of the same format) rejects it
	for _, ct := range []string{"gzip", "zlib", "deflate", "zstd", "snappy", "lz4"} {
		var others []string
		for _, nm := range c16Names {
			if nm != ct {
				others = append(others, nm)
			}
		}
		body := c16Body{kind: 't', n: 400}
		cs = append(cs, c16Case{algos: []string{ct}, max: 10000, ct: ct, reqs: []c16Req{{mode: "client", body: body}},
			then: []c16Case{{algos: others, max: 10000, ct: ct, reqs: []c16Req{{mode: "client", body: body}}}}})
	}
	for _, pair := range [][2]string{{"deflate", "zlib"}, {"zlib", "deflate"}} {
		// the two names of one format are separate switches
		body := c16Body{kind: 'r', n: 300, seed: 2}
		cs = append(cs, c16Case{algos: []string{"", pair[0]}, max: 10000, ct: pair[0], reqs: []c16Req{{mode: "client", body: body}},
			then: []c16Case{
				{algos: []string{"", pair[1]}, max: 10000, ct: pair[0], reqs: []c16Req{{mode: "client", body: body}}},
				{algos: []string{pair[1], pair[0]}, max: 10000, ct: pair[0], reqs: []c16Req{{mode: "client", body: body}}},
			}})
	}
	return cs
}

func c16Gen(c int, rnd interface {
	IntN(int) int
	Uint64() uint64
}, thorough bool) c16Case {
	var cs c16Case
	cs.ct = c16Types[rnd.IntN(len(c16Types))]
	cs.lvl = c16ClientLevel(rnd, cs.ct)
	// enabled list
	switch k := rnd.IntN(10); {
	case k < 3:
		cs.algosNil = true
	case k < 8:
		// random subset (as a list in random order, possibly with a repeat)
		for _, nm := range c16Names {
			if rnd.IntN(2) == 0 {
				cs.algos = append(cs.algos, nm)
			}
		}
		if rnd.IntN(3) > 0 && cs.ct != "none" && cs.ct != "" {
			cs.algos = append(cs.algos, cs.ct)
		}
		if rnd.IntN(3) > 0 {
			cs.algos = append(cs.algos, "")
		}
		for i := len(cs.algos) - 1; i > 0; i-- {
			j := rnd.IntN(i + 1)
			cs.algos[i], cs.algos[j] = cs.algos[j], cs.algos[i]
		}
		if cs.algos == nil {
			cs.algos = []string{}
		}
	case k < 9:
		cs.algos = []string{"", cs.ct, "br"}
	default:
		cs.algos = []string{"", "identity", "x-gzip", "gzip"}
	}
	// body of the first request, then a limit placed relative to it
	mkBody := func(maxN int) c16Body {
		n := 0
		switch rnd.IntN(6) {
		case 0:
			n = rnd.IntN(3)
		case 1:
			n = rnd.IntN(64)
		default:
			n = rnd.IntN(maxN + 1)
		}
		switch rnd.IntN(4) {
		case 0:
			return c16Body{kind: 'z', n: n}
		case 1:
			return c16Body{kind: 't', n: n}
		case 2:
			return c16Body{kind: 'r', n: n, seed: rnd.Uint64() % 1000003}
		default:
			if n > 48 {
				return c16Body{kind: 'r', n: n, seed: rnd.Uint64() % 1000003}
			}
			raw := make([]byte, n)
			for i := range raw {
				raw[i] = byte(rnd.IntN(256))
			}
			return c16Body{kind: 'x', raw: raw}
		}
	}
	// most bodies are small (fast), but a fraction in EVERY tier spans several blocks / windows / chunks of the streaming formats
	// (snappy 64 KiB chunks, lz4 64 KiB blocks in `pre` mode, zstd 128 KiB blocks, flate 32 KiB window), with the limit then placed
	// inside the multi-block stream by the limit rules below (body±1, wire±1, half). This SAMPLES the libraries' round-trip law.
	maxN := 4096
	switch k := rnd.IntN(48); {
	case k < 4 || (thorough && k < 8):
		maxN = 300_000
	case k == 8:
		maxN = 1_200_000
	}
	first := mkBody(maxN)
	fb := first.bytes()
	wl := c16WireLen(cs.ct, cs.lvl, fb)
	switch k := rnd.IntN(12); {
	case k < 3:
		cs.max = int64(len(fb) + rnd.IntN(3) - 1)
		cs.limitRel = "body±1"
	case k < 6:
		cs.max = int64(wl + rnd.IntN(3) - 1)
		cs.limitRel = "wire±1"
	case k < 7:
		cs.max = int64(rnd.IntN(40)) // tiny: inside the compressed header
		cs.limitRel = "tiny"
	case k < 8:
		cs.max = int64(-rnd.IntN(2)) // 0 / -1: default 20 MiB
		cs.limitRel = "default"
	case k < 10:
		cs.max = int64(len(fb)/2 + rnd.IntN(8))
		cs.limitRel = "half"
	default:
		cs.max = int64(len(fb) + wl + 1 + rnd.IntN(5000))
		cs.limitRel = "roomy"
	}
	if cs.max <= 0 && cs.limitRel != "default" {
		cs.max = 1
	}
	if rnd.IntN(6) == 0 {
		cs.eh = []int{18, 22, 51}[rnd.IntN(3)] // 418, 422, 451: still client errors
	}
	nreq := 1 + rnd.IntN(4)
	for i := 0; i < nreq; i++ {
		var r c16Req
		b := first
		if i > 0 {
			b = mkBody(maxN)
		}
		switch k := rnd.IntN(10); {
		case k < 6:
			r = c16Req{mode: "client", body: b}
		case k < 8:
			name := c16Names[1+rnd.IntN(len(c16Names)-1)]
			lib := c16LibOf(name)
			r = c16Req{mode: "pre", hdr: name, lib: lib, lvl: c16PreLevel(rnd, lib), body: b}
		default:
			hdrs := []string{"gzip", "zlib", "deflate", "zstd", "snappy", "lz4", "br", "GZIP", "gzip, deflate", "identity", "x-gzip"}
			r = c16Req{mode: "garbage", hdr: hdrs[rnd.IntN(len(hdrs))], body: b}
			if rnd.IntN(2) == 0 && b.kind != 'x' {
				// a valid stream with one corruption: truncated or bit-flipped
				lib := c16LibOf(c16Names[1+rnd.IntN(len(c16Names)-1)])
				w := c16Compress(lib, c16PreLevel(rnd, lib), b.bytes())
				if len(w) > 0 && len(w) < 20000 {
					if rnd.IntN(2) == 0 {
						w = w[:rnd.IntN(len(w))]
					} else {
						w = append([]byte(nil), w...)
						w[rnd.IntN(len(w))] ^= byte(1 << rnd.IntN(8))
					}
					r.body = c16Body{kind: 'x', raw: w}
					r.hdr = lib
				}
			}
		}
		if i > 0 && r.mode == "client" && rnd.IntN(4) == 0 {
			// a replay history: the previous request left an idle keep-alive connection; this one is replayable and its first attempt dies
			r.rpl = []string{"idem", "xidem", "get"}[rnd.IntN(3)]
			cs.reqs = append(cs.reqs, r)
			continue
		}
		r.chk = rnd.IntN(3) == 0 // a body source of unknown length (chunked on the wire unless the client compresses it first)
		if r.mode != "garbage" && rnd.IntN(3) == 0 {
			// streaming behaviour of the handler: small chunks / a prefix only / nothing, and Close by the handler
			n := len(r.body.bytes())
			switch rnd.IntN(4) {
			case 0:
				r.rd = fmt.Sprintf("chunk:%d", []int{1, 2, 7, 64, 511, 4096}[rnd.IntN(6)])
			case 1:
				r.rd = fmt.Sprintf("partial:%d", rnd.IntN(n+2))
			case 2:
				r.rd = fmt.Sprintf("partial:%d", int(cs.max)+rnd.IntN(3)-1)
				if cs.max <= 0 || cs.max > 1<<20 {
					r.rd = fmt.Sprintf("partial:%d", rnd.IntN(n+2))
				}
			default:
				r.rd = "none"
			}
			r.cl = rnd.IntN(3)
			cs.reqs = append(cs.reqs, r)
			// … and the next request on the same keep-alive connection must be untouched by what was left unread
			cs.reqs = append(cs.reqs, c16Req{mode: "client", body: mkBody(maxN)})
			continue
		}
		cs.reqs = append(cs.reqs, r)
	}
	return cs
}

// ---- running one case on the real code ----

type c16Seen struct {
	mu       sync.Mutex
	ran      bool
	data     []byte
	readErr  error
	status   int
	panicked bool
	wireLen  int64
	enc      string
	encCount int
	remote   string
	attempts int   // replay histories: how many times the request arrived
	viewCL   int64 // r.ContentLength as the base handler sees it
	viewCE   bool  // Content-Encoding header still present for the base handler
}

// c16RecordingRT stands where the real http.Transport stands behind compressRoundTripper and looks at the outgoing request
type c16RecordingRT struct {
	body, getBody []byte
	hasGetBody    bool
	getBodyErr    error
	enc           string
	cl            int64
}

func (r *c16RecordingRT) RoundTrip(req *http.Request) (*http.Response, error) {
	r.enc, r.cl = req.Header.Get("Content-Encoding"), req.ContentLength
	if req.GetBody != nil {
		r.hasGetBody = true
		gb, err := req.GetBody()
		r.getBodyErr = err
		if err == nil {
			r.getBody, _ = io.ReadAll(gb)
			gb.Close()
		}
	}
	if req.Body != nil {
		r.body, _ = io.ReadAll(req.Body)
		req.Body.Close()
	}
	return &http.Response{StatusCode: 200, Body: http.NoBody, Header: http.Header{}, Request: req}, nil
}

func c16GetBodyCheck(out *vOut, cs c16Case) {
	lvl := cs.lvl
	if lvl == 0 {
		lvl = int(configcompression.DefaultCompressionLevel)
	}
	rec := &c16RecordingRT{}
	rt, err := newCompressRoundTripper(rec, configcompression.Type(cs.ct), newCompressionParams(configcompression.Level(lvl)))
	if err != nil {
		return
	}
	plain := c16Body{kind: 't', n: 3000}.bytes()
	req, _ := http.NewRequest(http.MethodPost, "http://c16.invalid/", bytes.NewReader(plain)) // bytes.Reader: the caller's GetBody is set
	out.Linef("op getbody ct=%s", vHex(cs.ct))
	verdict := "equal"
	func() {
		defer func() {
			if p := recover(); p != nil {
				verdict = "panic"
			}
		}()
		if _, err := rt.RoundTrip(req); err != nil {
			verdict = "error"
		}
	}()
	switch {
	case verdict != "equal":
	case !rec.hasGetBody:
		verdict = "absent" // not replayable: allowed, but then net/http can never resend it
	case rec.getBodyErr != nil || !bytes.Equal(rec.getBody, rec.body):
		verdict = "differs"
		out.Linef("viol sig=C16/client/getbody-differs-from-body/%s body=%d getbody=%d equals-uncompressed-input=%v content-length=%d", cs.ct, len(rec.body), len(rec.getBody), bytes.Equal(rec.getBody, plain), rec.cl)
	}
	out.Linef("obs getbody %s enc=%s", verdict, vHex(rec.enc))
	out.Linef("stat getbody_checked 1")
}

// c16HandlerRead: the handler's way of consuming the body. A clean end of stream is not an error.
func c16HandlerRead(body io.Reader, mode string) ([]byte, error) {
	switch {
	case strings.HasPrefix(mode, "chunk:"):
		n, _ := strconv.Atoi(strings.TrimPrefix(mode, "chunk:"))
		var out []byte
		buf := make([]byte, n)
		for {
			k, err := body.Read(buf)
			out = append(out, buf[:k]...)
			if err == io.EOF {
				return out, nil
			}
			if err != nil {
				return out, err
			}
		}
	case strings.HasPrefix(mode, "partial:"):
		n, _ := strconv.Atoi(strings.TrimPrefix(mode, "partial:"))
		buf := make([]byte, n)
		k, err := io.ReadFull(body, buf)
		if err == io.EOF || err == io.ErrUnexpectedEOF {
			err = nil // the stream ended cleanly before k bytes
		}
		return buf[:k], err
	case mode == "none":
		return nil, nil
	}
	return io.ReadAll(body)
}

type c16StatusWriter struct {
	http.ResponseWriter
	seen *c16Seen
}

func (w *c16StatusWriter) WriteHeader(code int) {
	w.seen.mu.Lock()
	if w.seen.status == 0 {
		w.seen.status = code
	}
	w.seen.mu.Unlock()
	w.ResponseWriter.WriteHeader(code)
}

func (w *c16StatusWriter) Write(b []byte) (int, error) {
	w.seen.mu.Lock()
	if w.seen.status == 0 {
		w.seen.status = 200
	}
	w.seen.mu.Unlock()
	return w.ResponseWriter.Write(b)
}

func c16AlgosToken(cs c16Case) string {
	if cs.algosNil {
		return "nil"
	}
	if len(cs.algos) == 0 {
		return "empty"
	}
	var parts []string
	for _, a := range cs.algos {
		parts = append(parts, vHex(a))
	}
	return strings.Join(parts, ",")
}

func c16Run(t *testing.T, out *vOut, c int, cs c16Case) {
	out.Linef("case %d", c)
	if cs.conc != nil {
		c16ConcRun(t, out, c, *cs.conc)
		out.Linef("nt")
		out.Linef("end")
		return
	}
	nt := c16Stage(t, out, cs)
	for _, next := range cs.then {
		c16Stage(t, out, next)
		nt = true // several servers in one process
	}
	if nt {
		out.Linef("nt")
	}
	out.Linef("end")
}

func c16CustomToken(cs c16Case) string {
	if len(cs.custom)+len(cs.passNil) == 0 {
		return "-"
	}
	var parts []string
	for _, a := range cs.custom {
		parts = append(parts, vHex(a)+"/xor")
	}
	for _, a := range cs.passNil {
		parts = append(parts, vHex(a)+"/nil")
	}
	return strings.Join(parts, ",")
}

// c16NilDecoder: a caller-supplied decoder that has nothing to decode (same convention as the built-in "" entry)
func c16NilDecoder(io.ReadCloser) (io.ReadCloser, error) { return nil, nil }

// c16Stage builds one server (+ client) and runs its requests; servers of earlier stages of the case were built
// before in the same process. Returns whether the stage was non-trivial.
func c16Stage(t *testing.T, out *vOut, cs c16Case) bool {
	seen := &c16Seen{}
	base := http.HandlerFunc(func(w http.ResponseWriter, r *http.Request) {
		data, err := c16HandlerRead(r.Body, r.Header.Get("X-C16-Read"))
		for i := 0; i < len(r.Header.Get("X-C16-Close")); i++ {
			_ = r.Body.Close()
		}
		seen.mu.Lock()
		seen.ran, seen.data, seen.readErr = true, data, err
		seen.remote = r.RemoteAddr
		seen.viewCL, seen.viewCE = r.ContentLength, len(r.Header.Values("Content-Encoding")) > 0
		seen.mu.Unlock()
		w.WriteHeader(http.StatusOK)
	})
	// the configuration as the operator wrote it: token and private copy taken BEFORE any ToServer call (ToServer must not change it)
	algosTok := c16AlgosToken(cs)
	hss := &ServerConfig{Endpoint: "localhost:0", MaxRequestBodySize: cs.max}
	if !cs.algosNil {
		hss.CompressionAlgorithms = append(make([]string, 0, len(cs.algos)+2), cs.algos...)
	}
	algosBefore := append([]string(nil), hss.CompressionAlgorithms...)
	algosNilBefore := hss.CompressionAlgorithms == nil
	// ToServer's own defaulting writes into the configuration (nil list -> the default list, size <= 0 -> the default size): allowed, nothing else
	wantMax := cs.max
	if wantMax <= 0 {
		wantMax = defaultMaxRequestBodySize
	}
	if algosNilBefore {
		algosBefore = append([]string(nil), defaultCompressionAlgorithms...)
	}
	checkServerCfg := func(gen int) {
		same := len(hss.CompressionAlgorithms) == len(algosBefore) && hss.MaxRequestBodySize == wantMax
		if same {
			full := hss.CompressionAlgorithms[:len(hss.CompressionAlgorithms):len(hss.CompressionAlgorithms)]
			for i := range full {
				if full[i] != algosBefore[i] {
					same = false
				}
			}
		}
		if !same {
			out.Linef("viol sig=C16/config/input-mutated/server-compression-algorithms after-ToServer-call=%d before=%q after=%q max=%d", gen, algosBefore, hss.CompressionAlgorithms, hss.MaxRequestBodySize)
		}
	}
	var opts []ToServerOption
	for _, name := range cs.custom {
		opts = append(opts, WithDecoder(name, c16XorDecoder))
	}
	for _, name := range cs.passNil {
		opts = append(opts, WithDecoder(name, c16NilDecoder))
	}
	if cs.eh > 0 {
		add := cs.eh
		opts = append(opts, WithErrorHandler(func(w http.ResponseWriter, _ *http.Request, _ string, statusCode int) {
			w.WriteHeader(statusCode + add)
		}))
	}
	// the server under test is the SECOND one built from the same ServerConfig value (a receiver restart / two components sharing one
	// configuration); before the last request of a stage a THIRD one is built and takes over. All generations must behave as the
	// configuration says, and no ToServer call may change the configuration it is given.
	var srvMu sync.Mutex
	var srv *http.Server
	build := func(gen int) {
		s2, err := hss.ToServer(context.Background(), componenttest.NewNopHost(), componenttest.NewNopTelemetrySettings(), base, opts...)
		if err != nil {
			t.Fatalf("ToServer: %v", err)
		}
		checkServerCfg(gen)
		srvMu.Lock()
		srv = s2
		srvMu.Unlock()
	}
	build(1)
	build(2)
	out.Linef("stat server_generations_built 2")
	aborted := map[string]bool{}
	outer := http.HandlerFunc(func(w http.ResponseWriter, r *http.Request) {
		if id := r.Header.Get("X-C16-Abort-Once"); id != "" {
			seen.mu.Lock()
			first := !aborted[id]
			aborted[id] = true
			seen.attempts++
			seen.mu.Unlock()
			if first {
				// the exchange dies before any answer: read what was sent, then drop the connection
				_, _ = io.Copy(io.Discard, r.Body)
				panic(http.ErrAbortHandler)
			}
		}
		seen.mu.Lock()
		seen.wireLen = r.ContentLength
		seen.enc = r.Header.Get("Content-Encoding")
		seen.encCount = len(r.Header.Values("Content-Encoding"))
		seen.mu.Unlock()
		defer func() {
			if p := recover(); p != nil {
				seen.mu.Lock()
				seen.panicked = true
				seen.mu.Unlock()
				w.WriteHeader(http.StatusInternalServerError)
			}
		}()
		srvMu.Lock()
		cur := srv
		srvMu.Unlock()
		cur.Handler.ServeHTTP(&c16StatusWriter{ResponseWriter: w, seen: seen}, r)
	})
	ts := httptest.NewServer(outer)
	defer ts.Close()

	hcs := &ClientConfig{Endpoint: ts.URL, Compression: configcompression.Type(cs.ct), CompressionParams: newCompressionParams(configcompression.Level(cs.lvl))}
	hcs.MaxConnsPerHost = 1 // sequential requests of a stage share ONE keep-alive connection whenever the server keeps it open
	out.Linef("op cfg algos=%s max=%d ct=%s lvl=%d custom=%s eh=%d", algosTok, cs.max, vHex(cs.ct), cs.lvl, c16CustomToken(cs), cs.eh)
	if err := hcs.Validate(); err != nil {
		// not a usable configuration: the collector refuses to start with it
		out.Linef("obs cfg client=invalid")
		out.Linef("stat level_rejected_by_validate 1")
		return true
	}
	if cty := configcompression.Type(cs.ct); cty.IsCompressed() && cs.lvl != 0 {
		out.Linef("stat level_explicit_%s 1", cs.ct)
	}
	// likewise the client under test is the SECOND one built from the same ClientConfig value; ToClient may only replace an unset
	// compression level (0) by the default, nothing else of the compression settings / headers
	ctBefore, lvlBefore, hdrBefore := hcs.Compression, hcs.CompressionParams.Level, len(hcs.Headers)
	first, err := hcs.ToClient(context.Background(), componenttest.NewNopHost(), componenttest.NewNopTelemetrySettings())
	if err != nil {
		out.Linef("obs cfg client=err")
		return false
	}
	first.CloseIdleConnections()
	client, err := hcs.ToClient(context.Background(), componenttest.NewNopHost(), componenttest.NewNopTelemetrySettings())
	if err != nil {
		out.Linef("viol sig=C16/config/second-ToClient-from-the-same-config-fails ct=%s err=%v", cs.ct, err)
		out.Linef("obs cfg client=err")
		return false
	}
	if hcs.Compression != ctBefore || len(hcs.Headers) != hdrBefore ||
		(hcs.CompressionParams.Level != lvlBefore && !(lvlBefore == 0 && hcs.CompressionParams.Level == configcompression.DefaultCompressionLevel)) {
		out.Linef("viol sig=C16/config/input-mutated/client-compression before=%s/%d after=%s/%d", ctBefore, lvlBefore, hcs.Compression, hcs.CompressionParams.Level)
	}
	defer client.CloseIdleConnections()
	out.Linef("obs cfg client=ok")
	nt := false
	limit := cs.max
	if limit <= 0 {
		limit = defaultMaxRequestBodySize
	}
	lastRemote := ""
	reqNo := 0
	// direct oracle on the request the compressing round-tripper hands to the inner transport: its GetBody (what net/http replays
	// after a dead keep-alive connection) must yield exactly the bytes of its Body
	if cty := configcompression.Type(cs.ct); cty.IsCompressed() {
		c16GetBodyCheck(out, cs)
	}
	for ri, rq := range cs.reqs {
		if ri > 0 && ri == len(cs.reqs)-1 {
			build(3) // a third server from the same configuration, after the second one has served requests
			out.Linef("stat server_generation_3_takes_over 1")
		}
		*seen = c16Seen{}
		plain := rq.body.bytes()
		var given []byte
		switch rq.mode {
		case "client", "garbage":
			given = plain
		case "pre":
			given = c16Compress(rq.lib, rq.lvl, plain)
		}
		var bodyReader io.Reader = bytes.NewReader(given)
		if rq.chk {
			bodyReader = c16Unsized{bytes.NewReader(given)}
		}
		method := http.MethodPost
		if rq.rpl == "get" {
			method = http.MethodGet
		}
		req, err := http.NewRequest(method, ts.URL, bodyReader)
		if err != nil {
			t.Fatal(err)
		}
		switch rq.rpl {
		case "idem":
			req.Header.Set("Idempotency-Key", fmt.Sprintf("k-%d", reqNo))
		case "xidem":
			req.Header.Set("X-Idempotency-Key", fmt.Sprintf("k-%d", reqNo))
		}
		firstReused, gotConns := false, 0
		if rq.rpl != "" {
			req.Header.Set("X-C16-Abort-Once", fmt.Sprintf("r-%d", reqNo))
			// net/http replays only what died on a REUSED idle connection: watch which connection the first attempt gets
			req = req.WithContext(httptrace.WithClientTrace(req.Context(), &httptrace.ClientTrace{GotConn: func(info httptrace.GotConnInfo) {
				if gotConns == 0 {
					firstReused = info.Reused
				}
				gotConns++
			}}))
		}
		reqNo++
		if rq.hdr != "" {
			req.Header.Set("Content-Encoding", rq.hdr)
		}
		if rq.rd != "" {
			req.Header.Set("X-C16-Read", rq.rd)
		}
		if rq.cl > 0 {
			req.Header.Set("X-C16-Close", strings.Repeat("x", rq.cl))
		}
		var resp *http.Response
		var derr error
		func() {
			defer func() {
				// a level that Validate accepted must give a working writer: a panic here (nil writer) is a violation
				if p := recover(); p != nil {
					derr = fmt.Errorf("client panicked: %v", p)
					out.Linef("viol sig=C16/level/validated-configuration-panics-in-client ct=%s lvl=%d %v", cs.ct, cs.lvl, p)
				}
			}()
			resp, derr = client.Do(req)
		}()
		if derr == nil {
			_, _ = io.Copy(io.Discard, resp.Body)
			resp.Body.Close()
		}
		seen.mu.Lock()
		s := *seen
		seen.mu.Unlock()
		if rq.rpl != "" {
			if !firstReused {
				// the first attempt went out on a fresh connection (the previous exchange did not leave an idle one): net/http does
				// not replay then, there is no exchange to judge
				out.Linef("stat replay_not_taken_fresh_connection 1")
				continue
			}
			out.Linef("stat replayed_%s 1", rq.rpl)
			if derr != nil || s.attempts < 2 {
				// a replayable request that died on a reused connection MUST be resent and delivered; if the client gives up (e.g. the
				// rewound body does not match the announced length) the handler never gets the client's bytes
				out.Linef("viol sig=C16/client/replayed-request-not-delivered/%s replay=%s attempts=%d err=%q", cs.ct, rq.rpl, s.attempts, fmt.Sprint(derr))
			}
		}
		if s.wireLen < 0 {
			// unknown length on the wire (chunked): only possible when the client passed the given bytes through
			s.wireLen = int64(len(given))
			out.Linef("stat chunked_on_the_wire 1")
			if s.enc == "" {
				out.Linef("stat chunked_identity 1")
			}
			if d := int64(len(given)) - limit; d >= -1 && d <= 1 {
				out.Linef("stat chunked_at_limit_pm1 1")
			}
		}
		// the model needs, as inputs, what only the compression library knows
		extra := ""
		truncated := s.enc != "" && s.wireLen > limit
		if rq.mode == "garbage" || truncated {
			// computed by the library itself on the (cut) wire bytes, independently of what the handler saw
			wire, okWire := given, true
			if rq.mode == "client" && rq.hdr == "" {
				wire, okWire = c16WireBytes(cs.ct, cs.lvl, given)
			}
			lib := c16LibOf(s.enc)
			for _, cn := range cs.custom {
				if cn == s.enc {
					lib = "xor"
				}
			}
			if okWire && int64(len(wire)) == s.wireLen {
				extra = " dec=" + c16IndependentDecode(lib, wire, limit)
				out.Linef("stat dec_computed_independently 1")
			} else {
				// the wire bytes could not be reproduced (should not happen: the compressors are deterministic)
				out.Linef("stat dec_echoed_from_handler 1")
				switch {
				case s.ran:
					extra = fmt.Sprintf(" dec=%d:%d", len(s.data), vB(s.readErr == nil))
				default:
					extra = " dec=fail"
				}
			}
		}
		pre := ""
		if rq.mode == "pre" {
			pre = fmt.Sprintf(" lib=%s plvl=%d", rq.lib, rq.lvl)
		}
		rd := rq.rd
		if rd == "" {
			rd = "all"
		}
		out.Linef("op req mode=%s hdr=%s body=%s wire=%d rd=%s chunked=%d replay=%s%s%s", rq.mode, vHex(rq.hdr), rq.body.String(), s.wireLen, rd, vB(rq.chk), map[bool]string{true: "-", false: rq.rpl}[rq.rpl == ""], pre, extra)
		if lastRemote != "" && s.remote == lastRemote {
			out.Linef("stat same_connection_as_previous_request 1")
		}
		if s.remote != "" {
			lastRemote = s.remote
		}
		if rd != "all" {
			out.Linef("stat read_%s 1", strings.SplitN(rd, ":", 2)[0])
		}
		if rq.cl > 0 {
			out.Linef("stat handler_closes_body 1")
		}
		if s.ran {
			out.Linef("obs view cl=%d ce=%d", s.viewCL, vB(s.viewCE))
		}
		out.Linef("obs sent enc=%s n=%d wire=%d", vHex(s.enc), s.encCount, s.wireLen)
		hashed := rq.mode != "garbage" || s.enc == ""
		switch {
		case s.panicked:
			out.Linef("obs panicked")
		case s.ran:
			h := "-"
			if hashed {
				h = fmt.Sprintf("%d", c16Hash(s.data))
			}
			out.Linef("obs handled n=%d h=%s ok=%d", len(s.data), h, vB(s.readErr == nil))
			// direct oracle, clause 1 (the Lean oracle checks all clauses on the same observation)
			if int64(len(s.data)) > limit {
				out.Linef("viol sig=C16/limit/handler-read-beyond-limit read=%d limit=%d enc=%q", len(s.data), limit, s.enc)
			}
		case s.status != 0:
			out.Linef("obs rejected %d", s.status)
		default:
			out.Linef("obs no-response err=%v", derr != nil)
		}
		if s.enc != "" || !s.ran || int64(len(plain))-limit <= 1 && int64(len(plain))-limit >= -1 {
			nt = true
		}
		out.Linef("stat mode_%s 1", rq.mode)
		if s.enc != "" {
			out.Linef("stat enc_%s 1", strings.Map(func(r rune) rune {
				if r >= 'a' && r <= 'z' || r >= 'A' && r <= 'Z' || r >= '0' && r <= '9' {
					return r
				}
				return '_'
			}, s.enc))
		} else {
			out.Linef("stat enc_none 1")
		}
		switch {
		case s.panicked:
			out.Linef("stat out_panicked 1")
		case s.ran && s.readErr == nil:
			out.Linef("stat out_handled_ok 1")
		case s.ran:
			out.Linef("stat out_handled_readerr 1")
		default:
			out.Linef("stat out_rejected 1")
		}
		if truncated {
			out.Linef("stat wire_over_limit 1")
		}
		if d := int64(len(plain)) - limit; d >= -1 && d <= 1 {
			out.Linef("stat body_at_limit_pm1 1")
		}
		if d := s.wireLen - limit; s.enc != "" && d >= -1 && d <= 1 {
			out.Linef("stat wire_at_limit_pm1 1")
		}
	}
	if cs.limitRel != "" {
		out.Linef("stat limit_%s 1", strings.NewReplacer("±", "_pm").Replace(cs.limitRel))
	}
	if len(cs.custom) > 0 {
		out.Linef("stat with_decoder 1")
	}
	if len(cs.passNil) > 0 {
		out.Linef("stat with_passthrough_decoder 1")
	}
	if cs.eh > 0 {
		out.Linef("stat with_error_handler 1")
	}
	return nt
}

// thorough only: every subset of the decoder names × every client type, and the 1 MiB block boundary
func c16Exhaustive() []c16Case {
	var cs []c16Case
	for mask := 0; mask < 1<<len(c16Names); mask++ {
		algos := []string{}
		for i, nm := range c16Names {
			if mask&(1<<i) != 0 {
				algos = append(algos, nm)
			}
		}
		for _, ct := range c16Types {
			cs = append(cs, c16Case{algos: algos, max: 4096, ct: ct, reqs: []c16Req{
				{mode: "client", body: c16Body{kind: 't', n: 100 + mask}},
				{mode: "client", body: c16Body{kind: 'z', n: 5000}},
			}})
		}
	}
	for _, ct := range c16Types {
		var reqs []c16Req
		for _, n := range []int{1<<20 - 1, 1 << 20, 1<<20 + 1, 4<<20 + 1} {
			reqs = append(reqs, c16Req{mode: "client", body: c16Body{kind: 'r', n: n, seed: uint64(n)}})
			reqs = append(reqs, c16Req{mode: "client", body: c16Body{kind: 't', n: n}})
		}
		cs = append(cs, c16Case{algosNil: true, max: 0, ct: ct, reqs: reqs})
		// the same with the limit exactly at 1 MiB
		cs = append(cs, c16Case{algosNil: true, max: 1 << 20, ct: ct, reqs: reqs[:6]})
	}
	return cs
}

// c16WithDecoderCase: server A registers the xor decoder under 1-2 names (a new name and/or a built-in it overrides)
// with a restricted list; then server B (default or random) is built in the same process. Requests probe, on A: the
// custom names (xor streams), every built-in that A did not list (must be rejected), listed ones; on B: every
// client type incl. the names A overrode (must round-trip through the REAL decoder), and A's private name (rejected).
func c16WithDecoderCase(rnd interface {
	IntN(int) int
	Uint64() uint64
}) c16Case {
	builtins := []string{"gzip", "zstd", "zlib", "snappy", "deflate", "lz4"}
	over := builtins[rnd.IntN(len(builtins))]
	var custom []string
	switch rnd.IntN(3) {
	case 0:
		custom = []string{over}
	case 1:
		custom = []string{"x-xor"}
	default:
		custom = []string{"x-xor", over}
	}
	algos := []string{""}
	for _, b := range builtins {
		if rnd.IntN(3) == 0 {
			algos = append(algos, b)
		}
	}
	body := func() c16Body {
		n := 1 + rnd.IntN(600)
		if rnd.IntN(2) == 0 {
			return c16Body{kind: 't', n: n}
		}
		return c16Body{kind: 'r', n: n, seed: rnd.Uint64() % 1000003}
	}
	a := c16Case{algos: algos, max: 100000, ct: "none", custom: custom}
	if rnd.IntN(2) == 0 {
		// a pass-through decoder (sometimes shadowing a built-in name that is not otherwise registered) and a small limit
		name := "x-raw"
		if rnd.IntN(3) == 0 {
			name = builtins[rnd.IntN(len(builtins))]
			for _, cn := range custom {
				if cn == name {
					name = "x-raw"
				}
			}
		}
		a.passNil = []string{name}
		a.max = int64(200 + rnd.IntN(1500))
		for _, d := range []int{-1, 0, 1, 40 * (1 + rnd.IntN(50))} {
			n := int(a.max) + d
			a.reqs = append(a.reqs, c16Req{mode: "client", hdr: name, body: c16Body{kind: 'r', n: n, seed: rnd.Uint64() % 1000003}})
		}
	}
	for _, name := range custom {
		a.reqs = append(a.reqs, c16Req{mode: "pre", hdr: name, lib: "xor", body: body()})
	}
	for _, b := range builtins {
		if rnd.IntN(2) == 0 {
			lib := c16LibOf(b)
			isCustom := false
			for _, cn := range custom {
				isCustom = isCustom || cn == b
			}
			for _, cn := range a.passNil {
				isCustom = isCustom || cn == b
			}
			if isCustom {
				continue
			}
			a.reqs = append(a.reqs, c16Req{mode: "pre", hdr: b, lib: lib, lvl: c16PreLevel(rnd, lib), body: body()})
		}
	}
	a.reqs = append(a.reqs, c16Req{mode: "client", body: body()})
	// B: built afterwards; compresses with the overridden name (or a random type)
	ct := over
	if rnd.IntN(3) == 0 {
		ct = builtins[rnd.IntN(len(builtins))]
	}
	b := c16Case{algosNil: rnd.IntN(3) > 0, max: 100000, ct: ct, lvl: 0}
	if !b.algosNil {
		b.algos = []string{"", ct, over}
	}
	b.reqs = []c16Req{
		{mode: "client", body: body()},
		{mode: "pre", hdr: over, lib: c16LibOf(over), lvl: c16PreLevel(rnd, c16LibOf(over)), body: body()},
		{mode: "pre", hdr: "x-xor", lib: "xor", body: body()},
	}
	a.then = []c16Case{b}
	if rnd.IntN(3) == 0 {
		// and a third server that registers nothing but restricts its list
		c := c16Case{algos: []string{"", "gzip"}, max: 100000, ct: "gzip"}
		c.reqs = []c16Req{
			{mode: "client", body: body()},
			{mode: "pre", hdr: over, lib: c16LibOf(over), lvl: c16PreLevel(rnd, c16LibOf(over)), body: body()},
		}
		a.then = append(a.then, c)
	}
	return a
}

// ---- concurrency (monitor): handlers that close the body themselves, then overlapping requests ----

type c16Conc struct {
	k      int // overlapping requests per round
	closes int // how often each handler calls r.Body.Close() after reading
	rounds int
	ct     string
	lvl    int
	// client side: body readers of a round block at a barrier inside the client's compress step, and each round is preceded
	// by a request whose body source fails half-way
	clientBarrier bool
}

type c16BarrierReader struct {
	r    io.Reader
	wait func()
	done bool
}

func (b *c16BarrierReader) Read(p []byte) (int, error) {
	if !b.done {
		b.done = true
		b.wait()
	}
	return b.r.Read(p)
}

// c16FailingReader delivers half of its content, then an error
type c16FailingReader struct {
	r *bytes.Reader
}

func (f *c16FailingReader) Read(p []byte) (int, error) {
	if f.r.Len() <= int(f.r.Size())/2 {
		return 0, fmt.Errorf("c16: body source failed")
	}
	if len(p) > 512 {
		p = p[:512]
	}
	return f.r.Read(p)
}

type c16ConcGot struct {
	data []byte
	err  error
}

func c16ConcBody(c, round, i int, rnd interface{ IntN(int) int }) []byte {
	// self-describing: a tag, then pseudo-random bytes derived from the tag
	tag := fmt.Sprintf("C16-conc-%d-%d-%d|", c, round, i)
	n := 300 + rnd.IntN(60000)
	if rnd.IntN(3) == 0 {
		n = 200000 + rnd.IntN(100000) // several blocks
	}
	b := c16Body{kind: 'r', n: n, seed: uint64(c*1000003 + round*1009 + i)}.bytes()
	if rnd.IntN(2) == 0 {
		for j := range b { // compressible variant
			b[j] = 'a' + b[j]%7
		}
	}
	return append([]byte(tag), b...)
}

func c16ConcRun(t *testing.T, out *vOut, c int, cc c16Conc) {
	rnd := vRand(c)
	var mu sync.Mutex
	got := map[string]c16ConcGot{}
	var arrived int
	var gate chan struct{}
	base := http.HandlerFunc(func(w http.ResponseWriter, r *http.Request) {
		id := r.Header.Get("X-C16-Id")
		if r.Header.Get("X-C16-Barrier") != "" {
			// make the requests of a round overlap for certain: nobody reads before all decoders exist
			mu.Lock()
			arrived++
			if arrived == cc.k {
				close(gate)
			}
			g := gate
			mu.Unlock()
			select {
			case <-g:
			case <-time.After(3 * time.Second):
			}
		}
		data, err := io.ReadAll(r.Body)
		for i := 0; i < cc.closes; i++ {
			_ = r.Body.Close()
		}
		mu.Lock()
		got[id] = c16ConcGot{data, err}
		mu.Unlock()
		w.WriteHeader(http.StatusOK)
	})
	hss := &ServerConfig{Endpoint: "localhost:0"}
	srv, err := hss.ToServer(context.Background(), componenttest.NewNopHost(), componenttest.NewNopTelemetrySettings(), base)
	if err != nil {
		t.Fatalf("ToServer: %v", err)
	}
	ts := httptest.NewServer(srv.Handler)
	defer ts.Close()
	hcs := &ClientConfig{Endpoint: ts.URL, Compression: configcompression.Type(cc.ct), CompressionParams: newCompressionParams(configcompression.Level(cc.lvl))}
	client, err := hcs.ToClient(context.Background(), componenttest.NewNopHost(), componenttest.NewNopTelemetrySettings())
	if err != nil {
		t.Fatalf("ToClient: %v", err)
	}
	defer client.CloseIdleConnections()
	sent := map[string][]byte{}
	statuses := map[string]int{}
	// client-side overlap: the body readers of a round wait, at their first Read, until every request of the round is inside
	// the client's compress step (each then holds a pooled writer at the same time)
	var cArrived int
	var cGate chan struct{}
	var panics []string
	transportRetries := 0
	do := func(id string, body []byte, barrier bool) {
		var rd io.Reader = bytes.NewReader(body)
		if barrier && cc.clientBarrier {
			rd = &c16BarrierReader{r: bytes.NewReader(body), wait: func() {
				mu.Lock()
				cArrived++
				if cArrived == cc.k {
					close(cGate)
				}
				g := cGate
				mu.Unlock()
				select {
				case <-g:
				case <-time.After(3 * time.Second):
				}
			}}
		}
		defer func() {
			// a panic inside the client (e.g. a pooled writer used by two requests at once) must not take the harness down
			if p := recover(); p != nil {
				mu.Lock()
				statuses[id] = -2
				panics = append(panics, fmt.Sprintf("id=%s %v", id, p))
				mu.Unlock()
			}
		}()
		req, _ := http.NewRequest(http.MethodPost, ts.URL, rd)
		req.Header.Set("X-C16-Id", id)
		if barrier {
			req.Header.Set("X-C16-Barrier", "1")
		}
		resp, err := client.Do(req)
		for try := 1; err != nil && try <= 3; try++ {
			// no HTTP answer at all (connection-level failure on a loaded machine): if the handler has no record of this request it is
			// sent again (a plain reader: the barrier has been passed); a request the handler saw stays judged as it is
			mu.Lock()
			_, seenByHandler := got[id]
			mu.Unlock()
			if seenByHandler {
				break
			}
			mu.Lock()
			transportRetries++
			mu.Unlock()
			req2, _ := http.NewRequest(http.MethodPost, ts.URL, bytes.NewReader(body))
			req2.Header.Set("X-C16-Id", id)
			resp, err = client.Do(req2)
		}
		st := -1
		if err == nil {
			_, _ = io.Copy(io.Discard, resp.Body)
			resp.Body.Close()
			st = resp.StatusCode
		}
		mu.Lock()
		statuses[id] = st
		mu.Unlock()
	}
	total := 0
	for round := 0; round < cc.rounds; round++ {
		// phase 1: one or two sequential requests whose handler closes the body (before the middleware does)
		for i := 0; i < 1+round%2; i++ {
			id := fmt.Sprintf("r%d-pre%d", round, i)
			sent[id] = c16ConcBody(c, round, 100+i, rnd)
			do(id, sent[id], false)
			total++
		}
		if cc.clientBarrier {
			// a request whose body fails half-way: the client gives up, its pooled writer goes back dirty
			req, _ := http.NewRequest(http.MethodPost, ts.URL, &c16FailingReader{r: bytes.NewReader(c16ConcBody(c, round, 200, rnd))})
			req.Header.Set("X-C16-Id", fmt.Sprintf("r%d-failing", round))
			func() {
				defer func() {
					if p := recover(); p != nil {
						panics = append(panics, fmt.Sprintf("id=failing %v", p))
					}
				}()
				if resp, err := client.Do(req); err == nil {
					_, _ = io.Copy(io.Discard, resp.Body)
					resp.Body.Close()
				}
			}()
		}
		// phase 2: k requests overlapping in time
		mu.Lock()
		arrived, gate = 0, make(chan struct{})
		cArrived, cGate = 0, make(chan struct{})
		mu.Unlock()
		var wg sync.WaitGroup
		for i := 0; i < cc.k; i++ {
			id := fmt.Sprintf("r%d-c%d", round, i)
			sent[id] = c16ConcBody(c, round, i, rnd)
			total++
			wg.Add(1)
			go func(id string, body []byte) {
				defer wg.Done()
				do(id, body, true)
			}(id, sent[id])
		}
		wg.Wait()
	}
	out.Linef("op conc k=%d closes=%d rounds=%d ct=%s lvl=%d total=%d", cc.k, cc.closes, cc.rounds, vHex(cc.ct), cc.lvl, total)
	for _, p := range panics {
		out.Linef("viol sig=C16/concurrency/client-panicked-while-sending ct=%s k=%d clientBarrier=%v %s", cc.ct, cc.k, cc.clientBarrier, strings.ReplaceAll(p, "\n", " "))
	}
	exact := 0
	var ids []string
	for id := range sent {
		ids = append(ids, id)
	}
	sort.Strings(ids)
	for _, id := range ids {
		g, ok := got[id]
		switch {
		case ok && g.err == nil && bytes.Equal(g.data, sent[id]) && statuses[id] == 200:
			exact++
		default:
			// classify: did this handler see (part of) another request's body?
			foreign := ""
			for _, other := range ids {
				if other != id && len(g.data) > 0 && bytes.Contains(g.data, []byte(fmt.Sprintf("C16-conc-%d-", c))) &&
					bytes.Contains(g.data, sent[other][:bytes.IndexByte(sent[other], '|')+1]) {
					foreign = other
					break
				}
			}
			sig := "C16/concurrency/handler-read-damaged-body"
			if foreign != "" {
				sig = "C16/concurrency/handler-read-another-requests-body"
			}
			out.Linef("viol sig=%s ct=%s k=%d closes=%d id=%s foreign=%s ran=%v readerr=%v got=%d want=%d status=%d", sig, cc.ct, cc.k, cc.closes, id, foreign, ok, g.err != nil, len(g.data), len(sent[id]), statuses[id])
		}
	}
	out.Linef("obs conc total=%d exact=%d", total, exact)
	out.Linef("stat conc_transport_retry %d", transportRetries)
	out.Linef("stat conc_cases 1")
	if cc.clientBarrier {
		out.Linef("stat conc_client_barrier 1")
	}
	out.Linef("stat conc_requests %d", total)
	out.Linef("stat conc_ct_%s 1", strings.ReplaceAll(cc.ct, "-", "_"))
}

func c16ConcGen(rnd interface{ IntN(int) int }) c16Case {
	ct := []string{"gzip", "gzip", "zstd", "zlib", "deflate", "snappy", "lz4", "none"}[rnd.IntN(8)]
	lvl := c16ClientLevel(rnd, ct)
	if !c16LevelValid(ct, lvl) {
		lvl = 0 // concurrency cases only use configurations the collector would start with
	}
	return c16Case{conc: &c16Conc{k: 4 + rnd.IntN(13), closes: rnd.IntN(3), rounds: 1 + rnd.IntN(3), ct: ct, lvl: lvl, clientBarrier: rnd.IntN(2) == 0}}
}

// TestVerifC16Conc: concurrency cases only (run under -race in the thorough tier)
func TestVerifC16Conc(t *testing.T) {
	out := vOpen(t)
	defer out.Close()
	out.Linef("model c16 1")
	for _, c := range vCases(vN(40)) {
		c16Run(t, out, c, c16ConcGen(vRand(c)))
		out.Flush()
	}
}

func TestVerifC16(t *testing.T) {
	out := vOpen(t)
	defer out.Close()
	out.Linef("model c16 1")
	corpus := c16Corpus()
	if vThorough() {
		corpus = append(corpus, c16Exhaustive()...)
	}
	poolCorpus := c16PoolCorpus()
	n := vN(600)
	for _, c := range vCases(n) {
		rnd := vRand(c)
		var cs c16Case
		// pool histories (pool_test.go): their corpus sits right after the main corpus; 1 random case in 12
		if c >= len(corpus) && (c < len(corpus)+len(poolCorpus) || rnd.IntN(12) == 0) {
			pc := c16PoolGen(rnd)
			if c < len(corpus)+len(poolCorpus) {
				pc = poolCorpus[c-len(corpus)]
			}
			out.Linef("case %d", c)
			c16PoolRun(out, pc)
			out.Linef("nt")
			out.Linef("end")
			out.Flush()
			continue
		}
		if c < len(corpus) {
			cs = corpus[c]
		} else {
			if k := rnd.IntN(24); k < 3 {
				cs = c16WithDecoderCase(rnd)
			} else if k == 3 {
				cs = c16ConcGen(rnd)
			} else {
				cs = c16Gen(c, rnd, vThorough())
			}
		}
		c16Run(t, out, c, cs)
		out.Flush()
	}
}
