//go:build verif

package confighttp

// POOL cases (`op pcompress`): sequential histories over the REAL process-wide writer pools (`compressorPools`, `newCompressor`,
// `compressor.compress`, `compressRoundTripper.RoundTrip` over a recording inner transport). Several keys (type x level, two
// levels of the same type, equal keys twice), bodies that fail at offset 0 / half-way / at the last byte, bodies whose Close fails,
// nil bodies, http.NoBody, empty and > 64 KiB bodies; every step's output is compared (length + FNV-1a) with what a FRESH writer
// built by the key's own constructor (`newWriteCloserResetFunc`) produces for the same body = the `enc key body` of the pool model
// (Model/C16Pool.lean), and decoded with the library (direct oracle). The pools are process-wide, so the writers these steps get
// have been used (and left dirty) by every earlier case of the run.

import (
	"bytes"
	"compress/gzip"
	"compress/zlib"
	"errors"
	"fmt"
	"io"
	"net/http"

	"github.com/golang/snappy"
	"github.com/klauspost/compress/zstd"
	"github.com/pierrec/lz4/v4"

	"go.opentelemetry.io/collector/config/configcompression"
)

type c16PoolStep struct {
	typ        string
	lvl        int
	body       []byte
	nilBody    bool // Body == nil
	noBody     bool // http.NoBody (via the round-tripper only)
	failAt     int  // -1: the body source does not fail
	closeFails bool
	viaRT      bool // through compressRoundTripper.RoundTrip instead of compressor.compress directly
}

type c16PoolCase struct{ steps []c16PoolStep }

// c16CutReader: k bytes, then an error
type c16CutReader struct {
	b       []byte
	k, off  int
	closeEr bool
}

func (c *c16CutReader) Read(p []byte) (int, error) {
	lim := len(c.b)
	if c.k >= 0 && c.k < lim {
		lim = c.k
	}
	if c.off >= lim {
		if c.k >= 0 {
			return 0, errors.New("c16: body source failed")
		}
		return 0, io.EOF
	}
	n := copy(p, c.b[c.off:lim])
	if n > 700 {
		n = 700 // several writes per body
	}
	c.off += n
	return n, nil
}

func (c *c16CutReader) Close() error {
	if c.closeEr {
		return errors.New("c16: body close failed")
	}
	return nil
}

func c16PoolBody(kind, n int) []byte {
	b := make([]byte, n)
	switch kind % 3 {
	case 0:
		for i := range b {
			b[i] = byte("pooled writer state must not leak "[i%34])
		}
	case 1:
		x := uint32(2463534242 + uint32(n))
		for i := range b {
			x ^= x << 13
			x ^= x >> 17
			x ^= x << 5
			b[i] = byte(x)
		}
	}
	return b
}

var c16PoolKeys = [][2]any{{"gzip", 1}, {"gzip", 9}, {"gzip", -1}, {"zlib", 1}, {"zlib", 9}, {"deflate", -1}, {"deflate", 1}, {"zstd", 1}, {"zstd", 11}, {"zstd", -1},
	{"snappy", 0}, {"snappy", -1}, {"lz4", 0}, {"lz4", -1}}

func c16PoolCorpus() []c16PoolCase {
	var cs []c16PoolCase
	// per type: a failing use (half-way), then clean uses of the same key and of the OTHER level of the same type
	for _, tt := range [][3]any{{"gzip", 1, 9}, {"zlib", 9, 1}, {"deflate", -1, 1}, {"zstd", 1, 11}, {"snappy", 0, -1}, {"lz4", 0, -1}} {
		t, a, b := tt[0].(string), tt[1].(int), tt[2].(int)
		big := c16PoolBody(0, 70000)
		cs = append(cs, c16PoolCase{steps: []c16PoolStep{
			{typ: t, lvl: a, body: big, failAt: 35000},
			{typ: t, lvl: a, body: c16PoolBody(0, 900), failAt: -1},
			{typ: t, lvl: b, body: c16PoolBody(1, 3000), failAt: -1},
			{typ: t, lvl: a, body: c16PoolBody(1, 3000), failAt: 0},
			{typ: t, lvl: a, nilBody: true, failAt: -1},
			{typ: t, lvl: a, body: c16PoolBody(0, 1200), failAt: 1199},
			{typ: t, lvl: a, body: []byte{}, failAt: -1},
			{typ: t, lvl: a, body: c16PoolBody(0, 500), failAt: -1, closeFails: true},
			{typ: t, lvl: a, body: big, failAt: -1},
			{typ: t, lvl: a, nilBody: true, failAt: -1, viaRT: true},
			{typ: t, lvl: a, noBody: true, failAt: -1, viaRT: true},
			{typ: t, lvl: b, body: c16PoolBody(1, 66000), failAt: -1, viaRT: true},
		}})
	}
	return cs
}

func c16PoolGen(rnd interface{ IntN(int) int }) c16PoolCase {
	var c c16PoolCase
	k1 := c16PoolKeys[rnd.IntN(len(c16PoolKeys))]
	k2 := c16PoolKeys[rnd.IntN(len(c16PoolKeys))]
	for i, n := 0, 3+rnd.IntN(8); i < n; i++ {
		k := k1
		if rnd.IntN(3) == 0 {
			k = k2
		}
		st := c16PoolStep{typ: k[0].(string), lvl: k[1].(int), failAt: -1, viaRT: rnd.IntN(4) == 0}
		sz := []int{0, 1, 100, 4096, 65536, 65537, 100000}[rnd.IntN(7)]
		switch rnd.IntN(8) {
		case 0:
			st.nilBody = true
		case 1:
			if st.viaRT {
				st.noBody = true
			} else {
				st.body = []byte{}
			}
		default:
			st.body = c16PoolBody(rnd.IntN(3), sz)
			switch rnd.IntN(6) {
			case 0:
				st.failAt = 0
			case 1:
				st.failAt = sz / 2
			case 2:
				if sz > 0 {
					st.failAt = sz - 1
				}
			case 3:
				st.closeFails = true
			}
		}
		c.steps = append(c.steps, st)
	}
	return c
}

// c16FreshEnc: what a writer freshly built by the key's own constructor produces = `enc key body` of the model
func c16FreshEnc(typ string, lvl int, body []byte) []byte {
	f, err := newWriteCloserResetFunc(configcompression.Type(typ), newCompressionParams(configcompression.Level(lvl)))
	if err != nil {
		return nil
	}
	w := f()
	var buf bytes.Buffer
	w.Reset(&buf)
	_, _ = w.Write(body)
	_ = w.Close()
	return buf.Bytes()
}

func c16PoolDecode(lib string, wire []byte) ([]byte, error) {
	var rd io.Reader
	var err error
	src := bytes.NewReader(wire)
	switch lib {
	case "gzip":
		rd, err = gzip.NewReader(src)
	case "zlib":
		rd, err = zlib.NewReader(src)
	case "zstd":
		var zr *zstd.Decoder
		zr, err = zstd.NewReader(src, zstd.WithDecoderConcurrency(1))
		if err == nil {
			defer zr.Close()
			rd = zr
		}
	case "snappy":
		rd = snappy.NewReader(src)
	case "lz4":
		rd = lz4.NewReader(src)
	default:
		return nil, errors.New("unknown library")
	}
	if err != nil {
		return nil, err
	}
	return io.ReadAll(rd)
}

type c16PoolRT struct {
	body []byte
	ce   string
	n    int
}

func (r *c16PoolRT) RoundTrip(req *http.Request) (*http.Response, error) {
	r.n++
	r.ce = req.Header.Get("Content-Encoding")
	if req.Body != nil {
		r.body, _ = io.ReadAll(req.Body)
	}
	return &http.Response{StatusCode: 200, Body: http.NoBody, Header: http.Header{}}, nil
}

func c16PoolRun(out *vOut, pc c16PoolCase) {
	for _, st := range pc.steps {
		body := st.body
		if st.nilBody || st.noBody {
			body = nil
		}
		want := c16FreshEnc(st.typ, st.lvl, body)
		nilTok := 0
		if st.nilBody {
			nilTok = 1
		}
		out.Linef("op pcompress typ=%s lvl=%d n=%d h=%d nil=%d fail=%d cf=%d rt=%d want=%d:%d", st.typ, st.lvl, len(body), c16Hash(body), nilTok,
			st.failAt, vB(st.closeFails), vB(st.viaRT), len(want), c16Hash(want))
		out.Linef("stat pool_steps 1")
		out.Linef("stat pool_type_%s 1", st.typ)
		params := newCompressionParams(configcompression.Level(st.lvl))
		var rc io.ReadCloser
		switch {
		case st.nilBody:
			rc = nil
			out.Linef("stat pool_nil_body 1")
		case st.noBody:
			rc = http.NoBody
		default:
			rc = &c16CutReader{b: body, k: st.failAt, closeEr: st.closeFails}
		}
		if st.failAt >= 0 || st.closeFails {
			out.Linef("stat pool_failing_body 1")
		}
		var got []byte
		var err error
		ce := st.typ
		func() {
			defer func() {
				if p := recover(); p != nil {
					err = fmt.Errorf("panic: %v", p)
					out.Linef("viol sig=C16/client/pooled-compress-panicked/%s lvl=%d %v", st.typ, st.lvl, p)
				}
			}()
			if st.viaRT {
				inner := &c16PoolRT{}
				crt, cerr := newCompressRoundTripper(inner, configcompression.Type(st.typ), params)
				if cerr != nil {
					err = cerr
					return
				}
				req, _ := http.NewRequest(http.MethodPost, "http://c16.invalid/x", nil)
				if rc != nil {
					req.Body = rc
				}
				_, err = crt.RoundTrip(req)
				got, ce = inner.body, inner.ce
				if err == nil && inner.n != 1 {
					err = fmt.Errorf("inner transport called %d times", inner.n)
				}
			} else {
				c, cerr := newCompressor(configcompression.Type(st.typ), params)
				if cerr != nil {
					err = cerr
					return
				}
				c2, _ := newCompressor(configcompression.Type(st.typ), params)
				if c2 != c {
					out.Linef("viol sig=C16/client/equal-keys-got-different-compressors/%s lvl=%d", st.typ, st.lvl)
				}
				var buf bytes.Buffer
				err = c.compress(&buf, rc)
				got = buf.Bytes()
			}
		}()
		if err != nil {
			out.Linef("obs pcompress err=1")
			continue
		}
		dec, derr := c16PoolDecode(c16LibOf(st.typ), got)
		shown := got
		if st.typ == "lz4" && derr == nil && bytes.Equal(dec, body) {
			// pierrec/lz4: a re-used (Reset) writer may frame the same input differently from a new one (e.g. 19 instead of 15 bytes
			// for an empty body); both are valid frames of the same content. For lz4 the output is therefore compared MODULO decoding.
			if !bytes.Equal(got, want) {
				out.Linef("stat pool_lz4_framing_differs_from_fresh_writer 1")
			}
			shown = want
		}
		out.Linef("obs pcompress err=0 ce=%s out=%d:%d", ce, len(shown), c16Hash(shown))
		if derr != nil || !bytes.Equal(dec, body) {
			out.Linef("viol sig=C16/client/pooled-writer-output-does-not-decode-to-its-body/%s lvl=%d body=%d decoded=%d err=%v", st.typ, st.lvl, len(body), len(dec), derr)
		}
	}
}
