//go:build verif

package batchprocessor

import (
	"context"
	"fmt"
	"runtime"
	"strings"
	"sync"
	"testing"
	"time"

	"go.opentelemetry.io/collector/client"
	"go.opentelemetry.io/collector/component/componenttest"
	"go.opentelemetry.io/collector/consumer"
	"go.opentelemetry.io/collector/pdata/pcommon"
	"go.opentelemetry.io/collector/pdata/plog"
	"go.opentelemetry.io/collector/pdata/pmetric"
	"go.opentelemetry.io/collector/pdata/ptrace"
	"go.opentelemetry.io/collector/processor/batchprocessor/internal/metadata"
	"go.opentelemetry.io/collector/processor/processortest"
)

// vcSink records the group (export-context metadata) and the record ids of every batch, from any goroutine.
type vcSink struct {
	mu    sync.Mutex
	lines []string
}

func (s *vcSink) Capabilities() consumer.Capabilities { return consumer.Capabilities{} }

// record: one line per batch; every item is printed as timestamp*100 + the int attribute "k" of ITS resource, so an item that
// reaches the sink under another resource (or without it) is a different token. The export context must carry nothing but the
// group's values (no Auth, no Addr, no other metadata key).
func (s *vcSink) record(ctx context.Context, toks []string) {
	info := client.FromContext(ctx)
	vs := info.Metadata.Get("tenant")
	key := "-"
	if len(vs) > 0 {
		key = strings.Join(vs, ".")
		if key == "" {
			key = "<empty>" // the empty value is a group of its own, different from an absent header
		}
	}
	foreign := info.Auth != nil || info.Addr != nil
	for k := range info.Metadata.Keys() {
		if !strings.EqualFold(k, "tenant") {
			foreign = true
		}
	}
	s.mu.Lock()
	defer s.mu.Unlock()
	s.lines = append(s.lines, fmt.Sprintf("tr emit k=%s ids=%s", key, strings.Join(toks, ",")))
	if foreign {
		s.lines = append(s.lines, "viol sig=C17/proc/export-context-carries-foreign-client-info (concurrent producers)")
	}
}

func vTok(ts pcommon.Timestamp, attrs pcommon.Map) string {
	k := 0
	if v, ok := attrs.Get("k"); ok {
		k = int(v.Int())
	}
	return fmt.Sprint(int(ts)*100 + k)
}

func (s *vcSink) ConsumeLogs(ctx context.Context, ld plog.Logs) error {
	var ids []string
	for i := 0; i < ld.ResourceLogs().Len(); i++ {
		rl := ld.ResourceLogs().At(i)
		for j := 0; j < rl.ScopeLogs().Len(); j++ {
			sl := rl.ScopeLogs().At(j)
			for k := 0; k < sl.LogRecords().Len(); k++ {
				ids = append(ids, vTok(sl.LogRecords().At(k).Timestamp(), rl.Resource().Attributes()))
			}
		}
	}
	s.record(ctx, ids)
	return nil
}

func (s *vcSink) ConsumeTraces(ctx context.Context, td ptrace.Traces) error {
	var ids []string
	for i := 0; i < td.ResourceSpans().Len(); i++ {
		rs := td.ResourceSpans().At(i)
		for j := 0; j < rs.ScopeSpans().Len(); j++ {
			ss := rs.ScopeSpans().At(j)
			for k := 0; k < ss.Spans().Len(); k++ {
				ids = append(ids, vTok(ss.Spans().At(k).StartTimestamp(), rs.Resource().Attributes()))
			}
		}
	}
	s.record(ctx, ids)
	return nil
}

func (s *vcSink) ConsumeMetrics(ctx context.Context, md pmetric.Metrics) error {
	var ids []string
	for i := 0; i < md.ResourceMetrics().Len(); i++ {
		rm := md.ResourceMetrics().At(i)
		for j := 0; j < rm.ScopeMetrics().Len(); j++ {
			sm := rm.ScopeMetrics().At(j)
			for k := 0; k < sm.Metrics().Len(); k++ {
				dps := sm.Metrics().At(k).Gauge().DataPoints()
				for p := 0; p < dps.Len(); p++ {
					ids = append(ids, vTok(dps.At(p).Timestamp(), rm.Resource().Attributes()))
				}
			}
		}
	}
	s.record(ctx, ids)
	return nil
}

// TestVerifC17Cardinality: native goroutines (GOMAXPROCS >= 4), 8-16 producers released at once through a barrier, their
// FIRST requests carrying more distinct unseen metadata values than metadata_cardinality_limit allows, with 0..limit-1
// groups created beforehand. Monitor only: the recorded accept / refuse / emit log is judged by the Lean monitor
// (never more than `limit` groups accepted; a refusal only once the limit is reached; accepted records emitted exactly
// once, under their own group) and by a direct oracle here.
func TestVerifC17Cardinality(t *testing.T) {
	out := vOpen(t)
	defer out.Close()
	out.Linef("model c17-card 1")
	if runtime.GOMAXPROCS(0) < 4 {
		defer runtime.GOMAXPROCS(runtime.GOMAXPROCS(4))
	}
	n := vN(2000)
	for _, c := range vCases(n) {
		rnd := vRand(c)
		limit := 1 + rnd.IntN(3)
		producers := 8 + rnd.IntN(9)
		pre := rnd.IntN(limit) // groups that exist before the burst: 0 .. limit-1 ("just below the limit")
		distinct := limit - pre + 1 + rnd.IntN(producers-(limit-pre))
		cfg := &Config{MetadataKeys: []string{"Tenant"}, MetadataCardinalityLimit: uint32(limit)}
		if rnd.IntN(2) == 0 {
			cfg.SendBatchSize, cfg.Timeout = 1000, 10*time.Second // everything leaves at shutdown
		}
		sink := &vcSink{}
		p, err := newLogsBatchProcessor(processortest.NewNopSettings(metadata.Type), sink, cfg)
		if err != nil {
			t.Fatal(err)
		}
		if err := p.Start(context.Background(), componenttest.NewNopHost()); err != nil {
			t.Fatal(err)
		}
		out.Linef("case %d", c)
		out.Linef("op trial limit=%d producers=%d pre=%d distinct=%d", limit, producers, pre, distinct)
		send := func(val, id int) error {
			ld := plog.NewLogs()
			ld.ResourceLogs().AppendEmpty().ScopeLogs().AppendEmpty().LogRecords().AppendEmpty().SetTimestamp(pcommon.Timestamp(id))
			name := []string{"tenant", "Tenant", "TENANT"}[id%3]
			ctx := client.NewContext(context.Background(), client.Info{Metadata: client.NewMetadata(map[string][]string{name: {fmt.Sprintf("v%d", val)}})})
			return p.ConsumeLogs(ctx, ld)
		}
		id := 0
		groups := map[int]bool{}
		var log []string
		rec := func(val, id int, err error) {
			if err == nil {
				groups[val] = true
				log = append(log, fmt.Sprintf("tr accept k=v%d id=%d", val, id*100))
			} else {
				log = append(log, fmt.Sprintf("tr refuse k=v%d id=%d", val, id*100))
			}
		}
		for g := 0; g < pre; g++ {
			id++
			rec(1000+g, id, send(1000+g, id))
		}
		start := make(chan struct{})
		var wg sync.WaitGroup
		errs := make([]error, producers)
		vals := make([]int, producers)
		ids := make([]int, producers)
		for i := 0; i < producers; i++ {
			id++
			vals[i], ids[i] = 1+i%distinct, id
			wg.Add(1)
			go func(i int) {
				defer wg.Done()
				<-start
				errs[i] = send(vals[i], ids[i])
			}(i)
		}
		close(start)
		wg.Wait()
		for i := 0; i < producers; i++ {
			rec(vals[i], ids[i], errs[i])
		}
		if err := p.Shutdown(context.Background()); err != nil {
			t.Fatal(err)
		}
		for _, l := range log {
			out.Linef("%s", l)
		}
		sink.mu.Lock()
		for _, l := range sink.lines {
			out.Linef("%s", l)
		}
		sink.mu.Unlock()
		if len(groups) > limit {
			out.Linef("viol sig=C17/proc/accepted-beyond-cardinality-limit groups=%d limit=%d producers=%d (concurrent first arrivals)", len(groups), limit, producers)
		}
		out.Linef("nt")
		out.Linef("stat groups_accepted_%d_of_limit_%d 1", len(groups), limit)
		out.Linef("end")
		out.Flush()
	}
}
