//go:build verif

package batchprocessor

import (
	"context"
	"fmt"
	"net"
	"runtime"
	"sync"
	"testing"
	"time"

	"go.opentelemetry.io/collector/client"
	"go.opentelemetry.io/collector/component/componenttest"
	"go.opentelemetry.io/collector/pdata/pcommon"
	"go.opentelemetry.io/collector/consumer"
	"go.opentelemetry.io/collector/pdata/plog"
	"go.opentelemetry.io/collector/pdata/pmetric"
	"go.opentelemetry.io/collector/pdata/ptrace"
	"go.opentelemetry.io/collector/processor/batchprocessor/internal/metadata"
	"go.opentelemetry.io/collector/processor/processortest"
)

// TestVerifC17Concurrent: several native producers (GOMAXPROCS >= 4) send several requests each, concurrently, with
// client metadata from a small set of groups (absent / empty / single / multi values: absent and empty must stay different
// groups), real timers (1-3 ms), size and max triggers, then Shutdown. Monitor only: the accept / emit log is judged by the
// Lean monitor `c17-card` (accepted records emitted exactly once, under their own group, no batch above
// send_batch_max_size) - the interleavings are the scheduler's.
func TestVerifC17Concurrent(t *testing.T) {
	out := vOpen(t)
	defer out.Close()
	out.Linef("model c17-card 1")
	if runtime.GOMAXPROCS(0) < 4 {
		defer runtime.GOMAXPROCS(runtime.GOMAXPROCS(4))
	}
	n := vN(500)
	groups := []struct {
		name string
		vals []string
		set  bool
	}{{"-", nil, false}, {"0", []string{""}, true}, {"v1", []string{"v1"}, true}, {"v2", []string{"v2"}, true}, {"v1.v2", []string{"v1", "v2"}, true}}
	for _, c := range vCases(n) {
		rnd := vRand(c)
		cfg := &Config{MetadataKeys: []string{"Tenant"}}
		cfg.SendBatchSize = []uint32{0, 1, 3, 8}[rnd.IntN(4)]
		if rnd.IntN(2) == 0 {
			cfg.SendBatchMaxSize = cfg.SendBatchSize + uint32(rnd.IntN(3))
		}
		cfg.Timeout = time.Duration([]int{0, 1, 3}[rnd.IntN(3)]) * time.Millisecond
		if c%4 == 3 {
			cfg.MetadataKeys = nil // single shard
		}
		if err := cfg.Validate(); err != nil {
			t.Fatal(err)
		}
		sink := &vcSink{}
		kind := []string{"logs", "traces", "metrics"}[c%3]
		set := processortest.NewNopSettings(metadata.Type)
		var send func(ctx context.Context, ids []int, res int) error
		var shutdown func(context.Context) error
		switch kind {
		case "logs":
			p, err := newLogsBatchProcessor(set, sink, cfg)
			if err != nil {
				t.Fatal(err)
			}
			if err := p.Start(context.Background(), componenttest.NewNopHost()); err != nil {
				t.Fatal(err)
			}
			shutdown = p.Shutdown
			send = func(ctx context.Context, ids []int, res int) error {
				ld := plog.NewLogs()
				rl := ld.ResourceLogs().AppendEmpty()
				rl.Resource().Attributes().PutInt("k", int64(res))
				sl := rl.ScopeLogs().AppendEmpty()
				for _, id := range ids {
					sl.LogRecords().AppendEmpty().SetTimestamp(pcommon.Timestamp(id))
				}
				return p.ConsumeLogs(ctx, ld)
			}
		case "traces":
			p, err := newTracesBatchProcessor(set, sink, cfg)
			if err != nil {
				t.Fatal(err)
			}
			if err := p.Start(context.Background(), componenttest.NewNopHost()); err != nil {
				t.Fatal(err)
			}
			shutdown = p.Shutdown
			send = func(ctx context.Context, ids []int, res int) error {
				td := ptrace.NewTraces()
				rs := td.ResourceSpans().AppendEmpty()
				rs.Resource().Attributes().PutInt("k", int64(res))
				ss := rs.ScopeSpans().AppendEmpty()
				for _, id := range ids {
					ss.Spans().AppendEmpty().SetStartTimestamp(pcommon.Timestamp(id))
				}
				return p.ConsumeTraces(ctx, td)
			}
		default:
			p, err := newMetricsBatchProcessor(set, sink, cfg)
			if err != nil {
				t.Fatal(err)
			}
			if err := p.Start(context.Background(), componenttest.NewNopHost()); err != nil {
				t.Fatal(err)
			}
			shutdown = p.Shutdown
			send = func(ctx context.Context, ids []int, res int) error {
				md := pmetric.NewMetrics()
				rm := md.ResourceMetrics().AppendEmpty()
				rm.Resource().Attributes().PutInt("k", int64(res))
				dps := rm.ScopeMetrics().AppendEmpty().Metrics().AppendEmpty().SetEmptyGauge().DataPoints()
				for _, id := range ids {
					dps.AppendEmpty().SetTimestamp(pcommon.Timestamp(id))
				}
				return p.ConsumeMetrics(ctx, md)
			}
		}
		producers := 2 + rnd.IntN(5)
		perProducer := 1 + rnd.IntN(6)
		out.Linef("case %d", c)
		out.Linef("op trial limit=0 max=%d producers=%d requests=%d sbs=%d timeout_ms=%d keys=%d kind=%s", cfg.SendBatchMaxSize, producers,
			perProducer, cfg.SendBatchSize, cfg.Timeout.Milliseconds(), len(cfg.MetadataKeys), kind)
		type sent struct {
			key string
			ids []int
			err error
		}
		logs := make([][]sent, producers)
		plan := make([][]int, producers) // group index per request
		sizes := make([][]int, producers)
		next := 1
		base := make([][]int, producers)
		for i := 0; i < producers; i++ {
			for r := 0; r < perProducer; r++ {
				plan[i] = append(plan[i], rnd.IntN(len(groups)))
				k := rnd.IntN(5)
				sizes[i] = append(sizes[i], k)
				base[i] = append(base[i], next)
				next += k
			}
		}
		var wg sync.WaitGroup
		start := make(chan struct{})
		for i := 0; i < producers; i++ {
			wg.Add(1)
			go func(i int) {
				defer wg.Done()
				<-start
				for r := 0; r < perProducer; r++ {
					g := groups[plan[i][r]]
					res := 1 + (i*perProducer+r)%99 // resource identity of this request, part of every item's token
					var ids []int
					for k := 0; k < sizes[i][r]; k++ {
						ids = append(ids, base[i][r]+k)
					}
					md := map[string][]string{}
					if g.set {
						md[[]string{"tenant", "Tenant", "TENANT"}[(i+r)%3]] = g.vals
					}
					// what else a caller's client.Info carries must not reach any export context
					info := client.Info{}
					if (i+r)%2 == 0 {
						md["x-other"] = []string{fmt.Sprintf("o%d", i)}
						info.Auth = vcAuth{}
					}
					if (i+r)%3 == 0 {
						info.Addr = &net.IPAddr{IP: net.IPv4(10, 0, byte(i), byte(r))}
					}
					info.Metadata = client.NewMetadata(md)
					ctx := client.NewContext(context.Background(), info)
					err := send(ctx, ids, res)
					for k := range ids {
						ids[k] = ids[k]*100 + res
					}
					key := g.name
					if len(cfg.MetadataKeys) == 0 {
						key = "-"
					} else if key == "0" {
						key = "" // the sink prints the joined values: [""] -> ""
					}
					logs[i] = append(logs[i], sent{key, ids, err})
					if r%2 == 1 {
						time.Sleep(time.Duration(200+100*i) * time.Microsecond)
					}
				}
			}(i)
		}
		close(start)
		wg.Wait()
		if err := shutdown(context.Background()); err != nil {
			t.Fatal(err)
		}
		for i := range logs {
			for _, s := range logs[i] {
				for _, id := range s.ids {
					if s.err == nil {
						out.Linef("tr accept k=%s id=%d", vKeyTok(s.key), id)
					} else {
						out.Linef("tr refuse k=%s id=%d", vKeyTok(s.key), id)
					}
				}
			}
		}
		sink.mu.Lock()
		for _, l := range sink.lines {
			out.Linef("%s", l)
		}
		sink.mu.Unlock()
		out.Linef("nt")
		out.Linef("end")
		out.Flush()
	}
}

type vcAuth struct{}

func (vcAuth) GetAttribute(string) any     { return "caller" }
func (vcAuth) GetAttributeNames() []string { return []string{"who"} }

var _ consumer.Logs = (*vcSink)(nil)

// vKeyTok: group token as the sink prints it (values joined by "."; no value = "-"; the empty value = an empty token is
// not printable in the line protocol, so it is spelled "<empty>")
func vKeyTok(k string) string {
	if k == "" {
		return "<empty>"
	}
	return fmt.Sprint(k)
}
