//go:build verif

package batchprocessor

import (
	"context"
	"fmt"
	"runtime"
	"sync"
	"testing"
	"time"

	"go.opentelemetry.io/collector/client"
	"go.opentelemetry.io/collector/component/componenttest"
	"go.opentelemetry.io/collector/pdata/pcommon"
	"go.opentelemetry.io/collector/pdata/plog"
	"go.opentelemetry.io/collector/processor/batchprocessor/internal/metadata"
	"go.opentelemetry.io/collector/processor/processortest"
)

// TestVerifC17Concurrent: several native producers (GOMAXPROCS >= 4) send several requests each, concurrently, with
// client metadata from a small set of groups (absent / empty / single / multi values: absent and empty must stay different
// groups), real timers (1-3 ms), size and max triggers, then Shutdown. Monitor only: the accept / emit log is judged by the
// Lean monitor `c17-card` (accepted records emitted exactly once, under their own group, no batch above
// send_batch_max_size) - the interleavings are the scheduler's.
func TestVerifC17Concurrent(t *testing.T) {
	out := vOpen(t)
	defer out.Close()
	out.Linef("model c17-card 1")
	if runtime.GOMAXPROCS(0) < 4 {
		defer runtime.GOMAXPROCS(runtime.GOMAXPROCS(4))
	}
	n := vN(500)
	groups := []struct {
		name string
		vals []string
		set  bool
	}{{"-", nil, false}, {"0", []string{""}, true}, {"v1", []string{"v1"}, true}, {"v2", []string{"v2"}, true}, {"v1.v2", []string{"v1", "v2"}, true}}
	for _, c := range vCases(n) {
		rnd := vRand(c)
		cfg := &Config{MetadataKeys: []string{"Tenant"}}
		cfg.SendBatchSize = []uint32{0, 1, 3, 8}[rnd.IntN(4)]
		if rnd.IntN(2) == 0 {
			cfg.SendBatchMaxSize = cfg.SendBatchSize + uint32(rnd.IntN(3))
		}
		cfg.Timeout = time.Duration([]int{0, 1, 3}[rnd.IntN(3)]) * time.Millisecond
		if c%4 == 3 {
			cfg.MetadataKeys = nil // single shard
		}
		if err := cfg.Validate(); err != nil {
			t.Fatal(err)
		}
		sink := &vcSink{}
		p, err := newLogsBatchProcessor(processortest.NewNopSettings(metadata.Type), sink, cfg)
		if err != nil {
			t.Fatal(err)
		}
		if err := p.Start(context.Background(), componenttest.NewNopHost()); err != nil {
			t.Fatal(err)
		}
		producers := 2 + rnd.IntN(5)
		perProducer := 1 + rnd.IntN(6)
		out.Linef("case %d", c)
		out.Linef("op trial limit=0 max=%d producers=%d requests=%d sbs=%d timeout_ms=%d keys=%d", cfg.SendBatchMaxSize, producers,
			perProducer, cfg.SendBatchSize, cfg.Timeout.Milliseconds(), len(cfg.MetadataKeys))
		type sent struct {
			key string
			ids []int
			err error
		}
		logs := make([][]sent, producers)
		plan := make([][]int, producers) // group index per request
		sizes := make([][]int, producers)
		next := 1
		base := make([][]int, producers)
		for i := 0; i < producers; i++ {
			for r := 0; r < perProducer; r++ {
				plan[i] = append(plan[i], rnd.IntN(len(groups)))
				k := rnd.IntN(5)
				sizes[i] = append(sizes[i], k)
				base[i] = append(base[i], next)
				next += k
			}
		}
		var wg sync.WaitGroup
		start := make(chan struct{})
		for i := 0; i < producers; i++ {
			wg.Add(1)
			go func(i int) {
				defer wg.Done()
				<-start
				for r := 0; r < perProducer; r++ {
					g := groups[plan[i][r]]
					ld := plog.NewLogs()
					sl := ld.ResourceLogs().AppendEmpty().ScopeLogs().AppendEmpty()
					var ids []int
					for k := 0; k < sizes[i][r]; k++ {
						sl.LogRecords().AppendEmpty().SetTimestamp(pcommon.Timestamp(base[i][r] + k))
						ids = append(ids, base[i][r]+k)
					}
					md := map[string][]string{}
					if g.set {
						md[[]string{"tenant", "Tenant", "TENANT"}[(i+r)%3]] = g.vals
					}
					ctx := client.NewContext(context.Background(), client.Info{Metadata: client.NewMetadata(md)})
					err := p.ConsumeLogs(ctx, ld)
					key := g.name
					if len(cfg.MetadataKeys) == 0 {
						key = "-"
					} else if key == "0" {
						key = "" // the sink prints the joined values: [""] -> ""
					}
					logs[i] = append(logs[i], sent{key, ids, err})
					if r%2 == 1 {
						time.Sleep(time.Duration(200+100*i) * time.Microsecond)
					}
				}
			}(i)
		}
		close(start)
		wg.Wait()
		if err := p.Shutdown(context.Background()); err != nil {
			t.Fatal(err)
		}
		for i := range logs {
			for _, s := range logs[i] {
				for _, id := range s.ids {
					if s.err == nil {
						out.Linef("tr accept k=%s id=%d", vKeyTok(s.key), id)
					} else {
						out.Linef("tr refuse k=%s id=%d", vKeyTok(s.key), id)
					}
				}
			}
		}
		sink.mu.Lock()
		for _, l := range sink.lines {
			out.Linef("%s", l)
		}
		sink.mu.Unlock()
		out.Linef("nt")
		out.Linef("end")
		out.Flush()
	}
}

// vKeyTok: group token as the sink prints it (values joined by "."; no value = "-"; the empty value = an empty token is
// not printable in the line protocol, so it is spelled "<empty>")
func vKeyTok(k string) string {
	if k == "" {
		return "<empty>"
	}
	return fmt.Sprint(k)
}
