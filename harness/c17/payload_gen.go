//go:build verif

// Payload generator / canonical dumper shared by the C04 and C17 harnesses (copied per target package by
// harness/c04/sync_payload.sh; the master is harness/c04/payload_gen.go).
//
// Token format (DESIGN §C04, lean/OtelVerif/Model/Payload.lean Codec):
//
//	R attr schema base   S name ver attr schema base   I id bsz w
//	metrics:  M name unit desc ty temp mono md base ibase   P id bsz
//
// Every identity field is a small number written into the real object as a string/attribute and parsed back
// from the real object when dumping, so a field that is lost or altered shows up as a different token.
package batchprocessor

import (
	"fmt"
	"math/rand/v2"
	"strconv"
	"strings"

	"go.opentelemetry.io/collector/pdata/pcommon"
	"go.opentelemetry.io/collector/pdata/plog"
	"go.opentelemetry.io/collector/pdata/pmetric"
	"go.opentelemetry.io/collector/pdata/ptrace"
)

type vGen struct {
	r      *rand.Rand
	next   int
	maxRes int
	maxSc  int
	maxIt  int
	maxMet int
	pads   []int
	// zeroPct > 0: that share of the elements (log records, spans, data points) is left completely EMPTY - no timestamp, no
	// body / name / value, no attributes: their proto encoding has length 0 (still 2 bytes inside the parent: tag + length
	// 0). They carry no id (id 0, several of them), conservation is a multiset statement and covers them.
	zeroPct int
}

func (g *vGen) empty() bool { return g.zeroPct > 0 && g.r.IntN(100) < g.zeroPct }

func vNewGen(r *rand.Rand) *vGen {
	g := &vGen{r: r, next: 1, maxRes: 4, maxSc: 4, maxIt: 6, maxMet: 4}
	g.pads = []int{0, 0, 0, 0, 1, 5, 30, 90, 110, 120, 127, 128, 200}
	if vThorough() && r.IntN(20) == 0 {
		g.pads = append(g.pads, 16370, 16384)
	}
	return g
}

func (g *vGen) id() int { g.next++; return g.next - 1 }

func (g *vGen) pad() string { return strings.Repeat("x", g.pads[g.r.IntN(len(g.pads))]) }

// small sizes dominate, empty containers at every level
func (g *vGen) n(max int) int {
	switch g.r.IntN(6) {
	case 0:
		return 0
	case 1:
		return 1
	default:
		return g.r.IntN(max + 1)
	}
}

func vStr(prefix string, k int) string {
	if k == 0 {
		return ""
	}
	return prefix + strconv.Itoa(k)
}

func vStrID(s string) int {
	if s == "" {
		return 0
	}
	k, err := strconv.Atoi(s[1:])
	if err != nil {
		return 999999
	}
	return k
}

func vAttrID(m pcommon.Map) int {
	v, ok := m.Get("k")
	if !ok {
		return 0
	}
	return int(v.Int())
}

func (g *vGen) attrs(m pcommon.Map) {
	m.PutInt("k", int64(g.id()))
	if p := g.pad(); p != "" {
		m.PutStr("pad", p)
	}
}

func (g *vGen) maybe(k int) int {
	if g.r.IntN(4) == 0 {
		return 0
	}
	return k
}

func (g *vGen) resource(res pcommon.Resource) { g.attrs(res.Attributes()) }

func (g *vGen) scope(sc pcommon.InstrumentationScope) {
	sc.SetName(vStr("n", g.maybe(g.id())))
	sc.SetVersion(vStr("v", g.maybe(g.id())))
	if g.r.IntN(3) != 0 {
		g.attrs(sc.Attributes())
	}
}

// ---------------------------------------------------------------------------------------------------- logs

func (g *vGen) Logs() plog.Logs {
	ld := plog.NewLogs()
	for i, nr := 0, g.n(g.maxRes); i < nr; i++ {
		rl := ld.ResourceLogs().AppendEmpty()
		g.resource(rl.Resource())
		rl.SetSchemaUrl(vStr("u", g.maybe(g.id())))
		for j, ns := 0, g.n(g.maxSc); j < ns; j++ {
			sl := rl.ScopeLogs().AppendEmpty()
			g.scope(sl.Scope())
			sl.SetSchemaUrl(vStr("u", g.maybe(g.id())))
			for k, ni := 0, g.n(g.maxIt); k < ni; k++ {
				lr := sl.LogRecords().AppendEmpty()
				if g.empty() {
					continue
				}
				lr.SetTimestamp(pcommon.Timestamp(g.id()))
				if p := g.pad(); p != "" {
					lr.Body().SetStr(p)
				}
			}
		}
	}
	return ld
}

func vDumpLogs(ld plog.Logs) string {
	var sb strings.Builder
	m := plog.ProtoMarshaler{}
	for i := 0; i < ld.ResourceLogs().Len(); i++ {
		rl := ld.ResourceLogs().At(i)
		tr := plog.NewResourceLogs()
		rl.Resource().CopyTo(tr.Resource())
		tr.SetSchemaUrl(rl.SchemaUrl())
		fmt.Fprintf(&sb, "R %d %d %d ", vAttrID(rl.Resource().Attributes()), vStrID(rl.SchemaUrl()), m.ResourceLogsSize(tr))
		for j := 0; j < rl.ScopeLogs().Len(); j++ {
			sl := rl.ScopeLogs().At(j)
			ts := plog.NewScopeLogs()
			sl.Scope().CopyTo(ts.Scope())
			ts.SetSchemaUrl(sl.SchemaUrl())
			fmt.Fprintf(&sb, "S %d %d %d %d %d ", vStrID(sl.Scope().Name()), vStrID(sl.Scope().Version()), vAttrID(sl.Scope().Attributes()), vStrID(sl.SchemaUrl()), m.ScopeLogsSize(ts))
			for k := 0; k < sl.LogRecords().Len(); k++ {
				lr := sl.LogRecords().At(k)
				fmt.Fprintf(&sb, "I %d %d 1 ", int(lr.Timestamp()), m.LogRecordSize(lr))
			}
		}
	}
	return strings.TrimSpace(sb.String())
}

// ---------------------------------------------------------------------------------------------------- traces

func (g *vGen) Traces() ptrace.Traces {
	td := ptrace.NewTraces()
	for i, nr := 0, g.n(g.maxRes); i < nr; i++ {
		rs := td.ResourceSpans().AppendEmpty()
		g.resource(rs.Resource())
		rs.SetSchemaUrl(vStr("u", g.maybe(g.id())))
		for j, ns := 0, g.n(g.maxSc); j < ns; j++ {
			ss := rs.ScopeSpans().AppendEmpty()
			g.scope(ss.Scope())
			ss.SetSchemaUrl(vStr("u", g.maybe(g.id())))
			for k, ni := 0, g.n(g.maxIt); k < ni; k++ {
				sp := ss.Spans().AppendEmpty()
				if g.empty() {
					continue
				}
				sp.SetStartTimestamp(pcommon.Timestamp(g.id()))
				sp.SetName(g.pad())
			}
		}
	}
	return td
}

func vDumpTraces(td ptrace.Traces) string {
	var sb strings.Builder
	m := ptrace.ProtoMarshaler{}
	for i := 0; i < td.ResourceSpans().Len(); i++ {
		rs := td.ResourceSpans().At(i)
		tr := ptrace.NewResourceSpans()
		rs.Resource().CopyTo(tr.Resource())
		tr.SetSchemaUrl(rs.SchemaUrl())
		fmt.Fprintf(&sb, "R %d %d %d ", vAttrID(rs.Resource().Attributes()), vStrID(rs.SchemaUrl()), m.ResourceSpansSize(tr))
		for j := 0; j < rs.ScopeSpans().Len(); j++ {
			ss := rs.ScopeSpans().At(j)
			ts := ptrace.NewScopeSpans()
			ss.Scope().CopyTo(ts.Scope())
			ts.SetSchemaUrl(ss.SchemaUrl())
			fmt.Fprintf(&sb, "S %d %d %d %d %d ", vStrID(ss.Scope().Name()), vStrID(ss.Scope().Version()), vAttrID(ss.Scope().Attributes()), vStrID(ss.SchemaUrl()), m.ScopeSpansSize(ts))
			for k := 0; k < ss.Spans().Len(); k++ {
				sp := ss.Spans().At(k)
				fmt.Fprintf(&sb, "I %d %d 1 ", int(sp.StartTimestamp()), m.SpanSize(sp))
			}
		}
	}
	return strings.TrimSpace(sb.String())
}

// ---------------------------------------------------------------------------------------------------- metrics

func (g *vGen) Metrics() pmetric.Metrics {
	md := pmetric.NewMetrics()
	for i, nr := 0, g.n(g.maxRes); i < nr; i++ {
		rm := md.ResourceMetrics().AppendEmpty()
		g.resource(rm.Resource())
		rm.SetSchemaUrl(vStr("u", g.maybe(g.id())))
		for j, ns := 0, g.n(g.maxSc); j < ns; j++ {
			sm := rm.ScopeMetrics().AppendEmpty()
			g.scope(sm.Scope())
			sm.SetSchemaUrl(vStr("u", g.maybe(g.id())))
			for k, nm := 0, g.n(g.maxMet); k < nm; k++ {
				g.metric(sm.Metrics().AppendEmpty())
			}
		}
	}
	return md
}

func (g *vGen) metric(mt pmetric.Metric) {
	if g.zeroPct > 0 && g.r.IntN(6) == 0 {
		return // a metric without name, type and points: its encoding is empty too
	}
	mt.SetName(vStr("m", g.id()))
	mt.SetUnit(vStr("u", g.maybe(g.id())))
	mt.SetDescription(vStr("d", g.maybe(g.id())))
	if g.r.IntN(2) == 0 {
		g.attrs(mt.Metadata())
	}
	np := g.n(g.maxIt)
	temps := []pmetric.AggregationTemporality{pmetric.AggregationTemporalityUnspecified, pmetric.AggregationTemporalityDelta, pmetric.AggregationTemporalityCumulative}
	switch g.r.IntN(11) {
	case 0: // empty type
	case 1, 2:
		dps := mt.SetEmptyGauge().DataPoints()
		for p := 0; p < np; p++ {
			dp := dps.AppendEmpty()
			if g.empty() {
				continue
			}
			dp.SetTimestamp(pcommon.Timestamp(g.id()))
			dp.SetIntValue(int64(g.r.IntN(1000)))
			if s := g.pad(); s != "" {
				dp.Attributes().PutStr("pad", s)
			}
		}
	case 3, 4:
		s := mt.SetEmptySum()
		s.SetAggregationTemporality(temps[g.r.IntN(3)])
		s.SetIsMonotonic(g.r.IntN(2) == 0)
		for p := 0; p < np; p++ {
			dp := s.DataPoints().AppendEmpty()
			if g.empty() {
				continue
			}
			dp.SetTimestamp(pcommon.Timestamp(g.id()))
			dp.SetDoubleValue(1.5)
			if s := g.pad(); s != "" {
				dp.Attributes().PutStr("pad", s)
			}
		}
	case 5, 6:
		h := mt.SetEmptyHistogram()
		h.SetAggregationTemporality(temps[g.r.IntN(3)])
		for p := 0; p < np; p++ {
			dp := h.DataPoints().AppendEmpty()
			if g.empty() {
				continue
			}
			dp.SetTimestamp(pcommon.Timestamp(g.id()))
			dp.SetCount(uint64(g.r.IntN(300)))
			if s := g.pad(); s != "" {
				dp.Attributes().PutStr("pad", s)
			}
		}
	case 7, 8:
		h := mt.SetEmptyExponentialHistogram()
		h.SetAggregationTemporality(temps[g.r.IntN(3)])
		for p := 0; p < np; p++ {
			dp := h.DataPoints().AppendEmpty()
			if g.empty() {
				continue
			}
			dp.SetTimestamp(pcommon.Timestamp(g.id()))
			dp.SetScale(int32(g.r.IntN(4)))
			if s := g.pad(); s != "" {
				dp.Attributes().PutStr("pad", s)
			}
		}
	default:
		sdp := mt.SetEmptySummary().DataPoints()
		for p := 0; p < np; p++ {
			dp := sdp.AppendEmpty()
			if g.empty() {
				continue
			}
			dp.SetTimestamp(pcommon.Timestamp(g.id()))
			dp.SetCount(uint64(g.r.IntN(300)))
			if s := g.pad(); s != "" {
				dp.Attributes().PutStr("pad", s)
			}
		}
	}
}

// vMetricShape returns (ty, temp, mono, ibase) and writes the points.
func vDumpMetric(sb *strings.Builder, mt pmetric.Metric) {
	m := pmetric.ProtoMarshaler{}
	hdr := pmetric.NewMetric()
	hdr.SetName(mt.Name())
	hdr.SetUnit(mt.Unit())
	hdr.SetDescription(mt.Description())
	mt.Metadata().CopyTo(hdr.Metadata())
	base := m.MetricSize(hdr)
	ty, temp, mono, ibase := 0, 0, 0, 0
	var pts strings.Builder
	inner := pmetric.NewMetric()
	switch mt.Type() {
	case pmetric.MetricTypeGauge:
		ty = 1
		inner.SetEmptyGauge()
		for p := 0; p < mt.Gauge().DataPoints().Len(); p++ {
			dp := mt.Gauge().DataPoints().At(p)
			fmt.Fprintf(&pts, "P %d %d ", int(dp.Timestamp()), m.NumberDataPointSize(dp))
		}
	case pmetric.MetricTypeSum:
		ty = 2
		temp = int(mt.Sum().AggregationTemporality())
		mono = vB(mt.Sum().IsMonotonic())
		s := inner.SetEmptySum()
		s.SetAggregationTemporality(mt.Sum().AggregationTemporality())
		s.SetIsMonotonic(mt.Sum().IsMonotonic())
		for p := 0; p < mt.Sum().DataPoints().Len(); p++ {
			dp := mt.Sum().DataPoints().At(p)
			fmt.Fprintf(&pts, "P %d %d ", int(dp.Timestamp()), m.NumberDataPointSize(dp))
		}
	case pmetric.MetricTypeHistogram:
		ty = 3
		temp = int(mt.Histogram().AggregationTemporality())
		inner.SetEmptyHistogram().SetAggregationTemporality(mt.Histogram().AggregationTemporality())
		for p := 0; p < mt.Histogram().DataPoints().Len(); p++ {
			dp := mt.Histogram().DataPoints().At(p)
			fmt.Fprintf(&pts, "P %d %d ", int(dp.Timestamp()), m.HistogramDataPointSize(dp))
		}
	case pmetric.MetricTypeExponentialHistogram:
		ty = 4
		temp = int(mt.ExponentialHistogram().AggregationTemporality())
		inner.SetEmptyExponentialHistogram().SetAggregationTemporality(mt.ExponentialHistogram().AggregationTemporality())
		for p := 0; p < mt.ExponentialHistogram().DataPoints().Len(); p++ {
			dp := mt.ExponentialHistogram().DataPoints().At(p)
			fmt.Fprintf(&pts, "P %d %d ", int(dp.Timestamp()), m.ExponentialHistogramDataPointSize(dp))
		}
	case pmetric.MetricTypeSummary:
		ty = 5
		inner.SetEmptySummary()
		for p := 0; p < mt.Summary().DataPoints().Len(); p++ {
			dp := mt.Summary().DataPoints().At(p)
			fmt.Fprintf(&pts, "P %d %d ", int(dp.Timestamp()), m.SummaryDataPointSize(dp))
		}
	}
	if ty != 0 {
		// size of the oneof member = 1 + len + sov(len); the data message without points is < 128 bytes
		ibase = m.MetricSize(inner) - 2
	}
	fmt.Fprintf(sb, "M %d %d %d %d %d %d %d %d %d ", vStrID(mt.Name()), vStrID(mt.Unit()), vStrID(mt.Description()), ty, temp, mono, vAttrID(mt.Metadata()), base, ibase)
	sb.WriteString(pts.String())
}

func vDumpMetrics(md pmetric.Metrics) string {
	var sb strings.Builder
	m := pmetric.ProtoMarshaler{}
	for i := 0; i < md.ResourceMetrics().Len(); i++ {
		rm := md.ResourceMetrics().At(i)
		tr := pmetric.NewResourceMetrics()
		rm.Resource().CopyTo(tr.Resource())
		tr.SetSchemaUrl(rm.SchemaUrl())
		fmt.Fprintf(&sb, "R %d %d %d ", vAttrID(rm.Resource().Attributes()), vStrID(rm.SchemaUrl()), m.ResourceMetricsSize(tr))
		for j := 0; j < rm.ScopeMetrics().Len(); j++ {
			sm := rm.ScopeMetrics().At(j)
			ts := pmetric.NewScopeMetrics()
			sm.Scope().CopyTo(ts.Scope())
			ts.SetSchemaUrl(sm.SchemaUrl())
			fmt.Fprintf(&sb, "S %d %d %d %d %d ", vStrID(sm.Scope().Name()), vStrID(sm.Scope().Version()), vAttrID(sm.Scope().Attributes()), vStrID(sm.SchemaUrl()), m.ScopeMetricsSize(ts))
			for k := 0; k < sm.Metrics().Len(); k++ {
				vDumpMetric(&sb, sm.Metrics().At(k))
			}
		}
	}
	return strings.TrimSpace(sb.String())
}
