//go:build verif

package batchprocessor

import (
	"context"
	"fmt"
	"net"
	"sort"
	"strings"
	"sync"
	"testing"
	"testing/synctest"
	"time"

	"go.opentelemetry.io/collector/client"
	"go.opentelemetry.io/collector/component/componenttest"
	"go.opentelemetry.io/collector/consumer"
	"go.opentelemetry.io/collector/pdata/plog"
	"go.opentelemetry.io/collector/pdata/pmetric"
	"go.opentelemetry.io/collector/pdata/ptrace"
	"go.opentelemetry.io/collector/processor/batchprocessor/internal/metadata"
	"go.opentelemetry.io/collector/processor/processortest"
)

// vSink records what reaches the next consumer: virtual time, the export context's metadata, the payload.
type vSink struct {
	mu    sync.Mutex
	start time.Time
	keys  []string // configured keys, lower-cased and sorted (what the processor uses)
	lines []string
	// values are arbitrary byte strings (brackets, quotes, commas, non-UTF-8, very long ...): they are interned byte-exactly,
	// the line protocol carries the numbers; a value the export context shows that no caller sent gets a fresh number
	intern map[string]int
	imu    sync.Mutex
}

func (s *vSink) val(v string) int {
	s.imu.Lock()
	defer s.imu.Unlock()
	if s.intern == nil {
		s.intern = map[string]int{"": 0}
	}
	if n, ok := s.intern[v]; ok {
		return n
	}
	n := len(s.intern)
	s.intern[v] = n
	return n
}

func (s *vSink) vals(vs []string) string {
	if len(vs) == 0 {
		return "-"
	}
	var out []string
	for _, v := range vs {
		out = append(out, fmt.Sprint(s.val(v)))
	}
	return strings.Join(out, ".")
}

func (s *vSink) key(ctx context.Context) string {
	if len(s.keys) == 0 {
		return "_"
	}
	info := client.FromContext(ctx)
	var parts []string
	for _, k := range s.keys {
		parts = append(parts, s.vals(info.Metadata.Get(k)))
	}
	return strings.Join(parts, "/")
}

// vAuth: credentials of an incoming call; they must never show up on an export context
type vAuth struct{ who string }

func (a vAuth) GetAttribute(string) any     { return a.who }
func (a vAuth) GetAttributeNames() []string { return []string{"who"} }

// ctxTok describes everything the export context's client.Info carries BEYOND the values of the configured keys:
// "clean" = nothing (no Auth, no Addr, no other metadata key) - what newShard builds; anything else is a leak of some
// caller's client info into a batch that mixes many callers.
func (s *vSink) ctxTok(ctx context.Context) string {
	info := client.FromContext(ctx)
	var extra []string
	if info.Auth != nil {
		extra = append(extra, "auth")
	}
	if info.Addr != nil {
		extra = append(extra, "addr")
	}
	var other []string
	for k := range info.Metadata.Keys() {
		configured := false
		for _, ck := range s.keys {
			if strings.EqualFold(ck, k) {
				configured = true
			}
		}
		if !configured {
			other = append(other, k)
		}
	}
	sort.Strings(other)
	if len(other) > 0 {
		extra = append(extra, "other:"+strings.Join(other, ","))
	}
	if len(extra) == 0 {
		return "clean"
	}
	return strings.Join(extra, "+")
}

func (s *vSink) add(ctx context.Context, dump string) {
	s.mu.Lock()
	defer s.mu.Unlock()
	s.lines = append(s.lines, fmt.Sprintf("obs emit t=%d k=%s ctx=%s | %s", time.Since(s.start).Microseconds(), s.key(ctx), s.ctxTok(ctx), dump))
}

func (s *vSink) Capabilities() consumer.Capabilities { return consumer.Capabilities{} }
func (s *vSink) ConsumeLogs(ctx context.Context, ld plog.Logs) error {
	s.add(ctx, vDumpLogs(ld))
	return nil
}
func (s *vSink) ConsumeTraces(ctx context.Context, td ptrace.Traces) error {
	s.add(ctx, vDumpTraces(td))
	return nil
}
func (s *vSink) ConsumeMetrics(ctx context.Context, md pmetric.Metrics) error {
	s.add(ctx, vDumpMetrics(md))
	return nil
}

func (s *vSink) flush(out *vOut) {
	s.mu.Lock()
	defer s.mu.Unlock()
	sort.Strings(s.lines)
	for _, l := range s.lines {
		out.Linef("%s", l)
	}
	s.lines = nil
}

// TestVerifC17Proc runs the real batch processor in a synctest bubble (virtual time, run to quiescence after every
// label) with one producer, so that the emitted batches are deterministic and compared exactly with the model.
func TestVerifC17ProcLogs(t *testing.T)    { vRunProc(t, "logs") }
func TestVerifC17ProcMetrics(t *testing.T) { vRunProc(t, "metrics") }
func TestVerifC17ProcTraces(t *testing.T)  { vRunProc(t, "traces") }

func vRunProc(t *testing.T, kind string) {
	out := vOpen(t)
	defer out.Close()
	out.Linef("model c17-proc-%s 1", kind)
	n := vN(300)
	for _, c := range vCases(n) {
		synctest.Test(t, func(t *testing.T) {
			rnd := vRand(c)
			g := vNewGen(rnd)
			g.maxRes, g.maxSc, g.maxIt, g.maxMet = 2, 2, 4, 2
			cfg := &Config{}
			var sbs, max uint32
			var timeoutUs int
			var keyNames []string
			if c%5 < 2 {
				// RAW configuration space: nothing is pre-validated. 0 < max < size, max = 0, size = 0, negative timeout,
				// case-insensitively duplicate keys, limit 0 ... The REAL Config.Validate() decides; the model's `validCfg`
				// must decide the same (obs valid=), and every ACCEPTED configuration goes through all the oracles.
				sbs = []uint32{0, 1, 2, 3, 5, 8, 10}[rnd.IntN(7)]
				max = uint32(rnd.IntN(13))
				timeoutUs = []int{-1000, 0, 0, 10_007, 50_003, 200_001}[rnd.IntN(6)]
				pool := []string{"Tenant", "tenant", "ZONE", "zone", "Env"}
				for k, nk := 0, rnd.IntN(4); k < nk; k++ {
					keyNames = append(keyNames, pool[rnd.IntN(len(pool))])
				}
				cfg.MetadataCardinalityLimit = uint32(rnd.IntN(5))
			} else {
				// mostly-valid space with the corners size = 0, max = 0, timeout = 0
				sbs = []uint32{0, 1, 2, 3, 5, 8}[rnd.IntN(6)]
				if rnd.IntN(3) != 0 {
					max = sbs + uint32(rnd.IntN(4))
					if max == 0 {
						max = uint32(1 + rnd.IntN(3))
					}
				}
				timeoutUs = []int{0, 10_007, 50_003, 200_001}[rnd.IntN(4)]
				if c%3 == 2 {
					keyNames = [][]string{{"Tenant"}, {"tenant", "ZONE"}}[rnd.IntN(2)]
					cfg.MetadataCardinalityLimit = uint32(rnd.IntN(4))
				}
			}
			cfg.SendBatchSize, cfg.SendBatchMaxSize, cfg.Timeout = sbs, max, time.Duration(timeoutUs)*time.Microsecond
			cfg.MetadataKeys = keyNames
			nkeys := len(keyNames)
			keyTok := "-"
			if nkeys > 0 {
				keyTok = strings.Join(keyNames, ",")
			}
			out.Linef("case %d kind=%s", c, kind)
			if c == 0 {
				// the real default configuration against the regenerated struct literal (Gen/C17Config.lean)
				d := createDefaultConfig().(*Config)
				out.Linef("op defaults")
				out.Linef("obs defaults SendBatchSize=%d SendBatchMaxSize=%d Timeout=%d MetadataCardinalityLimit=%d", d.SendBatchSize,
					d.SendBatchMaxSize, int64(d.Timeout), d.MetadataCardinalityLimit)
			}
			out.Linef("op cfgraw sbs=%d max=%d timeout=%d keys=%s limit=%d", sbs, max, timeoutUs, keyTok, cfg.MetadataCardinalityLimit)
			verr := cfg.Validate()
			out.Linef("obs valid=%d", vB(verr == nil))
			if verr != nil || timeoutUs < 0 {
				// rejected (or accepted with a negative timeout: nothing to run, the valid= line is the finding)
				out.Linef("stat config_rejected 1")
				out.Linef("end")
				out.Flush()
				return
			}
			if max > 0 && max < sbs {
				out.Linef("stat accepted_max_below_size 1")
			}
			sink := &vSink{start: time.Now()}
			for _, k := range keyNames {
				sink.keys = append(sink.keys, strings.ToLower(k))
			}
			sort.Strings(sink.keys)
			set := processortest.NewNopSettings(metadata.Type)
			var consumeLogs func(context.Context, plog.Logs) error
			var consumeMetrics func(context.Context, pmetric.Metrics) error
			var consumeTraces func(context.Context, ptrace.Traces) error
			var shutdown func(context.Context) error
			if kind == "logs" {
				p, err := newLogsBatchProcessor(set, sink, cfg)
				if err != nil {
					t.Fatal(err)
				}
				if err := p.Start(context.Background(), componenttest.NewNopHost()); err != nil {
					t.Fatal(err)
				}
				consumeLogs, shutdown = p.ConsumeLogs, p.Shutdown
			} else if kind == "traces" {
				p, err := newTracesBatchProcessor(set, sink, cfg)
				if err != nil {
					t.Fatal(err)
				}
				if err := p.Start(context.Background(), componenttest.NewNopHost()); err != nil {
					t.Fatal(err)
				}
				consumeTraces, shutdown = p.ConsumeTraces, p.Shutdown
			} else {
				p, err := newMetricsBatchProcessor(set, sink, cfg)
				if err != nil {
					t.Fatal(err)
				}
				if err := p.Start(context.Background(), componenttest.NewNopHost()); err != nil {
					t.Fatal(err)
				}
				consumeMetrics, shutdown = p.ConsumeMetrics, p.Shutdown
			}
			out.Linef("op cfg kind=%s sbs=%d max=%d timeout=%d nkeys=%d limit=%d", kind, sbs, max, timeoutUs, nkeys, cfg.MetadataCardinalityLimit)
			out.Linef("obs done")
			groups := map[string]bool{}
			steps := 1 + rnd.IntN(10)
			// burst mode: several Consume calls and then Shutdown at once, WITHOUT waiting for the shard goroutines: items are
			// still queued in newItem when shutdown begins (the DONE: drain loop and the single final send). No virtual
			// time passes, so the outcome is deterministic: label "enqueue" = accepted / refused now, processed at shutdown.
			burst := c%7 == 3
			if burst {
				steps = 2 + rnd.IntN(7)
				out.Linef("stat burst_shutdown_with_queued_items 1")
			}
			for s := 0; s < steps; s++ {
				if !burst && rnd.IntN(3) == 0 {
					dt := 1000 * (1 + rnd.IntN(120))
					out.Linef("op advance us=%d", dt)
					time.Sleep(time.Duration(dt) * time.Microsecond)
					synctest.Wait()
					sink.flush(out)
					out.Linef("obs done")
					continue
				}
				// client metadata: mixed-case header names, absent / empty / single / multi values (also reordered and
				// near-colliding ones: [v2,v1] vs [v1,v2], v12 vs [v1,v2], v1 vs v10)
				md := map[string][]string{}
				grp := ""
				var raw []string // the metadata exactly as the caller sends it: the MODEL computes the group from this
				for _, k := range sink.keys {
					var vs []string
					switch rnd.IntN(13) {
					case 0: // absent
					case 12: // present with an empty value list (Get gives nil: same group as absent)
						vs = []string{}
					case 1:
						vs = []string{""}
					case 2:
						vs = []string{"v1", "v2"}
					case 3:
						vs = []string{"v2", "v1"}
					case 4:
						vs = []string{[]string{"v12", "v10"}[rnd.IntN(2)]}
					case 5, 6, 7:
						// adversarial values: what a non-injective encoding of the group (fmt, JSON, attribute encoders, lossy
						// UTF-8 handling) would confuse with another group
						pool := [][]string{
							{"[]"}, {`["a","b"]`}, {"a", "b"}, {"a,b"}, {`a"b`}, {"a\\b"}, {"[a]"}, {"[a b]"}, {"a b"},
							{"\xff"}, {"\xfe"}, {"\xffx", "y"}, {"\xfex", "y"}, {"V1"}, {"v1 "}, {strings.Repeat("x", 300)},
							{strings.Repeat("x", 299) + "y"}, {"-"}, {"0"}, {"null"}, {"<nil>"},
						}
						vs = pool[rnd.IntN(len(pool))]
					default:
						vs = []string{fmt.Sprintf("v%d", 1+rnd.IntN(3))}
					}
					if vs != nil {
						name := k
						switch rnd.IntN(3) {
						case 0:
							name = strings.ToUpper(k[:1]) + k[1:]
						case 1:
							name = strings.ToUpper(k)
						}
						md[name] = vs
						raw = append(raw, name+":"+sink.vals(vs))
					}
					grp += "/" + sink.vals(vs) // only for the non-triviality statistic
				}
				// everything else a caller's client.Info can carry: other headers, credentials, peer address
				info := client.Info{}
				if rnd.IntN(2) == 0 {
					md["x-other"] = []string{fmt.Sprintf("o%d", s)}
					raw = append(raw, "x-other:"+sink.vals(md["x-other"]))
				}
				if rnd.IntN(3) == 0 {
					md["Authorization"] = []string{"secret"}
					raw = append(raw, "Authorization:"+sink.vals(md["Authorization"]))
				}
				if len(sink.keys) > 0 && rnd.IntN(6) == 0 {
					// a header whose name merely CONTAINS / extends a configured key: must not be taken for it
					md[sink.keys[0]+"-2"] = []string{"v1"}
					raw = append(raw, sink.keys[0]+"-2:"+sink.vals(md[sink.keys[0]+"-2"]))
				}
				key := "md=-"
				if len(raw) > 0 {
					key = "md=" + strings.Join(raw, ",")
				}
				if rnd.IntN(2) == 0 {
					info.Auth = vAuth{who: fmt.Sprintf("caller%d", s)}
				}
				if rnd.IntN(2) == 0 {
					info.Addr = &net.IPAddr{IP: net.IPv4(10, 0, 0, byte(1+s))}
				}
				info.Metadata = client.NewMetadata(md)
				ctx := client.NewContext(context.Background(), info)
				opName := "arrive"
				if burst {
					opName = "enqueue"
				}
				var err error
				if kind == "logs" {
					ld := g.Logs()
					out.Linef("op %s %s | %s", opName, key, vDumpLogs(ld))
					err = consumeLogs(ctx, ld)
				} else if kind == "traces" {
					td := g.Traces()
					out.Linef("op %s %s | %s", opName, key, vDumpTraces(td))
					err = consumeTraces(ctx, td)
				} else {
					m := g.Metrics()
					out.Linef("op %s %s | %s", opName, key, vDumpMetrics(m))
					err = consumeMetrics(ctx, m)
				}
				if !burst {
					synctest.Wait()
					sink.flush(out)
				}
				if err != nil {
					out.Linef("obs err toomany")
					out.Linef("stat refused 1")
				} else {
					out.Linef("obs ok")
					groups[grp] = true
				}
			}
			out.Linef("op shutdown")
			if err := shutdown(context.Background()); err != nil {
				out.Linef("obs shutdown-error")
			}
			synctest.Wait()
			sink.flush(out)
			out.Linef("obs done")
			if len(groups) >= 2 {
				out.Linef("nt")
				out.Linef("stat multi_group 1")
			} else if max > 0 {
				out.Linef("nt")
			}
			out.Linef("stat kind_%s 1", kind)
			out.Linef("end")
			out.Flush()
		})
	}
}
