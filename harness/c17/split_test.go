//go:build verif

package batchprocessor

import (
	"strings"
	"testing"

	"go.opentelemetry.io/collector/pdata/pcommon"
	"go.opentelemetry.io/collector/pdata/plog"
	"go.opentelemetry.io/collector/pdata/pmetric"
)

// vCorpusSplit: the witnesses reproduced during design (DESIGN §C17): a cut inside one scope / one metric.
func vCorpusSplit(c int) (kind string, size int, logs plog.Logs, metrics pmetric.Metrics, ok bool) {
	switch c {
	case 0:
		ld := plog.NewLogs()
		rl := ld.ResourceLogs().AppendEmpty()
		rl.Resource().Attributes().PutInt("k", 1)
		rl.SetSchemaUrl("u2")
		sl := rl.ScopeLogs().AppendEmpty()
		sl.Scope().SetName("n3")
		sl.SetSchemaUrl("u4")
		for i := 0; i < 3; i++ {
			sl.LogRecords().AppendEmpty().SetTimestamp(pcommon.Timestamp(10 + i))
		}
		return "logs", 2, ld, pmetric.Metrics{}, true
	case 1:
		md := pmetric.NewMetrics()
		rm := md.ResourceMetrics().AppendEmpty()
		rm.Resource().Attributes().PutInt("k", 1)
		rm.SetSchemaUrl("u2")
		sm := rm.ScopeMetrics().AppendEmpty()
		sm.Scope().SetName("n3")
		sm.SetSchemaUrl("u4")
		mt := sm.Metrics().AppendEmpty()
		mt.SetName("m5")
		mt.SetUnit("u6")
		mt.SetDescription("d7")
		mt.Metadata().PutInt("k", 8)
		s := mt.SetEmptySum()
		s.SetAggregationTemporality(pmetric.AggregationTemporalityDelta)
		s.SetIsMonotonic(true)
		for i := 0; i < 4; i++ {
			s.DataPoints().AppendEmpty().SetTimestamp(pcommon.Timestamp(10 + i))
		}
		return "metrics", 3, plog.Logs{}, md, true
	}
	return "", 0, plog.Logs{}, pmetric.Metrics{}, false
}

// TestVerifC17Split calls the real splitLogs / splitTraces / splitMetrics on generated payloads.
func TestVerifC17Split(t *testing.T) {
	out := vOpen(t)
	defer out.Close()
	out.Linef("model c17-split 1")
	n := vN(1000)
	for _, c := range vCases(n) {
		rnd := vRand(c)
		g := vNewGen(rnd)
		kind := []string{"logs", "traces", "metrics"}[c%3]
		ckind, csize, cl, cm, isCorpus := vCorpusSplit(c)
		if isCorpus {
			kind = ckind
		}
		var before, dest, rem string
		var total, size int
		pick := func(total int) int {
			if isCorpus {
				return csize
			}
			if total > 1 && rnd.IntN(4) != 0 {
				return 1 + rnd.IntN(total-1) // a real split
			}
			return rnd.IntN(total + 2)
		}
		switch kind {
		case "logs":
			ld := cl
			if !isCorpus {
				ld = g.Logs()
			}
			total = ld.LogRecordCount()
			size = pick(total)
			before = vDumpLogs(ld)
			out.Linef("case %d kind=logs", c)
			out.Linef("op splitlogs size=%d | %s", size, before)
			d := splitLogs(size, ld)
			dest, rem = vDumpLogs(d), vDumpLogs(ld)
		case "traces":
			td := g.Traces()
			total = td.SpanCount()
			size = pick(total)
			before = vDumpTraces(td)
			out.Linef("case %d kind=traces", c)
			out.Linef("op splittraces size=%d | %s", size, before)
			d := splitTraces(size, td)
			dest, rem = vDumpTraces(d), vDumpTraces(td)
		default:
			md := cm
			if !isCorpus {
				md = g.Metrics()
			}
			total = md.DataPointCount()
			size = pick(total)
			before = vDumpMetrics(md)
			out.Linef("case %d kind=metrics", c)
			out.Linef("op splitmetrics size=%d | %s", size, before)
			d := splitMetrics(size, md)
			dest, rem = vDumpMetrics(d), vDumpMetrics(md)
		}
		out.Linef("obs dest | %s", dest)
		out.Linef("obs rem | %s", rem)
		// non-trivial: the cut went through a resource (its identity appears on both sides)
		if size > 0 && size < total && dest != "" && rem != "" {
			lastR := dest[strings.LastIndex(dest, "R "):]
			firstR := rem
			if i := strings.Index(rem[2:], "R "); i >= 0 {
				firstR = rem[:i+2]
			}
			lf, ff := strings.Fields(lastR), strings.Fields(firstR)
			if len(lf) > 1 && len(ff) > 1 && lf[1] == ff[1] {
				out.Linef("nt")
				out.Linef("stat cut_inside_resource 1")
			}
		}
		out.Linef("stat kind_%s 1", kind)
		if size >= total {
			out.Linef("stat no_split 1")
		}
		out.Linef("end")
		out.Flush()
	}
}
