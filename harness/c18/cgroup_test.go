//go:build verif && linux

package cgroups

import (
	"os"
	"path/filepath"
	"strconv"
	"strings"
	"testing"
)

// TestVerifC18CgroupV2: memoryQuotaV2 on a scripted <mount>/memory.max (absent, unreadable, "max", numbers with signs /
// leading zeros / white space / CRLF / several lines, out-of-range and non-numeric content, empty file) against the model
// memoryQuotaV2 (Model/C18Src.lean; theorem C18_cgroup_v2_total composes it with TotalMemory's decision).
func TestVerifC18CgroupV2(t *testing.T) {
	out := vOpen(t)
	defer out.Close()
	out.Linef("model c18-cgv2 1")
	dir := t.TempDir()
	pool := []string{"max\n", "max", " max \n", "MAX\n", "maxx\n", "ma x\n", "", "\n", "\r\n", "0\n", "1073741824\n", "9223372036854771712\n", "9223372036854710272\n",
		"9223372036854775807\n", "9223372036854775808\n", "-1\n", "-9223372036854775808\n", "-9223372036854775809\n", "+7\n", "+\n", "-\n", "007\n", "1_000\n", "0x10\n",
		"12a\n", "1 2\n", " 42 \n", "\t42\t\n", "42\r\n", "42\r\n17\n", "42\n17\n", "\n42\n", "max\n42\n", "42\nmax\n", "1e3\n", "4.5\n", "\v42\f\n"}
	for _, idx := range vCases(vN(600)) {
		r := vRand(idx)
		out.Linef("case %d", idx)
		mount := filepath.Join(dir, "m"+strconv.Itoa(idx))
		st := ""
		switch k := r.IntN(12); {
		case idx >= len(pool) && k == 0:
			st = "absent"
			if err := os.MkdirAll(mount, 0o755); err != nil {
				t.Fatal(err)
			}
		case idx >= len(pool) && k == 1:
			st = "unreadable" // the mount point is a regular file: open fails with ENOTDIR (not "not exist")
			if err := os.WriteFile(mount, []byte("x"), 0o644); err != nil {
				t.Fatal(err)
			}
		default:
			var content string
			if idx < len(pool) {
				content = pool[idx]
			} else if r.IntN(3) == 0 {
				content = pool[r.IntN(len(pool))]
			} else {
				var b strings.Builder
				b.WriteString([]string{"", "", "", " ", "\t", "-", "+"}[r.IntN(7)])
				n := 1 + r.IntN(21)
				for i := 0; i < n; i++ {
					b.WriteByte("0123456789"[r.IntN(10)])
				}
				if r.IntN(10) == 0 {
					b.WriteByte("a_ .xe"[r.IntN(6)])
				}
				b.WriteString([]string{"\n", "\n", "", " \n", "\r\n", "\n5\n"}[r.IntN(6)])
				content = b.String()
			}
			st = vHex(content)
			if err := os.MkdirAll(mount, 0o755); err != nil {
				t.Fatal(err)
			}
			if err := os.WriteFile(filepath.Join(mount, "memory.max"), []byte(content), 0o644); err != nil {
				t.Fatal(err)
			}
		}
		out.Linef("op quota st=%s", st)
		q, defined, err := memoryQuotaV2(mount, "memory.max")
		if err != nil {
			out.Linef("obs quota err")
			out.Linef("stat quota_err 1")
		} else {
			out.Linef("obs quota %d:%d", q, vB(defined))
			out.Linef("stat quota_defined_%d 1", vB(defined))
			if defined {
				out.Linef("nt")
			}
		}
		// cgroup v1 on the same file state: CGroups.MemoryQuota reads memory.limit_in_bytes of the memory cgroup (no trimming,
		// a value <= 0 means "not set"); 1/12 of the cases have no memory subsystem at all
		cg := CGroups{}
		st1 := st
		if st != "absent" && st != "unreadable" {
			data, _ := os.ReadFile(filepath.Join(mount, "memory.max"))
			if err := os.WriteFile(filepath.Join(mount, _cgroupMemoryLimitBytes), data, 0o644); err != nil {
				t.Fatal(err)
			}
		}
		if r.IntN(12) == 0 {
			st1 = "nosubsys"
		} else {
			cg[_cgroupSubsysMemory] = NewCGroup(mount)
		}
		out.Linef("op quotav1 st=%s", st1)
		q, defined, err = cg.MemoryQuota()
		if err != nil {
			out.Linef("obs quota err")
			out.Linef("stat v1_quota_err 1")
		} else {
			out.Linef("obs quota %d:%d", q, vB(defined))
			out.Linef("stat v1_quota_defined_%d 1", vB(defined))
		}
		out.Linef("end")
	}
}
