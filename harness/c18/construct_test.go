//go:build verif

package memorylimiter

import (
	"errors"
	"os"
	"runtime"
	"testing"
	"time"

	"go.uber.org/zap"
)

// TestVerifC18New: NewMemoryLimiter with its error path (GetMemoryFn failing), on accepted AND rejected configurations
// (the constructor does not validate), and NewDefaultConfig against the definition REGENERATED from config.go.
// Model: newLimiter (Model/C18Src.lean), proved equal to the regenerated getMemUsageChecker (C18_src_checker).
func TestVerifC18New(t *testing.T) {
	out := vOpen(t)
	defer out.Close()
	out.Linef("model c18-new 1")
	saved := GetMemoryFn
	defer func() { GetMemoryFn = saved }()
	for _, idx := range vCases(vN(1500)) {
		r := vRand(idx)
		out.Linef("case %d", idx)
		if idx == 0 {
			// corpus: the default configuration
			d := NewDefaultConfig()
			out.Linef("op default")
			out.Linef("obs default %s valid=%d", c18CfgLine(d), c18Code(d.Validate()))
			out.Linef("nt")
			out.Linef("end")
			continue
		}
		cfg, total := c18GenCfg(r)
		// totals at and above 2^57 (percentage*total overflowed uint64 in the unrepaired newPercentageMemUsageChecker; repaired
		// in /repo by "fix: memory limiter computes percentage limits without overflowing uint64"); VERIF_C18_BIGTOTAL=0 switches them off
		big := os.Getenv("VERIF_C18_BIGTOTAL") != "0"
		if big && idx == 1 {
			// corpus: the cgroup-v1 "unlimited" value of kernels with 64 KiB pages, 50 % / 10 %
			cfg = &Config{CheckInterval: time.Second, MinGCIntervalWhenSoftLimited: 10 * time.Second, MemoryLimitPercentage: 50, MemorySpikePercentage: 10}
			total = 0x7FFFFFFFFFFF0000
		} else if big && cfg.MemoryLimitMiB == 0 && r.IntN(3) == 0 {
			bigs := []uint64{0x7FFFFFFFFFFF0000, 1<<63 - 1, 1<<64 - 1, 1 << 57, 1<<57 + 5, 184467440737095517, 1 << 62, 1 << 60}
			total = bigs[r.IntN(len(bigs))]
			if r.IntN(3) == 0 {
				total = 1<<57 + r.Uint64N(1<<64-1-1<<57)
			}
		}
		if cfg.CheckInterval <= 0 {
			cfg.CheckInterval = time.Second // time.NewTicker panics on a non-positive interval; Validate rejects those
		}
		memErr := r.IntN(4) == 0
		calls := 0
		GetMemoryFn = func() (uint64, error) {
			calls++
			if memErr {
				return 0, errors.New("no total memory")
			}
			return total, nil
		}
		mem := utoa(total)
		if memErr {
			mem = "err"
		}
		out.Linef("op new %s mem=%s", c18CfgLine(cfg), mem)
		t0 := time.Now()
		var ml *MemoryLimiter
		var err error
		func() {
			defer func() {
				if p := recover(); p != nil {
					out.Linef("viol sig=C18/construct/panic %v", p)
				}
			}()
			ml, err = NewMemoryLimiter(cfg, zap.NewNop())
		}()
		if err != nil || ml == nil {
			out.Linef("obs new ok=0")
			if !memErr {
				out.Linef("viol sig=C18/construct/error-although-total-memory-known %v", err)
			}
			out.Linef("stat new_error 1")
		} else {
			ml.ticker.Stop()
			now := !ml.lastGCDone.Before(t0) && !ml.lastGCDone.After(time.Now())
			out.Linef("obs new ok=1 limit=%d spike=%d ci=%d gs=%d gh=%d refuse=%d lastgcnow=%d", ml.usageChecker.memAllocLimit, ml.usageChecker.memSpikeLimit,
				int64(ml.memCheckWait), int64(ml.minGCIntervalWhenSoftLimited), int64(ml.minGCIntervalWhenHardLimited), vB(ml.MustRefuse()), vB(now))
			if memErr && cfg.MemoryLimitMiB == 0 {
				out.Linef("viol sig=C18/construct/no-error-although-total-memory-unknown limit=%d", ml.usageChecker.memAllocLimit)
			}
			if cfg.MemoryLimitMiB != 0 && calls != 0 {
				out.Linef("viol sig=C18/construct/total-memory-read-on-the-fixed-path calls=%d", calls)
			}
			if cfg.Validate() == nil && ml.usageChecker.memSpikeLimit > ml.usageChecker.memAllocLimit {
				sig := "C18/config/spike-above-limit-accepted"
				if cfg.MemoryLimitMiB == 0 && total >= 1<<57 {
					sig = "C18/config/percentage-of-total-overflows-uint64"
				}
				out.Linef("viol sig=%s total=%d limit=%d spike=%d", sig, total, ml.usageChecker.memAllocLimit, ml.usageChecker.memSpikeLimit)
			}
			if cfg.Validate() == nil {
				// usage exactly at the hard limit must be refused, whatever the total memory is
				lim := ml.usageChecker.memAllocLimit
				ml.readMemStatsFn = func(ms *runtime.MemStats) { ms.Alloc = lim }
				ml.runGCFn = func() {}
				ml.CheckMemLimits()
				if !ml.MustRefuse() {
					out.Linef("viol sig=C18/check/not-refusing-at-the-hard-limit total=%d limit=%d spike=%d", total, lim, ml.usageChecker.memSpikeLimit)
				}
				if total >= 1<<57 {
					out.Linef("stat big_total 1")
				}
			}
			out.Linef("stat new_ok 1")
		}
		if memErr && cfg.MemoryLimitMiB == 0 {
			out.Linef("nt")
		}
		out.Linef("end")
	}
}
