//go:build verif

package memorylimiterextension

import (
	"context"
	"runtime"
	"testing"
	"time"

	"go.uber.org/zap"

	"go.opentelemetry.io/collector/component/componenttest"
	"go.opentelemetry.io/collector/internal/memorylimiter"
)

// TestVerifC18Ext: the extension's MustRefuse is the limiter's mode after each check.
func TestVerifC18Ext(t *testing.T) {
	out := vOpen(t)
	defer out.Close()
	out.Linef("model c18-proc 1")
	var alloc uint64
	saved := memorylimiter.ReadMemStatsFn
	memorylimiter.ReadMemStatsFn = func(ms *runtime.MemStats) { ms.Alloc = alloc }
	defer func() { memorylimiter.ReadMemStatsFn = saved }()
	bg := context.Background()
	for _, idx := range vCases(vN(300)) {
		r := vRand(idx)
		out.Linef("case %d", idx)
		cfg := &Config{CheckInterval: time.Hour, MinGCIntervalWhenSoftLimited: time.Hour, MinGCIntervalWhenHardLimited: time.Hour,
			MemoryLimitMiB: 10, MemorySpikeLimitMiB: uint32(r.IntN(10))}
		ext, err := newMemoryLimiter(cfg, zap.NewNop())
		if err != nil {
			out.Linef("viol sig=C18/extension/create-failed %v", err)
			out.Linef("end")
			continue
		}
		// the extension is started / shut down with a live, an already cancelled or an already expired context
		dead := func() context.Context {
			switch (idx + r.IntN(2)) % 3 {
			case 1:
				ctx, cf := context.WithCancel(bg)
				cf()
				return ctx
			case 2:
				ctx, cf := context.WithDeadline(bg, time.Now().Add(-time.Second))
				_ = cf
				return ctx
			}
			return bg
		}
		if err := ext.Start(dead(), componenttest.NewNopHost()); err != nil {
			out.Linef("viol sig=C18/extension/start-failed %v", err)
		}
		spike := uint64(cfg.MemorySpikeLimitMiB) << 20
		if spike == 0 {
			spike = (10 << 20) / 5
		}
		soft := uint64(10<<20) - spike
		changes := 0
		prev := false
		for i := 0; i < 8; i++ {
			alloc = []uint64{0, soft - 1, soft, soft + 1, 11 << 20}[r.IntN(5)]
			ext.memLimiter.CheckMemLimits()
			out.Linef("op mustrefuse refusing=%d", vB(ext.memLimiter.MustRefuse()))
			got := ext.MustRefuse()
			out.Linef("obs ext %d", vB(got))
			if got != (alloc >= soft) {
				out.Linef("viol sig=C18/extension/mustrefuse-not-iff-above-soft alloc=%d soft=%d", alloc, soft)
			}
			if got != prev {
				changes++
			}
			prev = got
		}
		if err := ext.Shutdown(dead()); err != nil {
			out.Linef("viol sig=C18/extension/shutdown-failed %v", err)
		}
		// whatever context it left with, the extension has left: the limiter is stopped
		if err := ext.memLimiter.Shutdown(bg); err != memorylimiter.ErrShutdownNotStarted {
			out.Linef("viol sig=C18/refcount/limiter-still-running-after-extension-shutdown %v", err)
		}
		if changes >= 2 {
			out.Linef("nt")
		}
		out.Linef("end")
	}
}
