//go:build verif

package memorylimiterprocessor

import (
	"context"
	"errors"
	"runtime"
	"testing"
	"time"

	"go.opentelemetry.io/collector/component"
	"go.opentelemetry.io/collector/consumer"
	"go.opentelemetry.io/collector/consumer/xconsumer"
	"go.opentelemetry.io/collector/internal/memorylimiter"
	"go.opentelemetry.io/collector/pdata/plog"
	"go.opentelemetry.io/collector/pdata/pmetric"
	"go.opentelemetry.io/collector/pdata/pprofile"
	"go.opentelemetry.io/collector/pdata/ptrace"
	"go.opentelemetry.io/collector/processor/processortest"
)

// TestVerifC18Factory: which processors share a limiter. The factory caches one limiter per configuration KEY (the
// *Config pointer); a construction that fails (total memory unknown on the percentage path) caches nothing. Each limiter
// gets its own scripted memory reading, so that "sharing" is observed as behaviour: after a measurement on the limiter of
// key k every processor created for k answers with that verdict, the processors of the other keys keep theirs.
// Model: Factory.get (Model/C18Src.lean), theorems C18_factory_*.
func TestVerifC18Factory(t *testing.T) {
	out := vOpen(t)
	defer out.Close()
	out.Linef("model c18-factory 1")
	savedR, savedM := memorylimiter.ReadMemStatsFn, memorylimiter.GetMemoryFn
	defer func() { memorylimiter.ReadMemStatsFn, memorylimiter.GetMemoryFn = savedR, savedM }()
	bg := context.Background()
	for _, idx := range vCases(vN(300)) {
		r := vRand(idx)
		out.Linef("case %d", idx)
		nKeys := 2 + r.IntN(3)
		cfgs := make([]*Config, nKeys)
		allocs := make([]uint64, nKeys)
		for k := range cfgs {
			// keys 0 and 1 have EQUAL values (different pointers); odd keys > 1 use percentages
			cfgs[k] = &Config{CheckInterval: time.Hour, MinGCIntervalWhenSoftLimited: time.Hour, MinGCIntervalWhenHardLimited: time.Hour}
			if k < 2 || k%2 == 0 {
				cfgs[k].MemoryLimitMiB, cfgs[k].MemorySpikeLimitMiB = 100, 20
			} else {
				cfgs[k].MemoryLimitPercentage, cfgs[k].MemorySpikePercentage = 50, 10
			}
		}
		soft := func(k int) uint64 {
			if cfgs[k].MemoryLimitMiB != 0 {
				return 80 << 20
			}
			return 50*(1<<30)/100 - 10*(1<<30)/100
		}
		f := &factory{memoryLimiters: map[component.Config]*memoryLimiterProcessor{}}
		set := processortest.NewNopSettings(processortest.NopType)
		type proc struct {
			key, sig int
			consume  func() error
		}
		var procs []proc
		ids := map[*memoryLimiterProcessor]int{}
		down := 0
		nl, _ := consumer.NewLogs(func(context.Context, plog.Logs) error { down++; return nil })
		nt, _ := consumer.NewTraces(func(context.Context, ptrace.Traces) error { down++; return nil })
		nm, _ := consumer.NewMetrics(func(context.Context, pmetric.Metrics) error { down++; return nil })
		np, _ := xconsumer.NewProfiles(func(context.Context, pprofile.Profiles) error { down++; return nil })
		nCreate := 3 + r.IntN(6)
		shared, failed := false, false
		for c := 0; c < nCreate; c++ {
			k := r.IntN(nKeys)
			sig := r.IntN(4)
			memErr := cfgs[k].MemoryLimitMiB == 0 && r.IntN(3) == 0
			memorylimiter.GetMemoryFn = func() (uint64, error) {
				if memErr {
					return 0, errors.New("no total memory")
				}
				return 1 << 30, nil
			}
			kk := k
			memorylimiter.ReadMemStatsFn = func(ms *runtime.MemStats) { ms.Alloc = allocs[kk] }
			out.Linef("op create key=%d ok=%d", k, vB(!memErr))
			var err error
			var p proc
			p.key, p.sig = k, sig
			switch sig {
			case 0:
				var x interface {
					ConsumeLogs(context.Context, plog.Logs) error
				}
				x, err = f.createLogs(bg, set, cfgs[k], nl)
				p.consume = func() error { return x.ConsumeLogs(bg, plog.NewLogs()) }
			case 1:
				var x interface {
					ConsumeTraces(context.Context, ptrace.Traces) error
				}
				x, err = f.createTraces(bg, set, cfgs[k], nt)
				p.consume = func() error { return x.ConsumeTraces(bg, ptrace.NewTraces()) }
			case 2:
				var x interface {
					ConsumeMetrics(context.Context, pmetric.Metrics) error
				}
				x, err = f.createMetrics(bg, set, cfgs[k], nm)
				p.consume = func() error { return x.ConsumeMetrics(bg, pmetric.NewMetrics()) }
			default:
				var x interface {
					ConsumeProfiles(context.Context, pprofile.Profiles) error
				}
				x, err = f.createProfiles(bg, set, cfgs[k], np)
				p.consume = func() error { return x.ConsumeProfiles(bg, pprofile.NewProfiles()) }
			}
			mlp, cached := f.memoryLimiters[cfgs[k]]
			if err != nil {
				out.Linef("obs lim none")
				failed = true
				if cached {
					out.Linef("viol sig=C18/factory/failed-construction-cached key=%d", k)
				}
				continue
			}
			if !cached {
				out.Linef("obs lim uncached")
				continue
			}
			id, seen := ids[mlp]
			if !seen {
				id = len(ids)
				ids[mlp] = id
			} else {
				shared = true
			}
			out.Linef("obs lim %d", id)
			procs = append(procs, p)
		}
		// measurements on single limiters, then every processor is fed
		for round := 0; round < 3 && len(procs) > 0; round++ {
			p := procs[r.IntN(len(procs))]
			k := p.key
			allocs[k] = soft(k) - 1 + uint64(r.IntN(2))
			refuse := allocs[k] >= soft(k)
			f.memoryLimiters[cfgs[k]].memlimiter.CheckMemLimits()
			out.Linef("op measure key=%d refuse=%d", k, vB(refuse))
			for _, q := range procs {
				before := down
				err := q.consume()
				out.Linef("op feed key=%d", q.key)
				out.Linef("obs fed refused=%d", vB(errors.Is(err, memorylimiter.ErrDataRefused)))
				if (err == nil) != (down == before+1) || (err != nil && !errors.Is(err, memorylimiter.ErrDataRefused)) {
					out.Linef("viol sig=C18/factory/consume-neither-refused-nor-forwarded key=%d sig=%d err=%v", q.key, q.sig, err)
				}
			}
		}
		for _, mlp := range f.memoryLimiters {
			mlp.memlimiter.Shutdown(bg) //nolint:errcheck // never started: stops nothing, returns ErrShutdownNotStarted
		}
		out.Linef("stat limiters %d", len(ids))
		out.Linef("stat failed_constructions %d", vB(failed))
		if shared && len(ids) >= 2 {
			out.Linef("nt")
		}
		out.Linef("end")
	}
}
