//go:build verif && linux

package iruntime

import (
	"strconv"
	"testing"

	"go.opentelemetry.io/collector/internal/memorylimiter/cgroups"
)

// TestVerifC18Host: iruntime.TotalMemory on THIS machine against the decision regenerated from total_memory_linux.go
// (Gen.MemLimiter.TotalMemory = totalMemory, C18_src_total_memory): the inputs are what the cgroup functions and
// readMemInfo return here; one point of the input space only (the functions are not scriptable without editing the code).
func TestVerifC18Host(t *testing.T) {
	out := vOpen(t)
	defer out.Close()
	out.Linef("model c18-host 1")
	for _, idx := range vCases(vN(1)) {
		out.Linef("case %d", idx)
		q := "err"
		isV2, err := cgroups.IsCGroupV2()
		if err == nil {
			var quota int64
			var defined bool
			if isV2 {
				quota, defined, err = cgroups.MemoryQuotaV2()
			} else {
				var cg cgroups.CGroups
				cg, err = cgroups.NewCGroupsForCurrentProcess()
				if err == nil {
					quota, defined, err = cg.MemoryQuota()
				}
			}
			if err == nil {
				q = strconv.FormatInt(quota, 10) + ":" + strconv.Itoa(vB(defined))
			}
		}
		mi := "err"
		if m, err := readMemInfo(); err == nil {
			mi = strconv.FormatUint(m, 10)
		}
		out.Linef("op total q=%s mi=%s", q, mi)
		got, err := TotalMemory()
		if err != nil {
			out.Linef("obs total err")
		} else {
			out.Linef("obs total %d", got)
		}
		out.Linef("stat v2_%d 1", vB(isV2))
		out.Linef("nt")
		out.Linef("end")
	}
}
