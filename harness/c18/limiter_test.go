//go:build verif

package memorylimiter

import (
	"context"
	"math/rand/v2"
	"runtime"
	"testing"
	"testing/synctest"
	"time"

	"go.uber.org/zap"
)

// c18Ctx: the context handed to Start / Shutdown: 0 live, 1 already cancelled, 2 deadline already expired
func c18Ctx(kind int) (context.Context, context.CancelFunc) {
	switch kind {
	case 1:
		ctx, cf := context.WithCancel(context.Background())
		cf()
		return ctx, cf
	case 2:
		return context.WithDeadline(context.Background(), time.Now().Add(-time.Second))
	}
	return context.Background(), func() {}
}

func c18Code(err error) int {
	switch err {
	case nil:
		return 0
	case errCheckIntervalOutOfRange:
		return 1
	case errInconsistentGCMinInterval:
		return 2
	case errLimitOutOfRange:
		return 3
	case errLimitPercentageOutOfRange:
		return 4
	case errSpikeLimitOutOfRange:
		return 5
	case errSpikeLimitPercentageOutOfRange:
		return 6
	}
	return 99
}

func c18GenCfg(r *rand.Rand) (*Config, uint64) {
	durs := []time.Duration{0, time.Millisecond, time.Second, 10 * time.Second, time.Minute}
	cfg := &Config{CheckInterval: []time.Duration{time.Millisecond, time.Second, 7 * time.Second}[r.IntN(3)]}
	cfg.MinGCIntervalWhenSoftLimited = durs[r.IntN(len(durs))]
	cfg.MinGCIntervalWhenHardLimited = durs[r.IntN(len(durs))]
	if cfg.MinGCIntervalWhenSoftLimited < cfg.MinGCIntervalWhenHardLimited && r.IntN(8) != 0 {
		cfg.MinGCIntervalWhenSoftLimited, cfg.MinGCIntervalWhenHardLimited = cfg.MinGCIntervalWhenHardLimited, cfg.MinGCIntervalWhenSoftLimited
	}
	if r.IntN(2) == 0 {
		lims := []uint32{1, 2, 5, 6, 100, 4000, 1 << 20, 1<<32 - 1}
		cfg.MemoryLimitMiB = lims[r.IntN(len(lims))]
		switch r.IntN(6) {
		case 0:
			cfg.MemorySpikeLimitMiB = 0 // default 20 %
		case 1:
			cfg.MemorySpikeLimitMiB = cfg.MemoryLimitMiB - 1
		case 2:
			cfg.MemorySpikeLimitMiB = cfg.MemoryLimitMiB / 5
		case 3:
			cfg.MemorySpikeLimitMiB = 1
		default:
			cfg.MemorySpikeLimitMiB = uint32(r.Uint64N(uint64(cfg.MemoryLimitMiB)))
		}
		if r.IntN(4) == 0 { // fields of the other mode set as well (ignored by the constructor, seen by Validate)
			cfg.MemoryLimitPercentage = uint32(r.IntN(102))
			cfg.MemorySpikePercentage = uint32(r.IntN(102))
		}
	} else {
		cfg.MemoryLimitPercentage = []uint32{1, 2, 5, 50, 75, 99, 100}[r.IntN(7)]
		switch r.IntN(4) {
		case 0:
			cfg.MemorySpikePercentage = 0
		case 1:
			cfg.MemorySpikePercentage = cfg.MemoryLimitPercentage - 1
		default:
			cfg.MemorySpikePercentage = uint32(r.Uint64N(uint64(cfg.MemoryLimitPercentage)))
		}
		if r.IntN(4) == 0 {
			cfg.MemorySpikeLimitMiB = uint32(r.IntN(100))
		}
	}
	// malformed stream
	switch r.IntN(24) {
	case 0:
		cfg.CheckInterval = []time.Duration{0, -time.Second}[r.IntN(2)]
	case 1:
		cfg.MemoryLimitMiB, cfg.MemoryLimitPercentage = 0, 0
	case 2:
		cfg.MemorySpikeLimitMiB = cfg.MemoryLimitMiB + uint32(r.IntN(2))
	case 3:
		cfg.MemorySpikePercentage = cfg.MemoryLimitPercentage + uint32(r.IntN(2))
	case 4:
		cfg.MemoryLimitPercentage = 101 + uint32(r.IntN(3))
	case 5:
		cfg.MemorySpikePercentage = 101
	}
	// total memory
	totals := []uint64{0, 1, 19, 50, 99, 100, 101, 1 << 20, 1<<20 + 12345, 1 << 30, 3 << 32, 1 << 40, 1<<57 - 1}
	total := totals[r.IntN(len(totals))]
	if r.IntN(3) == 0 {
		total = r.Uint64N(1 << 57)
	}
	// the whole uint64 range (the repaired percentOf never overflows; round 1 stopped at 2^57)
	if r.IntN(6) == 0 {
		bigs := []uint64{0x7FFFFFFFFFFF0000, 1<<63 - 1, 1<<64 - 1, 1 << 57, 184467440737095516, 184467440737095517, 1 << 62}
		total = bigs[r.IntN(len(bigs))]
		if r.IntN(3) == 0 {
			total = 1<<57 + r.Uint64N(1<<64-1-1<<57)
		}
	}
	return cfg, total
}

func c18CfgLine(cfg *Config) string {
	return "ci=" + itoa(int64(cfg.CheckInterval)) + " gs=" + itoa(int64(cfg.MinGCIntervalWhenSoftLimited)) + " gh=" + itoa(int64(cfg.MinGCIntervalWhenHardLimited)) +
		" lm=" + utoa(uint64(cfg.MemoryLimitMiB)) + " sm=" + utoa(uint64(cfg.MemorySpikeLimitMiB)) + " lp=" + utoa(uint64(cfg.MemoryLimitPercentage)) + " sp=" + utoa(uint64(cfg.MemorySpikePercentage))
}

func itoa(v int64) string  { return string(appendInt(nil, v)) }
func utoa(v uint64) string { return string(appendUint(nil, v)) }
func appendInt(b []byte, v int64) []byte {
	if v < 0 {
		return appendUint(append(b, '-'), uint64(-v))
	}
	return appendUint(b, uint64(v))
}
func appendUint(b []byte, v uint64) []byte {
	var tmp [20]byte
	i := len(tmp)
	for {
		i--
		tmp[i] = byte('0' + v%10)
		v /= 10
		if v == 0 {
			break
		}
	}
	return append(b, tmp[i:]...)
}

type c18Step struct {
	dt    time.Duration
	r, g  uint64
	gcdur time.Duration
}

func c18GenSteps(r *rand.Rand, cfg *Config, limit, spike uint64) []c18Step {
	soft := limit - spike
	pts := []uint64{0, 1, soft - 1, soft, soft + 1, limit - 1, limit, limit + 1, limit * 2, ^uint64(0), soft / 2}
	pick := func() uint64 {
		if r.IntN(6) == 0 {
			if limit >= 1<<62 { // limit*2+2 would wrap (limits near 2^64 only occur with the whole-range totals)
				return r.Uint64()
			}
			return r.Uint64N(limit*2 + 2)
		}
		return pts[r.IntN(len(pts))]
	}
	gs, gh := cfg.MinGCIntervalWhenSoftLimited, cfg.MinGCIntervalWhenHardLimited
	dts := []time.Duration{0, 1, gs - 1, gs, gs + 1, gh - 1, gh, gh + 1, gs / 2, gh / 2, cfg.CheckInterval, 2 * gs}
	n := 1 + r.IntN(14)
	steps := make([]c18Step, n)
	for i := range steps {
		dt := dts[r.IntN(len(dts))]
		if dt < 0 {
			dt = 0
		}
		steps[i] = c18Step{dt: dt, r: pick(), g: pick()}
		if r.IntN(4) == 0 {
			steps[i].gcdur = []time.Duration{1, time.Millisecond, time.Second}[r.IntN(3)]
		}
	}
	return steps
}

// c18RunChecks: the real CheckMemLimits on a scripted history (virtual clock)
func c18RunChecks(t *testing.T, out *vOut, cfg *Config, total uint64, steps func(limit, spike uint64) []c18Step) {
	synctest.Test(t, func(t *testing.T) {
		saved := GetMemoryFn
		GetMemoryFn = func() (uint64, error) { return total, nil }
		defer func() { GetMemoryFn = saved }()
		defer func() {
			if p := recover(); p != nil {
				out.Linef("viol sig=C18/check/panic %v", p)
			}
		}()
		ml, err := NewMemoryLimiter(cfg, zap.NewNop())
		if err != nil {
			out.Linef("viol sig=C18/config/constructor-error %v", err)
			return
		}
		defer ml.ticker.Stop()
		start := time.Now()
		limit, spike := ml.usageChecker.memAllocLimit, ml.usageChecker.memSpikeLimit
		out.Linef("op mk total=%d", total)
		out.Linef("obs chk limit=%d spike=%d", limit, spike)
		if spike > limit {
			out.Linef("viol sig=C18/config/spike-above-limit-accepted limit=%d spike=%d", limit, spike)
		}
		var cur c18Step
		afterGC := false
		gcs := 0
		ml.readMemStatsFn = func(ms *runtime.MemStats) {
			if afterGC {
				ms.Alloc = cur.g
			} else {
				ms.Alloc = cur.r
			}
		}
		ml.runGCFn = func() { gcs++; time.Sleep(cur.gcdur); afterGC = true }
		sts := steps(limit, spike)
		crossings, gcTotal := 0, 0
		prev := false
		for _, st := range sts {
			time.Sleep(st.dt)
			cur, afterGC = st, false
			before := gcs
			out.Linef("op check now=%d r=%d gcdur=%d g=%d", int64(time.Since(start)), st.r, int64(st.gcdur), st.g)
			ml.CheckMemLimits()
			ran := gcs - before
			refuse := ml.MustRefuse()
			out.Linef("obs st refuse=%d gc=%d lastgc=%d", vB(refuse), ran, int64(ml.lastGCDone.Sub(start)))
			// direct oracle on the implementation, with exact (big) arithmetic on the soft limit
			latest := st.r
			if ran > 0 {
				latest = st.g
			}
			if spike <= limit && refuse != (latest >= limit-spike) {
				out.Linef("viol sig=C18/check/refuse-not-iff-latest-above-soft latest=%d soft=%d refuse=%v", latest, limit-spike, refuse)
			}
			if ran > 1 {
				out.Linef("viol sig=C18/check/more-than-one-gc-per-check n=%d", ran)
			}
			if refuse != prev {
				crossings++
			}
			prev = refuse
			gcTotal += ran
		}
		if crossings >= 2 || gcTotal >= 1 {
			out.Linef("nt")
		}
		out.Linef("stat checks %d", len(sts))
		out.Linef("stat gcs %d", gcTotal)
		out.Linef("stat mode_changes %d", crossings)
	})
}

func TestVerifC18Check(t *testing.T) {
	out := vOpen(t)
	defer out.Close()
	out.Linef("model c18-check 1")
	for _, idx := range vCases(vN(2000)) {
		r := vRand(idx)
		cfg, total := c18GenCfg(r)
		out.Linef("case %d", idx)
		out.Linef("op validate %s", c18CfgLine(cfg))
		code := c18Code(cfg.Validate())
		out.Linef("obs valid %d", code)
		out.Linef("stat valid_%d 1", code)
		if code == 0 {
			c18RunChecks(t, out, cfg, total, func(limit, spike uint64) []c18Step { return c18GenSteps(r, cfg, limit, spike) })
		}
		out.Linef("end")
		out.Flush()
	}
	if vThorough() {
		c18Exhaustive(t, out)
	}
}

// c18Exhaustive: every abstract history of length <= 4 over region {below, soft, hard} x gc-helps {no, yes} x
// time step {short, between the two intervals, long}
func c18Exhaustive(t *testing.T, out *vOut) {
	cfg := &Config{CheckInterval: time.Second, MinGCIntervalWhenSoftLimited: 10 * time.Second, MinGCIntervalWhenHardLimited: 2 * time.Second,
		MemoryLimitMiB: 100, MemorySpikeLimitMiB: 20}
	soft, hard := uint64(80*mibBytes), uint64(100*mibBytes)
	regions := []uint64{soft - 1, soft, hard}
	after := []uint64{hard + 5, soft - 1}
	dts := []time.Duration{time.Second, 5 * time.Second, 11 * time.Second}
	alphabet := len(regions) * len(after) * len(dts)
	idx := 20000000
	var rec func(prefix []int)
	rec = func(prefix []int) {
		if len(prefix) > 0 {
			out.Linef("case %d mode=exh", idx)
			idx++
			out.Linef("op validate %s", c18CfgLine(cfg))
			out.Linef("obs valid %d", c18Code(cfg.Validate()))
			c18RunChecks(t, out, cfg, 0, func(_, _ uint64) []c18Step {
				var s []c18Step
				for _, a := range prefix {
					s = append(s, c18Step{r: regions[a%3], g: after[(a/3)%2], dt: dts[a/6]})
				}
				return s
			})
			out.Linef("end")
		}
		if len(prefix) == 4 {
			return
		}
		for a := 0; a < alphabet; a++ {
			rec(append(append([]int{}, prefix...), a))
		}
	}
	rec(nil)
	out.Flush()
}

// TestVerifC18RC: Start/Shutdown of any number of sharers of one limiter in any order, interleaved with tick windows:
// one and a half check intervals pass with a scripted memory reading; we observe whether memory was read (the
// monitoring goroutine is alive AND its ticker fires) and the mode afterwards (the ticker really drives CheckMemLimits).
// A panic of Start/Shutdown (e.g. a double close) is recovered and reported as a violation with this case as replay.
func TestVerifC18RC(t *testing.T) {
	out := vOpen(t)
	defer out.Close()
	out.Linef("model c18-rc 1")
	corpus := [][]int{
		{0, 2, 1, 2, 0, 2, 1, 2},       // start tick shutdown tick START-AGAIN tick shutdown tick
		{1, 0, 0, 2, 1, 2, 1, 2, 1, 2}, // shutdown without start; two sharers
		{0, 0, 0, 1, 2, 1, 2, 1, 2},    // three sharers leave one by one (memory high all the time: they leave while refusing)
		{0, 0, 2, 1, 1, 0, 2},          // two sharers, refusing, both leave, one comes back (memory high all the time)
		{0, 2, 1, 2, 2, 0, 2, 1, 2},    // every Start / Shutdown with a DEAD context (cancelled / expired): a user that left has left
		{0, 0, 0, 2, 1, 1, 1, 2, 2},    // three sharers leave with dead contexts: the checker must stop
	}
	const soft = uint64(80 << 20)
	for _, idx := range vCases(vN(1500)) {
		r := vRand(idx)
		var ops []int
		if idx < len(corpus) {
			ops = corpus[idx]
		} else {
			n := 1 + r.IntN(16)
			for i := 0; i < n; i++ {
				ops = append(ops, []int{0, 0, 1, 1, 2}[r.IntN(5)])
			}
		}
		out.Linef("case %d", idx)
		func() {
			// synctest.Test itself panics when goroutines stay blocked after a recovered panic inside the bubble
			defer func() {
				if p := recover(); p != nil {
					out.Linef("viol sig=C18/refcount/panic-or-stuck-goroutine %v", p)
				}
			}()
			synctest.Test(t, func(t *testing.T) {
				// GC never due / always due / due after 2.5 s (soft) resp. 1.5 s (hard): the loop + GC composition and the
				// ticker's period (also after a re-arming restart) are compared through check / read / GC COUNTS per window
				gcCfgs := [][2]time.Duration{{time.Hour, time.Hour}, {0, 0}, {2500 * time.Millisecond, 1500 * time.Millisecond}}
				gc := gcCfgs[r.IntN(3)]
				switch idx {
				case 0, 1:
					gc = gcCfgs[0]
				case 2:
					gc = gcCfgs[1]
				case 3:
					gc = gcCfgs[2]
				}
				cfg := &Config{CheckInterval: time.Second, MemoryLimitMiB: 100, MemorySpikeLimitMiB: 20,
					MinGCIntervalWhenSoftLimited: gc[0], MinGCIntervalWhenHardLimited: gc[1]}
				ml, err := NewMemoryLimiter(cfg, zap.NewNop())
				if err != nil {
					t.Fatal(err)
				}
				start := time.Now()
				out.Linef("op rccfg gs=%d gh=%d ci=%d", int64(gc[0]), int64(gc[1]), int64(cfg.CheckInterval))
				reads, gcs := 0, 0
				alloc, after := uint64(1), uint64(1)
				afterGC := false
				ml.readMemStatsFn = func(ms *runtime.MemStats) {
					reads++
					if afterGC {
						ms.Alloc, afterGC = after, false
					} else {
						ms.Alloc = alloc
					}
				}
				ml.runGCFn = func() { gcs++; afterGC = true }
				users, restarts := 0, 0
				totalChecks, totalGCs := 0, 0
				everZero := false
				call := func(name string, f func() error) (err error, panicked bool) {
					defer func() {
						if p := recover(); p != nil {
							out.Linef("viol sig=C18/refcount/panic-in-%s %v", name, p)
							panicked = true
						}
					}()
					return f(), false
				}
				defer func() {
					// leave no goroutine and no armed ticker behind, whatever happened
					for i := 0; i < 64; i++ {
						if err, p := call("cleanup", func() error { return ml.Shutdown(context.Background()) }); err != nil || p {
							break
						}
					}
					ml.ticker.Stop()
				}()
				// the mode right after a start / shutdown, before any time passes: no reading is taken by these calls, so it must
				// still be the verdict of the most recent measurement (= what we saw last)
				lastRefuse := false
				opReads := 0
				mode := func(what string) {
					now := ml.MustRefuse()
					meas := reads - opReads
					out.Linef("obs mode refuse=%d meas=%d", vB(now), meas)
					if meas == 0 && now != lastRefuse {
						out.Linef("viol sig=C18/shared/refusal-changed-without-a-measurement/%s before=%v after=%v users=%d", what, lastRefuse, now, users)
					}
					lastRefuse = now
				}
				// the context of every Start / Shutdown: live, already cancelled or already expired (corpus cases 4-5: all dead)
				ctxKind := func() int {
					if idx == 4 || idx == 5 {
						return 1 + (idx+users)%2
					}
					if idx < 4 || r.IntN(3) != 0 {
						return 0
					}
					return 1 + r.IntN(2)
				}
				deadCtx := 0
				_ = deadCtx
				for _, op := range ops {
					opReads = reads
					switch op {
					case 0:
						ck := ctxKind()
						out.Linef("op start now=%d ctx=%d", int64(time.Since(start)), ck)
						ctx, cf := c18Ctx(ck)
						err, p := call("start", func() error { return ml.Start(ctx, nil) })
						cf()
						if p {
							return
						}
						out.Linef("obs rc err=%d", vB(err != nil))
						mode("start")
						if users == 0 && everZero {
							restarts++
						}
						users++
					case 1:
						ck := ctxKind()
						out.Linef("op shutdown ctx=%d", ck)
						ctx, cf := c18Ctx(ck)
						err, p := call("shutdown", func() error { return ml.Shutdown(ctx) })
						cf()
						if p {
							return
						}
						out.Linef("obs rc err=%d", vB(err != nil))
						mode("shutdown")
						if err == nil {
							users--
							if users == 0 {
								everZero = true
							}
						} else if err != ErrShutdownNotStarted {
							out.Linef("viol sig=C18/refcount/unexpected-error %v", err)
						}
					}
					// every op is followed by a window of virtual time (1, 1.5 or 2.5 check intervals) with a scripted reading
					// and GC effect; observed: how many checks, reads and forced GCs the monitoring goroutine made, and the mode
					pts := []uint64{0, soft - 1, soft, soft + 1, 100 << 20, 200 << 20}
					alloc, after = pts[r.IntN(len(pts))], pts[r.IntN(len(pts))]
					if idx == 2 || idx == 3 {
						alloc = 200 << 20
					}
					win := []time.Duration{cfg.CheckInterval, cfg.CheckInterval + cfg.CheckInterval/2, 2*cfg.CheckInterval + cfg.CheckInterval/2}[r.IntN(3)]
					beforeR, beforeG := reads, gcs
					a := time.Since(start)
					time.Sleep(win)
					synctest.Wait()
					out.Linef("op tick a=%d b=%d r=%d g=%d", int64(a), int64(time.Since(start)), alloc, after)
					lastRefuse = ml.MustRefuse()
					dR, dG := reads-beforeR, gcs-beforeG
					out.Linef("obs tick checks=%d reads=%d gcs=%d refuse=%d", dR-dG, dR, dG, vB(lastRefuse))
					totalChecks += dR - dG
					totalGCs += dG
				}
				if restarts > 0 || len(ops) > 4 {
					out.Linef("nt")
				}
				out.Linef("stat ops %d", len(ops))
				out.Linef("stat restarts_after_full_shutdown %d", restarts)
				out.Linef("stat ticker_checks %d", totalChecks)
				out.Linef("stat ticker_forced_gcs %d", totalGCs)
			})
		}()
		out.Linef("end")
		out.Flush()
	}
}
