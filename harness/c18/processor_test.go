//go:build verif

package memorylimiterprocessor

import (
	"context"
	"errors"
	"runtime"
	"testing"
	"time"

	"go.opentelemetry.io/collector/component"
	"go.opentelemetry.io/collector/component/componenttest"
	"go.opentelemetry.io/collector/consumer"
	"go.opentelemetry.io/collector/consumer/consumererror"
	"go.opentelemetry.io/collector/consumer/xconsumer"
	"go.opentelemetry.io/collector/internal/memorylimiter"
	"go.opentelemetry.io/collector/pdata/plog"
	"go.opentelemetry.io/collector/pdata/pmetric"
	"go.opentelemetry.io/collector/pdata/pprofile"
	"go.opentelemetry.io/collector/pdata/ptrace"
	"go.opentelemetry.io/collector/processor/processortest"
	"go.opentelemetry.io/otel/sdk/metric/metricdata"
)

// c18Sum: total of an int64 sum metric over all attribute sets (0 if it was never recorded)
func c18Sum(tel *componenttest.Telemetry, name string) int64 {
	m, err := tel.GetMetric(name)
	if err != nil {
		return 0
	}
	s, ok := m.Data.(metricdata.Sum[int64])
	if !ok {
		return 0
	}
	var total int64
	for _, dp := range s.DataPoints {
		total += dp.Value
	}
	return total
}

type c18Counts struct{ acc, ref, in, out int64 }

func c18Read(tel *componenttest.Telemetry) c18Counts {
	var c c18Counts
	for _, n := range []string{"log_records", "spans", "metric_points"} {
		c.acc += c18Sum(tel, "otelcol_processor_accepted_"+n)
		c.ref += c18Sum(tel, "otelcol_processor_refused_"+n)
	}
	c.in = c18Sum(tel, "otelcol_processor_incoming_items")
	c.out = c18Sum(tel, "otelcol_processor_outgoing_items")
	return c
}

// c18PCtx: 0 live, 1 already cancelled, 2 deadline already expired
func c18PCtx(kind int) (context.Context, context.CancelFunc) {
	switch kind {
	case 1:
		ctx, cf := context.WithCancel(context.Background())
		cf()
		return ctx, cf
	case 2:
		return context.WithDeadline(context.Background(), time.Now().Add(-time.Second))
	}
	return context.Background(), func() {}
}

type c18Down struct {
	calls int
	same  bool
	err   error
}

// TestVerifC18Proc: the four processors created by the real factory from ONE config share one limiter; memory
// readings are scripted through memorylimiter.ReadMemStatsFn; every consume is checked against a recording downstream.
func TestVerifC18Proc(t *testing.T) {
	out := vOpen(t)
	defer out.Close()
	out.Linef("model c18-proc 1")
	var alloc uint64
	savedR, savedM := memorylimiter.ReadMemStatsFn, memorylimiter.GetMemoryFn
	memorylimiter.ReadMemStatsFn = func(ms *runtime.MemStats) { ms.Alloc = alloc }
	memorylimiter.GetMemoryFn = func() (uint64, error) { return 1 << 30, nil }
	defer func() { memorylimiter.ReadMemStatsFn, memorylimiter.GetMemoryFn = savedR, savedM }()
	bg := context.Background()
	for _, idx := range vCases(vN(600)) {
		r := vRand(idx)
		out.Linef("case %d", idx)
		cfg := &Config{CheckInterval: time.Hour, MinGCIntervalWhenSoftLimited: time.Hour, MinGCIntervalWhenHardLimited: time.Hour}
		if r.IntN(2) == 0 {
			cfg.MemoryLimitMiB, cfg.MemorySpikeLimitMiB = 100, 20
		} else {
			cfg.MemoryLimitPercentage, cfg.MemorySpikePercentage = 50, 10
		}
		f := &factory{memoryLimiters: map[component.Config]*memoryLimiterProcessor{}}
		set := processortest.NewNopSettings(processortest.NopType)
		tel := componenttest.NewTelemetry()
		set.TelemetrySettings = tel.NewTelemetrySettings()
		down := &c18Down{}
		var sentL plog.Logs
		var sentT ptrace.Traces
		var sentM pmetric.Metrics
		var sentP pprofile.Profiles
		nl, _ := consumer.NewLogs(func(_ context.Context, ld plog.Logs) error { down.calls++; down.same = ld == sentL; return down.err })
		nt, _ := consumer.NewTraces(func(_ context.Context, td ptrace.Traces) error {
			down.calls++
			down.same = td == sentT
			return down.err
		})
		nm, _ := consumer.NewMetrics(func(_ context.Context, md pmetric.Metrics) error {
			down.calls++
			down.same = md == sentM
			return down.err
		})
		np, _ := xconsumer.NewProfiles(func(_ context.Context, pd pprofile.Profiles) error {
			down.calls++
			down.same = pd == sentP
			return down.err
		})
		pl, err1 := f.createLogs(bg, set, cfg, nl)
		pt, err2 := f.createTraces(bg, set, cfg, nt)
		pm, err3 := f.createMetrics(bg, set, cfg, nm)
		pp, err4 := f.createProfiles(bg, set, cfg, np)
		if err := errors.Join(err1, err2, err3, err4); err != nil {
			out.Linef("viol sig=C18/processor/create-failed %v", err)
			out.Linef("end")
			continue
		}
		if len(f.memoryLimiters) != 1 {
			out.Linef("viol sig=C18/processor/limiter-not-shared n=%d", len(f.memoryLimiters))
		}
		ml := f.memoryLimiters[cfg].memlimiter
		host := componenttest.NewNopHost()
		comps := []component.Component{pl, pt, pm, pp}
		nCtx := 0
		ctxKind := func() int {
			nCtx++
			if idx == 1 {
				return 1 + nCtx%2
			}
			if idx == 0 || r.IntN(3) != 0 {
				return 0
			}
			return 1 + r.IntN(2)
		}
		for _, c := range comps {
			// components are started and shut down with live, already cancelled or already expired contexts (case 1: all dead)
			sctx, scf := c18PCtx(ctxKind())
			var err error
			func() {
				defer func() {
					if p := recover(); p != nil {
						out.Linef("viol sig=C18/processor/panic-in-start %v", p)
					}
				}()
				err = c.Start(sctx, host)
			}()
			scf()
			if err != nil {
				out.Linef("viol sig=C18/processor/start-failed %v", err)
			}
		}
		soft := uint64(80 << 20)
		if cfg.MemoryLimitMiB == 0 {
			soft = 50*(1<<30)/100 - 10*(1<<30)/100
		}
		// a step = (reading, downstream answer, signal, payload shape, items). Shapes: 0 = resource>scope>n items;
		// zero-item payloads: 1 = completely empty, 2 = a resource only, 3 = resource>scope only, 4 = resource>scope>
		// empty leaf container (a metric without data points / a profile without samples; logs, traces: as 3).
		type step struct {
			alloc      uint64
			nx         string
			sig, shape int
			items      int
			// stop >= 0: shut that sharer down first (NO measurement), then feed EVERY live processor;
			// noMeasure: feed without a new CheckMemLimits - the mode must still be the verdict of the most recent measurement
			stop      int
			noMeasure bool
		}
		var steps []step
		if idx < 2 {
			// corpus: every signal x every shape x both modes x downstream ok / error / permanent error
			for sig := 0; sig < 4; sig++ {
				for shape := 0; shape <= 4; shape++ {
					for _, a := range []uint64{soft - 1, soft} {
						for _, nx := range []string{"ok", "err", "perm"} {
							st := step{alloc: a, nx: nx, sig: sig, shape: shape, stop: -1}
							if shape == 0 {
								st.items = 2
							}
							steps = append(steps, st)
						}
					}
				}
			}
			// sharers leave one by one without a measurement in between: first while refusing (case 0) / accepting (case 1)
			leaveAt := []uint64{soft, soft - 1}[idx]
			steps = append(steps, step{alloc: leaveAt, nx: "ok", sig: 0, items: 1, stop: -1})
			for k := 0; k < 3; k++ {
				steps = append(steps, step{nx: "ok", sig: k + 1, items: 1, stop: k, noMeasure: true})
			}
			steps = append(steps, step{alloc: soft + soft - 1 - leaveAt, nx: "ok", sig: 3, items: 1, stop: -1}, step{nx: "err", sig: 3, items: 1, stop: -1, noMeasure: true})
		} else {
			for i, n := 0, 4+r.IntN(12); i < n; i++ {
				st := step{alloc: []uint64{0, soft - 1, soft, soft + 1, soft * 2}[r.IntN(5)], nx: []string{"ok", "ok", "err", "perm"}[r.IntN(4)], sig: r.IntN(4), stop: -1}
				switch r.IntN(8) {
				case 0:
					st.stop, st.noMeasure = r.IntN(4), true
				case 1:
					st.noMeasure = true
				}
				if r.IntN(3) == 0 {
					st.shape = 1 + r.IntN(4)
				} else {
					st.items = 1 + r.IntN(4)
				}
				steps = append(steps, st)
			}
		}
		live := [4]bool{true, true, true, true}
		refusals, zeroFwd, consumes := 0, 0, 0
		consumeOne := func(i int, st step, refusing bool) {
			for !live[st.sig] { // a processor that has shut down is not fed
				st.sig = (st.sig + 1) % 4
			}
			consumes++
			nx := st.nx
			switch nx {
			case "ok":
				down.err = nil
			case "err":
				down.err = errors.New("downstream failed")
			case "perm":
				down.err = consumererror.NewPermanent(errors.New("downstream rejects"))
			}
			down.calls, down.same = 0, false
			sig, items := st.sig, st.items
			out.Linef("op consume refusing=%d next=%s sig=%d n=%d shape=%d", vB(refusing), nx, sig, items, st.shape)
			before := c18Read(tel)
			var err error
			switch sig {
			case 0:
				sentL = plog.NewLogs()
				if st.shape != 1 {
					rl := sentL.ResourceLogs().AppendEmpty()
					rl.Resource().Attributes().PutInt("case", int64(i))
					if st.shape != 2 {
						lrs := rl.ScopeLogs().AppendEmpty().LogRecords()
						for j := 0; j < items; j++ {
							lrs.AppendEmpty().Body().SetInt(int64(i))
						}
					}
				}
				if sentL.LogRecordCount() != items {
					out.Linef("viol sig=C18/harness/item-count-mismatch")
				}
				err = pl.ConsumeLogs(bg, sentL)
			case 1:
				sentT = ptrace.NewTraces()
				if st.shape != 1 {
					rs := sentT.ResourceSpans().AppendEmpty()
					rs.Resource().Attributes().PutInt("case", int64(i))
					if st.shape != 2 {
						ss := rs.ScopeSpans().AppendEmpty().Spans()
						for j := 0; j < items; j++ {
							ss.AppendEmpty().SetName("s")
						}
					}
				}
				if sentT.SpanCount() != items {
					out.Linef("viol sig=C18/harness/item-count-mismatch")
				}
				err = pt.ConsumeTraces(bg, sentT)
			case 2:
				sentM = pmetric.NewMetrics()
				if st.shape != 1 {
					rm := sentM.ResourceMetrics().AppendEmpty()
					rm.Resource().Attributes().PutInt("case", int64(i))
					if st.shape != 2 {
						ms := rm.ScopeMetrics().AppendEmpty().Metrics()
						if st.shape == 0 || st.shape == 4 {
							dps := ms.AppendEmpty().SetEmptyGauge().DataPoints()
							for j := 0; j < items; j++ {
								dps.AppendEmpty().SetIntValue(1)
							}
						}
					}
				}
				if sentM.DataPointCount() != items {
					out.Linef("viol sig=C18/harness/item-count-mismatch")
				}
				err = pm.ConsumeMetrics(bg, sentM)
			default:
				sentP = pprofile.NewProfiles()
				if st.shape != 1 {
					rp := sentP.ResourceProfiles().AppendEmpty()
					rp.Resource().Attributes().PutInt("case", int64(i))
					if st.shape != 2 {
						ps := rp.ScopeProfiles().AppendEmpty().Profiles()
						if st.shape == 0 || st.shape == 4 {
							smp := ps.AppendEmpty().Sample()
							for j := 0; j < items; j++ {
								smp.AppendEmpty()
							}
						}
					}
				}
				if sentP.SampleCount() != items {
					out.Linef("viol sig=C18/harness/item-count-mismatch")
				}
				err = pp.ConsumeProfiles(bg, sentP)
			}
			after := c18Read(tel)
			rs := "ok"
			switch {
			case err == nil:
			case errors.Is(err, memorylimiter.ErrDataRefused):
				rs = "refused"
			default:
				rs = "down perm=" + map[bool]string{false: "0", true: "1"}[consumererror.IsPermanent(err)]
				if err != down.err {
					out.Linef("viol sig=C18/processor/downstream-result-not-returned %v", err)
				}
			}
			out.Linef("obs res fwd=%d %s permanent=%d acc=%d ref=%d in=%d out=%d", vB(down.calls > 0), rs, vB(consumererror.IsPermanent(err)),
				after.acc-before.acc, after.ref-before.ref, after.in-before.in, after.out-before.out)
			// the property's clauses for this call, judged by the Lean oracle checkConsume (proved sound)
			out.Linef("tr oc refusing=%d fwd=%d same=%d nil=%d refused=%d perm=%d eqnext=%d", vB(refusing), vB(down.calls > 0), vB(down.calls == 1 && down.same),
				vB(err == nil), vB(errors.Is(err, memorylimiter.ErrDataRefused)), vB(consumererror.IsPermanent(err)), vB(err == down.err))
			// direct oracles
			if refusing {
				refusals++
				if down.calls != 0 || err == nil || consumererror.IsPermanent(err) {
					out.Linef("viol sig=C18/processor/refusing-but-forwarded-or-no-retryable-error calls=%d err=%v", down.calls, err)
				}
			} else {
				if down.calls != 1 || !down.same {
					out.Linef("viol sig=C18/processor/payload-not-forwarded-unmodified calls=%d same=%v items=%d shape=%d", down.calls, down.same, items, st.shape)
				}
				if items == 0 && down.calls == 1 {
					zeroFwd++
				}
				if err != down.err {
					out.Linef("viol sig=C18/processor/downstream-result-not-returned %v", err)
				}
			}
		}
		nLive, lastVerdict, sharedChecks := 4, false, 0
		for i, st := range steps {
			if st.stop >= 0 && live[st.stop] && nLive > 1 {
				// one sharer shuts down; nothing is measured
				k := st.stop
				out.Linef("op stopsharer %d", k)
				func() {
					defer func() {
						if p := recover(); p != nil {
							out.Linef("viol sig=C18/processor/panic-in-shutdown k=%d %v", k, p)
						}
					}()
					dctx, dcf := c18PCtx(ctxKind())
					err := comps[k].Shutdown(dctx)
					dcf()
					out.Linef("obs stopped err=%d", vB(err != nil))
				}()
				live[k] = false
				nLive--
			}
			if !st.noMeasure {
				alloc = st.alloc
				ml.CheckMemLimits()
				lastVerdict = alloc >= soft
				if ml.MustRefuse() != lastVerdict {
					out.Linef("viol sig=C18/check/refuse-not-iff-latest-above-soft alloc=%d soft=%d", alloc, soft)
				}
				consumeOne(i, st, lastVerdict)
				continue
			}
			// no measurement in this step: the mode is still the verdict of the most recent measurement
			what := "feed-without-a-new-measurement"
			if st.stop >= 0 {
				what = "shutdown-of-a-sharer"
			}
			if ml.MustRefuse() != lastVerdict {
				out.Linef("viol sig=C18/shared/refusal-changed-without-a-measurement/%s verdict=%v now=%v live=%d", what, lastVerdict, ml.MustRefuse(), nLive)
			}
			sharedChecks++
			if st.stop >= 0 {
				for sig := 0; sig < 4; sig++ { // every live processor
					if live[sig] {
						st2 := st
						st2.sig = sig
						consumeOne(i, st2, lastVerdict)
					}
				}
			} else {
				consumeOne(i, st, lastVerdict)
			}
		}
		// shut down three of the four sharers: the limiter must still be running (ref count 1), then the last one
		for k, c := range comps {
			if !live[k] {
				continue
			}
			func() {
				defer func() {
					if p := recover(); p != nil {
						out.Linef("viol sig=C18/processor/panic-in-shutdown k=%d %v", k, p)
					}
				}()
				dctx, dcf := c18PCtx(ctxKind())
				err := c.Shutdown(dctx)
				dcf()
				if err != nil {
					out.Linef("viol sig=C18/processor/shutdown-failed k=%d %v", k, err)
				}
			}()
		}
		func() {
			defer func() {
				if p := recover(); p != nil {
					out.Linef("viol sig=C18/processor/panic-in-shutdown limiter %v", p)
				}
			}()
			if err := ml.Shutdown(bg); !errors.Is(err, memorylimiter.ErrShutdownNotStarted) {
				out.Linef("viol sig=C18/refcount/limiter-still-running-after-last-processor-shutdown %v", err)
			}
		}()
		_ = tel.Shutdown(bg)
		n := consumes
		out.Linef("stat steps_without_measurement %d", sharedChecks)
		if refusals > 0 && refusals < n {
			out.Linef("nt")
		}
		out.Linef("stat consumes %d", n)
		out.Linef("stat zero_item_payloads_forwarded %d", zeroFwd)
		out.Linef("stat refusals %d", refusals)
		out.Linef("end")
		out.Flush()
	}
}
