//go:build verif

package memorylimiter

import (
	"context"
	"runtime"
	"sync"
	"sync/atomic"
	"testing"
	"time"

	"go.uber.org/zap"
)

// c18SCtx: 0 live, 1 already cancelled, 2 deadline already expired
func c18SCtx(kind int) (context.Context, context.CancelFunc) {
	switch kind {
	case 1:
		ctx, cf := context.WithCancel(context.Background())
		cf()
		return ctx, cf
	case 2:
		return context.WithDeadline(context.Background(), time.Now().Add(-time.Second))
	}
	return context.Background(), func() {}
}

// TestVerifC18Stress: the model treats Start / Shutdown as atomic steps (one label each) because the code takes
// refCounterLock; this test exercises that assumption with NATIVE goroutines in real time: N sharers do Start … Shutdown
// pairs concurrently (with a 200 µs ticker running checks in between). Every Shutdown that follows its own Start must
// succeed; afterwards the count is 0, the monitoring goroutine is gone (a further Shutdown answers ErrShutdownNotStarted,
// no reads happen any more) and no panic (double close) occurred. Run under -race in the `stress-race` harness.
// No model differential: monitor only (`viol` lines).
func TestVerifC18Stress(t *testing.T) {
	out := vOpen(t)
	defer out.Close()
	out.Linef("model c18-stress 1")
	for _, idx := range vCases(vN(20)) {
		r := vRand(idx)
		sharers := 2 + r.IntN(7)
		pairs := 5 + r.IntN(40)
		out.Linef("case %d sharers=%d pairs=%d", idx, sharers, pairs)
		cfg := &Config{CheckInterval: 200 * time.Microsecond, MemoryLimitMiB: 100, MemorySpikeLimitMiB: 20}
		ml, err := NewMemoryLimiter(cfg, zap.NewNop())
		if err != nil {
			t.Fatal(err)
		}
		var reads atomic.Int64
		ml.readMemStatsFn = func(ms *runtime.MemStats) { reads.Add(1); ms.Alloc = 1 }
		ml.runGCFn = func() {}
		var wg sync.WaitGroup
		var failed, panics atomic.Int64
		seeds := make([]uint64, sharers)
		for i := range seeds {
			seeds[i] = r.Uint64()
		}
		for g := 0; g < sharers; g++ {
			wg.Add(1)
			go func(g int) {
				defer wg.Done()
				defer func() {
					if p := recover(); p != nil {
						panics.Add(1)
					}
				}()
				x := seeds[g] | 1
				for i := 0; i < pairs; i++ {
					// a third of the calls with an already cancelled / expired context: Start and Shutdown ignore it
					sctx, scf := c18SCtx(int(x>>20) % 3 * int((x>>24)%2))
					if err := ml.Start(sctx, nil); err != nil {
						failed.Add(1)
					}
					scf()
					x ^= x << 13
					x ^= x >> 7
					x ^= x << 17
					switch x % 4 {
					case 0:
						runtime.Gosched()
					case 1:
						time.Sleep(time.Duration(x%300) * time.Microsecond)
					}
					dctx, dcf := c18SCtx(int(x>>28) % 3 * int((x>>32)%2))
					if err := ml.Shutdown(dctx); err != nil {
						failed.Add(1) // its own Start precedes: the count cannot be 0 here, whatever the context
					}
					dcf()
				}
			}(g)
		}
		done := make(chan struct{})
		go func() { wg.Wait(); close(done) }()
		select {
		case <-done:
		case <-time.After(20 * time.Second):
			out.Linef("viol sig=C18/refcount/concurrent-start-shutdown-stuck sharers=%d pairs=%d", sharers, pairs)
			out.Linef("end")
			out.Flush()
			continue
		}
		if n := panics.Load(); n > 0 {
			out.Linef("viol sig=C18/refcount/concurrent-start-shutdown-panic n=%d", n)
		}
		if n := failed.Load(); n > 0 {
			out.Linef("viol sig=C18/refcount/concurrent-start-shutdown-lost-count errors=%d", n)
		}
		ml.refCounterLock.Lock()
		rc := ml.refCounter
		ml.refCounterLock.Unlock()
		if rc != 0 {
			out.Linef("viol sig=C18/refcount/concurrent-start-shutdown-lost-count final=%d", rc)
		} else if err := ml.Shutdown(context.Background()); err != ErrShutdownNotStarted {
			out.Linef("viol sig=C18/refcount/concurrent-start-shutdown-lost-count final-shutdown=%v", err)
		}
		before := reads.Load()
		time.Sleep(3 * time.Millisecond)
		if after := reads.Load(); after != before && rc == 0 {
			out.Linef("viol sig=C18/refcount/checking-after-last-shutdown reads=%d", after-before)
		}
		ml.ticker.Stop()
		out.Linef("nt")
		out.Linef("stat pairs %d", sharers*pairs)
		out.Linef("stat checks_during_stress %d", before)
		out.Linef("end")
		out.Flush()
	}
}
