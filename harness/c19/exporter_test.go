//go:build verif

package exporterhelper

// C19 harness, exporter clause: the C03 scenario generator and runner (harness/c03/shutdown_test.go, injected next to this file)
// with component-test telemetry. After each case the three item counters are read from the real meter provider
// (`obs counters …`, compared with the Lean model's prediction from the recorded trace) and just before Shutdown is
// requested, at a quiescent point, the queue size / capacity gauges are read and compared with a ledger of the sends
// (`tr gauge …`). The balance oracle itself is evaluated in Lean on the implementation's counters (prop lines).

import (
	"context"
	"math"
	"testing"
	"testing/synctest"
	"time"

	"go.opentelemetry.io/otel/sdk/metric/metricdata"

	"go.opentelemetry.io/collector/component/componenttest"
	"go.opentelemetry.io/collector/exporter/exportertest"
)

func c19Metric(tel *componenttest.Telemetry, name string) (int64, bool) {
	m, err := tel.GetMetric(name)
	if err != nil {
		return 0, false
	}
	var v int64
	switch d := m.Data.(type) {
	case metricdata.Sum[int64]:
		for _, dp := range d.DataPoints {
			v += dp.Value
		}
	case metricdata.Gauge[int64]:
		for _, dp := range d.DataPoints {
			v += dp.Value
		}
	default:
		return 0, false
	}
	return v, true
}

// c19ExpectedSize: what the queue holds (queued + being processed) according to the ledger of the sends, when it can be told.
func c19ExpectedSize(cs *c03Case, evs []c03Ev) (int64, bool) {
	started := map[int][]int{}
	returned := map[int]bool{}
	rejected := map[int]bool{}
	type fl struct {
		last   int
		ended  bool
		failed bool
	}
	roots := c03Roots(evs)
	flights := map[int]*fl{}
	rootItems := map[int][]int{}
	for _, e := range evs {
		switch e.kind {
		case "ss":
			started[e.id] = e.ids
		case "acc":
			returned[e.id] = true
		case "rej":
			returned[e.id] = true
			rejected[e.id] = true
		case "es":
			r := roots[e.id]
			if flights[r] == nil {
				rootItems[r] = e.ids
			}
			flights[r] = &fl{last: e.id}
		case "ee":
			if f := flights[roots[e.id]]; f != nil && f.last == e.id {
				f.ended = true
				f.failed = e.failed
			}
		}
	}
	done := map[int]bool{}
	for r, f := range flights {
		if !f.ended {
			continue
		}
		if f.failed && cs.cfg.retry {
			// the scripted permanent error is what the call returned unless the timeout sender's deadline cut the call short
			perm := f.last < len(cs.backend) && cs.backend[f.last].outcome == 2 &&
				!(cs.cfg.timeout > 0 && cs.backend[f.last].dur >= cs.cfg.timeout)
			if !perm {
				return 0, false // back-off or retries exhausted: cannot be told from outside
			}
		}
		for _, x := range rootItems[r] {
			done[x] = true
		}
	}
	if cs.cfg.sizer == "bytes" {
		return 0, false // the ledger is kept in requests / items
	}
	waits := cs.cfg.wfr || !cs.cfg.queue
	var size int64
	for rid, ids := range started {
		if rejected[rid] {
			continue
		}
		if !returned[rid] && !waits {
			return 0, false // blocked on overflow: not in the queue yet
		}
		all := true
		for _, x := range ids {
			if !done[x] {
				all = false
			}
		}
		if all {
			continue
		}
		if cs.cfg.sizer == "items" && cs.cfg.queue {
			size += int64(len(ids))
		} else {
			size++
		}
	}
	if cs.cfg.persistent && size != 0 {
		// persistent_queue resets its size when everything has been dispatched: equality only for "nothing outstanding"; otherwise the
		// UPPER BOUND "gauge <= sizes of the requests whose Done has not fired" (Lean: C19_gauge_persistent_le) — negative = bound
		return -size, false
	}
	return size, true
}

func c19Corpus() []*c03Case {
	ms := time.Millisecond
	send := func(at time.Duration, rid, n int) c03Act { return c03Act{at: at, rid: rid, n: n} }
	sd := func(at time.Duration) c03Act { return c03Act{at: at, shutdown: true} }
	return []*c03Case{
		// DESIGN §C19 (2): persistent queue, retries waiting when shutdown is requested: counted send-failed and still stored
		{cfg: c03Cfg{queue: true, persistent: true, sizer: "requests", capacity: 100, consumers: 1, retry: true, initial: time.Second},
			acts: []c03Act{send(0, 1, 1), send(0, 2, 1), send(0, 3, 1), sd(500 * ms)}, backend: []c03Call{{0, 1}, {0, 1}, {0, 1}, {0, 1}}},
		// wait_for_result with a failing export: the error comes back through Offer
		{cfg: c03Cfg{queue: true, sizer: "requests", capacity: 100, consumers: 1, wfr: true},
			acts: []c03Act{send(0, 1, 4), send(ms, 2, 3), sd(time.Second)}, backend: []c03Call{{0, 2}, {0, 0}}},
		// queue full: refusals
		{cfg: c03Cfg{queue: true, sizer: "requests", capacity: 2, consumers: 1},
			acts:    []c03Act{send(0, 1, 2), send(0, 2, 2), send(0, 3, 2), send(0, 4, 2), send(0, 5, 2), sd(10 * time.Second)},
			backend: []c03Call{{time.Second, 0}, {time.Second, 1}}},
	}
}

// corpus cases added later: run AFTER the shared ones so that no earlier case index moves
func c19CorpusTail() []*c03Case {
	ms := time.Millisecond
	send := func(at time.Duration, rid, n int) c03Act { return c03Act{at: at, rid: rid, n: n} }
	sd := func(at time.Duration) c03Act { return c03Act{at: at, shutdown: true} }
	return []*c03Case{
		// persistent queue sized by items, one consumer: request 1 (slow) is read alone (size reset to 0), 2-4 arrive behind it (size 8);
		// 1 ends (clamped release), 2 fails permanently, 3 is in a slow call and 4 still queued when the gauge is read before send 6:
		// size gauge <= 2+2, the sizes of the requests whose Done has not fired (C19_gauge_persistent_le; the real value is 1)
		{cfg: c03Cfg{queue: true, persistent: true, sizer: "items", capacity: 100, consumers: 1},
			acts:    []c03Act{send(0, 1, 3), send(ms, 2, 4), send(2*ms, 3, 2), send(3*ms, 4, 2), send(2000*ms, 6, 1), sd(20 * time.Second)},
			backend: []c03Call{{time.Second, 0}, {0, 2}, {5 * time.Second, 0}, {0, 0}, {0, 0}}},
	}
}

func TestVerifC19Exporter(t *testing.T) {
	out := vOpen(t)
	defer out.Close()
	out.Linef("model c19-exp 1")
	n := vN(300)
	corpus := append(append(c19Corpus(), c03Corpus()...), c19CorpusTail()...)
	synctest.Test(t, func(t *testing.T) {
		for _, c := range vCases(n) {
			var cs *c03Case
			if c < len(corpus) {
				cs = corpus[c]
			} else if cs = c03Systematic(c, len(corpus), 25); cs == nil {
				cs = c03Gen(c)
			}
			tel := componenttest.NewTelemetry()
			set := exportertest.NewNopSettings(exportertest.NopType)
			set.TelemetrySettings = tel.NewTelemetrySettings()
			direct := !cs.cfg.queue && cs.cfg.batch == 0 // no queue: no gauges, no enqueue-failed counter
			nGauge, nComparable, nBounded := 0, 0, 0
			run := c03Exec(cs, set, func(run *c03Run) {
				// called at quiescent points: before some of the sends (requests queued, batched, in flight, in back-off) and just
				// before Shutdown is requested.  (After Shutdown the gauges are gone: obsQueue.Shutdown unregisters the callbacks.)
				if direct {
					return
				}
				run.mu.Lock()
				after := false
				for _, e := range run.evs {
					if e.kind == "shutreq" {
						after = true
					}
				}
				run.mu.Unlock()
				if after {
					return // a late send: the gauges are unregistered by then
				}
				synctest.Wait()
				size, ok1 := c19Metric(tel, "otelcol_exporter_queue_size")
				capv, ok2 := c19Metric(tel, "otelcol_exporter_queue_capacity")
				if !ok1 || !ok2 {
					run.log(c03Ev{kind: "gauge", s: "missing"})
					return
				}
				run.mu.Lock()
				exp, known := c19ExpectedSize(cs, run.evs)
				run.mu.Unlock()
				expCap := cs.cfg.capacity
				if !cs.cfg.queue {
					expCap = math.MaxInt
				}
				es := "?"
				mx := "?"
				nGauge++
				if known {
					es = c03Join([]int{int(exp)})
					nComparable++
				} else if exp < 0 {
					mx = c03Join([]int{int(-exp)})
					nBounded++
				}
				run.log(c03Ev{kind: "gauge", s: "size=" + c03Join([]int{int(size)}) + " cap=" + c03D(time.Duration(capv)) + " expsize=" + es + " expcap=" + c03D(time.Duration(expCap)) + " maxsize=" + mx})
			})
			c03EmitOps(out, c, cs)
			if run.buildErr != nil {
				out.Linef("tr builderr %s", vHex(run.buildErr.Error()))
				out.Linef("obs skipped")
				out.Linef("end")
				_ = tel.Shutdown(context.Background())
				continue
			}
			c03EmitTrace(out, cs, run)
			unit := []string{"log_records", "spans", "metric_points"}[cs.cfg.signal]
			sent, _ := c19Metric(tel, "otelcol_exporter_sent_"+unit)
			failed, _ := c19Metric(tel, "otelcol_exporter_send_failed_"+unit)
			enq, _ := c19Metric(tel, "otelcol_exporter_enqueue_failed_"+unit)
			// the other signals' counters must stay untouched
			for i, u := range []string{"log_records", "spans", "metric_points"} {
				if i == cs.cfg.signal {
					continue
				}
				for _, k := range []string{"sent_", "send_failed_", "enqueue_failed_"} {
					if v, ok := c19Metric(tel, "otelcol_exporter_"+k+u); ok && v != 0 {
						out.Linef("viol sig=C19/exporter/foreign-signal-counter-moved metric=%s%s value=%d signal=%s", k, u, v, c03SigName[cs.cfg.signal])
					}
				}
			}
			out.Linef("obs counters sent=%d failed=%d enq=%d", sent, failed, enq)
			v := c03Judge(cs, run)
			if v.nFailed > 0 && v.nRej > 0 {
				out.Linef("nt")
			}
			out.Linef("stat calls %d", v.nCalls)
			out.Linef("stat failed_calls %d", v.nFailed)
			out.Linef("stat accepted %d", v.nAcc)
			out.Linef("stat refused %d", v.nRej)
			out.Linef("stat signal_%s 1", c03SigName[cs.cfg.signal])
			out.Linef("stat gauge_reads %d", nGauge)
			out.Linef("stat gauge_size_compared %d", nComparable)
			out.Linef("stat gauge_size_not_comparable %d", nGauge-nComparable)
			out.Linef("stat gauge_size_bounded_persistent %d", nBounded)
			if (cs.cfg.batch == 0 || cs.cfg.wrap) && !direct && v.returned {
				out.Linef("stat lts_replayable 1")
			} else {
				out.Linef("stat lts_not_replayable 1")
			}
			out.Linef("end")
			out.Flush()
			_ = tel.Shutdown(context.Background())
			if run.hung {
				return
			}
		}
	})
}
