//go:build verif

package obsconsumer

// C19 harness, obsconsumer clause: the real obsconsumer.New{Logs,Metrics,Traces,Profiles} wrappers (1-3 per case, each with its
// own counter instrument and 0-8 static data-point attributes of mixed value types) around a scripted downstream consumer that
// accepts or refuses, optionally after taking ownership of the payload (MutatesData + MoveAndAppendTo). After every call ALL
// instruments are read with a manual reader: value under exactly {outcome=success}+static, under exactly {outcome=failure}+static,
// and the sum under any other attribute set. Exact differential with the Lean model + the per-outcome ledger oracle in Lean.

import (
	"context"
	"errors"
	"fmt"
	"strings"
	"testing"

	"go.opentelemetry.io/otel/attribute"
	"go.opentelemetry.io/otel/metric"
	sdkmetric "go.opentelemetry.io/otel/sdk/metric"
	"go.opentelemetry.io/otel/sdk/metric/metricdata"

	"go.opentelemetry.io/collector/consumer"
	"go.opentelemetry.io/collector/consumer/xconsumer"
	"go.opentelemetry.io/collector/pdata/plog"
	"go.opentelemetry.io/collector/pdata/pmetric"
	"go.opentelemetry.io/collector/pdata/pprofile"
	"go.opentelemetry.io/collector/pdata/ptrace"
)

type c19oNext struct {
	err   error
	empty bool
	got   int // items received at call entry (ledger)
}

func (n *c19oNext) Capabilities() consumer.Capabilities {
	return consumer.Capabilities{MutatesData: n.empty}
}
func (n *c19oNext) ConsumeLogs(_ context.Context, ld plog.Logs) error {
	n.got = ld.LogRecordCount()
	if n.empty {
		ld.ResourceLogs().MoveAndAppendTo(plog.NewLogs().ResourceLogs())
	}
	return n.err
}
func (n *c19oNext) ConsumeMetrics(_ context.Context, md pmetric.Metrics) error {
	n.got = md.DataPointCount()
	if n.empty {
		md.ResourceMetrics().MoveAndAppendTo(pmetric.NewMetrics().ResourceMetrics())
	}
	return n.err
}
func (n *c19oNext) ConsumeTraces(_ context.Context, td ptrace.Traces) error {
	n.got = td.SpanCount()
	if n.empty {
		td.ResourceSpans().MoveAndAppendTo(ptrace.NewTraces().ResourceSpans())
	}
	return n.err
}
func (n *c19oNext) ConsumeProfiles(_ context.Context, pd pprofile.Profiles) error {
	n.got = pd.SampleCount()
	if n.empty {
		pd.ResourceProfiles().MoveAndAppendTo(pprofile.NewProfiles().ResourceProfiles())
	}
	return n.err
}

type c19oInst struct {
	sig     int // 0 logs 1 metrics 2 traces 3 profiles
	name    string
	static  []attribute.KeyValue
	next    *c19oNext
	consume func(ctx context.Context, n int) error
}

func c19oStatic(k int, salt int) []attribute.KeyValue {
	var out []attribute.KeyValue
	for j := 0; j < k; j++ {
		key := fmt.Sprintf("k%d", j)
		switch (j + salt) % 4 {
		case 0:
			out = append(out, attribute.String(key, fmt.Sprintf("v%d", j+salt)))
		case 1:
			out = append(out, attribute.Int(key, j*7+salt))
		case 2:
			out = append(out, attribute.Bool(key, (j+salt)%2 == 0))
		default:
			out = append(out, attribute.String(key, "outcome")) // a value that looks like the outcome key
		}
	}
	return out
}

func c19oMake(i, sig, k, salt int, meter metric.Meter) (*c19oInst, error) {
	inst := &c19oInst{sig: sig, name: fmt.Sprintf("c19_obs_%d", i), static: c19oStatic(k, salt), next: &c19oNext{}}
	counter, err := meter.Int64Counter(inst.name)
	if err != nil {
		return nil, err
	}
	var opts []Option
	for _, a := range inst.static {
		opts = append(opts, WithStaticDataPointAttribute(a))
	}
	switch sig {
	case 0:
		c := NewLogs(inst.next, counter, opts...)
		inst.consume = func(ctx context.Context, n int) error {
			ld := plog.NewLogs()
			if n > 0 {
				lrs := ld.ResourceLogs().AppendEmpty().ScopeLogs().AppendEmpty().LogRecords()
				for j := 0; j < n; j++ {
					lrs.AppendEmpty()
				}
			}
			return c.ConsumeLogs(ctx, ld)
		}
	case 1:
		c := NewMetrics(inst.next, counter, opts...)
		inst.consume = func(ctx context.Context, n int) error {
			md := pmetric.NewMetrics()
			if n > 0 {
				// n data points spread over gauge metrics of 1-2 points (items = points, not metrics)
				ms := md.ResourceMetrics().AppendEmpty().ScopeMetrics().AppendEmpty().Metrics()
				left := n
				for left > 0 {
					dps := ms.AppendEmpty().SetEmptyGauge().DataPoints()
					dps.AppendEmpty()
					left--
					if left > 0 {
						dps.AppendEmpty()
						left--
					}
				}
			}
			return c.ConsumeMetrics(ctx, md)
		}
	case 2:
		c := NewTraces(inst.next, counter, opts...)
		inst.consume = func(ctx context.Context, n int) error {
			td := ptrace.NewTraces()
			if n > 0 {
				ss := td.ResourceSpans().AppendEmpty().ScopeSpans().AppendEmpty().Spans()
				for j := 0; j < n; j++ {
					ss.AppendEmpty()
				}
			}
			return c.ConsumeTraces(ctx, td)
		}
	default:
		c := NewProfiles(xconsumer.Profiles(inst.next), counter, opts...)
		inst.consume = func(ctx context.Context, n int) error {
			pd := pprofile.NewProfiles()
			if n > 0 {
				ps := pd.ResourceProfiles().AppendEmpty().ScopeProfiles().AppendEmpty().Profiles()
				left := n
				for left > 0 {
					p := ps.AppendEmpty()
					p.Sample().AppendEmpty()
					left--
					if left > 0 {
						p.Sample().AppendEmpty()
						left--
					}
				}
			}
			return c.ConsumeProfiles(ctx, pd)
		}
	}
	return inst, nil
}

// c19oRead: per instance success / failure / other, by exact attribute set
func c19oRead(reader *sdkmetric.ManualReader, insts []*c19oInst) (string, error) {
	var rm metricdata.ResourceMetrics
	if err := reader.Collect(context.Background(), &rm); err != nil {
		return "", err
	}
	byName := map[string]metricdata.Sum[int64]{}
	for _, sm := range rm.ScopeMetrics {
		for _, m := range sm.Metrics {
			if d, ok := m.Data.(metricdata.Sum[int64]); ok {
				byName[m.Name] = d
			}
		}
	}
	parts := make([]string, len(insts))
	for i, in := range insts {
		succ := attribute.NewSet(append([]attribute.KeyValue{attribute.String("outcome", "success")}, in.static...)...)
		fail := attribute.NewSet(append([]attribute.KeyValue{attribute.String("outcome", "failure")}, in.static...)...)
		var s, f, o int64
		for _, dp := range byName[in.name].DataPoints {
			switch {
			case dp.Attributes.Equals(&succ):
				s += dp.Value
			case dp.Attributes.Equals(&fail):
				f += dp.Value
			default:
				o += dp.Value
			}
		}
		parts[i] = fmt.Sprintf("%d:%d/%d/%d", i, s, f, o)
	}
	return strings.Join(parts, " "), nil
}

func TestVerifC19ObsConsumer(t *testing.T) {
	out := vOpen(t)
	defer out.Close()
	out.Linef("model c19-obs 1")
	n := vN(2000)
	ctx := context.Background()
	for _, c := range vCases(n) {
		rnd := vRand(c)
		reader := sdkmetric.NewManualReader()
		mp := sdkmetric.NewMeterProvider(sdkmetric.WithReader(reader))
		meter := mp.Meter("c19obs")
		out.Linef("case %d", c)
		nInst := 1 + rnd.IntN(3)
		var insts []*c19oInst
		failedMk := false
		for i := 0; i < nInst; i++ {
			sig := rnd.IntN(4)
			k := rnd.IntN(9)
			if i == 0 {
				// the first 36 cases are the corpus: every signal x every number 0..8 of static attributes
				sig, k = (c/9)%4, c%9
			}
			in, err := c19oMake(i, sig, k, rnd.IntN(5), meter)
			if err != nil {
				failedMk = true
				break
			}
			insts = append(insts, in)
			out.Linef("op mk i=%d sig=%d attrs=%d", i, sig, k)
			out.Linef("stat static_attrs_%d 1", k)
		}
		if failedMk {
			out.Linef("end")
			continue
		}
		nOps := 2 + rnd.IntN(14)
		sawOk, sawErr := false, false
		for j := 0; j < nOps; j++ {
			i := rnd.IntN(len(insts))
			in := insts[i]
			items := rnd.IntN(7)
			if j < 2 && i == 0 {
				items = 1 + rnd.IntN(6)
			}
			in.next.err = nil
			if (j == 1 && c < 36) || (j > 1 && rnd.IntN(3) == 0) {
				in.next.err = errors.New("refused")
			}
			if j == 0 && c < 36 {
				in.next.err = nil
			}
			in.next.empty = rnd.IntN(3) == 0
			in.next.got = -1
			err := in.consume(ctx, items)
			if (err != nil) != (in.next.err != nil) {
				out.Linef("viol sig=C19/obsconsumer/error-not-propagated instance=%d", i)
			}
			// the ledger of the downstream consumer is the input of the model
			out.Linef("op consume i=%d n=%d err=%d empty=%d", i, in.next.got, vB(in.next.err != nil), vB(in.next.empty))
			if in.next.got != items {
				out.Linef("viol sig=C19/obsconsumer/payload-changed-before-next got=%d sent=%d", in.next.got, items)
			}
			line, rerr := c19oRead(reader, insts)
			if rerr != nil {
				out.Linef("obs readerr")
			} else {
				out.Linef("obs cnt %s", line)
			}
			if in.next.got > 0 {
				if in.next.err == nil {
					sawOk = true
				} else {
					sawErr = true
				}
			}
		}
		if sawOk && sawErr {
			out.Linef("nt")
		}
		out.Linef("stat calls %d", nOps)
		out.Linef("end")
		out.Flush()
		_ = mp.Shutdown(ctx)
	}
}
