//go:build verif

package processorhelper

import (
	"context"
	"errors"
	"fmt"
	"math/rand/v2"
	"os"
	"testing"

	"go.opentelemetry.io/otel/attribute"
	"go.opentelemetry.io/otel/sdk/metric/metricdata"

	"go.opentelemetry.io/collector/component"
	"go.opentelemetry.io/collector/component/componenttest"
	"go.opentelemetry.io/collector/consumer"
	"go.opentelemetry.io/collector/pdata/plog"
	"go.opentelemetry.io/collector/pdata/pmetric"
	"go.opentelemetry.io/collector/pdata/ptrace"
	"go.opentelemetry.io/collector/processor"
)

func c19Collect(tt *componenttest.Telemetry) map[string][]metricdata.DataPoint[int64] {
	var rm metricdata.ResourceMetrics
	res := map[string][]metricdata.DataPoint[int64]{}
	if err := tt.Reader.Collect(context.Background(), &rm); err != nil {
		return res
	}
	for _, sm := range rm.ScopeMetrics {
		for _, m := range sm.Metrics {
			if sum, ok := m.Data.(metricdata.Sum[int64]); ok {
				res[m.Name] = append(res[m.Name], sum.DataPoints...)
			}
		}
	}
	return res
}

func c19Val(dps []metricdata.DataPoint[int64], want map[string]string) int64 {
	var total int64
	for _, dp := range dps {
		ok := true
		for k, v := range want {
			got, has := dp.Attributes.Value(attribute.Key(k))
			if !has || got.AsString() != v {
				ok = false
				break
			}
		}
		if ok {
			total += dp.Value
		}
	}
	return total
}

// payload generators: exactly n items spread over random resources / scopes (/ metric types)

func c19Logs(rnd *rand.Rand, n int) plog.Logs {
	ld := plog.NewLogs()
	if n == 0 && rnd.IntN(2) == 0 {
		ld.ResourceLogs().AppendEmpty().ScopeLogs().AppendEmpty() // empty containers, still 0 records
	}
	for n > 0 {
		sl := ld.ResourceLogs().AppendEmpty().ScopeLogs().AppendEmpty()
		k := 1 + rnd.IntN(n)
		for i := 0; i < k; i++ {
			sl.LogRecords().AppendEmpty().Body().SetStr("x")
		}
		n -= k
	}
	return ld
}

func c19Traces(rnd *rand.Rand, n int) ptrace.Traces {
	td := ptrace.NewTraces()
	if n == 0 && rnd.IntN(2) == 0 {
		td.ResourceSpans().AppendEmpty().ScopeSpans().AppendEmpty()
	}
	for n > 0 {
		ss := td.ResourceSpans().AppendEmpty().ScopeSpans().AppendEmpty()
		k := 1 + rnd.IntN(n)
		for i := 0; i < k; i++ {
			ss.Spans().AppendEmpty().SetName("s")
		}
		n -= k
	}
	return td
}

// c19Metrics: n data points; the number of metrics differs from n (several points per metric, empty metrics)
func c19Metrics(rnd *rand.Rand, n int) pmetric.Metrics {
	md := pmetric.NewMetrics()
	if rnd.IntN(3) == 0 {
		sm := md.ResourceMetrics().AppendEmpty().ScopeMetrics().AppendEmpty()
		sm.Metrics().AppendEmpty().SetName("typeless") // MetricTypeEmpty: a metric with no points
		sm.Metrics().AppendEmpty().SetEmptyGauge()     // a gauge with no points
	}
	for n > 0 {
		sm := md.ResourceMetrics().AppendEmpty().ScopeMetrics().AppendEmpty()
		for n > 0 && rnd.IntN(3) != 0 {
			k := 1 + rnd.IntN(min(n, 4))
			m := sm.Metrics().AppendEmpty()
			switch rnd.IntN(5) {
			case 0:
				dps := m.SetEmptyGauge().DataPoints()
				for i := 0; i < k; i++ {
					dps.AppendEmpty().SetIntValue(1)
				}
			case 1:
				dps := m.SetEmptySum().DataPoints()
				for i := 0; i < k; i++ {
					dps.AppendEmpty().SetDoubleValue(1)
				}
			case 2:
				dps := m.SetEmptyHistogram().DataPoints()
				for i := 0; i < k; i++ {
					dps.AppendEmpty().SetCount(1)
				}
			case 3:
				dps := m.SetEmptyExponentialHistogram().DataPoints()
				for i := 0; i < k; i++ {
					dps.AppendEmpty().SetCount(1)
				}
			default:
				dps := m.SetEmptySummary().DataPoints()
				for i := 0; i < k; i++ {
					dps.AppendEmpty().SetCount(1)
				}
			}
			n -= k
		}
	}
	return md
}

// in-place trimming to at most keep items (the "drops items" process function)

func c19TrimLogs(ld plog.Logs, keep int) {
	kept := 0
	for i := 0; i < ld.ResourceLogs().Len(); i++ {
		sls := ld.ResourceLogs().At(i).ScopeLogs()
		for j := 0; j < sls.Len(); j++ {
			sls.At(j).LogRecords().RemoveIf(func(plog.LogRecord) bool {
				if kept < keep {
					kept++
					return false
				}
				return true
			})
		}
	}
}

func c19TrimTraces(td ptrace.Traces, keep int) {
	kept := 0
	for i := 0; i < td.ResourceSpans().Len(); i++ {
		sss := td.ResourceSpans().At(i).ScopeSpans()
		for j := 0; j < sss.Len(); j++ {
			sss.At(j).Spans().RemoveIf(func(ptrace.Span) bool {
				if kept < keep {
					kept++
					return false
				}
				return true
			})
		}
	}
}

func c19TrimMetrics(md pmetric.Metrics, keep int) {
	kept := 0
	drop := func() bool {
		if kept < keep {
			kept++
			return false
		}
		return true
	}
	for i := 0; i < md.ResourceMetrics().Len(); i++ {
		sms := md.ResourceMetrics().At(i).ScopeMetrics()
		for j := 0; j < sms.Len(); j++ {
			ms := sms.At(j).Metrics()
			for k := 0; k < ms.Len(); k++ {
				m := ms.At(k)
				switch m.Type() {
				case pmetric.MetricTypeGauge:
					m.Gauge().DataPoints().RemoveIf(func(pmetric.NumberDataPoint) bool { return drop() })
				case pmetric.MetricTypeSum:
					m.Sum().DataPoints().RemoveIf(func(pmetric.NumberDataPoint) bool { return drop() })
				case pmetric.MetricTypeHistogram:
					m.Histogram().DataPoints().RemoveIf(func(pmetric.HistogramDataPoint) bool { return drop() })
				case pmetric.MetricTypeExponentialHistogram:
					m.ExponentialHistogram().DataPoints().RemoveIf(func(pmetric.ExponentialHistogramDataPoint) bool { return drop() })
				case pmetric.MetricTypeSummary:
					m.Summary().DataPoints().RemoveIf(func(pmetric.SummaryDataPoint) bool { return drop() })
				}
			}
		}
	}
}

type c19Script struct {
	kind    string // ok | err | skip
	out     int
	nextErr bool
	fresh   bool // ok: return a new payload instead of editing the given one
	wrap    bool // skip: wrapped sentinel; err: mutate the payload before failing
	zero    bool // err/skip: return the zero-value payload
	empty   bool // the next consumer takes ownership: it moves everything out of the payload before it returns
	sinkN   int  // ledger of the current call: items the next consumer received (counted at call entry), -1 = not called
}

var (
	c19ErrFunc = errors.New("c19 process function failed")
	c19ErrNext = errors.New("c19 next consumer failed")
)

func (s *c19Script) fail() error {
	if s.kind == "skip" {
		if s.wrap {
			return fmt.Errorf("nothing to do: %w", ErrSkipProcessingData)
		}
		return ErrSkipProcessingData
	}
	if s.wrap {
		return fmt.Errorf("outer: %w", c19ErrFunc)
	}
	return c19ErrFunc
}

func (s *c19Script) next() error {
	if s.nextErr {
		return c19ErrNext
	}
	return nil
}

// TestVerifC19Processor drives the real NewLogs / NewMetrics / NewTraces processors (sharing one telemetry,
// so their counters differ only in the otel.signal attribute) with scripted process-function and
// next-consumer outcomes and reads incoming/outgoing of all three signals after each call.
func TestVerifC19Processor(t *testing.T) {
	out := vOpen(t)
	defer out.Close()
	out.Linef("model c19-proc 1")
	n := vN(1500)
	sigName := []string{"t", "m", "l"}
	sigAttr := []string{"traces", "metrics", "logs"}
	// thorough: EXHAUSTIVE small scope, every history of length <= 2 over {3 signals} x {0, 2 items in} x
	// {ok out=0, ok out=2, ok out=3, ok out=1 + next consumer fails, process error, skip} x {next consumer keeps / empties the
	// payload}; index c19Exh+e = e-th history
	const c19Exh = 1000000
	alphabet := 72
	cases := vCases(n)
	if vThorough() && os.Getenv("VERIF_REPLAY_CASE") == "" {
		for e := 0; e < 1+alphabet+alphabet*alphabet; e++ {
			cases = append(cases, c19Exh+e)
		}
	}
	type opT struct {
		sig, in int
		sc      c19Script
	}
	for _, c := range cases {
		rnd := vRand(c)
		tt := componenttest.NewTelemetry()
		id := component.MustNewIDWithName("c19proc", "p")
		set := processor.Settings{ID: id, TelemetrySettings: tt.NewTelemetrySettings(), BuildInfo: component.NewDefaultBuildInfo()}
		s := &c19Script{}
		var opts []Option
		if rnd.IntN(2) == 0 {
			opts = append(opts, WithCapabilities(consumer.Capabilities{MutatesData: rnd.IntN(2) == 0}))
		}
		mut := consumer.WithCapabilities(consumer.Capabilities{MutatesData: true})
		lsink, _ := consumer.NewLogs(func(_ context.Context, ld plog.Logs) error {
			s.sinkN = ld.LogRecordCount()
			if s.empty { // as a batching consumer does: the resources now belong to it
				ld.ResourceLogs().MoveAndAppendTo(plog.NewLogs().ResourceLogs())
			}
			return s.next()
		}, mut)
		msink, _ := consumer.NewMetrics(func(_ context.Context, md pmetric.Metrics) error {
			s.sinkN = md.DataPointCount()
			if s.empty {
				md.ResourceMetrics().MoveAndAppendTo(pmetric.NewMetrics().ResourceMetrics())
			}
			return s.next()
		}, mut)
		tsink, _ := consumer.NewTraces(func(_ context.Context, td ptrace.Traces) error {
			s.sinkN = td.SpanCount()
			if s.empty {
				td.ResourceSpans().MoveAndAppendTo(ptrace.NewTraces().ResourceSpans())
			}
			return s.next()
		}, mut)
		lp, err1 := NewLogs(context.Background(), set, nil, lsink, func(_ context.Context, ld plog.Logs) (plog.Logs, error) {
			if s.kind != "ok" {
				if s.wrap {
					c19TrimLogs(ld, 0)
				}
				if s.zero {
					return plog.Logs{}, s.fail()
				}
				return ld, s.fail()
			}
			if s.fresh {
				return c19Logs(rnd, s.out), nil
			}
			have := ld.LogRecordCount()
			if s.out <= have {
				c19TrimLogs(ld, s.out)
			} else {
				c19Logs(rnd, s.out-have).ResourceLogs().MoveAndAppendTo(ld.ResourceLogs())
			}
			return ld, nil
		}, opts...)
		mp, err2 := NewMetrics(context.Background(), set, nil, msink, func(_ context.Context, md pmetric.Metrics) (pmetric.Metrics, error) {
			if s.kind != "ok" {
				if s.wrap {
					c19TrimMetrics(md, 0)
				}
				if s.zero {
					return pmetric.Metrics{}, s.fail()
				}
				return md, s.fail()
			}
			if s.fresh {
				return c19Metrics(rnd, s.out), nil
			}
			have := md.DataPointCount()
			if s.out <= have {
				c19TrimMetrics(md, s.out)
			} else {
				c19Metrics(rnd, s.out-have).ResourceMetrics().MoveAndAppendTo(md.ResourceMetrics())
			}
			return md, nil
		}, opts...)
		tp, err3 := NewTraces(context.Background(), set, nil, tsink, func(_ context.Context, td ptrace.Traces) (ptrace.Traces, error) {
			if s.kind != "ok" {
				if s.wrap {
					c19TrimTraces(td, 0)
				}
				if s.zero {
					return ptrace.Traces{}, s.fail()
				}
				return td, s.fail()
			}
			if s.fresh {
				return c19Traces(rnd, s.out), nil
			}
			have := td.SpanCount()
			if s.out <= have {
				c19TrimTraces(td, s.out)
			} else {
				c19Traces(rnd, s.out-have).ResourceSpans().MoveAndAppendTo(td.ResourceSpans())
			}
			return td, nil
		}, opts...)
		if err1 != nil || err2 != nil || err3 != nil {
			t.Fatal(err1, err2, err3)
		}
		var ops []opT
		mode := "rand"
		if c >= c19Exh {
			mode = "exh"
			e, length := c-c19Exh, 0
			for span := 1; e >= span; span *= alphabet {
				e -= span
				length++
			}
			for j := 0; j < length; j++ {
				a := e % alphabet
				e /= alphabet
				op := opT{sig: a % 3, in: 2 * ((a / 3) % 2), sc: c19Script{kind: "ok", sinkN: -1, empty: a/36 == 1}}
				switch (a / 6) % 6 {
				case 0:
					op.sc.out = 0
				case 1:
					op.sc.out = 2
				case 2:
					op.sc.out = 3
				case 3:
					op.sc.out, op.sc.nextErr = 1, true
				case 4:
					op.sc.kind = "err"
				default:
					op.sc.kind = "skip"
				}
				ops = append(ops, op)
			}
		} else if c < 6 {
			// corpus: one payload of 4 items per signal handed on unchanged to a next consumer that EMPTIES it and
			// succeeds (cases 0-2) / fails (cases 3-5)
			mode = "corpus"
			ops = append(ops, opT{sig: c % 3, in: 4, sc: c19Script{kind: "ok", out: 4, sinkN: -1, empty: true, nextErr: c >= 3}})
		} else {
			nops := rnd.IntN(21)
			for o := 0; o < nops; o++ {
				op := opT{sig: rnd.IntN(3), in: rnd.IntN(31)}
				if rnd.IntN(8) == 0 {
					op.in = 0
				}
				op.sc = c19Script{kind: "ok", sinkN: -1, wrap: rnd.IntN(2) == 0, zero: rnd.IntN(3) == 0, fresh: rnd.IntN(3) == 0}
				switch rnd.IntN(6) {
				case 0:
					op.sc.kind = "err"
				case 1:
					op.sc.kind = "skip"
				default:
					switch rnd.IntN(4) {
					case 0:
						op.sc.out = op.in // pass through
					case 1:
						op.sc.out = rnd.IntN(op.in + 1) // drops
					case 2:
						op.sc.out = op.in + 1 + rnd.IntN(10) // adds
					default:
						op.sc.out = rnd.IntN(40)
					}
					op.sc.nextErr = rnd.IntN(4) == 0
					op.sc.empty = rnd.IntN(3) == 0
				}
				ops = append(ops, op)
			}
		}
		out.Linef("case %d mode=%s", c, mode)
		nops := len(ops)
		changed, failed := false, false
		nEmpty := 0
		for _, op := range ops {
			sig, in := op.sig, op.in
			*s = op.sc
			if s.kind == "ok" {
				out.Linef("op proc sig=%s in=%d out=ok:%d:%d empty=%d", sigName[sig], in, s.out, vB(s.nextErr), vB(s.empty))
				if s.empty {
					nEmpty++
				}
				changed = changed || s.out != in
			} else {
				out.Linef("op proc sig=%s in=%d out=%s", sigName[sig], in, s.kind)
				failed = true
			}
			var err error
			panicked := false
			func() {
				defer func() {
					if r := recover(); r != nil {
						panicked = true
					}
				}()
				switch sig {
				case 0:
					err = tp.ConsumeTraces(context.Background(), c19Traces(rnd, in))
				case 1:
					err = mp.ConsumeMetrics(context.Background(), c19Metrics(rnd, in))
				case 2:
					err = lp.ConsumeLogs(context.Background(), c19Logs(rnd, in))
				}
			}()
			if panicked {
				out.Linef("obs panic")
				continue
			}
			ret := "nil"
			switch {
			case err == nil:
			case errors.Is(err, c19ErrFunc):
				ret = "ferr"
			case errors.Is(err, c19ErrNext):
				ret = "nerr"
			default:
				ret = "other"
			}
			m := c19Collect(tt)
			line := "obs cnt "
			for k := 0; k < 3; k++ {
				want := map[string]string{"processor": id.String(), "otel.signal": sigAttr[k]}
				if k > 0 {
					line += ","
				}
				line += fmt.Sprintf("%d/%d", c19Val(m["otelcol_processor_incoming_items"], want), c19Val(m["otelcol_processor_outgoing_items"], want))
			}
			sink := "-"
			if s.sinkN >= 0 {
				sink = fmt.Sprint(s.sinkN)
			}
			out.Linef("%s sink=%s ret=%s", line, sink, ret)
		}
		// non-trivial: the process function changed the item count at least once, and failed or skipped at least once
		if changed && failed {
			out.Linef("nt")
		}
		out.Linef("stat ops %d", nops)
		out.Linef("stat emptying_consumer %d", nEmpty)
		out.Linef("stat mode_%s 1", mode)
		out.Linef("end")
		out.Flush()
		_ = tt.Shutdown(context.Background())
	}
}
