//go:build verif

package xprocessorhelper

import (
	"context"
	"errors"
	"fmt"
	"math/rand/v2"
	"testing"

	"go.opentelemetry.io/otel/attribute"
	"go.opentelemetry.io/otel/sdk/metric/metricdata"

	"go.opentelemetry.io/collector/component"
	"go.opentelemetry.io/collector/component/componenttest"
	"go.opentelemetry.io/collector/consumer"
	"go.opentelemetry.io/collector/consumer/xconsumer"
	"go.opentelemetry.io/collector/pdata/plog"
	"go.opentelemetry.io/collector/pdata/pprofile"
	"go.opentelemetry.io/collector/processor"
	"go.opentelemetry.io/collector/processor/processorhelper"
)

func c19Collect(tt *componenttest.Telemetry) map[string][]metricdata.DataPoint[int64] {
	var rm metricdata.ResourceMetrics
	res := map[string][]metricdata.DataPoint[int64]{}
	if err := tt.Reader.Collect(context.Background(), &rm); err != nil {
		return res
	}
	for _, sm := range rm.ScopeMetrics {
		for _, m := range sm.Metrics {
			if sum, ok := m.Data.(metricdata.Sum[int64]); ok {
				res[m.Name] = append(res[m.Name], sum.DataPoints...)
			}
		}
	}
	return res
}

// c19Val sums the data points whose attributes include every want pair (missing metric / point = 0).
func c19Val(dps []metricdata.DataPoint[int64], want map[string]string) int64 {
	var total int64
	for _, dp := range dps {
		ok := true
		for k, v := range want {
			got, has := dp.Attributes.Value(attribute.Key(k))
			if !has || got.AsString() != v {
				ok = false
				break
			}
		}
		if ok {
			total += dp.Value
		}
	}
	return total
}

func c19Logs(rnd *rand.Rand, n int) plog.Logs {
	ld := plog.NewLogs()
	for n > 0 {
		sl := ld.ResourceLogs().AppendEmpty().ScopeLogs().AppendEmpty()
		k := 1 + rnd.IntN(n)
		for i := 0; i < k; i++ {
			sl.LogRecords().AppendEmpty().Body().SetStr("x")
		}
		n -= k
	}
	return ld
}

// c19Profiles: n samples spread over random resources / profiles
func c19Profiles(rnd *rand.Rand, n int) pprofile.Profiles {
	pd := pprofile.NewProfiles()
	for n > 0 {
		p := pd.ResourceProfiles().AppendEmpty().ScopeProfiles().AppendEmpty().Profiles().AppendEmpty()
		k := 1 + rnd.IntN(n)
		for i := 0; i < k; i++ {
			p.Sample().AppendEmpty()
		}
		n -= k
	}
	return pd
}

var (
	c19ErrFunc = errors.New("c19 process function failed")
	c19ErrNext = errors.New("c19 next consumer failed")
)

// TestVerifC19Profiles: the profiles helper (NewProfiles) next to a counted helper (processorhelper.NewLogs) built from the
// SAME processor settings / telemetry. NewProfiles has no obsReport: whatever a profiles payload goes through (passed on,
// resized, process error, skip, failing or payload-emptying next consumer) no otelcol_processor_* series may move and no
// series for otel.signal=profiles may appear; the logs operations in between are counted as in TestVerifC19Processor.
func TestVerifC19Profiles(t *testing.T) {
	out := vOpen(t)
	defer out.Close()
	out.Linef("model c19-proc 1")
	n := vN(1000)
	sigAttr := []string{"traces", "metrics", "logs"}
	for _, c := range vCases(n) {
		rnd := vRand(c)
		tt := componenttest.NewTelemetry()
		id := component.MustNewIDWithName("c19proc", "p")
		set := processor.Settings{ID: id, TelemetrySettings: tt.NewTelemetrySettings(), BuildInfo: component.NewDefaultBuildInfo()}
		var (
			kind    string // ok | err | skip
			outN    int
			nextErr bool
			empty   bool
			wrap    bool
			sinkN   int
		)
		fail := func() error {
			if kind == "skip" {
				if wrap {
					return fmt.Errorf("nothing to do: %w", processorhelper.ErrSkipProcessingData)
				}
				return processorhelper.ErrSkipProcessingData
			}
			return c19ErrFunc
		}
		next := func() error {
			if nextErr {
				return c19ErrNext
			}
			return nil
		}
		mut := consumer.WithCapabilities(consumer.Capabilities{MutatesData: true})
		lsink, _ := consumer.NewLogs(func(_ context.Context, ld plog.Logs) error {
			sinkN = ld.LogRecordCount()
			if empty {
				ld.ResourceLogs().MoveAndAppendTo(plog.NewLogs().ResourceLogs())
			}
			return next()
		}, mut)
		psink, _ := xconsumer.NewProfiles(func(_ context.Context, pd pprofile.Profiles) error {
			sinkN = pd.SampleCount()
			if empty {
				pd.ResourceProfiles().MoveAndAppendTo(pprofile.NewProfiles().ResourceProfiles())
			}
			return next()
		}, mut)
		lp, err1 := processorhelper.NewLogs(context.Background(), set, nil, lsink, func(_ context.Context, ld plog.Logs) (plog.Logs, error) {
			if kind != "ok" {
				return ld, fail()
			}
			return c19Logs(rnd, outN), nil
		})
		pp, err2 := NewProfiles(context.Background(), set, nil, psink, func(_ context.Context, pd pprofile.Profiles) (pprofile.Profiles, error) {
			if kind != "ok" {
				return pd, fail()
			}
			if outN == pd.SampleCount() {
				return pd, nil
			}
			return c19Profiles(rnd, outN), nil
		})
		if err1 != nil || err2 != nil {
			t.Fatal(err1, err2)
		}
		out.Linef("case %d mode=profiles", c)
		nops := 1 + rnd.IntN(16)
		nProf, nLogs := 0, 0
		for o := 0; o < nops; o++ {
			prof := rnd.IntN(3) != 0
			if c == 0 {
				prof = true // corpus: profiles payloads only, on fresh counters — no series at all may appear
			}
			in := rnd.IntN(21)
			kind, outN, nextErr, empty, wrap, sinkN = "ok", in, false, false, rnd.IntN(2) == 0, -1
			switch rnd.IntN(6) {
			case 0:
				kind = "err"
			case 1:
				kind = "skip"
			default:
				if rnd.IntN(2) == 0 {
					outN = rnd.IntN(30)
				}
				nextErr = rnd.IntN(4) == 0
				empty = rnd.IntN(3) == 0
			}
			sig := "l"
			if prof {
				sig = "p"
				nProf++
			} else {
				nLogs++
			}
			if kind == "ok" {
				out.Linef("op proc sig=%s in=%d out=ok:%d:%d empty=%d", sig, in, outN, vB(nextErr), vB(empty))
			} else {
				out.Linef("op proc sig=%s in=%d out=%s", sig, in, kind)
			}
			var err error
			panicked := false
			func() {
				defer func() {
					if r := recover(); r != nil {
						panicked = true
					}
				}()
				if prof {
					err = pp.ConsumeProfiles(context.Background(), c19Profiles(rnd, in))
				} else {
					err = lp.ConsumeLogs(context.Background(), c19Logs(rnd, in))
				}
			}()
			if panicked {
				out.Linef("obs panic")
				continue
			}
			ret := "nil"
			switch {
			case err == nil:
			case errors.Is(err, c19ErrFunc):
				ret = "ferr"
			case errors.Is(err, c19ErrNext):
				ret = "nerr"
			default:
				ret = "other"
			}
			m := c19Collect(tt)
			line := "obs cnt "
			for k := 0; k < 3; k++ {
				want := map[string]string{"processor": id.String(), "otel.signal": sigAttr[k]}
				if k > 0 {
					line += ","
				}
				line += fmt.Sprintf("%d/%d", c19Val(m["otelcol_processor_incoming_items"], want), c19Val(m["otelcol_processor_outgoing_items"], want))
			}
			sink := "-"
			if sinkN >= 0 {
				sink = fmt.Sprint(sinkN)
			}
			// everything recorded under the two instruments, whatever the attributes: catches a series for a fourth signal
			total := c19Val(m["otelcol_processor_incoming_items"], nil) + c19Val(m["otelcol_processor_outgoing_items"], nil)
			series := len(m["otelcol_processor_incoming_items"]) + len(m["otelcol_processor_outgoing_items"])
			out.Linef("%s sink=%s ret=%s total=%d series=%d", line, sink, ret, total, series)
		}
		if nProf > 0 && nLogs > 0 {
			out.Linef("nt") // non-trivial: profiles payloads interleaved with counted ones
		}
		out.Linef("stat ops %d", nops)
		out.Linef("stat profiles_ops %d", nProf)
		out.Linef("end")
		out.Flush()
		_ = tt.Shutdown(context.Background())
	}
}
