//go:build verif

package receiverhelper

import (
	"context"
	"errors"
	"fmt"
	"os"
	"strings"
	"sync"
	"testing"

	"go.opentelemetry.io/otel/attribute"
	"go.opentelemetry.io/otel/codes"
	"go.opentelemetry.io/otel/sdk/metric/metricdata"

	"go.opentelemetry.io/collector/component"
	"go.opentelemetry.io/collector/component/componenttest"
	"go.opentelemetry.io/collector/receiver"
)

// c19RecvNames: accepted/refused counter names by signal, in the order traces, metrics, logs.
var c19RecvNames = [3][2]string{
	{"otelcol_receiver_accepted_spans", "otelcol_receiver_refused_spans"},
	{"otelcol_receiver_accepted_metric_points", "otelcol_receiver_refused_metric_points"},
	{"otelcol_receiver_accepted_log_records", "otelcol_receiver_refused_log_records"},
}

var c19SpanKeys = []string{
	"accepted_spans", "refused_spans", "accepted_metric_points", "refused_metric_points", "accepted_log_records", "refused_log_records",
}

func c19Collect(tt *componenttest.Telemetry) map[string][]metricdata.DataPoint[int64] {
	var rm metricdata.ResourceMetrics
	res := map[string][]metricdata.DataPoint[int64]{}
	if err := tt.Reader.Collect(context.Background(), &rm); err != nil {
		return res
	}
	for _, sm := range rm.ScopeMetrics {
		for _, m := range sm.Metrics {
			if sum, ok := m.Data.(metricdata.Sum[int64]); ok {
				res[m.Name] = append(res[m.Name], sum.DataPoints...)
			}
		}
	}
	return res
}

// c19Val sums the data points whose attributes include every want pair (missing metric / point = 0).
func c19Val(dps []metricdata.DataPoint[int64], want map[string]string) int64 {
	var total int64
	for _, dp := range dps {
		ok := true
		for k, v := range want {
			got, has := dp.Attributes.Value(attribute.Key(k))
			if !has || got.AsString() != v {
				ok = false
				break
			}
		}
		if ok {
			total += dp.Value
		}
	}
	return total
}

type c19Inst struct {
	rec       *ObsReport
	id        component.ID
	transport string
}

// TestVerifC19Receiver drives the real ObsReport (NewObsReport + Start*/End*Op of all three signals, 1-3
// receivers with different transports / long-lived contexts sharing one meter provider) with random
// histories of operations and reads ALL six accepted/refused counters of ALL receivers after each one.
func TestVerifC19Receiver(t *testing.T) {
	out := vOpen(t)
	defer out.Close()
	out.Linef("model c19-recv 1")
	n := vN(2000)
	transports := []string{"", "grpc", "http", "unix"}
	sigName := []string{"t", "m", "l"}
	type opT struct {
		i, sig, items int
		err           error
	}
	// thorough: EXHAUSTIVE small scope, every history of length <= 3 over {3 signals} x {0, 1, 2 items} x {ok, error}
	// on one receiver; case index c19Exh+e decodes to the e-th history (so a single one replays alone)
	const c19Exh = 1000000
	alphabet := 18
	exh := 1 + alphabet + alphabet*alphabet + alphabet*alphabet*alphabet
	cases := vCases(n)
	if vThorough() && os.Getenv("VERIF_REPLAY_CASE") == "" {
		for e := 0; e < exh; e++ {
			cases = append(cases, c19Exh+e)
		}
	}
	for _, c := range cases {
		rnd := vRand(c)
		tt := componenttest.NewTelemetry()
		k := 1 + rnd.IntN(3)
		var ops []opT
		randOp := func() opT {
			op := opT{i: rnd.IntN(k), sig: rnd.IntN(3)}
			switch rnd.IntN(8) {
			case 0:
				op.items = 0
			case 1:
				op.items = 1000 + rnd.IntN(1000000)
			default:
				op.items = 1 + rnd.IntN(40)
			}
			switch rnd.IntN(6) {
			case 0:
				op.err = errors.New("downstream refused")
			case 1:
				op.err = fmt.Errorf("wrapped: %w", context.DeadlineExceeded)
			}
			return op
		}
		var rounds [][][]opT // concurrent mode: per round, per goroutine, its operations
		mode := "rand"
		switch {
		case c >= c19Exh:
			mode = "exh"
			k = 1
			e, length := c-c19Exh, 0
			for span := 1; e >= span; span *= alphabet {
				e -= span
				length++
			}
			for j := 0; j < length; j++ {
				a := e % alphabet
				e /= alphabet
				op := opT{sig: a % 3, items: (a / 3) % 3}
				if a/9 == 1 {
					op.err = errors.New("downstream refused")
				}
				ops = append(ops, op)
			}
		case c == 0:
			// corpus: one success and one failure per signal on one receiver
			mode = "corpus"
			for o := 0; o < 6; o++ {
				op := opT{sig: o / 2, items: 3 + o}
				if o%2 == 1 {
					op.err = errors.New("downstream refused")
				}
				ops = append(ops, op)
			}
		case c%5 == 4 || os.Getenv("VERIF_C19_CONC_ONLY") != "":
			// concurrent mode: 1-2 rounds; in each, 2-6 goroutines perform 1-15 operations each on the shared receivers,
			// all released together; the counters are read once per round, after every goroutine finished
			mode = "conc"
			for r := 1 + rnd.IntN(2); r > 0; r-- {
				lists := make([][]opT, 2+rnd.IntN(5))
				for j := range lists {
					for o := 1 + rnd.IntN(15); o > 0; o-- {
						lists[j] = append(lists[j], randOp())
					}
				}
				rounds = append(rounds, lists)
			}
		default:
			nops := rnd.IntN(26)
			for o := 0; o < nops; o++ {
				ops = append(ops, randOp())
			}
		}
		insts := make([]c19Inst, k)
		for i := range insts {
			id := component.MustNewIDWithName("c19recv", fmt.Sprintf("i%d", i))
			tr := transports[rnd.IntN(len(transports))]
			rec, err := NewObsReport(ObsReportSettings{
				ReceiverID: id, Transport: tr, LongLivedCtx: rnd.IntN(2) == 0,
				ReceiverCreateSettings: receiver.Settings{ID: id, TelemetrySettings: tt.NewTelemetrySettings(), BuildInfo: component.NewDefaultBuildInfo()},
			})
			if err != nil {
				t.Fatal(err)
			}
			insts[i] = c19Inst{rec: rec, id: id, transport: tr}
		}
		out.Linef("case %d inst=%d mode=%s", c, k, mode)
		parentCtx, parentSpan := tt.NewTelemetrySettings().TracerProvider.Tracer("c19").Start(context.Background(), "parent")
		nops := len(ops)
		sawErr, sawOk := false, false
		sigs := map[int]bool{}
		do := func(op opT) (panicked bool) {
			defer func() {
				if r := recover(); r != nil {
					panicked = true
				}
			}()
			rec := insts[op.i].rec
			switch op.sig {
			case 0:
				rec.EndTracesOp(rec.StartTracesOp(parentCtx), "fmt", op.items, op.err)
			case 1:
				rec.EndMetricsOp(rec.StartMetricsOp(parentCtx), "fmt", op.items, op.err)
			case 2:
				rec.EndLogsOp(rec.StartLogsOp(parentCtx), "fmt", op.items, op.err)
			}
			return false
		}
		cntLine := func() string {
			m := c19Collect(tt)
			var b strings.Builder
			for j, in := range insts {
				want := map[string]string{"receiver": in.id.String(), "transport": in.transport}
				fmt.Fprintf(&b, " %d:", j)
				for s := 0; s < 3; s++ {
					if s > 0 {
						b.WriteByte(',')
					}
					fmt.Fprintf(&b, "%d/%d", c19Val(m[c19RecvNames[s][0]], want), c19Val(m[c19RecvNames[s][1]], want))
				}
			}
			return b.String()
		}
		for _, lists := range rounds {
			// announce every goroutine's operations, then run them concurrently
			for g, l := range lists {
				for _, op := range l {
					out.Linef("op cend g=%d i=%d sig=%s n=%d err=%d", g, op.i, sigName[op.sig], op.items, vB(op.err != nil))
					nops++
				}
			}
			nSpans := len(tt.SpanRecorder.Ended())
			start := make(chan struct{})
			var wg sync.WaitGroup
			var mu sync.Mutex
			panics := 0
			for _, l := range lists {
				wg.Add(1)
				go func(l []opT) {
					defer wg.Done()
					<-start
					for _, op := range l {
						if do(op) {
							mu.Lock()
							panics++
							mu.Unlock()
						}
					}
				}(l)
			}
			close(start)
			wg.Wait()
			out.Linef("op sync")
			if panics > 0 {
				out.Linef("obs panic")
			}
			out.Linef("obs cnt%s", cntLine())
			out.Linef("obs spans %d", len(tt.SpanRecorder.Ended())-nSpans)
			out.Linef("stat goroutines %d", len(lists))
		}
		if mode == "conc" {
			out.Linef("nt") // non-trivial: at least two goroutines ran concurrently
		}
		for _, op := range ops {
			i, sig, items, err := op.i, op.sig, op.items, op.err
			if err != nil {
				sawErr = sawErr || items > 0
			} else {
				sawOk = sawOk || items > 0
			}
			sigs[sig] = true
			out.Linef("op end i=%d sig=%s n=%d err=%d", i, sigName[sig], items, vB(err != nil))
			nSpans := len(tt.SpanRecorder.Ended())
			if do(op) {
				out.Linef("obs panic")
			}
			out.Linef("obs cnt%s", cntLine())
			// the span the operation ended: name suffix, the accepted/refused attributes it carries, error status
			spans := tt.SpanRecorder.Ended()
			if len(spans) != nSpans+1 {
				out.Linef("obs span count=%d", len(spans)-nSpans)
			} else {
				sp := spans[len(spans)-1]
				name := sp.Name()
				name = name[strings.LastIndex(name, "/")+1:]
				var sb strings.Builder
				for _, key := range c19SpanKeys {
					for _, kv := range sp.Attributes() {
						if string(kv.Key) == key {
							fmt.Fprintf(&sb, " %s=%d", key, kv.Value.AsInt64())
						}
					}
				}
				out.Linef("obs span name=%s%s err=%d", name, sb.String(), vB(sp.Status().Code == codes.Error))
			}
		}
		parentSpan.End()
		// non-trivial: a successful and a failed non-empty operation, and at least two signals
		if sawErr && sawOk && len(sigs) >= 2 {
			out.Linef("nt")
		}
		out.Linef("stat ops %d", nops)
		out.Linef("stat receivers %d", k)
		out.Linef("stat mode_%s 1", mode)
		out.Linef("end")
		out.Flush()
		_ = tt.Shutdown(context.Background())
	}
}
