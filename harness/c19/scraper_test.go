//go:build verif

package scraperhelper

import (
	"context"
	"errors"
	"fmt"
	"math/rand/v2"
	"os"
	"strings"
	"testing"
	"time"

	"go.opentelemetry.io/otel/attribute"
	"go.opentelemetry.io/otel/sdk/metric/metricdata"

	"go.opentelemetry.io/collector/component"
	"go.opentelemetry.io/collector/component/componenttest"
	"go.opentelemetry.io/collector/consumer"
	"go.opentelemetry.io/collector/pdata/plog"
	"go.opentelemetry.io/collector/pdata/pmetric"
	"go.opentelemetry.io/collector/receiver"
	"go.opentelemetry.io/collector/scraper"
	"go.opentelemetry.io/collector/scraper/scrapererror"
)

var c19RecvNames = [3][2]string{
	{"otelcol_receiver_accepted_spans", "otelcol_receiver_refused_spans"},
	{"otelcol_receiver_accepted_metric_points", "otelcol_receiver_refused_metric_points"},
	{"otelcol_receiver_accepted_log_records", "otelcol_receiver_refused_log_records"},
}

// per-scraper counters: [0] of the metrics controller, [1] of the logs controller
var c19ScrNames = [2][2]string{
	{"otelcol_scraper_scraped_metric_points", "otelcol_scraper_errored_metric_points"},
	{"otelcol_scraper_scraped_log_records", "otelcol_scraper_errored_log_records"},
}

func c19Collect(tt *componenttest.Telemetry) map[string][]metricdata.DataPoint[int64] {
	var rm metricdata.ResourceMetrics
	res := map[string][]metricdata.DataPoint[int64]{}
	if err := tt.Reader.Collect(context.Background(), &rm); err != nil {
		return res
	}
	for _, sm := range rm.ScopeMetrics {
		for _, m := range sm.Metrics {
			if sum, ok := m.Data.(metricdata.Sum[int64]); ok {
				res[m.Name] = append(res[m.Name], sum.DataPoints...)
			}
		}
	}
	return res
}

func c19Val(dps []metricdata.DataPoint[int64], want map[string]string) int64 {
	var total int64
	for _, dp := range dps {
		ok := true
		for k, v := range want {
			got, has := dp.Attributes.Value(attribute.Key(k))
			if !has || got.AsString() != v {
				ok = false
				break
			}
		}
		if ok {
			total += dp.Value
		}
	}
	return total
}

func c19Logs(rnd *rand.Rand, n int) plog.Logs {
	ld := plog.NewLogs()
	for n > 0 {
		sl := ld.ResourceLogs().AppendEmpty().ScopeLogs().AppendEmpty()
		k := 1 + rnd.IntN(n)
		for i := 0; i < k; i++ {
			sl.LogRecords().AppendEmpty().Body().SetStr("x")
		}
		n -= k
	}
	return ld
}

// c19Metrics: n data points in some number of metrics (returned by MetricCount()), mixed types
func c19Metrics(rnd *rand.Rand, n int) pmetric.Metrics {
	md := pmetric.NewMetrics()
	if rnd.IntN(3) == 0 {
		md.ResourceMetrics().AppendEmpty().ScopeMetrics().AppendEmpty().Metrics().AppendEmpty().SetEmptyGauge() // a metric without points
	}
	for n > 0 {
		sm := md.ResourceMetrics().AppendEmpty().ScopeMetrics().AppendEmpty()
		for n > 0 && rnd.IntN(3) != 0 {
			k := 1 + rnd.IntN(min(n, 4))
			m := sm.Metrics().AppendEmpty()
			switch rnd.IntN(3) {
			case 0:
				dps := m.SetEmptyGauge().DataPoints()
				for i := 0; i < k; i++ {
					dps.AppendEmpty().SetIntValue(1)
				}
			case 1:
				dps := m.SetEmptySum().DataPoints()
				for i := 0; i < k; i++ {
					dps.AppendEmpty().SetDoubleValue(1)
				}
			default:
				dps := m.SetEmptyHistogram().DataPoints()
				for i := 0; i < k; i++ {
					dps.AppendEmpty().SetCount(1)
				}
			}
			n -= k
		}
	}
	return md
}

// one scraper's scripted answer for the current scrape
type c19Res struct {
	kind   string // ok | part | fail
	items  int    // data points / log records of the returned payload
	failed int    // PartialScrapeError.Failed
	wrap   bool   // partial error wrapped by fmt.Errorf("%w")
	zero   bool   // fail: return the zero-value payload instead of data that must be dropped
}

func (r c19Res) err() error {
	switch r.kind {
	case "part":
		var e error = scrapererror.NewPartialScrapeError(errors.New("some failed"), r.failed)
		if r.wrap {
			e = fmt.Errorf("scrape: %w", e)
		}
		return e
	case "fail":
		return errors.New("scrape failed")
	}
	return nil
}

type c19Harness struct {
	script  []c19Res
	units   []int // what each scraper's payload reported as MetricCount()/LogRecordCount() (observed input of the model)
	sinkErr bool
	empty   bool          // the next consumer takes ownership: it moves everything out of the payload before it returns
	sinkN   int           // items the next consumer received, counted at call entry
	entered chan struct{} // a scrape reached its first scraper
	gate    chan struct{} // released by the test when the scrape may proceed
	scrapes int           // touched by the controller goroutine only
	rnd     *rand.Rand
}

// enter: every scrape but the first (which runs from Start) stops in its first scraper until the test releases it
func (h *c19Harness) enter(i int) {
	if i != 0 {
		return
	}
	h.scrapes++
	if h.scrapes > 1 {
		h.entered <- struct{}{}
		<-h.gate
	}
}

const c19Wait = 20 * time.Second

// TestVerifC19Scraper drives the real NewMetricsController / NewLogsController with 1-3 scripted scrapers
// and a scripted next consumer through WithTickerChannel. Synchronisation: the controller runs scrapes on one
// goroutine; from the second scrape on, the first scraper blocks on a gate, so when a tick has been accepted
// the previous scrape (including End*Op) is complete and the next one has not yet recorded anything —
// that is where all counters are read. The last scrape is fenced by Shutdown.
func TestVerifC19Scraper(t *testing.T) {
	out := vOpen(t)
	defer out.Close()
	out.Linef("model c19-scrape 1")
	n := vN(1500)
	// thorough: EXHAUSTIVE small scope for both controllers — one scrape of two scrapers and two scrapes of one scraper over
	// {ok 0 items, ok 2, partial 1 item + 1 failed, failed without data, failed with 2 items to drop} x {next ok, next fails} x {next consumer keeps / empties the payload};
	// case index c19Exh+e decodes to the e-th script (so a single one replays alone)
	const c19Exh = 1000000
	exhRes := []c19Res{{kind: "ok"}, {kind: "ok", items: 2}, {kind: "part", items: 1, failed: 1}, {kind: "fail", zero: true}, {kind: "fail", items: 2}}
	cases := vCases(n)
	if vThorough() && os.Getenv("VERIF_REPLAY_CASE") == "" {
		for e := 0; e < 600; e++ {
			cases = append(cases, c19Exh+e)
		}
	}
	for _, c := range cases {
		rnd := vRand(c)
		logsCtrl := c%2 == 1
		k := 1 + rnd.IntN(3)
		ticks := 1 + rnd.IntN(6)
		const corpus = 6
		if c < corpus {
			// corpus, metrics (even) and logs (odd) controller, one scraper, one scrape:
			// 0/1 the Lean witness (one item, next consumer succeeds);
			// 2/3 three items, next consumer EMPTIES the payload and succeeds; 4/5 … empties it and fails
			k, ticks = 1, 1
		}
		var exhScript [][]c19Res // per scrape, per scraper
		var exhSinkErr []bool
		exhEmpty := false
		mode := "rand"
		if c < corpus {
			mode = "corpus"
		}
		if c >= c19Exh {
			mode = "exh"
			e := (c - c19Exh) / 2
			exhEmpty = e >= 150 // every script once with a plain and once with a payload-emptying next consumer
			e %= 150
			if e < 50 {
				k, ticks = 2, 1
				exhScript = [][]c19Res{{exhRes[e%5], exhRes[(e/5)%5]}}
				exhSinkErr = []bool{e/25 == 1}
			} else {
				e -= 50
				k, ticks = 1, 2
				a, b := e%10, (e/10)%10
				exhScript = [][]c19Res{{exhRes[a%5]}, {exhRes[b%5]}}
				exhSinkErr = []bool{a/5 == 1, b/5 == 1}
			}
		}
		tt := componenttest.NewTelemetry()
		recvID := component.MustNewIDWithName("c19scrape", "r")
		h := &c19Harness{script: make([]c19Res, k), units: make([]int, k), entered: make(chan struct{}), gate: make(chan struct{}), rnd: rnd}
		rset := receiver.Settings{ID: recvID, TelemetrySettings: tt.NewTelemetrySettings(), BuildInfo: component.NewDefaultBuildInfo()}
		tickerCh := make(chan time.Time)
		var opts []ControllerOption
		opts = append(opts, WithTickerChannel(tickerCh))
		scrIDs := make([]string, k)
		for i := 0; i < k; i++ {
			i := i
			typ := component.MustNewType(fmt.Sprintf("c19s%d", i))
			scrIDs[i] = component.NewID(typ).String()
			if logsCtrl {
				sc, err := scraper.NewLogs(func(context.Context) (plog.Logs, error) {
					h.enter(i)
					r := h.script[i]
					if r.kind == "fail" && r.zero {
						return plog.Logs{}, r.err()
					}
					ld := c19Logs(h.rnd, r.items)
					h.units[i] = ld.LogRecordCount()
					return ld, r.err()
				})
				if err != nil {
					t.Fatal(err)
				}
				f := scraper.NewFactory(typ, nil, scraper.WithLogs(func(context.Context, scraper.Settings, component.Config) (scraper.Logs, error) {
					return sc, nil
				}, component.StabilityLevelAlpha))
				opts = append(opts, AddFactoryWithConfig(f, nil))
			} else {
				sc, err := scraper.NewMetrics(func(context.Context) (pmetric.Metrics, error) {
					h.enter(i)
					r := h.script[i]
					if r.kind == "fail" && r.zero {
						return pmetric.Metrics{}, r.err()
					}
					md := c19Metrics(h.rnd, r.items)
					h.units[i] = md.MetricCount()
					return md, r.err()
				})
				if err != nil {
					t.Fatal(err)
				}
				opts = append(opts, AddScraper(typ, sc))
			}
		}
		cfg := &ControllerConfig{CollectionInterval: time.Hour, InitialDelay: 0}
		if rnd.IntN(3) == 0 {
			cfg.Timeout = time.Hour
		}
		var ctrl component.Component
		var err error
		if logsCtrl {
			sink, _ := consumer.NewLogs(func(_ context.Context, ld plog.Logs) error {
				h.sinkN = ld.LogRecordCount()
				if h.empty { // as a batching consumer does: the resources now belong to it
					ld.ResourceLogs().MoveAndAppendTo(plog.NewLogs().ResourceLogs())
				}
				if h.sinkErr {
					return errors.New("next consumer failed")
				}
				return nil
			}, consumer.WithCapabilities(consumer.Capabilities{MutatesData: true}))
			ctrl, err = NewLogsController(cfg, rset, sink, opts...)
		} else {
			sink, _ := consumer.NewMetrics(func(_ context.Context, md pmetric.Metrics) error {
				h.sinkN = md.DataPointCount()
				if h.empty {
					md.ResourceMetrics().MoveAndAppendTo(pmetric.NewMetrics().ResourceMetrics())
				}
				if h.sinkErr {
					return errors.New("next consumer failed")
				}
				return nil
			}, consumer.WithCapabilities(consumer.Capabilities{MutatesData: true}))
			ctrl, err = NewMetricsController(cfg, rset, sink, opts...)
		}
		if err != nil {
			t.Fatal(err)
		}
		kind := "metrics"
		if logsCtrl {
			kind = "logs"
		}
		out.Linef("case %d ctrl=%s scrapers=%d mode=%s", c, kind, k, mode)

		prev := [3][2]int64{}
		mixed, refused := false, false
		planned, nEmpty := 0, 0
		plan := func() {
			kept, dropped := false, false
			tk := planned
			planned++
			for i := range h.script {
				r := c19Res{kind: "ok", items: h.rnd.IntN(13), wrap: h.rnd.IntN(2) == 0, zero: h.rnd.IntN(2) == 0}
				if h.rnd.IntN(5) == 0 {
					r.items = 0
				}
				switch h.rnd.IntN(5) {
				case 0:
					r.kind, r.failed = "part", h.rnd.IntN(8)
				case 1:
					r.kind = "fail"
				}
				if c < 2 {
					r = c19Res{kind: "ok", items: 1}
				} else if c < corpus {
					r = c19Res{kind: "ok", items: 3}
				}
				if exhScript != nil {
					r = exhScript[tk][i]
				}
				h.script[i] = r
				h.units[i] = 0
				if r.kind == "fail" {
					dropped = true
				} else if r.items > 0 {
					kept = true
				}
			}
			h.sinkErr = h.rnd.IntN(3) == 0
			h.empty = h.rnd.IntN(3) == 0
			if c < corpus {
				h.sinkErr, h.empty = c >= 4, c >= 2
			}
			if exhSinkErr != nil {
				h.sinkErr = exhSinkErr[tk]
				h.empty = exhEmpty
			}
			if h.empty {
				nEmpty++
			}
			h.sinkN = -1
			mixed = mixed || (kept && dropped)
			refused = refused || (kept && h.sinkErr)
		}
		opLine := func() {
			// printed after the scrape: `units` (MetricCount / LogRecordCount of each returned payload) is an observed input
			var parts []string
			for i, r := range h.script {
				switch r.kind {
				case "ok":
					parts = append(parts, fmt.Sprintf("ok:%d:%d", r.items, h.units[i]))
				case "part":
					parts = append(parts, fmt.Sprintf("part:%d:%d:%d", r.items, h.units[i], r.failed))
				default:
					it := r.items
					if r.zero {
						it = 0
					}
					parts = append(parts, fmt.Sprintf("fail:%d", it))
				}
			}
			out.Linef("op tick res=%s sinkerr=%d empty=%d", strings.Join(parts, ","), vB(h.sinkErr), vB(h.empty))
		}
		observe := func() {
			m := c19Collect(tt)
			cur := [3][2]int64{}
			var b strings.Builder
			for s := 0; s < 3; s++ {
				for j := 0; j < 2; j++ {
					cur[s][j] = c19Val(m[c19RecvNames[s][j]], map[string]string{"receiver": recvID.String()})
				}
				if s > 0 {
					b.WriteByte(',')
				}
				fmt.Fprintf(&b, "%d/%d", cur[s][0], cur[s][1])
			}
			own, other := 0, 1
			if logsCtrl {
				own, other = 1, 0
			}
			var sb strings.Builder
			for i, id := range scrIDs {
				want := map[string]string{"receiver": recvID.String(), "scraper": id}
				if i > 0 {
					sb.WriteByte(',')
				}
				fmt.Fprintf(&sb, "%d/%d", c19Val(m[c19ScrNames[own][0]], want), c19Val(m[c19ScrNames[own][1]], want))
			}
			otherSum := c19Val(m[c19ScrNames[other][0]], nil) + c19Val(m[c19ScrNames[other][1]], nil)
			sink := "-"
			if h.sinkN >= 0 {
				sink = fmt.Sprint(h.sinkN)
			}
			out.Linef("obs cnt %s scr=%s other=%d sink=%s", b.String(), sb.String(), otherSum, sink)
			// direct oracle: the items handed to the next consumer must be recorded under the controller's own signal
			ownSig := 1
			if logsCtrl {
				ownSig = 2
			}
			offered := int64(0)
			if h.sinkN > 0 {
				offered = int64(h.sinkN)
			}
			for s := 0; s < 3; s++ {
				d := (cur[s][0] - prev[s][0]) + (cur[s][1] - prev[s][1])
				if s != ownSig && d != 0 {
					what := "foreign-signal-counter-moved"
					if logsCtrl && s == 1 {
						what = "logs-counted-as-metric-points"
					}
					out.Linef("viol sig=C19/scraper/%s ctrl=%s received-by-next=%d delta[%s]=%d delta[%s]=%d",
						what, kind, offered, c19RecvNames[s][0], cur[s][0]-prev[s][0], c19RecvNames[s][1], cur[s][1]-prev[s][1])
				}
			}
			dOwnA, dOwnR := cur[ownSig][0]-prev[ownSig][0], cur[ownSig][1]-prev[ownSig][1]
			wantA, wantR := offered, int64(0)
			if h.sinkErr {
				wantA, wantR = 0, offered
			}
			if dOwnA != wantA || dOwnR != wantR {
				// (on the pinned logs controller this accompanies logs-counted-as-metric-points; keep one signature per cause)
				moved := false
				for s := 0; s < 3; s++ {
					if s != ownSig && cur[s] != prev[s] {
						moved = true
					}
				}
				if !moved {
					what := "accepted-refused-split"
					if dOwnA+dOwnR != offered || dOwnA < 0 || dOwnR < 0 {
						what = "accepted-plus-refused-not-offered"
					}
					out.Linef("viol sig=C19/scraper/%s ctrl=%s received-by-next=%d sinkerr=%v accepted+=%d refused+=%d", what, kind, offered, h.sinkErr, dOwnA, dOwnR)
				}
			}
			prev = cur
		}
		timedOut := false
		plan() // scrape 0 runs from Start, not gated
		if err := ctrl.Start(context.Background(), componenttest.NewNopHost()); err != nil {
			t.Fatal(err)
		}
		for tk := 0; tk < ticks && !timedOut; tk++ {
			if tk > 0 {
				plan()
				select { // release scrape tk, which is waiting in its first scraper
				case h.gate <- struct{}{}:
				case <-time.After(c19Wait):
					timedOut = true
				}
			}
			if timedOut {
				break
			}
			if tk == ticks-1 {
				// fence: Shutdown returns after the controller goroutine finished the running scrape
				done := make(chan struct{})
				go func() { _ = ctrl.Shutdown(context.Background()); close(done) }()
				select {
				case <-done:
				case <-time.After(c19Wait):
					timedOut = true
				}
			} else {
				// the tick is accepted only when scrape tk has completely finished (End*Op included);
				// scrape tk+1 then stops in its first scraper before recording anything
				select {
				case tickerCh <- time.Now():
				case <-time.After(c19Wait):
					timedOut = true
				}
				if !timedOut {
					select {
					case <-h.entered:
					case <-time.After(c19Wait):
						timedOut = true
					}
				}
			}
			if timedOut {
				break
			}
			opLine()
			observe()
		}
		if timedOut {
			out.Linef("obs timeout")
		}
		if mixed && refused {
			out.Linef("nt")
		}
		out.Linef("stat scrapes %d", ticks)
		out.Linef("stat scrapers %d", k)
		out.Linef("stat emptying_consumer %d", nEmpty)
		out.Linef("stat ctrl_%s 1", kind)
		out.Linef("stat mode_%s 1", mode)
		out.Linef("end")
		out.Flush()
		_ = tt.Shutdown(context.Background())
	}
}
