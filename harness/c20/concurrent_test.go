//go:build verif

package otelcol

// C20 "safe from any state and any goroutine": tight concurrent-Shutdown stress.
// min(4, GOMAXPROCS) callers are released through a spin barrier into Collector.Shutdown() on
//   * fresh collectors (never Run; state Starting, the guard passes): many trials per collector — between trials the
//     harness re-makes the unexported shutdownChan, which nobody else references on a collector that is not running;
//   * Running collectors (real Run, ungated): one trial each, then Run must return and end Closed.
// A panic in a caller's goroutine (process death in production) is recovered by the harness and reported as
// `viol sig=C20/shutdown/concurrent-call-panicked` and as `tr callpanic` for the Lean-side oracle. Monitored only.

import (
	"runtime"
	"testing"
)

func TestVerifC20ConcurrentShutdown(t *testing.T) {
	out := vOpen(t)
	defer out.Close()
	out.Linef("model c20-race 1")
	n := vN(300)
	callers := runtime.GOMAXPROCS(0)
	if callers > 4 {
		callers = 4
	}
	if callers < 2 {
		callers = 2
	}
	for _, c := range vCases(n) {
		rnd := vRand(c)
		running := c%4 == 3
		kind := "fresh"
		if running {
			kind = "running"
		}
		out.Linef("case %d kind=stress-%s callers=%d", c, kind, callers)
		w := v20New(t)
		trials := 1
		if running {
			w.run()
			if !w.waitFor(func() bool { return w.col.GetState() == StateRunning }, v20Wait) {
				out.Linef("viol sig=C20/harness/never-running")
			}
			w.logf("up")
		} else {
			trials = 20 + rnd.IntN(40)
		}
		out.Linef("op scen stress %s callers=%d trials=%d noobs", kind, callers, trials)
		for i := 0; i < trials; i++ {
			if i > 0 {
				w.col.shutdownChan = make(chan struct{}) // fresh collector only: nobody else holds the channel
			}
			w.callShutdown(callers)
			if !w.chanClosed() {
				out.Linef("viol sig=C20/shutdown/not-closed-after-concurrent-calls state=%s", w.col.GetState())
			}
		}
		if running {
			if !v20WaitDone(w.runDone, v20Wait) {
				out.Linef("viol sig=C20/harness/race-run-did-not-return state=%s", w.col.GetState())
		}
		}
		if p := w.panics.Load(); p > 0 {
			out.Linef("viol sig=C20/shutdown/concurrent-call-panicked %d of %d concurrent Shutdown() calls panicked in the caller's goroutine (%s collector)", p, trials*callers, kind)
		}
		w.cleanup()
		for _, e := range w.events {
			out.Linef("tr %s", e)
		}
		out.Linef("stat stress_trials_%s %d", kind, trials)
		out.Linef("stat stress_calls %d", trials*callers)
		out.Linef("stat stress_panics %d", w.panics.Load())
		out.Linef("nt")
		v20EmitRetries(out)
		out.Linef("end")
		out.Flush()
	}
}
