//go:build verif

package otelcol

// C20 exhaustive small scope: ALL scripts over the gate alphabet
//   go fail shutdown hup term watch watcherr async cancel
// up to a given length, from three anchors (not started; Running and idle in the select; parked right after the
// select received SIGHUP), each completed with all-ok outcomes and, if the collector then idles, one Shutdown().
// A script is a list of decisions at the decision points of the gated harness (runloop_test.go): an external event
// performed there, or "go"/"fail" = let the Run goroutine execute up to the next gate with an ok / failing outcome.
// Only tokens applicable at the point where the parent script ran out are expanded (breadth first), so every
// generated script is meaningful; the case id is the script itself (base-11 digits 1..10), so a case replays alone.
// Same line protocol and model as TestVerifC20RunLoop (exact differential + monitor + Go oracles).

import (
	"os"
	"strconv"
	"strings"
	"testing"
)

var v20Alphabet = []string{"go", "fail", "shutdown", "hup", "term", "watch", "watcherr", "async", "cancel", "fatal"}

func v20Encode(script []string) int {
	id := 0
	for _, tok := range script {
		for i, a := range v20Alphabet {
			if a == tok {
				id = id*11 + i + 1
			}
		}
	}
	return id
}

func v20Decode(id int) []string {
	var rev []string
	for id > 0 {
		d := id % 11
		if d >= 1 && d <= len(v20Alphabet) {
			rev = append(rev, v20Alphabet[d-1])
		}
		id /= 11
	}
	script := make([]string, 0, len(rev))
	for i := len(rev) - 1; i >= 0; i-- {
		script = append(script, rev[i])
	}
	return script
}

// applicable tokens at the current decision point of d
func (d *v20Det) applicableTokens() []string {
	var toks []string
	if d.at != "select" && d.at != "done" {
		toks = append(toks, "go")
	}
	if d.at == "retrieve" || d.at == "start" || d.at == "sd" || d.at == "prov" {
		toks = append(toks, "fail")
	}
	for _, tok := range v20Alphabet[2:] {
		if d.canExternal(v20ExtKinds[tok]) {
			toks = append(toks, tok)
		}
	}
	return toks
}

func TestVerifC20Exhaustive(t *testing.T) {
	out := vOpen(t)
	defer out.Close()
	out.Linef("model c20-runloop 1")
	depth := vN(3) // VERIF_N = maximal script length from the first anchor; the same from each anchor
	type anchor struct {
		prefix []string
		depth  int
	}
	anchors := []anchor{
		{nil, depth},
		{[]string{"go", "go", "go"}, depth},        // Running, idle in the select
		{[]string{"go", "go", "go", "hup"}, depth}, // the select has received SIGHUP, state still Running
	}
	runOne := func(script []string) (children []string, bad bool) {
		id := v20Encode(script)
		out.Linef("case %d kind=exh len=%d script=%s", id, len(script), strings.Join(append([]string{"-"}, script...), ","))
		w := v20New(t)
		d := &v20Det{w: w, out: out, rnd: vRand(id)}
		d.onScriptEnd = func() { children = d.applicableTokens() }
		corpus := script
		if corpus == nil {
			corpus = []string{}
		}
		d.runCase(0, corpus)
		w.cleanup()
		for _, e := range w.events {
			out.Linef("tr %s", e)
		}
		out.Linef("stat exh_reloads %d", d.reloads)
		out.Linef("stat exh_failures %d", d.fails)
		out.Linef("stat exh_multi_ready_selects %d", d.multi)
		out.Linef("stat exh_ops %d", d.nops)
		out.Linef("stat exh_len_%d 1", len(script))
		if d.skipped > 0 {
			out.Linef("stat exh_scripts_with_skipped_tokens 1")
		}
		if d.bad {
			out.Linef("stat harness_timeouts 1")
			if d.lostWatchErr {
				out.Linef("viol sig=C20/runloop/watch-error-notification-lost state=%s: a provider sent an error notification, the run loop never acted on it (Run has not returned)", w.col.GetState())
			} else if w.fatalSent.Load() > w.fatalBack.Load() {
				out.Linef("viol sig=C20/runloop/run-wedged-while-fatal-error-report-pending state=%s: a component's FatalError report has not come back and the Run goroutine stopped making progress", w.col.GetState())
			} else if d.fatalStuck {
				out.Linef("viol sig=C20/runloop/fatal-error-report-never-received a component reported StatusFatalError through its host (report returned), the collector sat in the select and never received it: Run has not returned")
			} else {
				out.Linef("viol sig=C20/harness/run-goroutine-did-not-reach-expected-point at=%s", d.at)
			}
		}
		if d.reloads > 0 {
			out.Linef("nt")
		}
		v20EmitRetries(out)
		out.Linef("end")
		out.Flush()
		return children, d.bad
	}
	if s := os.Getenv("VERIF_REPLAY_CASE"); s != "" {
		if id, err := strconv.Atoi(s); err == nil {
			runOne(v20Decode(id))
			return
		}
	}
	timeouts := 0
	for _, a := range anchors {
		queue := [][]string{append([]string(nil), a.prefix...)}
		for len(queue) > 0 && timeouts < 3 {
			script := queue[0]
			queue = queue[1:]
			children, bad := runOne(script)
			if bad {
				timeouts++
			}
			if len(script)-len(a.prefix) < a.depth {
				for _, c := range children {
					queue = append(queue, append(append([]string(nil), script...), c))
				}
			}
		}
	}
}
