//go:build verif

package otelcol

// C20 "Run returns / ends Closed" while the configuration provider's own goroutines LOG.
// NewCollector hands providers and converters a logger whose core (collectorCore, otelcol/collector_core.go) is
// swapped by every (re)configuration (updateConfigProviderLogger -> SetCore, a write lock) while provider goroutines
// log through it (zap's Check/Write idiom, read locks). Here min(8, GOMAXPROCS) goroutines standing for a provider's
// watch loop log continuously through that very logger — from before Run, through start-up, through a series of
// reloads (watch notification / SIGHUP alternating, each must bring the collector back to Running) — then Shutdown()
// is called. Oracle = the run-loop clauses: every reload completes, Run returns, state Closed, provider shut down
// exactly once, trace monitor; a watchdog turns a Run goroutine that makes no progress into
// `viol sig=C20/runloop/run-wedged-while-provider-logs` (and `tr quiet` for the Lean-side lost-request clause).
// Monitored only (native scheduling).

import (
	"runtime"
	"sync"
	"sync/atomic"
	"syscall"
	"testing"
	"time"

	"go.uber.org/zap"
)

func TestVerifC20ProviderLogs(t *testing.T) {
	out := vOpen(t)
	defer out.Close()
	out.Linef("model c20-race 1")
	n := vN(8)
	loggers := runtime.GOMAXPROCS(0)
	if loggers > 8 {
		loggers = 8
	}
	if loggers < 2 {
		loggers = 2
	}
	const watchdog = 4 * time.Second
	for _, c := range vCases(n) {
		rnd := vRand(c)
		reloads := 30 + rnd.IntN(40)
		out.Linef("case %d kind=provlog loggers=%d reloads=%d", c, loggers, reloads)
		out.Linef("op scen provlog loggers=%d reloads=%d noobs", loggers, reloads)
		w := v20New(t)
		var stop atomic.Bool
		var lwg sync.WaitGroup
		var logged atomic.Int64
		for g := 0; g < loggers; g++ {
			lwg.Add(1)
			go func(g int) {
				defer lwg.Done()
				for i := 0; !stop.Load(); i++ {
					w.provLogger.Info("verif: provider watch loop", zap.Int("goroutine", g), zap.Int("i", i))
					w.provLogger.Debug("verif: provider watch loop (debug)")
					logged.Add(1)
					if i%64 == 0 {
						runtime.Gosched()
					}
				}
			}(g)
		}
		w.run()
		wedge := ""
		done := 0
		if !w.waitFor(func() bool { return w.col.GetState() == StateRunning }, watchdog) {
			wedge = "start-up"
		} else {
			w.logf("up")
		}
		for r := 0; r < reloads && wedge == ""; r++ {
			gen := w.gen.Load()
			if r%2 == 0 {
				if !w.postWatch(false) {
					wedge = "watch-post-panicked"
					break
				}
			} else {
				w.col.signalsChannel <- syscall.SIGHUP
			}
			if !w.waitFor(func() bool { return w.gen.Load() > gen && w.col.GetState() == StateRunning }, watchdog) {
				wedge = "reload"
				break
			}
			done++
		}
		// the shutdown request: must be honoured whatever happened before
		w.callShutdown(1)
		if !v20WaitDone(w.runDone, watchdog) {
			if wedge == "" {
				wedge = "shutdown"
	}
		}
		if wedge != "" && !w.returned() {
			w.wedged = true
			w.logf("quiet")
			out.Linef("viol sig=C20/runloop/run-wedged-while-provider-logs during=%s after %d reloads: state=%s, Shutdown() requested, Run did not return within %s",
				wedge, done, w.col.GetState(), watchdog)
		} else if wedge != "" {
			out.Linef("viol sig=C20/runloop/reload-never-completed-while-provider-logs during=%s after %d reloads", wedge, done)
		} else {
			w.mu.Lock()
			prov := w.provSd
			w.mu.Unlock()
			if st := w.col.GetState(); st != StateClosed || prov != 1 || w.runRes != "ok" {
				out.Linef("viol sig=C20/runloop/bad-end-state-while-provider-logs state=%s providerShutdowns=%d run=%s", st, prov, w.runRes)
			}
		}
		stop.Store(true)
		if !w.wedged {
			lwg.Wait()
		}
		w.cleanup()
		w.mu.Lock()
		events := append([]string(nil), w.events...)
		w.mu.Unlock()
		for _, e := range events {
			out.Linef("tr %s", e)
		}
		out.Linef("stat provlog_reloads %d", done)
		out.Linef("stat provlog_entries_logged %d", logged.Load())
		if wedge != "" {
			out.Linef("stat provlog_wedged 1")
		}
		out.Linef("nt")
		v20EmitRetries(out)
		out.Linef("end")
		out.Flush()
		if w.wedged {
			break // the wedged goroutines cannot be reclaimed; further cases would only add noise
		}
	}
}
