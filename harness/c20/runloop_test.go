//go:build verif

package otelcol

// C20 harness: the REAL otelcol.Collector (Run / reloadConfiguration / shutdown / Shutdown) with the
// real ConfigProvider + confmap.Resolver and the real service.Service, driven by
//   * an instrumented confmap.Provider (Retrieve / Shutdown hooks, watcher func captured),
//   * instrumented receiver / exporter / extension factories whose components log create / start /
//     shutdown with the configuration generation that created them,
//   * events injected through the collector's own channels (signalsChannel, asyncErrorChannel,
//     the resolver's watcher func, ctx cancel) and Shutdown() calls from fresh goroutines.
//
// Two kinds of cases:
//   det  — the Run goroutine is stopped at "gates" inside the hooks (provider Retrieve, exporter Start,
//          exporter Shutdown, provider Shutdown), external events are performed while it is parked, so the
//          whole history is a totally ordered list of labels of the Lean LTS (`op` lines) and the
//          observable state after every label (`obs`) is compared EXACTLY with the model. Which ready
//          branch the `select` took is observed (service log hook) and fed to the model as an input
//          (`op pick …`); the model checks that this branch was enabled.
//   race — no gates, native scheduling: reload events and Shutdown() calls from several goroutines at
//          random micro-delays. Only monitored (`tr` lines -> Lean trace checker, Go `viol` oracle).
//
// In both kinds the global event log is printed as `tr` lines and checked by the Lean monitor
// `C20.check` (proved sound in Props/C20.lean); the Go side has its own direct oracles (`viol`).

import (
	"context"
	"errors"
	"fmt"
	"os"
	"runtime"
	"sort"
	"strings"
	"sync"
	"sync/atomic"
	"syscall"
	"testing"
	"time"

	"go.uber.org/zap"
	"go.uber.org/zap/zapcore"

	"go.opentelemetry.io/collector/component"
	"go.opentelemetry.io/collector/component/componentstatus"
	"go.opentelemetry.io/collector/confmap"
	"go.opentelemetry.io/collector/consumer"
	"go.opentelemetry.io/collector/exporter"
	"go.opentelemetry.io/collector/extension"
	"go.opentelemetry.io/collector/pdata/plog"
	"go.opentelemetry.io/collector/receiver"
)

// ---------------------------------------------------------------------------------------------
// instrumented world

type v20Gate struct {
	name string // retrieve | start | sd | prov
	gen  int
}

type v20World struct {
	col *Collector

	mu     sync.Mutex
	events []string // global event log, `tr` lines
	lastSt State
	picks  []string // select branches observed through the service logger
	lastPickSig bool
	panics atomic.Int64 // Shutdown() calls that panicked in the caller's goroutine
	provLogger *zap.Logger
	hosts      map[string]component.Host // component key -> the host it was started with (guarded by mu)
	syncFatal  atomic.Bool               // the exporter's Start reports FatalError itself, synchronously
	watchOut   atomic.Int64              // provider goroutines currently inside the resolver's watcher func
	watchPanic atomic.Int64              // ... whose call panicked (send on the channel closed by provider shutdown)
	fatalSent  atomic.Int64              // goroutines that entered componentstatus.ReportStatus(FatalError)
	fatalBack  atomic.Int64              // ... and came back from it
	wedged     bool // the Run goroutine is stuck for good: do not wait for it

	gen       atomic.Int64 // configuration generation = number of Factories() calls
	started   map[string]bool
	shutdown  map[string]int
	sdGen     map[int]int // per generation: number of completed exporter Shutdown calls
	provSd    int
	startedOK map[int]bool

	gated   atomic.Bool
	gateCh  chan v20Gate
	relCh   chan struct{}
	jitter  atomic.Int64 // race mode: max ns a hook sleeps
	jrnd    func() int64 // race mode jitter source (guarded by mu)
	watcher confmap.WatcherFunc

	// outcomes chosen by the script for the step that is about to run
	getFail, newFail, startFail, sdFail, provFail atomic.Bool
	// further ways setupConfigurationComponents fails before service.New: the configuration does not pass xconfmap.Validate
	// (pipeline references an exporter that is not configured) / does not unmarshal (unknown top-level key)
	cfgInvalid, cfgBadKey atomic.Bool
	forceRecoverable atomic.Bool // script token rfatal: the FatalError report is preceded by a RecoverableError report
	dry atomic.Bool // Collector.DryRun in progress: hooks do not gate, Factories() does not open a new generation

	runDone chan struct{}
	runRes  string // ok | err | panic
	cancel  context.CancelFunc
	ctx     context.Context
	running bool
	bg      sync.WaitGroup // async senders
	stopBg  chan struct{}
}

func (w *v20World) logf(format string, a ...any) {
	w.mu.Lock()
	defer w.mu.Unlock()
	w.logLocked(fmt.Sprintf(format, a...))
}

func (w *v20World) logLocked(s string) {
	if w.col != nil {
		if st := w.col.GetState(); st != w.lastSt {
			w.lastSt = st
			w.events = append(w.events, "st "+st.String())
		}
	}
	w.events = append(w.events, s)
}

// at parks the calling (Run) goroutine at a gate until the script releases it.
func (w *v20World) at(name string, gen int) {
	if w.dry.Load() {
		return
	}
	if !w.gated.Load() {
		if j := w.jitter.Load(); j > 0 {
			w.mu.Lock()
			d := w.jrnd() % j
			w.mu.Unlock()
			time.Sleep(time.Duration(d))
		}
		return
	}
	select {
	case w.gateCh <- v20Gate{name, gen}:
		select {
		case <-w.relCh:
		case <-w.stopBg:
		}
	case <-w.stopBg:
	}
}

// yield: race mode only — a scheduling point with a random short sleep (no gate)
func (w *v20World) yield() {
	if !w.gated.Load() {
		w.at("yield", 0)
	}
}

type v20Comp struct {
	w    *v20World
	gen  int
	name string
}

func (c *v20Comp) key() string { return fmt.Sprintf("%d/%s", c.gen, c.name) }

func (c *v20Comp) Start(_ context.Context, host component.Host) error {
	w := c.w
	w.mu.Lock()
	w.hosts[c.key()] = host
	w.mu.Unlock()
	if c.name == "exp" {
		w.at("start", c.gen)
		if w.syncFatal.Swap(false) {
			// misuse the docs warn against (return the error instead) — but it must not wedge the collector
			w.fatalSent.Add(1)
			componentstatus.ReportStatus(host, componentstatus.NewFatalErrorEvent(errors.New("verif: fatal error reported from Start")))
			w.fatalBack.Add(1)
		}
	} else {
		w.yield()
	}
	if c.name == "recv" && w.startFail.Load() {
		w.logf("s %d %s err", c.gen, c.name)
		return errors.New("verif: start fails")
	}
	w.mu.Lock()
	w.started[c.key()] = true
	w.logLocked(fmt.Sprintf("s %d %s ok", c.gen, c.name))
	w.mu.Unlock()
	return nil
}

func (c *v20Comp) Shutdown(context.Context) error {
	w := c.w
	fail := false
	if c.name == "exp" {
		w.logf("xb %d", c.gen)
		w.at("sd", c.gen)
		fail = w.sdFail.Load()
	} else {
		w.yield()
	}
	w.mu.Lock()
	w.shutdown[c.key()]++
	if c.name == "exp" {
		w.sdGen[c.gen]++
	}
	w.logLocked(fmt.Sprintf("x %d %s %s", c.gen, c.name, map[bool]string{false: "ok", true: "err"}[fail]))
	w.mu.Unlock()
	if fail {
		return errors.New("verif: shutdown fails")
	}
	return nil
}

func (c *v20Comp) Capabilities() consumer.Capabilities             { return consumer.Capabilities{} }
func (c *v20Comp) ConsumeLogs(context.Context, plog.Logs) error { return nil }

type v20Cfg struct{}

var (
	v20RecvType = component.MustNewType("vrecv")
	v20ExpType  = component.MustNewType("vexp")
	v20ExtType  = component.MustNewType("vext")
)

func (w *v20World) factories() (Factories, error) {
	var g int
	if w.dry.Load() {
		g = 0 // DryRun builds (never starts) components of a pseudo-generation 0
		w.logf("dryfact")
	} else {
		g = int(w.gen.Add(1))
		w.logf("fact %d", g)
		w.yield()
	}
	mk := func(name string) *v20Comp {
		w.logf("c %d %s", g, name)
		return &v20Comp{w: w, gen: g, name: name}
	}
	var f Factories
	var err error
	defCfg := func() component.Config { return &v20Cfg{} }
	if f.Receivers, err = MakeFactoryMap(receiver.NewFactory(v20RecvType, defCfg,
		receiver.WithLogs(func(context.Context, receiver.Settings, component.Config, consumer.Logs) (receiver.Logs, error) {
			return mk("recv"), nil
		}, component.StabilityLevelStable))); err != nil {
		return f, err
	}
	if f.Exporters, err = MakeFactoryMap(exporter.NewFactory(v20ExpType, defCfg,
		exporter.WithLogs(func(context.Context, exporter.Settings, component.Config) (exporter.Logs, error) {
			if w.newFail.Load() {
				w.logf("cfail %d exp", g)
				return nil, errors.New("verif: create fails")
			}
			return mk("exp"), nil
		}, component.StabilityLevelStable))); err != nil {
		return f, err
	}
	if f.Extensions, err = MakeFactoryMap(extension.NewFactory(v20ExtType, defCfg,
		func(context.Context, extension.Settings, component.Config) (extension.Extension, error) {
			return mk("ext"), nil
		}, component.StabilityLevelStable)); err != nil {
		return f, err
	}
	return f, nil
}

type v20Provider struct{ w *v20World }

func (p *v20Provider) Scheme() string { return "verif" }

func (p *v20Provider) Retrieve(_ context.Context, _ string, wf confmap.WatcherFunc) (*confmap.Retrieved, error) {
	w := p.w
	g := int(w.gen.Load())
	w.logf("retr %d", g)
	w.mu.Lock()
	w.watcher = wf
	w.mu.Unlock()
	w.at("retrieve", g)
	if w.getFail.Load() {
		return nil, errors.New("verif: retrieve fails")
	}
	conf := map[string]any{
		"receivers":  map[string]any{"vrecv": nil},
		"exporters":  map[string]any{"vexp": nil},
		"extensions": map[string]any{"vext": nil},
		"service": map[string]any{
			"telemetry": map[string]any{
				"metrics": map[string]any{"level": "none"},
				"logs": map[string]any{"level": "info", "output_paths": []any{"/dev/null"}, "error_output_paths": []any{"/dev/null"},
					"sampling": map[string]any{"enabled": false}},
			},
			"extensions": []any{"vext"},
			"pipelines":  map[string]any{"logs": map[string]any{"receivers": []any{"vrecv"}, "exporters": []any{"vexp"}}},
		},
	}
	if w.cfgInvalid.Load() {
		w.logf("cfginvalid %d", g)
		conf["service"].(map[string]any)["pipelines"] = map[string]any{"logs": map[string]any{"receivers": []any{"vrecv"}, "exporters": []any{"vexp", "vmissing"}}}
	}
	if w.cfgBadKey.Load() {
		w.logf("cfgbadkey %d", g)
		conf["verif_unknown_section"] = map[string]any{"x": 1}
	}
	return confmap.NewRetrieved(conf, confmap.WithRetrievedClose(func(context.Context) error {
		w.logf("pclose %d", g)
		return nil
	}))
}

func (p *v20Provider) Shutdown(context.Context) error {
	w := p.w
	w.logf("provb")
	w.at("prov", 0)
	w.mu.Lock()
	w.provSd++
	w.logLocked("prov")
	w.mu.Unlock()
	if w.provFail.Load() {
		return errors.New("verif: provider shutdown fails")
	}
	return nil
}

var v20PickMsgs = map[string]string{
	"Config watch failed":                              "watcherr",
	"Asynchronous error received, terminating process": "async",
	"Received signal from OS":                          "sig",
	"Received shutdown request":                        "shutdown",
	"Context done, terminating process":                "ctx",
	"Config updated, restart service":                  "reload",
}

func v20New(tb testing.TB) *v20World { return v20NewOpt(tb, false) }

// v20NewOpt: disableGraceful = CollectorSettings.DisableGracefulShutdown (Run then registers signalsChannel for SIGHUP only)
func v20NewOpt(tb testing.TB, disableGraceful bool) *v20World {
	w := &v20World{
		started: map[string]bool{}, shutdown: map[string]int{}, sdGen: map[int]int{}, startedOK: map[int]bool{}, hosts: map[string]component.Host{},
		gateCh: make(chan v20Gate), relCh: make(chan struct{}), runDone: make(chan struct{}), stopBg: make(chan struct{}),
	}
	hook := func(e zapcore.Entry) error {
		if k, ok := v20PickMsgs[e.Message]; ok {
			w.mu.Lock()
			w.picks = append(w.picks, k)
			w.logLocked("sel " + k) // also samples GetState() (still Running here) into the event log
			if k == "watcherr" || k == "async" || k == "shutdown" || k == "ctx" {
				w.logLocked("stop " + k) // the implementation's own log says the loop is being left
			}
			// "Config updated" directly after "Received signal" belongs to the same select receive (SIGHUP)
			first := !(k == "reload" && w.lastPickSig)
			w.lastPickSig = k == "sig"
			w.mu.Unlock()
			if first {
				// the select has received, the state is still Running: gate (det) / yield point (race)
				w.at("sel", 0)
			}
		}
		return nil
	}
	col, err := NewCollector(CollectorSettings{
		BuildInfo:      component.NewDefaultBuildInfo(),
		Factories:      w.factories,
		LoggingOptions: []zap.Option{zap.Hooks(hook)},
		DisableGracefulShutdown: disableGraceful,
		ConfigProviderSettings: ConfigProviderSettings{ResolverSettings: confmap.ResolverSettings{
			URIs: []string{"verif:cfg"},
			ProviderFactories: []confmap.ProviderFactory{confmap.NewProviderFactory(func(ps confmap.ProviderSettings) confmap.Provider {
				w.provLogger = ps.Logger // the logger the collector hands to providers/converters (collectorCore underneath)
				return &v20Provider{w: w}
			})},
		}},
		SkipSettingGRPCLogger: true,
	})
	if err != nil {
		tb.Fatal(err)
	}
	w.col = col
	w.ctx, w.cancel = context.WithCancel(context.Background())
	w.lastSt = col.GetState()
	w.events = append(w.events, "st "+w.lastSt.String())
	return w
}

func (w *v20World) run() {
	ctx := w.ctx
	w.running = true
	go func() {
		res := "panic"
		defer func() {
			if r := recover(); r != nil {
				w.logf("panic run")
			}
			w.mu.Lock()
			w.runRes = res
			w.logLocked("ret " + res)
			w.mu.Unlock()
			close(w.runDone)
		}()
		if err := w.col.Run(ctx); err != nil {
			res = "err"
		} else {
			res = "ok"
		}
	}()
}

func (w *v20World) returned() bool {
	select {
	case <-w.runDone:
		return true
	default:
		return false
	}
}

func (w *v20World) chanClosed() bool {
	select {
	case <-w.col.shutdownChan:
		return true
	default:
		return false
	}
}

// callShutdown performs k concurrent Shutdown() calls from fresh goroutines and waits for them.
// Returns false if one of them panicked.
func (w *v20World) callShutdown(k int) bool {
	var wg sync.WaitGroup
	var panicked atomic.Bool
	var ready, start atomic.Int32
	w.logf("call %d", k) // logged (with a state sample) immediately before the calls
	for i := 0; i < k; i++ {
		wg.Add(1)
		go func() {
			defer wg.Done()
			defer func() {
				if r := recover(); r != nil {
					panicked.Store(true)
					w.panics.Add(1)
					w.logf("callpanic")
				}
			}()
			// spin barrier: all k callers enter Shutdown() at (as nearly as possible) the same instant
			ready.Add(1)
			for start.Load() == 0 {
			}
			w.col.Shutdown()
		}()
	}
	for int(ready.Load()) < k {
		time.Sleep(time.Microsecond)
	}
	start.Store(1)
	wg.Wait()
	return !panicked.Load()
}

// reportFatal: a goroutine of component gen/name reports StatusFatalError through the REAL host it was started with
// (componentstatus.ReportStatus -> graph.HostWrapper.Report -> status reporter -> Host.NotifyComponentStatusChange ->
// asyncErrorChannel). Returns false if that component has no host yet.
func (w *v20World) reportFatal(gen int, name string) bool {
	w.mu.Lock()
	host := w.hosts[fmt.Sprintf("%d/%s", gen, name)]
	w.mu.Unlock()
	if host == nil {
		return false
	}
	w.mu.Lock()
	recoverableFirst := len(w.events)%2 == 0 || w.forceRecoverable.Load() // deterministic per history, consumes no random draw
	w.mu.Unlock()
	w.logf("fatal %d %s recoverable-first=%v", gen, name, recoverableFirst)
	w.fatalSent.Add(1)
	go func() {
		defer func() { _ = recover() }()
		if recoverableFirst {
			// in about half of the histories: the component first reports a RecoverableError, then the FatalError (the status FSM must
			// let Recoverable -> Fatal through, or the fatal error never reaches the collector)
			componentstatus.ReportStatus(host, componentstatus.NewRecoverableErrorEvent(errors.New("verif: recoverable component error")))
		}
		componentstatus.ReportStatus(host, componentstatus.NewFatalErrorEvent(errors.New("verif: fatal component error")))
		w.fatalBack.Add(1)
	}()
	return true
}

// v20HandoverGoroutines: goroutines started by graph.Host.NotifyComponentStatusChange that still wait to hand a fatal error over
func v20HandoverGoroutines() int {
	buf := make([]byte, 1<<20)
	n := runtime.Stack(buf, true)
	return strings.Count(string(buf[:n]), "NotifyComponentStatusChange.func1(")
}

func (w *v20World) postAsync() {
	w.bg.Add(1)
	go func() {
		defer w.bg.Done()
		select {
		case w.col.asyncErrorChannel <- errors.New("verif: async"):
		case <-w.stopBg:
		}
	}()
}

func (w *v20World) postWatch(isErr bool) (ok bool) {
	defer func() {
		if r := recover(); r != nil {
			ok = false
		}
	}()
	w.mu.Lock()
	wf := w.watcher
	w.mu.Unlock()
	var e error
	if isErr {
		e = errors.New("verif: watch error")
	}
	wf(&confmap.ChangeEvent{Error: e})
	return true
}

// notify: a goroutine of the provider calls the WatcherFunc the REAL confmap.Resolver gave it (Resolver.onChange: a blocking
// send on the resolver's channel of capacity 1). Logged as `wsent ok|err` when the goroutine is started.
func (w *v20World) notify(isErr bool) {
	w.logf("wsent %s", map[bool]string{false: "ok", true: "err"}[isErr])
	w.watchOut.Add(1)
	go func() {
		defer w.watchOut.Add(-1)
		if !w.postWatch(isErr) {
			w.watchPanic.Add(1)
		}
	}()
}

// drainWatch releases provider goroutines still blocked in the watcher func after Run returned without shutting the
// providers down (failed reload): the harness receives what they are trying to send.
func (w *v20World) drainWatch() {
	deadline := time.Now().Add(2 * time.Second)
	for w.watchOut.Load() > 0 && time.Now().Before(deadline) {
		select {
		case <-w.col.configProvider.Watch():
		default:
			time.Sleep(50 * time.Microsecond)
		}
	}
}

// obs is the canonical observable state, compared exactly with the model in det cases.
func (w *v20World) obs() string {
	w.mu.Lock()
	defer w.mu.Unlock()
	liveSet := map[int]bool{}
	for k := range w.started {
		if w.shutdown[k] == 0 {
			var g int
			fmt.Sscanf(k, "%d/", &g)
			liveSet[g] = true
		}
	}
	var live []int
	for g := range liveSet {
		live = append(live, g)
	}
	sort.Ints(live)
	var gens []int
	for g := range w.sdGen {
		gens = append(gens, g)
	}
	sort.Ints(gens)
	var sd []string
	for _, g := range gens {
		sd = append(sd, fmt.Sprintf("%d:%d", g, w.sdGen[g]))
	}
	ret := "-"
	if w.returned() {
		ret = w.runRes
	}
	return fmt.Sprintf("st=%s closed=%d gen=%d live=%s sd=%s prov=%d ret=%s", w.col.GetState(), vB(w.chanClosed()), w.gen.Load(),
		v20Ints(live), v20Join(sd), w.provSd, ret)
}

func v20Ints(a []int) string {
	if len(a) == 0 {
		return "-"
	}
	var s []string
	for _, x := range a {
		s = append(s, fmt.Sprint(x))
	}
	return strings.Join(s, ",")
}

func v20Join(a []string) string {
	if len(a) == 0 {
		return "-"
	}
	return strings.Join(a, ",")
}

// cleanup terminates everything that may still be running (goleak TestMain in this package).
func (w *v20World) cleanup() {
	w.gated.Store(false)
	w.jitter.Store(0)
	close(w.stopBg)
	w.cancel()
	if w.running && !w.wedged {
		v20WaitDone(w.runDone, 5*time.Second)
	}
	if !w.wedged {
		w.drainWatch()
	}
	w.bg.Wait()
}

// ---------------------------------------------------------------------------------------------
// deterministic (gated) cases

const v20Wait = 5 * time.Second

type v20Det struct {
	w    *v20World
	out  *vOut
	rnd  interface{ IntN(int) int }
	at   string // where the Run goroutine is parked: idle | retrieve | start | sd | prov | select | done | lost
	atG  int
	sdIs string // what the parked exporter Shutdown belongs to: old | new | final
	// pending events as the harness knows them
	// provider notifications sent and not yet received by the select: one sits in the resolver's channel (capacity 1), the
	// others are provider goroutines blocked in the send — none may be lost
	pendWatchOk  int
	pendWatchErr int
	sigs       []syscall.Signal
	pendAsync  int
	pendFatal  int // fatal-error hand-overs of the live service still waiting (abandoned when that service shuts down)
	sigDropped int // signals offered while the signal channel was full: dropped, exactly as signal.Notify does
	// signals harness: signals are delivered by the OPERATING SYSTEM (kill(getpid(), sig)) and reach signalsChannel only
	// through os/signal and the registrations Run made; dg = DisableGracefulShutdown
	osSig       bool
	dryRuns     int
	fatalStuck  bool // the history ended in the select, Run not returned, although a component's FatalError report was outstanding
	sigStuck    bool // the history ended with Run not returned although a registered signal had entered the channel
	dg          bool
	sigIgnored  int    // delivered while signalsChannel was not registered for them
	sigEntered  int    // entered the channel
	lastSigPick string // the select's last receive was this signal (hup|term), "" otherwise
	ctxDone    bool
	everRun    bool // Running was reached
	reqAfter   bool // Shutdown() called after Running was first reached
	reqClosing bool // ... and at that moment a reload was in progress (state Closing)
	reloads    int
	fails      int
	multi      int // select with >= 2 ready branches
	nops       int
	bad        bool
	lostWatchErr bool // the history ended with Run not returned although an error notification was outstanding
	watchErrSent int // error notifications sent by provider goroutines
	watchBursts  int // notifications sent while another one was still outstanding
	fatals  int // fatal errors reported through the real host
	// FatalError is terminal in the status FSM: a second report by the same component instance is an invalid transition
	fatalUsed map[int]bool
	skipped int // script tokens that were not applicable where they were due
	// exhaustive enumeration: called once, at the decision point where the script ran out
	onScriptEnd func()
}

func (d *v20Det) ready() int {
	n := d.pendWatchOk + d.pendWatchErr + d.pendAsync + d.pendFatal
	if len(d.sigs) > 0 {
		n++
	}
	if d.ctxDone {
		n++
	}
	if d.w.chanClosed() {
		n++
	}
	return n
}

func (d *v20Det) emit(op string, withObs bool) {
	d.nops++
	if withObs {
		d.w.logf("at %s", strings.ReplaceAll(op, " ", "-")) // also samples GetState() into the event log
	}
	if withObs {
		d.out.Linef("op %s", op)
		if d.osSig {
			d.out.Linef("obs %s sigq=%d", d.w.obs(), len(d.w.col.signalsChannel))
		} else {
			d.out.Linef("obs %s", d.w.obs())
		}
	} else {
		d.out.Linef("op %s noobs", op)
	}
}

// wait until the Run goroutine is parked again (gate), has returned, or sits in the select with nothing ready.
func (d *v20Det) settle(expectRunning bool) {
	w := d.w
	patience := v20NewPatience(v20Wait)
	tick := time.NewTicker(100 * time.Microsecond)
	defer tick.Stop()
	for {
		select {
		case g := <-w.gateCh:
			d.at, d.atG = g.name, g.gen
			return
		case <-w.runDone:
			d.at = "done"
			return
		case <-tick.C:
			if patience.expired() {
				// past the deadline AND nothing in the process can still move (or 20 x the deadline): the Run goroutine is not coming
				d.at = "timeout"
				d.bad = true
				return
			}
			if expectRunning && w.col.GetState() == StateRunning && d.ready() == 0 {
				if d.osSig && !v20RunParkedInSelect() {
					// StateRunning is stored before Run calls signal.Notify and enters the select: wait until the Run goroutine
					// really is parked in the select, so that no signal is delivered inside that window
					continue
				}
				d.at = "select"
				return
			}
		}
	}
}

func (d *v20Det) release() { d.w.relCh <- struct{}{} }

// external performs one external event while the Run goroutine is parked / in select / not started / returned.
func (d *v20Det) external(kind int) {
	w := d.w
	if d.osSig && (kind == 3 || kind == 4 || kind == 10) {
		d.osSignal(kind)
		return
	}
	if kind == 10 {
		return
	}
	if kind == 12 { // rfatal: a component reports RecoverableError and then FatalError
		w.forceRecoverable.Store(true)
		d.external(9)
		w.forceRecoverable.Store(false)
		return
	}
	if kind == 11 { // Collector.DryRun on a collector whose Run has not been called: validates, must change nothing
		if d.at != "idle" {
			return
		}
		inv := d.rnd.IntN(3) == 0
		w.cfgInvalid.Store(inv)
		w.dry.Store(true)
		nStarted := func() int { w.mu.Lock(); defer w.mu.Unlock(); return len(w.started) }
		before := nStarted()
		closedBefore := w.chanClosed()
		err := func() (err error) {
			defer func() {
				if r := recover(); r != nil {
					err = fmt.Errorf("panic: %v", r)
				}
			}()
			return w.col.DryRun(w.ctx)
		}()
		w.dry.Store(false)
		w.cfgInvalid.Store(false)
		if st := w.col.GetState(); st != StateStarting || nStarted() != before || w.chanClosed() != closedBefore {
			d.out.Linef("viol sig=C20/dryrun/changed-collector-state state=%s started=%d: DryRun must only validate", st, nStarted()-before)
		}
		d.dryRuns++
		d.emit(fmt.Sprintf("dryrun %s", map[bool]string{true: "err", false: "ok"}[err != nil]), true)
		return
	}
	if (kind == 3 || kind == 4) && d.at != "done" && len(d.sigs) >= 3 {
		// capacity reached (make(chan os.Signal, 3)): os/signal delivers with a non-blocking send, the signal is dropped
		// before it reaches the collector — no label of the model, nothing to observe
		select {
		case w.col.signalsChannel <- syscall.SIGHUP:
			d.bad = true // accounting error of the harness: the channel was not full
		default:
			d.sigDropped++
		}
		return
	}
	if !d.canExternal(kind) {
		return
	}
	switch kind {
	case 0, 1, 2: // Shutdown() from 1..3 goroutines
		k := 1
		if kind > 0 {
			k = 1 + d.rnd.IntN(3)
		}
		st := w.col.GetState()
		if !w.callShutdown(k) {
			d.out.Linef("viol sig=C20/shutdown/concurrent-call-panicked Shutdown() panicked in the caller's goroutine, %d concurrent caller(s), state %s", k, st)
		}
		if d.everRun {
			d.reqAfter = true
			if st == StateClosing && (d.at == "sd" && d.sdIs == "old") {
				d.reqClosing = true
			}
		}
		d.emit(fmt.Sprintf("shutdown %d", k), d.stable())
	case 3:
		w.col.signalsChannel <- syscall.SIGHUP
		d.sigs = append(d.sigs, syscall.SIGHUP)
		d.emit("post hup", d.stable())
	case 4:
		w.col.signalsChannel <- syscall.SIGTERM
		d.sigs = append(d.sigs, syscall.SIGTERM)
		d.emit("post term", d.stable())
	case 5, 6:
		w.notify(kind == 6)
		if kind == 6 {
			d.pendWatchErr++
			d.watchErrSent++
		} else {
			d.pendWatchOk++
		}
		if d.pendWatchOk+d.pendWatchErr > 1 {
			d.watchBursts++
		}
		time.Sleep(200 * time.Microsecond) // let the provider goroutine reach the channel (buffered, or blocked behind it)
		d.emit(map[bool]string{false: "post watch", true: "post watcherr"}[kind == 6], d.stable())
	case 7:
		w.postAsync()
		d.pendAsync++
		time.Sleep(200 * time.Microsecond) // let the sender block on the unbuffered channel
		d.emit("post async", d.stable())
	case 8:
		w.cancel()
		d.ctxDone = true
		d.emit("cancel", d.stable())
	case 9: // a started component's goroutine reports a fatal error through the real host
		if d.at == "start" && d.rnd.IntN(2) == 0 {
			// reported synchronously, on the Run goroutine, from inside the exporter's Start (after the gate is released)
			w.syncFatal.Store(true)
			w.logf("fatal-sync %d exp", w.gen.Load())
		} else if !w.reportFatal(int(w.gen.Load()), "exp") {
			return
		}
		d.pendFatal++
		d.fatals++
		if d.fatalUsed == nil {
			d.fatalUsed = map[int]bool{}
		}
		d.fatalUsed[int(w.gen.Load())] = true
		time.Sleep(200 * time.Microsecond) // let the hand-over block on the unbuffered channel
		d.emit("post fatal", d.stable())
	}
}

// canExternal: may this external event be performed at the current point?
func (d *v20Det) canExternal(kind int) bool {
	w := d.w
	switch kind {
	case 0, 1, 2:
		return true
	case 3, 4: // the signal channel has capacity 3; nobody reads it after Run returned
		return len(d.sigs) < 3 && d.at != "done"
	case 5, 6: // watch notification (ok / error) from a provider goroutine: up to 3 outstanding; never before the first Retrieve,
		// never once the run is committed to the provider's Shutdown
		w.mu.Lock()
		haveWatcher := w.watcher != nil
		w.mu.Unlock()
		return haveWatcher && d.pendWatchOk+d.pendWatchErr < 3 && !(d.at == "idle" || d.at == "done" || d.at == "prov" ||
			(d.at == "sd" && d.sdIs == "final") || (d.at == "sel" && d.sdIs == "final"))
	case 7:
		return d.at != "done" && d.pendAsync < 2
	case 8:
		return !d.ctxDone
	case 9: // the exporter of the current generation has been handed its host and is not yet shut down
		// (extensions get the bare host, which is no componentstatus.Reporter: their reports go nowhere)
		w.mu.Lock()
		k := fmt.Sprintf("%d/exp", w.gen.Load())
		ok := w.hosts[k] != nil && w.shutdown[k] == 0
		w.mu.Unlock()
		return ok && d.v20FatalEnabled() && d.at != "done" && d.pendFatal < 1 && !d.fatalUsed[int(w.gen.Load())]
	}
	return false
}

// stable: the observable state cannot change under our feet (Run parked, returned, not started, or in select with nothing ready)
func (d *v20Det) stable() bool { return d.at != "select" || d.ready() == 0 }

func (w *v20World) takePicks() []string {
	w.mu.Lock()
	defer w.mu.Unlock()
	p := w.picks
	w.picks = nil
	return p
}

// afterSelect: something is ready in the select: wait for the Run goroutine to park again and report the branch it took.
func (d *v20Det) afterSelect() {
	nready := d.ready()
	d.settle(false)
	picks := d.w.takePicks()
	if nready >= 2 {
		d.multi++
	}
	branch := "unknown"
	if len(picks) > 0 {
		branch = picks[0]
	}
	switch branch {
	case "reload": // directly "Config updated": the watch channel delivered nil
		branch = "watch"
		d.pendWatchOk--
	case "watcherr":
		d.pendWatchErr--
	case "async":
		if d.pendAsync > 0 {
			d.pendAsync--
		} else {
			d.pendFatal--
		}
	case "sig":
		if len(d.sigs) > 0 {
			if d.sigs[0] == syscall.SIGHUP {
				branch = "hup"
			} else {
				branch = "term"
			}
			d.sigs = d.sigs[1:]
		}
	}
	d.lastSigPick = ""
	if branch == "hup" || branch == "term" {
		d.lastSigPick = branch
	}
	if branch == "watch" || branch == "hup" {
		d.reloads++
		d.sdIs = "old"
	} else {
		d.sdIs = "final"
		d.w.logf("stop %s", branch)
	}
	if d.at == "timeout" {
		d.out.Linef("op pick %s", branch)
		d.out.Linef("obs timeout")
		return
	}
	d.emit("pick "+branch, true)
}

var v20ExtKinds = map[string]int{"shutdown": 0, "shutdownN": 1, "hup": 3, "term": 4, "watch": 5, "watcherr": 6, "async": 7, "cancel": 8, "fatal": 9, "int": 10, "dryrun": 11, "rfatal": 12}

func (d *v20Det) v20FatalEnabled() bool { return true }

// runCase: random walk (or corpus script) over the gates. Script tokens: an external event name, "go" (advance the Run
// goroutine with outcome ok), "fail" (advance with a failing outcome). After the script / budget the case is finished
// with all-ok outcomes and, if the collector idles in the select, one Shutdown().
func (d *v20Det) runCase(budget int, corpus []string) {
	w := d.w
	w.gated.Store(true)
	d.at = "idle"
	scripted := corpus != nil
	finishing := false
	for steps := 0; steps < 300 && !d.bad; steps++ {
		if !scripted && d.nops >= budget {
			finishing = true
		}
		if d.at == "select" && d.ready() > 0 {
			d.afterSelect()
			continue
		}
		// 1. external events at this point
		outcomeFail := false
		if scripted {
			for {
				if len(corpus) == 0 {
					scripted, finishing = false, true
					if d.onScriptEnd != nil {
						d.onScriptEnd()
					}
					break
				}
				tok := corpus[0]
				if tok == "go" || tok == "fail" {
					corpus = corpus[1:]
					if d.at == "select" || d.at == "done" {
						d.skipped++ // nothing to advance here (the select took another branch than in the run that generated the script)
						continue
					}
					outcomeFail = tok == "fail"
					break
				}
				corpus = corpus[1:]
				d.external(v20ExtKinds[tok])
				if d.at == "select" && d.ready() > 0 {
					break
				}
			}
		} else if !finishing {
			nExt := 0
			switch d.at {
			case "select":
				nExt = 1
			case "done":
				nExt = d.rnd.IntN(3)
			default:
				if d.rnd.IntN(3) == 0 {
					nExt = 1 + d.rnd.IntN(3)
				}
			}
			for i := 0; i < nExt; i++ {
				before := d.nops
				for try := 0; try < 6 && d.nops == before; try++ {
					// Shutdown() calls and reload triggers are weighted up
					if d.osSig {
						// signals weighted up: SIGHUP, SIGTERM, SIGINT from the OS; the rest as in the run-loop harness
						if d.at == "idle" && d.rnd.IntN(4) == 0 {
							d.external(11)
							continue
						}
						k := []int{0, 1, 3, 3, 3, 3, 3, 4, 4, 10, 10, 5, 6, 7, 8, 9}[d.rnd.IntN(16)]
						if (k == 3 || k == 4 || k == 10) && (!d.everRun || d.at == "done") && d.rnd.IntN(4) != 0 {
							continue // outside the registration window a signal is only sent now and then
						}
						d.external(k)
						continue
					}
					d.external([]int{0, 1, 2, 3, 3, 3, 3, 5, 5, 5, 4, 6, 7, 8, 9, 9}[d.rnd.IntN(16)])
				}
				if d.at == "select" && d.ready() > 0 {
					break
				}
			}
			outcomeFail = d.rnd.IntN(8) == 0
		}
		if d.at == "done" {
			break
		}
		if d.at == "select" && d.ready() > 0 {
			continue
		}
		// 2. advance the Run goroutine
		fail := outcomeFail && !finishing
		if fail {
			d.fails++
		}
		w.takePicks()
		switch d.at {
		case "idle":
			w.run()
			d.settle(false)
			d.emit("run", true)
		case "retrieve":
			o := "ok"
			if fail {
				o = []string{"getfail", "newfail", "invalid", "badkey"}[d.rnd.IntN(4)]
			}
			w.getFail.Store(o == "getfail")
			w.newFail.Store(o == "newfail")
			w.cfgInvalid.Store(o == "invalid")
			w.cfgBadKey.Store(o == "badkey")
			d.release()
			d.settle(false)
			d.emit("build "+o, true)
		case "start":
			w.startFail.Store(fail)
			d.release()
			switch {
			case fail:
				d.sdIs = "new"
				d.settle(false)
				d.emit("start fail", true)
			case d.ready() == 0:
				d.settle(true)
				d.everRun = true
				d.emit("start ok", true)
			default: // something is already ready: the Run goroutine goes through the select at once
				d.everRun = true
				d.at = "select"
				d.emit("start ok", false)
			}
		case "sel": // parked right after the select receive (state still Running): let it go on to the next gate
			if fail {
				d.fails--
			}
			d.release()
			d.settle(false)
			if d.osSig && d.lastSigPick != "" {
				// direct oracle: what the collector does with the signal it has just received from the OS
				if d.lastSigPick == "term" && d.at == "sd" {
					d.out.Linef("viol sig=C20/signal/termination-signal-did-not-stop the select received SIGINT/SIGTERM and the collector started a reload instead of shutting down")
				} else if d.lastSigPick == "hup" && d.at == "prov" {
					d.out.Linef("viol sig=C20/signal/sighup-stopped-the-collector the select received SIGHUP and the collector shut down instead of reloading")
				}
			}
			d.emit("sel", true)
		case "sd":
			w.sdFail.Store(fail)
			is := d.sdIs
			d.release()
			d.settle(false)
			w.sdFail.Store(false)
			if d.pendFatal > 0 {
				// service.Shutdown closed host.Done: the pending hand-over goroutines of that service are stale and give up as
				// soon as they run. Wait until they are gone (goroutine dump), so that none can still deliver to a later select.
				if !w.waitFor(func() bool { return v20HandoverGoroutines() == 0 }, v20Wait) {
					d.bad = true
				}
			}
			d.pendFatal = 0
			d.emit("sd"+is+" "+map[bool]string{false: "ok", true: "fail"}[fail], true)
		case "prov":
			w.provFail.Store(fail)
			d.release()
			d.settle(false)
			d.emit("prov "+map[bool]string{false: "ok", true: "fail"}[fail], true)
		case "select": // nothing ready
			if finishing {
				// the history is over and the collector still runs: was a request lost?
				w.logf("quiet")
				if d.reqAfter {
					sig := "C20/shutdown/lost-other"
					if d.reqClosing {
						sig = "C20/shutdown/lost-during-reload"
					}
					d.out.Linef("viol sig=%s Shutdown() was called after Running was reached, yet the collector is Running with shutdownChan open and nothing pending", sig)
				}
				d.external(0)
			}
		}
	}
	if d.at != "done" {
		d.bad = true
	}
	if d.bad && !w.returned() {
		// judged NOW, before cleanup cancels the context: the history is over and Run has not returned
		w.logf("wedged")
		d.lostWatchErr = d.pendWatchErr > 0
		d.sigStuck = d.osSig && len(d.sigs) > 0
		d.fatalStuck = d.pendFatal > 0 && d.at == "timeout" && w.col.GetState() == StateRunning
	}
}

func TestVerifC20RunLoop(t *testing.T) {
	out := vOpen(t)
	defer out.Close()
	out.Linef("model c20-runloop 1")
	n := vN(300)
	corpus := [][]string{
		// DESIGN §C20 finding (1): SIGHUP, then Shutdown() while the reload is in state Closing
		{"go", "go", "go", "hup", "go", "shutdown", "go", "go", "go"},
		// audit issue 1: SIGTERM taken by the select, then a component goroutine reports FatalError through the real host
		// (blocking send on the unbuffered asyncErrorChannel under the status reporter's mutex), then the shutdown proceeds
		{"go", "go", "go", "term", "fatal", "go", "go", "go"},
		// the same during a reload: SIGHUP taken, a component of the retiring service reports FatalError
		{"go", "go", "go", "hup", "fatal", "go", "go", "go", "go"},
		// two components fail fatally at once: the first report stops the collector, the second arrives during shutdown
		{"go", "go", "go", "fatal", "go", "fatal", "go", "go"},
		// round-7 seed 1: while the collector is busy starting, the provider notifies a change and then a watch ERROR;
		// the error sits behind the unconsumed change and must not be lost: reload, then stop on the error
		{"go", "go", "watch", "watcherr", "go"},
		// the same while a reload is in progress (SIGHUP taken, old service shutting down)
		{"go", "go", "go", "hup", "go", "watch", "watch", "watcherr", "go"},
		// round-9 seed 2: a component that had reported a RecoverableError reports a FatalError while the collector idles in
		// the select: the status FSM must let the transition through, the error must reach the select and stop the collector
		{"go", "go", "go", "rfatal", "go", "go"},
	}
	timeouts := 0
	for _, c := range vCases(n) {
		if timeouts >= 3 {
			// the code under test no longer follows the gate protocol; every further case would time out as well
			break
		}
		rnd := vRand(c)
		out.Linef("case %d kind=det", c)
		w := v20New(t)
		d := &v20Det{w: w, out: out, rnd: rnd}
		var cp []string
		if c < len(corpus) {
			cp = corpus[c]
		}
		d.runCase(4+rnd.IntN(24), cp)
		w.cleanup()
		for _, e := range w.events {
			out.Linef("tr %s", e)
		}
		out.Linef("stat reloads %d", d.reloads)
		out.Linef("stat failures %d", d.fails)
		out.Linef("stat multi_ready_selects %d", d.multi)
		out.Linef("stat ops %d", d.nops)
		out.Linef("stat fatal_reports_through_real_host %d", d.fatals)
		out.Linef("stat watch_notifications_behind_an_outstanding_one %d", d.watchBursts)
		out.Linef("stat watch_senders_panicked_at_provider_shutdown %d", w.watchPanic.Load())
		out.Linef("stat signals_dropped_at_capacity %d", d.sigDropped)
		if d.bad {
			out.Linef("stat harness_timeouts 1")
			if d.lostWatchErr {
				out.Linef("viol sig=C20/runloop/watch-error-notification-lost state=%s: a provider sent an error notification, the run loop never acted on it (Run has not returned)", w.col.GetState())
			} else if w.fatalSent.Load() > w.fatalBack.Load() {
				out.Linef("viol sig=C20/runloop/run-wedged-while-fatal-error-report-pending state=%s: a component's FatalError report has not come back and the Run goroutine stopped making progress", w.col.GetState())
			} else if d.fatalStuck {
				out.Linef("viol sig=C20/runloop/fatal-error-report-never-received a component reported StatusFatalError through its host (report returned), the collector sat in the select and never received it: Run has not returned")
			} else {
				out.Linef("viol sig=C20/harness/run-goroutine-did-not-reach-expected-point at=%s", d.at)
			}
			timeouts++
		}
		if d.reloads > 0 {
			out.Linef("nt")
		}
		v20EmitRetries(out)
		out.Linef("end")
		out.Flush()
	}
}

// ---------------------------------------------------------------------------------------------
// race cases: no gates, native scheduling; monitored only (`tr` lines -> Lean monitor, Go `viol` oracle)

func (w *v20World) waitFor(cond func() bool, d time.Duration) bool {
	p := v20NewPatience(d)
	for !cond() {
		if p.expired() {
			return false
		}
		time.Sleep(50 * time.Microsecond)
	}
	return true
}

// waitBriefly: a fixed short wait that is not a verdict
func (w *v20World) waitBriefly(cond func() bool, d time.Duration) bool {
	deadline := time.Now().Add(d)
	for !cond() {
		if time.Now().After(deadline) {
			return false
		}
		time.Sleep(50 * time.Microsecond)
	}
	return true
}

func TestVerifC20Race(t *testing.T) {
	out := vOpen(t)
	defer out.Close()
	out.Linef("model c20-race 1")
	n := vN(100)
	for _, c := range vCases(n) {
		rnd := vRand(c)
		out.Linef("case %d kind=race", c)
		w := v20New(t)
		jr := vRand(c + 1<<20)
		w.jrnd = func() int64 { return jr.Int64N(1 << 40) }
		w.jitter.Store(int64(20_000 + rnd.IntN(300_000)))
		w.run()
		if !w.waitFor(func() bool { return w.col.GetState() == StateRunning }, v20Wait) {
			out.Linef("viol sig=C20/harness/never-running")
		}
		w.logf("up") // samples GetState() == Running into the event log
		// scenario: reload triggers and Shutdown() calls (mode 0), plus other stop reasons (mode 1)
		mode := rnd.IntN(3) / 2
		type act struct {
			kind  int
			delay time.Duration
		}
		var acts []act
		nReload := 1 + rnd.IntN(3)
		for i := 0; i < nReload; i++ {
			acts = append(acts, act{3, time.Duration(rnd.IntN(1500)) * time.Microsecond})
		}
		if rnd.IntN(2) == 0 {
			acts = append(acts, act{5, time.Duration(rnd.IntN(1500)) * time.Microsecond})
		}
		nCalls := 1 + rnd.IntN(3)
		for i := 0; i < nCalls; i++ {
			acts = append(acts, act{0, time.Duration(rnd.IntN(3000)) * time.Microsecond})
		}
		if mode == 1 {
			acts = append(acts, act{[]int{4, 7, 8}[rnd.IntN(3)], time.Duration(rnd.IntN(3000)) * time.Microsecond})
		}
		if rnd.IntN(3) == 0 {
			// a component goroutine reports FatalError through the real host at some point of the reloads / the shutdown
			acts = append(acts, act{9, time.Duration(rnd.IntN(3000)) * time.Microsecond})
		}
		desc := ""
		for _, a := range acts {
			desc += fmt.Sprintf("%d@%d,", a.kind, a.delay/time.Microsecond)
		}
		out.Linef("op scen j=%d %s noobs", w.jitter.Load(), desc)
		var wg sync.WaitGroup
		var asyncPosted atomic.Bool
		for _, a := range acts {
			wg.Add(1)
			go func(a act) {
				defer wg.Done()
				time.Sleep(a.delay)
				switch a.kind {
				case 0:
					w.callShutdown(1 + int(a.delay)%2) // 1 or 2 callers through the barrier; a panic is recorded in w.panics
				case 3:
					select {
					case w.col.signalsChannel <- syscall.SIGHUP:
					default:
					}
				case 4:
					select {
					case w.col.signalsChannel <- syscall.SIGTERM:
						w.logf("stopev term")
					default:
					}
				case 5:
					// a provider notifies at most once per Retrieve and never after its Shutdown: only if the buffer is free
					// and Run is not past the provider shutdown; a late send on the closed channel is recovered
					if len(w.col.configProvider.Watch()) == 0 && w.col.GetState() == StateRunning {
						w.postWatch(false)
					}
				case 7:
					asyncPosted.Store(true)
					w.postAsync()
				case 8:
					w.cancel()
				case 9:
					w.reportFatal(int(w.gen.Load()), "exp")
				}
			}(a)
		}
		wg.Wait()
		// every action has been performed (all Shutdown() calls have returned). Either Run returns, or the system comes to rest.
		verdict := "returned"
		patience := v20NewPatience(v20Wait)
		calm := 0
		for !w.returned() {
			if patience.expired() {
				verdict = "timeout"
				break
			}
			time.Sleep(500 * time.Microsecond)
			w.mu.Lock()
			nev := len(w.events)
			w.mu.Unlock()
			if w.col.GetState() == StateRunning && len(w.col.signalsChannel) == 0 && len(w.col.configProvider.Watch()) == 0 &&
				!w.chanClosed() && !asyncPosted.Load() && w.fatalSent.Load() == w.fatalBack.Load() && w.ctx.Err() == nil && nev == calm {
				// at rest in the select for two consecutive polls with an unchanged event log ... confirm over 30 ms
				time.Sleep(30 * time.Millisecond)
				w.mu.Lock()
				same := len(w.events) == nev
				w.mu.Unlock()
				if same && w.col.GetState() == StateRunning && !w.chanClosed() && !w.returned() {
					verdict = "quiet"
					break
				}
			}
			calm = nev
		}
		if w.panics.Load() > 0 {
			out.Linef("viol sig=C20/shutdown/concurrent-call-panicked %d Shutdown() call(s) panicked in the caller's goroutine", w.panics.Load())
		}
		switch verdict {
		case "quiet":
			w.logf("quiet")
			out.Linef("viol sig=C20/shutdown/lost-race Shutdown() returned after Running was reached; the collector is at rest in the select, Running, shutdownChan open")
		case "timeout":
			out.Linef("viol sig=C20/harness/race-run-did-not-return state=%s", w.col.GetState())
		}
		w.cleanup()
		reloads := 0
		for _, e := range w.events {
			out.Linef("tr %s", e)
			if strings.HasPrefix(e, "fact ") {
				reloads++
			}
		}
		out.Linef("stat race_reloads %d", reloads-1)
		out.Linef("stat race_verdict_%s 1", verdict)
		if reloads > 1 {
			out.Linef("nt")
		}
		v20EmitRetries(out)
		out.Linef("end")
		out.Flush()
	}
}

// ---------------------------------------------------------------------------------------------
// OS-delivered signals (signals harness, harness/c20/signals_test.go)

var v20SigGuard chan os.Signal

// v20DeliverSignal sends sig to this process and returns once os/signal has handed it to every registered channel:
// os/signal processes signals one at a time in a single goroutine (signal.loop -> process), so when the marker SIGUSR1 sent
// AFTER sig has reached the guard channel, process(sig) has completed — sig is in signalsChannel, or was dropped, or the
// channel was not registered for it.
func v20DeliverSignal(sig syscall.Signal) bool {
	wait := func(want syscall.Signal) bool {
		p := v20NewPatience(3 * time.Second)
		tick := time.NewTicker(200 * time.Microsecond)
		defer tick.Stop()
		for {
			select {
			case got := <-v20SigGuard:
				if got == want {
					return true
				}
			case <-tick.C:
				if p.expired() {
					return false
				}
			}
		}
	}
	if err := syscall.Kill(os.Getpid(), sig); err != nil {
		return false
	}
	if !wait(sig) {
		return false
	}
	if err := syscall.Kill(os.Getpid(), syscall.SIGUSR1); err != nil {
		return false
	}
	return wait(syscall.SIGUSR1)
}

func (d *v20Det) osSignal(kind int) {
	sig := map[int]syscall.Signal{3: syscall.SIGHUP, 4: syscall.SIGTERM, 10: syscall.SIGINT}[kind]
	name := map[int]string{3: "hup", 4: "term", 10: "int"}[kind]
	if d.sigEntered+d.sigDropped+d.sigIgnored >= 12 {
		return // keep histories short
	}
	if !v20DeliverSignal(sig) {
		d.bad = true
		return
	}
	// the harness's own account of what must have happened (the authoritative comparison is the model's, line by line)
	registered := d.everRun && d.at != "done" && (sig == syscall.SIGHUP || !d.dg)
	switch {
	case registered && len(d.sigs) < 3:
		d.sigs = append(d.sigs, sig)
		d.sigEntered++
	case registered:
		d.sigDropped++
	default:
		d.sigIgnored++
	}
	d.emit("ossig "+name, d.stable())
}

// v20RunParkedInSelect: is the goroutine executing (*Collector).Run parked in its select? (goroutine dump)
func v20RunParkedInSelect() bool {
	buf := make([]byte, 1<<20)
	n := runtime.Stack(buf, true)
	for _, g := range strings.Split(string(buf[:n]), "\n\n") {
		if strings.Contains(g, "otelcol.(*Collector).Run(") && !strings.Contains(g, "setupConfigurationComponents") {
			return strings.HasPrefix(g, "goroutine ") && strings.Contains(g[:strings.Index(g, "\n")+1], "[select")
		}
	}
	return false
}

// ---------------------------------------------------------------------------------------------
// load-tolerant waiting: a wall-clock deadline alone must never become a verdict on a loaded machine

var v20GateRetries atomic.Int64 // waits that went past their base deadline (the process was still making progress)

// v20Quiescent: no goroutine of this process other than the caller (and os/signal's receiver) can make progress by itself —
// every one of them is blocked on a channel, a select, a lock, a condition or the network. A goroutine that is runnable,
// running, sleeping, in a syscall or in any state not known to be blocked counts as "still making progress".
func v20Quiescent() bool {
	buf := make([]byte, 4<<20)
	n := runtime.Stack(buf, true)
	blocks := strings.Split(string(buf[:n]), "\n\n")
	for i, g := range blocks {
		if i == 0 || !strings.HasPrefix(g, "goroutine ") { // the first block is the caller
			continue
		}
		if strings.Contains(g, "os/signal.signal_recv") || strings.Contains(g, "os/signal.loop") {
			continue
		}
		hdr := g
		if k := strings.Index(g, "\n"); k >= 0 {
			hdr = g[:k]
		}
		a, b := strings.Index(hdr, "["), strings.Index(hdr, "]")
		if a < 0 || b < a {
			return false
		}
		state := hdr[a+1 : b]
		if k := strings.Index(state, ","); k >= 0 {
			state = state[:k]
		}
		switch state {
		case "chan receive", "chan send", "select", "semacquire", "sync.Mutex.Lock", "sync.RWMutex.RLock", "sync.RWMutex.Lock",
			"sync.Cond.Wait", "sync.WaitGroup.Wait", "IO wait", "chan receive (nil chan)", "chan send (nil chan)", "select (no cases)",
			"finalizer wait":
		default:
			return false
		}
	}
	return true
}

// v20Patience: a deadline of `base` that is extended (up to 20 x base) as long as the process is not quiescent; it expires
// early only when three consecutive samples 100 ms apart found every other goroutine blocked (a genuine hang).
type v20Patience struct {
	start, next time.Time
	base        time.Duration
	quiet       int
	extended    bool
}

func v20NewPatience(base time.Duration) *v20Patience {
	now := time.Now()
	return &v20Patience{start: now, next: now.Add(base), base: base}
}

func (p *v20Patience) expired() bool {
	now := time.Now()
	if now.Before(p.next) {
		return false
	}
	if now.Sub(p.start) >= 20*p.base {
		return true
	}
	if v20Quiescent() {
		p.quiet++
	} else {
		p.quiet = 0
	}
	if p.quiet >= 3 {
		return true
	}
	if !p.extended {
		p.extended = true
		v20GateRetries.Add(1)
	}
	p.next = now.Add(100 * time.Millisecond)
	return false
}

// v20WaitDone waits for ch to be closed, patiently
func v20WaitDone(ch <-chan struct{}, base time.Duration) bool {
	p := v20NewPatience(base)
	tick := time.NewTicker(200 * time.Microsecond)
	defer tick.Stop()
	for {
		select {
		case <-ch:
			return true
		case <-tick.C:
			if p.expired() {
				return false
			}
		}
	}
}

// v20EmitRetries: `stat gate_retry n` for the case that just ended, if some wait of it had to be extended
func v20EmitRetries(out *vOut) {
	if n := v20GateRetries.Swap(0); n > 0 {
		out.Linef("stat gate_retry %d", n)
	}
}
