//go:build verif

package otelcol

// C20 — signals harness (D + M): the gated run-loop histories of runloop_test.go, but SIGHUP / SIGTERM / SIGINT are delivered
// by the OPERATING SYSTEM (kill(getpid(), sig)) and reach Collector.signalsChannel only through os/signal and the
// registrations Run itself made (signal.Notify after the initial set-up, SIGINT/SIGTERM only unless DisableGracefulShutdown,
// signal.Stop deferred). Model: the signal layer `fireS` of lean/OtelVerif/Model/C20Sig.lean (driver model `c20-sig`):
// registered? room in the FIFO channel of capacity 3? — compared exactly after every label (the core observation plus
// len(signalsChannel)). Signals are sent before Run, during the initial set-up, at every gate, in the select, beyond the
// capacity, and after Run returned. The test process keeps its own registration for all four signals for the whole test,
// so a signal the collector is not registered for does not kill it. After the random cases: exhaustive small scope (every
// script over {go, fail, SIGHUP, SIGTERM, SIGINT, Shutdown()} up to a length bound from Running-idle, both settings).

import (
	"os"
	"os/signal"
	"strconv"
	"syscall"
	"testing"
)

func TestVerifC20Signals(t *testing.T) {
	out := vOpen(t)
	defer out.Close()
	out.Linef("model c20-sig 1")
	v20SigGuard = make(chan os.Signal, 64)
	signal.Notify(v20SigGuard, syscall.SIGHUP, syscall.SIGTERM, syscall.SIGINT, syscall.SIGUSR1)
	defer signal.Stop(v20SigGuard)
	n := vN(150)
	type cp struct {
		dg     bool
		script []string
	}
	corpus := []cp{
		// graceful shutdown disabled: SIGTERM and SIGINT while Running never reach the collector, SIGHUP reloads; four SIGHUPs
		// during the reload: three enter the channel, the fourth is dropped; each of the three is then a reload of its own
		{true, []string{"go", "go", "go", "term", "int", "hup", "go", "go", "hup", "hup", "hup", "hup", "go", "go", "go"}},
		// enabled: a SIGTERM before Run and during the initial set-up never arrives (not registered yet); SIGINT while Running stops
		{false, []string{"term", "go", "hup", "go", "term", "go", "int", "go", "go", "go", "hup"}},
		// enabled: SIGHUP then SIGTERM delivered while a reload is in progress: FIFO — the reload completes, SIGHUP is received
		// first (another reload), then SIGTERM stops the collector
		{false, []string{"go", "go", "go", "hup", "go", "hup", "term", "go", "go", "go", "go", "go", "go", "go", "go", "go"}},
		// enabled: SIGINT first, SIGHUP behind it: the collector stops, the SIGHUP stays in the channel unread
		{false, []string{"go", "go", "go", "hup", "go", "int", "hup", "go", "go", "go", "go", "go"}},
		// a failed reload returns from Run (deferred signal.Stop): later signals never arrive
		{false, []string{"go", "go", "go", "hup", "go", "go", "fail", "hup", "term"}},
		// DryRun twice before Run: validates only — state stays Starting, nothing is started, Run then works as ever
		{false, []string{"dryrun", "dryrun", "go", "go", "go", "hup", "go", "go", "go", "term"}},
	}
	timeouts := 0
	// one case: corpus / random walk (script == nil and !exh) or a fixed script of the exhaustive phase
	runOne := func(c int, dg bool, script []string, exh bool) (children []string, bad bool) {
		rnd := vRand(c)
		kind := "sig"
		if exh {
			kind = "sigexh"
		}
		out.Linef("case %d kind=%s dg=%d", c, kind, vB(dg))
		w := v20NewOpt(t, dg)
		d := &v20Det{w: w, out: out, rnd: rnd, osSig: true, dg: dg}
		if exh {
			d.onScriptEnd = func() { children = d.sigApplicable() }
			if script == nil {
				script = []string{}
			}
			d.runCase(0, script)
		} else {
			d.runCase(4+rnd.IntN(24), script)
		}
		// after the history: nothing is registered any more (Run returned: deferred signal.Stop) — one more of each
		if d.at == "done" && !d.bad {
			for _, k := range []int{3, 4, 10} {
				d.osSignal(k)
			}
		}
		w.cleanup()
		for _, e := range w.events {
			out.Linef("tr %s", e)
		}
		pre := ""
		if exh {
			pre = "exh_"
			out.Linef("stat exh_len_%d 1", len(script))
		}
		out.Linef("stat %sreloads %d", pre, d.reloads)
		out.Linef("stat %sfailures %d", pre, d.fails)
		out.Linef("stat %sops %d", pre, d.nops)
		out.Linef("stat %sos_signals_entered_channel %d", pre, d.sigEntered)
		out.Linef("stat %sos_signals_dropped_at_capacity %d", pre, d.sigDropped)
		out.Linef("stat %sos_signals_not_registered %d", pre, d.sigIgnored)
		out.Linef("stat %sdisable_graceful_shutdown %d", pre, vB(dg))
		out.Linef("stat %sdry_runs_before_run %d", pre, d.dryRuns)
		if d.bad {
			out.Linef("stat harness_timeouts 1")
			if d.sigStuck {
				out.Linef("viol sig=C20/signal/registered-signal-not-acted-on pending=%d: a signal the collector must be registered for (SIGHUP always, SIGINT/SIGTERM unless DisableGracefulShutdown) was delivered by the OS while Running and the run loop did not act on it", len(d.sigs))
			} else {
				out.Linef("viol sig=C20/harness/run-goroutine-did-not-reach-expected-point at=%s", d.at)
			}
		}
		if d.sigEntered > 0 && (d.sigDropped > 0 || d.sigIgnored > 0) {
			out.Linef("nt")
		}
		v20EmitRetries(out)
		out.Linef("end")
		out.Flush()
		return children, d.bad
	}
	if s := os.Getenv("VERIF_REPLAY_CASE"); s != "" {
		if id, err := strconv.Atoi(s); err == nil && id >= v20SigExhBase {
			dg, script := v20SigDecode(id)
			runOne(id, dg, script, true)
			return
		}
	}
	for _, c := range vCases(n) {
		if timeouts >= 3 {
			break
		}
		dg := vRand(c).IntN(2) == 0 // the case's own stream makes the same first draw: kept for the choice of dg only
		var script []string
		if c < len(corpus) {
			dg, script = corpus[c].dg, corpus[c].script
		}
		if _, bad := runOne(c, dg, script, false); bad {
			timeouts++
		}
	}
	if os.Getenv("VERIF_REPLAY_CASE") != "" {
		return
	}
	// exhaustive small scope: EVERY script over {go, fail, hup, term, int, shutdown} of length <= depth after the anchor
	// "Running, idle in the select", for DisableGracefulShutdown off and on, breadth first, only tokens applicable where the
	// parent script ended, completed with ok outcomes; case id = v20SigExhBase + dg*v20SigExhHalf + the script in base-7 digits
	depth := 3
	if vThorough() {
		depth = 5
	}
	anchor := []string{"go", "go", "go"}
	for _, dg := range []bool{false, true} {
		queue := [][]string{append([]string(nil), anchor...)}
		for len(queue) > 0 && timeouts < 3 {
			script := queue[0]
			queue = queue[1:]
			children, bad := runOne(v20SigEncode(dg, script), dg, script, true)
			if bad {
				timeouts++
			}
			if len(script)-len(anchor) < depth {
				for _, ch := range children {
					queue = append(queue, append(append([]string(nil), script...), ch))
				}
			}
		}
	}
}

const (
	v20SigExhBase = 1000000
	v20SigExhHalf = 400000000
)

var v20SigAlphabet = []string{"go", "fail", "hup", "term", "int", "shutdown"}

func v20SigEncode(dg bool, script []string) int {
	id := 0
	for _, tok := range script {
		for i, a := range v20SigAlphabet {
			if a == tok {
				id = id*7 + i + 1
			}
		}
	}
	if dg {
		id += v20SigExhHalf
	}
	return v20SigExhBase + id
}

func v20SigDecode(id int) (bool, []string) {
	id -= v20SigExhBase
	dg := id >= v20SigExhHalf
	if dg {
		id -= v20SigExhHalf
	}
	var rev []string
	for id > 0 {
		if d := id % 7; d >= 1 && d <= len(v20SigAlphabet) {
			rev = append(rev, v20SigAlphabet[d-1])
		}
		id /= 7
	}
	script := make([]string, 0, len(rev))
	for i := len(rev) - 1; i >= 0; i-- {
		script = append(script, rev[i])
	}
	return dg, script
}

// sigApplicable: tokens applicable at the current decision point (signals from the OS and Shutdown() always are)
func (d *v20Det) sigApplicable() []string {
	var toks []string
	if d.at != "select" && d.at != "done" {
		toks = append(toks, "go")
	}
	if d.at == "retrieve" || d.at == "start" || d.at == "sd" || d.at == "prov" {
		toks = append(toks, "fail")
	}
	return append(toks, "hup", "term", "int", "shutdown")
}
