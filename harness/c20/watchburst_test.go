//go:build verif

package otelcol

// C20 "a configuration-watch error stops the collector" with the REAL confmap.Resolver under native scheduling:
// goroutines of the test provider call the WatcherFunc the resolver handed to Retrieve (Resolver.onChange) in BURSTS of
// 1-3 notifications (plain change = nil error, or a watch error), each notification from its own goroutine, the bursts
// placed during start-up, while a reload is in progress and while the collector idles Running (every hook is a yield
// point). No notification may be lost: the verdict is passed on the SET of notifications sent —
//   * some notification carried an error  => Run returns within the watchdog, state Closed, provider shut down once;
//   * none did                            => every change is consumed (each by a reload), the collector is Running again,
//                                            and a final Shutdown() makes Run return, Closed, provider once.
// `viol sig=C20/runloop/watch-error-notification-lost` / `C20/runloop/watch-change-notification-lost`; the event log also
// goes through the Lean monitor and the driver's `prop watcherr`. Monitored only.

import (
	"testing"
	"time"
)

func TestVerifC20WatchBursts(t *testing.T) {
	out := vOpen(t)
	defer out.Close()
	out.Linef("model c20-race 1")
	n := vN(100)
	const watchdog = 4 * time.Second
	patterns := [][]bool{ // true = error notification
		{false}, {false, false}, {false, true}, {true}, {false, false, true}, {false, true, false}, {true, false}, {false, false, false},
	}
	for _, c := range vCases(n) {
		rnd := vRand(c)
		out.Linef("case %d kind=watchburst", c)
		w := v20New(t)
		jr := vRand(c + 1<<21)
		w.jrnd = func() int64 { return jr.Int64N(1 << 40) }
		w.jitter.Store(int64(20_000 + rnd.IntN(300_000)))
		nb := 1 + rnd.IntN(3)
		type burst struct {
			pat   []bool
			phase int           // 0 start-up (right after the first Retrieve), 1 Running, 2 during a reload
			gap   time.Duration // between the notifications of the burst
		}
		var bursts []burst
		desc := ""
		for i := 0; i < nb; i++ {
			b := burst{patterns[rnd.IntN(len(patterns))], rnd.IntN(3), time.Duration(rnd.IntN(200)) * time.Microsecond}
			if i > 0 && b.phase == 0 {
				b.phase = 1
			}
			bursts = append(bursts, b)
			desc += "p" + string(rune('0'+b.phase)) + ":"
			for _, e := range b.pat {
				desc += map[bool]string{false: "c", true: "E"}[e]
			}
			desc += ","
		}
		out.Linef("op scen watchburst j=%d %s noobs", w.jitter.Load(), desc)
		w.run()
		sentErr, sentOK := 0, 0
		haveWatcher := func() bool { w.mu.Lock(); defer w.mu.Unlock(); return w.watcher != nil }
		fail := ""
		for _, b := range bursts {
			if sentErr > 0 {
				break // the provider has reported a watch error: it does not go on notifying
			}
			switch b.phase {
			case 0:
				if !w.waitFor(haveWatcher, watchdog) {
					fail = "no-retrieve"
				}
			case 1:
				if !w.waitFor(func() bool { return w.col.GetState() == StateRunning }, watchdog) {
					fail = "never-running"
				}
				w.logf("up")
			case 2:
				if !w.waitFor(func() bool { return w.col.GetState() == StateRunning }, watchdog) {
					fail = "never-running"
					break
				}
				w.logf("up")
				w.notify(false) // trigger a reload, then burst while it is in progress
				sentOK++
				w.waitBriefly(func() bool { return w.col.GetState() != StateRunning }, 50*time.Millisecond)
			}
			if fail != "" {
				break
			}
			for _, e := range b.pat {
				w.notify(e)
				if e {
					sentErr++
				} else {
					sentOK++
				}
				time.Sleep(b.gap)
			}
			time.Sleep(time.Duration(rnd.IntN(3000)) * time.Microsecond)
		}
		if fail == "" && sentErr > 0 {
			// some notification carried an error: the collector must stop by itself
			if !v20WaitDone(w.runDone, watchdog) {
				w.logf("wedged")
				out.Linef("viol sig=C20/runloop/watch-error-notification-lost %d error and %d change notification(s) were sent by provider goroutines (%s); state=%s, Run has not returned within %s",
					sentErr, sentOK, desc, w.col.GetState(), watchdog)
				fail = "lost-error"
		}
		} else if fail == "" {
			// only changes: all of them must be consumed, then the collector idles Running; then Shutdown()
			if !w.waitFor(func() bool {
				return w.watchOut.Load() == 0 && len(w.col.configProvider.Watch()) == 0 && w.col.GetState() == StateRunning
			}, watchdog) {
				out.Linef("viol sig=C20/runloop/watch-change-notification-lost-or-stuck %d change notification(s) (%s): senders still blocked=%d buffered=%d state=%s",
					sentOK, desc, w.watchOut.Load(), len(w.col.configProvider.Watch()), w.col.GetState())
				fail = "stuck-change"
			}
			w.callShutdown(1)
			if !v20WaitDone(w.runDone, watchdog) {
				w.logf("wedged")
				out.Linef("viol sig=C20/harness/race-run-did-not-return state=%s", w.col.GetState())
				fail = "no-return"
		}
		}
		if fail == "" {
			w.mu.Lock()
			prov := w.provSd
			w.mu.Unlock()
			if st := w.col.GetState(); st != StateClosed || prov != 1 {
				out.Linef("viol sig=C20/runloop/bad-end-state-after-watch-bursts state=%s providerShutdowns=%d run=%s (%s)", st, prov, w.runRes, desc)
			}
		} else if fail == "no-retrieve" || fail == "never-running" {
			out.Linef("viol sig=C20/harness/%s", fail)
		}
		w.cleanup()
		w.mu.Lock()
		events := append([]string(nil), w.events...)
		w.mu.Unlock()
		reloads := 0
		for _, e := range events {
			out.Linef("tr %s", e)
			if len(e) > 5 && e[:5] == "fact " {
				reloads++
			}
		}
		out.Linef("stat burst_notifications_ok %d", sentOK)
		out.Linef("stat burst_notifications_err %d", sentErr)
		out.Linef("stat burst_reloads %d", reloads-1)
		out.Linef("stat burst_senders_panicked_at_provider_shutdown %d", w.watchPanic.Load())
		out.Linef("nt")
		v20EmitRetries(out)
		out.Linef("end")
		out.Flush()
	}
}
