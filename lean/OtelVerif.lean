import OtelVerif.Common.Line
import OtelVerif.Props.C11
