import Lean
/-!
# Axiom audit

`#audit_module OtelVerif.Props.C11` prints, for every theorem declared in that module, one line
`AUDIT <name> axioms=[a,b,…]`, and for every definition/theorem whose value mentions `sorryAx`
it prints the axiom like any other (so `sorry` shows as `sorryAx`).  The python side accepts only
`propext`, `Classical.choice`, `Quot.sound`.
-/
open Lean Elab Command

namespace OtelVerif.Audit

elab "#audit_module " id:ident : command => do
  let env ← getEnv
  let modName := id.getId
  let some modIdx := env.getModuleIdx? modName
    | throwError "module {modName} is not imported"
  let mut names : Array Name := #[]
  for (n, ci) in env.constants.map₁.toList do
    if env.getModuleIdxFor? n == some modIdx then
      match ci with
      | .thmInfo _ =>
        if !n.isInternal then names := names.push n
      | _ => pure ()
  let sorted := names.qsort (fun a b => a.toString < b.toString)
  for n in sorted do
    let axs ← liftCoreM <| Lean.collectAxioms n
    let axs := axs.qsort (fun a b => a.toString < b.toString)
    logInfo m!"AUDIT {n} axioms=[{",".intercalate (axs.toList.map Name.toString)}]"
  logInfo m!"AUDIT-COUNT {modName} {sorted.size}"

end OtelVerif.Audit
