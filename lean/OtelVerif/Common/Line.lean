/-!
# Line protocol shared by every driver (DESIGN §2.9)

One record per line, space-separated tokens.  `case n …` resets the model, `op …` is an input to both
sides, `obs …` is what the implementation showed (the driver ignores it for the differential and
passes it to the property oracle), `tr …` is an implementation trace line that is only monitored
(never diffed), `end` closes a case.  `onObs` receives the tag (`obs`/`tr`) as first token.  The driver prints `case n`, its own `obs …`
lines, `prop <name>=ok|FAIL <detail>` lines and `end`.
-/
namespace OtelVerif.Line

def tokens (line : String) : List String :=
  (line.splitOn " ").filter (fun t => t ≠ "")

def stripNl (s : String) : String :=
  let s := if s.endsWith "\n" then (s.dropEnd 1).toString else s
  if s.endsWith "\r" then (s.dropEnd 1).toString else s

def hexVal (c : Char) : Option Nat :=
  if '0' ≤ c ∧ c ≤ '9' then some (c.toNat - '0'.toNat)
  else if 'a' ≤ c ∧ c ≤ 'f' then some (c.toNat - 'a'.toNat + 10)
  else if 'A' ≤ c ∧ c ≤ 'F' then some (c.toNat - 'A'.toNat + 10)
  else none

/-- bytes of a hex string (`-` is the empty string) -/
def unhexBytes (s : String) : Option (List Nat) :=
  if s = "-" then some [] else
  let rec go : List Char → List Nat → Option (List Nat)
    | [], acc => some acc.reverse
    | [_], _ => none
    | a :: b :: rest, acc =>
      match hexVal a, hexVal b with
      | some x, some y => go rest ((x * 16 + y) :: acc)
      | _, _ => none
  go s.toList []

/-- hex-encoded ASCII/Latin-1 text → String (one char per byte; harnesses only send bytes < 128 here) -/
def unhex (s : String) : Option String :=
  (unhexBytes s).map (fun bs => String.ofList (bs.map Char.ofNat))

def hexDigit (n : Nat) : Char :=
  if n < 10 then Char.ofNat (n + '0'.toNat) else Char.ofNat (n - 10 + 'a'.toNat)

def hexBytes (bs : List Nat) : String :=
  if bs.isEmpty then "-" else
  String.ofList (bs.flatMap (fun b => [hexDigit (b / 16 % 16), hexDigit (b % 16)]))

def hex (s : String) : String := hexBytes (s.toList.map Char.toNat)

/-- `k=v` lookup among tokens -/
def kv (toks : List String) (k : String) : Option String :=
  toks.findSome? (fun t =>
    match t.splitOn "=" with
    | k' :: rest => if k' = k ∧ !rest.isEmpty then some ("=".intercalate rest) else none
    | _ => none)

def kvNat (toks : List String) (k : String) : Option Nat := (kv toks k).bind String.toNat?
def kvInt (toks : List String) (k : String) : Option Int := (kv toks k).bind String.toInt?

structure Handler (σ : Type) where
  init  : σ
  /-- a `case …` line: may read parameters of the case -/
  onCase : σ → List String → σ := fun s _ => s
  onOp  : σ → List String → σ × List String
  onObs : σ → List String → σ := fun s _ => s
  onEnd : σ → List String := fun _ => []

partial def loop {σ : Type} (h : Handler σ) (inp : IO.FS.Stream) (out : IO.FS.Stream) (s : σ) : IO Unit := do
  let line ← inp.getLine
  if line.isEmpty then
    out.flush
    return ()
  let toks := tokens (stripNl line)
  match toks with
  | "case" :: rest =>
    out.putStrLn (" ".intercalate ("case" :: rest.take 1))
    loop h inp out (h.onCase h.init rest)
  | "op" :: rest =>
    let (s', outs) := h.onOp s rest
    for o in outs do out.putStrLn o
    loop h inp out s'
  | "obs" :: rest => loop h inp out (h.onObs s ("obs" :: rest))
  | "tr" :: rest => loop h inp out (h.onObs s ("tr" :: rest))
  | ["end"] =>
    for o in h.onEnd s do out.putStrLn o
    out.putStrLn "end"
    loop h inp out h.init
  | _ => loop h inp out s

def run {σ : Type} (h : Handler σ) : IO Unit := do
  let inp ← IO.getStdin
  let out ← IO.getStdout
  loop h inp out h.init

/-- first line `model <name> …` selects the handler -/
def runMulti (hs : List (String × IO Unit)) : IO UInt32 := do
  let inp ← IO.getStdin
  let line ← inp.getLine
  match tokens (stripNl line) with
  | "model" :: name :: _ =>
    match hs.lookup name with
    | some act => act; return 0
    | none => IO.eprintln s!"unknown model {name}"; return 2
  | _ => IO.eprintln "first line must be: model <name>"; return 2

end OtelVerif.Line
