import OtelVerif.Common.Line
import OtelVerif.Model.C01
import OtelVerif.Model.C01Err
import OtelVerif.Model.C01Classify
import OtelVerif.Model.C01Bytes
import OtelVerif.Model.C01Trace
import OtelVerif.Model.C01Codec
import OtelVerif.Model.C01Glue
import OtelVerif.Model.C01Config
/-! driver for C01: models `c01-pq` (queue machine with deaths) and `c01-codec` (index byte codecs) -/
open OtelVerif OtelVerif.Line OtelVerif.C01

namespace OtelVerif.Drivers.C01

def optS : Option Nat → String
  | some n => toString n
  | Option.none => "-"

def listS (l : List String) (sep : String) : String := if l.isEmpty then "-" else sep.intercalate l

def showStore (s : Store) (hi : Nat := 0) : String :=
  let items := (List.range (max hi (s.W + 2))).filterMap (fun i =>
    match s.items i with
    | some r => some s!"{i}:{r.id}/{r.size}"
    | Option.none => Option.none)
  s!"ri={optS s.ri} wi={optS s.wi} si={optS s.si} di={listS (s.di.map toString) ","} items={listS items ";"}"

def showSize (c : Cfg) : String :=
  match c.ph with
  | .live m _ => toString m.size
  | .dead => "-"

def showRes : Res → String
  | .none => "none"
  | .offerOk => "ok"
  | .offerFull => "full"
  | .offerBlocked => "blocked"
  | .offerTooLarge => "toolarge"
  | .offerCancelled => "cancelled"
  | .readItem i r => s!"item:{i}:{r.id}/{r.size}"
  | .readStopped => "stopped"
  | .readEmpty => "empty"
  | .doneOk => "ok"
  | .doneUnknown => "unknown"
  | .shutOk => "ok"
  | .err => "err"

/-- which give-up point of the error machine a firing is at (for the finding's signature) -/
def dropTag (c : Cfg) (l : Label) : String :=
  match l, c.ph with
  | .start, _ => "start-index-read-error"
  | _, .live _ (.moving _) => "recovery-move-error-orphans-request"
  | _, .live _ .init1 => "recovery-read-error-orphans-dispatched"
  | _, .live _ .init2 => "recovery-read-error-orphans-dispatched"
  | _, .live _ (.init3 _) => "recovery-read-error-orphans-dispatched"
  | _, _ => "dequeue-batch-error-drops-request"

/-- fire `l`, then continue the pending operation with `tick`s.  The storage calls of the operation whose 1-based
    numbers are in `errs` return an error (`LabelE.fail` right before the firing that makes that call); the incarnation
    dies right after its `die`-th storage call (die = 0: no death planned).  Returns the configuration, whether the
    death happened, and the requests given up together with the tag of the give-up point. -/
def runOp (ce : CfgE) (l : Label) (die : Nat) (errs : List Nat) : CfgE × Bool × List (Nat × String) :=
  let c0 := ce.base.calls
  let step (ce : CfgE) (l : Label) (tags : List (Nat × String)) : CfgE × List (Nat × String) :=
    let ce1 := fireE ce (.fail (errs.contains (ce.base.calls - c0 + 1)))
    let ce2 := fireE ce1 (.op l)
    let newDropped := ce2.dropped.take (ce2.dropped.length - ce.dropped.length)
    (ce2, newDropped.map (fun r => (r.id, dropTag ce.base l)) ++ tags)
  let rec go (fuel : Nat) (ce : CfgE) (tags : List (Nat × String)) : CfgE × Bool × List (Nat × String) :=
    match fuel with
    | 0 => (ce, false, tags)
    | fuel + 1 =>
      if die > 0 ∧ ce.base.calls - c0 ≥ die then (fireE (fireE ce (.fail false)) (.op .crash), true, tags)
      else if ce.base.idle || !ce.base.alive then (fireE ce (.fail false), false, tags)
      else
        let (ce', tags') := step ce .tick tags
        go fuel ce' tags'
  let (ce1, tags1) := step ce l []
  go 100000 ce1 tags1

structure DS where
  ce : CfgE := initE {}
  lastOp : List String := []
  ts : TState := {}
  implOut : List (Nat × Nat) := []     -- implementation's outstanding hand-offs: index ↦ id
  lostAt : Option String := Option.none      -- op at which the first loss was seen on the implementation
  unreach : Option String := Option.none     -- stored but not reachable from ri/wi/di
  bad : Option String := Option.none
  corrupted : Bool := false                  -- the harness deleted a stored item behind the queue's back (extension)
  dropTags : List (Nat × String) := []       -- requests the MODEL says the code gives up on a storage error (id ↦ where)
  errLoss : Option String := Option.none     -- first such request actually lost on the implementation
  hi : Nat := 0                              -- keys below `hi` are dumped (largest write index seen + 2)
  errInjected : Bool := false                -- some storage call of this case was made to return an error (extension)
  bytesBad : Option String := Option.none    -- raw storage bytes decoded by Model/C01Bytes differ from the model's store
  classBad : Option String := Option.none    -- an error tree whose classification by the Lean model differs from the script

def DS.c (s : DS) : Cfg := s.ce.base

def obsLine (res : String) (c : Cfg) (hi : Nat := 0) : String :=
  s!"obs r={res} size={showSize c} {showStore c.st hi}"

/-- `3:7/2;4:9/1` → [(3,7),(4,9)] -/
def parseItems (v : String) : Option (List (Nat × Nat)) :=
  if v = "-" then some [] else
  (v.splitOn ";").mapM (fun e =>
    match e.splitOn ":" with
    | [k, body] =>
      match k.toNat?, (body.splitOn "/").head?.bind String.toNat? with
      | some k, some id => some (k, id)
      | _, _ => Option.none
    | _ => Option.none)

def parseList (v : String) : Option (List Nat) :=
  if v = "-" then some [] else (v.splitOn ",").mapM String.toNat?

def optNat (v : String) : Option (Option Nat) :=
  if v = "-" then some Option.none else v.toNat?.map some

def pqOnOp (s : DS) (toks : List String) : DS × List String :=
  let s := { s with lastOp := toks }
  let die := (kvNat toks "die").getD 0
  let alive := s.c.alive
  let errs := ((kv toks "errs").bind parseList).getD []
  let finish (l : Label) (okRes : Cfg → String) : DS × List String :=
    let (ce', died, tags) := runOp s.ce l die errs
    let hi := max s.hi (ce'.base.st.W + 2)
    ({ s with ce := ce', dropTags := tags ++ s.dropTags, hi := hi, errInjected := s.errInjected || !errs.isEmpty }, [obsLine (if died then "died" else okRes ce'.base) ce'.base hi])
  match toks.head? with
  | some "start" => if alive then (s, ["obs bad-op"]) else finish .start (fun _ => "ok")
  | some "exit" => ({ s with ce := fireE s.ce (.op .crash) }, [obsLine "ok" (fire s.c .crash) s.hi])
  | some "offer" =>
    match kvNat toks "id", kvNat toks "sz" with
    | some id, some sz => if !alive then (s, ["obs bad-op"]) else finish (.offer ⟨id, sz⟩) (fun c => showRes c.res)
    | _, _ => (s, ["obs bad-op"])
  | some "read" => if !alive then (s, ["obs bad-op"]) else finish .read (fun c => showRes c.res)
  | some "done" =>
    match kvNat toks "i", kv toks "oc" with
    | some i, some oc =>
      let oc? : Option Outcome := if oc = "final" ∨ oc = "perm" then some .final else if oc = "shut" then some .shutdownErr else Option.none
      match oc? with
      | some o => if !alive then (s, ["obs bad-op"]) else finish (.done i o) (fun c => showRes c.res)
      | Option.none => (s, ["obs bad-op"])
    | _, _ => (s, ["obs bad-op"])
  | some "shutdown" => if !alive then (s, ["obs bad-op"]) else finish .shutdown (fun c => showRes c.res)
  | some "wake" =>
    -- the j-th blocked producer is the one the scheduler lets re-lock the queue first (`promote j`), then it re-checks (`wake`)
    if !alive then (s, ["obs bad-op"]) else
    let ce0 := fireE (fireE s.ce (.fail false)) (.op (.promote ((kvNat toks "j").getD 0)))
    let (ce', died, tags) := runOp ce0 .wake die errs
    let hi := max s.hi (ce'.base.st.W + 2)
    ({ s with ce := ce', dropTags := tags ++ s.dropTags, hi := hi, errInjected := s.errInjected || !errs.isEmpty },
     [obsLine (if died then "died" else showRes ce'.base.res) ce'.base hi])
  | some "cancel" =>
    match kvNat toks "j" with
    | some j => if !alive then (s, ["obs bad-op"]) else finish (.cancel j) (fun c => showRes c.res)
    | Option.none => (s, ["obs bad-op"])
  | some "corrupt" =>
    match kvNat toks "key" with
    | some key =>
      let c' := { s.c with st := { s.c.st with items := upd s.c.st.items key Option.none } }
      ({ s with ce := { s.ce with base := c' }, corrupted := true }, [obsLine "ok" c' s.hi])
    | Option.none => (s, ["obs bad-op"])
  | _ => (s, ["obs bad-op"])

/-- the harness encoding of a request body: 8 bytes little endian of `id*16 + size` -/
def harnessDec (b : Bytes) : Option Req :=
  if b.length = 8 then some ⟨Codec.leVal b / 16, Codec.leVal b % 16⟩ else Option.none

/-- `tr raw <hex key>=<hex value> …`: the raw storage map of the implementation -/
def parseRaw (toks : List String) : Option (List (String × Bytes)) :=
  toks.mapM (fun t =>
    match t.splitOn "=" with
    | [k, v] => match unhex k, unhexBytes v with
      | some k, some v => some (k, v)
      | _, _ => Option.none
    | _ => Option.none)

/-- decode the implementation's bytes the way start-up / dequeue do (`readIndexes`, `readDi`, `readItemWith` of
    `Model/C01Bytes.lean`, the subjects of `C01_bytes_refine`) and compare with the model's abstract store -/
def checkRaw (s : DS) (kvs : List (String × Bytes)) : Option String :=
  let b := ByteStore.ofList kvs
  let st := s.c.st
  if readIndexes b != (st.R, st.W) then some s!"indexes decoded={(readIndexes b)} model=({st.R},{st.W})"
  else if readDi b != st.di then some s!"di decoded={readDi b} model={st.di}"
  else match (List.range (max s.hi (st.W + 2))).find? (fun i => readItemWith harnessDec b i != st.items i) with
    | some i => some s!"item {i} differs"
    | Option.none =>
      -- no key outside the four names and the decimal item keys
      match kvs.find? (fun p => !(p.1 == "ri" || p.1 == "wi" || p.1 == "si" || p.1 == "di") &&
                               !(p.1.toNat?.map (fun i => itemKey i == p.1)).getD false) with
      | some p => some s!"unexpected key {p.1}"
      | Option.none => Option.none

/-- the search oracle: consumes the IMPLEMENTATION's observation of the last op -/
def pqOnObs (s : DS) (toks : List String) : DS :=
  match toks with
  | "tr" :: "raw" :: rest =>
    match s.bytesBad, parseRaw rest with
    | some _, _ => s
    | Option.none, some kvs => { s with bytesBad := checkRaw s kvs }
    | Option.none, Option.none => { s with bytesBad := some "unparsable raw dump" }
  | ["tr", "errtree", shape] =>
    -- the error tree the harness hands to OnDone for the `done` op just read: `outcomeOf` must agree with its `oc`
    let want : Option Outcome := match kv s.lastOp "oc" with
      | some "shut" => some .shutdownErr
      | some _ => some .final
      | Option.none => Option.none
    match parseShape shape, want with
    | some t, some w => if outcomeOf t = w then s else { s with classBad := some shape }
    | _, _ => { s with classBad := some ("unparsable:" ++ shape) }
  | "tr" :: "errparts" :: shapes =>
    -- the `done` op just read went through the real refCountDone with one error per flush: the outcome label is the
    -- classification of the model's `aggregate` (C01_refcount_aggregate_shutdown_iff: shutdown iff some part is)
    let want : Option Outcome := match kv s.lastOp "oc" with
      | some "shut" => some .shutdownErr
      | some _ => some .final
      | Option.none => Option.none
    match shapes.mapM parseShape, want with
    | some ps, some w => if outcomeOf (aggregate ps) = w then s else { s with classBad := some ("parts:" ++ "|".intercalate shapes) }
    | _, _ => { s with classBad := some ("unparsable-parts:" ++ "|".intercalate shapes) }
  | "obs" :: rest =>
    let opk := s.lastOp.head?.getD "?"
    let r := (kv rest "r").getD "?"
    let died := r = "died"
    -- events of this op, in order: final (at the call), accept / hand (at the return), then the dump
    let evs1 : List Ev :=
      if opk = "done" then
        match kvNat s.lastOp "i", kv s.lastOp "oc" with
        | some i, some oc => if oc = "final" ∨ oc = "perm" then (match s.implOut.lookup i with | some id => [Ev.final id] | Option.none => []) else []
        | _, _ => []
      else []
    let implOut1 := if opk = "done" then (match kvNat s.lastOp "i" with | some i => s.implOut.filter (fun p => p.1 != i) | Option.none => s.implOut) else s.implOut
    let evs2 : List Ev := if (opk = "offer" ∨ opk = "wake") ∧ r = "ok" then (match kvNat s.lastOp "id" with | some id => [Ev.accept id] | Option.none => []) else []
    let hand : Option (Nat × Nat) :=
      if opk = "read" ∧ r.startsWith "item:" then
        match r.splitOn ":" with
        | [_, i, body] => match i.toNat?, (body.splitOn "/").head?.bind String.toNat? with
          | some i, some id => some (i, id)
          | _, _ => Option.none
        | _ => Option.none
      else Option.none
    let evs3 : List Ev := match hand with | some (_, id) => [Ev.hand id] | Option.none => []
    let implOut2 := match hand with | some p => p :: implOut1 | Option.none => implOut1
    let implOut3 := if died ∨ opk = "exit" then [] else implOut2
    -- the dump: ids stored and reachable
    match (kv rest "ri").bind optNat, (kv rest "wi").bind optNat, (kv rest "di").bind parseList, (kv rest "items").bind parseItems with
    | some ri, some wi, some di, some items =>
      let st : Store := { ri := ri, wi := wi }
      let reach := items.filter (fun p => di.contains p.1 || (st.R ≤ p.1 && p.1 < st.W))
      let ts0 := (evs1 ++ evs2 ++ evs3).foldl TState.step s.ts
      -- requests the model says the code gives up after a storage error are excused here (partial statement) …
      let excused := s.dropTags.map (·.1)
      let ts1 := ts0.step (.dump (reach.map (·.2) ++ excused))
      -- … and reported separately when the implementation really lost one (full statement under errors)
      let errLoss := match s.errLoss with
        | some e => some e
        | Option.none =>
          match ts0.accepted.find? (fun id => !(ts0.finalised.contains id) && !((reach.map (·.2)).contains id) && excused.contains id) with
          | some id => some s!"{(s.dropTags.lookup id).getD "?"} id={id}"
          | Option.none => Option.none
      let tag := opk ++ (if died then "-died" else "") ++ (if opk = "done" then "-" ++ (kv s.lastOp "oc").getD "?" else "")
      let lostAt := match s.lostAt, ts0.lost, ts1.lost with
        | Option.none, Option.none, some (id, _) =>
          some (if items.any (fun p => p.2 == id) then s!"unreachable/{tag} id={id}" else s!"lost/{tag} id={id}")
        | l, _, _ => l
      { s with ts := ts1, implOut := implOut3, lostAt := lostAt, errLoss := errLoss }
    | _, _, _, _ => { s with bad := some ("unparsable obs: " ++ " ".intercalate rest) }
  | _ => s

def pqOnEnd (s : DS) : List String :=
  if s.corrupted then [] else   -- the property is not claimed when storage contents vanish; differential only
  -- storage calls that return an error are outside the property's quantifier (it speaks of process deaths): such
  -- cases are an extension tied by the exact differential only; the property oracles judge error-free scripts
  (match s.bytesBad with
   | some d => [s!"prop bytes=FAIL sig=C01/bytes/decoded-store-differs-from-model {d}"]
   | Option.none => []) ++
  (match s.classBad with
   | some sh => [s!"prop classify=FAIL sig=C01/classify/model-tree-classification-disagrees shape={sh}"]
   | Option.none => []) ++
  if s.errInjected || s.ce.poisoned then [] else
  let stored := match s.bad, s.lostAt with
    | some b, _ => s!"prop stored=FAIL sig=C01/harness/unparsable {b}"
    | Option.none, some l => s!"prop stored=FAIL sig=C01/{l} accepted request neither finalised nor recoverable from storage"
    | Option.none, Option.none => "prop stored=ok"
  let handed := match s.ts.accepted.find? (fun id => !(s.ts.handed.contains id) && !((s.dropTags.map (·.1)).contains id)) with
    | some id => s!"prop handed=FAIL sig=C01/never-handed id={id} accepted request was never handed over although the case ends with restart+drain"
    | Option.none => "prop handed=ok"
  [stored, handed]

def pqHandler : Handler DS where
  init := {}
  onCase := fun s toks =>
    let cap := (kvNat toks "cap").getD 0
    let rs := (kv toks "sizer").getD "req" == "req"
    let blk := (kvNat toks "block").getD 0 == 1
    { s with ce := initE { cap := cap, reqSized := rs, block := blk } }
  onOp := pqOnOp
  onObs := pqOnObs
  onEnd := pqOnEnd

/-! ### exporter-level monitor: the proven-sound trace checker on the events of real exporters -/

def expHandler : Handler TState where
  init := {}
  onOp := fun s _ => (s, [])
  onObs := fun s toks =>
    match toks with
    | ["tr", "ev", "accept", id] => match id.toNat? with | some id => s.step (.accept id) | Option.none => s
    | ["tr", "ev", "hand", id] => match id.toNat? with | some id => s.step (.hand id) | Option.none => s
    | ["tr", "ev", "final", id] => match id.toNat? with | some id => s.step (.final id) | Option.none => s
    | ["tr", "ev", "dump"] => s.step (.dump [])
    | ["tr", "ev", "dump", ids] => match parseList ids with | some l => s.step (.dump l) | Option.none => s
    | _ => s
  onEnd := fun s =>
    [match s.lost with
     | some (id, _) => s!"prop stored=FAIL sig=C01/exporter/trace/accepted-not-stored-at-death id={id}"
     | Option.none => "prop stored=ok",
     match s.accepted.find? (fun id => !(s.handed.contains id)) with
     | some id => s!"prop handed=FAIL sig=C01/exporter/trace/accepted-never-handed id={id}"
     | Option.none => "prop handed=ok"]


/-! ### glue machine (`Model/C01Glue.lean`): exact differential against QueueSender → asyncQueue → persistentQueue over the
real retry sender, under synctest (harness `glue`) -/

/-- a run of glue labels with a planned death: the incarnation dies right after its `die`-th storage call (counted from
    `c0`); every firing makes at most one storage call, so the check after each firing is exact -/
structure GRun where
  g : GCfg
  c0 : Nat := 0
  die : Nat := 0
  died : Bool := false

def GRun.step (rs : GRun) (l : GLabel) : GRun :=
  if rs.died then rs else
  let g' := fireG rs.g l
  if rs.die > 0 ∧ g'.q.calls - rs.c0 ≥ rs.die then { rs with g := fireG g' (.env .crash), died := true }
  else { rs with g := g' }

/-- continue the pending queue operation one storage call at a time -/
def GRun.settleQ (rs : GRun) : GRun :=
  let rec go (fuel : Nat) (rs : GRun) : GRun :=
    match fuel with
    | 0 => rs
    | fuel + 1 => if rs.died || !rs.g.q.alive || rs.g.q.idle then rs else go fuel (rs.step (.env .tick))
  go 100000 rs

/-- quiescence: every goroutine at the head of its loop calls `Read` (lowest index first; which goroutine gets which item
    is not observable) and enters the export function with what it got -/
def GRun.eager (rs : GRun) : GRun :=
  let n := rs.g.gk.n
  let rec go (fuel j : Nat) (rs : GRun) : GRun :=
    match fuel with
    | 0 => rs
    | fuel + 1 =>
      if j ≥ n || rs.died then rs else
      match rs.g.cons[j]? with
      | some .idle =>
        let rs1 := (rs.step (.cRead j)).settleQ
        match rs1.g.cons[j]? with
        | some (.got _ _) => go fuel (j + 1) (rs1.step (.cInvoke j))
        | some .exited => go fuel (j + 1) rs1
        | _ => rs1
      | _ => go fuel (j + 1) rs
  go (n + 1) 0 rs

def sortNat (l : List Nat) : List Nat := (l.toArray.qsort (· < ·)).toList

def showStoreG (s : Store) (hi : Nat) : String :=
  let items := (List.range (max hi (s.W + 2))).filterMap (fun i =>
    match s.items i with
    | some r => some s!"{i}:{r.id}"
    | Option.none => Option.none)
  s!"ri={optS s.ri} wi={optS s.wi} si={optS s.si} di={listS (s.di.map toString) ","} items={listS items ";"}"

def showG (res : String) (g : GCfg) (hi : Nat) : String :=
  let infl := sortNat (g.cons.filterMap (fun (p : CPc) => match p with | CPc.sending _ r => some r.id | _ => Option.none))
  let wait := sortNat (g.cons.filterMap (fun (p : CPc) => match p with | CPc.backoff _ r _ => some r.id | _ => Option.none))
  s!"obs r={res} inflight={listS (infl.map toString) ","} waiting={listS (wait.map toString) ","} {showStoreG g.q.st hi}"

structure GS where
  g : GCfg := initG {} {}
  ts : TState := {}
  hi : Nat := 0

def backoffIdx (g : GCfg) : List Nat :=
  (List.range g.cons.length).filter (fun (j : Nat) => match (g.cons[j]? : Option CPc) with | some (CPc.backoff _ _ _) => true | _ => false)

def glueOnOp (s : GS) (toks : List String) : GS × List String :=
  let die := (kvNat toks "die").getD 0
  let rs0 : GRun := { g := s.g, c0 := s.g.q.calls, die := die }
  let fin (rs : GRun) (res : String) : GS × List String :=
    let hi := max s.hi (rs.g.q.st.W + 2)
    ({ s with g := rs.g, hi := hi }, [showG (if rs.died then "died" else res) rs.g hi])
  match toks.head? with
  | some "start" =>
    if s.g.q.alive then (s, ["obs bad-op"]) else fin ((rs0.step (.env .start)).settleQ.eager) "ok"
  | some "offer" =>
    match kvNat toks "id" with
    | some id =>
      if !s.g.q.alive then (s, ["obs bad-op"]) else
      let rs1 := rs0.step (.env (.offer ⟨id, 1⟩))
      fin rs1.settleQ.eager (showRes rs1.g.q.res)
    | Option.none => (s, ["obs bad-op"])
  | some "ret" =>
    match kvNat toks "id", kv toks "res" with
    | some id, some res =>
      let j? := (List.range s.g.cons.length).find? (fun (j : Nat) => match (s.g.cons[j]? : Option CPc) with | some (CPc.sending _ r) => r.id == id | _ => false)
      let res? : Option ExpRes := if res = "ok" then some .ok else if res = "perm" then some (.err .plain true)
        else if res = "retry" then some (.err .plain false) else Option.none
      match j?, res? with
      | some j, some er =>
        let rs1 := rs0.step (.expRet j er)
        -- a retryable failure while `stopCh` is already closed: `retrySender.Send` checks `stopCh` before it waits
        let rs1 := match (rs1.g.cons[j]? : Option CPc) with
          | some (CPc.backoff _ _ _) => if rs1.g.stopCh then rs1.step (.backoffEnd j .stop) else rs1
          | _ => rs1
        let rs2 := match (rs1.g.cons[j]? : Option CPc) with
          | some (CPc.ret _ _ _) => (rs1.step (.cDone j)).settleQ
          | _ => rs1
        fin rs2.eager "ok"
      | _, _ => (s, ["obs bad-op"])
    | _, _ => (s, ["obs bad-op"])
  | some "timer" =>
    fin ((backoffIdx s.g).foldl (fun rs j => rs.step (.backoffEnd j .timer)) rs0) "ok"
  | some "rsshutdown" =>
    let rs1 := rs0.step .rsShutdown
    let rs2 := (backoffIdx rs1.g).foldl (fun rs j => ((rs.step (.backoffEnd j .stop)).step (.cDone j)).settleQ) rs1
    fin rs2.eager "ok"
  | some "qshutdown" => fin ((rs0.step (.env .shutdown)).settleQ.eager) "ok"
  | some "crash" => fin (rs0.step (.env .crash)) "ok"
  | _ => (s, ["obs bad-op"])

def glueHandler : Handler GS where
  init := {}
  onCase := fun s toks =>
    let cap := (kvNat toks "cap").getD 0
    let n := (kvNat toks "consumers").getD 1
    let retry := (kvNat toks "retry").getD 1 == 1
    { s with g := initG { n := n, retry := retry } { cap := cap, reqSized := true } }
  onOp := glueOnOp
  onObs := fun s toks =>
    match toks with
    | ["tr", "ev", "accept", id] => match id.toNat? with | some id => { s with ts := s.ts.step (.accept id) } | Option.none => s
    | ["tr", "ev", "hand", id] => match id.toNat? with | some id => { s with ts := s.ts.step (.hand id) } | Option.none => s
    | ["tr", "ev", "final", id] => match id.toNat? with | some id => { s with ts := s.ts.step (.final id) } | Option.none => s
    | ["tr", "ev", "dump"] => { s with ts := s.ts.step (.dump []) }
    | ["tr", "ev", "dump", ids] => match parseList ids with | some l => { s with ts := s.ts.step (.dump l) } | Option.none => s
    | _ => s
  onEnd := fun s =>
    [match s.ts.lost with
     | some (id, pos) => s!"prop stored=FAIL sig=C01/glue/accepted-not-stored-before-an-export-returned-finally id={id} event={pos}"
     | Option.none => "prop stored=ok",
     match s.ts.accepted.find? (fun id => !(s.ts.handed.contains id)) with
     | some id => s!"prop handed=FAIL sig=C01/glue/accepted-never-passed-to-the-export-function id={id}"
     | Option.none => "prop handed=ok"]


/-! ### configuration model (`Model/C01Config.lean`): options → queue configuration → queue object -/

section Config
open OtelVerif.C01.Cfg

def parseSizer (v : String) : Option SizerT :=
  if v = "requests" then some .requests else if v = "items" then some .items else if v = "bytes" then some .bytes
  else if v = "other" then some .other else Option.none

def showSizer : SizerT → String
  | .requests => "requests" | .items => "items" | .bytes => "bytes" | .other => "other"

def parseBatch (v : String) : Option (Option BatchCfg) :=
  if v = "-" then some Option.none else
  match v.splitOn ":" with
  | [a, b, c] => match a.toInt?, b.toInt?, c.toInt? with
    | some a, some b, some c => some (some ⟨a, b, c⟩)
    | _, _, _ => Option.none
  | _ => Option.none

def showBatch : Option BatchCfg → String
  | Option.none => "-"
  | some b => s!"{b.flush}:{b.min}:{b.max}"

def b01 (b : Bool) : String := if b then "1" else "0"

def parseQ (toks : List String) : Option QCfg :=
  match kvNat toks "en", kvNat toks "wfr", (kv toks "sz").bind parseSizer, kvInt toks "qs", kvNat toks "blk", kv toks "st",
        kvInt toks "nc", (kv toks "bt").bind parseBatch with
  | some en, some wfr, some sz, some qs, some blk, some st, some nc, some bt =>
    let st? : Option (Option Nat) := if st = "-" then some Option.none else st.toNat?.map some
    st?.map (fun st => { enabled := en == 1, waitForResult := wfr == 1, sizer := sz, queueSize := qs, blockOnOverflow := blk == 1,
                         storage := st, numConsumers := nc, batch := bt })
  | _, _, _, _, _, _, _, _ => Option.none

def showQ (c : QCfg) : String :=
  s!"en={b01 c.enabled} wfr={b01 c.waitForResult} sz={showSizer c.sizer} qs={c.queueSize} blk={b01 c.blockOnOverflow} st={optS c.storage} nc={c.numConsumers} bt={showBatch c.batch}"

def showLB (b : LegacyB) : String := s!"ben={b01 b.enabled} bfl={b.flush} bmin={b.min} bmax={b.max}"

def showVRes : VRes → String
  | .ok => "ok" | .numConsumers => "numConsumers" | .queueSize => "queueSize" | .waitForResult => "waitForResult"
  | .persistentSizer => "persistentSizer" | .batchSizer => "batchSizer"

def showRt : Option Runtime → String
  | Option.none => "obs rt err"
  | some r =>
    let kind := match r.kind with | .memory => "memory" | .persistent s => s!"persistent:{s}"
    let batcher := match r.batcher with
      | Option.none => "-"
      | some (b, sz) => s!"{b.flush}:{b.min}:{b.max}:{showSizer sz}"
    s!"obs rt kind={kind} cap={r.capacity} blk={b01 r.blockOnOverflow} sz={showSizer r.sizer} nc={r.numConsumers} batcher={batcher}"

structure CS where
  opts : List Opt := []          -- newest first
  lastQ : Option QCfg := Option.none
  bad : Option String := Option.none

def cfgOnOp (s : CS) (toks : List String) : CS × List String :=
  match toks with
  | "opt" :: rest =>
    match kv rest "kind" with
    | some "queue" => match parseQ rest with
      | some q => ({ s with opts := .queue q :: s.opts }, [])
      | Option.none => (s, ["obs bad-op"])
    | some "batcher" =>
      match kvNat rest "ben", kvInt rest "bfl", kvInt rest "bmin", kvInt rest "bmax" with
      | some en, some fl, some mn, some mx => ({ s with opts := .batcher ⟨en == 1, fl, mn, mx⟩ :: s.opts }, [])
      | _, _, _, _ => (s, ["obs bad-op"])
    | some "retry" => match kvNat rest "en" with
      | some en => ({ s with opts := .retry (en == 1) :: s.opts }, [])
      | Option.none => (s, ["obs bad-op"])
    | _ => (s, ["obs bad-op"])
  | ["be"] =>
    let be := applyOpts s.opts.reverse
    ({ s with lastQ := some be.queueCfg },
     [s!"obs be {showQ be.queueCfg} {showLB be.batcherCfg} retry={b01 be.retry} qs={b01 be.hasQueueSender} rs={b01 be.retry}"])
  | "merge" :: rest =>
    match kvInt rest "maxint", kvInt rest "numcpu" with
    | some mi, some nc =>
      let be := applyOpts s.opts.reverse
      (s, [s!"obs merged {showQ (mergeLegacy be.queueCfg be.batcherCfg mi nc)}"])
    | _, _ => (s, ["obs bad-op"])
  | "validate" :: rest =>
    match parseQ rest with
    | some q => (s, [s!"obs v={showVRes (validate q)}"])
    | Option.none => (s, ["obs bad-op"])
  | "build" :: rest =>
    match parseQ rest, kvNat rest "legacy" with
    | some q, some lg => ({ s with lastQ := some q }, [showRt (build q (lg == 1))])
    | _, _ => (s, ["obs bad-op"])
  | _ => (s, ["obs bad-op"])

/-- direct oracles on what the IMPLEMENTATION showed: a configured persistent queue is built persistent, on the configured
    storage, with the configured capacity and blocking (`C01_config_persistent_queue_built_as_configured`), and the legacy
    batcher merge keeps these settings (`C01_config_legacy_batcher_keeps_queue_settings`) -/
def cfgOnObs (s : CS) (toks : List String) : CS :=
  match s.bad, toks with
  | some _, _ => s
  | Option.none, "obs" :: "rt" :: rest =>
    match s.lastQ with
    | some q =>
      match q.storage with
      | some st =>
        if q.sizer = .other then s else
        if kv rest "kind" = some s!"persistent:{st}" ∧ kvInt rest "cap" = some q.queueSize ∧ kvNat rest "blk" = some (if q.blockOnOverflow then 1 else 0)
        then s else { s with bad := some ("persistent-queue-not-built-as-configured " ++ " ".intercalate rest) }
      | Option.none => s
    | Option.none => s
  | Option.none, "obs" :: "merged" :: rest =>
    match s.lastQ with
    | some q =>
      if q.enabled ∧ (kv rest "st" ≠ some (optS q.storage) ∨ kvInt rest "qs" ≠ some q.queueSize ∨
          kvNat rest "blk" ≠ some (if q.blockOnOverflow then 1 else 0) ∨ kvInt rest "nc" ≠ some q.numConsumers)
      then { s with bad := some ("legacy-batcher-merge-loses-queue-setting " ++ " ".intercalate rest) } else s
    | Option.none => s
  | _, _ => s

def cfgHandler : Handler CS where
  init := {}
  onOp := cfgOnOp
  onObs := cfgOnObs
  onEnd := fun s =>
    [match s.bad with
     | some d => s!"prop config=FAIL sig=C01/config/{d}"
     | Option.none => "prop config=ok"]

end Config

/-! ### codec model -/

def showBytesRes : Except String (List Nat) → String
  | .ok l => "ok " ++ listS (l.map toString) ","
  | .error e => "err " ++ e

def codecHandler : Handler Unit where
  init := ()
  onOp := fun s toks =>
    match toks with
    | ["enc64", v] => match v.toNat? with
      | some v => (s, [s!"obs {hexBytes (Codec.itemIndexToBytes v)}"])
      | Option.none => (s, ["obs bad-op"])
    | ["dec64", h] => match unhexBytes h with
      | some bs => (s, [match Codec.bytesToItemIndex (if h = "nil" then Option.none else some bs) with
                        | .ok v => s!"obs ok {v}" | .error e => s!"obs err {e}"])
      | Option.none => if h = "nil" then (s, [match Codec.bytesToItemIndex Option.none with
                        | .ok v => s!"obs ok {v}" | .error e => s!"obs err {e}"]) else (s, ["obs bad-op"])
    | ["encarr", l] => match parseList l with
      | some l => (s, [s!"obs {hexBytes (Codec.itemIndexArrayToBytes l)}"])
      | Option.none => (s, ["obs bad-op"])
    | ["decarr", h] => match unhexBytes h with
      | some bs => (s, ["obs " ++ showBytesRes (Codec.bytesToItemIndexArray bs)])
      | Option.none => (s, ["obs bad-op"])
    | _ => (s, ["obs bad-op"])

end OtelVerif.Drivers.C01

def main : IO UInt32 :=
  runMulti [("c01-pq", run OtelVerif.Drivers.C01.pqHandler), ("c01-codec", run OtelVerif.Drivers.C01.codecHandler),
            ("c01-exporter", run OtelVerif.Drivers.C01.expHandler), ("c01-glue", run OtelVerif.Drivers.C01.glueHandler),
            ("c01-config", run OtelVerif.Drivers.C01.cfgHandler)]
