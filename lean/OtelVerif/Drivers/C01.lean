import OtelVerif.Common.Line
import OtelVerif.Model.C01
/-! driver for C01 (stub) -/
def main : IO UInt32 := do
  IO.eprintln "drv_c01: not built yet"
  return 2
