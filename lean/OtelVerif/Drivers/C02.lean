import OtelVerif.Common.Line
import OtelVerif.Model.C02
import OtelVerif.Model.C02P
import OtelVerif.Model.C02Check
import OtelVerif.Model.C02R
import OtelVerif.Model.C02A
import OtelVerif.Model.C02V
/-! driver for C02: models `c02-cond` (cond.go alone, scheduler-controlled lock) and `c02-queue`
(memory queue, run-to-quiescence after every environment label) -/
open OtelVerif OtelVerif.Line OtelVerif.C02

namespace OtelVerif.Drivers.C02

def joinOr (sep : String) (xs : List String) : String := if xs.isEmpty then "-" else sep.intercalate xs

def insertSorted (x : Nat) : List Nat → List Nat
  | [] => [x]
  | y :: ys => if x < y then x :: y :: ys else if x = y then y :: ys else y :: insertSorted x ys

/-! ## cond level -/

structure CD where
  s : CSt := {}
  kinds : List (Nat × String) := []
  pend0 : List Nat := []
  doneS : List Nat := []
  started : List Nat := []
  mon : Check.CMon := {}

def CD.status (d : CD) (t : Nat) : String :=
  if t ∈ d.pend0 then "L"
  else if t ∈ d.doneS then "D"
  else match (d.s.ws t).ph with
    | .idle => "I"
    | .sel => "S"
    | .wokenTok => "L"
    | .wokenCtx => "L"
    | .done .nil => "N"
    | .done .ctx => "C"

def CD.obs (d : CD) : String :=
  "obs st " ++ joinOr " " (d.started.map (fun t => s!"{t}:{d.status t}"))

/-- eager exits from the select (run-to-quiescence): a signalled waiter leaves through its channel, a
cancelled one through ctx.Done() -/
def CD.closure (d : CD) : CD :=
  d.started.foldl (fun d t =>
    match cfire d.s (.wakeTok t) with
    | some s' => { d with s := s' }
    | none => match cfire d.s (.wakeCtx t) with
      | some s' => { d with s := s' }
      | none => d) d

def condHandler : Handler CD where
  init := {}
  onObs := fun d toks => { d with mon := d.mon.onObs toks }
  onOp := fun d toks =>
    let d := { d with mon := d.mon.onOp toks }
    match toks with
    | ["start", t, k] =>
      match t.toNat? with
      | some t =>
        if t ∈ d.started ∨ ¬ (k = "w" ∨ k = "s" ∨ k = "b") then (d, ["obs bad-op"]) else
        let d := { d with kinds := (t, k) :: d.kinds, pend0 := d.pend0 ++ [t], started := insertSorted t d.started }
        (d, [d.obs])
      | none => (d, ["obs bad-op"])
    | ["grant", t] =>
      match t.toNat? with
      | some t =>
        if t ∈ d.pend0 then
          let d1 := { d with pend0 := d.pend0.erase t }
          match d.kinds.lookup t with
          | some "w" =>
            match cfire d1.s (.wait t) with
            | some s' => let d2 := ({ d1 with s := s' } : CD).closure; (d2, [d2.obs])
            | none => (d, ["obs bad-step"])
          | some "s" =>
            match cfire d1.s .signal with
            | some s' => let d2 := ({ d1 with s := s', doneS := t :: d1.doneS } : CD).closure; (d2, [d2.obs])
            | none => (d, ["obs bad-step"])
          | some "b" =>
            match cfire d1.s .broadcast with
            | some s' => let d2 := ({ d1 with s := s', doneS := t :: d1.doneS } : CD).closure; (d2, [d2.obs])
            | none => (d, ["obs bad-step"])
          | _ => (d, ["obs bad-op"])
        else
          let l := match (d.s.ws t).ph with
            | .wokenTok => some (CLabel.relockTok t)
            | .wokenCtx => some (CLabel.relockCtx t)
            | _ => none
          match l.bind (cfire d.s) with
          | some s' => let d2 := ({ d with s := s' } : CD).closure; (d2, [d2.obs])
          | none => (d, ["obs bad-step"])
      | none => (d, ["obs bad-op"])
    | ["cancel", t] =>
      match t.toNat? with
      | some t =>
        match cfire d.s (.cancel t) with
        | some s' => let d2 := ({ d with s := s' } : CD).closure; (d2, [d2.obs])
        | none => (d, ["obs bad-step"])
      | none => (d, ["obs bad-op"])
    | _ => (d, ["obs bad-op"])
  onEnd := fun d => d.mon.verdict

/-! ## queue level -/

structure QD where
  k : Cfg := { cap := 1, block := false, wfr := false }
  s : St := {}
  prods : List Nat := []
  cons : List (Nat × String) := []
  bad : Bool := false
  persistent : Bool := false
  runq : List Nat := []     -- producers woken together by the last Broadcast, in the order the Go scheduler runs them
  mon : Check.Mon := {}

def QD.fireF (d : QD) (l : Label) : Option St := if d.persistent then pfire d.k d.s l else fire d.k d.s l

def resStr : Res → String
  | .ok => "nil"
  | .invalid => "inv"
  | .tooLarge => "big"
  | .full => "full"
  | .ctxErr => "ctx"
  | .stopped => "stopped"
  | .result e => if e = 0 then "nil" else s!"e{e}"

def QD.pstatus (d : QD) (p : Nat) : String :=
  match (d.s.ps p).ph with
  | .done r => resStr r
  | .idle => "I"
  | _ => "B"

def setCons (cs : List (Nat × String)) (c : Nat) (v : String) : List (Nat × String) :=
  match cs with
  | [] => [(c, v)]
  | (c', v') :: r => if c < c' then (c, v) :: (c', v') :: r else if c = c' then (c, v) :: r else (c', v') :: setCons r c v

def QD.obs (d : QD) : String :=
  s!"obs size={d.s.size} Q={joinOr "," (d.s.items.map (fun x => toString x.1))} " ++
  s!"P={joinOr "," (d.prods.map (fun p => s!"{p}:{d.pstatus p}"))} " ++
  s!"C={joinOr "," (d.cons.map (fun c => s!"{c.1}:{c.2}"))}"

/-- the first enabled internal label, in a fixed order (in run-to-quiescence mode at most one thread is
runnable at a time, see the harness) -/
def QD.nextInternal (d : QD) : Option Label :=
  let cands : List Label :=
    d.prods.flatMap (fun p => [.wakeTok p, .wakeCtx p, .relockTok p, .relockCtx p, .getRes p, .resCtx p]) ++
    (match d.s.cwoken with | c :: _ => [Label.recheck c] | [] => [])
  cands.find? (fun l => (d.fireF l).isSome)

def QD.applyLabel (d : QD) (l : Label) : Option QD :=
  match d.fireF l with
  | none => none
  | some s' =>
    let cons := match l with
      | .read c | .recheck c =>
        if s'.handed.length > d.s.handed.length then setCons d.cons c s!"i{s'.handed.getLast?.getD 0}"
        else if c ∈ s'.cwait ∨ c ∈ s'.cwoken then setCons d.cons c "B"
        else setCons d.cons c "S"
      | _ => d.cons
    -- `Broadcast` readies the waiters in registration order; with one P the last readied goroutine runs first
    -- (runnext), the others follow in FIFO order
    let broadcast := match l with
      | .complete _ _ | .shutdown | .read _ | .recheck _ => !d.s.waiters.isEmpty && s'.waiters.isEmpty
      | _ => false
    let runq := if broadcast then
        (match d.s.waiters.reverse with
         | last :: restRev => last :: restRev.reverse
         | [] => [])
      else d.runq
    some { d with s := s', cons := cons, runq := runq }

def QD.closure : Nat → QD → QD
  | 0, d => d
  | fuel + 1, d =>
    match d.nextInternal with
    | none => d
    | some l => match d.applyLabel l with
      | some d' => QD.closure fuel d'
      | none => d

def QD.ext (d : QD) (l : Label) : QD × List String :=
  match d.applyLabel l with
  | some d' => let d2 := QD.closure 10000 d'; (d2, [d2.obs])
  | none => ({ d with bad := true }, ["obs bad-step"])

def parseBool (s : Option String) : Bool := s = some "1"

def parseBurst : List String → Option (List (Nat × Int))
  | [] => some []
  | p :: el :: rest =>
    match p.toNat?, el.toInt?, parseBurst rest with
    | some p, some el, some r => some ((p, el) :: r)
    | _, _, _ => none
  | _ => none

/-! ### several producers woken together (`Broadcast`): the order in which they re-take the lock is the scheduler's

Everything else in a run to quiescence is deterministic; for the re-lock order the driver computes ALL quiescent outcomes
(breadth first, duplicates merged), waits for the implementation's observation of that label, continues from the outcome
that equals it (or from the first one, which then shows up as a difference) and prints its line then.  Lines therefore
come out one label late; their order is unchanged. -/

def phCode : Ph → String
  | .idle => "i" | .sel => "s" | .wokenTok => "t" | .wokenCtx => "c" | .waitRes => "w" | .done _ => "d"

def QD.key (d : QD) : String :=
  d.obs ++ "|" ++ toString d.s.waiters ++ "|" ++ toString d.s.cwait ++ toString d.s.cwoken ++ "|" ++
  String.join (d.prods.map (fun p => phCode (d.s.ps p).ph ++ (if (d.s.ps p).sig then "1" else "0")))

/-- deterministic part: every enabled internal label except a producer's re-lock after its channel was closed -/
def QD.nextDet (d : QD) : Option Label :=
  let cands : List Label :=
    d.prods.flatMap (fun p => [.wakeTok p, .wakeCtx p, .relockCtx p, .getRes p, .resCtx p]) ++
    (match d.s.cwoken with | c :: _ => [Label.recheck c] | [] => [])
  cands.find? (fun l => (d.fireF l).isSome)

def QD.detClosure : Nat → QD → QD
  | 0, d => d
  | fuel + 1, d =>
    match d.nextDet with
    | none => d
    | some l => match d.applyLabel l with
      | some d' => QD.detClosure fuel d'
      | none => d

/-- producers about to re-lock, in the order to try: the scheduler's run queue first, then the rest -/
def QD.wokenOrdered (d : QD) : List Nat :=
  let woken := d.prods.filter (fun p => (d.fireF (.relockTok p)).isSome)
  (d.runq.filter (fun p => woken.contains p)) ++ woken.filter (fun p => !(d.runq.contains p))

structure SR where
  budget : Nat
  found : Option QD := none
  first : Option QD := none
  cut : Bool := false     -- the search was cut short (node budget or depth): "no order explains it" is then NOT established

/-- depth-first over the re-lock orders, the scheduler's order first; stops at the first quiescent outcome whose line
equals the implementation's, or when the node budget is used up -/
def QD.search : Nat → QD → String → SR → SR
  | 0, d, _, r => { r with first := r.first <|> some d, cut := true }
  | depth + 1, d, line, r =>
    if r.found.isSome then r else
    if r.budget == 0 then { r with cut := true } else
    let d := QD.detClosure 10000 d
    match d.wokenOrdered with
    | [] =>
      let r := { r with budget := r.budget - 1, first := r.first <|> some d }
      if d.obs == line then { r with found := some d } else r
    | woken =>
      woken.foldl (fun r p =>
        if r.found.isSome then r else
        if r.budget == 0 then { r with cut := true } else
        match d.applyLabel (.relockTok p) with
        | some d' => QD.search depth { d' with runq := d'.runq.erase p } line r
        | none => r) { r with budget := r.budget - 1 }

structure QH where
  cur : QD := {}
  pend : Option QD := none       -- state after the last label, before the run to quiescence; resolved at its observation
  deferred : List String := []   -- lines to print at the next opportunity
  desync : Bool := false         -- the re-lock-order search was cut short in this case: the model is not diffed any further
  budget : Nat := 4000           -- node budget of the re-lock-order search (`lockorder_budget=` on the case line, for self-tests)

def QH.resolveWith (h : QH) (line : Option String) : QH :=
  match h.pend with
  | none => h
  | some d =>
    let r := QD.search 64 d (line.getD "") { budget := h.budget }
    match r.found, r.cut, line with
    | some chosen, _, _ => { h with cur := chosen, pend := none, deferred := h.deferred ++ [chosen.obs] }
    | none, true, some l =>
      -- search limit, not a difference: accept the implementation's line for this step and stop diffing the case
      -- (the property oracles keep running on the implementation's lines)
      { h with pend := none, desync := true, cur := { h.cur with mon := d.mon },
               deferred := h.deferred ++ ["tr lockorder-search-exhausted", "stat lockorder_exhausted 1", l] }
    | none, _, _ =>
      -- the search COMPLETED (or there is no line to compare with): no order explains the implementation
      let chosen := r.first.getD d
      { h with cur := chosen, pend := none, deferred := h.deferred ++ [chosen.obs] }

def QH.start (h : QH) (ds : Option (List QD)) : QH :=
  match ds with
  | some (d :: _) => { h with pend := some d }
  | _ => { h with cur := { h.cur with bad := true }, deferred := h.deferred ++ ["obs bad-step"] }

def mkQueueHandler (persistent : Bool) : Handler QH where
  init := { cur := { persistent := persistent } }
  onCase := fun h toks =>
    let k : Cfg := { cap := (kvInt toks "cap").getD 1, block := parseBool (kv toks "block"), wfr := parseBool (kv toks "wfr") }
    { h with budget := (kvNat toks "lockorder_budget").getD 4000,
             cur := { h.cur with k := k, mon := { cap := k.cap, block := k.block, wfr := k.wfr, persistent := persistent } } }
  onOp := fun h toks =>
    let h := h.resolveWith none
    let outs := h.deferred
    let d : QD := { h.cur with mon := h.cur.mon.onOp toks }
    let h : QH := { h with cur := d, deferred := [] }
    let one (d : QD) (l : Label) : Option (List QD) := (d.applyLabel l).map (fun x => [x])
    let h' : QH :=
      if h.desync then h else
      match toks with
      | ["offer", p, el] =>
        match p.toNat?, el.toInt? with
        | some p, some el => h.start (one { d with prods := insertSorted p d.prods } (.offer p el))
        | _, _ => { h with deferred := ["obs bad-op"] }
      | ["cancel", p] =>
        match p.toNat? with
        | some p => h.start (one d (.cancel p))
        | none => { h with deferred := ["obs bad-op"] }
      | "burst" :: rest =>
        -- one goroutine issues several Offers back to back: no goroutine step in between, then run to quiescence
        match parseBurst rest with
        | some offers =>
          h.start ((offers.foldl (fun (acc : Option QD) (o : Nat × Int) =>
            acc.bind (fun d => ({ d with prods := insertSorted o.1 d.prods } : QD).applyLabel (.offer o.1 o.2))) (some d)).map (fun x => [x]))
        | none => { h with deferred := ["obs bad-op"] }
      | "restore" :: rest =>
        -- persistent queue started on non-empty storage: stored requests (accepted in an earlier life) and the restored size
        if !d.persistent then { h with deferred := ["obs bad-op"] } else
        match parseBurst (rest.filter (fun t => !(t.startsWith "size="))), (Check.kvOf rest "size").bind String.toInt? with
        | some items, some sz =>
          let ids := items.map (·.1)
          let s0 : St := { items := items, size := sz, accepted := ids,
                           ps := fun p => if p ∈ ids then { ph := .done .ok } else {} }
          { h with pend := some { d with s := s0 } }
        | _, _ => { h with deferred := ["obs bad-op"] }
      | ["read", c] =>
        match c.toNat? with
        | some c => h.start (one d (.read c))
        | none => { h with deferred := ["obs bad-op"] }
      | ["done", id, e] =>
        match id.toNat?, e.toNat? with
        | some id, some e => h.start (one d (.complete id e))
        | _, _ => { h with deferred := ["obs bad-op"] }
      | ["shutdown"] => h.start (one d .shutdown)
      | _ => { h with deferred := ["obs bad-op"] }
    (h', outs)
  onObs := fun h toks =>
    let line := " ".intercalate toks
    let wasDesync := h.desync
    let h := h.resolveWith (some line)
    let h := if wasDesync then { h with deferred := h.deferred ++ [line] } else h
    { h with cur := { h.cur with mon := h.cur.mon.onObs toks } }
  onEnd := fun h =>
    let h := h.resolveWith none
    h.deferred ++ h.cur.mon.verdict

/-! ## configuration glue: the queue an exporter actually gets, judged against the configuration as written

The harness builds the exporter through the real constructors (`NewBaseExporter` + `WithQueueBatch` / `WithBatcher`),
keeps the export blocked, and reports after every `Send` the size and capacity the exporter *reports* (its own
queue-size / queue-capacity gauges) and what every `Send` returned.  The model is the memory-queue LTS instantiated
from the WRITTEN configuration: capacity = `queue_size`, request size = the written `sizer` applied to the request.
Consumers are the exporter's own goroutines; with the export blocked nothing completes, and in the memory queue reads
change neither the size nor acceptance, so the model runs without them until `drain`. -/

structure GD where
  q : QD := {}
  prevSize : Int := 0
  lastOp : List String := []
  els : List (Nat × Int) := []
  drained : Bool := false
  outcomes : List (Nat × Nat) := []   -- export outcome per request id (default 0 = success)
  fails : List String := []

def GD.obs (g : GD) : String :=
  s!"obs size={g.q.s.size} cap={g.q.k.cap} P={joinOr "," (g.q.prods.map (fun p => s!"{p}:{g.q.pstatus p}"))}"

/-- complete everything, let released producers in, repeat (fuel-bounded) -/
def GD.drainLoop (oc : List (Nat × Nat)) : Nat → QD → QD
  | 0, d => d
  | fuel + 1, d =>
    let d := QD.closure 10000 d
    match d.s.inflight with
    | (id, _) :: _ =>
      match d.applyLabel (.complete id ((oc.lookup id).getD 0)) with
      | some d' => GD.drainLoop oc fuel d'
      | none => d
    | [] =>
      match d.s.items with
      | _ :: _ =>
        match d.applyLabel (.read 0) with
        | some d' => GD.drainLoop oc fuel d'
        | none => d
      | [] => d

def configHandler : Handler GD where
  init := {}
  onCase := fun g toks =>
    let k : Cfg := { cap := (kvInt toks "cap").getD 1, block := parseBool (kv toks "block"), wfr := parseBool (kv toks "wfr") }
    let persistent := parseBool (kv toks "persistent")
    let q0 : QD := { k := k, persistent := persistent }
    -- `storage` written: the persistent queue, whose reads matter for the reported size (reset when the last stored request is
    -- read): the exporter's consumers all park in `Read` at start; each accepted request wakes one of them (the LTS does the rest)
    let q := if persistent then
        (List.range ((kvNat toks "consumers").getD 1)).foldl (fun (q : QD) c => ((q.applyLabel (.read c)).getD q)) q0
      else q0
    { g with q := q }
  onOp := fun g toks =>
    let g := { g with lastOp := toks }
    match toks with
    | ["offer", p, el] =>
      match p.toNat?, el.toInt? with
      | some p, some el =>
        let (q', _) := ({ g.q with prods := insertSorted p g.q.prods } : QD).ext (.offer p el)
        let g' := { g with q := q', els := (p, el) :: g.els }
        (g', [g'.obs])
      | _, _ => (g, ["obs bad-op"])
    | ["cancel", p] =>
      match p.toNat? with
      | some p => let (q', _) := g.q.ext (.cancel p); let g' := { g with q := q' }; (g', [g'.obs])
      | none => (g, ["obs bad-op"])
    | ["outcome", p, e] =>
      match p.toNat?, e.toNat? with
      | some p, some e => ({ g with outcomes := (p, e) :: g.outcomes }, [])
      | _, _ => (g, ["obs bad-op"])
    | ["drain"] =>
      let g' := { g with q := GD.drainLoop g.outcomes 100000 g.q, drained := true }
      (g', [g'.obs])
    | _ => (g, ["obs bad-op"])
  onObs := fun g toks =>
    -- the property's clauses on what the exporter showed, for the CONFIGURED sizer and capacity
    match toks with
    | "obs" :: rest =>
      match (Check.kvOf rest "size").bind String.toInt?, (Check.kvOf rest "cap").bind String.toInt?, Check.kvOf rest "P" with
      | some size, some cap, some ps =>
        let ps := Check.parsePairs ps
        let at_ := " after op " ++ "_".intercalate g.lastOp
        let fail (g : GD) (c : Bool) (msg : String) : GD := if c then { g with fails := g.fails ++ [msg] } else g
        let g := fail g (cap != g.q.k.cap) s!"sig=C02/config/reported-capacity-differs-from-queue_size reported={cap} written={g.q.k.cap}"
        let g := fail g (size < 0 || size > g.q.k.cap) s!"sig=C02/config/size-out-of-bounds-for-configured-capacity size={size} queue_size={g.q.k.cap}{at_}"
        let g := match g.lastOp with
          | ["offer", p, el] =>
            match p.toNat?, el.toInt? with
            | some p, some el =>
              let st := (ps.lookup p).getD "?"
              fail g (!(Check.refusalClause g.q.persistent g.q.k.block false g.q.k.cap g.prevSize el st))
                s!"sig=C02/config/refusal-not-exact-for-configured-sizer p={p} configured-size={el} reported-size-before={g.prevSize} queue_size={g.q.k.cap} got {st} want-refusal '{Check.expectedRefusal g.q.persistent g.q.k.block false g.q.k.cap g.prevSize el}'"
            | _, _ => g
          | _ => g
        -- before the drain nothing finishes: without wait_for_result the reported size is the configured size of what was accepted
        let accepted := ps.filter (fun (_, st) => st == "nil" || st == "e1")
        let want := accepted.foldl (fun a (p, _) => a + (g.els.lookup p).getD 0) (0 : Int)
        let g := fail g (!g.drained && !g.q.k.wfr && !g.q.persistent && size != want)
          s!"sig=C02/config/reported-size-is-not-configured-size-of-accepted size={size} configured-sum={want}{at_}"
        let g := fail g (g.drained && size != 0) s!"sig=C02/config/size-not-zero-after-drain size={size}"
        { g with prevSize := size }
      | _, _, _ => { g with fails := g.fails ++ ["sig=C02/harness/unparsable-config-obs"] }
    | _ => g
  onEnd := fun g =>
    match g.fails with
    | [] => ["prop config=ok"]
    | f :: _ => [s!"prop config=FAIL {f}"]

/-! ## persistent queue: size accounting across lives (`Model/C02R.lean`), sequential, exact differential -/

structure RM where
  cap : Int := 1
  reqSized : Bool := false
  fresh : Bool := true              -- no restart yet in this case: the life started on empty storage
  prevSize : Int := 0
  lastOp : List String := []
  infl : List (Nat × Int) := []     -- reads of this life that are not done yet: index ↦ recorded size
  prevWi : Nat := 0
  nOffers : Nat := 0
  refused : List Nat := []          -- ids of the requests whose Offer did not return nil
  fails : List String := []

structure RD where
  c : R.RCfg := { cap := 1, reqSized := false }
  s : R.RSt := {}
  mon : RM := {}

def natList (l : List Nat) : String := joinOr "," (l.map toString)

def RD.obs (d : RD) (ret : String) : String :=
  let q := (List.range' d.s.ri (d.s.wi - d.s.ri)).map (fun i =>
    match d.s.store.lookup i with
    | some (id, n) => s!"{id}:{n}"
    | none => "?")
  s!"obs ret={ret} size={d.s.size} ri={d.s.ri} wi={d.s.wi} disp={natList d.s.disp} " ++
  s!"si={match d.s.sSi with | some v => toString v | none => "-"} di={natList d.s.sDi} q={joinOr "," q}"

def parseQ (s : String) : Option (List (Nat × Nat)) :=
  if s == "-" then some [] else
  (s.splitOn ",").foldr (fun t acc =>
    match t.splitOn ":", acc with
    | [a, b], some r => match a.toNat?, b.toNat? with
      | some a, some b => some ((a, b) :: r)
      | _, _ => none
    | _, _ => none) (some [])

def RM.fail (m : RM) (c : Bool) (msg : String) : RM := if c then { m with fails := m.fails ++ [msg] } else m

def RM.onObs (m : RM) (toks : List String) : RM :=
  match toks with
  | "obs" :: rest =>
    match Check.kvOf rest "ret", (Check.kvOf rest "size").bind String.toInt?, (Check.kvOf rest "q").bind parseQ with
    | some ret, some size, some q =>
      let c : R.RCfg := { cap := m.cap, reqSized := m.reqSized }
      let at_ := " after op " ++ "_".intercalate m.lastOp
      let nQ := q.length
      let sumQ := q.foldl (fun a x => a + R.sizeOf c x.2) (0 : Int)
      let wi := ((Check.kvOf rest "wi").bind String.toNat?).getD 0
      let m := match m.lastOp with
        | ["offer", n] =>
          let id := m.nOffers
          let m := { m with nOffers := m.nOffers + 1, refused := if ret == "ok" then m.refused else m.refused ++ [id] }
          let m := m.fail (!(R.refusedClause (ret == "ok") m.prevWi wi))
            s!"sig=C02/pqsize/refused-offer-was-stored request={id} Offer returned {ret}, write index {m.prevWi} -> {wi}"
          match n.toNat? with
          | some n => m.fail (!(R.refusalClause m.cap m.prevSize (R.sizeOf c n) (ret == "full")))
              s!"sig=C02/pqsize/refusal-not-exact size-before={m.prevSize} request-size={R.sizeOf c n} cap={m.cap} got {ret}"
          | none => m
        | ["read"] =>
          match ret.splitOn ":" with
          | [i, id, el] => match i.toNat?, id.toNat?, el.toInt? with
            | some i, some id, some el =>
              let m := m.fail (m.refused.contains id) s!"sig=C02/pqsize/refused-request-handed-over request={id} index={i}"
              { m with infl := m.infl ++ [(i, el)] }
            | _, _, _ => m.fail true s!"sig=C02/harness/unparsable-pqsize-read {ret}"
          | _ => m
        | ["done", i, _] =>
          match i.toNat? with
          | some i => { m with infl := m.infl.filter (fun x => x.1 != i) }
          | none => m
        | "restart" :: _ =>
          let m := { m with fresh := false, infl := [] }
          let m := m.fail (nQ == 0 && size != 0) s!"sig=C02/pqsize/size-nonzero-after-restart-on-nothing size={size}"
          let m := m.fail (m.reqSized && nQ != 0 && size != (nQ : Int))
            s!"sig=C02/pqsize/requests-sized-restart-size-not-exact size={size} stored-requests={nQ}"
          m.fail (!(R.restartClause m.reqSized size nQ) && !(nQ == 0 && size != 0) && !(m.reqSized && nQ != 0 && size != (nQ : Int)))
            s!"sig=C02/pqsize/restart-clause size={size} stored-requests={nQ}"
        | _ => m
      let sumF := m.infl.foldl (fun a x => a + x.2) (0 : Int)
      let m := m.fail (m.fresh && !(R.freshClause m.cap size (sumQ + sumF)))
        s!"sig=C02/pqsize/size-out-of-bounds-in-fresh-life size={size} cap={m.cap} unfinished-sum={sumQ + sumF}{at_}"
      let m := m.fail (!(R.anyClause size sumF nQ))
        s!"sig=C02/pqsize/size-accounting size={size} in-flight-sum={sumF} queued={nQ}{at_}"
      { m with prevSize := size, prevWi := wi }
    | _, _, _ => m.fail true "sig=C02/harness/unparsable-pqsize-obs"
  | _ => m

def pqsizeHandler : Handler RD where
  init := {}
  onCase := fun d toks =>
    let c : R.RCfg := { cap := (kvInt toks "cap").getD 1, reqSized := parseBool (kv toks "req") }
    { d with c := c, s := {}, mon := { cap := c.cap, reqSized := c.reqSized } }
  onOp := fun d toks =>
    let d := { d with mon := { d.mon with lastOp := toks } }
    match toks with
    | ["offer", n] =>
      match n.toNat? with
      | some n => let r := R.offer d.c d.s n; let d' := { d with s := r.1 }; (d', [d'.obs (if r.2 then "ok" else "full")])
      | none => (d, ["obs bad-op"])
    | ["read"] =>
      match R.read d.c d.s with
      | some (s', idx, id, el) => let d' := { d with s := s' }; (d', [d'.obs s!"{idx}:{id}:{el}"])
      | none => (d, ["obs bad-step"])
    | ["done", idx, e] =>
      match idx.toNat? with
      | some idx =>
        match R.done d.c d.s idx (e == "1") with
        | some s' => let d' := { d with s := s' }; (d', [d'.obs "-"])
        | none => (d, ["obs bad-step"])
      | none => (d, ["obs bad-op"])
    | ["shutdown"] => let d' := { d with s := R.shutdown d.c d.s }; (d', [d'.obs "-"])
    | ["failsi", v] => let d' := { d with s := { d.s with siFails := v == "1" } }; (d', [d'.obs "-"])
    | "restart" :: rest =>
      match (Check.kvOf rest "cap").bind String.toInt?, Check.kvOf rest "req" with
      | some cap, some rq =>
        let c : R.RCfg := { cap := cap, reqSized := rq == "1" }
        let d' : RD := { c := c, s := R.restart c d.s, mon := { d.mon with cap := cap, reqSized := rq == "1" } }
        (d', [d'.obs "-"])
      | _, _ => (d, ["obs bad-op"])
    | _ => (d, ["obs bad-op"])
  onObs := fun d toks => { d with mon := d.mon.onObs toks }
  onEnd := fun d =>
    match d.mon.fails with
    | [] => ["prop pqsize=ok"]
    | f :: _ => [s!"prop pqsize=FAIL {f}"]

/-! ## the consumer pool (`async_queue.go`, `Model/C02A.lean`): exact differential at quiescence -/

structure AM where
  n : Nat := 1
  persistent : Bool := false
  deferred : Bool := false
  stopped : Bool := false
  left : List Nat := []
  prevBusy : List Nat := []
  lastOp : List String := []
  fails : List String := []

structure AD where
  k : Cfg := { cap := 1, block := false, wfr := false }
  pl : A.Pool := { n := 1, persistent := false }
  a : A.ASt := {}
  prods : List Nat := []
  deferred : Bool := false
  mon : AM := {}

def AD.next (d : AD) : Option A.ALabel :=
  let cands : List A.ALabel :=
    d.prods.flatMap (fun p => [.q (.wakeTok p), .q (.wakeCtx p), .q (.relockTok p), .q (.relockCtx p), .q (.getRes p), .q (.resCtx p)]) ++
    (List.range d.pl.n).flatMap (fun c => [A.ALabel.cread c, A.ALabel.crecheck c] ++ (if d.deferred then [A.ALabel.cret c] else []))
  cands.find? (fun l => (A.afire d.k d.pl d.a l).isSome)

def AD.closure : Nat → AD → AD
  | 0, d => d
  | fuel + 1, d =>
    match d.next with
    | none => d
    | some l => match A.afire d.k d.pl d.a l with
      | some a' => AD.closure fuel { d with a := a' }
      | none => d

def sortNat (l : List Nat) : List Nat := l.foldl (fun acc x => insertSorted x acc) []

def AD.busy (d : AD) : List Nat :=
  sortNat ((List.range d.pl.n).filterMap (fun c => match d.a.cs c with | .busy id => some id | _ => none))

def AD.obs (d : AD) : String :=
  let pst (p : Nat) : String := match (d.a.q.ps p).ph with
    | .done r => resStr r
    | .idle => "I"
    | _ => "B"
  let shut := d.a.q.stopped && (List.range d.pl.n).all (fun c => d.a.cs c == .exited)
  s!"obs size={d.a.q.size} Q={joinOr "," (d.a.q.items.map (fun x => toString x.1))} busy={natList d.busy} " ++
  s!"P={joinOr "," (d.prods.map (fun p => s!"{p}:{pst p}"))} shut={if shut then 1 else 0}"

def AD.fireAll (d : AD) (ls : List A.ALabel) : Option AD :=
  ls.foldl (fun (acc : Option AD) l => acc.bind (fun d => (A.afire d.k d.pl d.a l).map (fun a' => { d with a := a' }))) (some d)

def parseNatList (s : String) : Option (List Nat) :=
  if s == "-" then some [] else
  (s.splitOn ",").foldr (fun t acc => match t.toNat?, acc with
    | some v, some r => some (v :: r)
    | _, _ => none) (some [])

def AM.onObs (m : AM) (toks : List String) : AM :=
  match toks with
  | "obs" :: rest =>
    match (Check.kvOf rest "Q").map (fun q => if q == "-" then 0 else (q.splitOn ",").length), (Check.kvOf rest "busy").bind parseNatList with
    | some nq, some busy =>
      let at_ := " after op " ++ "_".intercalate m.lastOp
      let left := m.left ++ m.prevBusy.filter (fun id => !busy.contains id)
      let fail (m : AM) (c : Bool) (msg : String) : AM := if c then { m with fails := m.fails ++ [msg] } else m
      let m := fail m (!(A.workClause m.n m.persistent m.deferred m.stopped nq busy.length))
        s!"sig=C02/async/request-waits-beside-idle-consumer queued={nq} inside-consumeFunc={busy.length} consumers={m.n}{at_}"
      let m := fail m (!(A.onceClause left busy))
        s!"sig=C02/async/request-handed-to-consumeFunc-twice busy={busy} returned-before={left}{at_}"
      { m with left := left, prevBusy := busy }
    | _, _ => { m with fails := m.fails ++ ["sig=C02/harness/unparsable-async-obs"] }
  | _ => m

def asyncHandler : Handler AD where
  init := {}
  onCase := fun _ toks =>
    let k : Cfg := { cap := (kvInt toks "cap").getD 1, block := parseBool (kv toks "block"), wfr := parseBool (kv toks "wfr") }
    let pl : A.Pool := { n := (kvNat toks "consumers").getD 1, persistent := parseBool (kv toks "persistent") }
    let deferred := parseBool (kv toks "deferred")
    -- `Start`: every consumer calls `Read` and parks
    AD.closure 10000 { k := k, pl := pl, deferred := deferred, mon := { n := pl.n, persistent := pl.persistent, deferred := deferred } }
  onOp := fun d toks =>
    let d := { d with mon := { d.mon with lastOp := toks, stopped := d.mon.stopped || toks == ["shutdown"] } }
    let go (d : AD) (ls : List A.ALabel) : AD × List String :=
      match d.fireAll ls with
      | some d' => let d2 := AD.closure 10000 d'; (d2, [d2.obs])
      | none => (d, ["obs bad-step"])
    match toks with
    | ["offer", p, el] =>
      match p.toNat?, el.toInt? with
      | some p, some el => go { d with prods := insertSorted p d.prods } [.q (.offer p el)]
      | _, _ => (d, ["obs bad-op"])
    | ["cancel", p] =>
      match p.toNat? with
      | some p => go d [.q (.cancel p)]
      | none => (d, ["obs bad-op"])
    | ["release", id, e] =>
      -- inline consumeFunc: it completes the request, then returns
      match id.toNat?, e.toNat? with
      | some id, some e =>
        match (List.range d.pl.n).find? (fun c => d.a.cs c == .busy id) with
        -- the consumer goroutine runs on (one P, no blocking call in between): OnDone, return, the next `Read` — only then do
        -- the producers that the completion's Broadcast made runnable get the lock
        | some c => go d [.q (.complete id e), .cret c, .cread c]
        | none => (d, ["obs bad-step"])
      | _, _ => (d, ["obs bad-op"])
    | ["done", id, e] =>
      match id.toNat?, e.toNat? with
      | some id, some e => go d [.q (.complete id e)]
      | _, _ => (d, ["obs bad-op"])
    | ["shutdown"] => go d [.q .shutdown]
    | _ => (d, ["obs bad-op"])
  onObs := fun d toks => { d with mon := d.mon.onObs toks }
  onEnd := fun d =>
    match d.mon.fails with
    | [] => ["prop async=ok"]
    | f :: _ => [s!"prop async=FAIL {f}"]

/-! ## `Config.Validate` / `BatchConfig.Validate` (`Model/C02V.lean`): one configuration per case, exact differential -/

structure VD where
  fails : List String := []

def parseSizer : String → V.Sizer
  | "requests" => .requests | "items" => .items | "bytes" => .bytes | _ => .other

def validateHandler : Handler VD where
  init := {}
  onCase := fun _ _ => {}
  onOp := fun d toks =>
    match toks with
    | "validate" :: rest =>
      match (Check.kvOf rest "enabled"), (Check.kvOf rest "consumers").bind String.toInt?, (Check.kvOf rest "queue_size").bind String.toInt?,
            Check.kvOf rest "storage", Check.kvOf rest "wfr", Check.kvOf rest "sizer", Check.kvOf rest "batch" with
      | some en, some nc, some qs, some st, some wfr, some sz, some b =>
        let batch : Option V.Batch :=
          match b.splitOn "," with
          | [ft, mn, mx] => match ft.toInt?, mn.toInt?, mx.toInt? with
            | some ft, some mn, some mx => some { flushTimeout := ft, minSize := mn, maxSize := mx }
            | _, _, _ => none
          | _ => none
        let c : V.QCfg := { enabled := en == "1", numConsumers := nc, queueSize := qs, storage := st == "1", wfr := wfr == "1",
                            sizer := parseSizer sz, batch := batch }
        (d, [s!"obs config={(V.validate c).str} batch={(V.validateBatch batch).str}"])
      | _, _, _, _, _, _, _ => (d, ["obs bad-op"])
    | _ => (d, ["obs bad-op"])
  onObs := fun d toks =>
    -- `tr accepted=.. enabled=.. consumers=.. queue_size=.. storage=.. wfr=.. req=..`: the clause on what the implementation accepted
    match toks with
    | "tr" :: rest =>
      match Check.kvOf rest "accepted", Check.kvOf rest "enabled", (Check.kvOf rest "consumers").bind String.toInt?,
            (Check.kvOf rest "queue_size").bind String.toInt?, Check.kvOf rest "storage", Check.kvOf rest "wfr", Check.kvOf rest "req" with
      | some a, some en, some nc, some qs, some st, some wfr, some rq =>
        if V.acceptClause (a == "1") (en == "1") nc qs (st == "1") (wfr == "1") (rq == "1") then d
        else { d with fails := d.fails ++ [s!"sig=C02/validate/accepted-configuration-breaks-queue-hypotheses consumers={nc} queue_size={qs} storage={st} wfr={wfr} requests-sizer={rq}"] }
      | _, _, _, _, _, _, _ => { d with fails := d.fails ++ ["sig=C02/harness/unparsable-validate-tr"] }
    | _ => d
  onEnd := fun d =>
    match d.fails with
    | [] => ["prop validate=ok"]
    | f :: _ => [s!"prop validate=FAIL {f}"]

/-! ## soak (native scheduler): monitor only -/

structure SD where
  cfg : Check.SCfg := { cap := 1, wfr := false, persistent := false, singleConsumer := false }
  evs : List Check.SEv := []   -- reversed
  bad : Option String := none

def soakHandler : Handler SD where
  init := {}
  onCase := fun d toks =>
    { d with cfg := { cap := (kvInt toks "cap").getD 1, wfr := parseBool (kv toks "wfr"),
                      persistent := parseBool (kv toks "persistent"), singleConsumer := (kvNat toks "consumers") == some 1 } }
  onOp := fun d _ => (d, ["obs bad-op"])
  onObs := fun d toks =>
    match toks with
    | "tr" :: rest =>
      match Check.parseSEv rest with
      | some e => { d with evs := e :: d.evs }
      | none => { d with bad := some (" ".intercalate rest) }
    | _ => d
  onEnd := fun d =>
    match d.bad with
    | some b => [s!"prop soak=FAIL sig=C02/harness/unparsable-soak-event {b}"]
    | none => Check.soakVerdict d.cfg d.evs.reverse

end OtelVerif.Drivers.C02

def main : IO UInt32 :=
  runMulti [("c02-cond", run OtelVerif.Drivers.C02.condHandler), ("c02-queue", run (OtelVerif.Drivers.C02.mkQueueHandler false)),
            ("c02-persistent", run (OtelVerif.Drivers.C02.mkQueueHandler true)),
            ("c02-soak", run OtelVerif.Drivers.C02.soakHandler),
            ("c02-config", run OtelVerif.Drivers.C02.configHandler),
            ("c02-pqsize", run OtelVerif.Drivers.C02.pqsizeHandler),
            ("c02-async", run OtelVerif.Drivers.C02.asyncHandler),
            ("c02-validate", run OtelVerif.Drivers.C02.validateHandler)]
