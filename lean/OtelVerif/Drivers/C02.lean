import OtelVerif.Common.Line
import OtelVerif.Model.C02
/-! driver for C02 (stub) -/
def main : IO UInt32 := do
  IO.eprintln "drv_c02: not built yet"
  return 2
