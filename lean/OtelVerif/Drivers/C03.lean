import OtelVerif.Common.Line
import OtelVerif.Model.C03
/-! driver for C03 (stub) -/
def main : IO UInt32 := do
  IO.eprintln "drv_c03: not built yet"
  return 2
