import OtelVerif.Common.Line
import OtelVerif.Model.C03
import OtelVerif.Model.C03Replay
import OtelVerif.Model.C03Mon
import OtelVerif.Model.C03Direct
import OtelVerif.Model.C03Cfg
/-! driver for C03: model `c03-shutdown` — the Lean monitor `C03.verdict` evaluated on the recorded trace of the real exporter -/
open OtelVerif OtelVerif.Line OtelVerif.C03

namespace OtelVerif.Drivers.C03

def parseIds (s : String) : Option (List Nat) :=
  if s = "-" then some [] else (s.splitOn ",").mapM String.toNat?

def showIds (l : List Nat) : String :=
  if l.isEmpty then "-" else ",".intercalate (l.map toString)

structure S where
  persistent : Bool := false
  batch : Nat := 0
  haveCfg : Bool := false
  evs : List Ev := []          -- reversed
  recovered : List Nat := []
  stored : List Nat := []
  leak : Nat := 0
  uac : Option String := none
  skipped : Bool := false
  bad : Option String := none
  retry : Bool := false
  maxElapsed : Nat := 0
  consumers : Nat := 1
  wrap : Bool := false
  wfr : Bool := false
  itemsSized : Bool := false
  direct : Bool := false    -- no sending queue and no batcher: export calls run on the callers' goroutines
  tevs : List OtelVerif.C03.Replay.TEv := []    -- reversed: the full trace for the replay through `fire`
  ends : List (Nat × Bool × Bool × Bool) := []   -- (call, failed, permanent, retries were left)
  -- the options (from the `cfg` op) and the runtime object read off the real exporter by reflection (`tr rt`)
  ucfg : Option OtelVerif.C03.UCfg := none
  rtObs : Option (List String) := none

def handler : Handler S where
  init := {}
  onOp := fun s toks =>
    match toks with
    | "cfg" :: rest =>
      match kvNat rest "persistent", kvNat rest "batch", kvNat rest "queue", kvNat rest "retry", kvNat rest "consumers", kvNat rest "maxelapsed" with
      | some p, some b, some _, some r, some nc, some me =>
        ({ s with persistent := p == 1, batch := b, haveCfg := true, retry := r == 1, maxElapsed := me, consumers := nc,
                  ucfg := some { queueEnabled := kvNat rest "queue" == some 1, storage := p == 1, wfr := kvNat rest "wfr" == some 1,
                                 itemsSized := kv rest "sizer" == some "items", numConsumers := nc, queueBatch := b == 1,
                                 legacyBatcher := b == 2, flushTimeout := (kvNat rest "flush").getD 0 > 0, retry := r == 1, numCPU := 1 },
                  direct := kvNat rest "queue" == some 0 && b == 0,
                  wrap := kvNat rest "wrap" == some 1, wfr := kvNat rest "wfr" == some 1 || kvNat rest "queue" == some 0,
                  itemsSized := kv rest "sizer" == some "items" && kvNat rest "queue" == some 1 }, [])
      | _, _, _, _, _, _ => (s, ["obs bad-op"])
    | ["act", at_, "shutdown"] => if at_.toNat?.isSome then (s, []) else (s, ["obs bad-op"])
    | ["act", at_, "send", rid, n] =>
      if at_.toNat?.isSome && rid.toNat?.isSome && n.toNat?.isSome then (s, []) else (s, ["obs bad-op"])
    | ["backend", i, d, o] =>
      if i.toNat?.isSome && d.toNat?.isSome && o.toNat?.isSome then (s, []) else (s, ["obs bad-op"])
    | _ => (s, ["obs bad-op"])
  onObs := fun s toks =>
    match toks with
    | ["tr", "acc", rid, ids] =>
      match rid.toNat?, parseIds ids with
      | some rid, some is => { s with evs := Ev.acc is :: s.evs, tevs := .acc rid is :: s.tevs }
      | _, _ => { s with bad := some "acc" }
    | ["tr", "rej", rid, ids] =>
      match rid.toNat?, parseIds ids with
      | some rid, some is => { s with tevs := .rej rid is :: s.tevs }
      | _, _ => { s with bad := some "rej" }
    | ["tr", "shutreq"] => { s with evs := Ev.shutReq :: s.evs, tevs := .shutreq :: s.tevs }
    | ["tr", "shutret", _] => { s with evs := Ev.shutRet :: s.evs, tevs := .shutret :: s.tevs }
    | ["tr", "es", c, ids] =>
      match c.toNat?, parseIds ids with
      | some c, some is => { s with evs := Ev.es c is :: s.evs, tevs := .es c is :: s.tevs }
      | _, _ => { s with bad := some "es" }
    | ["tr", "ee", c, f, pm, af] =>
      match c.toNat?, f.toNat?, pm.toNat?, af.toNat? with
      | some c, some f, some pm, some af =>
        { s with evs := Ev.ee c (f == 1) :: s.evs, ends := (c, f == 1, pm == 1, af == 1) :: s.ends,
                 tevs := .ee c (f == 1) (pm == 1) (af == 1) :: s.tevs }
      | _, _, _, _ => { s with bad := some "ee" }
    | ["tr", "ss", rid, ids] =>
      match rid.toNat?, parseIds ids with
      | some rid, some is => { s with tevs := .ss rid is :: s.tevs }
      | _, _ => { s with bad := some "ss" }
    | "tr" :: "ms" :: rest =>
      match kvNat rest "first", (kv rest "cur").bind parseIds, (kv rest "req").bind parseIds, kv rest "res", kvNat rest "keep", kvNat rest "err" with
      | some f, some cur, some req, some res, some k, some er =>
        if er == 1 then s else
        match (if res = "-" then some [] else (res.splitOn ";").mapM parseIds) with
        | some rl => { s with tevs := .ms (f == 1) cur req rl (k == 1) :: s.tevs }
        | none => { s with bad := some "ms" }
      | _, _, _, _, _, _ => { s with bad := some "ms" }
    | "tr" :: "gauge" :: _ => s
    | "tr" :: "rt" :: rest => { s with rtObs := some rest }
    | ["tr", "wshut"] => { s with tevs := .wshut :: s.tevs }
    | ["tr", "uac", op] => { s with uac := some op }
    | ["tr", "stored", ids] =>
      match parseIds ids with
      | some is => { s with stored := is }
      | none => { s with bad := some "stored" }
    | ["tr", "recovered", ids] =>
      match parseIds ids with
      | some is => { s with recovered := is }
      | none => { s with bad := some "recovered" }
    | ["tr", "leak", n] =>
      match n.toInt? with
      | some n => { s with leak := n.toNat }
      | none => { s with bad := some "leak" }
    | "tr" :: "builderr" :: _ => { s with skipped := true }
    | "tr" :: _ => { s with bad := some "unknown tr line" }
    | _ => s
  onEnd := fun s =>
    if s.skipped then ["obs skipped"] else
    match s.bad with
    | some b => [s!"obs unparsable {b}", s!"prop trace=FAIL sig=C03/harness/unparsable {b}"]
    | none =>
      let t := s.evs.reverse
      let v := verdict t
      -- queue-less exporter: export calls run on the callers' goroutines (Shutdown does not wait for them: `openCalls` not applied);
      -- a caller may come at any time, so a FIRST attempt may begin after the return — a RETRY may not (`Direct.lateRetries`, sound:
      -- C03_check_direct_sound; accepts the trace of every run of the direct-mode LTS: C03_direct_bridge)
      let v := if s.direct then { v with openCalls := [], lateCalls := OtelVerif.C03.Direct.lateRetries t } else v
      let kind := if s.direct then "direct" else if s.persistent then "persistent" else "memory"
      let und := if s.persistent then lostPersistent t s.stored else v.undrained
      let unrec := if s.persistent then (lostPersistent t s.recovered).filter (fun x => s.stored.contains x) else []
      -- persistent queue: a flight whose last call failed retryably with retries left can only have been ended by the shutdown:
      -- it has not finished export, its items must still be in storage
      let ends : List EndInfo := s.ends.map (fun e => { call := e.1, failed := e.2.1, perm := e.2.2.1, left := e.2.2.2 })
      let applies := s.persistent && s.retry && t.any isShutReq
      let intr : List Nat := if applies then (interruptedNotStored t ends s.stored).mergeSort (· ≤ ·) else []
      let intrUnrec : List Nat := if applies then (interruptedNotRedelivered t ends s.stored s.recovered).mergeSort (· ≤ ·) else []
      let obs := s!"obs verdict returned={if v.returned then 1 else 0} undrained={showIds und} unrecovered={showIds unrec} interrupted={showIds intr} intrunrec={showIds intrUnrec} dup={showIds v.duplicated} open={showIds v.openCalls} late={showIds v.lateCalls}"
      let pReturned := if v.returned then "prop returns=ok" else s!"prop returns=FAIL sig=C03/shutdown/never-returns queue={kind} batch={s.batch}"
      let pDrained :=
        if !v.returned || und.isEmpty then "prop drained=ok"
        else if s.persistent then s!"prop drained=FAIL sig=C03/persistent/accepted-item-neither-exported-nor-stored items={showIds und} batch={s.batch}"
        else s!"prop drained=FAIL sig=C03/memory/accepted-item-never-exported items={showIds und} batch={s.batch}"
      let pIntr :=
        if !v.returned || intr.isEmpty then "prop interrupted=ok"
        else s!"prop interrupted=FAIL sig=C03/persistent/shutdown-interrupted-item-not-stored items={showIds intr} batch={s.batch}"
      let pIntrRec :=
        if !v.returned || intrUnrec.isEmpty then "prop interrupted_redelivered=ok"
        else s!"prop interrupted_redelivered=FAIL sig=C03/persistent/shutdown-interrupted-item-not-redelivered-by-next-start items={showIds intrUnrec} batch={s.batch}"
      let pRecover :=
        if !v.returned || unrec.isEmpty then "prop redelivered=ok"
        else s!"prop redelivered=FAIL sig=C03/persistent/stored-item-not-redelivered-by-next-start items={showIds unrec} batch={s.batch}"
      let pOnce :=
        if !v.returned || v.duplicated.isEmpty then "prop once=ok"
        else s!"prop once=FAIL sig=C03/{kind}/exported-twice-without-failure items={showIds v.duplicated} batch={s.batch}"
      let pQuiet :=
        if !v.returned then "prop quiet=ok"
        else if !v.openCalls.isEmpty then s!"prop quiet=FAIL sig=C03/quiet/export-call-still-running-at-return calls={showIds v.openCalls} batch={s.batch}"
        else if !v.lateCalls.isEmpty then s!"prop quiet=FAIL sig=C03/quiet/export-call-begins-after-return calls={showIds v.lateCalls} batch={s.batch}"
        else if s.leak > 0 then s!"prop quiet=FAIL sig=C03/quiet/goroutine-left-running n={s.leak} queue={kind} batch={s.batch}"
        else "prop quiet=ok"
      -- the strengthened tie: the recorded trace must be a run of the LTS (hidden steps inferred, every fired label enabled)
      let batching := s.batch != 0
      -- configuration glue: the runtime object the constructors built (reflection) must be what `derive` computes from the options
      let derived : Option OtelVerif.C03.RT := s.ucfg.bind (fun u =>
        OtelVerif.C03.derive { u with numCPU := (s.rtObs.bind (fun r => kvNat r "numcpu")).getD 1 })
      let b01 := fun (b : Bool) => if b then "1" else "0"
      let pDerive :=
        match s.rtObs, s.ucfg with
        | none, _ => "prop derive=skipped"
        | _, none => "prop derive=FAIL sig=C03/harness/no-cfg"
        | some r, some u =>
          let want := match derived with
            | none => s!"qs=0 retry={b01 u.retry}"
            | some rt => s!"qs=1 retry={b01 rt.cfg.retry} persistent={b01 rt.cfg.persistent} wfr={b01 rt.cfg.wfr} consumers={rt.nCons} batching={b01 rt.cfg.batching} workers={rt.workers} timer={b01 rt.timer}"
          let got := " ".intercalate (r.filter (fun t => !t.startsWith "numcpu="))
          if got == want then "prop derive=ok"
          else s!"prop derive=FAIL sig=C03/config/runtime-object-differs-from-derived got={got.replace " " ","} want={want.replace " " ","}"
      let pRefine :=
        if !v.returned || (batching && !s.wrap) || s.direct then "prop refine=skipped"
        else
          let tr := s.tevs.reverse
          -- the LTS starts from the object `derive` computes (when the reflection line is there: checked equal to the real object above)
          let rt : OtelVerif.C03.RT := match s.rtObs, derived with
            | some _, some rt => { rt with cfg := { rt.cfg with itemsSized := s.itemsSized } }
            | _, _ => { cfg := { persistent := s.persistent, batching := batching, retry := s.retry, wfr := s.wfr, itemsSized := s.itemsSized }
                        nCons := if batching then 1 else s.consumers, workers := if batching then 1 else 0, timer := batching }
          let rc : OtelVerif.C03.Replay.RCfg :=
            { cfg := rt.cfg
              nCons := rt.nCons
              workers := rt.workers
              timer := rt.timer
              stored := s.stored
              sends := tr.filterMap (fun e => match e with | .ss rid ids => some (rid, ids) | _ => none) }
          let rs := OtelVerif.C03.Replay.replay rc tr
          match rs.err with
          | none => s!"prop refine=ok steps={rs.steps}"
          | some (k, d) => s!"prop refine=FAIL sig=C03/refinement/{k} {d.replace " " "_"}"
      let pStore := match s.uac with
        | some op => s!"prop storage=FAIL sig=C03/persistent/storage-used-after-close op={op}"
        | none => "prop storage=ok"
      [obs, pReturned, pDrained, pIntr, pIntrRec, pRecover, pOnce, pQuiet, pStore, pRefine, pDerive]

end OtelVerif.Drivers.C03

def main : IO UInt32 :=
  runMulti [("c03-shutdown", run OtelVerif.Drivers.C03.handler)]
