import OtelVerif.Common.Line
import OtelVerif.Model.C03
/-! driver for C03: model `c03-shutdown` — the Lean monitor `C03.verdict` evaluated on the recorded trace of the real exporter -/
open OtelVerif OtelVerif.Line OtelVerif.C03

namespace OtelVerif.Drivers.C03

def parseIds (s : String) : Option (List Nat) :=
  if s = "-" then some [] else (s.splitOn ",").mapM String.toNat?

def showIds (l : List Nat) : String :=
  if l.isEmpty then "-" else ",".intercalate (l.map toString)

structure S where
  persistent : Bool := false
  batch : Nat := 0
  haveCfg : Bool := false
  evs : List Ev := []          -- reversed
  recovered : List Nat := []
  stored : List Nat := []
  leak : Nat := 0
  uac : Option String := none
  skipped : Bool := false
  bad : Option String := none

def handler : Handler S where
  init := {}
  onOp := fun s toks =>
    match toks with
    | "cfg" :: rest =>
      match kvNat rest "persistent", kvNat rest "batch", kvNat rest "queue", kvNat rest "retry", kvNat rest "consumers" with
      | some p, some b, some _, some _, some _ => ({ s with persistent := p == 1, batch := b, haveCfg := true }, [])
      | _, _, _, _, _ => (s, ["obs bad-op"])
    | ["act", at_, "shutdown"] => if at_.toNat?.isSome then (s, []) else (s, ["obs bad-op"])
    | ["act", at_, "send", rid, n] =>
      if at_.toNat?.isSome && rid.toNat?.isSome && n.toNat?.isSome then (s, []) else (s, ["obs bad-op"])
    | ["backend", i, d, o] =>
      if i.toNat?.isSome && d.toNat?.isSome && o.toNat?.isSome then (s, []) else (s, ["obs bad-op"])
    | _ => (s, ["obs bad-op"])
  onObs := fun s toks =>
    match toks with
    | ["tr", "acc", _, ids] =>
      match parseIds ids with
      | some is => { s with evs := Ev.acc is :: s.evs }
      | none => { s with bad := some "acc" }
    | ["tr", "rej", _, _] => s
    | ["tr", "shutreq"] => { s with evs := Ev.shutReq :: s.evs }
    | ["tr", "shutret", _] => { s with evs := Ev.shutRet :: s.evs }
    | ["tr", "es", c, ids] =>
      match c.toNat?, parseIds ids with
      | some c, some is => { s with evs := Ev.es c is :: s.evs }
      | _, _ => { s with bad := some "es" }
    | ["tr", "ee", c, f] =>
      match c.toNat?, f.toNat? with
      | some c, some f => { s with evs := Ev.ee c (f == 1) :: s.evs }
      | _, _ => { s with bad := some "ee" }
    | ["tr", "wshut"] => s
    | ["tr", "uac", op] => { s with uac := some op }
    | ["tr", "stored", ids] =>
      match parseIds ids with
      | some is => { s with stored := is }
      | none => { s with bad := some "stored" }
    | ["tr", "recovered", ids] =>
      match parseIds ids with
      | some is => { s with recovered := is }
      | none => { s with bad := some "recovered" }
    | ["tr", "leak", n] =>
      match n.toInt? with
      | some n => { s with leak := n.toNat }
      | none => { s with bad := some "leak" }
    | "tr" :: "builderr" :: _ => { s with skipped := true }
    | "tr" :: _ => { s with bad := some "unknown tr line" }
    | _ => s
  onEnd := fun s =>
    if s.skipped then ["obs skipped"] else
    match s.bad with
    | some b => [s!"obs unparsable {b}", s!"prop trace=FAIL sig=C03/harness/unparsable {b}"]
    | none =>
      let t := s.evs.reverse
      let v := verdict t
      let kind := if s.persistent then "persistent" else "memory"
      let und := if s.persistent then lostPersistent t s.stored else v.undrained
      let unrec := if s.persistent then (lostPersistent t s.recovered).filter (fun x => s.stored.contains x) else []
      let obs := s!"obs verdict returned={if v.returned then 1 else 0} undrained={showIds und} unrecovered={showIds unrec} dup={showIds v.duplicated} open={showIds v.openCalls} late={showIds v.lateCalls}"
      let pReturned := if v.returned then "prop returns=ok" else s!"prop returns=FAIL sig=C03/shutdown/never-returns queue={kind} batch={s.batch}"
      let pDrained :=
        if !v.returned || und.isEmpty then "prop drained=ok"
        else if s.persistent then s!"prop drained=FAIL sig=C03/persistent/accepted-item-neither-exported-nor-stored items={showIds und} batch={s.batch}"
        else s!"prop drained=FAIL sig=C03/memory/accepted-item-never-exported items={showIds und} batch={s.batch}"
      let pRecover :=
        if !v.returned || unrec.isEmpty then "prop redelivered=ok"
        else s!"prop redelivered=FAIL sig=C03/persistent/stored-item-not-redelivered-by-next-start items={showIds unrec} batch={s.batch}"
      let pOnce :=
        if !v.returned || v.duplicated.isEmpty then "prop once=ok"
        else s!"prop once=FAIL sig=C03/{kind}/exported-twice-without-failure items={showIds v.duplicated} batch={s.batch}"
      let pQuiet :=
        if !v.returned then "prop quiet=ok"
        else if !v.openCalls.isEmpty then s!"prop quiet=FAIL sig=C03/quiet/export-call-still-running-at-return calls={showIds v.openCalls} batch={s.batch}"
        else if !v.lateCalls.isEmpty then s!"prop quiet=FAIL sig=C03/quiet/export-call-begins-after-return calls={showIds v.lateCalls} batch={s.batch}"
        else if s.leak > 0 then s!"prop quiet=FAIL sig=C03/quiet/goroutine-left-running n={s.leak} queue={kind} batch={s.batch}"
        else "prop quiet=ok"
      let pStore := match s.uac with
        | some op => s!"prop storage=FAIL sig=C03/persistent/storage-used-after-close op={op}"
        | none => "prop storage=ok"
      [obs, pReturned, pDrained, pRecover, pOnce, pQuiet, pStore]

end OtelVerif.Drivers.C03

def main : IO UInt32 :=
  runMulti [("c03-shutdown", run OtelVerif.Drivers.C03.handler)]
