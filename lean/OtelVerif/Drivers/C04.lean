import OtelVerif.Common.Line
import OtelVerif.Model.C04
import OtelVerif.Gen.C04Config
/-! driver for C04: models `c04-ms` (MergeSplit, exact differential) and `c04-batcher` -/
open OtelVerif OtelVerif.Line OtelVerif.Payload OtelVerif.C04

namespace OtelVerif.Drivers.C04

def keep : Bool := OtelVerif.Gen.C04Shape.metricFragmentKeepsIdentity

/-- one output request as printed by both sides -/
structure OutReq where
  cs : Int
  sz : Int
  toks : List String

inductive Inp where
  | none
  | logs (sig : String) (sz : Sizer) (max : Int) (p : List Res)
  | metrics (sz : Sizer) (max : Int) (p : List MRes)

/-- the receiver's elements (id, weight in items) and whether there was a second request: for the oracle of the
criterion `Consume` uses on the results of a real MergeSplit -/
structure Split where
  r1 : List (Nat × Nat) := []
  r2 : List (Nat × Nat) := []
  merged : Bool := false

structure MS where
  inp : Inp := .none
  impl : List OutReq := []     -- reversed
  implDiverged : Bool := false
  bad : Option String := none
  split : Split := {}

/-- `Consume` decides with `ItemsCount(first result) > ItemsCount(pending batch)` whether the first result holds part of
the new request.  Checked on the REAL results (ids; elements that weigh no item - a profile without samples - hold nothing
that counts; cases with id-less zero-length elements are skipped: their ids do not tell the two requests apart). -/
def checkCriterion (name : String) (sp : Split) (first : List (Nat × Nat)) : List String :=
  if !sp.merged || (sp.r1 ++ sp.r2).any (fun x => x.1 == 0) then [] else
  let w := fun (l : List (Nat × Nat)) => (l.map (·.2)).sum
  let holdsNew := first.any (fun x => x.2 > 0 && sp.r2.any (fun y => y.1 == x.1))
  let grew := w first > w sp.r1
  [ if holdsNew == grew then "prop criterion=ok"
    else s!"prop criterion=FAIL sig=C04/mergesplit/first-result-criterion-wrong/{name} items_first={w first} items_pending={w sp.r1} holds_new={holdsNew}" ]

def showReqs {P : Type} (o : Ops P) (showP : P → String) (rs : Option (List (Req P))) (keepsReceiver : Bool := true) : List String :=
  match rs with
  | Option.none => ["obs diverge"]
  | some rs =>
    s!"obs n {rs.length}" :: (rs.zipIdx.map (fun (r, i) => s!"obs req {i} cs={r.cached} sz={o.size r.p} | {showP r.p}")) ++
      -- `res = append(res, req)`: the receiver is mutated and returned as the LAST result (the batcher reads it back)
      -- (not when `split()` found the receiver emptied: then it is not returned at all)
      [s!"obs last_is_receiver {if keepsReceiver then 1 else 0}"]

def parseSizer (s : String) : Option Sizer :=
  if s = "items" then some ⟨false⟩ else if s = "bytes" then some ⟨true⟩ else Option.none

def szName (sz : Sizer) : String := if sz.bytes then "bytes" else "items"

/-- property oracle on the implementation's output (independent of the model's output).  Signatures are structural:
`<clause>/<signal>-<sizer>` so that an open finding about one signal/sizer never hides another one. -/
def checkLogs (sig : String) (sz : Sizer) (max : Int) (src : List Res) (outs : List OutReq) : List String :=
  match outs.mapM (fun o => Codec.parsePayload o.toks) with
  | Option.none => ["prop conserve=FAIL sig=C04/mergesplit/unparsable-output"]
  | some ps =>
    let a := ps.flatMap flatten
    let b := flatten src
    let ids := fun (l : List Ctx) => l.map (·.2.2.id)
    [ if permB a b then "prop conserve=ok"
      else if permB (ids a) (ids b) then s!"prop conserve=FAIL sig=C04/mergesplit/item-context-changed/{sig}-{szName sz}"
      else s!"prop conserve=FAIL sig=C04/mergesplit/items-lost-or-duplicated/{sig}-{szName sz}",
      -- FIFO: the results, concatenated, list the items in arrival order, receiver first (what `Consume` relies on)
      if ids a == ids b then "prop fifo=ok" else s!"prop fifo=FAIL sig=C04/mergesplit/not-fifo/{sig}-{szName sz}",
      -- items that weigh nothing in the configured unit (a profile without samples under the items sizer) do not count
      match (outs.zip ps).find? (fun (o, p) => max != 0 && o.sz > max && ((flatten p).filter (fun c => itemSize sz c.2.2 > 0)).length > 1) with
      | some (o, p) =>
        -- elements whose own encoding is empty still take tag + length inside their parent: named separately
        let zl := if sz.bytes && (flatten p).any (fun c => c.2.2.bsz == 0) then "-zero-length-elements" else ""
        s!"prop bound=FAIL sig=C04/mergesplit/batch-exceeds-max/{sig}-{szName sz}{zl} size={o.sz} max={max} items={(flatten p).length}"
      | Option.none => "prop bound=ok",
      match (outs.zip ps).find? (fun (o, p) => o.cs != -1 && o.cs != payloadSize sz p) with
      | some (o, p) => s!"prop cached=FAIL sig=C04/mergesplit/cached-size-wrong/{sig}-{szName sz} cached={o.cs} size={payloadSize sz p}"
      | Option.none => "prop cached=ok" ]

/-- the metric the pinned `extract*DataPoints` leave in a batch when no data point fitted: typed, no points, and
none of name / unit / description / metadata (the generator always names its metrics) -/
def isEmptyFragment (m : Metric) : Bool :=
  m.points.isEmpty && m.mmeta.ty != 0 && m.mmeta.name == 0 && m.mmeta.unit == 0 && m.mmeta.desc == 0 &&
  m.mmeta.md == 0 && m.mmeta.base == 0

/-- the payload without those fragments and without the scope / resource copies that are in the batch only because
of them -/
def stripFragments (p : List MRes) : List MRes :=
  p.filterMap (fun r =>
    let scopes := r.scopes.filterMap (fun s =>
      let ms := s.metrics.filter (fun m => !isEmptyFragment m)
      if ms.isEmpty && !s.metrics.isEmpty then Option.none else some { s with metrics := ms })
    if scopes.isEmpty && !r.scopes.isEmpty then Option.none else some { r with scopes := scopes })

def hasFragment (p : List MRes) : Bool := p.any (fun r => r.scopes.any (fun s => s.metrics.any isEmptyFragment))

/-- a data point whose context differs from the source only by the metric being the anonymous typed fragment of the
pinned code (same resource, scope, both schema URLs, same type) -/
def anonymousFragmentOf (src out : MCtx) : Bool :=
  src.1 == out.1 && src.2.1 == out.2.1 && src.2.2.2 == out.2.2.2 &&
  (src.2.2.1 == out.2.2.1 || out.2.2.1 == { zeroMMeta with ty := src.2.2.1.ty })

def checkMetrics (sz : Sizer) (max : Int) (src : List MRes) (outs : List OutReq) : List String :=
  match outs.mapM (fun o => Codec.parseMPayload o.toks) with
  | Option.none => ["prop conserve=FAIL sig=C04/mergesplit/unparsable-output"]
  | some ps =>
    let a := ps.flatMap mflatten
    let b := mflatten src
    let ids := fun (l : List MCtx) => l.map (·.2.2.2.id)
    let over := (outs.zip ps).filter (fun (o, p) => max != 0 && o.sz > max && (mflatten p).length > 1)
    -- explained = bytes sizer, the batch holds empty fragments, and without them (and the containers copied for them) it fits
    let explained := fun (x : OutReq × List MRes) => sz.bytes && hasFragment x.2 && mpayloadSize sz (stripFragments x.2) ≤ max
    [ if permB a b then "prop conserve=ok"
      else if permB (ids a) (ids b) then
        if a.all (fun o => b.any (fun s => s.2.2.2.id == o.2.2.2.id && anonymousFragmentOf s o)) then
          s!"prop conserve=FAIL sig=C04/mergesplit/metric-identity-lost/anonymous-split-off-fragment"
        else s!"prop conserve=FAIL sig=C04/mergesplit/point-context-changed/metrics-{szName sz}"
      else s!"prop conserve=FAIL sig=C04/mergesplit/points-lost-or-duplicated/metrics-{szName sz}",
      if ids a == ids b then "prop fifo=ok" else s!"prop fifo=FAIL sig=C04/mergesplit/not-fifo/metrics-{szName sz}",
      match over.find? (fun x => !explained x), over.head? with
      | some (o, p), _ =>
        let zl := if sz.bytes && (mflatten p).any (fun c => c.2.2.2.bsz == 0) then "-zero-length-elements" else ""
        s!"prop bound=FAIL sig=C04/mergesplit/batch-exceeds-max/metrics-{szName sz}{zl} size={o.sz} max={max} items={(mflatten p).length}"
      | Option.none, some (o, p) =>
        s!"prop bound=FAIL sig=C04/mergesplit/batch-exceeds-max/metrics-bytes-empty-fragment size={o.sz} max={max} without_fragments={mpayloadSize sz (stripFragments p)}"
      | Option.none, Option.none => "prop bound=ok",
      -- the bytes accounting of a metric cut in two is an upper bound (the data message's own length prefix may shrink)
      match (outs.zip ps).find? (fun (o, p) => o.cs != -1 && (if sz.bytes then o.cs < mpayloadSize sz p else o.cs != mpayloadSize sz p)) with
      | some (o, p) => s!"prop cached=FAIL sig=C04/mergesplit/cached-size-wrong/metrics-{szName sz} cached={o.cs} size={mpayloadSize sz p}"
      | Option.none => "prop cached=ok" ]

def msHandler : Handler MS where
  init := {}
  onOp := fun s toks =>
    match toks with
    | "delta" :: n :: [] =>
      match n.toInt? with
      | some n => (s, [s!"obs delta {(Sizer.delta ⟨true⟩ n)}"])
      | Option.none => (s, ["obs bad-op"])
    | "ms" :: rest =>
      let parts := Codec.bars rest
      match parts with
      | [hdr, t1, t2] =>
        match kv hdr "sig", (kv hdr "sizer").bind parseSizer, kvInt hdr "max", kvInt hdr "c1", kv hdr "c2" with
        | some sig, some sz, some max, some c1, some c2 =>
          let c2? : Option (Option Int) := if c2 = "none" then some Option.none else (c2.toInt?).map some
          match c2? with
          | Option.none => (s, ["obs bad-op"])
          | some c2 =>
            if sig = "metrics" then
              match Codec.parseMPayload t1, Codec.parseMPayload t2 with
              | some p1, some p2 =>
                let o := metricsOps keep sz
                let r := mergeSplit o max { p := p1, cached := c1 } (c2.map (fun c => { p := p2, cached := c }))
                let iw := fun (p : List MRes) => (mflatten p).map (fun c => (c.2.2.2.id, 1))
                ({ s with inp := .metrics sz max (p1 ++ p2), split := ⟨iw p1, iw p2, c2.isSome⟩ }, showReqs o Codec.showMPayload r (mergeSplitKeepsReceiver o max { p := p1, cached := c1 } (c2.map (fun c => { p := p2, cached := c }))))
              | _, _ => (s, ["obs bad-op"])
            else
              match Codec.parsePayload t1, Codec.parsePayload t2 with
              | some p1, some p2 =>
                let o := logsOps sz
                let r := mergeSplit o max { p := p1, cached := c1 } (c2.map (fun c => { p := p2, cached := c }))
                let iw := fun (p : List Res) => (flatten p).map (fun c => (c.2.2.id, c.2.2.w))
                ({ s with inp := .logs sig sz max (p1 ++ p2), split := ⟨iw p1, iw p2, c2.isSome⟩ }, showReqs o Codec.showPayload r (mergeSplitKeepsReceiver o max { p := p1, cached := c1 } (c2.map (fun c => { p := p2, cached := c }))))
              | _, _ => (s, ["obs bad-op"])
        | _, _, _, _, _ => (s, ["obs bad-op"])
      | _ => (s, ["obs bad-op"])
    | _ => (s, ["obs bad-op"])
  onObs := fun s toks =>
    match toks with
    | _ :: "req" :: _ :: rest =>
      match Codec.bars rest with
      | [hdr, t] =>
        match kvInt hdr "cs", kvInt hdr "sz" with
        | some cs, some sz => { s with impl := ⟨cs, sz, t⟩ :: s.impl }
        | _, _ => { s with bad := some "unparsable req line" }
      | _ => { s with bad := some "unparsable req line" }
    | [_, "diverge"] => { s with implDiverged := true }
    | _ => s
  onEnd := fun s =>
    if s.implDiverged then
      [match s.inp with
       | .logs sig sz _ _ => s!"prop terminates=FAIL sig=C04/mergesplit/does-not-terminate/{sig}-{szName sz}"
       | .metrics sz _ _ => s!"prop terminates=FAIL sig=C04/mergesplit/does-not-terminate/metrics-{szName sz}"
       | .none => "prop terminates=FAIL sig=C04/mergesplit/does-not-terminate"] else
    match s.bad with
    | some b => [s!"prop conserve=FAIL sig=C04/mergesplit/unparsable-output {b}"]
    | Option.none =>
      match s.inp with
      | .none => []
      | .logs sig sz max p =>
        checkLogs sig sz max p s.impl.reverse ++
          (match s.impl.reverse.head?.bind (fun o => Codec.parsePayload o.toks) with
           | some f => checkCriterion s!"{sig}-{szName sz}" s.split ((flatten f).map (fun c => (c.2.2.id, c.2.2.w)))
           | Option.none => [])
      | .metrics sz max p =>
        checkMetrics sz max p s.impl.reverse ++
          (match s.impl.reverse.head?.bind (fun o => Codec.parseMPayload o.toks) with
           | some f => checkCriterion s!"metrics-{szName sz}" s.split ((mflatten f).map (fun c => (c.2.2.2.id, 1)))
           | Option.none => [])

/-! ### batcher -/

def showParts (p : Parts) : String :=
  if p.isEmpty then "-" else ",".intercalate (p.map (fun (id, n) => s!"{id}:{n}"))

def parseParts (s : String) : Option Parts :=
  if s = "-" then some [] else
  (s.splitOn ",").mapM (fun x => match x.splitOn ":" with
    | [a, b] => do pure (← a.toNat?, ← b.toNat?)
    | _ => Option.none)

def sortStrings (l : List String) : List String := l.mergeSort (fun a b => a ≤ b)

/-- implementation-side view for the oracle -/
structure IFlight where
  fid : Nat
  ids : List Nat
  finished : Option Err := none   -- some outcome
  ids0 : List Nat := []           -- e2e only: requests present with an item-less resource shell only

def parseKind (k : Nat) : Option Err :=
  match k with
  | 0 => some {}
  | 1 => some { plain := true }
  | 2 => some { shut := true }
  | _ => Option.none

def b01 (b : Bool) : Nat := if b then 1 else 0

structure BS where
  cfg : BCfg := ⟨0, 0⟩
  st : BState := {}
  consumed : List Nat := []
  iflights : List IFlight := []
  ifired : List (Nat × Err) := []
  fails : List String := []
  lastFinish : Option (Nat × Err) := none
  pendingDisabled : Option Err := none
  mon : Bool := false

def startFlights (s : BS) (fl : List (Parts × List DoneObj)) : BS × List String :=
  -- the harness numbers the flushes started by one label in the order of their content
  let sorted := (fl.map (fun x => (showParts x.1, x))).mergeSort (fun a b => a.1 ≤ b.1)
  let (st, lines) := sorted.foldl (fun (acc : BState × List String) x =>
    let st := acc.1
    ({ st with flights := st.flights ++ [⟨st.nextF, x.2.1, x.2.2⟩], nextF := st.nextF + 1 },
     acc.2 ++ [s!"obs flush f={st.nextF} parts={x.1}"])) (s.st, [])
  ({ s with st := st }, lines)

def showCur (s : BS) : String :=
  match s.st.cur with
  | some (p, _) => s!"obs cur {showParts p}"
  | Option.none => "obs cur none"

def showFired (l : List (Nat × Err)) : List String :=
  sortStrings (l.map (fun (id, e) => s!"obs fired id={id} err={b01 e.any} plain={b01 e.plain} shut={b01 e.shut}"))

def batcherHandler : Handler BS where
  init := {}
  onOp := fun s toks =>
    match toks with
    | ["cfg", mn, mx] =>
      match kvNat [mn] "min", kvNat [mx] "max" with
      | some mn, some mx => ({ s with cfg := ⟨mn, mx⟩ }, ["obs done"])
      | _, _ => (s, ["obs bad-op"])
    | ["cfgraw", ft, mn, mx] =>
      -- a RAW BatchConfig: the verdict of the regenerated `(*BatchConfig).Validate` rules
      match kvInt [ft] "ft", kvInt [mn] "min", kvInt [mx] "max" with
      | some ft, some mn, some mx =>
        if !OtelVerif.C04.Config.rulesKnown OtelVerif.C04.Config.batchEnvFields OtelVerif.Gen.C04Config.batchRules then (s, ["obs bad-op"]) else
        (s, [s!"obs valid={b01 (OtelVerif.C04.Config.runRules (OtelVerif.C04.Config.BatchRaw.env (some ⟨ft, mn, mx⟩)) OtelVerif.Gen.C04Config.batchRules)}"])
      | _, _, _ => (s, ["obs bad-op"])
    | ["consume", id, us] =>
      match kvNat [id] "id", (kv [us] "units").bind (fun u => (u.splitOn ",").mapM String.toNat?) with
      | some id, some us =>
        let r := s.st.consume s.cfg id (us.map (fun n => (id, n)))
        let (s', lines) := startFlights { s with st := r.1, consumed := s.consumed ++ [id] } r.2
        (s', lines ++ [showCur s'])
      | _, _ => (s, ["obs bad-op"])
    | ["finish", f, kind] =>
      match kvNat [f] "f", (kvNat [kind] "kind").bind parseKind with
      | some f, some e =>
        let r := s.st.finish f e
        let s' := { s with st := r.1, lastFinish := some (f, e) }
        (s', showFired r.2 ++ [showCur s'])
      | _, _ => (s, ["obs bad-op"])
    | ["dconsume", id, us, kind] =>
      -- disabled batcher: one synchronous flush per request
      match kvNat [id] "id", (kv [us] "units").bind (fun u => (u.splitOn ",").mapM String.toNat?), (kvNat [kind] "kind").bind parseKind with
      | some id, some us, some e =>
        let f := s.st.nextF
        let s' := { s with st := { s.st with nextF := f + 1 }, consumed := s.consumed ++ [id], pendingDisabled := some e }
        (s', [s!"obs flush f={f} parts={showParts (us.map (fun n => (id, n)))}"] ++ showFired (consumeDisabled id e) ++ ["obs cur none"])
      | _, _, _ => (s, ["obs bad-op"])
    | ["tick"] | ["shutdown"] =>
      let r := s.st.flushCur
      let (s', lines) := startFlights { s with st := r.1 } r.2
      (s', lines ++ [showCur s'])
    | _ => (s, ["obs bad-op"])
  onObs := fun s toks =>
    -- a `finish` label takes effect on the oracle's view before the implementation's `fired` lines are judged
    let s := match s.lastFinish with
      | some (f, err) => { s with lastFinish := Option.none,
                                   iflights := s.iflights.map (fun g => if g.fid = f then { g with finished := some err } else g) }
      | Option.none => s
    match toks with
    | [_, "flush", f, parts] =>
      match kvNat [f] "f", (kv [parts] "parts").bind parseParts with
      | some f, some p => { s with iflights := s.iflights ++ [{ fid := f, ids := (p.map (·.1)).eraseDups, finished := s.pendingDisabled }],
                                   pendingDisabled := Option.none }
      | _, _ => { s with fails := s.fails ++ ["prop done=FAIL sig=C04/batcher/unparsable-flush"] }
    | [_, "fired", id, err, plain, shut] =>
      match kvNat [id] "id", kvNat [err] "err", kvNat [plain] "plain", kvNat [shut] "shut" with
      | some id, some err, some plain, some shut =>
        let mine := s.iflights.filter (fun g => g.ids.contains id)
        let got : Err := { plain := plain == 1, shut := shut == 1 }
        let want : Err := mine.foldl (fun acc g => acc.or (g.finished.getD {})) {}
        let s := { s with ifired := s.ifired ++ [(id, got)] }
        if (s.ifired.filter (·.1 = id)).length > 1 then
          { s with fails := s.fails ++ [s!"prop done=FAIL sig=C04/batcher/done-fired-twice id={id}"] }
        else if mine.any (fun g => g.finished.isNone) then
          { s with fails := s.fails ++ [s!"prop done=FAIL sig=C04/batcher/done-before-all-batches-finished id={id}"] }
        else if mine.isEmpty then
          { s with fails := s.fails ++ [s!"prop done=FAIL sig=C04/batcher/done-without-any-batch id={id}"] }
        else if (err == 1) != want.any then
          { s with fails := s.fails ++ [s!"prop done=FAIL sig=C04/batcher/done-error-mismatch id={id} reported={err}"] }
        else if got != want then
          -- an error is reported, but not every failed part's classification survived the combination
          { s with fails := s.fails ++ [s!"prop done=FAIL sig=C04/batcher/done-error-classification-lost id={id} got_plain={plain} got_shutdown={shut} want_plain={b01 want.plain} want_shutdown={b01 want.shut}"] }
        else s
      | _, _, _, _ => { s with fails := s.fails ++ ["prop done=FAIL sig=C04/batcher/unparsable-fired"] }
    | _ => s
  onEnd := fun s =>
    -- conservation through the batcher: every unit of every consumed request left in exactly one flush
    let missing := s.consumed.filter (fun id => !(s.ifired.any (·.1 = id)))
    (match s.fails with
     | f :: _ => [f]
     | [] => ["prop done=ok"]) ++
    (if missing.isEmpty then ["prop all_fired=ok"] else [s!"prop all_fired=FAIL sig=C04/batcher/done-never-fired ids={missing}"])


/-- `c04-e2e`: the real queue + default batcher with REAL requests (real MergeSplit).  `mon=0` (logs, items sizer): exact
differential against the batcher model (the pending batch is not observable from outside: `obs cur` lines dropped);
`mon=1`: the implementation's `tr` lines are only judged by the Done oracle above. -/
def e2eHandler : Handler BS where
  init := {}
  onCase := fun s toks => { s with mon := kv toks "mon" == some "1" }
  onOp := fun s toks =>
    if s.mon then
      match toks with
      | ["cfg", _, _] => (s, ["obs done"])
      | ["consume", id, _] =>
        match kvNat [id] "id" with
        | some id => ({ s with consumed := s.consumed ++ [id] }, [])
        | Option.none => (s, ["obs bad-op"])
      | ["finish", f, kind] =>
        match kvNat [f] "f", (kvNat [kind] "kind").bind parseKind with
        | some f, some e => ({ s with lastFinish := some (f, e) }, [])
        | _, _ => (s, ["obs bad-op"])
      | ["tick"] | ["shutdown"] => (s, [])
      | _ => (s, ["obs bad-op"])
    else
      let r := batcherHandler.onOp s toks
      (r.1, r.2.filter (fun l => !l.startsWith "obs cur"))
  onObs := fun s toks =>
    let s := match s.lastFinish with
      | some (f, err) => { s with lastFinish := Option.none,
                                   iflights := s.iflights.map (fun g => if g.fid = f then { g with finished := some err } else g) }
      | Option.none => s
    match toks with
    | [_, "flush", f, parts] =>
      match kvNat [f] "f", (kv [parts] "parts").bind parseParts with
      | some f, some p =>
        -- `ids`: requests with an ITEM in the batch (its outcome MUST reach them); `ids0`: requests of which the batch holds
        -- only an emptied resource shell (its outcome MAY reach them: `C04_done_covers_all_parts` asks a Done only for
        -- units that weigh something, `C04_done_only_own_parts` allows a Done for any unit)
        let pos := ((p.filter (fun u => u.2 > 0)).map (·.1)).eraseDups
        let zero := ((p.map (·.1)).eraseDups).filter (fun i => !pos.contains i)
        { s with iflights := s.iflights ++ [{ fid := f, ids := pos, ids0 := zero }] }
      | _, _ => { s with fails := s.fails ++ ["prop done=FAIL sig=C04/batcher/unparsable-flush"] }
    | [_, "fired", id, err, plain, shut] =>
      match kvNat [id] "id", kvNat [err] "err", kvNat [plain] "plain", kvNat [shut] "shut" with
      | some id, some err, some plain, some shut =>
        let must := s.iflights.filter (fun g => g.ids.contains id)
        let may := s.iflights.filter (fun g => g.ids0.contains id)
        let got : Err := { plain := plain == 1, shut := shut == 1 }
        let lo : Err := must.foldl (fun acc g => acc.or (g.finished.getD {})) {}
        let hi : Err := may.foldl (fun acc g => acc.or (g.finished.getD {})) lo
        let sub := fun (a b : Err) => (!a.plain || b.plain) && (!a.shut || b.shut)
        let s := { s with ifired := s.ifired ++ [(id, got)] }
        if (s.ifired.filter (·.1 = id)).length > 1 then
          { s with fails := s.fails ++ [s!"prop done=FAIL sig=C04/batcher/done-fired-twice id={id}"] }
        else if must.any (fun g => g.finished.isNone) then
          { s with fails := s.fails ++ [s!"prop done=FAIL sig=C04/batcher/done-before-all-batches-finished id={id}"] }
        else if must.isEmpty && may.isEmpty then
          { s with fails := s.fails ++ [s!"prop done=FAIL sig=C04/batcher/done-without-any-batch id={id}"] }
        else if (err == 1) != got.any || (lo.any && !got.any) || (got.any && !hi.any) then
          { s with fails := s.fails ++ [s!"prop done=FAIL sig=C04/batcher/done-error-mismatch id={id} reported={err}"] }
        else if !(sub lo got && sub got hi) then
          { s with fails := s.fails ++ [s!"prop done=FAIL sig=C04/batcher/done-error-classification-lost id={id} got_plain={plain} got_shutdown={shut} want_plain={b01 lo.plain} want_shutdown={b01 lo.shut}"] }
        else s
      | _, _, _, _ => { s with fails := s.fails ++ ["prop done=FAIL sig=C04/batcher/unparsable-fired"] }
    | _ => s
  onEnd := batcherHandler.onEnd

/-! ### configuration glue (`c04-config`): regenerated validation rules, `newQueueBatchConfig`, `newQueueBatch` -/

open OtelVerif.C04.Config in
structure CS where
  fails : List String := []
  implValid : Bool := false
  mergeIn : Option (QRaw × LegacyRaw) := none

namespace Cfg
open OtelVerif.C04.Config OtelVerif.Gen.C04Config

def bool? (toks : List String) (k : String) : Option Bool :=
  match kvNat toks k with
  | some 0 => some false
  | some 1 => some true
  | _ => Option.none

def parseQ (toks : List String) : Option QRaw := do
  let hasBatch ← bool? toks "batch"
  let b : BatchRaw := ⟨← kvInt toks "ft", ← kvInt toks "min", ← kvInt toks "max"⟩
  pure { enabled := ← bool? toks "en", waitForResult := ← bool? toks "wfr", sizer := ← kvInt toks "sizer",
         queueSize := ← kvInt toks "qsize", blockOnOverflow := ← bool? toks "boo", storage := ← bool? toks "storage",
         numConsumers := ← kvInt toks "ncons", batch := if hasBatch then some b else Option.none }

def parseL (toks : List String) : Option LegacyRaw := do
  pure { enabled := ← bool? toks "len", flushTimeout := ← kvInt toks "lft", sizer := ← kvInt toks "lsizer",
         min := ← kvInt toks "lmin", max := ← kvInt toks "lmax" }

def showQ (q : QRaw) : String :=
  let b := q.batch.getD ⟨0, 0, 0⟩
  s!"en={b01 q.enabled} wfr={b01 q.waitForResult} sizer={q.sizer} qsize={q.queueSize} boo={b01 q.blockOnOverflow} storage={b01 q.storage} ncons={q.numConsumers} batch={b01 q.batch.isSome} ft={b.flushTimeout} min={b.min} max={b.max}"

def showBuilt : Built → String
  | .unsupportedSizer => "obs built kind=err"
  | .disabled _ => "obs built kind=disabled"
  | .dflt sz b w => s!"obs built kind=dflt sizer={sz} ft={b.flushTimeout} min={b.min} max={b.max} workers={w}"

def parseBuilt (toks : List String) : Option Built :=
  match kv toks "kind" with
  | some "err" => some .unsupportedSizer
  | some "disabled" => some (.disabled 1)
  | some "dflt" => do
    pure (.dflt (← kvInt toks "sizer") ⟨← kvInt toks "ft", ← kvInt toks "min", ← kvInt toks "max"⟩ (← kvInt toks "workers"))
  | _ => Option.none

def showFields (tag : String) (d : List (String × Int)) : String :=
  s!"obs {tag} " ++ " ".intercalate (d.map (fun (k, v) => s!"{k}={v}"))

/-- the environments answer for every field the regenerated rules read (else the driver refuses to judge) -/
def rulesOK : Bool :=
  rulesKnown batchEnvFields batchRules && rulesKnown queueEnvFields queueRules && rulesKnown legacyEnvFields legacyRules

end Cfg

open OtelVerif.C04.Config OtelVerif.Gen.C04Config in
def configHandler : Handler CS where
  init := {}
  onOp := fun s toks =>
    if !Cfg.rulesOK then (s, ["obs bad-op"]) else
    match toks with
    | "qb" :: rest =>
      -- queuebatch package: Config.Validate, BatchConfig.Validate, newQueueBatch(set, cfg, next, old)
      match Cfg.parseQ rest, Cfg.bool? rest "old", (kv rest "sizers").map (fun x => x.toList.filterMap (fun c => c.toString.toInt?)) with
      | some q, some old, some sizers =>
        let vq := runRules q.env queueRules
        let vb := runRules (BatchRaw.env q.batch) batchRules
        let lines := [s!"obs valid q={b01 vq} b={b01 vb}"]
        if q.enabled && vb && (vq || old && q.batch.isSome) then (s, lines ++ [Cfg.showBuilt (newQueueBatch sizers q old)]) else (s, lines)
      | _, _, _ => (s, ["obs bad-op"])
    | "merge" :: rest =>
      -- internal package: BatcherConfig.Validate, newQueueBatchConfig(qCfg, bCfg)
      match Cfg.parseQ rest, Cfg.parseL rest, kvInt rest "maxint", kvInt rest "numcpu" with
      | some q, some l, some mi, some nc =>
        ({ s with mergeIn := some (q, l) }, [s!"obs lvalid={b01 (runRules l.env legacyRules)}", "obs merged " ++ Cfg.showQ (newQueueBatchConfig q l mi nc)])
      | _, _, _, _ => (s, ["obs bad-op"])
    | ["defaults"] => (s, [Cfg.showFields "defq" defaultQueue, Cfg.showFields "defl" defaultLegacy])
    | _ => (s, ["obs bad-op"])
  onObs := fun s toks =>
    match toks with
    | _ :: "valid" :: rest => { s with implValid := kvNat rest "b" == some 1 }
    | _ :: "merged" :: rest =>
      -- the deprecated batcher configuration, when enabled, is what the batcher enforces: its limits reach the merged
      -- configuration unchanged; when it is not enabled the queue configuration is used as written
      match s.mergeIn, Cfg.parseQ rest with
      | some (q, l), some m =>
        let want : Option BatchRaw := if l.enabled then some ⟨l.flushTimeout, l.min, l.max⟩ else q.batch
        if m.batch != want then
          { s with fails := s.fails ++ [s!"prop accepted_cfg=FAIL sig=C04/config/configured-batch-limits-not-applied {" ".intercalate rest}"] }
        else if !l.enabled && m != q then
          { s with fails := s.fails ++ [s!"prop accepted_cfg=FAIL sig=C04/config/queue-config-changed-without-legacy-batcher {" ".intercalate rest}"] }
        else s
      | _, _ => { s with fails := s.fails ++ ["prop accepted_cfg=FAIL sig=C04/config/unparsable-merged"] }
    | _ :: "built" :: rest =>
      match Cfg.parseBuilt rest with
      | some b =>
        if s.implValid && !builtOk b then
          { s with fails := s.fails ++ [s!"prop accepted_cfg=FAIL sig=C04/config/accepted-config-breaks-batcher-precondition {" ".intercalate rest}"] }
        else s
      | Option.none => { s with fails := s.fails ++ ["prop accepted_cfg=FAIL sig=C04/config/unparsable-built"] }
    | _ => s
  onEnd := fun s =>
    match s.fails with
    | f :: _ => [f]
    | [] => ["prop accepted_cfg=ok"]

end OtelVerif.Drivers.C04

def main : IO UInt32 :=
  runMulti [("c04-ms", run OtelVerif.Drivers.C04.msHandler), ("c04-batcher", run OtelVerif.Drivers.C04.batcherHandler),
    ("c04-config", run OtelVerif.Drivers.C04.configHandler),
    ("c04-e2e", run OtelVerif.Drivers.C04.e2eHandler)]
