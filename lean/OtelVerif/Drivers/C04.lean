import OtelVerif.Common.Line
import OtelVerif.Model.C04
/-! driver for C04 (stub) -/
def main : IO UInt32 := do
  IO.eprintln "drv_c04: not built yet"
  return 2
