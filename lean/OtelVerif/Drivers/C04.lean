import OtelVerif.Common.Line
import OtelVerif.Model.C04
/-! driver for C04: models `c04-ms` (MergeSplit, exact differential) and `c04-batcher` -/
open OtelVerif OtelVerif.Line OtelVerif.Payload OtelVerif.C04

namespace OtelVerif.Drivers.C04

def keep : Bool := OtelVerif.Gen.C04Shape.metricFragmentKeepsIdentity

/-- one output request as printed by both sides -/
structure OutReq where
  cs : Int
  sz : Int
  toks : List String

inductive Inp where
  | none
  | logs (sig : String) (sz : Sizer) (max : Int) (p : List Res)
  | metrics (sz : Sizer) (max : Int) (p : List MRes)

/-- the receiver's elements (id, weight in items) and whether there was a second request: for the oracle of the
criterion `Consume` uses on the results of a real MergeSplit -/
structure Split where
  r1 : List (Nat × Nat) := []
  r2 : List (Nat × Nat) := []
  merged : Bool := false

structure MS where
  inp : Inp := .none
  impl : List OutReq := []     -- reversed
  implDiverged : Bool := false
  bad : Option String := none
  split : Split := {}

/-- `Consume` decides with `ItemsCount(first result) > ItemsCount(pending batch)` whether the first result holds part of
the new request.  Checked on the REAL results (ids; elements that weigh no item - a profile without samples - hold nothing
that counts; cases with id-less zero-length elements are skipped: their ids do not tell the two requests apart). -/
def checkCriterion (name : String) (sp : Split) (first : List (Nat × Nat)) : List String :=
  if !sp.merged || (sp.r1 ++ sp.r2).any (fun x => x.1 == 0) then [] else
  let w := fun (l : List (Nat × Nat)) => (l.map (·.2)).sum
  let holdsNew := first.any (fun x => x.2 > 0 && sp.r2.any (fun y => y.1 == x.1))
  let grew := w first > w sp.r1
  [ if holdsNew == grew then "prop criterion=ok"
    else s!"prop criterion=FAIL sig=C04/mergesplit/first-result-criterion-wrong/{name} items_first={w first} items_pending={w sp.r1} holds_new={holdsNew}" ]

def showReqs {P : Type} (o : Ops P) (showP : P → String) (rs : Option (List (Req P))) : List String :=
  match rs with
  | Option.none => ["obs diverge"]
  | some rs =>
    s!"obs n {rs.length}" :: (rs.zipIdx.map (fun (r, i) => s!"obs req {i} cs={r.cached} sz={o.size r.p} | {showP r.p}")) ++
      -- `res = append(res, req)`: the receiver is mutated and returned as the LAST result (the batcher reads it back)
      ["obs last_is_receiver 1"]

def parseSizer (s : String) : Option Sizer :=
  if s = "items" then some ⟨false⟩ else if s = "bytes" then some ⟨true⟩ else Option.none

def szName (sz : Sizer) : String := if sz.bytes then "bytes" else "items"

/-- property oracle on the implementation's output (independent of the model's output).  Signatures are structural:
`<clause>/<signal>-<sizer>` so that an open finding about one signal/sizer never hides another one. -/
def checkLogs (sig : String) (sz : Sizer) (max : Int) (src : List Res) (outs : List OutReq) : List String :=
  match outs.mapM (fun o => Codec.parsePayload o.toks) with
  | Option.none => ["prop conserve=FAIL sig=C04/mergesplit/unparsable-output"]
  | some ps =>
    let a := ps.flatMap flatten
    let b := flatten src
    let ids := fun (l : List Ctx) => l.map (·.2.2.id)
    [ if permB a b then "prop conserve=ok"
      else if permB (ids a) (ids b) then s!"prop conserve=FAIL sig=C04/mergesplit/item-context-changed/{sig}-{szName sz}"
      else s!"prop conserve=FAIL sig=C04/mergesplit/items-lost-or-duplicated/{sig}-{szName sz}",
      -- FIFO: the results, concatenated, list the items in arrival order, receiver first (what `Consume` relies on)
      if ids a == ids b then "prop fifo=ok" else s!"prop fifo=FAIL sig=C04/mergesplit/not-fifo/{sig}-{szName sz}",
      -- items that weigh nothing in the configured unit (a profile without samples under the items sizer) do not count
      match (outs.zip ps).find? (fun (o, p) => max != 0 && o.sz > max && ((flatten p).filter (fun c => itemSize sz c.2.2 > 0)).length > 1) with
      | some (o, p) =>
        -- elements whose own encoding is empty still take tag + length inside their parent: named separately
        let zl := if sz.bytes && (flatten p).any (fun c => c.2.2.bsz == 0) then "-zero-length-elements" else ""
        s!"prop bound=FAIL sig=C04/mergesplit/batch-exceeds-max/{sig}-{szName sz}{zl} size={o.sz} max={max} items={(flatten p).length}"
      | Option.none => "prop bound=ok",
      match (outs.zip ps).find? (fun (o, p) => o.cs != -1 && o.cs != payloadSize sz p) with
      | some (o, p) => s!"prop cached=FAIL sig=C04/mergesplit/cached-size-wrong/{sig}-{szName sz} cached={o.cs} size={payloadSize sz p}"
      | Option.none => "prop cached=ok" ]

/-- the metric the pinned `extract*DataPoints` leave in a batch when no data point fitted: typed, no points, and
none of name / unit / description / metadata (the generator always names its metrics) -/
def isEmptyFragment (m : Metric) : Bool :=
  m.points.isEmpty && m.mmeta.ty != 0 && m.mmeta.name == 0 && m.mmeta.unit == 0 && m.mmeta.desc == 0 &&
  m.mmeta.md == 0 && m.mmeta.base == 0

/-- the payload without those fragments and without the scope / resource copies that are in the batch only because
of them -/
def stripFragments (p : List MRes) : List MRes :=
  p.filterMap (fun r =>
    let scopes := r.scopes.filterMap (fun s =>
      let ms := s.metrics.filter (fun m => !isEmptyFragment m)
      if ms.isEmpty && !s.metrics.isEmpty then Option.none else some { s with metrics := ms })
    if scopes.isEmpty && !r.scopes.isEmpty then Option.none else some { r with scopes := scopes })

def hasFragment (p : List MRes) : Bool := p.any (fun r => r.scopes.any (fun s => s.metrics.any isEmptyFragment))

/-- a data point whose context differs from the source only by the metric being the anonymous typed fragment of the
pinned code (same resource, scope, both schema URLs, same type) -/
def anonymousFragmentOf (src out : MCtx) : Bool :=
  src.1 == out.1 && src.2.1 == out.2.1 && src.2.2.2 == out.2.2.2 &&
  (src.2.2.1 == out.2.2.1 || out.2.2.1 == { zeroMMeta with ty := src.2.2.1.ty })

def checkMetrics (sz : Sizer) (max : Int) (src : List MRes) (outs : List OutReq) : List String :=
  match outs.mapM (fun o => Codec.parseMPayload o.toks) with
  | Option.none => ["prop conserve=FAIL sig=C04/mergesplit/unparsable-output"]
  | some ps =>
    let a := ps.flatMap mflatten
    let b := mflatten src
    let ids := fun (l : List MCtx) => l.map (·.2.2.2.id)
    let over := (outs.zip ps).filter (fun (o, p) => max != 0 && o.sz > max && (mflatten p).length > 1)
    -- explained = bytes sizer, the batch holds empty fragments, and without them (and the containers copied for them) it fits
    let explained := fun (x : OutReq × List MRes) => sz.bytes && hasFragment x.2 && mpayloadSize sz (stripFragments x.2) ≤ max
    [ if permB a b then "prop conserve=ok"
      else if permB (ids a) (ids b) then
        if a.all (fun o => b.any (fun s => s.2.2.2.id == o.2.2.2.id && anonymousFragmentOf s o)) then
          s!"prop conserve=FAIL sig=C04/mergesplit/metric-identity-lost/anonymous-split-off-fragment"
        else s!"prop conserve=FAIL sig=C04/mergesplit/point-context-changed/metrics-{szName sz}"
      else s!"prop conserve=FAIL sig=C04/mergesplit/points-lost-or-duplicated/metrics-{szName sz}",
      if ids a == ids b then "prop fifo=ok" else s!"prop fifo=FAIL sig=C04/mergesplit/not-fifo/metrics-{szName sz}",
      match over.find? (fun x => !explained x), over.head? with
      | some (o, p), _ =>
        let zl := if sz.bytes && (mflatten p).any (fun c => c.2.2.2.bsz == 0) then "-zero-length-elements" else ""
        s!"prop bound=FAIL sig=C04/mergesplit/batch-exceeds-max/metrics-{szName sz}{zl} size={o.sz} max={max} items={(mflatten p).length}"
      | Option.none, some (o, p) =>
        s!"prop bound=FAIL sig=C04/mergesplit/batch-exceeds-max/metrics-bytes-empty-fragment size={o.sz} max={max} without_fragments={mpayloadSize sz (stripFragments p)}"
      | Option.none, Option.none => "prop bound=ok",
      -- the bytes accounting of a metric cut in two is an upper bound (the data message's own length prefix may shrink)
      match (outs.zip ps).find? (fun (o, p) => o.cs != -1 && (if sz.bytes then o.cs < mpayloadSize sz p else o.cs != mpayloadSize sz p)) with
      | some (o, p) => s!"prop cached=FAIL sig=C04/mergesplit/cached-size-wrong/metrics-{szName sz} cached={o.cs} size={mpayloadSize sz p}"
      | Option.none => "prop cached=ok" ]

def msHandler : Handler MS where
  init := {}
  onOp := fun s toks =>
    match toks with
    | "delta" :: n :: [] =>
      match n.toInt? with
      | some n => (s, [s!"obs delta {(Sizer.delta ⟨true⟩ n)}"])
      | Option.none => (s, ["obs bad-op"])
    | "ms" :: rest =>
      let parts := Codec.bars rest
      match parts with
      | [hdr, t1, t2] =>
        match kv hdr "sig", (kv hdr "sizer").bind parseSizer, kvInt hdr "max", kvInt hdr "c1", kv hdr "c2" with
        | some sig, some sz, some max, some c1, some c2 =>
          let c2? : Option (Option Int) := if c2 = "none" then some Option.none else (c2.toInt?).map some
          match c2? with
          | Option.none => (s, ["obs bad-op"])
          | some c2 =>
            if sig = "metrics" then
              match Codec.parseMPayload t1, Codec.parseMPayload t2 with
              | some p1, some p2 =>
                let o := metricsOps keep sz
                let r := mergeSplit o max { p := p1, cached := c1 } (c2.map (fun c => { p := p2, cached := c }))
                let iw := fun (p : List MRes) => (mflatten p).map (fun c => (c.2.2.2.id, 1))
                ({ s with inp := .metrics sz max (p1 ++ p2), split := ⟨iw p1, iw p2, c2.isSome⟩ }, showReqs o Codec.showMPayload r)
              | _, _ => (s, ["obs bad-op"])
            else
              match Codec.parsePayload t1, Codec.parsePayload t2 with
              | some p1, some p2 =>
                let o := logsOps sz
                let r := mergeSplit o max { p := p1, cached := c1 } (c2.map (fun c => { p := p2, cached := c }))
                let iw := fun (p : List Res) => (flatten p).map (fun c => (c.2.2.id, c.2.2.w))
                ({ s with inp := .logs sig sz max (p1 ++ p2), split := ⟨iw p1, iw p2, c2.isSome⟩ }, showReqs o Codec.showPayload r)
              | _, _ => (s, ["obs bad-op"])
        | _, _, _, _, _ => (s, ["obs bad-op"])
      | _ => (s, ["obs bad-op"])
    | _ => (s, ["obs bad-op"])
  onObs := fun s toks =>
    match toks with
    | _ :: "req" :: _ :: rest =>
      match Codec.bars rest with
      | [hdr, t] =>
        match kvInt hdr "cs", kvInt hdr "sz" with
        | some cs, some sz => { s with impl := ⟨cs, sz, t⟩ :: s.impl }
        | _, _ => { s with bad := some "unparsable req line" }
      | _ => { s with bad := some "unparsable req line" }
    | [_, "diverge"] => { s with implDiverged := true }
    | _ => s
  onEnd := fun s =>
    if s.implDiverged then
      [match s.inp with
       | .logs sig sz _ _ => s!"prop terminates=FAIL sig=C04/mergesplit/does-not-terminate/{sig}-{szName sz}"
       | .metrics sz _ _ => s!"prop terminates=FAIL sig=C04/mergesplit/does-not-terminate/metrics-{szName sz}"
       | .none => "prop terminates=FAIL sig=C04/mergesplit/does-not-terminate"] else
    match s.bad with
    | some b => [s!"prop conserve=FAIL sig=C04/mergesplit/unparsable-output {b}"]
    | Option.none =>
      match s.inp with
      | .none => []
      | .logs sig sz max p =>
        checkLogs sig sz max p s.impl.reverse ++
          (match s.impl.reverse.head?.bind (fun o => Codec.parsePayload o.toks) with
           | some f => checkCriterion s!"{sig}-{szName sz}" s.split ((flatten f).map (fun c => (c.2.2.id, c.2.2.w)))
           | Option.none => [])
      | .metrics sz max p =>
        checkMetrics sz max p s.impl.reverse ++
          (match s.impl.reverse.head?.bind (fun o => Codec.parseMPayload o.toks) with
           | some f => checkCriterion s!"metrics-{szName sz}" s.split ((mflatten f).map (fun c => (c.2.2.2.id, 1)))
           | Option.none => [])

/-! ### batcher -/

def showParts (p : Parts) : String :=
  if p.isEmpty then "-" else ",".intercalate (p.map (fun (id, n) => s!"{id}:{n}"))

def parseParts (s : String) : Option Parts :=
  if s = "-" then some [] else
  (s.splitOn ",").mapM (fun x => match x.splitOn ":" with
    | [a, b] => do pure (← a.toNat?, ← b.toNat?)
    | _ => Option.none)

def sortStrings (l : List String) : List String := l.mergeSort (fun a b => a ≤ b)

/-- implementation-side view for the oracle -/
structure IFlight where
  fid : Nat
  ids : List Nat
  finished : Option Err := none   -- some outcome

def parseKind (k : Nat) : Option Err :=
  match k with
  | 0 => some {}
  | 1 => some { plain := true }
  | 2 => some { shut := true }
  | _ => Option.none

def b01 (b : Bool) : Nat := if b then 1 else 0

structure BS where
  cfg : BCfg := ⟨0, 0⟩
  st : BState := {}
  consumed : List Nat := []
  iflights : List IFlight := []
  ifired : List (Nat × Err) := []
  fails : List String := []
  lastFinish : Option (Nat × Err) := none
  pendingDisabled : Option Err := none

def startFlights (s : BS) (fl : List (Parts × List DoneObj)) : BS × List String :=
  -- the harness numbers the flushes started by one label in the order of their content
  let sorted := (fl.map (fun x => (showParts x.1, x))).mergeSort (fun a b => a.1 ≤ b.1)
  let (st, lines) := sorted.foldl (fun (acc : BState × List String) x =>
    let st := acc.1
    ({ st with flights := st.flights ++ [⟨st.nextF, x.2.1, x.2.2⟩], nextF := st.nextF + 1 },
     acc.2 ++ [s!"obs flush f={st.nextF} parts={x.1}"])) (s.st, [])
  ({ s with st := st }, lines)

def showCur (s : BS) : String :=
  match s.st.cur with
  | some (p, _) => s!"obs cur {showParts p}"
  | Option.none => "obs cur none"

def showFired (l : List (Nat × Err)) : List String :=
  sortStrings (l.map (fun (id, e) => s!"obs fired id={id} err={b01 e.any} plain={b01 e.plain} shut={b01 e.shut}"))

def batcherHandler : Handler BS where
  init := {}
  onOp := fun s toks =>
    match toks with
    | ["cfg", mn, mx] =>
      match kvNat [mn] "min", kvNat [mx] "max" with
      | some mn, some mx => ({ s with cfg := ⟨mn, mx⟩ }, ["obs done"])
      | _, _ => (s, ["obs bad-op"])
    | ["consume", id, us] =>
      match kvNat [id] "id", (kv [us] "units").bind (fun u => (u.splitOn ",").mapM String.toNat?) with
      | some id, some us =>
        let r := s.st.consume s.cfg id (us.map (fun n => (id, n)))
        let (s', lines) := startFlights { s with st := r.1, consumed := s.consumed ++ [id] } r.2
        (s', lines ++ [showCur s'])
      | _, _ => (s, ["obs bad-op"])
    | ["finish", f, kind] =>
      match kvNat [f] "f", (kvNat [kind] "kind").bind parseKind with
      | some f, some e =>
        let r := s.st.finish f e
        let s' := { s with st := r.1, lastFinish := some (f, e) }
        (s', showFired r.2 ++ [showCur s'])
      | _, _ => (s, ["obs bad-op"])
    | ["dconsume", id, us, kind] =>
      -- disabled batcher: one synchronous flush per request
      match kvNat [id] "id", (kv [us] "units").bind (fun u => (u.splitOn ",").mapM String.toNat?), (kvNat [kind] "kind").bind parseKind with
      | some id, some us, some e =>
        let f := s.st.nextF
        let s' := { s with st := { s.st with nextF := f + 1 }, consumed := s.consumed ++ [id], pendingDisabled := some e }
        (s', [s!"obs flush f={f} parts={showParts (us.map (fun n => (id, n)))}"] ++ showFired (consumeDisabled id e) ++ ["obs cur none"])
      | _, _, _ => (s, ["obs bad-op"])
    | ["tick"] | ["shutdown"] =>
      let r := s.st.flushCur
      let (s', lines) := startFlights { s with st := r.1 } r.2
      (s', lines ++ [showCur s'])
    | _ => (s, ["obs bad-op"])
  onObs := fun s toks =>
    -- a `finish` label takes effect on the oracle's view before the implementation's `fired` lines are judged
    let s := match s.lastFinish with
      | some (f, err) => { s with lastFinish := Option.none,
                                   iflights := s.iflights.map (fun g => if g.fid = f then { g with finished := some err } else g) }
      | Option.none => s
    match toks with
    | [_, "flush", f, parts] =>
      match kvNat [f] "f", (kv [parts] "parts").bind parseParts with
      | some f, some p => { s with iflights := s.iflights ++ [{ fid := f, ids := (p.map (·.1)).eraseDups, finished := s.pendingDisabled }],
                                   pendingDisabled := Option.none }
      | _, _ => { s with fails := s.fails ++ ["prop done=FAIL sig=C04/batcher/unparsable-flush"] }
    | [_, "fired", id, err, plain, shut] =>
      match kvNat [id] "id", kvNat [err] "err", kvNat [plain] "plain", kvNat [shut] "shut" with
      | some id, some err, some plain, some shut =>
        let mine := s.iflights.filter (fun g => g.ids.contains id)
        let got : Err := { plain := plain == 1, shut := shut == 1 }
        let want : Err := mine.foldl (fun acc g => acc.or (g.finished.getD {})) {}
        let s := { s with ifired := s.ifired ++ [(id, got)] }
        if (s.ifired.filter (·.1 = id)).length > 1 then
          { s with fails := s.fails ++ [s!"prop done=FAIL sig=C04/batcher/done-fired-twice id={id}"] }
        else if mine.any (fun g => g.finished.isNone) then
          { s with fails := s.fails ++ [s!"prop done=FAIL sig=C04/batcher/done-before-all-batches-finished id={id}"] }
        else if mine.isEmpty then
          { s with fails := s.fails ++ [s!"prop done=FAIL sig=C04/batcher/done-without-any-batch id={id}"] }
        else if (err == 1) != want.any then
          { s with fails := s.fails ++ [s!"prop done=FAIL sig=C04/batcher/done-error-mismatch id={id} reported={err}"] }
        else if got != want then
          -- an error is reported, but not every failed part's classification survived the combination
          { s with fails := s.fails ++ [s!"prop done=FAIL sig=C04/batcher/done-error-classification-lost id={id} got_plain={plain} got_shutdown={shut} want_plain={b01 want.plain} want_shutdown={b01 want.shut}"] }
        else s
      | _, _, _, _ => { s with fails := s.fails ++ ["prop done=FAIL sig=C04/batcher/unparsable-fired"] }
    | _ => s
  onEnd := fun s =>
    -- conservation through the batcher: every unit of every consumed request left in exactly one flush
    let missing := s.consumed.filter (fun id => !(s.ifired.any (·.1 = id)))
    (match s.fails with
     | f :: _ => [f]
     | [] => ["prop done=ok"]) ++
    (if missing.isEmpty then ["prop all_fired=ok"] else [s!"prop all_fired=FAIL sig=C04/batcher/done-never-fired ids={missing}"])

end OtelVerif.Drivers.C04

def main : IO UInt32 :=
  runMulti [("c04-ms", run OtelVerif.Drivers.C04.msHandler), ("c04-batcher", run OtelVerif.Drivers.C04.batcherHandler)]
