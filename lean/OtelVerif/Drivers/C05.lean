import OtelVerif.Common.Line
import OtelVerif.Model.C05
/-! driver for C05 (stub) -/
def main : IO UInt32 := do
  IO.eprintln "drv_c05: not built yet"
  return 2
